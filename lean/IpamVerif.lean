import IpamVerif.Addr
import IpamVerif.AddrLemmas
import IpamVerif.Props.C13
