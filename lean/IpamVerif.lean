import IpamVerif.Addr
import IpamVerif.AddrLemmas
import IpamVerif.Pool
import IpamVerif.PoolLemmas
import IpamVerif.Props.C13
import IpamVerif.Props.C14
import IpamVerif.Props.C19
