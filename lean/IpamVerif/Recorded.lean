import IpamVerif.AllocLemmas
import IpamVerif.System
import IpamVerif.Props.C02
/-!
# C01, the assignment step

A pod CIDR `h` of another node is *recorded* when every address of it lies in a used block of some pool of
its family (`Recorded`).  `allocateCIDR` hands out a block only if it overlaps no used block of any pool of
the family (`allocate_ok`, from the loop invariant of `allocLoop_spec`), hence never a block that meets a
recorded CIDR — whatever ClusterCIDR records it: overlapping ranges, nested ranges, different per-node
sizes, both families (`assigned_block_disjoint_from_recorded`).  The reservation is made before anything is
written to the node (`reservation_recorded`).  These two facts hold with no assumption on the history; the
history-level theorem built on them is in `Safety.lean` / `Props/C01.lean`.
-/
namespace Ipam.C01
open Ipam

/-- every address of `h` lies in a block in use in some pool of its family -/
def Recorded (a : Alloc) (h : Cidr) : Prop := ∀ x, h.Mem x → ∃ u ∈ a.usedCidrs h.fam, u.Mem x

theorem usedCidrs_WF {a : Alloc} (ha : a.WF) {g : Fam} {u : Cidr} (hu : u ∈ a.usedCidrs g) : u.WF ∧ u.fam = g := by
  unfold Alloc.usedCidrs at hu
  obtain ⟨q, hq, hm⟩ := List.mem_flatMap.mp hu
  obtain ⟨j, hj, rfl⟩ := List.mem_map.mp hm
  obtain ⟨idx, d, hget, hd⟩ := (a.mem_pools_iff g q).mp hq
  have hok := ha idx d hget g q hd
  exact ⟨goBlock_WF hok (hok.1.bound j hj), hok.2.2⟩

/-- **the assignment step**: a block `allocateCIDR` hands out meets no recorded CIDR -/
theorem assigned_block_disjoint_from_recorded {a a' : Alloc} (ha : a.WF) {i : Nat} {f : Fam} {c : CC} {p : Pool}
    {blk : Cidr} (hget : a.get? i = some c) (hp : c.pool f = some p)
    (h : a.allocate i f = (a', some blk)) {hd : Cidr} (hfam : hd.fam = f) (hrec : Recorded a hd) :
    blk.Disjoint hd := by
  obtain ⟨k, hk, hb, hnb, hwf, hbf⟩ := allocate_ok hget hp (ha i c hget f p hp) h
  -- `blk` overlaps no used block
  have hno : ∀ u ∈ a.usedCidrs blk.fam, blk.Disjoint u := by
    intro u hu
    have hnot : ¬ (a.blocked blk = true) := by rw [hnb]; simp
    rw [Alloc.blocked_iff] at hnot
    have huw := usedCidrs_WF ha hu
    false_or_by_contra; rename_i hnd
    exact hnot ⟨u, hu, (goOverlap_iff hwf huw.1 (huw.2 ▸ rfl)).mpr hnd⟩
  -- a common address of `blk` and `hd` would lie in a used block
  unfold Cidr.Disjoint
  false_or_by_contra; rename_i hnd
  have hx : ∃ x, blk.Mem x ∧ hd.Mem x := by
    have := blk.size_pos; have := hd.size_pos
    by_cases hle : blk.addr ≤ hd.addr
    · exact ⟨hd.addr, ⟨hle, by omega⟩, hd.mem_addr⟩
    · exact ⟨blk.addr, blk.mem_addr, ⟨by omega, by omega⟩⟩
  obtain ⟨x, hxb, hxh⟩ := hx
  obtain ⟨u, hu, hxu⟩ := hrec x hxh
  rw [hfam, ← hbf] at hu
  exact Cidr.not_disjoint_of_mem hxb hxu (hno u hu)

/-- a reservation is itself recorded: once `allocateCIDR` has returned a block, that block is used in the
serving pool — before anything is written to the node — so the next allocation cannot produce it again -/
theorem reservation_recorded {a a' : Alloc} (ha : a.WF) {i : Nat} {f : Fam} {c : CC} {p : Pool} {blk : Cidr}
    (hget : a.get? i = some c) (hp : c.pool f = some p) (h : a.allocate i f = (a', some blk)) :
    ∃ c' p', a'.get? i = some c' ∧ c'.pool f = some p' ∧ ∃ k, k ∈ p'.used ∧ blk = goBlock p'.geo k := by
  have hok := ha i c hget f p hp
  obtain ⟨k, x, p', hk, hb, _, _, hx, hocc, ha'⟩ := (allocate_spec hget hp hok).2 a' blk h
  refine ⟨c.setPool f p', p', by rw [ha']; exact Alloc.get?_set_self _ _ _ _ hget, CC.pool_setPool_same _ _ _, k, ?_, ?_⟩
  · have hok1 : PoolOK f ({ p with cursor := x } : Pool) :=
      ⟨{ toInv0 := { nodup := hok.1.nodup, bound := hok.1.bound, count_eq := hok.1.count_eq, cursor_lt := hx,
                     metrics := hok.1.metrics, maxg := hok.1.maxg }, usage_eq := hok.1.usage_eq }, hok.2.1, hok.2.2⟩
    have hbw : blk.WF := hb ▸ goBlock_WF hok hk
    obtain ⟨_, _, _, _, hm⟩ := (C14.occupy_refines hok1.2.1 hok1.1 hbw).2 p' hocc
    rw [hm k]
    right
    refine ⟨hk, ?_⟩
    rw [hb]
    exact Cidr.not_disjoint_of_mem (goBlock p.geo k).mem_addr (goBlock p.geo k).mem_addr
  · obtain ⟨_, hg, _⟩ := (C14.occupy_refines (p := { p with cursor := x }) hok.2.1
      ⟨{ nodup := hok.1.nodup, bound := hok.1.bound, count_eq := hok.1.count_eq, cursor_lt := hx,
         metrics := hok.1.metrics, maxg := hok.1.maxg }, hok.1.usage_eq⟩ (hb ▸ goBlock_WF hok hk)).2 p' hocc
    rw [hg]; exact hb

example : Recorded ⟨[⟨"k", [], "a", some { Pool.new ⟨.v4, 0x0a000000, 24, 26⟩ "10.0.0.0/24" with used := [1], count := 1 }, none, [], false⟩]⟩
    ⟨.v4, 0x0a000040, 27⟩ := by
  intro x hx
  refine ⟨goBlock ⟨.v4, 0x0a000000, 24, 26⟩ 1, by decide, ?_⟩
  have h1 : (goBlock ⟨.v4, 0x0a000000, 24, 26⟩ 1) = ⟨.v4, 0x0a000040, 26⟩ := by decide
  rw [h1]
  obtain ⟨a, b⟩ := hx
  simp only [Cidr.size, Cidr.hostBits, Cidr.W, Fam.W] at a b ⊢
  constructor <;> simp only [Cidr.size, Cidr.hostBits, Cidr.W, Fam.W] <;> omega

end Ipam.C01
