import IpamVerif.Safety
import IpamVerif.Pending
import IpamVerif.Shape
import IpamVerif.OnePer
import IpamVerif.Tight
import IpamVerif.BootBasics
/-!
# Restarts inside the fragment (C03, C01 across restarts)

`Safety.lean` proves the invariant `Inv` for histories without a restart.  Here the controller may be stopped and
started again at any instant.  The new incarnation rebuilds its pools from the ClusterCIDR objects and records the
pod CIDRs of the listed nodes; to know that every existing holder is recorded again we need to know that the
entry it was served from can be rebuilt: `CCI` ties every mapped entry to an API object that yields the same
shape (selector, name, pool geometries).  `inv_boot` re-establishes `Inv` (and `CCI`) after `boot`;
`inv3_step` / `inv3_run` give the history theorem.  Core Lean only.
-/
namespace Ipam.Restart
open Ipam Ipam.Safety Ipam.Shape Ipam.Pending

/-- the entry `reconcileCreate` / `reconcileBootstrap` builds from an object (not terminating) -/
def builtFrom (o : CCObj) : Option CC :=
  match selectorOf o.spec.sel with
  | none => none
  | some reqs => buildCC (printSel reqs) reqs o.name o.spec false

abbrev ShapeT := String × List Req × String × Option Geo × Option Geo
def shName (x : ShapeT) : String := x.2.2.1

theorem shName_sh (c : CC) : shName (sh c) = c.name := rfl

theorem buildCC_name {key : String} {reqs : List Req} {name : String} {spec : CCSpec} {t : Bool} {c : CC}
    (h : buildCC key reqs name spec t = some c) : c.name = name ∧ c.key = key ∧ c.reqs = reqs ∧ c.term = t ∧ c.assoc = [] := by
  unfold buildCC at h
  split at h
  · cases h
  · split at h
    · cases h
    · split at h
      · cases h
      · cases h; exact ⟨rfl, rfl, rfl, rfl, rfl⟩

theorem buildPool_used {fld : RangeField} {want : Fam} {hb : Int} {p : Pool} (h : buildPool fld want hb = some (some p)) :
    p.used = [] := by
  unfold buildPool at h
  split at h
  · cases h
  · cases h
  · split at h
    · cases h
    · split at h
      · cases h
      · simp only [Option.some.injEq] at h
        rw [← h]; rfl

theorem buildCC_used {key : String} {reqs : List Req} {name : String} {spec : CCSpec} {t : Bool} {c : CC}
    (h : buildCC key reqs name spec t = some c) : ∀ f p, c.pool f = some p → p.used = [] := by
  unfold buildCC at h
  split at h
  · cases h
  · rename_i p4 h4
    split at h
    · cases h
    · rename_i p6 h6
      split at h
      · cases h
      · cases h
        intro f p hp
        cases f with
        | v4 =>
          have : p4 = some p := hp
          subst this
          exact buildPool_used h4
        | v6 =>
          have : p6 = some p := hp
          subst this
          exact buildPool_used h6

theorem builtFrom_name {o : CCObj} {c : CC} (h : builtFrom o = some c) : c.name = o.name ∧ c.term = false ∧ c.assoc = [] := by
  unfold builtFrom at h
  split at h
  · cases h
  · obtain ⟨h1, _, _, h4, h5⟩ := buildCC_name h; exact ⟨h1, h4, h5⟩

theorem builtFrom_congr {o o' : CCObj} (hn : o'.name = o.name) (hs : o'.spec = o.spec) : builtFrom o' = builtFrom o := by
  unfold builtFrom; rw [hn, hs]

/-- the ClusterCIDR side of the invariant, over the components it talks about -/
structure CCI (api view : List CCObj) (al : Alloc) : Prop where
  ent : ∀ x ∈ SH al, ∃ o c0, getCC api (shName x) = some o ∧ builtFrom o = some c0 ∧ x = sh c0
  gen : ∀ n o, getCC api n = some o → o.generation ≤ 1
  viewSpec : ∀ n v o, getCC view n = some v → getCC api n = some o → v.spec = o.spec
  viewLive : ∀ n v, getCC view n = some v → v.deleting = false → ∃ o, getCC api n = some o
  delFin : ∀ n o, getCC api n = some o → o.deleting = true → o.finalizers ≠ []

theorem getCC_append_self (l : List CCObj) (o : CCObj) (h : getCC l o.name = none) : getCC (l ++ [o]) o.name = some o := by
  unfold getCC at *
  rw [List.find?_append, h]
  simp

/-- an API object is replaced by one with the same name, spec and generation -/
theorem cci_api_put {api view : List CCObj} {al : Alloc} (h : CCI api view al) (o o' : CCObj)
    (ho : getCC api o.name = some o) (hn : o'.name = o.name) (hs : o'.spec = o.spec) (hg : o'.generation = o.generation)
    (hd : o'.deleting = true → o'.finalizers ≠ []) : CCI (putCC api o') view al := by
  have hself : getCC (putCC api o') o.name = some o' := by
    have := getCC_putCC_self api o'
    rw [hn] at this; exact this
  have hne : ∀ n, n ≠ o.name → getCC (putCC api o') n = getCC api n := fun n hx => getCC_putCC_ne _ _ (by rw [hn]; exact hx)
  constructor
  · intro x hx
    obtain ⟨ob, c0, h1, h2, h3⟩ := h.ent x hx
    by_cases hxn : shName x = o.name
    · rw [hxn] at h1; rw [ho] at h1; cases h1
      exact ⟨o', c0, by rw [hxn]; exact hself, by rw [builtFrom_congr hn hs]; exact h2, h3⟩
    · exact ⟨ob, c0, by rw [hne _ hxn]; exact h1, h2, h3⟩
  · intro n ob hob
    by_cases hxn : n = o.name
    · subst hxn; rw [hself] at hob; cases hob; rw [hg]; exact h.gen _ o ho
    · rw [hne _ hxn] at hob; exact h.gen n ob hob
  · intro n v ob hv hob
    by_cases hxn : n = o.name
    · subst hxn; rw [hself] at hob; cases hob; rw [hs]; exact h.viewSpec _ v o hv ho
    · rw [hne _ hxn] at hob; exact h.viewSpec n v ob hv hob
  · intro n v hv hvd
    by_cases hxn : n = o.name
    · subst hxn; exact ⟨o', hself⟩
    · rw [hne _ hxn]; exact h.viewLive n v hv hvd
  · intro n ob hob hdel
    by_cases hxn : n = o.name
    · subst hxn; rw [hself] at hob; cases hob; exact hd hdel
    · rw [hne _ hxn] at hob; exact h.delFin n ob hob hdel

/-- an API object goes: no entry carries its name, and the cache does not show it as live -/
theorem cci_api_del {api view : List CCObj} {al : Alloc} (h : CCI api view al) (name : String)
    (hent : ∀ x ∈ SH al, shName x ≠ name) (hview : ∀ v, getCC view name = some v → v.deleting = true) :
    CCI (delCC api name) view al := by
  have hne : ∀ n, n ≠ name → getCC (delCC api name) n = getCC api n := fun n hx => getCC_delCC_ne _ hx
  have hself := getCC_delCC_self api name
  constructor
  · intro x hx
    obtain ⟨ob, c0, h1, h2, h3⟩ := h.ent x hx
    exact ⟨ob, c0, by rw [hne _ (hent x hx)]; exact h1, h2, h3⟩
  · intro n ob hob
    by_cases hxn : n = name
    · subst hxn; rw [hself] at hob; cases hob
    · rw [hne _ hxn] at hob; exact h.gen n ob hob
  · intro n v ob hv hob
    by_cases hxn : n = name
    · subst hxn; rw [hself] at hob; cases hob
    · rw [hne _ hxn] at hob; exact h.viewSpec n v ob hv hob
  · intro n v hv hvd
    by_cases hxn : n = name
    · subst hxn
      have := hview v hv
      rw [hvd] at this; cases this
    · rw [hne _ hxn]; exact h.viewLive n v hv hvd
  · intro n ob hob hdel
    by_cases hxn : n = name
    · subst hxn; rw [hself] at hob; cases hob
    · rw [hne _ hxn] at hob; exact h.delFin n ob hob hdel

/-- a new API object under a name neither the API nor the cache knows -/
theorem cci_api_add {api view : List CCObj} {al : Alloc} (h : CCI api view al) (o : CCObj)
    (hapi : getCC api o.name = none) (hview : getCC view o.name = none) (hg : o.generation ≤ 1) (hd : o.deleting = false) :
    CCI (api ++ [o]) view al := by
  have hne : ∀ n, n ≠ o.name → getCC (api ++ [o]) n = getCC api n := fun n hx => getCC_append_ne _ _ hx
  have hself := getCC_append_self api o hapi
  constructor
  · intro x hx
    obtain ⟨ob, c0, h1, h2, h3⟩ := h.ent x hx
    have hxn : shName x ≠ o.name := by
      intro he; rw [he, hapi] at h1; cases h1
    exact ⟨ob, c0, by rw [hne _ hxn]; exact h1, h2, h3⟩
  · intro n ob hob
    by_cases hxn : n = o.name
    · subst hxn; rw [hself] at hob; cases hob; exact hg
    · rw [hne _ hxn] at hob; exact h.gen n ob hob
  · intro n v ob hv hob
    by_cases hxn : n = o.name
    · subst hxn; rw [hview] at hv; cases hv
    · rw [hne _ hxn] at hob; exact h.viewSpec n v ob hv hob
  · intro n v hv hvd
    by_cases hxn : n = o.name
    · subst hxn; exact ⟨o, hself⟩
    · rw [hne _ hxn]; exact h.viewLive n v hv hvd
  · intro n ob hob hdel
    by_cases hxn : n = o.name
    · subst hxn; rw [hself] at hob; cases hob; rw [hd] at hdel; cases hdel
    · rw [hne _ hxn] at hob; exact h.delFin n ob hob hdel

/-- the cache catches up with the API object -/
theorem cci_view_put {api view : List CCObj} {al : Alloc} (h : CCI api view al) (cur : CCObj)
    (hc : getCC api cur.name = some cur) : CCI api (putCC view cur) al := by
  have hself := getCC_putCC_self view cur
  have hne : ∀ n, n ≠ cur.name → getCC (putCC view cur) n = getCC view n := fun n hx => getCC_putCC_ne _ _ hx
  refine ⟨h.ent, h.gen, ?_, ?_, h.delFin⟩
  · intro n v ob hv hob
    by_cases hxn : n = cur.name
    · subst hxn; rw [hself] at hv; cases hv; rw [hc] at hob; cases hob; rfl
    · rw [hne _ hxn] at hv; exact h.viewSpec n v ob hv hob
  · intro n v hv hvd
    by_cases hxn : n = cur.name
    · subst hxn; exact ⟨cur, hc⟩
    · rw [hne _ hxn] at hv; exact h.viewLive n v hv hvd

theorem cci_view_del {api view : List CCObj} {al : Alloc} (h : CCI api view al) (name : String) :
    CCI api (delCC view name) al := by
  have hself := getCC_delCC_self view name
  have hne : ∀ n, n ≠ name → getCC (delCC view name) n = getCC view n := fun n hx => getCC_delCC_ne _ hx
  refine ⟨h.ent, h.gen, ?_, ?_, h.delFin⟩
  · intro n v ob hv hob
    by_cases hxn : n = name
    · subst hxn; rw [hself] at hv; cases hv
    · rw [hne _ hxn] at hv; exact h.viewSpec n v ob hv hob
  · intro n v hv hvd
    by_cases hxn : n = name
    · subst hxn; rw [hself] at hv; cases hv
    · rw [hne _ hxn] at hv; exact h.viewLive n v hv hvd

/-- the allocator changes, the shapes do not -/
theorem cci_alloc {api view : List CCObj} {al al' : Alloc} (h : CCI api view al) (hs : SH al' = SH al) : CCI api view al' :=
  ⟨by rw [hs]; exact h.ent, h.gen, h.viewSpec, h.viewLive, h.delFin⟩

/-- entries go (or stay) -/
theorem cci_alloc_sub {api view : List CCObj} {al al' : Alloc} (h : CCI api view al) (hs : ∀ x ∈ SH al', x ∈ SH al) : CCI api view al' :=
  ⟨fun x hx => h.ent x (hs x hx), h.gen, h.viewSpec, h.viewLive, h.delFin⟩

/-! ## what the steps do to the three components -/

theorem attemptUpdate_cases (a : Api) (name : String) (rv : Nat) (fins : List String) (w : WOut) :
    (attemptUpdate a name rv fins w).1 = a ∨
    (∃ o, getCC a.ccs name = some o ∧ o.deleting = true ∧ fins = [] ∧
      (attemptUpdate a name rv fins w).1 = { a with ccs := delCC a.ccs name }) ∨
    (∃ o, getCC a.ccs name = some o ∧ ¬ (o.deleting = true ∧ fins = []) ∧
      (attemptUpdate a name rv fins w).1 = { a with ccs := putCC a.ccs { o with finalizers := fins, rv := o.rv + 1 } }) := by
  have key : (a.updateCC name rv fins).1 = a ∨
      (∃ o, getCC a.ccs name = some o ∧ o.deleting = true ∧ fins = [] ∧ (a.updateCC name rv fins).1 = { a with ccs := delCC a.ccs name }) ∨
      (∃ o, getCC a.ccs name = some o ∧ ¬ (o.deleting = true ∧ fins = []) ∧
        (a.updateCC name rv fins).1 = { a with ccs := putCC a.ccs { o with finalizers := fins, rv := o.rv + 1 } }) := by
    unfold Api.updateCC
    cases hg : getCC a.ccs name with
    | none => left; rfl
    | some o =>
      simp only
      split
      · left; rfl
      · split
        · rename_i hdel
          simp only [Bool.and_eq_true, List.isEmpty_iff] at hdel
          right; left; exact ⟨o, rfl, hdel.1, hdel.2, rfl⟩
        · rename_i hdel
          simp only [Bool.and_eq_true, List.isEmpty_iff] at hdel
          right; right; exact ⟨o, rfl, hdel, rfl⟩
  unfold attemptUpdate
  cases w with
  | fail => left; rfl
  | ok => exact key
  | lost => exact key

theorem delFirst_spec (key name : String) : ∀ (l l' : List CC) (r : DelResult), delFirst key name l = (l', r) →
    (r = .notFound ∧ l' = l ∧ ∀ d ∈ l, ¬ (d.key = key ∧ d.name = name)) ∨
    (r = .hasNodes ∧ ∃ l1 c l2, l = l1 ++ c :: l2 ∧ l' = l1 ++ { c with term := true } :: l2) ∨
    (r = .removed ∧ ∃ l1 c l2, l = l1 ++ c :: l2 ∧ l' = l1 ++ l2 ∧ c.key = key ∧ c.name = name ∧
      ∀ d ∈ l1, ¬ (d.key = key ∧ d.name = name)) := by
  intro l
  induction l with
  | nil => intro l' r h; simp [delFirst] at h; left; exact ⟨h.2.symm, h.1, by simp⟩
  | cons c t ih =>
    intro l' r h
    unfold delFirst at h
    split at h
    · rename_i hm
      simp only [Bool.and_eq_true, beq_iff_eq] at hm
      split at h
      · simp only [Prod.mk.injEq] at h
        right; left
        exact ⟨h.2.symm, [], c, t, rfl, h.1.symm⟩
      · simp only [Prod.mk.injEq] at h
        right; right
        exact ⟨h.2.symm, [], c, t, rfl, h.1.symm, hm.1, hm.2, by simp⟩
    · rename_i hm
      have hm' : ¬ (c.key = key ∧ c.name = name) := by
        intro hc; apply hm; simp [hc.1, hc.2]
      cases hd : delFirst key name t with
      | mk t' r' =>
        rw [hd] at h
        simp only [Prod.mk.injEq] at h
        obtain ⟨rfl, rfl⟩ := h
        rcases ih t' r' hd with ⟨h1, h2, h3⟩ | ⟨h1, l1, d, l2, h2, h3⟩ | ⟨h1, l1, d, l2, h2, h3, h4, h5, h6⟩
        · left
          refine ⟨h1, by rw [h2], ?_⟩
          intro d hd'
          rcases List.mem_cons.mp hd' with rfl | hd'
          · exact hm'
          · exact h3 d hd'
        · right; left
          exact ⟨h1, c :: l1, d, l2, by rw [h2]; rfl, by rw [h3]; rfl⟩
        · right; right
          refine ⟨h1, c :: l1, d, l2, by rw [h2]; rfl, by rw [h3]; rfl, h4, h5, ?_⟩
          intro e he
          rcases List.mem_cons.mp he with rfl | he
          · exact hm'
          · exact h6 e he

theorem sh_term (c : CC) (t : Bool) : sh { c with term := t } = sh c := rfl

theorem kn_of_sh {c d : CC} (h : sh c = sh d) : c.key = d.key ∧ c.name = d.name ∧ c.reqs = d.reqs := by
  unfold sh at h
  simp only [Prod.mk.injEq] at h
  exact ⟨h.1, h.2.2.1, h.2.1⟩

theorem mem_SH {a : Alloc} {x : ShapeT} : x ∈ SH a ↔ ∃ c ∈ a.ccs, sh c = x := by
  unfold SH; exact List.mem_map

/-- the in-memory part of `reconcileDelete` -/
theorem cci_deleteCC {api view : List CCObj} {al : Alloc} (h : CCI api view al) (hone : OnePer.NoDupKN al)
    (o : CCObj) (hv : getCC view o.name = some o) :
    CCI api view (al.deleteCC o.name o.spec).1 ∧
    (((al.deleteCC o.name o.spec).2 = .removed ∨ (al.deleteCC o.name o.spec).2 = .notFound) →
      ∀ x ∈ SH (al.deleteCC o.name o.spec).1, shName x ≠ o.name) := by
  unfold Alloc.deleteCC
  cases hsel : selectorOf o.spec.sel with
  | none => exact ⟨h, fun hr => by rcases hr with hr | hr <;> cases hr⟩
  | some reqs =>
    simp only
    cases hd : delFirst (printSel reqs) o.name al.ccs with
    | mk l' r =>
      simp only
      -- every entry carrying the name has the key of the cached object
      have hkey : ∀ d ∈ al.ccs, d.name = o.name → d.key = printSel reqs := by
        intro d hd' hdn
        obtain ⟨oa, c0, h1, h2, h3⟩ := h.ent (sh d) (mem_SH.mpr ⟨d, hd', rfl⟩)
        rw [shName_sh, hdn] at h1
        have hspec := h.viewSpec _ o oa hv h1
        unfold builtFrom at h2
        rw [← hspec, hsel] at h2
        simp only at h2
        obtain ⟨_, hk, _⟩ := buildCC_name h2
        rw [(kn_of_sh h3).1, hk]
      rcases delFirst_spec _ _ _ _ _ hd with ⟨h1, h2, h3⟩ | ⟨h1, l1, c, l2, h2, h3⟩ | ⟨h1, l1, c, l2, h2, h3, h4, h5, h6⟩
      · subst h2
        refine ⟨h, ?_⟩
        intro _ x hx hxn
        obtain ⟨d, hd', hdx⟩ := mem_SH.mp hx
        have hdn : d.name = o.name := by rw [← hxn, ← hdx]; rfl
        exact h3 d hd' ⟨hkey d hd' hdn, hdn⟩
      · refine ⟨cci_alloc h ?_, fun hr => by rcases hr with hr | hr <;> rw [h1] at hr <;> cases hr⟩
        unfold SH
        simp only
        rw [h2, h3]
        simp only [List.map_append, List.map_cons, sh_term]
      · have hsub : ∀ x ∈ SH ⟨l'⟩, x ∈ SH al := by
          intro x hx
          obtain ⟨d, hd', hdx⟩ := mem_SH.mp hx
          simp only at hd'
          rw [h3] at hd'
          refine mem_SH.mpr ⟨d, ?_, hdx⟩
          rw [h2]
          rcases List.mem_append.mp hd' with hm | hm
          · exact List.mem_append_left _ hm
          · exact List.mem_append_right _ (List.mem_cons_of_mem _ hm)
        refine ⟨cci_alloc_sub h hsub, ?_⟩
        intro _ x hx hxn
        obtain ⟨d, hd', hdx⟩ := mem_SH.mp hx
        simp only at hd'
        rw [h3] at hd'
        have hdn : d.name = o.name := by rw [← hxn, ← hdx]; rfl
        have hdal : d ∈ al.ccs := by
          rw [h2]
          rcases List.mem_append.mp hd' with hm | hm
          · exact List.mem_append_left _ hm
          · exact List.mem_append_right _ (List.mem_cons_of_mem _ hm)
        have hdk := hkey d hdal hdn
        rcases List.mem_append.mp hd' with hm | hm
        · exact h6 d hm ⟨hdk, hdn⟩
        · -- a second entry with the pair: excluded by "one entry per object"
          unfold OnePer.NoDupKN OnePer.KN at hone
          rw [h2] at hone
          simp only [List.map_append, List.map_cons] at hone
          have hnd := (List.nodup_append.mp hone).2.1
          have := (List.nodup_cons.mp hnd).1
          apply this
          refine List.mem_map.mpr ⟨d, hm, ?_⟩
          unfold OnePer.kn
          rw [hdk, hdn, h4, h5]

/-- mapping an object whose API counterpart has the same spec -/
theorem cci_createCC' {api view : List CCObj} {al al' : Alloc} (h : CCI api view al) (o oa : CCObj) (t : Bool)
    (hoa : getCC api o.name = some oa) (hspec : oa.spec = o.spec)
    (hc : al.createCC o.name o.spec t = some al') :
    CCI api view al' ∧ (∀ x ∈ SH al, x ∈ SH al') ∧ (∀ c0, builtFrom o = some c0 → sh c0 ∈ SH al') ∧
      (∀ c ∈ al'.ccs, c ∈ al.ccs ∨ (c.assoc = [] ∧ c.term = t ∧ ∀ f p, c.pool f = some p → p.used = [])) := by
  have hname : oa.name = o.name := (mem_of_getCC hoa).2
  unfold Alloc.createCC at hc
  cases hsel : selectorOf o.spec.sel with
  | none => rw [hsel] at hc; cases hc
  | some reqs =>
    rw [hsel] at hc
    simp only at hc
    split at hc
    · rename_i hm
      cases hc
      refine ⟨h, fun x hx => hx, ?_, fun c hc => Or.inl hc⟩
      intro c0 hc0
      -- the mapped entry with this key and name has the shape of `c0`
      unfold Alloc.mapped at hm
      rw [List.any_eq_true] at hm
      obtain ⟨d, hd, hdk⟩ := hm
      simp only [Bool.and_eq_true, beq_iff_eq] at hdk
      obtain ⟨ob, c1, h1, h2, h3⟩ := h.ent (sh d) (mem_SH.mpr ⟨d, hd, rfl⟩)
      rw [shName_sh, hdk.2, hoa] at h1
      cases h1
      rw [builtFrom_congr hname hspec, hc0] at h2
      cases h2
      rw [← h3]; exact mem_SH.mpr ⟨d, hd, rfl⟩
    · cases hb : buildCC (printSel reqs) reqs o.name o.spec t with
      | none => rw [hb] at hc; cases hc
      | some c =>
        rw [hb] at hc
        cases hc
        have hshc : ∀ c0, builtFrom o = some c0 → sh c0 = sh c := by
          intro c0 hc0
          unfold builtFrom at hc0
          rw [hsel] at hc0
          simp only at hc0
          unfold buildCC at hc0 hb
          split at hc0
          · cases hc0
          · rename_i p4 hp4
            rw [hp4] at hb
            simp only at hb
            split at hc0
            · cases hc0
            · rename_i p6 hp6
              rw [hp6] at hb
              simp only at hb
              split at hc0
              · cases hc0
              · rename_i hne
                rw [if_neg hne] at hb
                cases hb; cases hc0; rfl
        have hex : ∃ c0, builtFrom o = some c0 := by
          unfold builtFrom
          rw [hsel]
          simp only
          unfold buildCC at hb ⊢
          split at hb
          · cases hb
          · rename_i p4 hp4
            split at hb
            · cases hb
            · rename_i p6 hp6
              split at hb
              · cases hb
              · rename_i hne
                rw [if_neg hne]
                exact ⟨_, rfl⟩
        obtain ⟨c0, hc0⟩ := hex
        have hSH : SH ⟨al.ccs ++ [c]⟩ = SH al ++ [sh c] := by
          unfold SH; simp
        refine ⟨⟨?_, h.gen, h.viewSpec, h.viewLive, h.delFin⟩, ?_, ?_, ?_⟩
        · intro x hx
          rw [hSH] at hx
          rcases List.mem_append.mp hx with hx | hx
          · exact h.ent x hx
          · simp only [List.mem_singleton] at hx
            subst hx
            refine ⟨oa, c0, ?_, by rw [builtFrom_congr hname hspec]; exact hc0, (hshc c0 hc0).symm⟩
            rw [shName_sh, (buildCC_name hb).1]; exact hoa
        · intro x hx; rw [hSH]; exact List.mem_append_left _ hx
        · intro c1 hc1; rw [hSH, hshc c1 hc1]; exact List.mem_append_right _ (List.mem_singleton.mpr rfl)
        · intro d hd
          simp only at hd
          rcases List.mem_append.mp hd with hd | hd
          · exact Or.inl hd
          · simp only [List.mem_singleton] at hd
            subst hd
            obtain ⟨_, _, _, h4, h5⟩ := buildCC_name hb
            exact Or.inr ⟨h5, h4, buildCC_used hb⟩

theorem cci_createCC {api view : List CCObj} {al al' : Alloc} (h : CCI api view al) (o : CCObj)
    (hv : getCC view o.name = some o) (hd : o.deleting = false)
    (hc : al.createCC o.name o.spec false = some al') : CCI api view al' := by
  obtain ⟨oa, hoa⟩ := h.viewLive _ o hv hd
  exact (cci_createCC' h o oa false hoa (h.viewSpec _ o oa hv hoa).symm hc).1

theorem cci_createClusterCIDR {s : Sys} (h : CCI s.api.ccs s.ccView s.alloc) (o : CCObj) (w : WOut)
    (hv : getCC s.ccView o.name = some o) (hd : o.deleting = false) (hnf : needFin o = true) :
    CCI (createClusterCIDR s o false w).1.api.ccs (createClusterCIDR s o false w).1.ccView
      (createClusterCIDR s o false w).1.alloc := by
  unfold createClusterCIDR
  cases hc : s.alloc.createCC o.name o.spec false with
  | none => exact h
  | some al =>
    simp only [hnf, if_true]
    have h1 := cci_createCC h o hv hd hc
    rcases attemptUpdate_cases s.api o.name o.rv (o.finalizers ++ [finalizerName]) w with he | ⟨oa, _, _, hf, _⟩ | ⟨oa, hoa, _, he⟩
    · rw [he]; exact h1
    · simp at hf
    · rw [he]
      simp only
      have hname : oa.name = o.name := (mem_of_getCC hoa).2
      refine cci_api_put h1 oa _ (by rw [hname]; exact hoa) rfl rfl rfl ?_
      intro _; simp

theorem cci_reconcileDelete {s : Sys} (h : CCI s.api.ccs s.ccView s.alloc) (hone : OnePer.NoDupKN s.alloc) (o : CCObj) (w : WOut)
    (hv : getCC s.ccView o.name = some o) (hd : o.deleting = true) :
    CCI (reconcileDelete s o w).1.api.ccs (reconcileDelete s o w).1.ccView (reconcileDelete s o w).1.alloc := by
  unfold reconcileDelete
  split
  · obtain ⟨h1, h2⟩ := cci_deleteCC h hone o hv
    cases hdc : s.alloc.deleteCC o.name o.spec with
    | mk al r =>
      rw [hdc] at h1 h2
      simp only at h1 h2
      have hwrite : (r = .removed ∨ r = .notFound) →
          CCI (attemptUpdate s.api o.name o.rv (o.finalizers.filter (· != finalizerName)) w).1.ccs s.ccView al := by
        intro hr
        rcases attemptUpdate_cases s.api o.name o.rv (o.finalizers.filter (· != finalizerName)) w with he | ⟨oa, _, _, _, he⟩ | ⟨oa, hoa, hnd, he⟩
        · rw [he]; exact h1
        · rw [he]
          simp only
          refine cci_api_del h1 o.name (h2 hr) ?_
          intro v hv'; rw [hv] at hv'; cases hv'; exact hd
        · rw [he]
          simp only
          have hname : oa.name = o.name := (mem_of_getCC hoa).2
          refine cci_api_put h1 oa _ (by rw [hname]; exact hoa) rfl rfl rfl ?_
          intro hdel
          simp only at hdel ⊢
          intro hf; exact hnd ⟨hdel, hf⟩
      cases r <;> simp only
      · exact hwrite (Or.inl rfl)
      · exact hwrite (Or.inr rfl)
      · exact h1
      · exact h1
  · exact h

theorem cci_procCC {s : Sys} (h : CCI s.api.ccs s.ccView s.alloc) (hone : OnePer.NoDupKN s.alloc) (name : String) (w : WOut) :
    CCI (procCC s name w).1.api.ccs (procCC s name w).1.ccView (procCC s name w).1.alloc := by
  have key : CCI (procCCCore { s with ccQ := qDel s.ccQ name } name w).1.api.ccs
      (procCCCore { s with ccQ := qDel s.ccQ name } name w).1.ccView
      (procCCCore { s with ccQ := qDel s.ccQ name } name w).1.alloc := by
    unfold procCCCore
    cases hg : getCC s.ccView name with
    | none => exact h
    | some obj =>
      simp only [hg]
      have hname : obj.name = name := (mem_of_getCC hg).2
      have hv : getCC s.ccView obj.name = some obj := by rw [hname]; exact hg
      split
      · rename_i hd
        exact cci_reconcileDelete (s := { s with ccQ := qDel s.ccQ name }) h hone obj w hv hd
      · rename_i hd
        split
        · rename_i hnf
          exact cci_createClusterCIDR (s := { s with ccQ := qDel s.ccQ name }) h obj w hv (by simpa using hd) hnf
        · exact h
  unfold procCC
  simp only
  split
  · exact key
  · exact key

/-- the fragment of `Safety.lean`, with restarts: a restart may happen at any instant, provided the ClusterCIDR
objects of that moment have ranges the theorems cover and pairwise disjoint ones.  Three exclusions come with it:
a ClusterCIDR is deleted only once the controller's finalizer is on it or before the controller has seen it at all
(finding P15 otherwise), its spec is never edited (`ccGen`: an edited ClusterCIDR is rebuilt as terminating and the
holders of its blocks are not recorded), and a ClusterCIDR name is re-used only once the cache has dropped it. -/
def Frag3 (s : Sys) : Ev → Prop
  | .boot svcs ws => (∀ sv ∈ svcs, sv.WF) ∧ (∀ o ∈ s.api.ccs, C09.SpecOK o.spec) ∧ RangesDisj (boot s svcs ws).1.alloc
  | .ccAdd name _ => getCC s.ccView name = none
  | .ccDel name => ∀ o, getCC s.api.ccs name = some o →
      hasFin o = true ∨ ((∀ c ∈ s.alloc.ccs, c.name ≠ name) ∧ getCC s.ccView name = none)
  | .ccGen _ _ => False
  | e => Frag s e

theorem cci_step {s : Sys} (h : CCI s.api.ccs s.ccView s.alloc) (hone : OnePer.NoDupKN s.alloc) (e : Ev)
    (hnb : ∀ sv ws, e ≠ .boot sv ws) (hf : Frag3 s e) :
    CCI (step s e).1.api.ccs (step s e).1.ccView (step s e).1.alloc := by
  cases e with
  | boot sv ws => exact absurd rfl (hnb sv ws)
  | nodeAdd n => simp only [step]; split <;> exact h
  | nodeDel name => simp only [step]; split <;> exact h
  | nodeLabels name ls => simp only [step]; split <;> exact h
  | nodeDeleting name => simp only [step]; split <;> exact h
  | nodeSetCIDRs name cidrs => exact hf.elim
  | ccGen name g => exact hf.elim
  | ccAdd name spec =>
    simp only [step]
    split
    · exact h
    · rename_i hex
      have hapi : getCC s.api.ccs name = none := by
        cases hg : getCC s.api.ccs name with
        | none => rfl
        | some o => rw [hg] at hex; simp at hex
      exact cci_api_add h ⟨name, spec, [], false, 1, freshRv s⟩ hapi hf (Nat.le_refl 1) rfl
  | ccDel name =>
    simp only [step]
    cases hg : getCC s.api.ccs name with
    | none => exact h
    | some o =>
      simp only
      have hname : o.name = name := (mem_of_getCC hg).2
      split
      · rename_i hemp
        rcases hf o hg with hfin | ⟨hno, hvw⟩
        · unfold hasFin at hfin
          have : o.finalizers = [] := by simpa using hemp
          rw [this] at hfin; simp at hfin
        · refine cci_api_del h name ?_ ?_
          · intro x hx
            obtain ⟨d, hd, hdx⟩ := mem_SH.mp hx
            rw [← hdx, shName_sh]; exact hno d hd
          · intro v hv; rw [hvw] at hv; cases hv
      · rename_i hemp
        refine cci_api_put h o _ (by rw [hname]; exact hg) rfl rfl rfl ?_
        intro _
        simp only
        intro hf'; apply hemp; rw [hf']; rfl
  | ccAddFin name fin =>
    simp only [step]
    cases hg : getCC s.api.ccs name with
    | none => exact h
    | some o =>
      simp only
      have hname : o.name = name := (mem_of_getCC hg).2
      split
      · exact h
      · refine cci_api_put h o _ (by rw [hname]; exact hg) rfl rfl rfl ?_
        intro _; simp
  | deliverNode name tomb =>
    simp only [step]
    split
    · exact h
    · split
      · exact h
      · exact cci_alloc h (SH_releaseCIDR _ _)
  | deliverCC name =>
    simp only [step]
    cases hg : getCC s.api.ccs name with
    | some cur =>
      simp only
      have hname : cur.name = name := (mem_of_getCC hg).2
      exact cci_view_put h cur (by rw [hname]; exact hg)
    | none =>
      simp only
      split
      · exact cci_view_del h name
      · exact h
  | procNode name refresh ws =>
    simp only [step]
    split
    · have eff := (core_eff { s with nodeQ := qDel s.nodeQ name } name refresh ws).ccs
      have hsh := SH_procNode s name refresh ws
      have hv : (procNode s name refresh ws).1.ccView = s.ccView := by
        unfold procNode; simp only; split <;> exact eff.1
      have ha : (procNode s name refresh ws).1.api.ccs = s.api.ccs := by
        unfold procNode; simp only; split <;> exact eff.2.1
      rw [hv, ha]
      exact cci_alloc h hsh
    · exact h
  | procCC name w =>
    simp only [step]
    split
    · exact cci_procCC h hone name w
    · exact h

/-! ## start-up, part 1: the pools are rebuilt from the listed ClusterCIDR objects -/

structure BC (a0 : List CCObj) (t : Sys) : Prop where
  sim : ∀ n o0, getCC a0 n = some o0 → ∃ o, getCC t.api.ccs n = some o ∧ o.spec = o0.spec
  cci : CCI t.api.ccs [] t.alloc
  fresh : ∀ c ∈ t.alloc.ccs, c.assoc = [] ∧ c.term = false ∧ ∀ f p, c.pool f = some p → p.used = []

theorem createCC_none_builtFrom {al : Alloc} {o : CCObj} {t : Bool} (h : al.createCC o.name o.spec t = none) : builtFrom o = none := by
  unfold Alloc.createCC at h
  unfold builtFrom
  cases hsel : selectorOf o.spec.sel with
  | none => rfl
  | some reqs =>
    rw [hsel] at h
    simp only at h ⊢
    split at h
    · cases h
    · cases hb : buildCC (printSel reqs) reqs o.name o.spec t with
      | some c => rw [hb] at h; cases h
      | none =>
        unfold buildCC at hb ⊢
        split at hb
        · rfl
        · split at hb
          · rfl
          · split at hb
            · rename_i hn; rw [if_pos hn]
            · cases hb

theorem bc_create {a0 : List CCObj} {t : Sys} (h : BC a0 t) (o : CCObj) (ho : getCC a0 o.name = some o)
    (hg : o.generation ≤ 1) (hdf : o.deleting = true → o.finalizers ≠ []) (w : WOut) :
    BC a0 (createClusterCIDR t o (decide (o.generation > 1)) w).1 ∧
    (∀ x ∈ SH t.alloc, x ∈ SH (createClusterCIDR t o (decide (o.generation > 1)) w).1.alloc) ∧
    (∀ c0, builtFrom o = some c0 → sh c0 ∈ SH (createClusterCIDR t o (decide (o.generation > 1)) w).1.alloc) := by
  have hdec : decide (o.generation > 1) = false := by simp; omega
  rw [hdec]
  unfold createClusterCIDR
  cases hc : t.alloc.createCC o.name o.spec false with
  | none =>
    refine ⟨h, fun x hx => hx, ?_⟩
    intro c0 hc0
    rw [createCC_none_builtFrom hc] at hc0; cases hc0
  | some al =>
    simp only
    obtain ⟨oa, hoa, hspec⟩ := h.sim _ o ho
    obtain ⟨h1, h2, h3, h4⟩ := cci_createCC' h.cci o oa false hoa hspec hc
    have hfresh : ∀ c ∈ al.ccs, c.assoc = [] ∧ c.term = false ∧ ∀ f p, c.pool f = some p → p.used = [] := by
      intro c hcm
      rcases h4 c hcm with hcm | hcm
      · exact h.fresh c hcm
      · exact hcm
    have hname : oa.name = o.name := (mem_of_getCC hoa).2
    rcases attemptUpdate_cases t.api o.name o.rv (if needFin o = true then o.finalizers ++ [finalizerName] else o.finalizers) w
      with he | ⟨ob, _, _, hf, _⟩ | ⟨ob, hob, hnd, he⟩
    · rw [he]; exact ⟨⟨h.sim, h1, hfresh⟩, h2, h3⟩
    · exfalso
      split at hf
      · simp at hf
      · rename_i hnf
        -- no finalizers and not in need of one: the object would be under deletion without a finalizer
        have hdel : o.deleting = true := by
          unfold needFin hasFin at hnf
          rw [hf] at hnf
          simpa using hnf
        exact hdf hdel hf
    · rw [he]
      rw [hoa] at hob; cases hob
      refine ⟨⟨?_, ?_, hfresh⟩, h2, h3⟩
      · intro n o0 hn0
        simp only
        by_cases hx : n = o.name
        · subst hx
          have := getCC_putCC_self t.api.ccs { oa with finalizers := (if needFin o = true then o.finalizers ++ [finalizerName] else o.finalizers), rv := oa.rv + 1 }
          simp only at this
          rw [ho] at hn0; cases hn0
          rw [← hname]
          exact ⟨_, this, hspec⟩
        · rw [getCC_putCC_ne _ _ (by simp only; rw [hname]; exact hx)]
          exact h.sim n o0 hn0
      · simp only
        refine cci_api_put h1 oa _ (by rw [hname]; exact hoa) rfl rfl rfl ?_
        intro hdel
        simp only at hdel ⊢
        intro hf; exact hnd ⟨hdel, hf⟩

theorem bootCCs_spec (a0 : List CCObj) (hgen : ∀ n o, getCC a0 n = some o → o.generation ≤ 1)
    (hdf : ∀ n o, getCC a0 n = some o → o.deleting = true → o.finalizers ≠ []) :
    ∀ (l : List CCObj) (t : Sys) (ws : List WOut) (acc : List (String × List String × String)),
    BC a0 t → (∀ o ∈ l, getCC a0 o.name = some o) →
    BC a0 (bootCCs t l ws acc).1 ∧ (∀ x ∈ SH t.alloc, x ∈ SH (bootCCs t l ws acc).1.alloc) ∧
    (∀ o ∈ l, ∀ c0, builtFrom o = some c0 → sh c0 ∈ SH (bootCCs t l ws acc).1.alloc) := by
  intro l
  induction l with
  | nil => intro t ws acc h _; exact ⟨h, fun x hx => hx, fun o ho => by cases ho⟩
  | cons o rest ih =>
    intro t ws acc h hl
    unfold bootCCs
    simp only
    have ho := hl o (List.mem_cons_self ..)
    obtain ⟨b1, b2, b3⟩ := bc_create h o ho (hgen _ o ho) (hdf _ o ho) (ws.headD .ok)
    obtain ⟨c1, c2, c3⟩ := ih (createClusterCIDR t o (decide (o.generation > 1)) (ws.headD .ok)).1
      (if (createClusterCIDR t o (decide (o.generation > 1)) (ws.headD .ok)).2.ccWrites.isEmpty then ws else ws.tail)
      (acc ++ (createClusterCIDR t o (decide (o.generation > 1)) (ws.headD .ok)).2.ccWrites) b1
      (fun x hx => hl x (List.mem_cons_of_mem _ hx))
    refine ⟨c1, fun x hx => c2 x (b2 x hx), ?_⟩
    intro x hx c0 hc0
    rcases List.mem_cons.mp hx with rfl | hx
    · exact c2 _ (b3 c0 hc0)
    · exact c3 x hx c0 hc0

theorem sortCCObjs_get (l : List CCObj) : ∀ o ∈ sortCCObjs l, getCC l o.name = some o := by
  intro o ho
  unfold sortCCObjs at ho
  obtain ⟨n, _, hn⟩ := List.mem_filterMap.mp ho
  rw [(mem_of_getCC hn).2]; exact hn

theorem sortCCObjs_complete (l : List CCObj) {n : String} {o : CCObj} (h : getCC l n = some o) : o ∈ sortCCObjs l := by
  unfold sortCCObjs
  obtain ⟨hm, hn⟩ := mem_of_getCC h
  refine List.mem_filterMap.mpr ⟨n, ?_, h⟩
  exact mem_sortNames.mpr (List.mem_map.mpr ⟨o, hm, hn⟩)

theorem cci_view_api {api : List CCObj} {al : Alloc} (h : CCI api [] al) : CCI api api al := by
  refine ⟨h.ent, h.gen, ?_, ?_, h.delFin⟩
  · intro n v o hv ho; rw [hv] at ho; cases ho; rfl
  · intro n v hv _; exact ⟨v, hv⟩

/-! ## start-up, part 2: the pod CIDRs of the listed nodes are recorded -/

/-- `cd` is one of the blocks `c` cuts its range into -/
def IsBlock (c : CC) (cd : Cidr) : Prop := ∃ p k, c.pool cd.fam = some p ∧ k < p.max ∧ goBlock p.geo k = cd
/-- ... and it is in use -/
def InUse (c : CC) (cd : Cidr) : Prop := ∃ p k, c.pool cd.fam = some p ∧ k ∈ p.used ∧ goBlock p.geo k = cd

theorem isBlock_le {c c' : CC} (h : CCLe c c') {cd : Cidr} (hb : IsBlock c cd) : IsBlock c' cd := by
  obtain ⟨p, k, hp, hk, hbk⟩ := hb
  have := h.2.2.2.2.2 cd.fam
  rw [hp] at this
  cases hp' : c'.pool cd.fam with
  | none => rw [hp'] at this; exact this.elim
  | some p' =>
    rw [hp'] at this
    have hle : PoolLe p p' := this
    exact ⟨p', k, hp', by unfold Pool.max at *; rw [hle.1]; exact hk, by rw [hle.1]; exact hbk⟩

theorem inUse_le {c c' : CC} (h : CCLe c c') {cd : Cidr} (hb : InUse c cd) : InUse c' cd := by
  obtain ⟨p, k, hp, hk, hbk⟩ := hb
  have := h.2.2.2.2.2 cd.fam
  rw [hp] at this
  cases hp' : c'.pool cd.fam with
  | none => rw [hp'] at this; exact this.elim
  | some p' =>
    rw [hp'] at this
    have hle : PoolLe p p' := this
    exact ⟨p', k, hp', hle.2.2 k hk, by rw [hle.1]; exact hbk⟩

/-- occupying, in an entry, CIDRs that are blocks of that entry succeeds and marks them — and nothing else -/
theorem occupyList_blocks : ∀ (cs : List Cidr) (c : CC), c.WF → (∀ cd ∈ cs, IsBlock c cd) →
    (c.occupyList cs).2 = true ∧ CCLe c (c.occupyList cs).1 ∧ (c.occupyList cs).1.WF ∧
    (∀ cd ∈ cs, InUse (c.occupyList cs).1 cd) ∧
    (∀ cd', InUse (c.occupyList cs).1 cd' → InUse c cd' ∨ cd' ∈ cs) := by
  intro cs
  induction cs with
  | nil => intro c hc _; exact ⟨rfl, CCLe.refl c, hc, (fun _ h => by cases h), fun _ h => Or.inl h⟩
  | cons cd rest ih =>
    intro c hc hall
    obtain ⟨p, k, hp, hkm, hb⟩ := hall cd (List.mem_cons_self ..)
    have hok := hc _ p hp
    obtain ⟨p', hocc⟩ := occupy_own_block hok hkm
    have hbw := goBlock_WF hok hkm
    obtain ⟨hI, hg, _, hl, hm⟩ := (C14.occupy_refines hok.2.1 hok.1 hbw).2 p' hocc
    have hok' : PoolOK cd.fam p' := ⟨hI, hg ▸ hok.2.1, hg ▸ hok.2.2⟩
    have hle : PoolLe p p' := ⟨hg, hl, fun j hj => (hm j).mpr (Or.inl hj)⟩
    have hkin : k ∈ p'.used := by
      refine (hm k).mpr (Or.inr ⟨hkm, ?_⟩)
      have := (goBlock p.geo k).size_pos
      unfold Cidr.Disjoint; omega
    rw [hb] at hocc
    have hco : c.occupy cd = some (c.setPool cd.fam p') := by
      unfold CC.occupy; rw [hp]; simp only [hocc]
    have hcle : CCLe c (c.setPool cd.fam p') := by
      refine ⟨by cases cd.fam <;> rfl, by cases cd.fam <;> rfl, by cases cd.fam <;> rfl, by cases cd.fam <;> rfl,
        by cases cd.fam <;> rfl, ?_⟩
      intro g
      by_cases hgf : g = cd.fam
      · subst hgf; rw [CC.pool_setPool_same, hp]; exact hle
      · rw [CC.pool_setPool_other _ _ _ _ hgf]; exact OptPoolLe.refl _
    unfold CC.occupyList
    rw [hco]
    simp only
    have hcw' : (c.setPool cd.fam p').WF := CC.WF_setPool hc hok'
    obtain ⟨h1, h2, h3, h4, h5⟩ := ih _ hcw' (fun cd2 hcd2 => isBlock_le hcle (hall cd2 (List.mem_cons_of_mem _ hcd2)))
    refine ⟨h1, CCLe.trans hcle h2, h3, ?_, ?_⟩
    · intro cd2 hcd2
      rcases List.mem_cons.mp hcd2 with rfl | hcd2
      · exact inUse_le h2 ⟨p', k, CC.pool_setPool_same _ _ _, hkin, by rw [hg]; exact hb⟩
      · exact h4 cd2 hcd2
    · intro cd' hu
      rcases h5 cd' hu with ⟨q, k', hq, hk', hb'⟩ | hin
      · by_cases hf : cd'.fam = cd.fam
        · rw [hf, CC.pool_setPool_same] at hq
          cases hq
          rcases (hm k').mp hk' with hold | ⟨hk'm, hnd⟩
          · exact Or.inl ⟨p, k', by rw [hf]; exact hp, hold, by rw [← hg]; exact hb'⟩
          · right
            have hkk : k' = k := by
              false_or_by_contra; rename_i hne
              exact hnd (C13.blocks_disjoint hok.2.1 hk'm hkm hne)
            rw [← hb', hg, hkk, hb]
            exact List.mem_cons_self ..
        · rw [CC.pool_setPool_other _ _ _ _ hf] at hq
          exact Or.inl ⟨q, k', hq, hk', hb'⟩
      · exact Or.inr (List.mem_cons_of_mem _ hin)

theorem Alloc.set_get_self {a : Alloc} {j : Nat} {c : CC} (h : a.get? j = some c) : a.set j c = a := by
  unfold Alloc.set Alloc.get? at *
  have hlt : j < a.ccs.length := (List.getElem?_eq_some_iff.mp h).1
  have : a.ccs[j] = c := (List.getElem?_eq_some_iff.mp h).2
  cases a with
  | mk l =>
    simp only at *
    congr 1
    rw [← this]
    exact List.set_getElem_self hlt

/-- recording the pod CIDRs of a node no entry is associated with yet: if they are blocks of entry `i₀`, which is in
the list, and ranges are pairwise disjoint, exactly entry `i₀` takes them -/
theorem occupyNode_fresh (name : String) (cidrs : List Cidr) (i₀ : Nat) (hne : cidrs ≠ []) :
    ∀ (l : List Nat) (a : Alloc) (c₀ : CC), a.WF → RangesDisj a → a.get? i₀ = some c₀ → (∀ cd ∈ cidrs, IsBlock c₀ cd) → i₀ ∈ l →
      ∃ c₁, a.occupyNode name cidrs l = (a.set i₀ (c₁.addAssoc name), true) ∧ CCLe c₀ c₁ ∧ c₁.WF ∧ (∀ cd ∈ cidrs, InUse c₁ cd) ∧
        ∀ cd', InUse c₁ cd' → InUse c₀ cd' ∨ cd' ∈ cidrs := by
  intro l
  induction l with
  | nil => intro a c₀ _ _ _ _ hm; cases hm
  | cons j rest ih =>
    intro a c₀ ha hrd hg0 hblk hm
    unfold Alloc.occupyNode
    by_cases hj : j = i₀
    · subst hj
      rw [hg0]
      simp only
      obtain ⟨h1, h2, h3, h4, h5⟩ := occupyList_blocks cidrs c₀ (ha j c₀ hg0) hblk
      cases hr : c₀.occupyList cidrs with
      | mk c' okk =>
        rw [hr] at h1 h2 h3 h4 h5
        simp only at h1 h2 h3 h4 h5
        subst h1
        exact ⟨c', rfl, h2, h3, h4, h5⟩
    · have hm' : i₀ ∈ rest := by
        rcases List.mem_cons.mp hm with h | h
        · exact absurd h.symm hj
        · exact h
      cases hg : a.get? j with
      | none => simp only; exact ih a c₀ ha hrd hg0 hblk hm'
      | some c =>
        simp only
        -- the first CIDR lies in a range of entry `i₀`, hence in none of entry `j`
        cases hcs : cidrs with
        | nil => exact absurd hcs hne
        | cons cd0 rest0 =>
          have hcd0 : cd0 ∈ cidrs := by rw [hcs]; exact List.mem_cons_self ..
          obtain ⟨p0, k0, hp0, hk0, hb0⟩ := hblk cd0 hcd0
          have hok0 := ha i₀ c₀ hg0 _ p0 hp0
          obtain ⟨_, hw0, hsub⟩ := C13.block_is_ith_subrange hok0.2.1 hk0
          rw [hb0] at hw0 hsub
          have hfail : c.occupyList (cd0 :: rest0) = (c, false) := by
            apply occupyList_head_fails (ha j c hg) hw0
            intro p hp
            have hdis := hrd j i₀ c c₀ cd0.fam p p0 hg hg0 hp hp0 hj
            have := cd0.size_pos
            unfold Cidr.Sub at hsub
            unfold Cidr.Disjoint at hdis ⊢
            omega
          rw [hfail]
          simp only
          rw [Alloc.set_get_self hg, ← hcs]
          exact ih a c₀ ha hrd hg0 hblk hm'

theorem mem_ordered_true_of_elig {a : Alloc} {i : Nat} {ls : Labels} {c : CC} (hg : a.get? i = some c) (ht : c.term = false)
    (hm : (matchCIDR c.reqs ls).1 = true ∨ (c.key == defaultKey) = true) : i ∈ a.ordered ls true := by
  unfold Alloc.ordered
  have hperm : ∀ (l : List PQItem) (x : PQItem), x ∈ l → x ∈ pqSort l :=
    fun l x hx => (C07.pqSort_perm l).mem_iff.mpr hx
  rw [List.mem_append]
  rcases hm with hm | hm
  · left
    apply List.mem_map.mpr
    refine ⟨c.item i (matchCIDR c.reqs ls).2, hperm _ _ ?_, rfl⟩
    apply List.mem_filterMap.mpr
    refine ⟨(i, c), mem_indexed.mpr hg, ?_⟩
    simp [hm, ht]
  · right
    apply List.mem_map.mpr
    refine ⟨c.item i 0, hperm _ _ ?_, rfl⟩
    apply List.mem_filterMap.mpr
    refine ⟨(i, c), mem_indexed.mpr hg, ?_⟩
    simp [hm, ht]

theorem get_of_SH {a a' : Alloc} (h : SH a = SH a') {i : Nat} {c : CC} (hg : a.get? i = some c) :
    ∃ c', a'.get? i = some c' ∧ sh c' = sh c := by
  unfold SH at h
  unfold Alloc.get? at *
  have h1 : (a.ccs.map sh)[i]? = some (sh c) := by rw [List.getElem?_map, hg]; rfl
  rw [h, List.getElem?_map] at h1
  cases hc' : a'.ccs[i]? with
  | none => rw [hc'] at h1; cases h1
  | some c' => rw [hc'] at h1; simp only [Option.map_some, Option.some.injEq] at h1; exact ⟨c', rfl, h1⟩

theorem pool_of_sh {c c' : CC} (h : sh c' = sh c) {f : Fam} {p : Pool} (hp : c.pool f = some p) :
    ∃ p', c'.pool f = some p' ∧ p'.geo = p.geo := by
  unfold sh at h
  simp only [Prod.mk.injEq] at h
  obtain ⟨_, _, _, h4, h6⟩ := h
  cases f with
  | v4 =>
    have hp4 : c.v4 = some p := hp
    rw [hp4] at h4
    cases h4' : c'.v4 with
    | none => rw [h4'] at h4; cases h4
    | some p' => rw [h4'] at h4; simp only [Option.map_some, Option.some.injEq] at h4; exact ⟨p', h4', h4⟩
  | v6 =>
    have hp6 : c.v6 = some p := hp
    rw [hp6] at h6
    cases h6' : c'.v6 with
    | none => rw [h6'] at h6; cases h6
    | some p' => rw [h6'] at h6; simp only [Option.map_some, Option.some.injEq] at h6; exact ⟨p', h6', h6⟩

theorem isBlock_of_sh {c c' : CC} (h : sh c' = sh c) {cd : Cidr} (hb : IsBlock c cd) : IsBlock c' cd := by
  obtain ⟨p, k, hp, hk, hbk⟩ := hb
  obtain ⟨p', hp', hg⟩ := pool_of_sh h hp
  exact ⟨p', k, hp', by unfold Pool.max at *; rw [hg]; exact hk, by rw [hg]; exact hbk⟩

theorem rangesDisj_of_SH {a a' : Alloc} (h : SH a = SH a') (hr : RangesDisj a) : RangesDisj a' := by
  intro i j c d f p q hi hj hp hq hne
  obtain ⟨c0, hc0, hs0⟩ := get_of_SH h.symm hi
  obtain ⟨d0, hd0, ht0⟩ := get_of_SH h.symm hj
  obtain ⟨p0, hp0, hg0⟩ := pool_of_sh hs0 hp
  obtain ⟨q0, hq0, hh0⟩ := pool_of_sh ht0 hq
  have := hr i j c0 d0 f p0 q0 hc0 hd0 hp0 hq0 hne
  rw [hg0, hh0] at this; exact this

theorem sh_of_CCLe {c c' : CC} (h : CCLe c c') : sh c' = sh c := by
  obtain ⟨h1, h2, h3, _, _, h6⟩ := h
  unfold sh
  have g4 : c'.v4.map (·.geo) = c.v4.map (·.geo) := by
    have := h6 .v4
    show (c'.pool .v4).map (·.geo) = (c.pool .v4).map (·.geo)
    cases hc : c.pool .v4 with
    | none =>
      rw [hc] at this
      cases hc' : c'.pool .v4 with
      | none => rfl
      | some _ => rw [hc'] at this; exact this.elim
    | some p =>
      rw [hc] at this
      cases hc' : c'.pool .v4 with
      | none => rw [hc'] at this; exact this.elim
      | some p' => rw [hc'] at this; simp only [Option.map_some]; rw [(this : PoolLe p p').1]
  have g6 : c'.v6.map (·.geo) = c.v6.map (·.geo) := by
    have := h6 .v6
    show (c'.pool .v6).map (·.geo) = (c.pool .v6).map (·.geo)
    cases hc : c.pool .v6 with
    | none =>
      rw [hc] at this
      cases hc' : c'.pool .v6 with
      | none => rfl
      | some _ => rw [hc'] at this; exact this.elim
    | some p =>
      rw [hc] at this
      cases hc' : c'.pool .v6 with
      | none => rw [hc'] at this; exact this.elim
      | some p' => rw [hc'] at this; simp only [Option.map_some]; rw [(this : PoolLe p p').1]
  rw [h1, h2, h3, g4, g6]

theorem Alloc.set_set (a : Alloc) (i : Nat) (c d : CC) : (a.set i c).set i d = a.set i d := by
  unfold Alloc.set; simp

theorem addAssoc_term (c : CC) (n : String) : (c.addAssoc n).term = c.term := by
  unfold CC.addAssoc; split <;> rfl

/-- where a node's pod CIDRs belong in the rebuilt pools: an entry its labels select, of which they are blocks -/
def Home (a1 : Alloc) (v : NodeObj) : Prop :=
  ∃ i c, a1.get? i = some c ∧ ((matchCIDR c.reqs v.labels).1 = true ∨ (c.key == defaultKey) = true) ∧
    ∀ cd ∈ v.cidrs, IsBlock c cd

/-- loop invariant of the start-up loop over the listed nodes -/
structure BN (a1 al : Alloc) (done : List NodeObj) (svcs : List Cidr) : Prop where
  wf : al.WF
  sh : SH al = SH a1
  nt : ∀ i c, al.get? i = some c → c.term = false
  cl : ∀ x i, Claims al x i → ∃ v ∈ done, v.name = x ∧ v.deleting = false ∧ v.cidrs ≠ [] ∧
    (∀ cd ∈ v.cidrs, UsedAt al i cd) ∧ Elig al i v.labels
  uq : ∀ x i j, Claims al x i → Claims al x j → i = j
  sv : ∀ v ∈ done, v.deleting = false → v.cidrs ≠ [] → ∃ i, Claims al v.name i
  tight : ∀ j cd, UsedAt al j cd → (∃ x, Claims al x j ∧ ∃ v ∈ done, v.name = x ∧ cd ∈ v.cidrs) ∨ (∃ svc ∈ svcs, ¬ cd.Disjoint svc)

theorem bn_step {a1 al : Alloc} {done : List NodeObj} {svcs : List Cidr} (h : BN a1 al done svcs) (hrd : RangesDisj a1) (n : NodeObj)
    (hfresh : ∀ v ∈ done, v.name ≠ n.name) (hj : n.junk = false)
    (hhome : n.deleting = false → n.cidrs ≠ [] → Home a1 n) :
    BN a1 (if (!n.hasCidrs || n.deleting) = true then al else (occupyCIDRs al n).1) (done ++ [n]) svcs := by
  split
  · rename_i hskip
    refine ⟨h.wf, h.sh, h.nt, ?_, h.uq, ?_, ?_⟩
    rotate_left 2
    · intro j cd hu
      rcases h.tight j cd hu with ⟨x, hc, v, hv, hvn, hcd⟩ | hs
      · exact Or.inl ⟨x, hc, v, List.mem_append_left _ hv, hvn, hcd⟩
      · exact Or.inr hs
    · intro x i hc
      obtain ⟨v, hv, rest⟩ := h.cl x i hc
      exact ⟨v, List.mem_append_left _ hv, rest⟩
    · intro v hv hd hc
      rcases List.mem_append.mp hv with hv | hv
      · exact h.sv v hv hd hc
      · simp only [List.mem_singleton] at hv
        subst hv
        exfalso
        have : v.hasCidrs = true := by
          unfold NodeObj.hasCidrs
          cases hcs : v.cidrs with
          | nil => exact absurd hcs hc
          | cons _ _ => simp
        rw [this, hd] at hskip
        simp at hskip
  · rename_i hskip
    have hhas : n.hasCidrs = true ∧ n.deleting = false := by
      cases h1 : n.hasCidrs <;> cases h2 : n.deleting <;> simp [h1, h2] at hskip ⊢
    have hne : n.cidrs ≠ [] := by
      intro he
      have := hhas.1
      unfold NodeObj.hasCidrs at this
      rw [hj, he] at this
      simp at this
    obtain ⟨i₀, c, hg1, hel, hblk⟩ := hhome hhas.2 hne
    obtain ⟨c', hg', hsh'⟩ := get_of_SH h.sh.symm hg1
    have hblk' : ∀ cd ∈ n.cidrs, IsBlock c' cd := fun cd hcd => isBlock_of_sh hsh' (hblk cd hcd)
    obtain ⟨hk, _, hr⟩ := kn_of_sh hsh'
    have hel' : (matchCIDR c'.reqs n.labels).1 = true ∨ (c'.key == defaultKey) = true := by rw [hk, hr]; exact hel
    have hmem : i₀ ∈ al.ordered n.labels true := mem_ordered_true_of_elig hg' (h.nt i₀ c' hg') hel'
    have hrd' : RangesDisj al := rangesDisj_of_SH h.sh.symm hrd
    obtain ⟨c₁, hocc, hle, hwf1, huse, hexact⟩ := occupyNode_fresh n.name n.cidrs i₀ hne _ al c' h.wf hrd' hg' hblk' hmem
    have hres : (occupyCIDRs al n).1 = al.set i₀ (c₁.addAssoc n.name) := by
      unfold occupyCIDRs
      simp only
      have hnemp : (al.ordered n.labels true).isEmpty = false := by
        cases hl : al.ordered n.labels true with
        | nil => rw [hl] at hmem; cases hmem
        | cons _ _ => rfl
      rw [hnemp, hj, hocc]
      simp
    rw [hres]
    have hle2 : AllocLe al (al.set i₀ c₁) := allocLe_set_cc hg' hle
    have hg2 : (al.set i₀ c₁).get? i₀ = some c₁ := Alloc.get?_set_self _ _ _ _ hg'
    have hset : al.set i₀ (c₁.addAssoc n.name) = (al.set i₀ c₁).set i₀ (c₁.addAssoc n.name) := (Alloc.set_set _ _ _ _).symm
    have hclaims : ∀ x i, Claims (al.set i₀ (c₁.addAssoc n.name)) x i ↔ Claims al x i ∨ (x = n.name ∧ i = i₀) := by
      intro x i
      rw [hset, claims_addAssoc hg2, claims_le hle2]
    have hused : ∀ i cd, UsedAt al i cd → UsedAt (al.set i₀ (c₁.addAssoc n.name)) i cd := by
      intro i cd hu
      rw [hset]; exact (usedAt_addAssoc hg2 _ _ _).mpr (usedAt_le hle2 hu)
    have helig : ∀ i ls, Elig al i ls → Elig (al.set i₀ (c₁.addAssoc n.name)) i ls := by
      intro i ls he
      rw [hset]; exact elig_addAssoc hg2 _ (elig_le hle2 he)
    have hnew_used : ∀ cd ∈ n.cidrs, UsedAt (al.set i₀ (c₁.addAssoc n.name)) i₀ cd := by
      intro cd hcd
      obtain ⟨p, k, hp, hk', hb⟩ := huse cd hcd
      rw [hset]; exact (usedAt_addAssoc hg2 _ _ _).mpr ⟨c₁, p, k, hg2, hp, hk', hb⟩
    refine ⟨?_, ?_, ?_, ?_, ?_, ?_, ?_⟩
    rotate_left 6
    · -- what is in use afterwards was in use before, or is one of the node's CIDRs in entry `i₀`
      intro j cd hu
      rw [hset, usedAt_addAssoc hg2] at hu
      have hcase : UsedAt al j cd ∨ (j = i₀ ∧ cd ∈ n.cidrs) := by
        obtain ⟨d, p, k, hd, hp, hk, hb⟩ := hu
        by_cases hj' : i₀ = j
        · subst hj'
          rw [hg2] at hd; cases hd
          rcases hexact cd ⟨p, k, hp, hk, hb⟩ with ⟨p0, k0, hp0, hk0, hb0⟩ | hin
          · exact Or.inl ⟨c', p0, k0, hg', hp0, hk0, hb0⟩
          · exact Or.inr ⟨rfl, hin⟩
        · rw [Alloc.get?_set_ne _ _ _ _ hj'] at hd
          exact Or.inl ⟨d, p, k, hd, hp, hk, hb⟩
      rcases hcase with hold | ⟨rfl, hin⟩
      · rcases h.tight j cd hold with ⟨x, hc, v, hv, hvn, hcd⟩ | hs
        · exact Or.inl ⟨x, (hclaims x j).mpr (Or.inl hc), v, List.mem_append_left _ hv, hvn, hcd⟩
        · exact Or.inr hs
      · exact Or.inl ⟨n.name, (hclaims _ _).mpr (Or.inr ⟨rfl, rfl⟩), n, List.mem_append_right _ (List.mem_singleton.mpr rfl), rfl, hin⟩
    · exact Alloc.WF_set h.wf (C09.addAssoc_WF hwf1 _)
    · rw [SH_set hg' (by rw [sh_addAssoc]; exact sh_of_CCLe hle)]; exact h.sh
    · intro i d hd
      by_cases hi : i₀ = i
      · subst hi
        rw [Alloc.get?_set_self _ _ _ _ hg'] at hd
        cases hd
        rw [addAssoc_term, hle.2.2.2.2.1]; exact h.nt _ c' hg'
      · rw [Alloc.get?_set_ne _ _ _ _ hi] at hd; exact h.nt i d hd
    · intro x i hc
      rcases (hclaims x i).mp hc with hc | ⟨rfl, rfl⟩
      · obtain ⟨v, hv, h1, h2, h3, h4, h5⟩ := h.cl x i hc
        exact ⟨v, List.mem_append_left _ hv, h1, h2, h3, fun cd hcd => hused _ _ (h4 cd hcd), helig _ _ h5⟩
      · exact ⟨n, List.mem_append_right _ (List.mem_singleton.mpr rfl), rfl, hhas.2, hne, hnew_used,
          helig _ _ ⟨c', hg', hel'⟩⟩
    · intro x i j hci hcj
      rcases (hclaims x i).mp hci with hi' | hi'
      · rcases (hclaims x j).mp hcj with hj' | hj'
        · exact h.uq x i j hi' hj'
        · obtain ⟨v, hv, h1, _⟩ := h.cl _ i hi'
          rw [hj'.1] at h1
          exact absurd h1 (hfresh v hv)
      · rcases (hclaims x j).mp hcj with hj' | hj'
        · obtain ⟨v, hv, h1, _⟩ := h.cl _ j hj'
          rw [hi'.1] at h1
          exact absurd h1 (hfresh v hv)
        · rw [hi'.2, hj'.2]
    · intro v hv hd hc
      rcases List.mem_append.mp hv with hv | hv
      · obtain ⟨i, hi⟩ := h.sv v hv hd hc
        exact ⟨i, (hclaims _ _).mpr (Or.inl hi)⟩
      · simp only [List.mem_singleton] at hv
        subst hv
        exact ⟨i₀, (hclaims _ _).mpr (Or.inr ⟨rfl, rfl⟩)⟩

theorem bootNodes_spec (a1 : Alloc) (svcs : List Cidr) (hrd : RangesDisj a1) : ∀ (l : List NodeObj) (al : Alloc) (done : List NodeObj),
    BN a1 al done svcs → (l.map (·.name)).Nodup → (∀ v ∈ done, ∀ n ∈ l, v.name ≠ n.name) →
    (∀ n ∈ l, n.junk = false ∧ (n.deleting = false → n.cidrs ≠ [] → Home a1 n)) →
    BN a1 (bootNodes al l) (done ++ l) svcs := by
  intro l
  induction l with
  | nil => intro al done h _ _ _; rw [List.append_nil]; exact h
  | cons n rest ih =>
    intro al done h hnd hdis hall
    have hstep := bn_step h hrd n (fun v hv => hdis v hv n (List.mem_cons_self ..))
      (hall n (List.mem_cons_self ..)).1 (hall n (List.mem_cons_self ..)).2
    simp only [List.map_cons, List.nodup_cons] at hnd
    have hdis' : ∀ v ∈ done ++ [n], ∀ m ∈ rest, v.name ≠ m.name := by
      intro v hv m hm
      rcases List.mem_append.mp hv with hv | hv
      · exact hdis v hv m (List.mem_cons_of_mem _ hm)
      · simp only [List.mem_singleton] at hv
        subst hv
        intro he
        exact hnd.1 (List.mem_map.mpr ⟨m, hm, he.symm⟩)
    have hall' : ∀ m ∈ rest, m.junk = false ∧ (m.deleting = false → m.cidrs ≠ [] → Home a1 m) :=
      fun m hm => hall m (List.mem_cons_of_mem _ hm)
    have : done ++ n :: rest = (done ++ [n]) ++ rest := by simp
    rw [this]
    unfold bootNodes
    split
    · rename_i hc
      rw [if_pos hc] at hstep
      exact ih al _ hstep hnd.2 hdis' hall'
    · rename_i hc
      rw [if_neg hc] at hstep
      exact ih _ _ hstep hnd.2 hdis' hall'

/-! ## start-up, part 3: helpers for the assembly -/

theorem SH_bootNodes : ∀ (l : List NodeObj) (al : Alloc), SH (bootNodes al l) = SH al := by
  intro l
  induction l with
  | nil => intro al; rfl
  | cons n rest ih =>
    intro al
    unfold bootNodes
    split
    · exact ih al
    · rw [ih, SH_occupyCIDRs]

theorem SH_filterAll : ∀ (svcs : List Cidr) (al : Alloc), SH (svcs.foldl (fun a sv => a.filterService sv) al) = SH al := by
  intro svcs
  induction svcs with
  | nil => intro al; rfl
  | cons sv rest ih => intro al; simp only [List.foldl_cons]; rw [ih, SH_filterService]

theorem occupyService_static (c : CC) (svc : Cidr) : (c.occupyService svc).assoc = c.assoc ∧ (c.occupyService svc).term = c.term := by
  unfold CC.occupyService
  split
  · exact ⟨rfl, rfl⟩
  · split
    · split
      · exact ⟨rfl, rfl⟩
      · rename_i h
        obtain ⟨_, _, _, h4, h5⟩ := cc_occupy_static h
        exact ⟨h4, h5⟩
    · exact ⟨rfl, rfl⟩

theorem filterAll_fresh : ∀ (svcs : List Cidr) (al : Alloc), (∀ c ∈ al.ccs, c.assoc = [] ∧ c.term = false) →
    ∀ c ∈ (svcs.foldl (fun a sv => a.filterService sv) al).ccs, c.assoc = [] ∧ c.term = false := by
  intro svcs
  induction svcs with
  | nil => intro al h; exact h
  | cons sv rest ih =>
    intro al h
    simp only [List.foldl_cons]
    apply ih
    intro c hc
    unfold Alloc.filterService at hc
    simp only [List.mem_map] at hc
    obtain ⟨c0, hc0, rfl⟩ := hc
    obtain ⟨h1, h2⟩ := occupyService_static c0 sv
    rw [h1, h2]; exact h c0 hc0

/-- what the service filter marks in one entry: blocks that meet the service range, nothing else -/
theorem occupyService_used {c : CC} (hc : c.WF) {svc : Cidr} (hsvc : svc.WF) {f : Fam} {p' : Pool}
    (hp' : (c.occupyService svc).pool f = some p') :
    ∃ p, c.pool f = some p ∧ p'.geo = p.geo ∧ ∀ k ∈ p'.used, k ∈ p.used ∨ ¬ (goBlock p.geo k).Disjoint svc := by
  have hsame : ∀ p, c.pool f = some p → ∃ p0, c.pool f = some p0 ∧ p.geo = p0.geo ∧
      ∀ k ∈ p.used, k ∈ p0.used ∨ ¬ (goBlock p0.geo k).Disjoint svc := fun p hp => ⟨p, hp, rfl, fun k hk => Or.inl hk⟩
  unfold CC.occupyService at hp'
  cases hq : c.pool svc.fam with
  | none => rw [hq] at hp'; exact hsame p' hp'
  | some q =>
    rw [hq] at hp'
    simp only at hp'
    split at hp'
    · cases ho : c.occupy svc with
      | none => rw [ho] at hp'; exact hsame p' hp'
      | some c' =>
        rw [ho] at hp'
        simp only at hp'
        unfold CC.occupy at ho
        rw [hq] at ho
        simp only at ho
        cases hoq : q.occupy svc with
        | none => rw [hoq] at ho; cases ho
        | some q' =>
          rw [hoq] at ho
          cases ho
          by_cases hf : f = svc.fam
          · subst hf
            rw [CC.pool_setPool_same] at hp'
            cases hp'
            have hok := hc _ q hq
            obtain ⟨_, hg, _, _, hm⟩ := (C14.occupy_refines hok.2.1 hok.1 hsvc).2 p' hoq
            refine ⟨q, hq, hg, ?_⟩
            intro k hk
            rcases (hm k).mp hk with hk | ⟨_, hnd⟩
            · exact Or.inl hk
            · exact Or.inr hnd
          · rw [CC.pool_setPool_other _ _ _ _ hf] at hp'
            exact hsame p' hp'
    · exact hsame p' hp'

/-- every block in use meets one of the service ranges `S` -/
def SvcOnly (a : Alloc) (S : List Cidr) : Prop := ∀ j cd, UsedAt a j cd → ∃ svc ∈ S, ¬ cd.Disjoint svc

theorem svcOnly_filterService {a : Alloc} (ha : a.WF) {S : List Cidr} (h : SvcOnly a S) {svc : Cidr} (hsvc : svc.WF) :
    SvcOnly (a.filterService svc) (svc :: S) := by
  rintro j cd ⟨c', p', k, hg, hp, hk, hb⟩
  have hget : ∃ c, a.get? j = some c ∧ c' = c.occupyService svc := by
    unfold Alloc.filterService Alloc.get? at *
    simp only [List.getElem?_map] at hg
    cases hc : a.ccs[j]? with
    | none => rw [hc] at hg; cases hg
    | some c => rw [hc] at hg; simp only [Option.map_some, Option.some.injEq] at hg; exact ⟨c, rfl, hg.symm⟩
  obtain ⟨c, hc, rfl⟩ := hget
  obtain ⟨p, hp0, hgeo, hused⟩ := occupyService_used (ha j c hc) hsvc hp
  rcases hused k hk with hk0 | hnd
  · obtain ⟨sv, hsv, hnd⟩ := h j cd ⟨c, p, k, hc, hp0, hk0, by rw [← hgeo]; exact hb⟩
    exact ⟨sv, List.mem_cons_of_mem _ hsv, hnd⟩
  · exact ⟨svc, List.mem_cons_self .., by rw [← hb, hgeo]; exact hnd⟩

theorem svcOnly_filterAll : ∀ (svcs : List Cidr) (a : Alloc) (S : List Cidr), a.WF → (∀ sv ∈ svcs, sv.WF) → SvcOnly a S →
    ∀ j cd, UsedAt (svcs.foldl (fun a sv => a.filterService sv) a) j cd → ∃ svc, (svc ∈ svcs ∨ svc ∈ S) ∧ ¬ cd.Disjoint svc := by
  intro svcs
  induction svcs with
  | nil =>
    intro a S _ _ h j cd hu
    obtain ⟨sv, hsv, hnd⟩ := h j cd hu
    exact ⟨sv, Or.inr hsv, hnd⟩
  | cons sv rest ih =>
    intro a S ha hw h j cd hu
    have hsv := hw sv (List.mem_cons_self ..)
    have hwf1 := (C09.filterService_covers a ha sv hsv).1
    obtain ⟨x, hx, hnd⟩ := ih (a.filterService sv) (sv :: S) hwf1 (fun s hs => hw s (List.mem_cons_of_mem _ hs))
      (svcOnly_filterService ha h hsv) j cd hu
    refine ⟨x, ?_, hnd⟩
    rcases hx with hx | hx
    · exact Or.inl (List.mem_cons_of_mem _ hx)
    · rcases List.mem_cons.mp hx with rfl | hx
      · exact Or.inl (List.mem_cons_self ..)
      · exact Or.inr hx

theorem createClusterCIDR_graves (s : Sys) (o : CCObj) (t : Bool) (w : WOut) :
    (createClusterCIDR s o t w).1.api.graves = s.api.graves := by
  unfold createClusterCIDR
  cases s.alloc.createCC o.name o.spec t with
  | none => rfl
  | some al => exact attemptUpdate_graves _ _ _ _ _

theorem bootCCs_graves : ∀ (l : List CCObj) (s : Sys) (ws : List WOut) (acc : List (String × List String × String)),
    (bootCCs s l ws acc).1.api.graves = s.api.graves := by
  intro l
  induction l with
  | nil => intro s ws acc; rfl
  | cons o rest ih =>
    intro s ws acc
    unfold bootCCs
    simp only
    rw [ih, createClusterCIDR_graves]

theorem perm_insertName (x : String) : ∀ (l : List String), (insertName x l).Perm (x :: l) := by
  intro l
  induction l with
  | nil => exact List.Perm.refl _
  | cons h t ih =>
    unfold insertName
    split
    · exact List.Perm.refl _
    · exact (List.Perm.cons h ih).trans (List.Perm.swap x h t)

theorem perm_sortNames : ∀ (l : List String), (sortNames l).Perm l := by
  intro l
  induction l with
  | nil => exact List.Perm.refl _
  | cons h t ih =>
    show (insertName h (sortNames t)).Perm (h :: t)
    exact (perm_insertName h _).trans (List.Perm.cons h ih)

theorem filterMap_names_nodup (objs : List NodeObj) : ∀ (names : List String), names.Nodup →
    ((names.filterMap (fun n => getNode objs n)).map (·.name)).Nodup := by
  intro names
  induction names with
  | nil => intro _; exact List.nodup_nil
  | cons n rest ih =>
    intro hnd
    simp only [List.nodup_cons] at hnd
    simp only [List.filterMap_cons]
    cases hg : getNode objs n with
    | none => exact ih hnd.2
    | some o =>
      simp only [List.map_cons, List.nodup_cons]
      refine ⟨?_, ih hnd.2⟩
      intro hm
      obtain ⟨o', ho', hn'⟩ := List.mem_map.mp hm
      obtain ⟨m, hmr, hgm⟩ := List.mem_filterMap.mp ho'
      have h1 : o'.name = m := (Safety.mem_of_getNode hgm).2
      have h2 : o.name = n := (Safety.mem_of_getNode hg).2
      apply hnd.1
      rw [← h2, ← hn', h1]; exact hmr

theorem sortNodeObjs_nodup {l : List NodeObj} (h : (l.map (·.name)).Nodup) : ((sortNodeObjs l).map (·.name)).Nodup := by
  unfold sortNodeObjs
  exact filterMap_names_nodup l _ ((perm_sortNames _).nodup_iff.mpr h)

theorem sortNodeObjs_complete {l : List NodeObj} (h : (l.map (·.name)).Nodup) {v : NodeObj} (hv : v ∈ l) : v ∈ sortNodeObjs l := by
  unfold sortNodeObjs
  refine List.mem_filterMap.mpr ⟨v.name, mem_sortNames.mpr (List.mem_map.mpr ⟨v, hv, rfl⟩), ?_⟩
  cases hg : getNode l v.name with
  | none => exact absurd rfl ((getNode_none_iff.mp hg) v hv)
  | some w =>
    obtain ⟨hw, hwn⟩ := Safety.mem_of_getNode hg
    rw [eq_of_nodup_names h hw hv hwn]

/-! ## start-up re-establishes the invariant -/

theorem mem_getElem? {l : List CC} {c : CC} (h : c ∈ l) : ∃ i : Nat, l[i]? = some c := List.getElem?_of_mem h

theorem inv_boot {s : Sys} (h : Inv s) (hc : CCI s.api.ccs s.ccView s.alloc) (svcs : List Cidr) (ws : List WOut)
    (hsv : ∀ sv ∈ svcs, sv.WF) (hspec : ∀ o ∈ s.api.ccs, C09.SpecOK o.spec)
    (hrd : RangesDisj (boot s svcs ws).1.alloc) :
    Inv (boot s svcs ws).1 ∧ CCI (boot s svcs ws).1.api.ccs (boot s svcs ws).1.ccView (boot s svcs ws).1.alloc ∧
      Tight (boot s svcs ws).1 := by
  -- the stages of `boot`
  let s0 : Sys := { s with alloc := ⟨[]⟩, nodeView := [], ccView := [], nodeQ := [], ccQ := [], svcs := svcs }
  let s1 : Sys := (bootCCs s0 (sortCCObjs s.api.ccs) ws []).1
  let al1 : Alloc := svcs.foldl (fun a sv => a.filterService sv) s1.alloc
  let L : List NodeObj := sortNodeObjs s.api.nodes
  let al2 : Alloc := bootNodes al1 L
  let sF : Sys := { s1 with alloc := al2, nodeView := s1.api.nodes, ccView := s1.api.ccs, nodeQ := sortNames (s1.api.nodes.map (·.name)), ccQ := sortNames (s1.api.ccs.map (·.name)) }
  have hboot : (boot s svcs ws).1 = sF := rfl
  -- stage 1
  have hbc0 : BC s.api.ccs s0 := by
    refine ⟨fun n o0 hn => ⟨o0, hn, rfl⟩, ⟨?_, hc.gen, ?_, ?_, hc.delFin⟩, ?_⟩
    · intro x hx; cases hx
    · intro n v o hv; cases hv
    · intro n v hv; cases hv
    · intro c hcm; cases hcm
  obtain ⟨hbc1, _, hcomplete⟩ := bootCCs_spec s.api.ccs hc.gen hc.delFin (sortCCObjs s.api.ccs) s0 ws [] hbc0
    (sortCCObjs_get s.api.ccs)
  have hinit : (Alloc.mk []).WF := by intro j c hj; simp [Alloc.get?] at hj
  obtain ⟨hwf1, hsvcs1, hnodes1⟩ := C09.bootCCs_WF (sortCCObjs s.api.ccs) s0 ws [] hinit
    (fun o ho => hspec o (C09.mem_sortCCObjs _ _ ho))
  have hnodes : s1.api.nodes = s.api.nodes := hnodes1
  have hgraves : s1.api.graves = s.api.graves := bootCCs_graves _ _ _ _
  -- stage 2
  obtain ⟨hwfA, _, _⟩ := C09.filterAll_covers svcs s1.alloc hwf1 hsv
  have hshA : SH al1 = SH s1.alloc := SH_filterAll svcs s1.alloc
  have hfreshA := filterAll_fresh svcs s1.alloc (fun c hc => ⟨(hbc1.fresh c hc).1, (hbc1.fresh c hc).2.1⟩)
  have hsh2 : SH al2 = SH al1 := SH_bootNodes L al1
  have hrd1 : RangesDisj al1 := by
    rw [hboot] at hrd
    exact rangesDisj_of_SH hsh2 hrd
  -- stage 3: the loop
  have hsvc0 : SvcOnly s1.alloc [] := by
    rintro j cd ⟨c, p, k, hg, hp, hk, _⟩
    rw [(hbc1.fresh c (List.mem_of_getElem? hg)).2.2 _ p hp] at hk; cases hk
  have hsvcA := svcOnly_filterAll svcs s1.alloc [] hwf1 hsv hsvc0
  have hbn0 : BN al1 al1 [] svcs := by
    refine ⟨hwfA, rfl, ?_, ?_, ?_, ?_, ?_⟩
    · intro i c hg
      exact (hfreshA c (List.mem_of_getElem? hg)).2
    · rintro x i ⟨c, hg, hx⟩
      rw [(hfreshA c (List.mem_of_getElem? hg)).1] at hx; cases hx
    · rintro x i j ⟨c, hg, hx⟩
      rw [(hfreshA c (List.mem_of_getElem? hg)).1] at hx; cases hx
    · intro v hv; cases hv
    · intro j cd hu
      obtain ⟨sv, hsvm, hnd⟩ := hsvcA j cd hu
      rcases hsvm with hsvm | hsvm
      · exact Or.inr ⟨sv, hsvm, hnd⟩
      · cases hsvm
  have hLmem : ∀ n ∈ L, n ∈ s.api.nodes := fun n hn => C09.mem_sortNodeObjs _ _ hn
  have hhome : ∀ n ∈ L, n.junk = false ∧ (n.deleting = false → n.cidrs ≠ [] → Home al1 n) := by
    intro n hn
    have hnapi := hLmem n hn
    have hnobj : n ∈ Objs s := List.mem_append_left _ (List.mem_append_left _ hnapi)
    refine ⟨h.obj.nojunk n hnobj, ?_⟩
    intro hd hne
    obtain ⟨i, hcl, hused⟩ := h.held n (List.mem_append_left _ hnapi) hne (Or.inl hd)
    obtain ⟨c, hg, hm⟩ := h.obj.elig i n.name hcl n hnobj rfl
    -- the API object behind entry `i`, and the entry rebuilt from it
    obtain ⟨o, c0, ho, hbf, hshc⟩ := hc.ent (sh c) (mem_SH.mpr ⟨c, List.mem_of_getElem? hg, rfl⟩)
    have hin := hcomplete o (sortCCObjs_complete s.api.ccs ho) c0 hbf
    rw [← hshA] at hin
    obtain ⟨d, hdm, hds⟩ := mem_SH.mp hin
    obtain ⟨i', hi'⟩ := mem_getElem? hdm
    have hdc : sh d = sh c := by rw [hds, hshc]
    obtain ⟨hk, _, hr⟩ := kn_of_sh hdc
    refine ⟨i', d, hi', by rw [hk, hr]; exact hm, ?_⟩
    intro cd hcd
    obtain ⟨c', p, k, hg', hp, hkin, hb⟩ := hused cd hcd
    rw [hg] at hg'; cases hg'
    have hkm : k < p.max := (h.wf i c hg _ p hp).1.bound k hkin
    exact isBlock_of_sh hdc ⟨p, k, hp, hkm, hb⟩
  have hbn : BN al1 al2 L svcs := by
    have := bootNodes_spec al1 svcs hrd1 L al1 [] hbn0 (sortNodeObjs_nodup h.nodupApi) (fun v hv => by cases hv) hhome
    simpa using this
  -- names identify the listed nodes
  have hLcomplete : ∀ v ∈ s.api.nodes, v ∈ L := fun v hv => sortNodeObjs_complete h.nodupApi hv
  have hident : ∀ v ∈ L, ∀ w, w ∈ s.api.nodes ++ s.api.nodes ++ s.api.graves → w.name = v.name → w = v := by
    intro v hv w hw hn
    have hvapi := hLmem v hv
    rcases List.mem_append.mp hw with hw | hw
    · have hw' : w ∈ s.api.nodes := by rcases List.mem_append.mp hw with hw | hw <;> exact hw
      exact eq_of_nodup_names h.nodupApi hw' hvapi hn
    · exact absurd hn (h.gravesFresh w hw v hvapi)
  have hsub : ∀ w, w ∈ s.api.nodes ++ s.api.nodes ++ s.api.graves → w ∈ Objs s := by
    intro w hw
    rcases List.mem_append.mp hw with hw | hw
    · have hw' : w ∈ s.api.nodes := by rcases List.mem_append.mp hw with hw | hw <;> exact hw
      exact List.mem_append_left _ (List.mem_append_left _ hw')
    · exact List.mem_append_right _ hw
  have hno := h.noOverlap
  refine ⟨?_, ?_, ?_⟩
  rotate_left 2
  · rw [hboot]
    intro j cd hu
    rcases hbn.tight j cd hu with ⟨x, hc', v, hv, hvn, hcd⟩ | ⟨sv, hsvm, hnd⟩
    · left
      refine ⟨x, hc', v, ?_, hvn, hcd⟩
      show v ∈ s1.api.nodes ++ s1.api.graves
      rw [hnodes]
      exact List.mem_append_left _ (hLmem v hv)
    · right
      refine ⟨sv, ?_, hnd⟩
      show sv ∈ s1.svcs
      have : s1.svcs = svcs := hsvcs1
      rw [this]; exact hsvm
  · rw [hboot]
    constructor
    · exact hbn.wf
    · rw [hboot] at hrd; exact hrd
    · show (s1.api.nodes.map (·.name)).Nodup
      rw [hnodes]; exact h.nodupApi
    · show (s1.api.nodes.map (·.name)).Nodup
      rw [hnodes]; exact h.nodupApi
    · show (s1.api.graves.map (·.name)).Nodup
      rw [hgraves]; exact h.nodupGraves
    · intro v hv
      exact Or.inl ⟨v, hv, rfl⟩
    · show ObjInv (s1.api.nodes ++ s1.api.nodes ++ s1.api.graves) al2
      rw [hnodes, hgraves]
      refine ⟨fun v hv => h.obj.nojunk v (hsub v hv), fun v hv => h.obj.cidrWF v (hsub v hv),
        fun v hv w hw => h.obj.coh v (hsub v hv) w (hsub w hw), fun v hv w hw => h.obj.lab v (hsub v hv) w (hsub w hw), ?_, ?_⟩
      · intro i j x x' hci hcj hne v hv w hw hvx hwx
        obtain ⟨v0, hv0, hv0n, hv0d, _⟩ := hbn.cl x i hci
        obtain ⟨w0, hw0, hw0n, hw0d, _⟩ := hbn.cl x' j hcj
        have e1 := hident v0 hv0 v hv (by rw [hvx, hv0n])
        have e2 := hident w0 hw0 w hw (by rw [hwx, hw0n])
        rw [e1, e2]
        exact hno v0 (hLmem v0 hv0) w0 (hLmem w0 hw0) (by rw [hv0n, hw0n]; exact hne) hv0d hw0d
      · intro i x hci v hv hvx
        obtain ⟨v0, hv0, hv0n, _, _, _, hel⟩ := hbn.cl x i hci
        have e1 := hident v0 hv0 v hv (by rw [hvx, hv0n])
        rw [e1]; exact hel
    · intro v hv y hy hn hd
      have hv' : v ∈ s.api.nodes := by have hv2 : v ∈ s1.api.nodes := hv; rw [hnodes] at hv2; exact hv2
      have hy' : y ∈ s.api.nodes := by have hy2 : y ∈ s1.api.nodes := hy; rw [hnodes] at hy2; exact hy2
      rw [← eq_of_nodup_names h.nodupApi hv' hy' hn]; exact hd
    · intro g hg y hy
      have hg2 : g ∈ s1.api.graves := hg
      have hy2 : y ∈ s1.api.nodes := hy
      rw [hgraves] at hg2; rw [hnodes] at hy2
      exact h.gravesFresh g hg2 y hy2
    · intro i x hci
      obtain ⟨v0, hv0, hv0n, _, hv0c, hv0u, _⟩ := hbn.cl x i hci
      refine ⟨v0, ?_, hv0n, hv0c, hv0u⟩
      show v0 ∈ s1.api.nodes ++ s1.api.graves
      rw [hnodes]
      exact List.mem_append_left _ (hLmem v0 hv0)
    · intro i j x hci hcj; exact hbn.uq x i j hci hcj
    · intro v hv0' hne hlive0
      have hv : v ∈ s1.api.nodes ++ s1.api.nodes := hv0'
      have hlive : v.deleting = false ∨ ∃ w ∈ s1.api.nodes, w.name = v.name ∧ w.deleting = false := hlive0
      rw [hnodes] at hv hlive
      have hv' : v ∈ s.api.nodes := by rcases List.mem_append.mp hv with hv | hv <;> exact hv
      have hvd : v.deleting = false := by
        rcases hlive with hl | ⟨w, hw, hwn, hwd⟩
        · exact hl
        · rw [← eq_of_nodup_names h.nodupApi hw hv' hwn]; exact hwd
      have hvL := hLcomplete v hv'
      obtain ⟨i, hci⟩ := hbn.sv v hvL hvd hne
      obtain ⟨v0, hv0, hv0n, _, _, hv0u, _⟩ := hbn.cl v.name i hci
      have : v0 = v := eq_of_nodup_names h.nodupApi (hLmem v0 hv0) hv' hv0n
      rw [this] at hv0u
      exact ⟨i, hci, hv0u⟩
    · intro i x hci
      obtain ⟨v0, hv0, hv0n, _⟩ := hbn.cl x i hci
      refine ⟨v0, ?_, hv0n⟩
      show v0 ∈ s1.api.nodes
      rw [hnodes]; exact hLmem v0 hv0
  · rw [hboot]
    show CCI s1.api.ccs s1.api.ccs al2
    exact cci_alloc (cci_view_api hbc1.cci) (by rw [hsh2, hshA])

/-! ## the history theorem with restarts -/

structure Inv3 (s : Sys) : Prop where
  inv : Inv s
  cci : CCI s.api.ccs s.ccView s.alloc
  one : OnePer.NoDupKN s.alloc

theorem frag_of_frag3 {s : Sys} {e : Ev} (hnb : ∀ sv ws, e ≠ .boot sv ws) (hf : Frag3 s e) : Frag s e := by
  cases e with
  | boot sv ws => exact absurd rfl (hnb sv ws)
  | ccGen name g => exact hf.elim
  | ccAdd name spec => trivial
  | ccDel name => trivial
  | nodeAdd n => exact hf
  | nodeDel name => exact hf
  | nodeLabels name ls => exact hf
  | nodeDeleting name => exact hf
  | ccAddFin name fin => exact hf
  | nodeSetCIDRs name cidrs => exact hf
  | deliverNode name tomb => exact hf
  | deliverCC name => exact hf
  | procNode name refresh ws => exact hf
  | procCC name w => exact hf

theorem inv3_step {s : Sys} (h : Inv3 s) (e : Ev) (hf : Frag3 s e) : Inv3 (step s e).1 := by
  by_cases hb : ∃ sv ws, e = .boot sv ws
  · obtain ⟨sv, ws, rfl⟩ := hb
    obtain ⟨h1, h2, h3⟩ := hf
    obtain ⟨k1, k2, _⟩ := inv_boot h.inv h.cci sv ws h1 h2 h3
    exact ⟨k1, k2, OnePer.nodup_step h.one _⟩
  · have hnb : ∀ sv ws, e ≠ .boot sv ws := fun sv ws he => hb ⟨sv, ws, he⟩
    exact ⟨inv_step h.inv e (frag_of_frag3 hnb hf), cci_step h.cci h.one e hnb hf, OnePer.nodup_step h.one e⟩

def Frag3All : Sys → List Ev → Prop
  | _, [] => True
  | s, e :: rest => Frag3 s e ∧ Frag3All (step s e).1 rest

theorem inv3_run : ∀ (evs : List Ev) (s : Sys), Inv3 s → Frag3All s evs → Inv3 (run s evs) := by
  intro evs
  induction evs with
  | nil => intro s h _; exact h
  | cons e rest ih =>
    intro s h hf
    have : run s (e :: rest) = run (step s e).1 rest := by simp [run]
    rw [this]
    exact ih _ (inv3_step h e hf.1) hf.2

/-- a start satisfying `Inv` whose mapped entries were built from the ClusterCIDR objects the API holds -/
theorem inv3_of_inv {s : Sys} (h : Inv s) (hc : CCI s.api.ccs s.ccView s.alloc) (ho : OnePer.NoDupKN s.alloc) : Inv3 s := ⟨h, hc, ho⟩

/-- **no two existing nodes overlap, at any moment of any history of the fragment — restarts included** -/
theorem no_overlap_across_restarts (s : Sys) (hs : Inv3 s) (evs : List Ev) (hf : Frag3All s evs) :
    NoOverlap (run s evs) := (inv3_run evs s hs hf).inv.noOverlap

/-- **every existing holder is recorded again by the new incarnation**: right after a restart every node that exists,
is not being deleted and has pod CIDRs is associated with exactly one entry, in which all of them are in use -/
theorem restart_records_every_holder {s : Sys} (h : Inv3 s) (svcs : List Cidr) (ws : List WOut) (hf : Frag3 s (.boot svcs ws)) :
    ∀ v ∈ (boot s svcs ws).1.api.nodes, v.deleting = false → v.cidrs ≠ [] →
      ∃ i, Claims (boot s svcs ws).1.alloc v.name i ∧ (∀ cd ∈ v.cidrs, UsedAt (boot s svcs ws).1.alloc i cd) ∧
        ∀ j, Claims (boot s svcs ws).1.alloc v.name j → j = i := by
  intro v hv hd hne
  have k := (inv3_step h (.boot svcs ws) hf).inv
  obtain ⟨i, hci, hu⟩ := k.held v (List.mem_append_left _ hv) hne (Or.inl hd)
  exact ⟨i, hci, hu, fun j hcj => k.uniq j i v.name hcj hci⟩

/-- **nothing is resurrected**: after a restart every association belongs to a node the API lists, with pod CIDRs
that are all in use in that entry — reservations of the previous incarnation that were never written are gone -/
theorem restart_claims_listed {s : Sys} (h : Inv3 s) (svcs : List Cidr) (ws : List WOut) (hf : Frag3 s (.boot svcs ws)) :
    ∀ i x, Claims (boot s svcs ws).1.alloc x i →
      ∃ v ∈ (boot s svcs ws).1.api.nodes, v.name = x ∧ v.cidrs ≠ [] ∧ ∀ cd ∈ v.cidrs, UsedAt (boot s svcs ws).1.alloc i cd := by
  intro i x hc
  have k := (inv3_step h (.boot svcs ws) hf).inv
  have k' : Inv (boot s svcs ws).1 := k
  obtain ⟨v, hv, hvn, hvc, hvu⟩ := k'.own i x hc
  obtain ⟨w, hw, hwn⟩ := k'.pend i x hc
  rw [(C03.boot_views s svcs ws).1] at hw
  rcases List.mem_append.mp hv with hv | hv
  · exact ⟨v, hv, hvn, hvc, hvu⟩
  · exact absurd (by rw [hvn, hwn]) (k'.gravesFresh v hv w hw)

/-! ## C04 across restarts -/

/-- the invariant of C03 together with "every used block is justified" (C04) -/
structure Inv4 (s : Sys) : Prop where
  inv3 : Inv3 s
  tight : Tight s

theorem inv4_step {s : Sys} (h : Inv4 s) (e : Ev) (hf : Frag3 s e) : Inv4 (step s e).1 := by
  refine ⟨inv3_step h.inv3 e hf, ?_⟩
  by_cases hb : ∃ sv ws, e = .boot sv ws
  · obtain ⟨sv, ws, rfl⟩ := hb
    obtain ⟨h1, h2, h3⟩ := hf
    exact (inv_boot h.inv3.inv h.inv3.cci sv ws h1 h2 h3).2.2
  · have hnb : ∀ sv ws, e ≠ .boot sv ws := fun sv ws he => hb ⟨sv, ws, he⟩
    exact tight_step h.inv3.inv h.tight e (frag_of_frag3 hnb hf)

theorem inv4_run : ∀ (evs : List Ev) (s : Sys), Inv4 s → Frag3All s evs → Inv4 (run s evs) := by
  intro evs
  induction evs with
  | nil => intro s h _; exact h
  | cons e rest ih =>
    intro s h hf
    have : run s (e :: rest) = run (step s e).1 rest := by simp [run]
    rw [this]
    exact ih _ (inv4_step h e hf.1) hf.2

/-- **right after a restart every block in use is a pod CIDR of a listed node associated with that entry, or meets
a configured service range** — whatever the crashed incarnation had reserved, leaked or kept for deleted nodes is free -/
theorem restart_withholds_only_justified {s : Sys} (h : Inv3 s) (svcs : List Cidr) (ws : List WOut)
    (hf : Frag3 s (.boot svcs ws)) : Tight (boot s svcs ws).1 := by
  obtain ⟨h1, h2, h3⟩ := hf
  exact (inv_boot h.inv h.cci svcs ws h1 h2 h3).2.2

/-! ## a crash right after a node write whose answer never arrived

Without a restart a node write that is applied but reported as failed is finding P13 (the reservation is released
although the node now holds the block), so `Frag` excludes it.  Followed by a restart it is harmless: the new
incarnation is a function of the API state (`C03.boot_depends_on_api_only`), and the API state after an item with
lost answers is the API state after the same item with those answers delivered. -/

def okify (ws : List WOut) : List WOut := ws.map (fun w => if w = .lost then .ok else w)

theorem okify_headD (ws : List WOut) : (okify ws).headD .ok = (if ws.headD .ok = .lost then .ok else ws.headD .ok) := by
  cases ws with
  | nil => rfl
  | cons w t => rfl

theorem okify_tail (ws : List WOut) : (okify ws).tail = okify ws.tail := by
  cases ws with
  | nil => rfl
  | cons w t => rfl

/-- the API side of the PATCH retry loop -/
def apiAfter (name : String) (cidrs : List Cidr) : Nat → Api → List WOut → Api
  | 0, a, _ => a
  | k + 1, a, ws =>
    match ws.headD .ok with
    | .fail => apiAfter name cidrs k a ws.tail
    | .ok => if (a.patchNode name cidrs).2 = true then (a.patchNode name cidrs).1 else apiAfter name cidrs k (a.patchNode name cidrs).1 ws.tail
    | .lost => apiAfter name cidrs k (a.patchNode name cidrs).1 ws.tail

theorem patchLoop_api (name : String) (cidrs : List Cidr) : ∀ (k : Nat) (a : Api) (ws : List WOut)
    (acc : List (String × List Cidr × String)), (patchLoop a name cidrs k ws acc).1 = apiAfter name cidrs k a ws := by
  intro k
  induction k with
  | zero => intro a ws acc; rfl
  | succ k ih =>
    intro a ws acc
    unfold patchLoop apiAfter
    cases hw : ws.headD .ok with
    | fail =>
      have : attemptPatch a name cidrs .fail = (a, false, "fail") := rfl
      simp only [this]
      exact ih _ _ _
    | ok =>
      cases hp : a.patchNode name cidrs with
      | mk a' acc0 =>
        have : attemptPatch a name cidrs .ok = (a', acc0, if acc0 then "ok" else "rejected") := by
          unfold attemptPatch; rw [hp]
        simp only [this]
        cases acc0 with
        | true => simp
        | false => simp; exact ih _ _ _
    | lost =>
      cases hp : a.patchNode name cidrs with
      | mk a' acc0 =>
        have : attemptPatch a name cidrs .lost = (a', false, if acc0 then "lost" else "rejected") := by
          unfold attemptPatch; rw [hp]
        simp only [this]
        simp
        exact ih _ _ _

theorem patchNode_changes {a : Api} {name : String} {cidrs : List Cidr} :
    (a.patchNode name cidrs).1 = a ∨
    ∃ n, getNode a.nodes name = some n ∧ n.hasCidrs = false ∧
      a.patchNode name cidrs = ({ a with nodes := putNode a.nodes { n with cidrs := cidrs } }, true) := by
  unfold Api.patchNode
  cases hg : getNode a.nodes name with
  | none => left; rfl
  | some n =>
    simp only
    cases hc : n.hasCidrs with
    | false => right; exact ⟨n, rfl, hc, by simp⟩
    | true =>
      left
      simp only [Bool.not_true, Bool.false_eq_true, if_false]
      split <;> rfl

/-- once the node has the CIDRs, further attempts of the same PATCH leave the API as it is -/
theorem patchNode_fix {a : Api} {name : String} {cidrs : List Cidr} (hne : cidrs ≠ []) {n : NodeObj}
    (hg : getNode a.nodes name = some n) (hc : n.hasCidrs = false) :
    let a' : Api := { a with nodes := putNode a.nodes { n with cidrs := cidrs } }
    a'.patchNode name cidrs = (a', true) := by
  intro a'
  have hname : n.name = name := (Safety.mem_of_getNode hg).2
  have hself : getNode a'.nodes name = some { n with cidrs := cidrs } := by
    have := Safety.getNode_putNode_self a.nodes { n with cidrs := cidrs }
    simp only at this
    rw [← hname]; exact this
  have hjunk : n.junk = false := by
    unfold NodeObj.hasCidrs at hc
    cases hj : n.junk with
    | false => rfl
    | true => rw [hj] at hc; simp at hc
  have hhas : (NodeObj.hasCidrs { n with cidrs := cidrs }) = true := by
    unfold NodeObj.hasCidrs
    cases cidrs with
    | nil => exact absurd rfl hne
    | cons _ _ => simp
  unfold Api.patchNode
  rw [hself]
  simp only
  rw [hhas]
  simp [hjunk]

theorem apiAfter_fix (name : String) (cidrs : List Cidr) {a : Api} (h : a.patchNode name cidrs = (a, true)) :
    ∀ (k : Nat) (ws : List WOut), apiAfter name cidrs k a ws = a := by
  intro k
  induction k with
  | zero => intro ws; rfl
  | succ k ih =>
    intro ws
    unfold apiAfter
    cases ws.headD .ok with
    | fail => exact ih _
    | ok => simp only [h, if_true]
    | lost => simp only [h]; exact ih _

theorem apiAfter_okify (name : String) (cidrs : List Cidr) (hne : cidrs ≠ []) : ∀ (k : Nat) (a : Api) (ws : List WOut),
    apiAfter name cidrs k a ws = apiAfter name cidrs k a (okify ws) := by
  intro k
  induction k with
  | zero => intro a ws; rfl
  | succ k ih =>
    intro a ws
    unfold apiAfter
    rw [okify_headD, okify_tail]
    cases hw : ws.headD .ok with
    | fail => simp only [reduceCtorEq, if_false]; exact ih _ _
    | ok =>
      simp only [reduceCtorEq, if_false]
      split
      · rfl
      · exact ih _ _
    | lost =>
      simp only [if_true]
      rcases @patchNode_changes a name cidrs with hsame | ⟨n, hg, hc, hp⟩
      · -- nothing changed: the retry sees the same API
        cases hacc : (a.patchNode name cidrs).2 with
        | true =>
          simp only [if_true]
          have hfix : (a.patchNode name cidrs).1.patchNode name cidrs = ((a.patchNode name cidrs).1, true) := by
            rw [hsame]
            have : a.patchNode name cidrs = ((a.patchNode name cidrs).1, (a.patchNode name cidrs).2) := rfl
            rw [this, hsame, hacc]
          exact apiAfter_fix name cidrs hfix _ _
        | false =>
          simp only [Bool.false_eq_true, if_false]
          exact ih _ _
      · rw [hp]
        simp only [if_true]
        exact apiAfter_fix name cidrs (patchNode_fix hne hg hc) _ _

theorem update_api_okify (s : Sys) (name : String) (cidrs : List Cidr) (i : Nat) (ws : List WOut) (hne : cidrs ≠ []) :
    (updateCIDRsAllocation s name cidrs i ws).1.api = (updateCIDRsAllocation s name cidrs i (okify ws)).1.api := by
  have key : (patchLoop s.api name cidrs 3 ws []).1 = (patchLoop s.api name cidrs 3 (okify ws) []).1 := by
    rw [patchLoop_api, patchLoop_api]; exact apiAfter_okify name cidrs hne 3 s.api ws
  unfold updateCIDRsAllocation
  split
  · rfl
  · split
    · rfl
    · split
      · cases s.alloc.releaseAll i cidrs with
        | mk al okk => cases okk <;> rfl
      · cases h1 : patchLoop s.api name cidrs 3 ws [] with
        | mk a1 r1 =>
          cases h2 : patchLoop s.api name cidrs 3 (okify ws) [] with
          | mk a2 r2 =>
            rw [h1, h2] at key
            simp only at key
            obtain ⟨o1, p1⟩ := r1
            obtain ⟨o2, p2⟩ := r2
            simp only
            subst key
            cases o1 <;> cases o2 <;> rfl

theorem procNode_api_okify (s : Sys) (name : String) (refresh : Bool) (ws : List WOut) :
    (procNode s name refresh ws).1.api = (procNode s name refresh (okify ws)).1.api := by
  have core : ∀ t : Sys, (procNodeCore t name refresh ws).1.api = (procNodeCore t name refresh (okify ws)).1.api := by
    intro t
    unfold procNodeCore
    split
    · rfl
    · rename_i n _
      split
      · rfl
      · unfold allocateOrOccupy
        split
        · rfl
        · split
          · rfl
          · rename_i al cidrs i _
            split
            · rfl
            · rename_i hemp
              have hne : cidrs ≠ [] := by intro h; apply hemp; rw [h]; rfl
              simp only
              split
              · split
                · exact update_api_okify _ _ _ _ _ hne
                · exact update_api_okify _ _ _ _ _ hne
              · exact update_api_okify _ _ _ _ _ hne
  unfold procNode
  simp only
  have := core { s with nodeQ := qDel s.nodeQ name }
  split <;> split <;> exact this

theorem okify_frag (ws : List WOut) : ∀ w ∈ (okify ws).take 3, w ≠ WOut.lost := by
  intro w hw
  have := List.mem_of_mem_take hw
  unfold okify at this
  obtain ⟨w0, _, rfl⟩ := List.mem_map.mp this
  split
  · intro h; cases h
  · assumption

/-- **crash between a successful node write and recording it**: a node item with *any* write outcomes — also
writes that were applied although the controller saw an error — followed by a restart leaves the controller in a
state satisfying the invariant: no assignment is lost, none is handed out twice. -/
theorem crash_after_node_write {s : Sys} (h : Inv3 s) (name : String) (refresh : Bool) (ws : List WOut)
    (svcs : List Cidr) (ws' : List WOut) (hb : Frag3 (step s (.procNode name refresh ws)).1 (.boot svcs ws')) :
    Inv3 (run s [.procNode name refresh ws, .boot svcs ws']) := by
  have hrun : run s [.procNode name refresh ws, .boot svcs ws'] = (boot (step s (.procNode name refresh ws)).1 svcs ws').1 := by
    simp [run, step]
  have hapi : (step s (.procNode name refresh ws)).1.api = (step s (.procNode name refresh (okify ws))).1.api := by
    simp only [step]
    split
    · exact procNode_api_okify s name refresh ws
    · rfl
  have hboot := C03.boot_depends_on_api_only _ _ hapi svcs ws'
  rw [hrun, hboot]
  have h1 : Inv3 (step s (.procNode name refresh (okify ws))).1 := inv3_step h _ (okify_frag ws)
  obtain ⟨b1, b2, b3⟩ := hb
  have hb' : Frag3 (step s (.procNode name refresh (okify ws))).1 (.boot svcs ws') := by
    refine ⟨b1, ?_, ?_⟩
    · rw [← hapi]; exact b2
    · rw [← hboot]; exact b3
  exact inv3_step h1 _ hb'

/-! ## an executable test for membership in the fragment (used for the examples below) -/

instance (fld : RangeField) (hb : Int) : Decidable (C09.FieldOK fld hb) := by
  unfold C09.FieldOK
  cases fld <;> simp only <;> exact inferInstance
instance (sp : CCSpec) : Decidable (C09.SpecOK sp) := by unfold C09.SpecOK; exact inferInstance

def poolAt (a : Alloc) (i : Nat) (f : Fam) : Option Pool := (a.ccs[i]?).bind (·.pool f)

def rangesDisjB (a : Alloc) : Bool :=
  (List.range a.ccs.length).all fun i => (List.range a.ccs.length).all fun j => i == j ||
    [Fam.v4, Fam.v6].all fun f =>
      match poolAt a i f, poolAt a j f with
      | some p, some q => decide (p.geo.range.Disjoint q.geo.range)
      | _, _ => true

theorem rangesDisj_of_B {a : Alloc} (h : rangesDisjB a = true) : RangesDisj a := by
  intro i j c d f p q hi hj hp hq hne
  unfold Alloc.get? at hi hj
  have hil : i < a.ccs.length := (List.getElem?_eq_some_iff.mp hi).1
  have hjl : j < a.ccs.length := (List.getElem?_eq_some_iff.mp hj).1
  unfold rangesDisjB at h
  rw [List.all_eq_true] at h
  have h1 := h i (List.mem_range.mpr hil)
  rw [List.all_eq_true] at h1
  have h2 := h1 j (List.mem_range.mpr hjl)
  simp only [Bool.or_eq_true, beq_iff_eq, hne, false_or, List.all_eq_true] at h2
  have h3 := h2 f (by cases f <;> simp)
  have e1 : poolAt a i f = some p := by unfold poolAt; rw [hi]; exact hp
  have e2 : poolAt a j f = some q := by unfold poolAt; rw [hj]; exact hq
  rw [e1, e2] at h3
  simpa using h3

def frag3B (s : Sys) : Ev → Bool
  | .boot svcs ws => decide (∀ sv ∈ svcs, sv.WF) && decide (∀ o ∈ s.api.ccs, C09.SpecOK o.spec) && rangesDisjB (boot s svcs ws).1.alloc
  | .nodeAdd n => decide (n.cidrs = []) && decide (n.junk = false) && decide (getNode s.nodeView n.name = none)
  | .nodeDel _ => true
  | .nodeDeleting _ => true
  | .deliverNode name tomb => !tomb || (getNode s.api.nodes name).isSome
  | .procNode _ _ ws => decide (∀ w ∈ ws.take 3, w ≠ WOut.lost)
  | .ccAdd name _ => decide (getCC s.ccView name = none)
  | .ccDel name => match getCC s.api.ccs name with
      | none => true
      | some o => hasFin o || (decide (∀ c ∈ s.alloc.ccs, c.name ≠ name) && decide (getCC s.ccView name = none))
  | .ccAddFin _ _ => true
  | .deliverCC _ => true
  | .procCC name _ => match getCC s.ccView name with
      | none => true
      | some obj => obj.deleting || (decide (C09.SpecOK obj.spec) && match s.alloc.createCC obj.name obj.spec false with
          | none => true
          | some al => rangesDisjB al)
  | _ => false

theorem frag3_of_B {s : Sys} {e : Ev} (h : frag3B s e = true) : Frag3 s e := by
  cases e with
  | boot svcs ws =>
    simp only [frag3B, Bool.and_eq_true, decide_eq_true_eq] at h
    exact ⟨h.1.1, h.1.2, rangesDisj_of_B h.2⟩
  | nodeAdd n =>
    simp only [frag3B, Bool.and_eq_true, decide_eq_true_eq] at h
    exact ⟨h.1.1, h.1.2, h.2⟩
  | nodeDel name => trivial
  | nodeDeleting name => trivial
  | nodeLabels name ls => simp [frag3B] at h
  | nodeSetCIDRs name cidrs => simp [frag3B] at h
  | ccGen name g => simp [frag3B] at h
  | deliverNode name tomb =>
    intro ht
    simp only [frag3B, ht, Bool.not_true, Bool.false_or] at h
    exact h
  | procNode name refresh ws =>
    simp only [frag3B, decide_eq_true_eq] at h
    exact h
  | ccAdd name spec =>
    simp only [frag3B, decide_eq_true_eq] at h
    exact h
  | ccDel name =>
    intro o ho
    simp only [frag3B, ho, Bool.or_eq_true, Bool.and_eq_true, decide_eq_true_eq] at h
    exact h
  | ccAddFin name fin => trivial
  | deliverCC name => trivial
  | procCC name w =>
    intro obj hobj hd
    simp only [frag3B, hobj, hd, Bool.false_or, Bool.and_eq_true, decide_eq_true_eq] at h
    refine ⟨h.1, ?_⟩
    intro al hal
    rw [hal] at h
    exact rangesDisj_of_B h.2

/-- the same for the fragment of `Safety.lean` (no restart; ClusterCIDRs may be deleted and edited at any time) -/
def fragB (s : Sys) : Ev → Bool
  | .boot _ _ => false
  | .ccAdd _ _ => true
  | .ccDel _ => true
  | .ccGen _ _ => true
  | e => frag3B s e

theorem frag_of_B {s : Sys} {e : Ev} (h : fragB s e = true) : Frag s e := by
  cases e with
  | boot svcs ws => simp [fragB] at h
  | ccAdd name spec => trivial
  | ccDel name => trivial
  | ccGen name g => trivial
  | nodeAdd n => exact frag_of_frag3 (fun _ _ he => by cases he) (frag3_of_B h)
  | nodeDel name => trivial
  | nodeDeleting name => trivial
  | nodeLabels name ls => exact frag_of_frag3 (fun _ _ he => by cases he) (frag3_of_B h)
  | nodeSetCIDRs name cidrs => exact frag_of_frag3 (fun _ _ he => by cases he) (frag3_of_B h)
  | ccAddFin name fin => trivial
  | deliverNode name tomb => exact frag_of_frag3 (fun _ _ he => by cases he) (frag3_of_B h)
  | deliverCC name => trivial
  | procNode name refresh ws => exact frag_of_frag3 (fun _ _ he => by cases he) (frag3_of_B h)
  | procCC name w => exact frag_of_frag3 (fun _ _ he => by cases he) (frag3_of_B h)

/-- the state a controller reaches by starting on an empty cluster satisfies the invariants -/
theorem inv3_init : Inv3 Sys.init := by
  refine ⟨?_, ?_, List.nodup_nil⟩
  · apply inv_init
    · intro i c hc; simp [Alloc.get?, Sys.init] at hc
    · intro i j c d f p q hi; simp [Alloc.get?, Sys.init] at hi
    · intro i c hc; simp [Alloc.get?, Sys.init] at hc
    · rfl
    · rfl
    · exact List.nodup_nil
    · intro y hy; simp [Sys.init] at hy
  · refine ⟨?_, ?_, ?_, ?_, ?_⟩
    · intro x hx; simp [SH, Sys.init] at hx
    · intro n o ho; simp [Sys.init, getCC] at ho
    · intro n v o hv; simp [Sys.init, getCC] at hv
    · intro n v hv; simp [Sys.init, getCC] at hv
    · intro n o ho; simp [Sys.init, getCC] at ho

def frag3AllB : Sys → List Ev → Bool
  | _, [] => true
  | s, e :: rest => frag3B s e && frag3AllB (step s e).1 rest

theorem frag3All_of_B : ∀ (evs : List Ev) (s : Sys), frag3AllB s evs = true → Frag3All s evs := by
  intro evs
  induction evs with
  | nil => intro _ _; trivial
  | cons e rest ih =>
    intro s h
    simp only [frag3AllB, Bool.and_eq_true] at h
    exact ⟨frag3_of_B h.1, ih _ h.2⟩

/-! ## the hypotheses are satisfiable, and a history of the fragment with two restarts -/

def exCCa : CCObj := ⟨"a", ⟨none, 4, .ok ⟨.v4, 0x0a000000, 27⟩ "10.0.0.0/27", .empty⟩, [], false, 1, 1⟩
def exCCb : CCObj :=
  ⟨"b", ⟨some [⟨[⟨"zone", "In", ["a"], true, true⟩], []⟩], 4, .ok ⟨.v4, 0x0a000100, 26⟩ "10.0.1.0/26", .empty⟩, [], false, 1, 2⟩
/-- a cluster with two ClusterCIDR objects and a controller that has not started yet -/
def exStart3 : Sys := { Sys.init with api := ⟨[], [exCCa, exCCb], []⟩ }

theorem exStart3_inv3 : Inv3 exStart3 := by
  refine ⟨?_, ?_, List.nodup_nil⟩
  · apply inv_init
    · intro i c hc; simp [Alloc.get?, exStart3, Sys.init] at hc
    · intro i j c d f p q hi; simp [Alloc.get?, exStart3, Sys.init] at hi
    · intro i c hc; simp [Alloc.get?, exStart3, Sys.init] at hc
    · rfl
    · rfl
    · exact List.nodup_nil
    · intro y hy; simp [exStart3] at hy
  · have hmem : ∀ n o, getCC exStart3.api.ccs n = some o → o = exCCa ∨ o = exCCb := by
      intro n o ho
      have := (mem_of_getCC ho).1
      simpa [exStart3] using this
    refine ⟨?_, ?_, ?_, ?_, ?_⟩
    · intro x hx; simp [SH, exStart3, Sys.init] at hx
    · intro n o ho; rcases hmem n o ho with rfl | rfl <;> decide
    · intro n v o hv; simp [exStart3, Sys.init, getCC] at hv
    · intro n v hv; simp [exStart3, Sys.init, getCC] at hv
    · intro n o ho hd; rcases hmem n o ho with rfl | rfl <;> simp [exCCa, exCCb] at hd

def exHistory3 : List Ev :=
  [.boot [] [],
   .nodeAdd ⟨"n1", [], [], false, false⟩, .deliverNode "n1" false, .procNode "n1" false [],
   .nodeAdd ⟨"n2", [], [], false, false⟩, .deliverNode "n2" false, .procNode "n2" false [],
   -- n1 is marked for deletion and lingers; its block is released and goes to n3
   .nodeDeleting "n1", .deliverNode "n1" false, .procNode "n1" false [],
   .nodeAdd ⟨"n3", [], [], false, false⟩, .deliverNode "n3" false, .procNode "n3" false [],
   -- the controller restarts (the second finalizer write fails), then n1 goes for good
   .boot [] [.ok, .fail],
   .nodeDel "n1", .deliverNode "n1" false,
   .nodeAdd ⟨"n4", [], [], false, false⟩, .deliverNode "n4" false, .procNode "n4" false [],
   .boot [⟨.v4, 0x0a000100, 28⟩] []]

example : Frag3All exStart3 exHistory3 := frag3All_of_B _ _ (by decide +kernel)

/-- n2 and n3 hold the two blocks of `a` (n3 the one n1 had), n4 — which the selector-less `a` alone can serve — gets
nothing instead of a block in use -/
example : (run exStart3 exHistory3).api.nodes.map (fun n => (n.name, n.cidrs.map (·.addr))) =
    [("n2", [0x0a000010]), ("n3", [0x0a000000]), ("n4", [])] := by decide +kernel

example : NoOverlap (run exStart3 exHistory3) :=
  no_overlap_across_restarts _ exStart3_inv3 _ (frag3All_of_B _ _ (by decide +kernel))

end Ipam.Restart
