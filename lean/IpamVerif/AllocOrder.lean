import IpamVerif.AllocLemmas
/-! "The map only grew": a preorder on allocator states that keeps everything static (keys, requirements,
names, associations, terminating flags, pool geometries and labels) and lets used sets grow; its symmetric
part (`Eqv`) = "nothing but cursors (and counters) changed".  Used by C04 / C09 / C01. -/
namespace Ipam

def PoolLe (p p' : Pool) : Prop := p'.geo = p.geo ∧ p'.label = p.label ∧ ∀ k, k ∈ p.used → k ∈ p'.used

def OptPoolLe : Option Pool → Option Pool → Prop
  | none, none => True
  | some p, some p' => PoolLe p p'
  | _, _ => False

def CCLe (c c' : CC) : Prop :=
  c'.key = c.key ∧ c'.reqs = c.reqs ∧ c'.name = c.name ∧ c'.assoc = c.assoc ∧ c'.term = c.term ∧
  ∀ g, OptPoolLe (c.pool g) (c'.pool g)

def AllocLe (a a' : Alloc) : Prop :=
  a'.ccs.length = a.ccs.length ∧ ∀ j c, a.get? j = some c → ∃ c', a'.get? j = some c' ∧ CCLe c c'

def AllocEqv (a a' : Alloc) : Prop := AllocLe a a' ∧ AllocLe a' a

theorem PoolLe.refl (p : Pool) : PoolLe p p := ⟨rfl, rfl, fun _ h => h⟩
theorem PoolLe.trans {p q r : Pool} (h1 : PoolLe p q) (h2 : PoolLe q r) : PoolLe p r :=
  ⟨h2.1.trans h1.1, h2.2.1.trans h1.2.1, fun k hk => h2.2.2 k (h1.2.2 k hk)⟩

theorem OptPoolLe.refl (o : Option Pool) : OptPoolLe o o := by
  cases o with
  | none => trivial
  | some p => exact PoolLe.refl p

theorem OptPoolLe.trans {o1 o2 o3 : Option Pool} (h1 : OptPoolLe o1 o2) (h2 : OptPoolLe o2 o3) : OptPoolLe o1 o3 := by
  cases o1 <;> cases o2 <;> cases o3 <;> simp only [OptPoolLe] at * <;> first | trivial | exact PoolLe.trans h1 h2 | exact h1.elim | exact h2.elim

theorem CCLe.refl (c : CC) : CCLe c c := ⟨rfl, rfl, rfl, rfl, rfl, fun g => OptPoolLe.refl _⟩
theorem CCLe.trans {c d e : CC} (h1 : CCLe c d) (h2 : CCLe d e) : CCLe c e :=
  ⟨h2.1.trans h1.1, h2.2.1.trans h1.2.1, h2.2.2.1.trans h1.2.2.1, h2.2.2.2.1.trans h1.2.2.2.1,
   h2.2.2.2.2.1.trans h1.2.2.2.2.1, fun g => OptPoolLe.trans (h1.2.2.2.2.2 g) (h2.2.2.2.2.2 g)⟩

theorem AllocLe.refl (a : Alloc) : AllocLe a a := ⟨rfl, fun _ c h => ⟨c, h, CCLe.refl c⟩⟩
theorem AllocLe.trans {a b c : Alloc} (h1 : AllocLe a b) (h2 : AllocLe b c) : AllocLe a c := by
  refine ⟨h2.1.trans h1.1, ?_⟩
  intro j x hx
  obtain ⟨y, hy, hxy⟩ := h1.2 j x hx
  obtain ⟨z, hz, hyz⟩ := h2.2 j y hy
  exact ⟨z, hz, CCLe.trans hxy hyz⟩

theorem AllocEqv.refl (a : Alloc) : AllocEqv a a := ⟨AllocLe.refl a, AllocLe.refl a⟩
theorem AllocEqv.trans {a b c : Alloc} (h1 : AllocEqv a b) (h2 : AllocEqv b c) : AllocEqv a c :=
  ⟨AllocLe.trans h1.1 h2.1, AllocLe.trans h2.2 h1.2⟩
theorem AllocEqv.symm {a b : Alloc} (h : AllocEqv a b) : AllocEqv b a := ⟨h.2, h.1⟩

/-- replacing one pool of one entry by a bigger one -/
theorem AllocLe_set {a : Alloc} {i : Nat} {c : CC} {f : Fam} {p p' : Pool}
    (hget : a.get? i = some c) (hp : c.pool f = some p) (hle : PoolLe p p') : AllocLe a (a.set i (c.setPool f p')) := by
  refine ⟨by simp, ?_⟩
  intro j d hd
  by_cases hij : i = j
  · subst hij
    rw [hget] at hd; cases hd
    refine ⟨_, Alloc.get?_set_self _ _ _ _ hget, by simp, by simp, by simp, by simp, by simp, ?_⟩
    intro g
    by_cases hg : g = f
    · subst hg; rw [hp, CC.pool_setPool_same]; exact hle
    · rw [CC.pool_setPool_other _ _ _ _ hg]; exact OptPoolLe.refl _
  · exact ⟨d, by rw [Alloc.get?_set_ne _ _ _ _ hij]; exact hd, CCLe.refl d⟩

theorem AllocLe_set_rev {a : Alloc} {i : Nat} {c : CC} {f : Fam} {p p' : Pool}
    (hget : a.get? i = some c) (hp : c.pool f = some p) (hle : PoolLe p' p) : AllocLe (a.set i (c.setPool f p')) a := by
  refine ⟨by simp, ?_⟩
  intro j d hd
  by_cases hij : i = j
  · subst hij
    rw [Alloc.get?_set_self _ _ _ _ hget] at hd; cases hd
    refine ⟨c, hget, by simp, by simp, by simp, by simp, by simp, ?_⟩
    intro g
    by_cases hg : g = f
    · subst hg; rw [hp, CC.pool_setPool_same]; exact hle
    · rw [CC.pool_setPool_other _ _ _ _ hg]; exact OptPoolLe.refl _
  · rw [Alloc.get?_set_ne _ _ _ _ hij] at hd
    exact ⟨d, hd, CCLe.refl d⟩

/-- the overlap check only grows with the used sets -/
theorem blocked_mono {a a' : Alloc} (h : AllocLe a a') (blk : Cidr) (hb : a.blocked blk = true) : a'.blocked blk = true := by
  rw [Alloc.blocked_iff'] at hb ⊢
  obtain ⟨j, d, q, u, hj, hd, hu, ho⟩ := hb
  obtain ⟨d', hj', hle⟩ := h.2 j d hj
  have := hle.2.2.2.2.2 blk.fam
  rw [hd] at this
  cases hq : d'.pool blk.fam with
  | none => rw [hq] at this; exact this.elim
  | some q' =>
    rw [hq] at this
    exact ⟨j, d', q', u, hj', hq, this.2.2 u hu, by rw [this.1]; exact ho⟩

theorem blocked_eqv {a a' : Alloc} (h : AllocEqv a a') (blk : Cidr) : a'.blocked blk = a.blocked blk := by
  rw [Bool.eq_iff_iff]
  exact ⟨blocked_mono h.2 blk, blocked_mono h.1 blk⟩

/-- well-formedness of the smaller state's entries is not needed: cursor moves keep `PoolOK` -/
theorem PoolOK_cursor {f : Fam} {p : Pool} (hp : PoolOK f p) {x : Nat} (hx : x < p.max) : PoolOK f { p with cursor := x } :=
  ⟨{ toInv0 := { nodup := hp.1.nodup, bound := hp.1.bound, count_eq := hp.1.count_eq, cursor_lt := hx,
                 metrics := hp.1.metrics, maxg := hp.1.maxg }, usage_eq := hp.1.usage_eq }, hp.2.1, hp.2.2⟩

/-- `allocateCIDR`: the state only grows, stays well-formed; on failure nothing but a cursor changed -/
theorem allocate_le {a a' : Alloc} (ha : a.WF) {i : Nat} {f : Fam} {c : CC} {p : Pool} {r : Option Cidr}
    (hget : a.get? i = some c) (hp : c.pool f = some p) (h : a.allocate i f = (a', r)) :
    AllocLe a a' ∧ a'.WF ∧ (r = none → AllocEqv a a') := by
  have hok := ha i c hget f p hp
  obtain ⟨h1, h2⟩ := allocate_spec hget hp hok
  cases r with
  | none =>
    obtain ⟨_, x, hx, hxm⟩ := h1 a' h
    subst hx
    have hle1 : PoolLe p { p with cursor := x } := ⟨rfl, rfl, fun _ hk => hk⟩
    have hle2 : PoolLe { p with cursor := x } p := ⟨rfl, rfl, fun _ hk => hk⟩
    exact ⟨AllocLe_set hget hp hle1, Alloc.WF_set ha (CC.WF_setPool (ha i c hget) (PoolOK_cursor hok hxm)),
      fun _ => ⟨AllocLe_set hget hp hle1, AllocLe_set_rev hget hp hle2⟩⟩
  | some blk =>
    obtain ⟨k, x, p', hk, hb, _, _, hx, hocc, ha'⟩ := h2 a' blk h
    subst ha'
    have hokx := PoolOK_cursor hok hx
    have hbw : blk.WF := hb ▸ goBlock_WF hok hk
    obtain ⟨hI', hg, _, hl, hm⟩ := (C14.occupy_refines hokx.2.1 hokx.1 hbw).2 p' hocc
    have hle : PoolLe p p' := ⟨hg, hl, fun j hj => (hm j).mpr (Or.inl hj)⟩
    exact ⟨AllocLe_set hget hp hle, Alloc.WF_set ha (CC.WF_setPool (ha i c hget) ⟨hI', hg ▸ hokx.2.1, hg ▸ hokx.2.2⟩),
      fun h => by cases h⟩


/-- reserve block `k` (free) and give it back: the used set is what it was, the counter too -/
theorem reserve_then_release_restores {f : Fam} {p p1 : Pool} (hp : PoolOK f p) {k : Nat} (hk : k < p.max)
    (hfree : k ∉ p.used) (h1 : p.occupy (goBlock p.geo k) = some p1) :
    ∃ p2, p1.release (goBlock p.geo k) = some p2 ∧ (∀ j, j ∈ p2.used ↔ j ∈ p.used) ∧ p2.count = p.count ∧ PoolOK f p2 := by
  have hbw := goBlock_WF hp hk
  obtain ⟨hI1, hg1, _, _, hm1⟩ := (C14.occupy_refines hp.2.1 hp.1 hbw).2 p1 h1
  have hp1 : PoolOK f p1 := ⟨hI1, hg1 ▸ hp.2.1, hg1 ▸ hp.2.2⟩
  have hmax1 : p1.max = p.max := by unfold Pool.max; rw [hg1]
  cases h2 : p1.release (goBlock p.geo k) with
  | none =>
    exfalso
    have := (C14.release_refines hp1.2.1 hI1 hbw).1.mp h2
    rw [hg1] at this
    rcases this with h | h
    · exact h rfl
    · have hsub := (C13.block_is_ith_subrange hp.2.1 hk).2.2
      have := (goBlock p.geo k).size_pos
      unfold Cidr.Disjoint at h
      have := hsub.1; have := hsub.2
      omega
  | some p2 =>
    obtain ⟨hI2, hg2, _, _, hm2⟩ := (C14.release_refines hp1.2.1 hI1 hbw).2 p2 h2
    have honly : ∀ j, C14.Touches p (goBlock p.geo k) j ↔ j = k :=
      C14.touches_only_enclosing hp.2.1 hk ⟨Nat.le_refl _, Nat.le_refl _⟩
    have honly1 : ∀ j, C14.Touches p1 (goBlock p.geo k) j ↔ j = k := by
      intro j
      unfold C14.Touches
      rw [hmax1, hg1]
      exact honly j
    have hmem : ∀ j, j ∈ p2.used ↔ j ∈ p.used := by
      intro j
      rw [hm2 j, hm1 j, honly1 j, honly j]
      constructor
      · rintro ⟨h | h, hne⟩
        · exact h
        · exact absurd h hne
      · intro h
        exact ⟨Or.inl h, fun e => hfree (e ▸ h)⟩
    refine ⟨p2, rfl, hmem, ?_, ⟨hI2, hg2 ▸ hp1.2.1, hg2 ▸ hp1.2.2⟩⟩
    -- equal duplicate-free lists up to membership have equal length
    rw [hI2.count_eq, hp.1.count_eq]
    apply Nat.le_antisymm
    · exact hI2.nodup.length_le_of_subset (fun j hj => (hmem j).mp hj)
    · exact hp.1.nodup.length_le_of_subset (fun j hj => (hmem j).mpr hj)



theorem AllocLe_of_get {a a' : Alloc} (hlen : a'.ccs.length = a.ccs.length) (i : Nat) (c c' : CC)
    (hget : a.get? i = some c) (hget' : a'.get? i = some c') (hcc : CCLe c c')
    (hother : ∀ j, j ≠ i → a'.get? j = a.get? j) : AllocLe a a' := by
  refine ⟨hlen, ?_⟩
  intro j d hd
  by_cases hij : j = i
  · subst hij; rw [hget] at hd; cases hd; exact ⟨c', hget', hcc⟩
  · exact ⟨d, by rw [hother j hij]; exact hd, CCLe.refl d⟩

/-- the loop body of `prioritizedCIDRs` on one entry: the state only grows and stays well-formed; when the
entry is skipped nothing but cursors (and counters) changed — in particular an IPv4 block reserved before the
IPv6 pool turned out to be exhausted has been given back -/
theorem tryEntry_le {a a' : Alloc} (ha : a.WF) {i : Nat} {c : CC} {r : Option (List Cidr)}
    (hget : a.get? i = some c) (h : a.tryEntry i = (a', r)) :
    AllocLe a a' ∧ a'.WF ∧ (r = none → AllocEqv a a') := by
  unfold Alloc.tryEntry at h
  simp only [hget] at h
  cases h4 : c.v4 with
  | none =>
    rw [h4] at h
    simp only at h
    cases h6 : c.v6 with
    | none =>
      rw [h6] at h
      simp only [Prod.mk.injEq] at h
      obtain ⟨rfl, rfl⟩ := h
      exact ⟨AllocLe.refl a, ha, fun h => by cases h⟩
    | some p6 =>
      rw [h6] at h
      simp only at h
      cases hal : a.allocate i .v6 with
      | mk a2 r2 =>
        rw [hal] at h
        have := allocate_le ha hget (f := .v6) (p := p6) (by simp [CC.pool, h6]) hal
        cases r2 with
        | some b6 =>
          simp only [Prod.mk.injEq] at h
          obtain ⟨rfl, rfl⟩ := h
          exact ⟨this.1, this.2.1, fun h => by cases h⟩
        | none =>
          simp only [List.foldl_nil, Prod.mk.injEq] at h
          obtain ⟨rfl, rfl⟩ := h
          exact ⟨this.1, this.2.1, fun _ => this.2.2 rfl⟩
  | some p4 =>
    rw [h4] at h
    simp only at h
    have hp4 : c.pool .v4 = some p4 := by simp [CC.pool, h4]
    have hok4 := ha i c hget .v4 p4 hp4
    cases hal : a.allocate i .v4 with
    | mk a1 r1 =>
      rw [hal] at h
      have hle1 := allocate_le ha hget hp4 hal
      cases r1 with
      | none =>
        simp only [Prod.mk.injEq] at h
        obtain ⟨rfl, rfl⟩ := h
        exact ⟨hle1.1, hle1.2.1, fun _ => hle1.2.2 rfl⟩
      | some b4 =>
        simp only at h
        obtain ⟨k4, x4, p4', hk4, hb4, hfree4, _, hx4, hocc4, ha1⟩ := (allocate_spec hget hp4 hok4).2 a1 b4 hal
        have hget1 : a1.get? i = some (c.setPool .v4 p4') := by rw [ha1]; exact Alloc.get?_set_self _ _ _ _ hget
        cases h6 : c.v6 with
        | none =>
          rw [h6] at h
          simp only [Prod.mk.injEq] at h
          obtain ⟨rfl, rfl⟩ := h
          exact ⟨hle1.1, hle1.2.1, fun h => by cases h⟩
        | some p6 =>
          rw [h6] at h
          simp only at h
          have hp6 : (c.setPool .v4 p4').pool .v6 = some p6 := by
            rw [CC.pool_setPool_other _ _ _ _ (by decide)]; simp [CC.pool, h6]
          cases hal2 : a1.allocate i .v6 with
          | mk a2 r2 =>
            rw [hal2] at h
            have hle2 := allocate_le hle1.2.1 hget1 hp6 hal2
            cases r2 with
            | some b6 =>
              simp only [Prod.mk.injEq] at h
              obtain ⟨rfl, rfl⟩ := h
              exact ⟨AllocLe.trans hle1.1 hle2.1, hle2.2.1, fun h => by cases h⟩
            | none =>
              simp only [List.foldl_cons, List.foldl_nil, Prod.mk.injEq] at h
              obtain ⟨rfl, rfl⟩ := h
              -- entry `i` after the failed IPv6 attempt
              have hok6 := hle1.2.1 i _ hget1 .v6 p6 hp6
              obtain ⟨_, x6, ha2, hx6⟩ := (allocate_spec hget1 hp6 hok6).1 a2 hal2
              have hget2 : a2.get? i = some ((c.setPool .v4 p4').setPool .v6 { p6 with cursor := x6 }) := by
                rw [ha2]; exact Alloc.get?_set_self _ _ _ _ hget1
              rw [hget2]
              simp only
              -- the release of the reserved IPv4 block succeeds and restores the used set
              have hokx : PoolOK .v4 ({ p4 with cursor := x4 } : Pool) := PoolOK_cursor hok4 hx4
              have hb4' : b4 = goBlock ({ p4 with cursor := x4 } : Pool).geo k4 := hb4
              obtain ⟨p2, hrel, hmem, _, hok2⟩ := reserve_then_release_restores hokx (p1 := p4') hk4 hfree4 (hb4' ▸ hocc4)
              have hfam : b4.fam = .v4 := by rw [hb4]; exact hok4.2.2
              have hcrel : ((c.setPool .v4 p4').setPool .v6 { p6 with cursor := x6 }).release b4 =
                  some (((c.setPool .v4 p4').setPool .v6 { p6 with cursor := x6 }).setPool .v4 p2) := by
                unfold CC.release
                rw [hfam, CC.pool_setPool_other _ _ _ _ (by decide), CC.pool_setPool_same]
                simp only
                rw [hb4'] ; rw [hrel]
              rw [hcrel]
              simp only
              -- static parts equal, IPv4 used set as before, IPv6 pool differs by its cursor only
              have hocc_geo : p4'.geo = p4.geo ∧ p4'.label = p4.label := by
                have hbw : b4.WF := hb4 ▸ goBlock_WF hok4 hk4
                obtain ⟨_, hg, _, hl, _⟩ := (C14.occupy_refines hokx.2.1 hokx.1 hbw).2 p4' hocc4
                exact ⟨hg, hl⟩
              have hrel_geo : p2.geo = p4.geo ∧ p2.label = p4.label := by
                have hbw : b4.WF := hb4 ▸ goBlock_WF hok4 hk4
                have hok4' : PoolOK .v4 p4' := PoolOK_occupy hokx hbw hocc4
                obtain ⟨_, hg, _, hl, _⟩ := (C14.release_refines hok4'.2.1 hok4'.1 hbw).2 p2 (hb4' ▸ hrel)
                exact ⟨hg.trans hocc_geo.1, hl.trans hocc_geo.2⟩
              let cfin := ((c.setPool .v4 p4').setPool .v6 { p6 with cursor := x6 }).setPool .v4 p2
              have hgetf : (a2.set i cfin).get? i = some cfin := Alloc.get?_set_self _ _ _ _ hget2
              have hother : ∀ j, j ≠ i → (a2.set i cfin).get? j = a.get? j := by
                intro j hj
                rw [Alloc.get?_set_ne _ _ _ _ (Ne.symm hj), ha2, Alloc.get?_set_ne _ _ _ _ (Ne.symm hj), ha1,
                  Alloc.get?_set_ne _ _ _ _ (Ne.symm hj)]
              have hlen : (a2.set i cfin).ccs.length = a.ccs.length := by
                rw [Alloc.set_length, ha2, Alloc.set_length, ha1, Alloc.set_length]
              have hpools : ∀ g, OptPoolLe (c.pool g) (cfin.pool g) ∧ OptPoolLe (cfin.pool g) (c.pool g) := by
                intro g
                cases g with
                | v4 =>
                  have : cfin.pool .v4 = some p2 := CC.pool_setPool_same _ _ _
                  rw [this, hp4]
                  exact ⟨⟨hrel_geo.1, hrel_geo.2, fun k hk => (hmem k).mpr hk⟩,
                         ⟨hrel_geo.1.symm, hrel_geo.2.symm, fun k hk => (hmem k).mp hk⟩⟩
                | v6 =>
                  have : cfin.pool .v6 = some { p6 with cursor := x6 } := by
                    show (((c.setPool .v4 p4').setPool .v6 { p6 with cursor := x6 }).setPool .v4 p2).pool .v6 = _
                    rw [CC.pool_setPool_other _ _ _ _ (by decide), CC.pool_setPool_same]
                  have hc6 : c.pool .v6 = some p6 := by simp [CC.pool, h6]
                  rw [this, hc6]
                  exact ⟨⟨rfl, rfl, fun _ hk => hk⟩, ⟨rfl, rfl, fun _ hk => hk⟩⟩
              have hcc1 : CCLe c cfin := ⟨by simp [cfin], by simp [cfin], by simp [cfin], by simp [cfin], by simp [cfin], fun g => (hpools g).1⟩
              have hcc2 : CCLe cfin c := ⟨by simp [cfin], by simp [cfin], by simp [cfin], by simp [cfin], by simp [cfin], fun g => (hpools g).2⟩
              have hle : AllocLe a (a2.set i cfin) := AllocLe_of_get hlen i c cfin hget hgetf hcc1 hother
              have hge : AllocLe (a2.set i cfin) a :=
                AllocLe_of_get hlen.symm i cfin c hgetf hget hcc2 (fun j hj => (hother j hj).symm)
              refine ⟨hle, ?_, fun _ => ⟨hle, hge⟩⟩
              -- well-formed
              apply Alloc.WF_set hle2.2.1
              intro g q hq
              cases g with
              | v4 =>
                have : cfin.pool .v4 = some p2 := CC.pool_setPool_same _ _ _
                rw [this] at hq; cases hq; exact hok2
              | v6 =>
                have : cfin.pool .v6 = some { p6 with cursor := x6 } := by
                  show (((c.setPool .v4 p4').setPool .v6 { p6 with cursor := x6 }).setPool .v4 p2).pool .v6 = _
                  rw [CC.pool_setPool_other _ _ _ _ (by decide), CC.pool_setPool_same]
                rw [this] at hq; cases hq
                exact PoolOK_cursor hok6 hx6


/-- `prioritizedCIDRs`: walking the ordered list only grows the state; when no entry serves, nothing but
cursors (and counters) changed -/
theorem prioritized_le {a : Alloc} (ha : a.WF) : ∀ (l : List Nat) {a' : Alloc} {r : Option (List Cidr × Nat)},
    a.prioritized l = (a', r) → AllocLe a a' ∧ a'.WF ∧ (r = none → AllocEqv a a') := by
  intro l
  induction l generalizing a with
  | nil =>
    intro a' r h
    simp only [Alloc.prioritized, Prod.mk.injEq] at h
    obtain ⟨rfl, rfl⟩ := h
    exact ⟨AllocLe.refl a, ha, fun _ => AllocEqv.refl a⟩
  | cons i rest ih =>
    intro a' r h
    unfold Alloc.prioritized at h
    cases ht : a.tryEntry i with
    | mk a1 r1 =>
      rw [ht] at h
      have hstep : AllocLe a a1 ∧ a1.WF ∧ (r1 = none → AllocEqv a a1) := by
        cases hg : a.get? i with
        | none =>
          unfold Alloc.tryEntry at ht
          simp only [hg, Prod.mk.injEq] at ht
          obtain ⟨rfl, rfl⟩ := ht
          exact ⟨AllocLe.refl a, ha, fun _ => AllocEqv.refl a⟩
        | some c => exact tryEntry_le ha hg ht
      cases r1 with
      | some cidrs =>
        simp only [Prod.mk.injEq] at h
        obtain ⟨rfl, rfl⟩ := h
        exact ⟨hstep.1, hstep.2.1, fun h => by cases h⟩
      | none =>
        simp only at h
        obtain ⟨h1, h2, h3⟩ := ih hstep.2.1 h
        exact ⟨AllocLe.trans hstep.1 h1, h2, fun hr => AllocEqv.trans (hstep.2.2 rfl) (h3 hr)⟩



/-- what `allocateCIDR` reserved can be given back: the pool's used set is then what it was before -/
theorem allocate_then_release {a a' : Alloc} {i : Nat} {f : Fam} {c : CC} {p : Pool} {blk : Cidr}
    (hget : a.get? i = some c) (hp : c.pool f = some p) (hok : PoolOK f p) (h : a.allocate i f = (a', some blk)) :
    ∃ p', a' = a.set i (c.setPool f p') ∧ PoolOK f p' ∧ blk.fam = f ∧ PoolLe p p' ∧
      ∃ p2, p'.release blk = some p2 ∧ PoolOK f p2 ∧ PoolLe p p2 ∧ PoolLe p2 p := by
  obtain ⟨k, x, p', hk, hb, hfree, _, hx, hocc, ha'⟩ := (allocate_spec hget hp hok).2 a' blk h
  have hokx := PoolOK_cursor hok hx
  have hbw : blk.WF := hb ▸ goBlock_WF hok hk
  have hb' : blk = goBlock ({ p with cursor := x } : Pool).geo k := hb
  obtain ⟨p2, hrel, hmem, _, hok2⟩ := reserve_then_release_restores hokx (p1 := p') hk hfree (hb' ▸ hocc)
  obtain ⟨hI', hg, _, hl, hm⟩ := (C14.occupy_refines hokx.2.1 hokx.1 hbw).2 p' hocc
  have hok' : PoolOK f p' := ⟨hI', hg ▸ hokx.2.1, hg ▸ hokx.2.2⟩
  obtain ⟨_, hg2, _, hl2, _⟩ := (C14.release_refines hok'.2.1 hok'.1 hbw).2 p2 (hb' ▸ hrel)
  refine ⟨p', ha', hok', hb ▸ hok.2.2, ⟨hg, hl, fun j hj => (hm j).mpr (Or.inl hj)⟩, p2, hb' ▸ hrel, hok2, ?_, ?_⟩
  · exact ⟨hg2.trans hg, hl2.trans hl, fun j hj => (hmem j).mpr hj⟩
  · exact ⟨(hg2.trans hg).symm, (hl2.trans hl).symm, fun j hj => (hmem j).mp hj⟩

theorem CC.release_of_pool {d : CC} {f : Fam} {q q2 : Pool} {blk : Cidr} (hf : blk.fam = f) (hq : d.pool f = some q)
    (hr : q.release blk = some q2) : d.release blk = some (d.setPool f q2) := by
  unfold CC.release
  rw [hf, hq]
  simp only [hr]

/-- **giving back what one entry served restores the state**: after `tryEntry` served `cidrs`, releasing
exactly those CIDRs in that entry succeeds and leaves every used set as it was before the attempt -/
theorem tryEntry_then_release {a a' : Alloc} (ha : a.WF) {i : Nat} {c : CC} {cidrs : List Cidr}
    (hget : a.get? i = some c) (h : a.tryEntry i = (a', some cidrs)) :
    ∃ a'', a'.releaseAll i cidrs = (a'', true) ∧ AllocEqv a a'' ∧ a''.WF := by
  unfold Alloc.tryEntry at h
  simp only [hget] at h
  cases h4 : c.v4 with
  | none =>
    rw [h4] at h
    simp only at h
    cases h6 : c.v6 with
    | none =>
      rw [h6] at h
      simp only [Prod.mk.injEq, Option.some.injEq] at h
      obtain ⟨rfl, rfl⟩ := h
      exact ⟨a, rfl, AllocEqv.refl a, ha⟩
    | some p6 =>
      rw [h6] at h
      simp only at h
      have hp6 : c.pool .v6 = some p6 := by simp [CC.pool, h6]
      cases hal : a.allocate i .v6 with
      | mk a2 r2 =>
        rw [hal] at h
        cases r2 with
        | none => simp at h
        | some b6 =>
          simp only [List.nil_append, Prod.mk.injEq, Option.some.injEq] at h
          obtain ⟨rfl, rfl⟩ := h
          obtain ⟨p6', ha2, hok6', hf6, _, q6, hr6, hokq6, hle6, hge6⟩ := allocate_then_release hget hp6 (ha i c hget .v6 p6 hp6) hal
          have hget2 : a2.get? i = some (c.setPool .v6 p6') := by rw [ha2]; exact Alloc.get?_set_self _ _ _ _ hget
          refine ⟨a2.set i ((c.setPool .v6 p6').setPool .v6 q6), ?_, ?_, ?_⟩
          · simp only [Alloc.releaseAll, hget2, CC.release_of_pool hf6 (CC.pool_setPool_same _ _ _) hr6]
          · rw [ha2, Alloc.set_set, CC.setPool_setPool]
            exact ⟨AllocLe_set hget hp6 hle6, AllocLe_set_rev hget hp6 hge6⟩
          · rw [ha2, Alloc.set_set, CC.setPool_setPool]
            exact Alloc.WF_set ha (CC.WF_setPool (ha i c hget) hokq6)
  | some p4 =>
    rw [h4] at h
    simp only at h
    have hp4 : c.pool .v4 = some p4 := by simp [CC.pool, h4]
    cases hal : a.allocate i .v4 with
    | mk a1 r1 =>
      rw [hal] at h
      cases r1 with
      | none => simp at h
      | some b4 =>
        simp only at h
        obtain ⟨p4', ha1, hok4', hf4, _, q4, hr4, hokq4, hle4, hge4⟩ := allocate_then_release hget hp4 (ha i c hget .v4 p4 hp4) hal
        have hget1 : a1.get? i = some (c.setPool .v4 p4') := by rw [ha1]; exact Alloc.get?_set_self _ _ _ _ hget
        cases h6 : c.v6 with
        | none =>
          rw [h6] at h
          simp only [Prod.mk.injEq, Option.some.injEq] at h
          obtain ⟨rfl, rfl⟩ := h
          refine ⟨a1.set i ((c.setPool .v4 p4').setPool .v4 q4), ?_, ?_, ?_⟩
          · simp only [Alloc.releaseAll, hget1, CC.release_of_pool hf4 (CC.pool_setPool_same _ _ _) hr4]
          · rw [ha1, Alloc.set_set, CC.setPool_setPool]
            exact ⟨AllocLe_set hget hp4 hle4, AllocLe_set_rev hget hp4 hge4⟩
          · rw [ha1, Alloc.set_set, CC.setPool_setPool]
            exact Alloc.WF_set ha (CC.WF_setPool (ha i c hget) hokq4)
        | some p6 =>
          rw [h6] at h
          simp only at h
          have hwf1 : a1.WF := (allocate_le ha hget hp4 hal).2.1
          have hp6 : (c.setPool .v4 p4').pool .v6 = some p6 := by
            rw [CC.pool_setPool_other _ _ _ _ (by decide)]; simp [CC.pool, h6]
          cases hal2 : a1.allocate i .v6 with
          | mk a2 r2 =>
            rw [hal2] at h
            cases r2 with
            | none => simp at h
            | some b6 =>
              simp only [Prod.mk.injEq, Option.some.injEq] at h
              obtain ⟨rfl, rfl⟩ := h
              obtain ⟨p6', ha2, hok6', hf6, _, q6, hr6, hokq6, hle6, hge6⟩ :=
                allocate_then_release hget1 hp6 (hwf1 i _ hget1 .v6 p6 hp6) hal2
              -- the entry after both reservations, and after giving both back
              let c2 := (c.setPool .v4 p4').setPool .v6 p6'
              have hget2 : a2.get? i = some c2 := by rw [ha2]; exact Alloc.get?_set_self _ _ _ _ hget1
              have hc2v4 : c2.pool .v4 = some p4' := by
                show ((c.setPool .v4 p4').setPool .v6 p6').pool .v4 = _
                rw [CC.pool_setPool_other _ _ _ _ (by decide), CC.pool_setPool_same]
              let c3 := c2.setPool .v4 q4
              have hc3v6 : c3.pool .v6 = some p6' := by
                show (c2.setPool .v4 q4).pool .v6 = _
                rw [CC.pool_setPool_other _ _ _ _ (by decide)]
                exact CC.pool_setPool_same _ _ _
              let c4 := c3.setPool .v6 q6
              have hget3 : (a2.set i c3).get? i = some c3 := Alloc.get?_set_self _ _ _ _ hget2
              refine ⟨(a2.set i c3).set i c4, ?_, ?_, ?_⟩
              · simp only [List.cons_append, List.nil_append, Alloc.releaseAll, hget2, CC.release_of_pool hf4 hc2v4 hr4]
                rw [show (a2.set i (c2.setPool .v4 q4)).get? i = some c3 from hget3]
                simp only [CC.release_of_pool hf6 hc3v6 hr6]
                rfl
              · rw [Alloc.set_set]
                have hlen : (a2.set i c4).ccs.length = a.ccs.length := by
                  rw [Alloc.set_length, ha2, Alloc.set_length, ha1, Alloc.set_length]
                have hgetf : (a2.set i c4).get? i = some c4 := Alloc.get?_set_self _ _ _ _ hget2
                have hother : ∀ j, j ≠ i → (a2.set i c4).get? j = a.get? j := by
                  intro j hj
                  rw [Alloc.get?_set_ne _ _ _ _ (Ne.symm hj), ha2, Alloc.get?_set_ne _ _ _ _ (Ne.symm hj), ha1,
                    Alloc.get?_set_ne _ _ _ _ (Ne.symm hj)]
                have hc4v4 : c4.pool .v4 = some q4 := by
                  show ((c2.setPool .v4 q4).setPool .v6 q6).pool .v4 = _
                  rw [CC.pool_setPool_other _ _ _ _ (by decide), CC.pool_setPool_same]
                have hc4v6 : c4.pool .v6 = some q6 := CC.pool_setPool_same _ _ _
                have hc6 : c.pool .v6 = some p6 := by simp [CC.pool, h6]
                have hpools : ∀ g, OptPoolLe (c.pool g) (c4.pool g) ∧ OptPoolLe (c4.pool g) (c.pool g) := by
                  intro g
                  cases g with
                  | v4 => rw [hc4v4, hp4]; exact ⟨hle4, hge4⟩
                  | v6 => rw [hc4v6, hc6]; exact ⟨hle6, hge6⟩
                have hcc1 : CCLe c c4 := ⟨by simp [c4, c3, c2], by simp [c4, c3, c2], by simp [c4, c3, c2], by simp [c4, c3, c2], by simp [c4, c3, c2], fun g => (hpools g).1⟩
                have hcc2 : CCLe c4 c := ⟨by simp [c4, c3, c2], by simp [c4, c3, c2], by simp [c4, c3, c2], by simp [c4, c3, c2], by simp [c4, c3, c2], fun g => (hpools g).2⟩
                exact ⟨AllocLe_of_get hlen i c c4 hget hgetf hcc1 hother,
                       AllocLe_of_get hlen.symm i c4 c hgetf hget hcc2 (fun j hj => (hother j hj).symm)⟩
              · rw [Alloc.set_set]
                have hwf2 : a2.WF := (allocate_le hwf1 hget1 hp6 hal2).2.1
                apply Alloc.WF_set hwf2
                intro g q hq
                cases g with
                | v4 =>
                  have : c4.pool .v4 = some q4 := by
                    show ((c2.setPool .v4 q4).setPool .v6 q6).pool .v4 = _
                    rw [CC.pool_setPool_other _ _ _ _ (by decide), CC.pool_setPool_same]
                  rw [this] at hq; cases hq; exact hokq4
                | v6 =>
                  have : c4.pool .v6 = some q6 := CC.pool_setPool_same _ _ _
                  rw [this] at hq; cases hq; exact hokq6


/-- the same for the whole walk of `prioritizedCIDRs` -/
theorem prioritized_then_release {a : Alloc} (ha : a.WF) : ∀ (l : List Nat) {a' : Alloc} {cidrs : List Cidr} {i : Nat},
    a.prioritized l = (a', some (cidrs, i)) →
    ∃ a'', a'.releaseAll i cidrs = (a'', true) ∧ AllocEqv a a'' ∧ a''.WF := by
  intro l
  induction l generalizing a with
  | nil => intro a' cidrs i h; simp [Alloc.prioritized] at h
  | cons j rest ih =>
    intro a' cidrs i h
    unfold Alloc.prioritized at h
    cases ht : a.tryEntry j with
    | mk a1 r1 =>
      rw [ht] at h
      cases r1 with
      | some cs =>
        simp only [Prod.mk.injEq, Option.some.injEq] at h
        obtain ⟨rfl, rfl, rfl⟩ := h
        cases hg : a.get? j with
        | none =>
          unfold Alloc.tryEntry at ht
          simp [hg] at ht
        | some c => exact tryEntry_then_release ha hg ht
      | none =>
        simp only at h
        have hstep : AllocEqv a a1 ∧ a1.WF := by
          cases hg : a.get? j with
          | none =>
            unfold Alloc.tryEntry at ht
            simp only [hg, Prod.mk.injEq] at ht
            obtain ⟨rfl, _⟩ := ht
            exact ⟨AllocEqv.refl a, ha⟩
          | some c =>
            have := tryEntry_le ha hg ht
            exact ⟨this.2.2 rfl, this.2.1⟩
        obtain ⟨a'', h1, h2, h3⟩ := ih hstep.2 h
        exact ⟨a'', h1, AllocEqv.trans hstep.1 h2, h3⟩

end Ipam
