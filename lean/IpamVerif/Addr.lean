/-
L0 — addresses, CIDRs and the block arithmetic of
pkg/controller/ipam/multicidrset/multi_cidr_set.go, modelled *as the Go code
computes it* (uint32 / two uint64 halves / big.Int), not as the formula it is
meant to equal.  Core Lean only (no Mathlib): this file is also compiled into
the driver executable.
-/
namespace Ipam

inductive Fam where
  | v4 | v6
deriving DecidableEq, Repr, Inhabited

def Fam.W : Fam → Nat
  | .v4 => 32
  | .v6 => 128

/-- A CIDR as `net.IPNet` holds it after `ParseCIDRSloppy`: the address is
already masked. -/
structure Cidr where
  fam : Fam
  addr : Nat
  len : Nat
deriving DecidableEq, Repr, Inhabited

def Cidr.W (c : Cidr) : Nat := c.fam.W
def Cidr.hostBits (c : Cidr) : Nat := c.W - c.len
def Cidr.size (c : Cidr) : Nat := 2 ^ c.hostBits

/-- What the harness guarantees of every CIDR it hands over (it comes out of
Go's parser): prefix within the width, address within the width and masked. -/
def Cidr.WF (c : Cidr) : Prop :=
  c.len ≤ c.W ∧ c.addr < 2 ^ c.W ∧ c.addr % 2 ^ c.hostBits = 0

instance (c : Cidr) : Decidable c.WF := by unfold Cidr.WF; exact inferInstance

/-- the address set of a CIDR is the interval `[addr, addr + size)` -/
def Cidr.Mem (c : Cidr) (a : Nat) : Prop := c.addr ≤ a ∧ a < c.addr + c.size

def Cidr.Disjoint (a b : Cidr) : Prop := a.addr + a.size ≤ b.addr ∨ b.addr + b.size ≤ a.addr
instance (a b : Cidr) : Decidable (a.Disjoint b) := by unfold Cidr.Disjoint; exact inferInstance

/-- `a` contains `b` entirely -/
def Cidr.Sub (b a : Cidr) : Prop := a.addr ≤ b.addr ∧ b.addr + b.size ≤ a.addr + a.size
instance (a b : Cidr) : Decidable (a.Sub b) := by unfold Cidr.Sub; exact inferInstance

/-! ### Go's net primitives (same-family arguments) -/

/-- `ip.Mask(CIDRMask(len, W))` -/
def maskTo (W len x : Nat) : Nat := (x >>> (W - len)) <<< (W - len)

/-- `n.Contains(x)` for an `IPNet` with masked IP -/
def goContains (W : Nat) (a : Cidr) (x : Nat) : Bool :=
  (x >>> (W - a.len)) == (a.addr >>> (W - a.len))

/-- the intersection test used at three places in the Go code:
`a.Contains(b.IP.Mask(a.Mask)) || b.Contains(a.IP.Mask(b.Mask))`;
CIDRs of different families never intersect (`Contains` compares lengths). -/
def goOverlap (a b : Cidr) : Bool :=
  a.fam == b.fam &&
    (goContains a.W a (maskTo a.W a.len b.addr) || goContains a.W b (maskTo a.W b.len a.addr))

/-! ### Go's fixed-width shifts -/

/-- `uint32(x) << s` -/
def shl32 (x s : Nat) : Nat := if s < 32 then (x <<< s) % 2 ^ 32 else 0
/-- `uint64(x) << s` -/
def shl64 (x s : Nat) : Nat := if s < 64 then (x <<< s) % 2 ^ 64 else 0
/-- `uint64(x) >> s` -/
def shr64 (x s : Nat) : Nat := if s < 64 then x >>> s else 0
/-- `64 - bits.LeadingZeros64(x)` -/
def bitLen (x : Nat) : Nat := if x = 0 then 0 else x.log2 + 1

/-- geometry of a pool: family, masked base address of the range, cluster
mask size `c`, node mask size `n` -/
structure Geo where
  fam : Fam
  base : Nat
  c : Nat
  n : Nat
deriving DecidableEq, Repr, Inhabited

def Geo.W (g : Geo) : Nat := g.fam.W
/-- `getMaxCIDRs`: `1 << uint32(n - c)` (only ever called with `c ≤ n`, see `newGeo`) -/
def Geo.max (g : Geo) : Nat := 2 ^ (g.n - g.c)
def Geo.range (g : Geo) : Cidr := ⟨g.fam, g.base, g.c⟩
def Geo.blockSize (g : Geo) : Nat := 2 ^ (g.W - g.n)

/-- the geometries `NewMultiCIDRSet` accepts (after the host-bits check) -/
def Geo.Valid (g : Geo) : Prop :=
  g.c ≤ g.n ∧ g.n ≤ g.W ∧ g.base < 2 ^ g.W ∧ g.base % 2 ^ (g.W - g.c) = 0 ∧
  (g.fam = .v6 → g.n - g.c ≤ 16)

instance (g : Geo) : Decidable g.Valid := by unfold Geo.Valid; exact inferInstance

/-- `NewMultiCIDRSet(cidr, perNodeHostBits)`: the checks it performs, in order. -/
def newGeo (r : Cidr) (hostBits : Int) : Option Geo :=
  let n : Int := (r.W : Int) - hostBits
  if hostBits < 0 ∨ n < (r.len : Int) then none
  else if r.fam = .v6 ∧ n - (r.len : Int) > 16 then none
  else some ⟨r.fam, r.addr, r.len, n.toNat⟩

/-! ### indexToCIDRBlock -/

def goBlockV4 (g : Geo) (i : Nat) : Nat :=
  g.base ||| shl32 (i % 2 ^ 32) (32 - g.n)

/-- the two 64-bit halves, as the Go code builds them -/
def goBlockV6 (g : Geo) (i : Nat) : Nat × Nat :=
  let hiB := g.base / 2 ^ 64
  let loB := g.base % 2 ^ 64
  if g.n ≤ 64 then
    (hiB ||| shl64 i (64 - g.n), loB)
  else
    let hi :=
      if g.c < 64 then
        let btl := g.n - 64
        if bitLen i > btl then hiB ||| shr64 i btl else hiB
      else hiB
    (hi, loB ||| shl64 i (128 - g.n))

/-- address of block `i` as a number -/
def goBlockAddr (g : Geo) (i : Nat) : Nat :=
  match g.fam with
  | .v4 => goBlockV4 g i
  | .v6 => (goBlockV6 g i).1 * 2 ^ 64 + (goBlockV6 g i).2

/-- `indexToCIDRBlock` -/
def goBlock (g : Geo) (i : Nat) : Cidr := ⟨g.fam, goBlockAddr g i, g.n⟩

/-- block `i` as it is meant to be -/
def Geo.block (g : Geo) (i : Nat) : Cidr := ⟨g.fam, g.base + i * g.blockSize, g.n⟩

/-! ### getIndexForIP -/

/-- `getIndexForIP`; `none` = the "out of the range" error -/
def goIndexOf (g : Geo) (a : Nat) : Option Nat :=
  match g.fam with
  | .v4 =>
    let idx := (g.base ^^^ a) >>> (32 - g.n)
    if idx ≥ g.max % 2 ^ 32 then none else some idx
  | .v6 =>
    let x := (g.base ^^^ a) >>> (128 - g.n)
    -- `!cidrIndexBig.IsUint64() || cidrIndexBig.Uint64() >= uint64(MaxCIDRs)`
    if x ≥ 2 ^ 64 ∨ x % 2 ^ 64 ≥ g.max then none else some (x % 2 ^ 64)

/-! ### getBeginningAndEndIndices -/

/-- `getBeginningAndEndIndices`; `none` = error.  A CIDR of the other family is
rejected by the first test (Go's `Contains` compares byte lengths). -/
def goBeginEnd (g : Geo) (cd : Cidr) : Option (Nat × Nat) :=
  if cd.fam ≠ g.fam then none
  else
    let W := g.W
    if !(goContains W g.range (maskTo W g.c cd.addr)) && !(goContains W cd (maskTo W cd.len g.base)) then none
    else if g.c < cd.len then
      match goIndexOf g (maskTo W g.n cd.addr) with
      | none => none
      | some b =>
        let last := cd.addr ||| (2 ^ (W - cd.len) - 1)
        match goIndexOf g (maskTo W g.n last) with
        | none => none
        | some e => some (b, e)
    else some (0, g.max - 1)

end Ipam
