import IpamVerif.Addr
/-!
L1 — `MultiCIDRSet` as a state machine, following
pkg/controller/ipam/multicidrset/multi_cidr_set.go line by line, with the four
exported counters the pool maintains (C19).  The Go map is keyed by the string
of a block; the model keeps the block *numbers* (the two are in bijection by
C13 for every geometry the constructor accepts).  Core Lean only.
-/
namespace Ipam

structure Pool where
  geo : Geo
  /-- `Label`: the range string, produced by Go (`IPNet.String()`), carried as data -/
  label : String
  /-- keys of `AllocatedCIDRMap`, as block numbers -/
  used : List Nat
  /-- `allocatedCIDRs` -/
  count : Nat
  /-- `nextCandidate` -/
  cursor : Nat
  /-- `multicidrset_cidrs_allocations_total{clusterCIDR=label}` -/
  allocs : Nat
  /-- `multicidrset_cidrs_releases_total` -/
  releases : Nat
  /-- `multicirdset_max_cidrs` -/
  maxGauge : Nat
  /-- numerator of `multicidrset_usage_cidrs` as last set (the denominator is `MaxCIDRs`) -/
  usage : Nat
deriving Repr, Inhabited, DecidableEq

def Pool.max (p : Pool) : Nat := p.geo.max

/-- `NewMultiCIDRSet` (geometry checks are in `newGeo`) -/
def Pool.new (g : Geo) (label : String) : Pool :=
  { geo := g, label := label, used := [], count := 0, cursor := 0,
    allocs := 0, releases := 0, maxGauge := g.max, usage := 0 }

/-- one iteration of the loop in `Occupy` -/
def Pool.occupyIdx (p : Pool) (i : Nat) : Pool :=
  if i ∈ p.used then p
  else { p with used := i :: p.used, count := p.count + 1, allocs := p.allocs + 1 }

/-- one iteration of the loop in `Release` -/
def Pool.releaseIdx (p : Pool) (i : Nat) : Pool :=
  if i ∈ p.used then { p with used := p.used.erase i, count := p.count - 1, releases := p.releases + 1 }
  else p

/-- `for i := begin; i <= end; i++` -/
def idxRange (b e : Nat) : List Nat := List.range' b (e + 1 - b)

/-- `Occupy`; `none` = error (nothing changed) -/
def Pool.occupy (p : Pool) (cd : Cidr) : Option Pool :=
  match goBeginEnd p.geo cd with
  | none => none
  | some (b, e) =>
    let p' := (idxRange b e).foldl Pool.occupyIdx p
    some { p' with usage := p'.count }

/-- `Release`; `none` = error (nothing changed) -/
def Pool.release (p : Pool) (cd : Cidr) : Option Pool :=
  match goBeginEnd p.geo cd with
  | none => none
  | some (b, e) =>
    let p' := (idxRange b e).foldl Pool.releaseIdx p
    some { p' with usage := p'.count }

/-- the loop of `NextCandidate`: `fuel` iterations left, current candidate,
iterations done so far -/
def Pool.scan (p : Pool) : Nat → Nat → Nat → Option (Nat × Nat)
  | 0, _, _ => none
  | fuel + 1, cand, i =>
    if cand ∈ p.used then p.scan fuel ((cand + 1) % p.max) (i + 1) else some (cand, i)

/-- `NextCandidate`: `(block number, indices skipped, pool with the cursor moved)`;
`none` = `CIDRRangeNoCIDRsRemainingErr` -/
def Pool.next (p : Pool) : Option (Nat × Nat × Pool) :=
  if p.count = p.max then none
  else
    match p.scan p.max p.cursor 0 with
    | none => none
    | some (c, i) => some (c, i, { p with cursor := (c + 1) % p.max })

/-- operations of the pool, for histories -/
inductive PoolOp where
  | occupy (cd : Cidr)
  | release (cd : Cidr)
  | next
deriving Repr, DecidableEq

def Pool.step (p : Pool) : PoolOp → Pool
  | .occupy cd => (p.occupy cd).getD p
  | .release cd => (p.release cd).getD p
  | .next => match p.next with
    | none => p
    | some (_, _, p') => p'

def Pool.run (p : Pool) (ops : List PoolOp) : Pool := ops.foldl Pool.step p

end Ipam
