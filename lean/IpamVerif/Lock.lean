/-!
Lock discipline (C16) and the mutex reduction (C15).

Part 1 — a Boolean checker over a call-graph table (the table is GENERATED from /repo's source by
`harness/cmd/factgen` on every run, see `Facts.lean`) and its soundness theorem, proved once for all
tables: if the checker accepts, then (a) every function reachable from an entry point without passing
through a function that holds the lock for its whole body, and that touches the shared state, holds the
lock itself; (b) no function reachable from inside a lock-holding body acquires the lock (the mutex is not
reentrant: that would block forever; there is a single lock, so no ordering cycle).

Part 2 — the reduction: operations of the form `acquire; body steps; release` over one mutex, scheduled
by any interleaving that respects the mutex, leave the shared state equal to executing the operations one
at a time in the order in which they acquired the lock.
Core Lean only.
-/
namespace Ipam.Lock

/-! ## Part 1: the call-graph checker -/

structure Fn where
  name : String
  /-- the body starts with `r.lock.Lock(); defer r.lock.Unlock()` -/
  holdsLock : Bool
  /-- the body contains any acquisition of the allocator lock (including the one above) -/
  acquires : Bool
  /-- the body reads or writes shared reservation state directly: `cidrMap`, `AssociatedNodes`,
  `Terminating`, a pool reached through the map, or calls a pool method -/
  touches : Bool
  /-- entry point: method of the public interface, informer handler closure, worker loop, spawned closure -/
  root : Bool
  /-- construction-time code that runs before any other goroutine can hold a reference -/
  exempt : Bool
  /-- the extractor met something it does not understand in this body (fail closed) -/
  unknown : Bool
  /-- static callees inside the package -/
  calls : List String
deriving Repr, DecidableEq, Inhabited

structure Graph where
  fns : List Fn
deriving Repr, DecidableEq

def Graph.lookup (G : Graph) (n : String) : Option Fn := G.fns.find? (·.name == n)

/-- one expansion step of "reachable without the lock": callees of the members that do not hold the lock -/
def expandU (G : Graph) (S : List String) : List String :=
  S ++ (S.flatMap (fun n => match G.lookup n with
    | some f => if f.holdsLock then [] else f.calls
    | none => [])).filter (fun c => !S.contains c)

def dedup (l : List String) : List String := l.foldl (fun acc x => if acc.contains x then acc else acc ++ [x]) []

def iter {α : Type} (f : α → α) : Nat → α → α
  | 0, x => x
  | k + 1, x => iter f k (f x)

def rootsU (G : Graph) : List String := (G.fns.filter (fun f => f.root && !f.exempt)).map (·.name)

def closureU (G : Graph) : List String := iter (fun S => dedup (expandU G S)) G.fns.length (dedup (rootsU G))

/-- `S` is closed under unlocked call edges -/
def closedU (G : Graph) (S : List String) : Bool :=
  S.all (fun n => match G.lookup n with
    | some f => f.holdsLock || f.calls.all (fun c => S.contains c)
    | none => true)

/-- everything called from a lock-holding body, transitively -/
def expandL (G : Graph) (S : List String) : List String :=
  S ++ (S.flatMap (fun n => match G.lookup n with
    | some f => f.calls
    | none => [])).filter (fun c => !S.contains c)

def startL (G : Graph) : List String := (G.fns.filter (·.holdsLock)).flatMap (·.calls)

def closureL (G : Graph) : List String := iter (fun S => dedup (expandL G S)) G.fns.length (dedup (startL G))

def closedL (G : Graph) (S : List String) : Bool :=
  S.all (fun n => match G.lookup n with
    | some f => f.calls.all (fun c => S.contains c)
    | none => true)

/-- the checker -/
def checker (G : Graph) : Bool :=
  G.fns.all (fun f => !f.unknown) &&
  -- (a) unlocked reachability
  (rootsU G).all (fun r => (closureU G).contains r) &&
  closedU G (closureU G) &&
  (closureU G).all (fun n => match G.lookup n with
    | some f => f.holdsLock || !f.touches
    | none => true) &&
  -- (b) no re-acquisition from inside the lock
  (startL G).all (fun r => (closureL G).contains r) &&
  closedL G (closureL G) &&
  (closureL G).all (fun n => match G.lookup n with
    | some f => !f.acquires
    | none => true)

/-- reachable from an entry point along call edges without passing through a lock-holding function -/
inductive ReachU (G : Graph) : String → Prop where
  | root (f : Fn) : f ∈ G.fns → f.root = true → f.exempt = false → ReachU G f.name
  | step (a b : String) (fa : Fn) : ReachU G a → G.lookup a = some fa → fa.holdsLock = false → b ∈ fa.calls → ReachU G b

/-- reachable from inside a lock-holding body -/
inductive ReachL (G : Graph) : String → Prop where
  | start (h : Fn) (b : String) : h ∈ G.fns → h.holdsLock = true → b ∈ h.calls → ReachL G b
  | step (a b : String) (fa : Fn) : ReachL G a → G.lookup a = some fa → b ∈ fa.calls → ReachL G b

theorem reachU_in_closure (G : Graph) (S : List String)
    (hroots : (rootsU G).all (fun r => S.contains r) = true) (hclosed : closedU G S = true) :
    ∀ n, ReachU G n → n ∈ S := by
  intro n h
  induction h with
  | root f hf hr he =>
    rw [List.all_eq_true] at hroots
    have : f.name ∈ rootsU G := by
      unfold rootsU
      exact List.mem_map.mpr ⟨f, List.mem_filter.mpr ⟨hf, by simp [hr, he]⟩, rfl⟩
    simpa using hroots _ this
  | step a b fa _ hl hh hb ih =>
    unfold closedU at hclosed
    rw [List.all_eq_true] at hclosed
    have := hclosed a ih
    rw [hl] at this
    simp only [hh, Bool.false_or, List.all_eq_true] at this
    simpa using this b hb

theorem reachL_in_closure (G : Graph) (S : List String)
    (hstart : (startL G).all (fun r => S.contains r) = true) (hclosed : closedL G S = true) :
    ∀ n, ReachL G n → n ∈ S := by
  intro n h
  induction h with
  | start h b hh hl hb =>
    rw [List.all_eq_true] at hstart
    have : b ∈ startL G := by
      unfold startL
      exact List.mem_flatMap.mpr ⟨h, List.mem_filter.mpr ⟨hh, hl⟩, hb⟩
    simpa using hstart _ this
  | step a b fa _ hl hb ih =>
    unfold closedL at hclosed
    rw [List.all_eq_true] at hclosed
    have := hclosed a ih
    rw [hl] at this
    simp only [List.all_eq_true] at this
    simpa using this b hb

/-- **soundness (a)**: every function that can be reached without the lock and touches the shared state
holds the lock for its whole body -/
theorem checker_sound_touch (G : Graph) (h : checker G = true) (n : String) (hr : ReachU G n) (f : Fn)
    (hl : G.lookup n = some f) (ht : f.touches = true) : f.holdsLock = true := by
  unfold checker at h
  simp only [Bool.and_eq_true] at h
  obtain ⟨⟨⟨⟨⟨⟨_, h1⟩, h2⟩, h3⟩, _⟩, _⟩, _⟩ := h
  have hm := reachU_in_closure G (closureU G) h1 h2 n hr
  rw [List.all_eq_true] at h3
  have := h3 n hm
  rw [hl] at this
  simp only [Bool.or_eq_true, Bool.not_eq_true'] at this
  rcases this with h | h
  · exact h
  · rw [ht] at h; cases h

/-- **soundness (b)**: nothing reachable from inside a lock-holding body acquires the lock again -/
theorem checker_sound_no_reacquire (G : Graph) (h : checker G = true) (n : String) (hr : ReachL G n) (f : Fn)
    (hl : G.lookup n = some f) : f.acquires = false := by
  unfold checker at h
  simp only [Bool.and_eq_true] at h
  obtain ⟨⟨⟨⟨⟨⟨_, _⟩, _⟩, _⟩, h4⟩, h5⟩, h6⟩ := h
  have hm := reachL_in_closure G (closureL G) h4 h5 n hr
  rw [List.all_eq_true] at h6
  have := h6 n hm
  rw [hl] at this
  simpa using this

/-- the extractor understood every body -/
theorem checker_no_unknown (G : Graph) (h : checker G = true) : ∀ f ∈ G.fns, f.unknown = false := by
  unfold checker at h
  simp only [Bool.and_eq_true] at h
  obtain ⟨⟨⟨⟨⟨⟨h0, _⟩, _⟩, _⟩, _⟩, _⟩, _⟩ := h
  rw [List.all_eq_true] at h0
  intro f hf
  simpa using h0 f hf

/-! ## Part 2: the mutex reduction -/

/-- an operation: the steps its body performs on the shared state while it holds the lock -/
structure Op (σ : Type) where
  body : List (σ → σ)

def Op.effect {σ : Type} (o : Op σ) (s : σ) : σ := o.body.foldl (fun st f => f st) s

/-- what a thread can do next -/
inductive Act where
  | acquire (op : Nat)
  | bodyStep (op : Nat)
  | release (op : Nat)
deriving DecidableEq, Repr

/-- the mutex and the progress of the operation inside it -/
structure MState (σ : Type) where
  shared : σ
  holder : Option Nat        -- operation currently holding the lock
  pc : Nat                   -- how many body steps of the holder have run
  order : List Nat           -- operations in the order they acquired the lock (completed ones)

/-- one scheduler step; `none` = the step is not enabled (the mutex would be violated) -/
def exec {σ : Type} (ops : List (Op σ)) (m : MState σ) : Act → Option (MState σ)
  | .acquire i => if m.holder.isNone ∧ i < ops.length then some { m with holder := some i, pc := 0 } else none
  | .bodyStep i =>
    match ops[i]? with
    | none => none
    | some o =>
      if m.holder = some i then
        match o.body[m.pc]? with
        | some f => some { m with shared := f m.shared, pc := m.pc + 1 }
        | none => none
      else none
  | .release i =>
    match ops[i]? with
    | none => none
    | some o => if m.holder = some i ∧ m.pc = o.body.length then some { m with holder := none, pc := 0, order := m.order ++ [i] } else none

def execAll {σ : Type} (ops : List (Op σ)) : MState σ → List Act → Option (MState σ)
  | m, [] => some m
  | m, a :: rest => match exec ops m a with
    | none => none
    | some m' => execAll ops m' rest

/-- executing operations one at a time -/
def serial {σ : Type} (ops : List (Op σ)) (s : σ) (order : List Nat) : σ :=
  order.foldl (fun st i => match ops[i]? with | some o => o.effect st | none => st) s

/-- running the first `k` body steps of an operation -/
def partialEffect {σ : Type} (o : Op σ) (k : Nat) (s : σ) : σ := (o.body.take k).foldl (fun st f => f st) s

/-- invariant of every mutex-respecting schedule: the shared state is the serial execution of the
completed operations (in acquisition order) followed by the first `pc` body steps of the holder -/
def Inv {σ : Type} (ops : List (Op σ)) (s0 : σ) (m : MState σ) : Prop :=
  match m.holder with
  | none => m.shared = serial ops s0 m.order ∧ m.pc = 0
  | some i => ∃ o, ops[i]? = some o ∧ m.pc ≤ o.body.length ∧ m.shared = partialEffect o m.pc (serial ops s0 m.order)

theorem serial_append {σ : Type} (ops : List (Op σ)) (s : σ) (l : List Nat) (i : Nat) :
    serial ops s (l ++ [i]) = (match ops[i]? with | some o => o.effect (serial ops s l) | none => serial ops s l) := by
  unfold serial; simp [List.foldl_append]

theorem exec_inv {σ : Type} (ops : List (Op σ)) (s0 : σ) (m m' : MState σ) (a : Act)
    (hI : Inv ops s0 m) (h : exec ops m a = some m') : Inv ops s0 m' := by
  cases a with
  | acquire i =>
    simp only [exec] at h
    split at h
    · rename_i hc
      cases h
      unfold Inv at hI ⊢
      have hn : m.holder = none := by simpa using hc.1
      rw [hn] at hI
      simp only
      have hlt := hc.2
      refine ⟨ops[i], by simp [hlt], Nat.zero_le _, ?_⟩
      simp [partialEffect, hI.1]
    · cases h
  | bodyStep i =>
    simp only [exec] at h
    cases ho : ops[i]? with
    | none => rw [ho] at h; cases h
    | some o =>
      rw [ho] at h
      simp only at h
      split at h
      · rename_i hh
        cases hf : o.body[m.pc]? with
        | none => rw [hf] at h; cases h
        | some f =>
          rw [hf] at h
          cases h
          unfold Inv at hI ⊢
          rw [hh] at hI
          simp only [hh]
          obtain ⟨o', ho', hle, hs⟩ := hI
          rw [ho] at ho'; cases ho'
          have hlt : m.pc < o.body.length := by
            false_or_by_contra; rename_i hn
            rw [List.getElem?_eq_none (by omega)] at hf; cases hf
          refine ⟨o, ho, by omega, ?_⟩
          unfold partialEffect at hs ⊢
          rw [hs, List.take_succ, hf]
          simp [List.foldl_append]
      · cases h
  | release i =>
    simp only [exec] at h
    cases ho : ops[i]? with
    | none => rw [ho] at h; cases h
    | some o =>
      rw [ho] at h
      simp only at h
      split at h
      · rename_i hc
        cases h
        unfold Inv at hI ⊢
        rw [hc.1] at hI
        simp only
        obtain ⟨o', ho', _, hs⟩ := hI
        rw [ho] at ho'; cases ho'
        refine ⟨?_, trivial⟩
        rw [serial_append, ho, hs, hc.2]
        unfold partialEffect Op.effect
        rw [List.take_length]
      · cases h

theorem execAll_inv {σ : Type} (ops : List (Op σ)) (s0 : σ) : ∀ (sched : List Act) (m m' : MState σ),
    Inv ops s0 m → execAll ops m sched = some m' → Inv ops s0 m' := by
  intro sched
  induction sched with
  | nil => intro m m' hI h; simp only [execAll, Option.some.injEq] at h; exact h ▸ hI
  | cons a rest ih =>
    intro m m' hI h
    simp only [execAll] at h
    cases he : exec ops m a with
    | none => rw [he] at h; cases h
    | some m1 => rw [he] at h; exact ih m1 m' (exec_inv ops s0 m m1 a hI he) h

/-- **mutex reduction**: any schedule that respects the mutex and ends with the lock free leaves the
shared state equal to executing the operations one at a time in the order they acquired the lock -/
theorem mutex_reduction {σ : Type} (ops : List (Op σ)) (s0 : σ) (sched : List Act) (m : MState σ)
    (h : execAll ops ⟨s0, none, 0, []⟩ sched = some m) (hfree : m.holder = none) :
    m.shared = serial ops s0 m.order := by
  have hI : Inv ops s0 ⟨s0, none, 0, []⟩ := by unfold Inv; simp [serial]
  have := execAll_inv ops s0 sched _ m hI h
  unfold Inv at this
  rw [hfree] at this
  exact this.1

/-- two operations over a counter, interleaved requests: the result is the serial one -/
example : (execAll [⟨[(· + 1), (· * 2)]⟩, ⟨[(· + 10)]⟩] (⟨0, none, 0, []⟩ : MState Nat)
    [.acquire 1, .bodyStep 1, .release 1, .acquire 0, .bodyStep 0, .bodyStep 0, .release 0]).map (·.shared) = some 22 := by decide
/-- a schedule that violates the mutex is not a schedule -/
example : (execAll [⟨[(· + 1), (· * 2)]⟩, ⟨[(· + 10)]⟩] (⟨0, none, 0, []⟩ : MState Nat)
    [.acquire 0, .bodyStep 0, .acquire 1]).isNone = true := by decide

end Ipam.Lock
