import IpamVerif.NoRewrite
import IpamVerif.Tight
import IpamVerif.Restart
import IpamVerif.Stable
/-!
# C08 — pod CIDRs of a node are never changed; re-syncing a node is a no-op

**Proved with no assumption on the history** (`NoRewrite.lean`): `patch_only_when_cache_shows_no_cidrs`,
`patches_are_for_the_node`, `resync_writes_nothing` (no PATCH, no ClusterCIDR write, no event, API and caches
untouched, under every write outcome).  **Proved on the fragment of `Safety.lean`** (`resync_reserves_nothing`):
processing a node that has pod CIDRs — any number of times, at any reachable moment — leaves every used set and
every association exactly as it was: it "reserves nothing beyond that node's own CIDRs", which are reserved
already.  Outside the fragment a re-sync can record the node a second time in another ClusterCIDR over the same
range (root of the findings P11 / P22).  **Proved over whole histories with no assumption** (`Stable.lean`,
`assigned_cidrs_never_change`): from the moment the API shows a node with pod CIDRs until that node is deleted, every
later state shows it with exactly those pod CIDRs.
-/
namespace Ipam.C08
open Ipam Ipam.Safety

/-- re-sync of a cached node with pod CIDRs, in any state the invariant holds in: no used set and no association
changes (only the state is equivalent up to counters the re-marking of already used blocks does not move either) -/
theorem resync_reserves_nothing (s : Sys) (h : Inv s) (n : NodeObj) (hn : n ∈ s.nodeView) (hnd : n.deleting = false)
    (hc : n.hasCidrs = true) (refresh : Bool) (ws : List WOut) :
    AllocEqv s.alloc (allocateOrOccupy s n refresh ws).1.alloc := by
  rw [resync_alloc s n refresh ws hc]
  have hno : n ∈ Objs s := List.mem_append_left _ (List.mem_append_right _ hn)
  have hjunk := h.obj.nojunk n hno
  have hc0 : n.cidrs ≠ [] := by
    intro h0
    unfold NodeObj.hasCidrs at hc
    simp [hjunk, h0] at hc
  obtain ⟨i₀, hcl, hu⟩ := h.held n (List.mem_append_right _ hn) hc0 (Or.inl hnd)
  unfold occupyCIDRs
  simp only
  split
  · exact AllocEqv.refl _
  · rw [if_neg (by simp [hjunk])]
    exact ⟨(occupyNode_grow n.name n.cidrs i₀ hc0 _ s.alloc h.wf h.rd hcl hu).1,
      occupyNode_same n.name n.cidrs i₀ hc0 _ s.alloc h.wf h.rd hcl hu⟩

/-- ... in every state a history of the fragment with restarts can reach — in particular the first re-sync of every
listed node after a restart (start-up queues them all) reserves nothing and associates nobody anew -/
theorem resync_reserves_nothing_after_any_history_with_restarts (s0 : Sys) (h0 : Restart.Inv3 s0) (evs : List Ev)
    (hf : Restart.Frag3All s0 evs) (n : NodeObj) (hn : n ∈ (run s0 evs).nodeView) (hnd : n.deleting = false)
    (hc : n.hasCidrs = true) (refresh : Bool) (ws : List WOut) :
    AllocEqv (run s0 evs).alloc (allocateOrOccupy (run s0 evs) n refresh ws).1.alloc :=
  resync_reserves_nothing _ (Restart.inv3_run evs s0 h0 hf).inv n hn hnd hc refresh ws

/-- **pod CIDRs of a node are never changed** — every history, no assumption: once the API shows the node with pod
CIDRs, every state any continuation reaches (restarts at any instant, failed / lost / retried writes, stale caches, label
edits, ClusterCIDR churn, other writers) shows it with exactly those pod CIDRs, up to the deletion of that node -/
theorem assigned_cidrs_never_change (s : Sys) (evs : List Ev) (name : String) (y : NodeObj)
    (hy : getNode s.api.nodes name = some y) (hc : y.hasCidrs = true) (hnd : ∀ e ∈ evs, e ≠ .nodeDel name) :
    ∃ y', getNode (run s evs).api.nodes name = some y' ∧ y'.cidrs = y.cidrs ∧ y'.junk = y.junk :=
  run_keeps evs s name y hy hc hnd

/-- ... in particular between any two instants of a history that starts from the empty cluster -/
theorem assigned_cidrs_never_change_from_init (before after : List Ev) (name : String) (y : NodeObj)
    (hy : getNode (run Sys.init before).api.nodes name = some y) (hc : y.hasCidrs = true)
    (hnd : ∀ e ∈ after, e ≠ .nodeDel name) :
    ∃ y', getNode (run Sys.init (before ++ after)).api.nodes name = some y' ∧ y'.cidrs = y.cidrs ∧ y'.junk = y.junk := by
  have h : run Sys.init (before ++ after) = run (run Sys.init before) after := by unfold run; rw [List.foldl_append]
  rw [h]
  exact run_keeps after _ name y hy hc hnd

/-- the premises are met by a real history: the controller starts, a node is created and served (the answer to the
PATCH is lost) … -/
def exBefore : List Ev :=
  [.boot [] [], .nodeAdd ⟨"n2", [], [], false, false⟩, .deliverNode "n2" false, .procNode "n2" false [.lost]]
/-- … then somebody tries to give it other pod CIDRs, the controller restarts (a finalizer write fails), re-syncs the node
with failing writes, its labels are edited so that another ClusterCIDR selects it, and it is synced once more -/
def exAfter : List Ev :=
  [.nodeSetCIDRs "n2" [⟨.v4, 0x0a000100, 28⟩], .boot [] [.fail], .procNode "n2" true [.fail],
   .nodeLabels "n2" [("zone", "a")], .deliverNode "n2" false, .procNode "n2" false []]

example : (getNode (run Restart.exStart3 exBefore).api.nodes "n2").map (fun n => (n.hasCidrs, n.cidrs.map (·.addr))) =
    some (true, [0x0a000000]) := by decide +kernel
example : ∀ e ∈ exAfter, e ≠ Ev.nodeDel "n2" := by decide
example : (getNode (run Restart.exStart3 (exBefore ++ exAfter)).api.nodes "n2").map (fun n => n.cidrs.map (·.addr)) =
    some [0x0a000000] := by decide +kernel

end Ipam.C08
