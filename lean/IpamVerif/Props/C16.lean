import IpamVerif.Lock
import IpamVerif.Facts
/-!
# C16 — shared state is touched only under the lock, and the lock cannot self-deadlock

`Facts.graph` is regenerated from /repo's source on every run (translator `harness/cmd/factgen`:
functions and closures of package `ipam`, static call edges, lock prologues, any other lock operation,
accesses to `cidrMap` / `AssociatedNodes` / `Terminating` / pools, entry points).  `checker_accepts` is
re-checked by the Lean kernel (`decide +kernel`: kernel reduction, no extra axiom) against the table as it
is now; with the soundness theorems of `Lock.lean` (proved once, for all tables) this gives, for every call
path of the package and not only for the paths some run takes:
* `no_unlocked_access`: a function reachable from an entry point without passing through a lock-holding
  body never touches the shared reservation state;
* `no_self_deadlock`: nothing reachable from inside a lock-holding body acquires the lock (one
  non-reentrant mutex, so this is the only way to block forever on it).
Construction-time code is exempt as the property says.  Limits: call resolution is static and syntactic;
calls through `container/heap` are added explicitly; anything the extractor does not understand (a lock
operation outside the `Lock(); defer Unlock()` prologue, a `go` statement of unknown shape, the lock
copied) is an `unknown` fact and makes the checker false.
-/
namespace Ipam.C16
open Ipam.Lock

theorem checker_accepts : checker Facts.graph = true := by decide +kernel

/-- every function that can be reached from a worker, an informer callback or the public interface without
holding the lock, and touches the shared state, holds the lock for its whole body -/
theorem no_unlocked_access (n : String) (hr : ReachU Facts.graph n) (f : Fn)
    (hl : Facts.graph.lookup n = some f) (ht : f.touches = true) : f.holdsLock = true :=
  checker_sound_touch Facts.graph checker_accepts n hr f hl ht

/-- no function reachable from inside a lock-holding body acquires the lock again -/
theorem no_self_deadlock (n : String) (hr : ReachL Facts.graph n) (f : Fn)
    (hl : Facts.graph.lookup n = some f) : f.acquires = false :=
  checker_sound_no_reacquire Facts.graph checker_accepts n hr f hl

/-- the extractor understood every function body of the package -/
theorem everything_understood : ∀ f ∈ Facts.graph.fns, f.unknown = false :=
  checker_no_unknown Facts.graph checker_accepts

/-- non-vacuity: the five locking entry points are in the table and hold the lock; the worker loops and
handler closures are entry points -/
example : (Facts.graph.fns.filter (·.holdsLock)).map (·.name) =
    ["multiCIDRRangeAllocator.AllocateOrOccupyCIDR", "multiCIDRRangeAllocator.ReleaseCIDR",
     "multiCIDRRangeAllocator.reconcileBootstrap", "multiCIDRRangeAllocator.reconcileCreate",
     "multiCIDRRangeAllocator.reconcileDelete"] := by decide +kernel
example : "multiCIDRRangeAllocator.runNodeWorker" ∈ rootsU Facts.graph := by decide +kernel
example : "multiCIDRRangeAllocator.updateCIDRsAllocation" ∈ closureL Facts.graph := by decide +kernel

end Ipam.C16
