import IpamVerif.Validation
/-!
# C18 — validation accepts exactly the documented specs; the spec is immutable
-/
set_option linter.unusedSimpArgs false
namespace Ipam.C18
open Ipam.Validation

/-- a well-formed label requirement, as documented -/
def ReqOK (L : Lib) (r : Req) : Prop :=
  L.labelNameOK r.key = true ∧
  ((r.op = "In" ∨ r.op = "NotIn") ∧ r.vals.length ≥ 1 ∨
   (r.op = "Exists" ∨ r.op = "DoesNotExist") ∧ r.vals.length = 0 ∨
   (r.op = "Gt" ∨ r.op = "Lt") ∧ r.vals.length = 1)

/-- a well-formed field requirement -/
def FieldReqOK (L : Lib) (r : Req) : Prop :=
  (r.op = "In" ∨ r.op = "NotIn") ∧ r.vals.length = 1 ∧ r.key = "metadata.name" ∧ ∀ v ∈ r.vals, L.nodeNameOK v = true

def TermOK (L : Lib) (t : Term) : Prop := (∀ r ∈ t.exprs, ReqOK L r) ∧ (∀ r ∈ t.fields, FieldReqOK L r)

/-- the documented rule -/
def Documented (L : Lib) (s : Spec) : Prop :=
  (s.ipv4 ≠ "" ∨ s.ipv6 ≠ "") ∧
  (s.ipv4 ≠ "" → ∃ len, L.parse s.ipv4 = .v4 len ∧ 4 ≤ s.hostBits ∧ s.hostBits ≤ 32 - (len : Int)) ∧
  (s.ipv6 ≠ "" → ∃ len, L.parse s.ipv6 = .v6 len ∧ 4 ≤ s.hostBits ∧ s.hostBits ≤ 128 - (len : Int)) ∧
  (∀ ts, s.sel = some ts → ts.length ≥ 1 ∧ ∀ t ∈ ts, TermOK L t)

theorem flatten_map_nil {α β : Type} (f : α → List β) (l : List α) :
    (l.map f).flatten = [] ↔ ∀ a ∈ l, f a = [] := by
  induction l with
  | nil => simp
  | cons a t ih => simp [List.append_eq_nil_iff, ih]

theorem validateReq_nil (L : Lib) (r : Req) : validateReq L r = [] ↔ ReqOK L r := by
  unfold validateReq ReqOK
  by_cases h1 : r.op = "In" ∨ r.op = "NotIn"
  · have h2 : ¬ (r.op = "Exists" ∨ r.op = "DoesNotExist") := by rcases h1 with h | h <;> simp [h]
    have h3 : ¬ (r.op = "Gt" ∨ r.op = "Lt") := by rcases h1 with h | h <;> simp [h]
    cases hk : L.labelNameOK r.key <;> by_cases hv : r.vals.length = 0 <;> simp [h1, h2, h3, hk, hv] <;> omega
  · by_cases h2 : r.op = "Exists" ∨ r.op = "DoesNotExist"
    · have h3 : ¬ (r.op = "Gt" ∨ r.op = "Lt") := by rcases h2 with h | h <;> simp [h]
      cases hk : L.labelNameOK r.key <;> by_cases hv : r.vals.length = 0 <;> simp [h1, h2, h3, hk, hv] <;> omega
    · by_cases h3 : r.op = "Gt" ∨ r.op = "Lt"
      · cases hk : L.labelNameOK r.key <;> by_cases hv : r.vals.length = 1 <;> simp [h1, h2, h3, hk, hv]
      · cases hk : L.labelNameOK r.key <;> simp [h1, h2, h3, hk]

theorem validateFieldReq_nil (L : Lib) (r : Req) : validateFieldReq L r = [] ↔ FieldReqOK L r := by
  unfold validateFieldReq FieldReqOK
  have hf : (List.map (fun _ => Err.fieldBadValue) (r.vals.filter (fun v => !L.nodeNameOK v)) = [])
      ↔ ∀ v ∈ r.vals, L.nodeNameOK v = true := by
    simp [List.filter_eq_nil_iff]
  by_cases h1 : r.op = "In" ∨ r.op = "NotIn" <;> by_cases hv : r.vals.length = 1 <;>
    by_cases hk : r.key = "metadata.name" <;> simp [h1, hv, hk, hf, List.filter_eq_nil_iff]

theorem validateTerm_nil (L : Lib) (t : Term) : validateTerm L t = [] ↔ TermOK L t := by
  unfold validateTerm TermOK
  rw [List.append_eq_nil_iff, flatten_map_nil, flatten_map_nil]
  simp only [validateReq_nil, validateFieldReq_nil]

theorem validateSelector_nil (L : Lib) (ts : List Term) :
    validateSelector L ts = [] ↔ ts.length ≥ 1 ∧ ∀ t ∈ ts, TermOK L t := by
  unfold validateSelector
  by_cases h : ts.length = 0
  · simp [h]
  · rw [if_neg h, flatten_map_nil]
    simp only [validateTerm_nil]
    constructor
    · intro hh; exact ⟨by omega, hh⟩
    · exact fun hh => hh.2

theorem validateCIDR4_nil (L : Lib) (s : String) (hb : Int) :
    validateCIDR4 L s hb = [] ↔ ∃ len, L.parse s = .v4 len ∧ 4 ≤ hb ∧ hb ≤ 32 - (len : Int) := by
  unfold validateCIDR4
  cases hp : L.parse s with
  | malformed => simp
  | v6 len => simp
  | v4 len =>
    simp only [List.append_eq_nil_iff]
    constructor
    · rintro ⟨h1, h2⟩
      refine ⟨len, rfl, ?_, ?_⟩
      · false_or_by_contra; rename_i hn; rw [if_pos (by omega)] at h1; cases h1
      · false_or_by_contra; rename_i hn; rw [if_pos (by omega)] at h2; cases h2
    · rintro ⟨l, hl, h1, h2⟩
      cases hl
      exact ⟨by rw [if_neg (by omega)], by rw [if_neg (by omega)]⟩

theorem validateCIDR6_nil (L : Lib) (s : String) (hb : Int) :
    validateCIDR6 L s hb = [] ↔ ∃ len, L.parse s = .v6 len ∧ 4 ≤ hb ∧ hb ≤ 128 - (len : Int) := by
  unfold validateCIDR6
  cases hp : L.parse s with
  | malformed => simp
  | v4 len => simp
  | v6 len =>
    simp only [List.append_eq_nil_iff]
    constructor
    · rintro ⟨h1, h2⟩
      refine ⟨len, rfl, ?_, ?_⟩
      · false_or_by_contra; rename_i hn; rw [if_pos (by omega)] at h1; cases h1
      · false_or_by_contra; rename_i hn; rw [if_pos (by omega)] at h2; cases h2
    · rintro ⟨l, hl, h1, h2⟩
      cases hl
      exact ⟨by rw [if_neg (by omega)], by rw [if_neg (by omega)]⟩

/-- **validation accepts a spec exactly when it is as documented** — for every parser outcome,
every `Int` host bits, every selector shape -/
theorem accepts_iff_documented (L : Lib) (s : Spec) : validateSpec L s = [] ↔ Documented L s := by
  unfold validateSpec Documented
  have hsel : (match s.sel with | none => [] | some ts => validateSelector L ts) = [] ↔
      ∀ ts, s.sel = some ts → ts.length ≥ 1 ∧ ∀ t ∈ ts, TermOK L t := by
    cases hs : s.sel with
    | none => simp
    | some ts => simp [validateSelector_nil]
  by_cases h0 : s.ipv4 = "" ∧ s.ipv6 = ""
  · simp only [h0, and_self, if_true]
    simp
  · rw [if_neg h0]
    simp only [List.append_eq_nil_iff, hsel]
    have hne : s.ipv4 ≠ "" ∨ s.ipv6 ≠ "" := by
      by_cases h4 : s.ipv4 = ""
      · right; intro h6; exact h0 ⟨h4, h6⟩
      · left; exact h4
    have hb4 : (if s.ipv4 ≠ "" then validateCIDR4 L s.ipv4 s.hostBits else []) = [] ↔
        (s.ipv4 ≠ "" → ∃ len, L.parse s.ipv4 = .v4 len ∧ 4 ≤ s.hostBits ∧ s.hostBits ≤ 32 - (len : Int)) := by
      by_cases h4 : s.ipv4 = ""
      · simp [h4]
      · rw [if_pos h4, validateCIDR4_nil]; exact ⟨fun h _ => h, fun h => h h4⟩
    have hb6 : (if s.ipv6 ≠ "" then validateCIDR6 L s.ipv6 s.hostBits else []) = [] ↔
        (s.ipv6 ≠ "" → ∃ len, L.parse s.ipv6 = .v6 len ∧ 4 ≤ s.hostBits ∧ s.hostBits ≤ 128 - (len : Int)) := by
      by_cases h6 : s.ipv6 = ""
      · simp [h6]
      · rw [if_pos h6, validateCIDR6_nil]; exact ⟨fun h _ => h, fun h => h h6⟩
    rw [hb4, hb6]
    constructor
    · rintro ⟨⟨a, b⟩, c⟩; exact ⟨hne, b, c, hsel.mp a⟩
    · rintro ⟨_, b, c, a⟩; exact ⟨⟨hsel.mpr a, b⟩, c⟩

/-- **update validation rejects every change to a spec field and accepts an unchanged spec** -/
theorem update_accepts_iff_unchanged (upd old : Spec) : validateUpdate upd old = [] ↔ upd = old := by
  unfold validateUpdate
  constructor
  · intro h
    simp only [List.append_eq_nil_iff] at h
    obtain ⟨⟨⟨h1, h2⟩, h3⟩, h4⟩ := h
    have e1 : upd.sel = old.sel := by false_or_by_contra; rename_i hn; rw [if_neg hn] at h1; cases h1
    have e2 : upd.hostBits = old.hostBits := by false_or_by_contra; rename_i hn; rw [if_neg hn] at h2; cases h2
    have e3 : upd.ipv4 = old.ipv4 := by false_or_by_contra; rename_i hn; rw [if_neg hn] at h3; cases h3
    have e4 : upd.ipv6 = old.ipv6 := by false_or_by_contra; rename_i hn; rw [if_neg hn] at h4; cases h4
    cases upd; cases old; simp_all
  · rintro rfl; simp

/-! non-vacuity: a documented dual-stack spec with a selector exists and is accepted -/
def exLib : Lib := ⟨fun s => if s = "10.0.0.0/8" then .v4 8 else if s = "fd00::/64" then .v6 64 else .malformed,
  fun _ => true, fun _ => true⟩
def exSpec : Spec := ⟨some [⟨[⟨"zone", "In", ["a", "b"]⟩, ⟨"gpu", "Exists", []⟩], [⟨"metadata.name", "In", ["n1"]⟩]⟩], 8, "10.0.0.0/8", "fd00::/64"⟩
example : validateSpec exLib exSpec = [] := by decide
example : validateSpec exLib { exSpec with hostBits := 25 } = [.hostBitsTooBig] := by decide

end Ipam.C18
