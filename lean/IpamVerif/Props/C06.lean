import IpamVerif.System
import IpamVerif.Props.C17
import IpamVerif.Safety
import IpamVerif.Restart
import IpamVerif.Sticky
/-!
# C06 — a ClusterCIDR is released only when no node depends on it, then never used

(a) the finalizer-removing Update is sent only if the entry found for the object has no associated node
    (or no entry exists); while nodes are associated the item fails and is retried;
(b) from the step that processed the deletion request on, the entry is terminating and is not in the
    list an allocation walks — with or without selector (after the repair of the catch-all bucket);
    over whole histories without a restart, no other assumption (`Sticky.lean`, `terminating_entry_never_serves_again`):
    no node item, notification, service filter or ClusterCIDR item ever clears the flag;
(c) after the entry is removed nothing re-adds it while the object keeps being deleted;
(d) every Update sent carries the finalizers of the cached object plus or minus the controller's own
    finalizer, in the same order; nothing else of the object is part of the model's write.
PARTIAL: "no existing node depends on it" is the association recorded in memory; that every node whose
CIDRs are reserved only in this entry is associated with it is an invariant that fails for the known
findings P11 / P19 / P8 (release routed to another entry, stale tombstone, label edits); across
restarts (c) fails for P15 (a deleting object kept alive by a foreign finalizer is mapped as live).
-/
namespace Ipam.C06
open Ipam

/-- what `deleteClusterCIDR` does to the first entry filed for the object -/
theorem delFirst_spec (key name : String) : ∀ (l l' : List CC) (r : DelResult), delFirst key name l = (l', r) →
    (r = .notFound → l' = l ∧ ∀ c ∈ l, ¬ (c.key = key ∧ c.name = name)) ∧
    (r = .hasNodes → ∃ pre c post, l = pre ++ c :: post ∧ l' = pre ++ { c with term := true } :: post ∧
        c.key = key ∧ c.name = name ∧ c.assoc.length > 0 ∧ ∀ d ∈ pre, ¬ (d.key = key ∧ d.name = name)) ∧
    (r = .removed → ∃ pre c post, l = pre ++ c :: post ∧ l' = pre ++ post ∧
        c.key = key ∧ c.name = name ∧ c.assoc = [] ∧ ∀ d ∈ pre, ¬ (d.key = key ∧ d.name = name)) ∧
    r ≠ .keyError := by
  intro l
  induction l with
  | nil =>
    intro l' r h
    simp only [delFirst, Prod.mk.injEq] at h
    obtain ⟨rfl, rfl⟩ := h
    exact ⟨fun _ => ⟨rfl, by simp⟩, (fun h => by cases h), (fun h => by cases h), (fun h => by cases h)⟩
  | cons c t ih =>
    intro l' r h
    unfold delFirst at h
    split at h
    · rename_i hm
      simp only [Bool.and_eq_true, beq_iff_eq] at hm
      split at h
      · rename_i hl
        simp only [Prod.mk.injEq] at h
        obtain ⟨rfl, rfl⟩ := h
        refine ⟨(fun h => by cases h), ?_, (fun h => by cases h), (fun h => by cases h)⟩
        intro _
        exact ⟨[], c, t, rfl, rfl, hm.1, hm.2, hl, by simp⟩
      · rename_i hl
        simp only [Prod.mk.injEq] at h
        obtain ⟨rfl, rfl⟩ := h
        refine ⟨(fun h => by cases h), (fun h => by cases h), ?_, (fun h => by cases h)⟩
        intro _
        refine ⟨[], c, t, rfl, rfl, hm.1, hm.2, ?_, by simp⟩
        cases hca : c.assoc with
        | nil => rfl
        | cons x xs => rw [hca] at hl; simp at hl
    · rename_i hm
      simp only [Bool.and_eq_true, beq_iff_eq] at hm
      cases hd : delFirst key name t with
      | mk t' r' =>
        rw [hd] at h
        simp only [Prod.mk.injEq] at h
        obtain ⟨rfl, rfl⟩ := h
        obtain ⟨h1, h2, h3, h4⟩ := ih t' r' hd
        refine ⟨?_, ?_, ?_, h4⟩
        · intro hr
          obtain ⟨e, hall⟩ := h1 hr
          refine ⟨by rw [e], ?_⟩
          intro d hd'
          rcases List.mem_cons.mp hd' with rfl | hd'
          · exact hm
          · exact hall d hd'
        · intro hr
          obtain ⟨pre, c0, post, e1, e2, k1, k2, k3, k4⟩ := h2 hr
          refine ⟨c :: pre, c0, post, by rw [e1]; rfl, by rw [e2]; rfl, k1, k2, k3, ?_⟩
          intro d hd'
          rcases List.mem_cons.mp hd' with rfl | hd'
          · exact hm
          · exact k4 d hd'
        · intro hr
          obtain ⟨pre, c0, post, e1, e2, k1, k2, k3, k4⟩ := h3 hr
          refine ⟨c :: pre, c0, post, by rw [e1]; rfl, by rw [e2]; rfl, k1, k2, k3, ?_⟩
          intro d hd'
          rcases List.mem_cons.mp hd' with rfl | hd'
          · exact hm
          · exact k4 d hd'

/-- **(a)** a finalizer-removing Update is sent only when the entry filed for the object (if any) has no
associated node — and that entry is gone afterwards; with nodes associated the item fails (and is retried)
with the entry marked terminating -/
theorem finalizer_removed_only_without_dependants (s : Sys) (o : CCObj) (w : WOut)
    (hw : (reconcileDelete s o w).2.ccWrites ≠ []) :
    hasFin o = true ∧ ∃ reqs, selectorOf o.spec.sel = some reqs ∧
      ((∀ c ∈ s.alloc.ccs, ¬ (c.key = printSel reqs ∧ c.name = o.name)) ∨
       ∃ pre c post, s.alloc.ccs = pre ++ c :: post ∧ c.key = printSel reqs ∧ c.name = o.name ∧ c.assoc = [] ∧
         (reconcileDelete s o w).1.alloc.ccs = pre ++ post) := by
  unfold reconcileDelete at hw ⊢
  split at hw
  · rename_i hf
    refine ⟨hf, ?_⟩
    simp only [hf, if_true]
    unfold Alloc.deleteCC at hw ⊢
    cases hs : selectorOf o.spec.sel with
    | none => rw [hs] at hw; simp at hw
    | some reqs =>
      rw [hs] at hw
      refine ⟨reqs, rfl, ?_⟩
      simp only at hw ⊢
      cases hd : delFirst (printSel reqs) o.name s.alloc.ccs with
      | mk l' r =>
        rw [hd] at hw
        obtain ⟨h1, h2, h3, h4⟩ := delFirst_spec _ _ _ _ _ hd
        cases r with
        | keyError => exact absurd rfl h4
        | hasNodes => simp at hw
        | notFound => exact Or.inl (h1 rfl).2
        | removed =>
          obtain ⟨pre, c, post, e1, e2, k1, k2, k3, _⟩ := h3 rfl
          right
          exact ⟨pre, c, post, e1, k1, k2, k3, by simp [e2]⟩
  · simp at hw

theorem dependants_block_release (s : Sys) (o : CCObj) (w : WOut) (reqs : List Req) (hf : hasFin o = true)
    (hs : selectorOf o.spec.sel = some reqs) (l' : List CC)
    (hd : delFirst (printSel reqs) o.name s.alloc.ccs = (l', .hasNodes)) :
    (reconcileDelete s o w).2.res = "err" ∧ (reconcileDelete s o w).2.ccWrites = [] ∧ (reconcileDelete s o w).1.api = s.api := by
  unfold reconcileDelete
  simp only [hf, if_true]
  unfold Alloc.deleteCC
  rw [hs]
  simp only [hd]
  exact ⟨trivial, trivial, trivial⟩

/-- **(b)** a terminating entry is never in the list an allocation (or the recording of an existing
node's CIDRs) walks — whether it has a selector or not -/
theorem terminating_never_served (a : Alloc) (ls : Labels) (i : Nat) (c : CC) (hc : a.ccs[i]? = some c)
    (ht : c.term = true) : i ∉ a.ordered ls true := by
  unfold Alloc.ordered
  intro hmem
  have hperm : ∀ (l : List PQItem) (x : PQItem), x ∈ pqSort l → x ∈ l := by
    intro l x hx
    have hins : ∀ (y : PQItem) (m : List PQItem), x ∈ pqInsert y m → x = y ∨ x ∈ m := by
      intro y m
      induction m with
      | nil => simp [pqInsert]
      | cons h t ih =>
        unfold pqInsert
        split
        · simp
        · intro hx
          rcases List.mem_cons.mp hx with h1 | h1
          · exact Or.inr (List.mem_cons.mpr (Or.inl h1))
          · rcases ih h1 with h2 | h2
            · exact Or.inl h2
            · exact Or.inr (List.mem_cons_of_mem _ h2)
    induction l with
    | nil => simp [pqSort] at hx
    | cons h t ih =>
      unfold pqSort at ih hx
      simp only [List.foldr_cons] at hx
      rcases hins _ _ hx with h1 | h1
      · exact List.mem_cons.mpr (Or.inl h1)
      · exact List.mem_cons_of_mem _ (ih h1)
  have key : ∀ (l : List PQItem), (∀ x ∈ l, ∀ d, a.ccs[x.idx]? = some d → d.term = false) →
      i ∈ (pqSort l).map (·.idx) → False := by
    intro l hl hi
    obtain ⟨x, hx, rfl⟩ := List.mem_map.mp hi
    have := hl x (hperm l x hx) c hc
    rw [ht] at this; cases this
  have idx_ok : ∀ (j : Nat) (d : CC), (j, d) ∈ a.indexed → a.ccs[j]? = some d := by
    intro j d hjd
    unfold Alloc.indexed at hjd
    obtain ⟨⟨d', j'⟩, hm, he⟩ := List.mem_map.mp hjd
    simp only [Prod.mk.injEq] at he
    obtain ⟨rfl, rfl⟩ := he
    rw [List.mem_zipIdx_iff_getElem?] at hm
    simpa using hm
  rcases List.mem_append.mp hmem with h | h
  · apply key _ _ h
    intro x hx d hd
    obtain ⟨⟨j, e⟩, hje, hsome⟩ := List.mem_filterMap.mp hx
    simp only at hsome
    split at hsome
    · rename_i hcond
      cases hsome
      have := idx_ok j e hje
      simp only [CC.item] at hd
      rw [this] at hd; cases hd
      simp only [Bool.and_eq_true, Bool.not_true, Bool.false_or, Bool.not_eq_true'] at hcond
      exact hcond.2
    · cases hsome
  · apply key _ _ h
    intro x hx d hd
    obtain ⟨⟨j, e⟩, hje, hsome⟩ := List.mem_filterMap.mp hx
    simp only at hsome
    split at hsome
    · rename_i hcond
      cases hsome
      have := idx_ok j e hje
      simp only [CC.item] at hd
      rw [this] at hd; cases hd
      simp only [Bool.and_eq_true, Bool.not_true, Bool.false_or, Bool.not_eq_true'] at hcond
      exact hcond.2
    · cases hsome

/-- **(d)** the finalizers an Update carries: those of the cached object with the controller's own one
appended (creation) … -/
theorem create_write_adds_only_own_finalizer (s : Sys) (o : CCObj) (t : Bool) (w : WOut) :
    ∀ x ∈ (createClusterCIDR s o t w).2.ccWrites, x.1 = o.name ∧
      (x.2.1 = o.finalizers ∨ (x.2.1 = o.finalizers ++ [finalizerName] ∧ finalizerName ∉ o.finalizers)) := by
  intro x hx
  unfold createClusterCIDR at hx
  split at hx
  · cases hx
  · simp only [List.mem_singleton] at hx
    subst hx
    refine ⟨rfl, ?_⟩
    simp only
    split
    · rename_i hn
      right
      refine ⟨rfl, ?_⟩
      unfold needFin hasFin at hn
      simp only [Bool.and_eq_true, Bool.not_eq_true', List.contains_eq_mem, decide_eq_false_iff_not] at hn
      exact hn.2
    · exact Or.inl rfl

/-- … or removed (deletion), the finalizers of others staying in place and in order -/
theorem delete_write_removes_only_own_finalizer (s : Sys) (o : CCObj) (w : WOut) :
    ∀ x ∈ (reconcileDelete s o w).2.ccWrites, x.1 = o.name ∧ x.2.1 = o.finalizers.filter (· != finalizerName) := by
  intro x hx
  unfold reconcileDelete at hx
  split at hx
  · split at hx
    · cases hx
    · cases hx
    · simp only [List.mem_singleton] at hx
      subst hx
      exact ⟨rfl, rfl⟩
  · cases hx

/-- **on the fragment of `Safety.lean`** (ClusterCIDRs with disjoint ranges, no restart, no lost node writes …):
whatever a ClusterCIDR work item does — in particular when it unmaps the ClusterCIDR and removes the finalizer —
every node that exists, is not being deleted and holds pod CIDRs is afterwards still associated with a mapped
ClusterCIDR in whose pools exactly those CIDRs are in use.  So a ClusterCIDR is only ever released when no
existing node depends on it for the reservation of its pod CIDRs. -/
theorem cc_item_keeps_every_holder_reserved (s : Sys) (hs : Safety.Inv s) (name : String) (w : WOut)
    (hf : Safety.Frag s (.procCC name w)) :
    ∀ y ∈ (step s (.procCC name w)).1.api.nodes, y.deleting = false → y.cidrs ≠ [] →
      ∃ i, Safety.Claims (step s (.procCC name w)).1.alloc y.name i ∧
        ∀ cd ∈ y.cidrs, Safety.UsedAt (step s (.procCC name w)).1.alloc i cd :=
  fun y hy hd h0 => (Safety.inv_step hs _ hf).held y (List.mem_append_left _ hy) h0 (Or.inl hd)

/-- **"only when no existing node depends on it"**, by geometry: in a state satisfying the invariant of `Safety.lean`,
when an item sends the Update that removes the controller's finalizer, either nothing was mapped for the object, or
the entry that is unmapped contains, in none of its ranges, a pod CIDR of an existing node that is not being deleted —
whether or not the controller has anything recorded for that node -/
theorem released_ranges_hold_no_live_cidr (s : Sys) (hs : Safety.Inv s) (o : CCObj) (w : WOut)
    (hw : (reconcileDelete s o w).2.ccWrites ≠ []) :
    (∀ c ∈ s.alloc.ccs, c.name = o.name → ∀ reqs, selectorOf o.spec.sel = some reqs → c.key ≠ printSel reqs) ∨
    ∃ pre c post, s.alloc.ccs = pre ++ c :: post ∧ c.name = o.name ∧ (reconcileDelete s o w).1.alloc.ccs = pre ++ post ∧
      ∀ v ∈ s.api.nodes, v.deleting = false → ∀ cd ∈ v.cidrs, ∀ p, c.pool cd.fam = some p → cd.Disjoint p.geo.range := by
  obtain ⟨_, reqs, hsel, hcase⟩ := finalizer_removed_only_without_dependants s o w hw
  rcases hcase with hnone | ⟨pre, c, post, e1, k1, k2, k3, k4⟩
  · left
    intro c hc hn reqs' hsel' hk
    rw [hsel] at hsel'; cases hsel'
    exact hnone c hc ⟨hk, hn⟩
  · right
    refine ⟨pre, c, post, e1, k2, k4, ?_⟩
    intro v hv hd cd hcd p hp
    have hj : s.alloc.get? pre.length = some c := by
      unfold Alloc.get?; rw [e1]; simp
    have hne : v.cidrs ≠ [] := by intro h; rw [h] at hcd; cases hcd
    obtain ⟨i, hci, hu⟩ := hs.held v (List.mem_append_left _ hv) hne (Or.inl hd)
    have hij : i ≠ pre.length := by
      rintro rfl
      obtain ⟨c', hg', hx⟩ := hci
      rw [hj] at hg'; cases hg'
      rw [k3] at hx; cases hx
    obtain ⟨ci, pi, hgi, hpi, hsub, _⟩ := Safety.usedAt_sub_range hs.wf (hu cd hcd)
    have hdis := hs.rd i pre.length ci c cd.fam pi p hgi hj hpi hp hij
    have := cd.size_pos
    unfold Cidr.Sub at hsub
    unfold Cidr.Disjoint at hdis ⊢
    omega

/-- ... in every state a history of the fragment with restarts (`Restart.Frag3`) can reach: a restart does not make
the controller forget who depends on a ClusterCIDR -/
theorem release_is_safe_after_any_history_with_restarts (s0 : Sys) (h0 : Restart.Inv3 s0) (evs : List Ev)
    (hf : Restart.Frag3All s0 evs) (o : CCObj) (w : WOut)
    (hw : (reconcileDelete (run s0 evs) o w).2.ccWrites ≠ []) :
    (∀ c ∈ (run s0 evs).alloc.ccs, c.name = o.name → ∀ reqs, selectorOf o.spec.sel = some reqs → c.key ≠ printSel reqs) ∨
    ∃ pre c post, (run s0 evs).alloc.ccs = pre ++ c :: post ∧ c.name = o.name ∧
      (reconcileDelete (run s0 evs) o w).1.alloc.ccs = pre ++ post ∧
      ∀ v ∈ (run s0 evs).api.nodes, v.deleting = false → ∀ cd ∈ v.cidrs, ∀ p, c.pool cd.fam = some p → cd.Disjoint p.geo.range :=
  released_ranges_hold_no_live_cidr _ (Restart.inv3_run evs s0 h0 hf).inv o w hw

/-- **then never used** — every history without a restart, no other assumption: once the entry of a ClusterCIDR is
terminating (its deletion request was processed while nodes depended on it), then in every later state — up to the
moment the entry is removed from the map — every entry filed under that selector key and name is terminating and
is in no list an allocation or a recording walks, for any node labels -/
theorem terminating_entry_never_serves_again (s : Sys) (evs : List Ev) (p : String × String)
    (hd : Sticky.Dead s.alloc p) (hb : ∀ e ∈ evs, ∀ svcs ws, e ≠ Ev.boot svcs ws) :
    (∀ (i : Nat) (c : CC), (run s evs).alloc.ccs[i]? = some c → OnePer.kn c = p →
        c.term = true ∧ ∀ ls, i ∉ (run s evs).alloc.ordered ls true) ∨
    ∃ pre post, evs = pre ++ post ∧ p ∉ OnePer.KN (run s pre).alloc := by
  rcases Sticky.run_dead evs s p hd hb with h | h
  · left
    intro i c hc hk
    have ht : c.term = true := by
      cases hterm : c.term with
      | true => rfl
      | false =>
        exfalso
        apply h
        unfold Sticky.Live
        refine List.mem_map.mpr ⟨c, List.mem_filter.mpr ⟨List.mem_of_getElem? hc, by simp [hterm]⟩, hk⟩
    exact ⟨ht, fun ls => terminating_never_served _ ls i c hc ht⟩
  · right; exact h

/-- the premise is met by a real history: the controller starts, `n1` is served from the selector-less ClusterCIDR `a`,
`a` is deleted and the deletion request is processed while `n1` depends on it … -/
def exTerm : List Ev :=
  [.boot [] [], .nodeAdd ⟨"n1", [], [], false, false⟩, .deliverNode "n1" false, .procNode "n1" false [],
   .ccDel "a", .deliverCC "a", .procCC "a" .ok]
/-- … later a new node arrives, the ClusterCIDR item is retried with a failing write, `n1` is re-synced -/
def exLater : List Ev :=
  [.nodeAdd ⟨"n5", [], [], false, false⟩, .deliverNode "n5" false, .procNode "n5" false [], .procCC "a" .fail,
   .procNode "n1" false []]

instance (a : Alloc) (p : String × String) : Decidable (Sticky.Dead a p) := by unfold Sticky.Dead; infer_instance

example : Sticky.Dead (run Restart.exStart3 exTerm).alloc ("kubernetes.io/clusterCIDR in (default)", "a") := by decide +kernel
example : ∀ e ∈ exLater, ∀ svcs ws, e ≠ Ev.boot svcs ws := by
  intro e he svcs ws; simp [exLater] at he; rcases he with rfl | rfl | rfl | rfl | rfl <;> simp
/-- the new node, which only `a` could serve, gets nothing; `a` stays mapped (n1 still depends on it) and terminating -/
example : (run Restart.exStart3 (exTerm ++ exLater)).api.nodes.map (fun n => (n.name, n.cidrs.map (·.addr))) =
    [("n1", [0x0a000000]), ("n5", [])] ∧
    Sticky.KNT (run Restart.exStart3 (exTerm ++ exLater)).alloc =
      [("kubernetes.io/clusterCIDR in (default)", "a", true), ("zone in (a)", "b", false)] := by decide +kernel

end Ipam.C06
