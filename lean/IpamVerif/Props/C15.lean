import IpamVerif.Lock
import IpamVerif.Props.C16
import IpamVerif.System
/-!
# C15 — concurrent workers produce the result of some one-at-a-time processing

What is proved:
* `mutex_reduction` (`Lock.lean`): operations of the form `acquire; body; release` over one mutex, under
  ANY interleaving that respects the mutex, leave the shared state equal to executing them one at a time
  in acquisition order;
* the operations of the controller have that form: every path from a worker, an informer callback or the
  public interface to the shared reservation state goes through one of the five functions that hold the
  lock for their whole body (C16, on the call graph regenerated from the source), and nothing inside
  re-acquires it;
* hence (`workers_equal_some_serial_order`) any concurrent run of work items over the allocator state is
  a history of the sequential model `Ipam.step` — the model the history properties C01 / C04 / C06 are
  stated and checked over.
PARTIAL, by name: data-race freedom in the sense of the Go memory model, the pools' own mutexes, the
client-go queues and informers, and the API server's concurrency are runtime behaviour this model cannot
exhibit.  Supporting validation (not proof): the `conc` stream runs the real `Run` with its 30+30 workers,
concurrent handler calls and a concurrent fake API under the race detector and judges the three
conclusions on the final state.
-/
namespace Ipam.C15
open Ipam Ipam.Lock

/-- a work item as an operation on the shared allocator-side state: the whole body runs under the lock -/
def itemOp (body : Sys → Sys) : Op Sys := ⟨[body]⟩

/-- **any mutex-respecting interleaving of work items equals processing them one at a time in the order
they acquired the lock** -/
theorem workers_equal_some_serial_order (items : List (Sys → Sys)) (s0 : Sys) (sched : List Act) (m : MState Sys)
    (h : execAll (items.map itemOp) ⟨s0, none, 0, []⟩ sched = some m) (hfree : m.holder = none) :
    m.shared = serial (items.map itemOp) s0 m.order :=
  mutex_reduction (items.map itemOp) s0 sched m h hfree

/-- the serial execution of work-item bodies that are model steps is a run of the sequential model -/
theorem serial_is_model_run (evs : List Ev) (s0 : Sys) :
    serial (evs.map (fun e => itemOp (fun s => (step s e).1))) s0 (List.range evs.length) = run s0 evs := by
  have key : ∀ (rest pre : List Ev) (s : Sys),
      serial ((pre ++ rest).map (fun e => itemOp (fun s => (step s e).1))) s (List.range' pre.length rest.length)
        = rest.foldl (fun st e => (step st e).1) s := by
    intro rest
    induction rest with
    | nil => intro pre s; simp [serial]
    | cons e t ih =>
      intro pre s
      have hget : ((pre ++ e :: t).map (fun e => itemOp (fun s => (step s e).1)))[pre.length]? =
          some (itemOp (fun s => (step s e).1)) := by
        simp
      have := ih (pre ++ [e]) ((itemOp (fun s => (step s e).1)).effect s)
      simp only [List.length_append, List.length_cons, List.length_nil, List.append_assoc, List.cons_append, List.nil_append] at this
      unfold serial at this ⊢
      simp only [List.length_cons, List.range'_succ, List.foldl_cons, hget]
      rw [this]
      simp [itemOp, Op.effect]
  have := key evs [] s0
  simp only [List.length_nil, List.nil_append] at this
  rw [List.range_eq_range']
  unfold run
  exact this

/-- the five entry points that reach the shared state hold the lock for their whole body (regenerated fact) -/
theorem entry_points_hold_the_lock :
    (Facts.graph.fns.filter (fun f => f.holdsLock)).map (·.name) =
      ["multiCIDRRangeAllocator.AllocateOrOccupyCIDR", "multiCIDRRangeAllocator.ReleaseCIDR",
       "multiCIDRRangeAllocator.reconcileBootstrap", "multiCIDRRangeAllocator.reconcileCreate",
       "multiCIDRRangeAllocator.reconcileDelete"] := by decide +kernel

end Ipam.C15
