import IpamVerif.PoolLemmas
import IpamVerif.Props.C13
/-!
# C14 — a range's block pool behaves exactly like a set of block numbers

`Pool.occupy / release / next` transcribe `Occupy / Release / NextCandidate`.
The abstract spec is the *set of used block numbers* (`k ∈ p.used`); the
theorems say how each operation changes that set (refinement), that the
counter is its cardinality and stays within `[0, capacity]`, and that
`NextCandidate` finds a free block iff one exists and reserves nothing.
-/
namespace Ipam.C14

open Ipam

abbrev Supported := C13.Supported

/-- block `k` of the pool is touched by `cd` -/
def Touches (p : Pool) (cd : Cidr) (k : Nat) : Prop := k < p.max ∧ ¬ (goBlock p.geo k).Disjoint cd

/-- `Occupy` fails exactly when the CIDR lies outside the range, and then nothing changes
(the model returns no new state); otherwise the used set grows by exactly the touched blocks,
nothing else moves, and the invariant (counter = cardinality, metrics) is kept. -/
theorem occupy_refines {p : Pool} (hg : Supported p.geo) (hI : p.Inv) {cd : Cidr} (hcd : cd.WF) :
    (p.occupy cd = none ↔ (cd.fam ≠ p.geo.fam ∨ cd.Disjoint p.geo.range)) ∧
    ∀ p', p.occupy cd = some p' →
      p'.Inv ∧ p'.geo = p.geo ∧ p'.cursor = p.cursor ∧ p'.label = p.label ∧
      ∀ k, k ∈ p'.used ↔ (k ∈ p.used ∨ Touches p cd k) := by
  constructor
  · unfold Pool.occupy
    rw [← C13.beginEnd_rejects_iff hg hcd]
    cases goBeginEnd p.geo cd with
    | none => simp
    | some be => simp
  · intro p' h
    unfold Pool.occupy at h
    cases hbe : goBeginEnd p.geo cd with
    | none => rw [hbe] at h; cases h
    | some be =>
      obtain ⟨b, e⟩ := be
      rw [hbe] at h
      simp only [Option.some.injEq] at h
      rw [goBeginEnd_eq_spec hg.1 hg.2 hcd] at hbe
      obtain ⟨hf, hble, hemax, hiff⟩ := specBeginEnd_some hg.1 hcd hbe
      obtain ⟨h0, fr, _, hm⟩ := Pool.occupyFold_spec (idxRange b e) p hI.toInv0 (by
        intro i hi; have := mem_idxRange.mp hi; unfold Pool.max; omega)
      subst h
      refine ⟨?_, fr.1, fr.2.2.1, fr.2.1, ?_⟩
      · exact { toInv0 := { nodup := h0.nodup, bound := h0.bound, count_eq := h0.count_eq,
                            cursor_lt := h0.cursor_lt, metrics := h0.metrics, maxg := h0.maxg },
                usage_eq := rfl }
      · intro k
        simp only
        rw [hm k, mem_idxRange]
        unfold Touches
        constructor
        · rintro (⟨h1, h2⟩ | h1)
          · right
            have hk : k < p.geo.max := by omega
            exact ⟨hk, by rw [goBlock_eq hg.1 hk]; exact (hiff k hk).mp ⟨h1, h2⟩⟩
          · exact Or.inl h1
        · rintro (h1 | ⟨hk, h2⟩)
          · exact Or.inr h1
          · left; rw [goBlock_eq hg.1 hk] at h2; exact (hiff k hk).mpr h2

/-- the same for `Release`: the used set shrinks by exactly the touched blocks -/
theorem release_refines {p : Pool} (hg : Supported p.geo) (hI : p.Inv) {cd : Cidr} (hcd : cd.WF) :
    (p.release cd = none ↔ (cd.fam ≠ p.geo.fam ∨ cd.Disjoint p.geo.range)) ∧
    ∀ p', p.release cd = some p' →
      p'.Inv ∧ p'.geo = p.geo ∧ p'.cursor = p.cursor ∧ p'.label = p.label ∧
      ∀ k, k ∈ p'.used ↔ (k ∈ p.used ∧ ¬ Touches p cd k) := by
  constructor
  · unfold Pool.release
    rw [← C13.beginEnd_rejects_iff hg hcd]
    cases goBeginEnd p.geo cd with
    | none => simp
    | some be => simp
  · intro p' h
    unfold Pool.release at h
    cases hbe : goBeginEnd p.geo cd with
    | none => rw [hbe] at h; cases h
    | some be =>
      obtain ⟨b, e⟩ := be
      rw [hbe] at h
      simp only [Option.some.injEq] at h
      rw [goBeginEnd_eq_spec hg.1 hg.2 hcd] at hbe
      obtain ⟨hf, hble, hemax, hiff⟩ := specBeginEnd_some hg.1 hcd hbe
      obtain ⟨h0, fr, _, hm⟩ := Pool.releaseFold_spec (idxRange b e) p hI.toInv0
      subst h
      refine ⟨?_, fr.1, fr.2.2.1, fr.2.1, ?_⟩
      · exact { toInv0 := { nodup := h0.nodup, bound := h0.bound, count_eq := h0.count_eq,
                            cursor_lt := h0.cursor_lt, metrics := h0.metrics, maxg := h0.maxg },
                usage_eq := rfl }
      · intro k
        simp only
        rw [hm k, mem_idxRange]
        unfold Touches
        constructor
        · rintro ⟨h1, h2⟩
          refine ⟨h2, ?_⟩
          rintro ⟨hk, h3⟩
          rw [goBlock_eq hg.1 hk] at h3
          exact h1 ((hiff k hk).mpr h3)
        · rintro ⟨h1, h2⟩
          refine ⟨?_, h1⟩
          intro h3
          have hk : k < p.geo.max := by omega
          exact h2 ⟨hk, by rw [goBlock_eq hg.1 hk]; exact (hiff k hk).mp h3⟩

/-- a CIDR containing the range touches all blocks -/
theorem touches_all_of_superrange {p : Pool} (hg : Supported p.geo) {cd : Cidr}
    (hsup : p.geo.range.Sub cd) {k : Nat} (hk : k < p.max) : Touches p cd k := by
  refine ⟨hk, ?_⟩
  rw [goBlock_eq hg.1 hk]
  have hm := Geo.block_mem_range hg.1 hk (p.geo.block k).mem_addr
  apply Cidr.not_disjoint_of_mem (p.geo.block k).mem_addr
  exact ⟨by have := hsup.1; have := hm.1; omega, by have := hsup.2; have := hm.2; omega⟩

/-- a CIDR inside block `i` touches exactly block `i` -/
theorem touches_only_enclosing {p : Pool} (hg : Supported p.geo) {cd : Cidr} {i : Nat} (hi : i < p.max)
    (hsub : cd.Sub (goBlock p.geo i)) (k : Nat) : Touches p cd k ↔ k = i := by
  constructor
  · rintro ⟨hk, hnd⟩
    false_or_by_contra; rename_i hne
    have hd := C13.blocks_disjoint hg hk hi hne
    apply hnd
    unfold Cidr.Disjoint at hd ⊢
    have := hsub.1; have := hsub.2
    omega
  · rintro rfl
    refine ⟨hi, ?_⟩
    have hcm : (goBlock p.geo k).Mem cd.addr := ⟨hsub.1, by have := cd.size_pos; have := hsub.2; omega⟩
    exact Cidr.not_disjoint_of_mem hcm cd.mem_addr

/-- repeating `Occupy` is harmless -/
theorem occupy_idempotent {p p' : Pool} (hg : Supported p.geo) (hI : p.Inv) {cd : Cidr} (hcd : cd.WF)
    (h : p.occupy cd = some p') : p'.occupy cd = some p' := by
  obtain ⟨hinv, hgeo, _, _, hm⟩ := (occupy_refines hg hI hcd).2 p' h
  unfold Pool.occupy at h ⊢
  rw [hgeo]
  cases hbe : goBeginEnd p.geo cd with
  | none => rw [hbe] at h; cases h
  | some be =>
    obtain ⟨b, e⟩ := be
    rw [hbe] at h
    simp only [Option.some.injEq] at h ⊢
    have hbe' := hbe
    rw [goBeginEnd_eq_spec hg.1 hg.2 hcd] at hbe'
    obtain ⟨hf, hble, hemax, hiff⟩ := specBeginEnd_some hg.1 hcd hbe'
    have hid : (idxRange b e).foldl Pool.occupyIdx p' = p' := by
      apply Pool.occupyFold_id
      intro i hi
      have hbi := mem_idxRange.mp hi
      have hk : i < p.geo.max := by omega
      rw [hm i]; right
      exact ⟨hk, by rw [goBlock_eq hg.1 hk]; exact (hiff i hk).mp hbi⟩
    rw [hid]
    have := hinv.usage_eq
    cases p'; simp_all

/-- repeating `Release` is harmless -/
theorem release_idempotent {p p' : Pool} (hg : Supported p.geo) (hI : p.Inv) {cd : Cidr} (hcd : cd.WF)
    (h : p.release cd = some p') : p'.release cd = some p' := by
  obtain ⟨hinv, hgeo, _, _, hm⟩ := (release_refines hg hI hcd).2 p' h
  unfold Pool.release at h ⊢
  rw [hgeo]
  cases hbe : goBeginEnd p.geo cd with
  | none => rw [hbe] at h; cases h
  | some be =>
    obtain ⟨b, e⟩ := be
    rw [hbe] at h
    simp only [Option.some.injEq] at h ⊢
    have hbe' := hbe
    rw [goBeginEnd_eq_spec hg.1 hg.2 hcd] at hbe'
    obtain ⟨hf, hble, hemax, hiff⟩ := specBeginEnd_some hg.1 hcd hbe'
    have hid : (idxRange b e).foldl Pool.releaseIdx p' = p' := by
      apply Pool.releaseFold_id
      intro i hi
      have hbi := mem_idxRange.mp hi
      have hk : i < p.geo.max := by omega
      rw [hm i]
      rintro ⟨_, h2⟩
      exact h2 ⟨hk, by rw [goBlock_eq hg.1 hk]; exact (hiff i hk).mp hbi⟩
    rw [hid]
    have := hinv.usage_eq
    cases p'; simp_all

/-- the reported number of used blocks is the number of distinct used blocks and is
between zero and the capacity -/
theorem count_is_cardinality {p : Pool} (hI : p.Inv) :
    p.count = p.used.length ∧ p.used.Nodup ∧ p.count ≤ p.max := by
  refine ⟨hI.count_eq, hI.nodup, ?_⟩
  rw [hI.count_eq]; exact full_length hI.nodup hI.bound

/-- `NextCandidate` errs exactly when no block is free -/
theorem next_none_iff {p : Pool} (hI : p.Inv) : p.next = none ↔ ∀ i, i < p.max → i ∈ p.used := by
  have hm : 0 < p.max := p.geo.max_pos
  unfold Pool.next
  constructor
  · intro h
    split at h
    · rename_i hc
      -- counter = capacity: the duplicate-free used list has `max` elements below `max`
      intro i hi
      false_or_by_contra; rename_i hni
      have hsub : i :: p.used ⊆ List.range p.max := by
        intro j hj
        rcases List.mem_cons.mp hj with rfl | hj
        · exact List.mem_range.mpr hi
        · exact List.mem_range.mpr (hI.bound j hj)
      have := (List.nodup_cons.mpr ⟨hni, hI.nodup⟩).length_le_of_subset hsub
      simp only [List.length_cons, List.length_range] at this
      have := hI.count_eq
      omega
    · cases hs : p.scan p.max p.cursor 0 with
      | none =>
        intro i hi
        obtain ⟨j, hj, hji⟩ := cyclic_cover hI.cursor_lt hi
        have := Pool.scan_none p hm _ _ _ hI.cursor_lt hs j hj
        rwa [hji] at this
      | some ck => rw [hs] at h; cases h
  · intro hall
    split
    · rfl
    · rename_i hc
      have h1 := full_of_all hall
      have h2 := full_length hI.nodup hI.bound
      have := hI.count_eq
      omega

/-- when it succeeds, the candidate is a free block, found by walking cyclically from the
cursor over used blocks only; nothing is reserved, only the cursor moves (just past it) -/
theorem next_some {p : Pool} (hI : p.Inv) {c k : Nat} {p' : Pool} (h : p.next = some (c, k, p')) :
    c < p.max ∧ c ∉ p.used ∧ k < p.max ∧ c = (p.cursor + k) % p.max ∧
    (∀ j, j < k → (p.cursor + j) % p.max ∈ p.used) ∧
    p' = { p with cursor := (c + 1) % p.max } ∧ p'.Inv := by
  have hm : 0 < p.max := p.geo.max_pos
  unfold Pool.next at h
  split at h
  · cases h
  cases hs : p.scan p.max p.cursor 0 with
  | none => rw [hs] at h; cases h
  | some ck =>
    obtain ⟨c', k'⟩ := ck
    rw [hs] at h
    simp only [Option.some.injEq, Prod.mk.injEq] at h
    obtain ⟨rfl, rfl, rfl⟩ := h
    obtain ⟨_, h2, h3, h4, h5⟩ := Pool.scan_some p hm _ _ _ _ _ hI.cursor_lt hs
    simp only [Nat.sub_zero, Nat.zero_add] at h2 h3 h5
    refine ⟨by rw [h3]; exact Nat.mod_lt _ hm, h4, h2, h3, h5, rfl, ?_⟩
    exact { toInv0 := { nodup := hI.nodup, bound := hI.bound, count_eq := hI.count_eq,
                        cursor_lt := Nat.mod_lt _ hm, metrics := hI.metrics, maxg := hI.maxg },
            usage_eq := hI.usage_eq }

/-- a free block exists iff `NextCandidate` yields one -/
theorem next_some_iff_free {p : Pool} (hI : p.Inv) :
    (∃ i, i < p.max ∧ i ∉ p.used) ↔ ∃ r, p.next = some r := by
  constructor
  · rintro ⟨i, hi, hni⟩
    cases hn : p.next with
    | none => exact absurd ((next_none_iff hI).mp hn i hi) hni
    | some r => exact ⟨r, rfl⟩
  · rintro ⟨⟨c, k, p'⟩, h⟩
    obtain ⟨h1, h2, _⟩ := next_some hI h
    exact ⟨c, h1, h2⟩

/-- the arguments a history may contain: CIDRs as Go's parser produces them -/
def OpWF : PoolOp → Prop
  | .occupy cd => cd.WF
  | .release cd => cd.WF
  | .next => True

theorem step_inv {p : Pool} (hg : Supported p.geo) (hI : p.Inv) {op : PoolOp} (hop : OpWF op) :
    (p.step op).Inv ∧ (p.step op).geo = p.geo := by
  cases op with
  | occupy cd =>
    cases h : p.occupy cd with
    | none => simp only [Pool.step, h, Option.getD]; exact ⟨hI, trivial⟩
    | some p' =>
      have := (occupy_refines hg hI hop).2 p' h
      simp only [Pool.step, h, Option.getD]; exact ⟨this.1, this.2.1⟩
  | release cd =>
    cases h : p.release cd with
    | none => simp only [Pool.step, h, Option.getD]; exact ⟨hI, trivial⟩
    | some p' =>
      have := (release_refines hg hI hop).2 p' h
      simp only [Pool.step, h, Option.getD]; exact ⟨this.1, this.2.1⟩
  | next =>
    cases h : p.next with
    | none => simp only [Pool.step, h]; exact ⟨hI, trivial⟩
    | some r =>
      obtain ⟨c, k, p'⟩ := r
      obtain ⟨_, _, _, _, _, hp', hinv⟩ := next_some hI h
      simp only [Pool.step, h]
      exact ⟨hinv, by rw [hp']⟩

/-- **every reachable state** of a pool of a supported geometry satisfies the invariant -/
theorem ops_inv (g : Geo) (l : String) (hg : Supported g) (ops : List PoolOp) (hops : ∀ op ∈ ops, OpWF op) :
    ((Pool.new g l).run ops).Inv ∧ ((Pool.new g l).run ops).geo = g := by
  suffices ∀ (p : Pool), p.geo = g → p.Inv → (p.run ops).Inv ∧ (p.run ops).geo = g from
    this _ rfl (Pool.new_inv g l)
  induction ops with
  | nil => intro p hp hI; exact ⟨hI, hp⟩
  | cons op t ih =>
    intro p hp hI
    have := step_inv (hp ▸ hg) hI (hops op (List.mem_cons_self ..))
    exact ih (fun o ho => hops o (List.mem_cons_of_mem _ ho)) _ (this.2.trans hp) this.1

/-! non-vacuity -/
example : (Pool.new ⟨.v4, 0x0a000000, 24, 26⟩ "10.0.0.0/24").Inv := Pool.new_inv _ _
example : ((Pool.new ⟨.v4, 0x0a000000, 24, 26⟩ "10.0.0.0/24").run
    [.occupy ⟨.v4, 0x0a000040, 27⟩, .next, .occupy ⟨.v4, 0x0a000000, 16⟩, .release ⟨.v4, 0x0a000080, 25⟩]).used = [0, 1] := by decide

end Ipam.C14
