import IpamVerif.System
/-!
# C12 — no watched object content can crash the controller or cause a bogus assignment

The model is a total function of arbitrary object content: range fields as whatever Go's parser makes of
them (`RangeField`: empty / malformed / a CIDR of either family), `perNodeHostBits` any `Int`, selectors any
shape with the library's verdict on keys and values attached, node pod CIDRs any parse result (`junk`),
notifications as objects or tombstones.  Every place where the Go code could dereference a missing pool
is an explicit error branch of the model (`CC.occupy` / `CC.release` return `none` when the entry has no
pool of the CIDR's family — the behaviour after the repair of `associatedCIDRSet`), the loop of
`allocateCIDR` runs on explicit fuel (`allocLoop_spec` shows the fuel never decides the outcome).  Whether
the Go code really has no other panic or stall is decided by the tie: the `mal` stream runs every step
under `recover` and a watchdog and compares with the model.

Proved here: unusable ClusterCIDRs are rejected with an error, nothing is mapped and nothing is written
(`unusable_rejected`), with the exact characterisation of "unusable" (`buildCC_none_iff`,
`newGeo_none_iff`); every step reports one of the three ordinary results (`step_result_ordinary`).
That whatever is PATCHed is a proper block of a usable ClusterCIDR is `Props/C02`.
-/
set_option linter.unusedSimpArgs false
namespace Ipam.C12
open Ipam

/-- `NewMultiCIDRSet` rejects exactly: negative host bits, more host bits than the range has, more than
16 IPv6 index bits -/
theorem newGeo_none_iff (r : Cidr) (hb : Int) :
    newGeo r hb = none ↔ (hb < 0 ∨ hb > (r.W : Int) - (r.len : Int) ∨ (r.fam = .v6 ∧ (r.W : Int) - hb - (r.len : Int) > 16)) := by
  unfold newGeo
  simp only
  constructor
  · intro h
    split at h
    · rename_i h1
      rcases h1 with h1 | h1
      · exact Or.inl h1
      · exact Or.inr (Or.inl (by omega))
    · split at h
      · rename_i h2; exact Or.inr (Or.inr h2)
      · cases h
  · intro h
    split
    · rfl
    · rename_i h1
      split
      · rfl
      · rename_i h2
        rcases h with h | h | h
        · exact absurd (Or.inl h) h1
        · exact absurd (Or.inr (by omega)) h1
        · exact absurd h h2

/-- a range field from which no pool can be built -/
def FieldUnusable (fld : RangeField) (want : Fam) (hb : Int) : Prop :=
  fld = .malformed ∨ ∃ c l, fld = .ok c l ∧ (c.fam ≠ want ∨ newGeo c hb = none)

theorem buildPool_none_iff (fld : RangeField) (want : Fam) (hb : Int) :
    buildPool fld want hb = none ↔ FieldUnusable fld want hb := by
  unfold buildPool FieldUnusable
  cases fld with
  | empty => simp
  | malformed => simp
  | ok c l =>
    simp only [reduceCtorEq, false_or, RangeField.ok.injEq, exists_and_left, exists_eq_left']
    by_cases hf : c.fam = want
    · simp only [hf, ne_eq, not_true_eq_false, if_false, false_or]
      cases hg : newGeo c hb <;> simp [hf, hg]
    · simp [hf]

/-- **"unusable"**: a non-empty range field that does not parse, is of the other family, or does not fit
the host bits; or both fields empty -/
theorem buildCC_none_iff (key : String) (reqs : List Req) (name : String) (spec : CCSpec) (t : Bool) :
    buildCC key reqs name spec t = none ↔
      (FieldUnusable spec.ipv4 .v4 spec.hostBits ∨ FieldUnusable spec.ipv6 .v6 spec.hostBits ∨
       (spec.ipv4 = .empty ∧ spec.ipv6 = .empty)) := by
  unfold buildCC
  rw [← buildPool_none_iff, ← buildPool_none_iff]
  cases h4 : buildPool spec.ipv4 .v4 spec.hostBits with
  | none => simp
  | some p4 =>
    cases h6 : buildPool spec.ipv6 .v6 spec.hostBits with
    | none => simp
    | some p6 =>
      simp only [reduceCtorEq, false_or]
      have e4 : p4 = none ↔ spec.ipv4 = .empty := by
        unfold buildPool at h4
        cases hf : spec.ipv4 with
        | empty => rw [hf] at h4; simp at h4; simp [h4.symm]
        | malformed => rw [hf] at h4; simp at h4
        | ok c l =>
          rw [hf] at h4
          simp only at h4
          split at h4
          · cases h4
          · cases hg : newGeo c spec.hostBits <;> rw [hg] at h4 <;> simp at h4
            simp [← h4]
      have e6 : p6 = none ↔ spec.ipv6 = .empty := by
        unfold buildPool at h6
        cases hf : spec.ipv6 with
        | empty => rw [hf] at h6; simp at h6; simp [h6.symm]
        | malformed => rw [hf] at h6; simp at h6
        | ok c l =>
          rw [hf] at h6
          simp only at h6
          split at h6
          · cases h6
          · cases hg : newGeo c spec.hostBits <;> rw [hg] at h6 <;> simp at h6
            simp [← h6]
      constructor
      · intro h
        split at h
        · rename_i hh
          simp only [Bool.and_eq_true, Option.isNone_iff_eq_none] at hh
          exact ⟨e4.mp hh.1, e6.mp hh.2⟩
        · cases h
      · rintro ⟨h1, h2⟩
        rw [if_pos (by simp [e4.mpr h1, e6.mpr h2])]

/-- **an unusable ClusterCIDR (or one whose selector cannot be represented) is rejected with an error:
nothing is mapped, nothing is written, the API and the caches are untouched** -/
theorem unusable_rejected (s : Sys) (o : CCObj) (t : Bool) (w : WOut)
    (h : selectorOf o.spec.sel = none ∨
         ∀ reqs, selectorOf o.spec.sel = some reqs → s.alloc.mapped (printSel reqs) o.name = false ∧
           buildCC (printSel reqs) reqs o.name o.spec t = none) :
    createClusterCIDR s o t w = (s, { res := "err" }) := by
  unfold createClusterCIDR
  have : s.alloc.createCC o.name o.spec t = none := by
    unfold Alloc.createCC
    rcases h with h | h
    · rw [h]
    · cases hs : selectorOf o.spec.sel with
      | none => rfl
      | some reqs =>
        obtain ⟨h1, h2⟩ := h reqs hs
        simp only [h1, Bool.false_eq_true, if_false, h2]
  rw [this]

def ordinary (r : String) : Prop := r = "none" ∨ r = "ok" ∨ r = "err"

theorem updateCIDRsAllocation_ordinary (s : Sys) (n : String) (cs : List Cidr) (i : Nat) (ws : List WOut) :
    ordinary (updateCIDRsAllocation s n cs i ws).2.res := by
  unfold updateCIDRsAllocation ordinary
  split
  · simp
  · split
    · simp
    · split
      · split <;> simp
      · simp only; split <;> simp

theorem allocateOrOccupy_ordinary (s : Sys) (n : NodeObj) (r : Bool) (ws : List WOut) :
    ordinary (allocateOrOccupy s n r ws).2.res := by
  unfold allocateOrOccupy
  split
  · split <;> simp [ordinary]
  · split
    · simp [ordinary]
    · split
      · simp [ordinary]
      · split
        · simp only
          split
          · exact updateCIDRsAllocation_ordinary _ _ _ _ _
          · exact updateCIDRsAllocation_ordinary _ _ _ _ _
        · exact updateCIDRsAllocation_ordinary _ _ _ _ _

theorem procNode_ordinary (s : Sys) (n : String) (r : Bool) (ws : List WOut) : ordinary (procNode s n r ws).2.res := by
  unfold procNode
  have : ordinary (procNodeCore { s with nodeQ := qDel s.nodeQ n } n r ws).2.res := by
    unfold procNodeCore
    split
    · simp [ordinary]
    · split
      · split <;> simp [ordinary]
      · exact allocateOrOccupy_ordinary _ _ _ _
  simp only
  split <;> exact this

theorem createClusterCIDR_ordinary (s : Sys) (o : CCObj) (t : Bool) (w : WOut) : ordinary (createClusterCIDR s o t w).2.res := by
  unfold createClusterCIDR
  split
  · simp [ordinary]
  · simp only; split <;> simp [ordinary]

theorem procCC_ordinary (s : Sys) (n : String) (w : WOut) : ordinary (procCC s n w).2.res := by
  unfold procCC
  have : ordinary (procCCCore { s with ccQ := qDel s.ccQ n } n w).2.res := by
    unfold procCCCore
    split
    · simp [ordinary]
    · split
      · unfold reconcileDelete
        split
        · split
          · simp [ordinary]
          · simp [ordinary]
          · simp only; split <;> simp [ordinary]
        · simp [ordinary]
      · split
        · exact createClusterCIDR_ordinary _ _ _ _
        · simp [ordinary]
  simp only
  split <;> exact this

/-- every step of the model — whatever the event carries — ends with one of the ordinary results -/
theorem step_result_ordinary (s : Sys) (e : Ev) : ordinary (step s e).2.res := by
  cases e with
  | boot svcs ws => simp [step, boot, ordinary]
  | procNode n r ws => simp only [step]; split; exact procNode_ordinary _ _ _ _; simp [ordinary]
  | procCC n w => simp only [step]; split; exact procCC_ordinary _ _ _; simp [ordinary]
  | nodeAdd n => simp only [step]; split <;> simp [ordinary]
  | nodeDel n => simp only [step]; split <;> simp [ordinary]
  | nodeLabels n l => simp only [step]; split <;> simp [ordinary]
  | nodeDeleting n => simp only [step]; split <;> simp [ordinary]
  | ccAdd n sp => simp only [step]; split <;> simp [ordinary]
  | ccDel n => simp only [step]; split <;> (try split) <;> simp [ordinary]
  | ccGen n g => simp only [step]; split <;> simp [ordinary]
  | ccAddFin n f => simp only [step]; split <;> (try split) <;> simp [ordinary]
  | nodeSetCIDRs n c => simp [step, ordinary]
  | deliverNode n t => simp only [step]; split <;> (try split) <;> simp [ordinary]
  | deliverCC n => simp only [step]; split <;> (try split) <;> simp [ordinary]

example : newGeo ⟨.v4, 0x0a000000, 24⟩ (-1) = none := by decide
example : newGeo ⟨.v6, 0xfd000000000000000000000000000000, 64⟩ 4 = none := by decide
example : buildCC "k" [] "x" ⟨none, 4, .ok ⟨.v6, 0xfd000000000000000000000000000000, 120⟩ "fd00::/120", .empty⟩ false = none := by decide

end Ipam.C12
