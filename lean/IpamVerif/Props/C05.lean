import IpamVerif.AllocLemmas
import IpamVerif.System
import IpamVerif.Props.C11
/-!
# C05 — a node is refused only when no eligible ClusterCIDR has room

* pool level (`allocate_fails_iff`, proved in `AllocLemmas` by an invariant of the loop of
  `allocateCIDR`: after `evaluated` rounds the `evaluated` indices that cyclically follow the initial
  cursor are all unavailable; uses C14's facts about `NextCandidate`): the allocation from a pool fails
  **iff** every block of the pool overlaps a block in use in some pool of the family;
* entry level: an entry is skipped iff one of its families fails in that sense;
* list level: the node is refused iff every entry of the ordered list is skipped;
* a refusal is an error (so the item is retried, C11) and records `CIDRNotAvailable`; otherwise the
  PATCH is attempted in the same item.
-/
namespace Ipam.C05
open Ipam

/-- **pool level** -/
theorem pool_refuses_iff_all_blocked {a : Alloc} {i : Nat} {f : Fam} {c : CC} {p : Pool}
    (hget : a.get? i = some c) (hp : c.pool f = some p) (hok : PoolOK f p) :
    (a.allocate i f).2 = none ↔ ∀ k, k < p.max → a.blocked (goBlock p.geo k) = true :=
  allocate_fails_iff hget hp hok

/-- the block handed out is free of overlap with everything in use -/
theorem pool_serves_free_block {a a' : Alloc} {i : Nat} {f : Fam} {c : CC} {p : Pool} {blk : Cidr}
    (hget : a.get? i = some c) (hp : c.pool f = some p) (hok : PoolOK f p)
    (h : a.allocate i f = (a', some blk)) :
    ∃ k, k < p.max ∧ blk = goBlock p.geo k ∧ a.blocked blk = false :=
  let ⟨k, hk, hb, hnb, _, _⟩ := allocate_ok hget hp hok h
  ⟨k, hk, hb, hnb⟩

/-- **entry level**: an entry is skipped exactly when its IPv4 pool refuses, or (IPv4 served or absent)
its IPv6 pool refuses -/
theorem entry_skipped_iff (a : Alloc) (i : Nat) (c : CC) (hget : a.get? i = some c) :
    (a.tryEntry i).2 = none ↔
      ((c.v4.isSome ∧ (a.allocate i .v4).2 = none) ∨
       (c.v6.isSome ∧ ((c.v4.isNone ∧ (a.allocate i .v6).2 = none) ∨
          (c.v4.isSome ∧ (a.allocate i .v4).2.isSome ∧ ((a.allocate i .v4).1.allocate i .v6).2 = none)))) := by
  unfold Alloc.tryEntry
  simp only [hget]
  cases h4 : c.v4 with
  | none =>
    cases h6 : c.v6 with
    | none => simp
    | some p6 =>
      simp only
      cases ha : a.allocate i .v6 with
      | mk a2 r =>
        cases r with
        | none => simp
        | some b => simp
  | some p4 =>
    simp only
    cases ha : a.allocate i .v4 with
    | mk a1 r =>
      cases r with
      | none => simp
      | some b4 =>
        simp only
        cases h6 : c.v6 with
        | none => simp
        | some p6 =>
          simp only
          cases hb : a1.allocate i .v6 with
          | mk a2 r2 =>
            cases r2 with
            | none => simp
            | some b6 => simp

/-- **list level**: the node is refused iff every entry of the ordered list is skipped (each in the state
left by the attempts before it) -/
theorem refused_iff_all_skipped : ∀ (l : List Nat) (a : Alloc),
    (a.prioritized l).2 = none ↔
      ∀ pre j post, l = pre ++ j :: post → ((pre.foldl (fun s k => (s.tryEntry k).1) a).tryEntry j).2 = none := by
  intro l
  induction l with
  | nil => intro a; simp [Alloc.prioritized]
  | cons j rest ih =>
    intro a
    unfold Alloc.prioritized
    cases ht : a.tryEntry j with
    | mk a1 r =>
      cases r with
      | some cidrs =>
        simp only
        constructor
        · intro h; cases h
        · intro h
          have := h [] j rest rfl
          simp only [List.foldl_nil, ht] at this
          cases this
      | none =>
        simp only
        rw [ih a1]
        constructor
        · intro h pre k post hl
          cases pre with
          | nil =>
            simp only [List.nil_append, List.cons.injEq] at hl
            obtain ⟨rfl, rfl⟩ := hl
            simp only [List.foldl_nil, ht]
          | cons x pre' =>
            simp only [List.cons_append, List.cons.injEq] at hl
            obtain ⟨rfl, hl⟩ := hl
            simp only [List.foldl_cons, ht]
            exact h pre' k post hl
        · intro h pre k post hl
          have := h (j :: pre) k post (by rw [hl]; rfl)
          simpa only [List.foldl_cons, ht] using this

/-- a refusal is reported as an error and as a `CIDRNotAvailable` event, and nothing is written;
otherwise a PATCH of the reserved CIDRs is attempted in the same item (`updateCIDRsAllocation`) -/
theorem refusal_reported (s : Sys) (n : NodeObj) (refresh : Bool) (ws : List WOut) (hn : n.hasCidrs = false) :
    ((s.alloc.prioritized (s.alloc.ordered n.labels true)).2 = none →
        (allocateOrOccupy s n refresh ws).2.res = "err" ∧
        (allocateOrOccupy s n refresh ws).2.events = ["CIDRNotAvailable"] ∧
        (allocateOrOccupy s n refresh ws).2.patches = []) := by
  intro h
  unfold allocateOrOccupy
  rw [if_neg (by simp [hn])]
  cases hp : s.alloc.prioritized (s.alloc.ordered n.labels true) with
  | mk al r =>
    rw [hp] at h
    simp only at h
    subst h
    exact ⟨rfl, rfl, rfl⟩

/-- "so the node is retried": in the program text the error branch of the node worker loop re-queues the
key as a statement of its own — not under a retry budget or an error class — and only the success path
forgets it (regenerated fact, `Props/C11`) -/
theorem refused_node_is_queued_again :
    ("processNextNodeWorkItem", true, true) ∈ Facts.workerLoops := by
  rw [C11.workerLoopsRequeue]; decide

end Ipam.C05
