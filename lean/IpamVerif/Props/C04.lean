import IpamVerif.AllocLemmas
import IpamVerif.System
/-!
# C04 — blocks are withheld only while something in the cluster justifies it

Proved here (the release paths of one work item):
* a block reserved by `allocateCIDR` and given back by `Release` leaves the pool's used set exactly as it
  was (`reserve_then_release_restores`) — the path taken when the other family of a dual-stack
  ClusterCIDR is exhausted (after the repair of `prioritizedCIDRs`), when the node turns out to have pod
  CIDRs already, when the write is rejected, and when the node cannot be read back (after the repair of
  `updateCIDRsAllocation`);
* in each of those branches `updateCIDRsAllocation` does call `releaseAll` on exactly the reserved CIDRs
  of the serving entry, and in the success branch it does not (`failed_write_releases`,
  `node_has_cidrs_releases`, `vanished_node_releases`, `success_keeps`);
* a failing allocation from a pool changes no used set at all, only cursors (`failed_allocation_reserves_nothing`).
PARTIAL: the history invariant "every used block is justified" is false on the pinned code for the known
findings P8 (release routed by the node's current labels), P11 (release from the wrong one of two
overlapping ClusterCIDRs), P17b (partial occupation), P19 (stale tombstone); it is checked on every
history of the correspondence stream by the judge, inside the envelope those findings leave.
-/
namespace Ipam.C04
open Ipam

/-- reserve block `k` (free) and give it back: the used set is what it was, the counter too -/
theorem reserve_then_release_restores {f : Fam} {p p1 : Pool} (hp : PoolOK f p) {k : Nat} (hk : k < p.max)
    (hfree : k ∉ p.used) (h1 : p.occupy (goBlock p.geo k) = some p1) :
    ∃ p2, p1.release (goBlock p.geo k) = some p2 ∧ (∀ j, j ∈ p2.used ↔ j ∈ p.used) ∧ p2.count = p.count ∧ PoolOK f p2 := by
  have hbw := goBlock_WF hp hk
  obtain ⟨hI1, hg1, _, _, hm1⟩ := (C14.occupy_refines hp.2.1 hp.1 hbw).2 p1 h1
  have hp1 : PoolOK f p1 := ⟨hI1, hg1 ▸ hp.2.1, hg1 ▸ hp.2.2⟩
  have hmax1 : p1.max = p.max := by unfold Pool.max; rw [hg1]
  cases h2 : p1.release (goBlock p.geo k) with
  | none =>
    exfalso
    have := (C14.release_refines hp1.2.1 hI1 hbw).1.mp h2
    rw [hg1] at this
    rcases this with h | h
    · exact h rfl
    · have hsub := (C13.block_is_ith_subrange hp.2.1 hk).2.2
      have := (goBlock p.geo k).size_pos
      unfold Cidr.Disjoint at h
      have := hsub.1; have := hsub.2
      omega
  | some p2 =>
    obtain ⟨hI2, hg2, _, _, hm2⟩ := (C14.release_refines hp1.2.1 hI1 hbw).2 p2 h2
    have honly : ∀ j, C14.Touches p (goBlock p.geo k) j ↔ j = k :=
      C14.touches_only_enclosing hp.2.1 hk ⟨Nat.le_refl _, Nat.le_refl _⟩
    have honly1 : ∀ j, C14.Touches p1 (goBlock p.geo k) j ↔ j = k := by
      intro j
      unfold C14.Touches
      rw [hmax1, hg1]
      exact honly j
    have hmem : ∀ j, j ∈ p2.used ↔ j ∈ p.used := by
      intro j
      rw [hm2 j, hm1 j, honly1 j, honly j]
      constructor
      · rintro ⟨h | h, hne⟩
        · exact h
        · exact absurd h hne
      · intro h
        exact ⟨Or.inl h, fun e => hfree (e ▸ h)⟩
    refine ⟨p2, rfl, hmem, ?_, ⟨hI2, hg2 ▸ hp1.2.1, hg2 ▸ hp1.2.2⟩⟩
    -- equal duplicate-free lists up to membership have equal length
    rw [hI2.count_eq, hp.1.count_eq]
    apply Nat.le_antisymm
    · exact hI2.nodup.length_le_of_subset (fun j hj => (hmem j).mp hj)
    · exact hp.1.nodup.length_le_of_subset (fun j hj => (hmem j).mpr hj)

/-- a failing allocation from a pool reserves nothing: only the rotating cursor of that pool moved -/
theorem failed_allocation_reserves_nothing {a a' : Alloc} {i : Nat} {f : Fam} {c : CC} {p : Pool}
    (hget : a.get? i = some c) (hp : c.pool f = some p) (hok : PoolOK f p) (h : a.allocate i f = (a', none)) :
    ∃ x, a' = a.set i (c.setPool f { p with cursor := x }) :=
  let ⟨_, x, hx, _⟩ := (allocate_spec hget hp hok).1 a' h
  ⟨x, hx⟩

/-- the node turns out to have (other) pod CIDRs: the reservation is given back, nothing is written -/
theorem node_has_cidrs_releases (s : Sys) (name : String) (cidrs : List Cidr) (i : Nat) (ws : List WOut) (n2 : NodeObj)
    (hv : getNode s.nodeView name = some n2) (hne : ¬ (!n2.junk && n2.cidrs = cidrs) = true) (hc : n2.hasCidrs = true) :
    (updateCIDRsAllocation s name cidrs i ws).1.alloc = (s.alloc.releaseAll i cidrs).1 ∧
    (updateCIDRsAllocation s name cidrs i ws).2.patches = [] := by
  unfold updateCIDRsAllocation
  rw [hv]
  simp only
  rw [if_neg (by simpa using hne), if_pos hc]
  split <;> (rename_i heq; rw [heq]; exact ⟨rfl, rfl⟩)

/-- the node cannot be read back: the reservation is given back -/
theorem vanished_node_releases (s : Sys) (name : String) (cidrs : List Cidr) (i : Nat) (ws : List WOut)
    (hv : getNode s.nodeView name = none) :
    (updateCIDRsAllocation s name cidrs i ws).1.alloc = (s.alloc.releaseAll i cidrs).1 ∧
    (updateCIDRsAllocation s name cidrs i ws).2.res = "err" := by
  unfold updateCIDRsAllocation
  rw [hv]
  exact ⟨rfl, rfl⟩

/-- all three write attempts failed: the reservation is given back (the code cannot tell an ambiguous
outcome from a clean failure, see P13), the error is returned and an event recorded -/
theorem failed_write_releases (s : Sys) (name : String) (cidrs : List Cidr) (i : Nat) (ws : List WOut) (n2 : NodeObj)
    (hv : getNode s.nodeView name = some n2) (hc : n2.hasCidrs = false) (hcs : cidrs ≠ [])
    (hfail : (patchLoop s.api name cidrs 3 ws []).2.1 = false) :
    (updateCIDRsAllocation s name cidrs i ws).1.alloc = (s.alloc.releaseAll i cidrs).1 ∧
    (updateCIDRsAllocation s name cidrs i ws).2.res = "err" ∧
    (updateCIDRsAllocation s name cidrs i ws).2.events = ["CIDRAssignmentFailed"] := by
  unfold updateCIDRsAllocation
  rw [hv]
  simp only
  have hj : n2.junk = false := by unfold NodeObj.hasCidrs at hc; simp at hc; exact hc.1
  have he : n2.cidrs = [] := by unfold NodeObj.hasCidrs at hc; simp at hc; exact hc.2
  rw [if_neg (by simp [hj, he]; exact fun h => hcs h), if_neg (by simp [hc])]
  cases hp : patchLoop s.api name cidrs 3 ws [] with
  | mk api' r =>
    obtain ⟨okk, ps⟩ := r
    rw [hp] at hfail
    simp only at hfail
    subst hfail
    simp

/-- the write succeeded: the reservation stays and the node is associated with the serving entry -/
theorem success_keeps (s : Sys) (name : String) (cidrs : List Cidr) (i : Nat) (ws : List WOut) (n2 : NodeObj)
    (hv : getNode s.nodeView name = some n2) (hc : n2.hasCidrs = false) (hcs : cidrs ≠ [])
    (hok : (patchLoop s.api name cidrs 3 ws []).2.1 = true) (c : CC) (hget : s.alloc.get? i = some c) :
    (updateCIDRsAllocation s name cidrs i ws).1.alloc = s.alloc.set i (c.addAssoc name) ∧
    (updateCIDRsAllocation s name cidrs i ws).2.res = "ok" := by
  unfold updateCIDRsAllocation
  rw [hv]
  simp only
  have hj : n2.junk = false := by unfold NodeObj.hasCidrs at hc; simp at hc; exact hc.1
  have he : n2.cidrs = [] := by unfold NodeObj.hasCidrs at hc; simp at hc; exact hc.2
  rw [if_neg (by simp [hj, he]; exact fun h => hcs h), if_neg (by simp [hc])]
  cases hp : patchLoop s.api name cidrs 3 ws [] with
  | mk api' r =>
    obtain ⟨okk, ps⟩ := r
    rw [hp] at hok
    simp only at hok
    subst hok
    simp [hget]

end Ipam.C04
