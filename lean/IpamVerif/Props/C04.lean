import IpamVerif.Justified
import IpamVerif.Tight
import IpamVerif.Restart
/-!
# C04 — blocks are withheld only while something in the cluster justifies it

**Proved over whole histories, on the fragment of `Safety.lean`** (`withheld_only_while_justified`, from
`Tight.lean`): at every moment a block in use is a pod CIDR of an existing node, or of a deleted node whose
delete notification is still to come, or meets a service range.  **With restarts at any instant**
(`withheld_only_while_justified_with_restarts`, `after_restart_only_justified`, from `Restart.lean`): the same, and
right after a restart nothing but the listed holders' CIDRs and the service ranges is in use — whatever the crashed
incarnation had reserved or leaked is free.  **Proved with no assumption on the history**
(`Justified.lean`): reserve-then-release restores the pool, a refused or failed attempt reserves nothing, every
release branch of `updateCIDRsAllocation`, what one allocation item may keep.  **Outside the fragment** blocks do
leak on the pinned code: findings P8 P11 P17b P19 P21 (witnesses replayed on every run), and P13 for lost writes.
-/
namespace Ipam.C04
open Ipam

/-- **C04 over whole histories, on the fragment of `Safety.lean`** (ClusterCIDRs with disjoint ranges, no restart, no
node write that is applied but reported as failed, …): at every moment of every such history, a block that is in use
— unavailable for allocation — is a pod CIDR of an existing node, or of a deleted node whose delete notification
has not been delivered yet (it is still in the controller's cache), or it meets a configured service range.  Blocks
of nodes whose deletion has been delivered, and blocks reserved by attempts that did not end in a successful node
update, are free again. -/
theorem withheld_only_while_justified (s : Sys) (hs : Safety.Inv s) (hT : Safety.Tight s) (evs : List Ev)
    (hf : Safety.FragAll s evs) :
    ∀ j cd, Safety.UsedAt (run s evs).alloc j cd →
      (∃ v ∈ (run s evs).api.nodes, cd ∈ v.cidrs) ∨
      (∃ v ∈ (run s evs).api.graves, cd ∈ v.cidrs ∧ ∃ w ∈ (run s evs).nodeView, w.name = v.name) ∨
      (∃ svc ∈ (run s evs).svcs, ¬ cd.Disjoint svc) := by
  intro j cd hu
  have hI := Safety.inv_run evs s hs hf
  rcases Safety.tight_run evs s hs hT hf j cd hu with ⟨x, hcx, v, hvm, hvn, hcd⟩ | hsvc
  · rcases List.mem_append.mp hvm with hvm | hvm
    · exact Or.inl ⟨v, hvm, hcd⟩
    · obtain ⟨w, hw, hwn⟩ := hI.pend j x hcx
      exact Or.inr (Or.inl ⟨v, hvm, hcd, w, hw, hwn.trans hvn.symm⟩)
  · exact Or.inr (Or.inr hsvc)

/-- **C04 on the fragment with restarts** -/
theorem withheld_only_while_justified_with_restarts (s : Sys) (hs : Restart.Inv4 s) (evs : List Ev)
    (hf : Restart.Frag3All s evs) :
    ∀ j cd, Safety.UsedAt (run s evs).alloc j cd →
      (∃ v ∈ (run s evs).api.nodes, cd ∈ v.cidrs) ∨
      (∃ v ∈ (run s evs).api.graves, cd ∈ v.cidrs ∧ ∃ w ∈ (run s evs).nodeView, w.name = v.name) ∨
      (∃ svc ∈ (run s evs).svcs, ¬ cd.Disjoint svc) := by
  intro j cd hu
  have hI := Restart.inv4_run evs s hs hf
  rcases hI.tight j cd hu with ⟨x, hcx, v, hvm, hvn, hcd⟩ | hsvc
  · rcases List.mem_append.mp hvm with hvm | hvm
    · exact Or.inl ⟨v, hvm, hcd⟩
    · obtain ⟨w, hw, hwn⟩ := hI.inv3.inv.pend j x hcx
      exact Or.inr (Or.inl ⟨v, hvm, hcd, w, hw, hwn.trans hvn.symm⟩)
  · exact Or.inr (Or.inr hsvc)

/-- right after a restart: only pod CIDRs of listed nodes and blocks meeting a service range are in use -/
theorem after_restart_only_justified {s : Sys} (h : Restart.Inv3 s) (svcs : List Cidr) (ws : List WOut)
    (hf : Restart.Frag3 s (.boot svcs ws)) :
    ∀ j cd, Safety.UsedAt (boot s svcs ws).1.alloc j cd →
      (∃ v ∈ (boot s svcs ws).1.api.nodes, cd ∈ v.cidrs) ∨ (∃ svc ∈ (boot s svcs ws).1.svcs, ¬ cd.Disjoint svc) := by
  intro j cd hu
  rcases Restart.restart_withholds_only_justified h svcs ws hf j cd hu with ⟨x, hcx, v, hvm, hvn, hcd⟩ | hsvc
  · obtain ⟨v', hv', hvn', _, hvu⟩ := Restart.restart_claims_listed h svcs ws hf j x hcx
    rcases List.mem_append.mp hvm with hvm | hvm
    · exact Or.inl ⟨v, hvm, hcd⟩
    · -- a recorded final state cannot carry the name of a listed node
      have k := (Restart.inv3_step h (.boot svcs ws) hf).inv
      have k' : Safety.Inv (boot s svcs ws).1 := k
      exact absurd (by rw [hvn, hvn']) (k'.gravesFresh v hvm v' hv')
  · exact Or.inr hsvc

/-- the hypotheses of the theorems with restarts are satisfiable -/
example : Restart.Inv4 Restart.exStart3 := ⟨Restart.exStart3_inv3, Safety.tight_init _ (by
  rintro j cd ⟨c, p, k, hg, _⟩
  simp [Alloc.get?, Restart.exStart3, Sys.init] at hg)⟩

end Ipam.C04
