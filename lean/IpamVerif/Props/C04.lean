import IpamVerif.Justified
import IpamVerif.Tight
/-!
# C04 — blocks are withheld only while something in the cluster justifies it

**Proved over whole histories, on the fragment of `Safety.lean`** (`withheld_only_while_justified`, from
`Tight.lean`): at every moment a block in use is a pod CIDR of an existing node, or of a deleted node whose
delete notification is still to come, or meets a service range.  **Proved with no assumption on the history**
(`Justified.lean`): reserve-then-release restores the pool, a refused or failed attempt reserves nothing, every
release branch of `updateCIDRsAllocation`, what one allocation item may keep.  **Outside the fragment** blocks do
leak on the pinned code: findings P8 P11 P17b P19 P21 (witnesses replayed on every run), and P13 for lost writes.
-/
namespace Ipam.C04
open Ipam

/-- **C04 over whole histories, on the fragment of `Safety.lean`** (ClusterCIDRs with disjoint ranges, no restart, no
node write that is applied but reported as failed, …): at every moment of every such history, a block that is in use
— unavailable for allocation — is a pod CIDR of an existing node, or of a deleted node whose delete notification
has not been delivered yet (it is still in the controller's cache), or it meets a configured service range.  Blocks
of nodes whose deletion has been delivered, and blocks reserved by attempts that did not end in a successful node
update, are free again. -/
theorem withheld_only_while_justified (s : Sys) (hs : Safety.Inv s) (hT : Safety.Tight s) (evs : List Ev)
    (hf : Safety.FragAll s evs) :
    ∀ j cd, Safety.UsedAt (run s evs).alloc j cd →
      (∃ v ∈ (run s evs).api.nodes, cd ∈ v.cidrs) ∨
      (∃ v ∈ (run s evs).api.graves, cd ∈ v.cidrs ∧ ∃ w ∈ (run s evs).nodeView, w.name = v.name) ∨
      (∃ svc ∈ (run s evs).svcs, ¬ cd.Disjoint svc) := by
  intro j cd hu
  have hI := Safety.inv_run evs s hs hf
  rcases Safety.tight_run evs s hs hT hf j cd hu with ⟨x, hcx, v, hvm, hvn, hcd⟩ | hsvc
  · rcases List.mem_append.mp hvm with hvm | hvm
    · exact Or.inl ⟨v, hvm, hcd⟩
    · obtain ⟨w, hw, hwn⟩ := hI.pend j x hcx
      exact Or.inr (Or.inl ⟨v, hvm, hcd, w, hw, hwn.trans hvn.symm⟩)
  · exact Or.inr (Or.inr hsvc)

end Ipam.C04
