import IpamVerif.BootBasics
import IpamVerif.Restart
/-!
# C03 — a restart at any instant loses no assignment and resurrects none

**Proved, for every history of the fragment with restarts (`restarts_keep_everything`).**  `Restart.Inv3` — the
invariant of `Safety.lean` (C01) together with a tie between every mapped entry and a ClusterCIDR object from which
it can be rebuilt — holds in the start state, is preserved by every event of the fragment *and by a restart at any
instant* (`Restart.inv_boot`: the pools are rebuilt from the listed objects, every listed node that exists, is not
being deleted and has pod CIDRs is recorded again in exactly one entry, nothing else is recorded).  Consequences,
for unbounded histories with any number of restarts:

* `no_overlap_across_restarts` — no pod CIDR held by an existing node is handed out again, before or after any restart;
* `restart_records_every_holder` — right after a restart every holder is associated with exactly one entry, all its
  pod CIDRs in use there;
* `restart_forgets_unwritten_reservations`, `after_restart_only_justified_blocks_are_used` — whatever the crashed
  incarnation had reserved without writing it is free: every association after the restart belongs to a listed node,
  every block in use is a pod CIDR of such a node or meets a service range;
* `crash_after_node_write` — a node item with *any* write outcomes, also writes applied although the controller saw
  an error (the crash point "between a successful write and recording it"), followed by a restart, ends in a state
  satisfying the invariant.  (Without the restart that outcome is finding P13.)
* crash points are ordinary histories (`crash_points_are_histories`), the new incarnation is a function of the API
  state alone (`boot_memoryless`, `boot_depends_on_api_only`).

The fragment (`Restart.Frag3`) = the fragment of `Safety.lean` plus `boot` at any instant (service ranges as Go
parses them, ClusterCIDR objects with pairwise disjoint ranges), minus three things: a ClusterCIDR is deleted only
once the controller's finalizer is on it or before the controller has seen it (P15 otherwise), its generation is not
bumped (an edited ClusterCIDR is rebuilt as terminating and its holders are not recorded — by design of
`reconcileBootstrap`, judged under the envelope clause `generation-bumped`), and a ClusterCIDR name is re-used only
once the cache has dropped it.

**Found on the way and repaired**: P25 — start-up recorded the pod CIDRs of nodes that were being deleted, although
they are released as soon as the deletion timestamp is seen; see `known-findings.json`.
Outside the fragment the property is false on the pinned code: P10, P12, P23 (witnesses replayed on every run).
-/
namespace Ipam.C03
open Ipam Ipam.Safety Ipam.Restart

/-- **C03 on the fragment**: the invariant survives every event, restarts included -/
theorem restarts_keep_everything (s : Sys) (hs : Inv3 s) (evs : List Ev) (hf : Frag3All s evs) : Inv3 (run s evs) :=
  inv3_run evs s hs hf

/-- no CIDR held by an existing node is handed out again, at any moment of any history with restarts -/
theorem no_overlap_across_restarts (s : Sys) (hs : Inv3 s) (evs : List Ev) (hf : Frag3All s evs) :
    ∀ x ∈ (run s evs).api.nodes, ∀ y ∈ (run s evs).api.nodes, x.name ≠ y.name → x.deleting = false → y.deleting = false →
      ∀ a ∈ x.cidrs, ∀ b ∈ y.cidrs, a.fam = b.fam → a.Disjoint b :=
  Restart.no_overlap_across_restarts s hs evs hf

/-- right after a restart every existing holder is recorded, in exactly one entry -/
theorem restart_records_every_holder {s : Sys} (h : Inv3 s) (svcs : List Cidr) (ws : List WOut) (hf : Frag3 s (.boot svcs ws)) :
    ∀ v ∈ (boot s svcs ws).1.api.nodes, v.deleting = false → v.cidrs ≠ [] →
      ∃ i, Claims (boot s svcs ws).1.alloc v.name i ∧ (∀ cd ∈ v.cidrs, UsedAt (boot s svcs ws).1.alloc i cd) ∧
        ∀ j, Claims (boot s svcs ws).1.alloc v.name j → j = i :=
  Restart.restart_records_every_holder h svcs ws hf

/-- reservations of the crashed incarnation that never reached a node are gone: every association after the
restart belongs to a listed node that exists, is not being deleted, and holds exactly the CIDRs in use for it -/
theorem restart_forgets_unwritten_reservations {s : Sys} (h : Inv3 s) (svcs : List Cidr) (ws : List WOut)
    (hf : Frag3 s (.boot svcs ws)) :
    ∀ i x, Claims (boot s svcs ws).1.alloc x i →
      ∃ v ∈ (boot s svcs ws).1.api.nodes, v.name = x ∧ v.cidrs ≠ [] ∧ ∀ cd ∈ v.cidrs, UsedAt (boot s svcs ws).1.alloc i cd :=
  Restart.restart_claims_listed h svcs ws hf

/-- "blocks that had been reserved but never written are free": right after a restart a block is in use only if it
is a pod CIDR of a node associated with that entry (a listed node, by `restart_forgets_unwritten_reservations`) or
meets a configured service range -/
theorem after_restart_only_justified_blocks_are_used {s : Sys} (h : Inv3 s) (svcs : List Cidr) (ws : List WOut)
    (hf : Frag3 s (.boot svcs ws)) : Tight (boot s svcs ws).1 :=
  Restart.restart_withholds_only_justified h svcs ws hf

/-- crash between a successful node write and recording it -/
theorem crash_after_node_write {s : Sys} (h : Inv3 s) (name : String) (refresh : Bool) (ws : List WOut)
    (svcs : List Cidr) (ws' : List WOut) (hb : Frag3 (step s (.procNode name refresh ws)).1 (.boot svcs ws')) :
    Inv3 (run s [.procNode name refresh ws, .boot svcs ws']) :=
  Restart.crash_after_node_write h name refresh ws svcs ws' hb

/-- the new incarnation is a function of the API state alone (restated from `BootBasics.lean`) -/
theorem new_incarnation_depends_on_api_only (s t : Sys) (h : s.api = t.api) (svcs : List Cidr) (ws : List WOut) :
    boot s svcs ws = boot t svcs ws := boot_depends_on_api_only s t h svcs ws

/-- crash right after / right before an API write = that step with outcome `lost` / `fail`, then a restart -/
theorem crash_points_are_ordinary_histories (s : Sys) (e : Ev) (svcs : List Cidr) (ws : List WOut) :
    run s [e, .boot svcs ws] = (boot (step s e).1 svcs ws).1 := crash_points_are_histories s e svcs ws

/-- start-up order read from the current source: nodes are listed before the allocator is built, informers start
afterwards; inside the constructor: ClusterCIDRs, service ranges, listed nodes, node handlers -/
theorem startup_order_in_source : Facts.startupOrder = ["Nodes.List", "NewMultiCIDRRangeAllocator", "Start", "Start", "Run"] ∧
    Facts.constructorOrder = ["listClusterCIDRs", "reconcileBootstrap", "AddEventHandler:clusterCIDRInformer",
      "filterOutServiceRange", "filterOutServiceRange", "occupyCIDRs", "AddEventHandler:nodeInformer"] := startupOrder

/-- the hypotheses are satisfiable: a start state, and a history of the fragment with three restarts in which a node
lingers in deletion across a restart after its block went to another node (the shape of finding P25) -/
example : Inv3 exStart3 ∧ Frag3All exStart3 exHistory3 := ⟨exStart3_inv3, frag3All_of_B _ _ (by decide +kernel)⟩

end Ipam.C03
