import IpamVerif.Alloc
/-!
# C17 — a ClusterCIDR applies to exactly the nodes its selector describes

`Req.sat` transcribes `Requirement.Matches`, `RawReq.toReq` the repo's operator mapping plus
`labels.NewRequirement`, `flattenTerms` / `selectorOf` the repo's `nodeSelectorAsSelector` /
`nodeSelectorKey`, `matchCIDR` the repo's `matchCIDRLabels` applied to what `labels.Parse` returns
for the printed key (`Req.normalize`: each value list as a sorted set).

PARTIAL: the full statement "different selectors are never confused" is false for the internal
sentinel selector `kubernetes.io/clusterCIDR in (default)` (known finding P14, witness below); the
character-level lexer of `labels.Parse` is library code (trusted base, exercised by the tie).
-/
namespace Ipam.C17
open Ipam

theorem mem_insertStr (s x : String) (l : List String) : x ∈ insertStr s l ↔ x = s ∨ x ∈ l := by
  induction l with
  | nil => simp [insertStr]
  | cons h t ih =>
    unfold insertStr
    split
    · simp
    · simp only [List.mem_cons, ih]
      constructor
      · rintro (h1 | h1 | h1)
        · exact Or.inr (Or.inl h1)
        · exact Or.inl h1
        · exact Or.inr (Or.inr h1)
      · rintro (h1 | h1 | h1)
        · exact Or.inr (Or.inl h1)
        · exact Or.inl h1
        · exact Or.inr (Or.inr h1)

theorem mem_sortStrs (x : String) (l : List String) : x ∈ sortStrs l ↔ x ∈ l := by
  induction l with
  | nil => simp [sortStrs]
  | cons h t ih =>
    unfold sortStrs at ih ⊢
    simp only [List.foldr_cons, mem_insertStr, ih, List.mem_cons]

theorem mem_dedupStrs (x : String) (l : List String) : x ∈ dedupStrs l ↔ x ∈ l := by
  induction l with
  | nil => simp [dedupStrs]
  | cons h t ih =>
    unfold dedupStrs
    split
    · rename_i hc
      rw [ih, List.mem_cons]
      constructor
      · exact Or.inr
      · rintro (rfl | h1)
        · simpa using hc
        · exact h1
    · simp only [List.mem_cons, ih]

theorem contains_iff (l : List String) (v : String) : l.contains v = true ↔ v ∈ l := by
  simp

/-- the value normalisation `labels.Parse` performs (values as a sorted set) does not change which
label sets satisfy a requirement -/
theorem sat_normalize (r : Req) (ls : Labels) : r.normalize.sat ls = r.sat ls := by
  have hm : ∀ v, v ∈ sortStrs (dedupStrs r.vals) ↔ v ∈ r.vals := by
    intro v; rw [mem_sortStrs, mem_dedupStrs]
  cases hop : r.op <;> simp [Req.normalize, Req.sat, hop, hm]

/-- **a ClusterCIDR is considered for a node exactly when every requirement of its (flattened)
selector is satisfied by the node's labels**, and the count it reports is the number satisfied -/
theorem matchCIDR_iff (rs : List Req) (ls : Labels) :
    (matchCIDR rs ls).1 = true ↔ ∀ r ∈ rs, r.sat ls = true := by
  unfold matchCIDR
  simp only [beq_iff_eq]
  rw [List.length_filter_eq_length_iff]
  simp [sat_normalize]

theorem matchCIDR_count (rs : List Req) (ls : Labels) :
    (matchCIDR rs ls).2 = (rs.filter (fun r => r.sat ls)).length := by
  unfold matchCIDR
  simp [sat_normalize]

/-- the six operators, stated outright -/
theorem sat_In (k : String) (vs : List String) (ls : Labels) :
    (⟨k, .In, vs⟩ : Req).sat ls = true ↔ ∃ v, ls.get k = some v ∧ v ∈ vs := by
  simp only [Req.sat]; cases ls.get k <;> simp
theorem sat_NotIn (k : String) (vs : List String) (ls : Labels) :
    (⟨k, .NotIn, vs⟩ : Req).sat ls = true ↔ ∀ v, ls.get k = some v → v ∉ vs := by
  simp only [Req.sat]; cases ls.get k <;> simp
theorem sat_Exists (k : String) (vs : List String) (ls : Labels) :
    (⟨k, .Exists, vs⟩ : Req).sat ls = true ↔ (ls.get k).isSome = true := by
  simp [Req.sat]
theorem sat_DoesNotExist (k : String) (vs : List String) (ls : Labels) :
    (⟨k, .DoesNotExist, vs⟩ : Req).sat ls = true ↔ ls.get k = none := by
  simp [Req.sat]
theorem sat_Gt (k v : String) (ls : Labels) :
    (⟨k, .Gt, [v]⟩ : Req).sat ls = true ↔
      ∃ lv x n, ls.get k = some lv ∧ parseInt64 lv = some n ∧ parseInt64 v = some x ∧ n > x := by
  simp only [Req.sat]
  cases h1 : ls.get k with
  | none => simp
  | some lv =>
    cases h2 : parseInt64 lv with
    | none => simp [h2]
    | some n => cases h3 : parseInt64 v with
      | none => simp [h2, h3]
      | some x => simp [h2, h3]
theorem sat_Lt (k v : String) (ls : Labels) :
    (⟨k, .Lt, [v]⟩ : Req).sat ls = true ↔
      ∃ lv x n, ls.get k = some lv ∧ parseInt64 lv = some n ∧ parseInt64 v = some x ∧ n < x := by
  simp only [Req.sat]
  cases h1 : ls.get k with
  | none => simp
  | some lv =>
    cases h2 : parseInt64 lv with
    | none => simp [h2]
    | some n => cases h3 : parseInt64 v with
      | none => simp [h2, h3]
      | some x => simp [h2, h3]

/-- a ClusterCIDR without selector is filed under the catch-all key and is appended for every node:
it is in the ordered list whatever the labels (unless terminating during an allocation) -/
theorem selectorless_considered_for_every_node (a : Alloc) (ls : Labels) (i : Nat) (c : CC)
    (hc : a.ccs[i]? = some c) (hk : c.key = defaultKey) (ht : c.term = false) (occupy : Bool) :
    i ∈ a.ordered ls occupy := by
  unfold Alloc.ordered
  simp only [List.mem_append, List.mem_map]
  right
  refine ⟨c.item i 0, ?_, rfl⟩
  -- pqSort is a permutation: membership is preserved
  have hperm : ∀ (l : List PQItem) (x : PQItem), x ∈ pqSort l ↔ x ∈ l := by
    intro l x
    have hins : ∀ (y : PQItem) (m : List PQItem), x ∈ pqInsert y m ↔ x = y ∨ x ∈ m := by
      intro y m
      induction m with
      | nil => simp [pqInsert]
      | cons h t ih =>
        unfold pqInsert
        split
        · simp
        · simp only [List.mem_cons, ih]
          constructor
          · rintro (h1 | h1 | h1); exact Or.inr (Or.inl h1); exact Or.inl h1; exact Or.inr (Or.inr h1)
          · rintro (h1 | h1 | h1); exact Or.inr (Or.inl h1); exact Or.inl h1; exact Or.inr (Or.inr h1)
    induction l with
    | nil => simp [pqSort]
    | cons h t ih => unfold pqSort at ih ⊢; simp only [List.foldr_cons, hins, ih, List.mem_cons]
  rw [hperm]
  simp only [List.mem_filterMap]
  refine ⟨(i, c), ?_, ?_⟩
  · unfold Alloc.indexed
    simp only [List.mem_map]
    refine ⟨(c, i), ?_, rfl⟩
    rw [List.mem_zipIdx_iff_getElem?]
    simpa using hc
  · simp [hk, ht]

/-- a selector that cannot be represented is rejected when the ClusterCIDR is created: nothing is
mapped, so allocation for other nodes is not disturbed -/
theorem unrepresentable_rejected (a : Alloc) (name : String) (spec : CCSpec) (t : Bool)
    (h : selectorOf spec.sel = none) : a.createCC name spec t = none := by
  unfold Alloc.createCC; rw [h]

/-- each ClusterCIDR is filed under the key printed from its own requirements -/
theorem filed_under_own_key (a a' : Alloc) (name : String) (spec : CCSpec) (t : Bool) (reqs : List Req)
    (hs : selectorOf spec.sel = some reqs) (h : a.createCC name spec t = some a') :
    ∃ c ∈ a'.ccs, c.name = name ∧ c.key = printSel reqs := by
  unfold Alloc.createCC at h
  rw [hs] at h
  simp only at h
  split at h
  · rename_i hm
    cases h
    unfold Alloc.mapped at hm
    rw [List.any_eq_true] at hm
    obtain ⟨c, hc, hck⟩ := hm
    simp only [Bool.and_eq_true, beq_iff_eq] at hck
    exact ⟨c, hc, hck.2, hck.1⟩
  · cases hb : buildCC (printSel reqs) reqs name spec t with
    | none => rw [hb] at h; cases h
    | some c =>
      rw [hb] at h; cases h
      refine ⟨c, by simp, ?_⟩
      unfold buildCC at hb
      split at hb
      · cases hb
      · split at hb
        · cases hb
        · split at hb
          · cases hb
          · cases hb; exact ⟨rfl, rfl⟩

/-! the full statement is false for the sentinel (P14): a user selector that prints as the sentinel is
filed with the selector-less ClusterCIDRs -/
theorem sentinel_collision :
    selectorOf (some [⟨[⟨"kubernetes.io/clusterCIDR", "In", ["default"], true, true⟩], []⟩]) = selectorOf none := by
  decide

example : printSel (sortByKey [⟨"zone", .In, ["b", "a"]⟩, ⟨"gpu", .DoesNotExist, []⟩, ⟨"rack", .Gt, ["5"]⟩]) =
    "!gpu,rack>5,zone in (a,b)" := by decide
example : (matchCIDR [⟨"zone", .In, ["b", "a"]⟩, ⟨"rack", .Gt, ["5"]⟩] [("zone", "a"), ("rack", "7")]) = (true, 2) := by decide

end Ipam.C17
