import IpamVerif.AllocLemmas
import IpamVerif.System
import IpamVerif.Props.C07
import IpamVerif.NoRewrite
import IpamVerif.Props.C17
/-!
# C02 — every assignment is a well-formed block of one eligible ClusterCIDR
-/
namespace Ipam.C02
open Ipam

/-- what an entry hands out: exactly one block per pool it has, IPv4 first, each a block of that pool -/
def EntryBlocks (c : CC) (cidrs : List Cidr) : Prop :=
  match c.v4, c.v6 with
  | some p4, some p6 => ∃ k4 k6, k4 < p4.max ∧ k6 < p6.max ∧ cidrs = [goBlock p4.geo k4, goBlock p6.geo k6]
  | some p4, none => ∃ k4, k4 < p4.max ∧ cidrs = [goBlock p4.geo k4]
  | none, some p6 => ∃ k6, k6 < p6.max ∧ cidrs = [goBlock p6.geo k6]
  | none, none => cidrs = []

/-- **one CIDR per family configured in the serving entry, IPv4 first, never only part of them, each one
a block of that entry's pool** (`prioritizedCIDRs`, loop body) -/
theorem entry_serves_whole_blocks (a a' : Alloc) (i : Nat) (c : CC) (cidrs : List Cidr)
    (hget : a.get? i = some c) (hwf : c.WF) (h : a.tryEntry i = (a', some cidrs)) : EntryBlocks c cidrs := by
  unfold Alloc.tryEntry at h
  simp only [hget] at h
  unfold EntryBlocks
  cases h4 : c.v4 with
  | none =>
    rw [h4] at h
    cases h6 : c.v6 with
    | none => rw [h6] at h; simp only [Prod.mk.injEq, Option.some.injEq] at h; exact h.2.symm
    | some p6 =>
      rw [h6] at h
      simp only at h
      cases ha : a.allocate i .v6 with
      | mk a2 r =>
        rw [ha] at h
        cases r with
        | none => simp at h
        | some b6 =>
          simp only [Prod.mk.injEq, Option.some.injEq] at h
          obtain ⟨k, hk, hb, _⟩ := allocate_ok hget (f := .v6) (by simp [CC.pool, h6]) (hwf .v6 p6 (by simp [CC.pool, h6])) ha
          exact ⟨k, hk, by rw [← h.2, hb]; rfl⟩
  | some p4 =>
    rw [h4] at h
    simp only at h
    cases ha : a.allocate i .v4 with
    | mk a1 r =>
      rw [ha] at h
      cases r with
      | none => simp at h
      | some b4 =>
        simp only at h
        have hok4 := hwf .v4 p4 (by simp [CC.pool, h4])
        obtain ⟨k4, hk4, hb4, _⟩ := allocate_ok hget (f := .v4) (by simp [CC.pool, h4]) hok4 ha
        cases h6 : c.v6 with
        | none =>
          rw [h6] at h
          simp only [Prod.mk.injEq, Option.some.injEq] at h
          exact ⟨k4, hk4, by rw [← h.2, hb4]⟩
        | some p6 =>
          rw [h6] at h
          simp only at h
          cases hb : a1.allocate i .v6 with
          | mk a2 r2 =>
            rw [hb] at h
            cases r2 with
            | none => simp at h
            | some b6 =>
              simp only [Prod.mk.injEq, Option.some.injEq] at h
              -- entry `i` of the intermediate state still has the same IPv6 pool
              obtain ⟨_, x, p4', _, _, _, _, _, _, ha1⟩ := (allocate_spec hget (f := .v4) (by simp [CC.pool, h4]) hok4).2 a1 b4 ha
              have hget1 : a1.get? i = some (c.setPool .v4 p4') := by rw [ha1]; exact Alloc.get?_set_self _ _ _ _ hget
              have hp6 : (c.setPool .v4 p4').pool .v6 = some p6 := by
                rw [CC.pool_setPool_other _ _ _ _ (by decide)]; simp [CC.pool, h6]
              obtain ⟨k6, hk6, hb6, _⟩ := allocate_ok hget1 hp6 (hwf .v6 p6 (by simp [CC.pool, h6])) hb
              exact ⟨k4, k6, hk4, hk6, by rw [← h.2, hb4, hb6]; rfl⟩

/-- a block of a pool lies inside the pool's range, has the pool's node mask as prefix length and is
aligned to its size (C13) -/
theorem block_shape {f : Fam} {p : Pool} (hp : PoolOK f p) {k : Nat} (hk : k < p.max) :
    (goBlock p.geo k).fam = f ∧ (goBlock p.geo k).len = p.geo.n ∧ (goBlock p.geo k).Sub p.geo.range ∧ (goBlock p.geo k).WF := by
  have := C13.block_is_ith_subrange hp.2.1 hk
  exact ⟨hp.2.2, rfl, this.2.2, this.2.1⟩

/-- the node mask of a pool built from a spec is the address width minus `perNodeHostBits`, and its range
is the spec's range -/
theorem built_pool_geometry {fld : RangeField} {want : Fam} {hb : Int} {p : Pool}
    (h : buildPool fld want hb = some (some p)) :
    ∃ c label, fld = .ok c label ∧ c.fam = want ∧ p.geo.range = c ∧ (p.geo.n : Int) = (c.W : Int) - hb ∧ p.label = label ∧ p.used = [] := by
  unfold buildPool at h
  split at h
  · cases h
  · cases h
  · rename_i c label
    split at h
    · cases h
    · rename_i hf
      cases hg : newGeo c hb with
      | none => rw [hg] at h; cases h
      | some g =>
        rw [hg] at h
        simp only [Option.some.injEq] at h
        subst h
        unfold newGeo at hg
        simp only at hg
        split at hg
        · cases hg
        · split at hg
          · cases hg
          · rename_i h1 h2
            cases hg
            refine ⟨c, label, rfl, by simpa using hf, rfl, ?_, rfl, rfl⟩
            simp only [Pool.new]
            omega

/-- membership in the list an allocation walks: mapped, not terminating, selector satisfied or absent -/
theorem ordered_mem_eligible (a : Alloc) (ls : Labels) (i : Nat) (h : i ∈ a.ordered ls true) :
    ∃ c, a.get? i = some c ∧ c.term = false ∧ ((∀ r ∈ c.reqs, r.sat ls = true) ∨ c.key = defaultKey) := by
  unfold Alloc.ordered at h
  have hperm : ∀ (l : List PQItem) (x : PQItem), x ∈ pqSort l → x ∈ l :=
    fun l x hx => (C07.pqSort_perm l).mem_iff.mp hx
  have idx_ok : ∀ (j : Nat) (d : CC), (j, d) ∈ a.indexed → a.get? j = some d := by
    intro j d hjd
    unfold Alloc.indexed at hjd
    obtain ⟨⟨d', j'⟩, hm, he⟩ := List.mem_map.mp hjd
    simp only [Prod.mk.injEq] at he
    obtain ⟨rfl, rfl⟩ := he
    rw [List.mem_zipIdx_iff_getElem?] at hm
    simpa [Alloc.get?] using hm
  rcases List.mem_append.mp h with h | h
  · obtain ⟨x, hx, rfl⟩ := List.mem_map.mp h
    obtain ⟨⟨j, e⟩, hje, hsome⟩ := List.mem_filterMap.mp (hperm _ _ hx)
    simp only at hsome
    split at hsome
    · rename_i hcond
      cases hsome
      simp only [Bool.and_eq_true, Bool.not_true, Bool.false_or, Bool.not_eq_true'] at hcond
      exact ⟨e, idx_ok j e hje, hcond.2, Or.inl ((C17.matchCIDR_iff _ _).mp hcond.1)⟩
    · cases hsome
  · obtain ⟨x, hx, rfl⟩ := List.mem_map.mp h
    obtain ⟨⟨j, e⟩, hje, hsome⟩ := List.mem_filterMap.mp (hperm _ _ hx)
    simp only at hsome
    split at hsome
    · rename_i hcond
      cases hsome
      simp only [Bool.and_eq_true, Bool.not_true, Bool.false_or, Bool.not_eq_true', beq_iff_eq] at hcond
      exact ⟨e, idx_ok j e hje, hcond.2, Or.inr hcond.1⟩
    · cases hsome

/-- every PATCH of a node item carries the CIDRs `prioritizedCIDRs` reserved from one entry of the
ordered list computed from the node the item read -/
theorem patch_comes_from_one_entry (s : Sys) (n : NodeObj) (refresh : Bool) (ws : List WOut)
    (h : (allocateOrOccupy s n refresh ws).2.patches ≠ []) :
    ∃ al cidrs i, s.alloc.prioritized (s.alloc.ordered n.labels true) = (al, some (cidrs, i)) ∧
      ∀ p ∈ (allocateOrOccupy s n refresh ws).2.patches, p.1 = n.name ∧ p.2.1 = cidrs := by
  unfold allocateOrOccupy at h ⊢
  split at h
  · split at h <;> exact absurd rfl h
  · rename_i hn
    rw [if_neg hn]
    cases hp : s.alloc.prioritized (s.alloc.ordered n.labels true) with
    | mk al r =>
      rw [hp] at h
      cases r with
      | none => exact absurd rfl h
      | some ci =>
        obtain ⟨cidrs, i⟩ := ci
        simp only at h ⊢
        split at h
        · exact absurd rfl h
        · rename_i hne
          rw [if_neg hne]
          refine ⟨al, cidrs, i, rfl, ?_⟩
          split
          · split
            · exact fun p hp' => C08.patches_are_for_the_node _ _ _ _ _ p hp'
            · exact fun p hp' => C08.patches_are_for_the_node _ _ _ _ _ p hp'
          · exact fun p hp' => C08.patches_are_for_the_node _ _ _ _ _ p hp'

example : EntryBlocks ⟨"k", [], "a", some (Pool.new ⟨.v4, 0x0a000000, 24, 28⟩ "10.0.0.0/24"), none, [], false⟩
    [goBlock ⟨.v4, 0x0a000000, 24, 28⟩ 3] := ⟨3, by decide, rfl⟩

end Ipam.C02
