import IpamVerif.System
import IpamVerif.Facts
/-!
# C20 — objects read from the informer caches are never modified in place

In the model the caches are the fields `nodeView` / `ccView` of `Sys`; every
controller step returns the new system state explicitly.  The theorems state
that no work item changes a cached object: the views after the step are the
views before it, except for the one entry the environment itself refreshes
(`refresh = true`, the informer catching up in the middle of an item).
PARTIAL BY NATURE: in a pure functional model an object cannot be aliased and
mutated by accident, so these theorems only say that the *transcription* never
writes a view; in-place mutation of the real cache is decided by the tie (deep
comparison of every cached object with what the API server last sent, after
every step) and by the DeepCopy facts of the regenerated fact table.
-/
namespace Ipam.C20
open Ipam

theorem updateCIDRsAllocation_views (s : Sys) (name : String) (cidrs : List Cidr) (i : Nat) (ws : List WOut) :
    (updateCIDRsAllocation s name cidrs i ws).1.nodeView = s.nodeView ∧
    (updateCIDRsAllocation s name cidrs i ws).1.ccView = s.ccView := by
  unfold updateCIDRsAllocation
  split
  · exact ⟨rfl, rfl⟩
  · split
    · exact ⟨rfl, rfl⟩
    · split
      · split <;> exact ⟨rfl, rfl⟩
      · simp only
        split <;> exact ⟨rfl, rfl⟩

theorem allocateOrOccupy_views (s : Sys) (n : NodeObj) (ws : List WOut) :
    (allocateOrOccupy s n false ws).1.nodeView = s.nodeView ∧ (allocateOrOccupy s n false ws).1.ccView = s.ccView := by
  unfold allocateOrOccupy
  split
  · split <;> exact ⟨rfl, rfl⟩
  · split
    · exact ⟨rfl, rfl⟩
    · split
      · exact ⟨rfl, rfl⟩
      · exact updateCIDRsAllocation_views _ _ _ _ _

theorem procNodeCore_views (s : Sys) (name : String) (ws : List WOut) :
    (procNodeCore s name false ws).1.nodeView = s.nodeView ∧ (procNodeCore s name false ws).1.ccView = s.ccView := by
  unfold procNodeCore
  split
  · exact ⟨rfl, rfl⟩
  · split
    · split <;> exact ⟨rfl, rfl⟩
    · exact allocateOrOccupy_views _ _ _

/-- a node work item without a concurrent cache refresh leaves both caches exactly as they were -/
theorem procNode_views (s : Sys) (name : String) (ws : List WOut) :
    (procNode s name false ws).1.nodeView = s.nodeView ∧ (procNode s name false ws).1.ccView = s.ccView := by
  unfold procNode
  have := procNodeCore_views { s with nodeQ := qDel s.nodeQ name } name ws
  simp only
  split <;> exact this

theorem procCCCore_views (s : Sys) (name : String) (w : WOut) :
    (procCCCore s name w).1.nodeView = s.nodeView ∧ (procCCCore s name w).1.ccView = s.ccView := by
  unfold procCCCore
  split
  · exact ⟨rfl, rfl⟩
  · split
    · unfold reconcileDelete
      split
      · split <;> exact ⟨rfl, rfl⟩
      · exact ⟨rfl, rfl⟩
    · split
      · unfold createClusterCIDR
        split <;> exact ⟨rfl, rfl⟩
      · exact ⟨rfl, rfl⟩

/-- a ClusterCIDR work item leaves both caches exactly as they were (the objects it sends are built
from the cached one, never written back into it) -/
theorem procCC_views (s : Sys) (name : String) (w : WOut) :
    (procCC s name w).1.nodeView = s.nodeView ∧ (procCC s name w).1.ccView = s.ccView := by
  unfold procCC
  have := procCCCore_views { s with ccQ := qDel s.ccQ name } name w
  simp only
  split <;> exact this

/-- the only events that change a cache are the environment's: a delivery, a restart (the new incarnation's
informers list everything), and the refresh of one node's entry in the middle of its own item -/
theorem step_views_only_by_environment (s : Sys) (e : Ev)
    (he : match e with
      | .deliverNode .. | .deliverCC .. | .boot .. => False
      | .procNode _ refresh _ => refresh = false
      | _ => True) :
    (step s e).1.nodeView = s.nodeView ∧ (step s e).1.ccView = s.ccView := by
  cases e with
  | boot svcs ws => exact absurd he id
  | deliverNode n t => exact absurd he id
  | deliverCC n => exact absurd he id
  | procNode n r ws =>
    simp only at he
    subst he
    simp only [step]
    split
    · exact procNode_views s n ws
    · exact ⟨rfl, rfl⟩
  | procCC n w =>
    simp only [step]
    split
    · exact procCC_views s n w
    · exact ⟨rfl, rfl⟩
  | nodeAdd n => simp only [step]; split <;> exact ⟨rfl, rfl⟩
  | nodeDel n => simp only [step]; split <;> exact ⟨rfl, rfl⟩
  | nodeLabels n l => simp only [step]; split <;> exact ⟨rfl, rfl⟩
  | nodeDeleting n => simp only [step]; split <;> exact ⟨rfl, rfl⟩
  | ccAdd n sp => simp only [step]; split <;> exact ⟨rfl, rfl⟩
  | ccDel n => simp only [step]; split <;> (try split) <;> exact ⟨rfl, rfl⟩
  | ccGen n g => simp only [step]; split <;> exact ⟨rfl, rfl⟩
  | ccAddFin n f => simp only [step]; split <;> (try split) <;> exact ⟨rfl, rfl⟩
  | nodeSetCIDRs n c => simp [step]

/-- the objects sent to the API server by the ClusterCIDR write paths are DeepCopies (C20) -/
theorem writesUseCopies : Facts.deepCopyWrites.all (fun (_, w, c) => w == c && w > 0) = true := by decide


end Ipam.C20
