import IpamVerif.System
import IpamVerif.OnePer
import IpamVerif.Restart
/-!
# C10 — handling the same ClusterCIDR again has no additional effect
-/
namespace Ipam.C10
open Ipam

/-- number of entries filed for an object (its key and name) -/
def entriesFor (a : Alloc) (key name : String) : Nat := (a.ccs.filter (fun c => c.key == key && c.name == name)).length

theorem mapped_iff (a : Alloc) (key name : String) : a.mapped key name = true ↔ entriesFor a key name ≥ 1 := by
  unfold Alloc.mapped entriesFor
  rw [List.any_eq_true]
  constructor
  · rintro ⟨c, hc, hk⟩
    exact List.length_pos_of_mem (List.mem_filter.mpr ⟨hc, hk⟩)
  · intro h
    have : 0 < (a.ccs.filter (fun c => c.key == key && c.name == name)).length := h
    obtain ⟨c, hc⟩ := List.exists_mem_of_length_pos this
    exact ⟨c, (List.mem_filter.mp hc).1, (List.mem_filter.mp hc).2⟩

theorem buildCC_key_name {key : String} {reqs : List Req} {name : String} {spec : CCSpec} {t : Bool} {c : CC}
    (h : buildCC key reqs name spec t = some c) : c.key = key ∧ c.name = name ∧ c.assoc = [] ∧ c.term = t := by
  unfold buildCC at h
  split at h
  · cases h
  · split at h
    · cases h
    · split at h
      · cases h
      · cases h; exact ⟨rfl, rfl, rfl, rfl⟩

/-- **the in-memory part of handling a ClusterCIDR is idempotent**: mapping it again — after a failed
write, a duplicate or stale notification, or after start-up picked it up — changes nothing -/
theorem createCC_idempotent (a a' : Alloc) (name : String) (spec : CCSpec) (t t' : Bool)
    (h : a.createCC name spec t = some a') : a'.createCC name spec t' = some a' := by
  unfold Alloc.createCC at h ⊢
  cases hs : selectorOf spec.sel with
  | none => rw [hs] at h; cases h
  | some reqs =>
    rw [hs] at h
    simp only at h ⊢
    split at h
    · cases h; rename_i hm; rw [if_pos hm]
    · cases hb : buildCC (printSel reqs) reqs name spec t with
      | none => rw [hb] at h; cases h
      | some c =>
        rw [hb] at h; cases h
        have ⟨hk, hn, _, _⟩ := buildCC_key_name hb
        have : (Alloc.mk (a.ccs ++ [c])).mapped (printSel reqs) name = true := by
          unfold Alloc.mapped; simp [hk, hn]
        rw [if_pos this]

/-- **one pool set per object**: after any number of (re-)mappings an object that had at most one entry
has exactly one -/
theorem createCC_one_entry (a a' : Alloc) (name : String) (spec : CCSpec) (t : Bool) (reqs : List Req)
    (hs : selectorOf spec.sel = some reqs) (hle : entriesFor a (printSel reqs) name ≤ 1)
    (h : a.createCC name spec t = some a') : entriesFor a' (printSel reqs) name = 1 := by
  unfold Alloc.createCC at h
  rw [hs] at h
  simp only at h
  split at h
  · cases h
    rename_i hm
    have := (mapped_iff a _ _).mp hm
    omega
  · rename_i hm
    cases hb : buildCC (printSel reqs) reqs name spec t with
    | none => rw [hb] at h; cases h
    | some c =>
      rw [hb] at h; cases h
      have ⟨hk, hn, _, _⟩ := buildCC_key_name hb
      have h0 : entriesFor a (printSel reqs) name = 0 := by
        have := mt (mapped_iff a (printSel reqs) name).mpr hm
        omega
      unfold entriesFor at h0 ⊢
      simp [List.filter_append, hk, hn, h0]

/-- a mapping attempt does not touch the entries of other objects -/
theorem createCC_others_untouched (a a' : Alloc) (name : String) (spec : CCSpec) (t : Bool)
    (h : a.createCC name spec t = some a') (key' name' : String) (hne : name' ≠ name) :
    entriesFor a' key' name' = entriesFor a key' name' := by
  unfold Alloc.createCC at h
  cases hs : selectorOf spec.sel with
  | none => rw [hs] at h; cases h
  | some reqs =>
    rw [hs] at h
    simp only at h
    split at h
    · cases h; rfl
    · cases hb : buildCC (printSel reqs) reqs name spec t with
      | none => rw [hb] at h; cases h
      | some c =>
        rw [hb] at h; cases h
        have ⟨_, hn, _, _⟩ := buildCC_key_name hb
        unfold entriesFor
        simp [List.filter_append, hn, Ne.symm hne]

/-- a ClusterCIDR that already carries the controller's finalizer and is not being deleted is left alone:
no memory change, no write (duplicate and stale notifications, periodic resyncs) -/
theorem settled_object_is_noop (s : Sys) (name : String) (w : WOut) (o : CCObj)
    (hv : getCC s.ccView name = some o) (hd : o.deleting = false) (hf : hasFin o = true) :
    procCCCore s name w = (s, { res := "ok" }) := by
  unfold procCCCore
  rw [hv]
  simp only [hd, Bool.false_eq_true, if_false]
  have : needFin o = false := by unfold needFin; simp [hf]
  rw [if_neg (by simp [this])]

/-- once deletion has completed (the entry was removed) the object contributes no pool -/
theorem delFirst_removed_count (key name : String) : ∀ (l l' : List CC),
    delFirst key name l = (l', .removed) →
    (l'.filter (fun c => c.key == key && c.name == name)).length + 1 = (l.filter (fun c => c.key == key && c.name == name)).length := by
  intro l
  induction l with
  | nil => intro l' h; simp [delFirst] at h
  | cons c t ih =>
    intro l' h
    unfold delFirst at h
    split at h
    · rename_i hm
      split at h
      · simp at h
      · simp only [Prod.mk.injEq] at h
        obtain ⟨rfl, _⟩ := h
        simp [List.filter_cons, hm]
    · rename_i hm
      cases hd : delFirst key name t with
      | mk t' r =>
        rw [hd] at h
        simp only [Prod.mk.injEq] at h
        obtain ⟨rfl, rfl⟩ := h
        have := ih t' hd
        simp only [List.filter_cons, hm, Bool.false_eq_true, if_false]
        exact this

example : (Alloc.mk []).createCC "a" ⟨none, 4, .ok ⟨.v4, 0x0a000000, 24⟩ "10.0.0.0/24", .empty⟩ false ≠ none := by decide

/-- the count of entries filed for an object is the multiplicity of its (key, name) pair -/
theorem entriesFor_eq_count (a : Alloc) (key name : String) : entriesFor a key name = (OnePer.KN a).count (key, name) := by
  unfold entriesFor OnePer.KN
  induction a.ccs with
  | nil => rfl
  | cons c t ih =>
    simp only [List.filter_cons, List.map_cons, List.count_cons]
    by_cases h : (c.key == key && c.name == name) = true
    · have hk : OnePer.kn c = (key, name) := by
        simp only [Bool.and_eq_true, beq_iff_eq] at h
        unfold OnePer.kn; rw [h.1, h.2]
      simp [h, hk, ih]
    · have hk : ¬ OnePer.kn c = (key, name) := by
        intro he
        unfold OnePer.kn at he
        simp only [Prod.mk.injEq] at he
        exact h (by simp [he.1, he.2])
      simp [h, hk, ih]

/-- **C10 over whole histories, with no assumption**: whatever happens — the same ClusterCIDR processed again after
a failed write, duplicate or stale notifications, a restart picking it up again, deletions and re-creations — an
object (selector key, name) is never mapped more than once: it contributes at most one pool per family. -/
theorem one_entry_per_object_always (s : Sys) (hs : ∀ key name, entriesFor s.alloc key name ≤ 1) (evs : List Ev) :
    ∀ key name, entriesFor (run s evs).alloc key name ≤ 1 := by
  have h0 : OnePer.NoDupKN s.alloc := by
    unfold OnePer.NoDupKN
    rw [List.nodup_iff_count]
    intro x
    rw [← entriesFor_eq_count]; exact hs x.1 x.2
  have := OnePer.nodup_run evs s h0
  intro key name
  rw [entriesFor_eq_count]
  exact List.nodup_iff_count.mp this (key, name)

/-- in particular from the empty controller, through any number of restarts -/
theorem one_entry_per_object_from_start (evs : List Ev) : ∀ key name, entriesFor (run Sys.init evs).alloc key name ≤ 1 :=
  one_entry_per_object_always Sys.init (fun _ _ => by simp [entriesFor, Sys.init]) evs

/-! ### "…and none once it is deleted", on the fragment with restarts -/

/-- **a pool exists only for an object that exists**: in every state a history of the fragment with restarts
(`Restart.Frag3`: in particular no ClusterCIDR is deleted before the controller's finalizer is on it — finding P15)
can reach, every mapped entry carries the name of a ClusterCIDR object the API still holds, and has the shape of the
entry built from that object.  So a ClusterCIDR whose deletion completed contributes no pool. -/
theorem pool_only_while_object_exists (s0 : Sys) (h0 : Restart.Inv3 s0) (evs : List Ev) (hf : Restart.Frag3All s0 evs) :
    ∀ c ∈ (run s0 evs).alloc.ccs, ∃ o c0, getCC (run s0 evs).api.ccs c.name = some o ∧
      Restart.builtFrom o = some c0 ∧ Shape.sh c = Shape.sh c0 := by
  intro c hc
  obtain ⟨o, c0, h1, h2, h3⟩ := (Restart.inv3_run evs s0 h0 hf).cci.ent (Shape.sh c) (Restart.mem_SH.mpr ⟨c, hc, rfl⟩)
  exact ⟨o, c0, h1, h2, h3⟩

/-- ... and exactly one at most *per name* (not only per selector key and name): two entries with one name are built
from the same object, hence filed under the same key, hence the same entry -/
theorem at_most_one_entry_per_name (s0 : Sys) (h0 : Restart.Inv3 s0) (evs : List Ev) (hf : Restart.Frag3All s0 evs) :
    ∀ i j c d, (run s0 evs).alloc.get? i = some c → (run s0 evs).alloc.get? j = some d → c.name = d.name → i = j := by
  intro i j c d hi hj hn
  have hI := Restart.inv3_run evs s0 h0 hf
  obtain ⟨o1, c1, a1, b1, e1⟩ := hI.cci.ent (Shape.sh c) (Restart.mem_SH.mpr ⟨c, List.mem_of_getElem? hi, rfl⟩)
  obtain ⟨o2, c2, a2, b2, e2⟩ := hI.cci.ent (Shape.sh d) (Restart.mem_SH.mpr ⟨d, List.mem_of_getElem? hj, rfl⟩)
  rw [Restart.shName_sh] at a1 a2
  rw [hn, a2] at a1; cases a1
  rw [b2] at b1; cases b1
  have hk : OnePer.kn c = OnePer.kn d := by
    obtain ⟨k1, n1, _⟩ := Restart.kn_of_sh e1
    obtain ⟨k2, n2, _⟩ := Restart.kn_of_sh e2
    unfold OnePer.kn; rw [k1, k2, n1, n2]
  -- one entry per (key, name)
  have hnd : (OnePer.KN (run s0 evs).alloc).Nodup := hI.one
  unfold OnePer.KN at hnd
  unfold Alloc.get? at hi hj
  have hil := (List.getElem?_eq_some_iff.mp hi).1
  have hjl := (List.getElem?_eq_some_iff.mp hj).1
  have h1 : ((run s0 evs).alloc.ccs.map OnePer.kn)[i]? = some (OnePer.kn c) := by rw [List.getElem?_map, hi]; rfl
  have h2 : ((run s0 evs).alloc.ccs.map OnePer.kn)[j]? = some (OnePer.kn d) := by rw [List.getElem?_map, hj]; rfl
  rw [← hk] at h2
  exact (List.getElem?_inj (by simpa using hil) hnd).mp (h1.trans h2.symm)

end Ipam.C10
