import IpamVerif.System
/-!
# C10 — handling the same ClusterCIDR again has no additional effect
-/
namespace Ipam.C10
open Ipam

/-- number of entries filed for an object (its key and name) -/
def entriesFor (a : Alloc) (key name : String) : Nat := (a.ccs.filter (fun c => c.key == key && c.name == name)).length

theorem mapped_iff (a : Alloc) (key name : String) : a.mapped key name = true ↔ entriesFor a key name ≥ 1 := by
  unfold Alloc.mapped entriesFor
  rw [List.any_eq_true]
  constructor
  · rintro ⟨c, hc, hk⟩
    exact List.length_pos_of_mem (List.mem_filter.mpr ⟨hc, hk⟩)
  · intro h
    have : 0 < (a.ccs.filter (fun c => c.key == key && c.name == name)).length := h
    obtain ⟨c, hc⟩ := List.exists_mem_of_length_pos this
    exact ⟨c, (List.mem_filter.mp hc).1, (List.mem_filter.mp hc).2⟩

theorem buildCC_key_name {key : String} {reqs : List Req} {name : String} {spec : CCSpec} {t : Bool} {c : CC}
    (h : buildCC key reqs name spec t = some c) : c.key = key ∧ c.name = name ∧ c.assoc = [] ∧ c.term = t := by
  unfold buildCC at h
  split at h
  · cases h
  · split at h
    · cases h
    · split at h
      · cases h
      · cases h; exact ⟨rfl, rfl, rfl, rfl⟩

/-- **the in-memory part of handling a ClusterCIDR is idempotent**: mapping it again — after a failed
write, a duplicate or stale notification, or after start-up picked it up — changes nothing -/
theorem createCC_idempotent (a a' : Alloc) (name : String) (spec : CCSpec) (t t' : Bool)
    (h : a.createCC name spec t = some a') : a'.createCC name spec t' = some a' := by
  unfold Alloc.createCC at h ⊢
  cases hs : selectorOf spec.sel with
  | none => rw [hs] at h; cases h
  | some reqs =>
    rw [hs] at h
    simp only at h ⊢
    split at h
    · cases h; rename_i hm; rw [if_pos hm]
    · cases hb : buildCC (printSel reqs) reqs name spec t with
      | none => rw [hb] at h; cases h
      | some c =>
        rw [hb] at h; cases h
        have ⟨hk, hn, _, _⟩ := buildCC_key_name hb
        have : (Alloc.mk (a.ccs ++ [c])).mapped (printSel reqs) name = true := by
          unfold Alloc.mapped; simp [hk, hn]
        rw [if_pos this]

/-- **one pool set per object**: after any number of (re-)mappings an object that had at most one entry
has exactly one -/
theorem createCC_one_entry (a a' : Alloc) (name : String) (spec : CCSpec) (t : Bool) (reqs : List Req)
    (hs : selectorOf spec.sel = some reqs) (hle : entriesFor a (printSel reqs) name ≤ 1)
    (h : a.createCC name spec t = some a') : entriesFor a' (printSel reqs) name = 1 := by
  unfold Alloc.createCC at h
  rw [hs] at h
  simp only at h
  split at h
  · cases h
    rename_i hm
    have := (mapped_iff a _ _).mp hm
    omega
  · rename_i hm
    cases hb : buildCC (printSel reqs) reqs name spec t with
    | none => rw [hb] at h; cases h
    | some c =>
      rw [hb] at h; cases h
      have ⟨hk, hn, _, _⟩ := buildCC_key_name hb
      have h0 : entriesFor a (printSel reqs) name = 0 := by
        have := mt (mapped_iff a (printSel reqs) name).mpr hm
        omega
      unfold entriesFor at h0 ⊢
      simp [List.filter_append, hk, hn, h0]

/-- a mapping attempt does not touch the entries of other objects -/
theorem createCC_others_untouched (a a' : Alloc) (name : String) (spec : CCSpec) (t : Bool)
    (h : a.createCC name spec t = some a') (key' name' : String) (hne : name' ≠ name) :
    entriesFor a' key' name' = entriesFor a key' name' := by
  unfold Alloc.createCC at h
  cases hs : selectorOf spec.sel with
  | none => rw [hs] at h; cases h
  | some reqs =>
    rw [hs] at h
    simp only at h
    split at h
    · cases h; rfl
    · cases hb : buildCC (printSel reqs) reqs name spec t with
      | none => rw [hb] at h; cases h
      | some c =>
        rw [hb] at h; cases h
        have ⟨_, hn, _, _⟩ := buildCC_key_name hb
        unfold entriesFor
        simp [List.filter_append, hn, Ne.symm hne]

/-- a ClusterCIDR that already carries the controller's finalizer and is not being deleted is left alone:
no memory change, no write (duplicate and stale notifications, periodic resyncs) -/
theorem settled_object_is_noop (s : Sys) (name : String) (w : WOut) (o : CCObj)
    (hv : getCC s.ccView name = some o) (hd : o.deleting = false) (hf : hasFin o = true) :
    procCCCore s name w = (s, { res := "ok" }) := by
  unfold procCCCore
  rw [hv]
  simp only [hd, Bool.false_eq_true, if_false]
  have : needFin o = false := by unfold needFin; simp [hf]
  rw [if_neg (by simp [this])]

/-- once deletion has completed (the entry was removed) the object contributes no pool -/
theorem delFirst_removed_count (key name : String) : ∀ (l l' : List CC),
    delFirst key name l = (l', .removed) →
    (l'.filter (fun c => c.key == key && c.name == name)).length + 1 = (l.filter (fun c => c.key == key && c.name == name)).length := by
  intro l
  induction l with
  | nil => intro l' h; simp [delFirst] at h
  | cons c t ih =>
    intro l' h
    unfold delFirst at h
    split at h
    · rename_i hm
      split at h
      · simp at h
      · simp only [Prod.mk.injEq] at h
        obtain ⟨rfl, _⟩ := h
        simp [List.filter_cons, hm]
    · rename_i hm
      cases hd : delFirst key name t with
      | mk t' r =>
        rw [hd] at h
        simp only [Prod.mk.injEq] at h
        obtain ⟨rfl, rfl⟩ := h
        have := ih t' hd
        simp only [List.filter_cons, hm, Bool.false_eq_true, if_false]
        exact this

example : (Alloc.mk []).createCC "a" ⟨none, 4, .ok ⟨.v4, 0x0a000000, 24⟩ "10.0.0.0/24", .empty⟩ false ≠ none := by decide

end Ipam.C10
