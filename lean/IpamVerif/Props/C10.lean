import IpamVerif.System
import IpamVerif.OnePer
/-!
# C10 — handling the same ClusterCIDR again has no additional effect
-/
namespace Ipam.C10
open Ipam

/-- number of entries filed for an object (its key and name) -/
def entriesFor (a : Alloc) (key name : String) : Nat := (a.ccs.filter (fun c => c.key == key && c.name == name)).length

theorem mapped_iff (a : Alloc) (key name : String) : a.mapped key name = true ↔ entriesFor a key name ≥ 1 := by
  unfold Alloc.mapped entriesFor
  rw [List.any_eq_true]
  constructor
  · rintro ⟨c, hc, hk⟩
    exact List.length_pos_of_mem (List.mem_filter.mpr ⟨hc, hk⟩)
  · intro h
    have : 0 < (a.ccs.filter (fun c => c.key == key && c.name == name)).length := h
    obtain ⟨c, hc⟩ := List.exists_mem_of_length_pos this
    exact ⟨c, (List.mem_filter.mp hc).1, (List.mem_filter.mp hc).2⟩

theorem buildCC_key_name {key : String} {reqs : List Req} {name : String} {spec : CCSpec} {t : Bool} {c : CC}
    (h : buildCC key reqs name spec t = some c) : c.key = key ∧ c.name = name ∧ c.assoc = [] ∧ c.term = t := by
  unfold buildCC at h
  split at h
  · cases h
  · split at h
    · cases h
    · split at h
      · cases h
      · cases h; exact ⟨rfl, rfl, rfl, rfl⟩

/-- **the in-memory part of handling a ClusterCIDR is idempotent**: mapping it again — after a failed
write, a duplicate or stale notification, or after start-up picked it up — changes nothing -/
theorem createCC_idempotent (a a' : Alloc) (name : String) (spec : CCSpec) (t t' : Bool)
    (h : a.createCC name spec t = some a') : a'.createCC name spec t' = some a' := by
  unfold Alloc.createCC at h ⊢
  cases hs : selectorOf spec.sel with
  | none => rw [hs] at h; cases h
  | some reqs =>
    rw [hs] at h
    simp only at h ⊢
    split at h
    · cases h; rename_i hm; rw [if_pos hm]
    · cases hb : buildCC (printSel reqs) reqs name spec t with
      | none => rw [hb] at h; cases h
      | some c =>
        rw [hb] at h; cases h
        have ⟨hk, hn, _, _⟩ := buildCC_key_name hb
        have : (Alloc.mk (a.ccs ++ [c])).mapped (printSel reqs) name = true := by
          unfold Alloc.mapped; simp [hk, hn]
        rw [if_pos this]

/-- **one pool set per object**: after any number of (re-)mappings an object that had at most one entry
has exactly one -/
theorem createCC_one_entry (a a' : Alloc) (name : String) (spec : CCSpec) (t : Bool) (reqs : List Req)
    (hs : selectorOf spec.sel = some reqs) (hle : entriesFor a (printSel reqs) name ≤ 1)
    (h : a.createCC name spec t = some a') : entriesFor a' (printSel reqs) name = 1 := by
  unfold Alloc.createCC at h
  rw [hs] at h
  simp only at h
  split at h
  · cases h
    rename_i hm
    have := (mapped_iff a _ _).mp hm
    omega
  · rename_i hm
    cases hb : buildCC (printSel reqs) reqs name spec t with
    | none => rw [hb] at h; cases h
    | some c =>
      rw [hb] at h; cases h
      have ⟨hk, hn, _, _⟩ := buildCC_key_name hb
      have h0 : entriesFor a (printSel reqs) name = 0 := by
        have := mt (mapped_iff a (printSel reqs) name).mpr hm
        omega
      unfold entriesFor at h0 ⊢
      simp [List.filter_append, hk, hn, h0]

/-- a mapping attempt does not touch the entries of other objects -/
theorem createCC_others_untouched (a a' : Alloc) (name : String) (spec : CCSpec) (t : Bool)
    (h : a.createCC name spec t = some a') (key' name' : String) (hne : name' ≠ name) :
    entriesFor a' key' name' = entriesFor a key' name' := by
  unfold Alloc.createCC at h
  cases hs : selectorOf spec.sel with
  | none => rw [hs] at h; cases h
  | some reqs =>
    rw [hs] at h
    simp only at h
    split at h
    · cases h; rfl
    · cases hb : buildCC (printSel reqs) reqs name spec t with
      | none => rw [hb] at h; cases h
      | some c =>
        rw [hb] at h; cases h
        have ⟨_, hn, _, _⟩ := buildCC_key_name hb
        unfold entriesFor
        simp [List.filter_append, hn, Ne.symm hne]

/-- a ClusterCIDR that already carries the controller's finalizer and is not being deleted is left alone:
no memory change, no write (duplicate and stale notifications, periodic resyncs) -/
theorem settled_object_is_noop (s : Sys) (name : String) (w : WOut) (o : CCObj)
    (hv : getCC s.ccView name = some o) (hd : o.deleting = false) (hf : hasFin o = true) :
    procCCCore s name w = (s, { res := "ok" }) := by
  unfold procCCCore
  rw [hv]
  simp only [hd, Bool.false_eq_true, if_false]
  have : needFin o = false := by unfold needFin; simp [hf]
  rw [if_neg (by simp [this])]

/-- once deletion has completed (the entry was removed) the object contributes no pool -/
theorem delFirst_removed_count (key name : String) : ∀ (l l' : List CC),
    delFirst key name l = (l', .removed) →
    (l'.filter (fun c => c.key == key && c.name == name)).length + 1 = (l.filter (fun c => c.key == key && c.name == name)).length := by
  intro l
  induction l with
  | nil => intro l' h; simp [delFirst] at h
  | cons c t ih =>
    intro l' h
    unfold delFirst at h
    split at h
    · rename_i hm
      split at h
      · simp at h
      · simp only [Prod.mk.injEq] at h
        obtain ⟨rfl, _⟩ := h
        simp [List.filter_cons, hm]
    · rename_i hm
      cases hd : delFirst key name t with
      | mk t' r =>
        rw [hd] at h
        simp only [Prod.mk.injEq] at h
        obtain ⟨rfl, rfl⟩ := h
        have := ih t' hd
        simp only [List.filter_cons, hm, Bool.false_eq_true, if_false]
        exact this

example : (Alloc.mk []).createCC "a" ⟨none, 4, .ok ⟨.v4, 0x0a000000, 24⟩ "10.0.0.0/24", .empty⟩ false ≠ none := by decide

/-- the count of entries filed for an object is the multiplicity of its (key, name) pair -/
theorem entriesFor_eq_count (a : Alloc) (key name : String) : entriesFor a key name = (OnePer.KN a).count (key, name) := by
  unfold entriesFor OnePer.KN
  induction a.ccs with
  | nil => rfl
  | cons c t ih =>
    simp only [List.filter_cons, List.map_cons, List.count_cons]
    by_cases h : (c.key == key && c.name == name) = true
    · have hk : OnePer.kn c = (key, name) := by
        simp only [Bool.and_eq_true, beq_iff_eq] at h
        unfold OnePer.kn; rw [h.1, h.2]
      simp [h, hk, ih]
    · have hk : ¬ OnePer.kn c = (key, name) := by
        intro he
        unfold OnePer.kn at he
        simp only [Prod.mk.injEq] at he
        exact h (by simp [he.1, he.2])
      simp [h, hk, ih]

/-- **C10 over whole histories, with no assumption**: whatever happens — the same ClusterCIDR processed again after
a failed write, duplicate or stale notifications, a restart picking it up again, deletions and re-creations — an
object (selector key, name) is never mapped more than once: it contributes at most one pool per family. -/
theorem one_entry_per_object_always (s : Sys) (hs : ∀ key name, entriesFor s.alloc key name ≤ 1) (evs : List Ev) :
    ∀ key name, entriesFor (run s evs).alloc key name ≤ 1 := by
  have h0 : OnePer.NoDupKN s.alloc := by
    unfold OnePer.NoDupKN
    rw [List.nodup_iff_count]
    intro x
    rw [← entriesFor_eq_count]; exact hs x.1 x.2
  have := OnePer.nodup_run evs s h0
  intro key name
  rw [entriesFor_eq_count]
  exact List.nodup_iff_count.mp this (key, name)

/-- in particular from the empty controller, through any number of restarts -/
theorem one_entry_per_object_from_start (evs : List Ev) : ∀ key name, entriesFor (run Sys.init evs).alloc key name ≤ 1 :=
  one_entry_per_object_always Sys.init (fun _ _ => by simp [entriesFor, Sys.init]) evs

end Ipam.C10
