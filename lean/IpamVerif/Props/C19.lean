import IpamVerif.Props.C14
import IpamVerif.Lock
import IpamVerif.Facts
/-!
# C19 — exported pool metrics agree with the pool's real state

The pool model carries the four series the property names: `allocs`
(`…_cidrs_allocations_total`), `releases` (`…_cidrs_releases_total`),
`maxGauge` (`…_max_cidrs`) and `usage` (numerator of `…_usage_cidrs`; the
denominator is the capacity).  For a range configured once (unique label) the
series of a label are written by one pool only, so the model's fields are the
series.  That the series are registered and served is a fact about the program
text, checked on the regenerated fact table (`Facts.lean`, theorem `metricsServed` in `Props/C16`).

"At all times" includes callers on several goroutines: the pool has a mutex of its own.  The theorems
above are about one-at-a-time histories; that concurrent calls on one pool are such a history rests on
the pool's lock discipline, which is a fact about the program text: `Facts.poolGraph` (regenerated from
`multicidrset/*.go` on every run; every method split at its `Lock(); defer Unlock()` pair; a field is
*mutable* when some method writes it) is accepted by the same checker as the allocator's table
(`pool_state_only_under_pool_lock`, `pool_lock_not_reentered`), and `Lock.mutex_reduction` turns
lock-protected bodies into a serial order.
-/
namespace Ipam.C19

open Ipam

/-- after **any** history on a pool: `max_cidrs` = capacity, `usage` = used / capacity,
`allocations_total − releases_total` = number of distinct used blocks -/
theorem metrics_tell_the_truth (g : Geo) (l : String) (hg : C14.Supported g) (ops : List PoolOp)
    (hops : ∀ op ∈ ops, C14.OpWF op) (p : Pool) (hp : p = (Pool.new g l).run ops) :
    p.maxGauge = g.max ∧ p.usage = p.used.length ∧ p.allocs - p.releases = p.used.length ∧
    p.releases ≤ p.allocs ∧ p.used.Nodup := by
  obtain ⟨hI, hgeo⟩ := C14.ops_inv g l hg ops hops
  rw [← hp] at hI hgeo
  refine ⟨?_, ?_, ?_, ?_, hI.nodup⟩
  · have := hI.maxg; unfold Pool.max at this; rw [hgeo] at this; exact this
  · rw [hI.usage_eq, hI.count_eq]
  · have := hI.metrics; have := hI.count_eq; omega
  · have := hI.metrics; omega

/-- repeated occupy of the same CIDR is counted once: the second call changes no series -/
theorem repeated_occupy_counted_once {p p' : Pool} (hg : C14.Supported p.geo) (hI : p.Inv) {cd : Cidr}
    (hcd : cd.WF) (h : p.occupy cd = some p') :
    ∀ p'', p'.occupy cd = some p'' → p''.allocs = p'.allocs ∧ p''.releases = p'.releases ∧ p''.usage = p'.usage := by
  intro p'' h2
  rw [C14.occupy_idempotent hg hI hcd h] at h2
  cases h2; exact ⟨rfl, rfl, rfl⟩

theorem repeated_release_counted_once {p p' : Pool} (hg : C14.Supported p.geo) (hI : p.Inv) {cd : Cidr}
    (hcd : cd.WF) (h : p.release cd = some p') :
    ∀ p'', p'.release cd = some p'' → p''.allocs = p'.allocs ∧ p''.releases = p'.releases ∧ p''.usage = p'.usage := by
  intro p'' h2
  rw [C14.release_idempotent hg hI hcd h] at h2
  cases h2; exact ⟨rfl, rfl, rfl⟩

/-- a failing operation and `NextCandidate` change no series -/
theorem next_changes_no_series {p : Pool} (hI : p.Inv) {c k : Nat} {p' : Pool} (h : p.next = some (c, k, p')) :
    p'.allocs = p.allocs ∧ p'.releases = p.releases ∧ p'.usage = p.usage ∧ p'.maxGauge = p.maxGauge := by
  obtain ⟨_, _, _, _, _, hp', _⟩ := C14.next_some hI h
  rw [hp']; exact ⟨rfl, rfl, rfl, rfl⟩

example : ((Pool.new ⟨.v4, 0x0a000000, 24, 26⟩ "10.0.0.0/24").run
    [.occupy ⟨.v4, 0x0a000040, 27⟩, .occupy ⟨.v4, 0x0a000040, 26⟩, .release ⟨.v4, 0x0a000040, 28⟩,
     .release ⟨.v4, 0x0a000040, 28⟩, .occupy ⟨.v4, 0x0a000000, 16⟩]).allocs = 5 := by decide

/-! ### the pool's own lock (regenerated table) -/
open Ipam.Lock in
theorem pool_checker_accepts : checker Facts.poolGraph = true := by decide +kernel

open Ipam.Lock in
/-- the counters, the used-block map and the cursor of a pool are only accessed by code that runs between
the method's `Lock()` and its deferred `Unlock()` -/
theorem pool_state_only_under_pool_lock (n : String) (hr : ReachU Facts.poolGraph n) (f : Fn)
    (hl : Facts.poolGraph.lookup n = some f) (ht : f.touches = true) : f.holdsLock = true :=
  checker_sound_touch Facts.poolGraph pool_checker_accepts n hr f hl ht

open Ipam.Lock in
theorem pool_lock_not_reentered (n : String) (hr : ReachL Facts.poolGraph n) (f : Fn)
    (hl : Facts.poolGraph.lookup n = some f) : f.acquires = false :=
  checker_sound_no_reacquire Facts.poolGraph pool_checker_accepts n hr f hl

/-- non-vacuity: the three state-changing methods are entry points, their locked parts touch the state,
and the counter the series are computed from is among the mutable fields -/
example : ["MultiCIDRSet.NextCandidate", "MultiCIDRSet.Occupy", "MultiCIDRSet.Release"].all
    (fun m => (Ipam.Lock.rootsU Facts.poolGraph).contains m) = true := by decide +kernel
example : (Facts.poolGraph.fns.filter (fun f => f.holdsLock && f.touches)).map (·.name) =
    ["MultiCIDRSet.NextCandidate$locked", "MultiCIDRSet.Occupy$locked", "MultiCIDRSet.Release$locked"] := by decide +kernel
example : Facts.poolMutableFields.contains "allocatedCIDRs" = true := by decide

/-- the five metric vectors are registered and `/metrics` is bound to the Prometheus handler (C19) -/
theorem metricsServed : Facts.metricsEndpoint = true ∧
    ["multicidrset_cidrs_allocations_total", "multicidrset_cidrs_releases_total", "multicidrset_usage_cidrs", "multicirdset_max_cidrs"].all
      (fun m => Facts.metricsRegistered.contains m) = true := by decide


end Ipam.C19
