import IpamVerif.Props.C14
/-!
# C19 — exported pool metrics agree with the pool's real state

The pool model carries the four series the property names: `allocs`
(`…_cidrs_allocations_total`), `releases` (`…_cidrs_releases_total`),
`maxGauge` (`…_max_cidrs`) and `usage` (numerator of `…_usage_cidrs`; the
denominator is the capacity).  For a range configured once (unique label) the
series of a label are written by one pool only, so the model's fields are the
series.  That the series are registered and served is a fact about the program
text, checked on the regenerated fact table (`Facts.lean`, see `Props/C19Facts`).
-/
namespace Ipam.C19

open Ipam

/-- after **any** history on a pool: `max_cidrs` = capacity, `usage` = used / capacity,
`allocations_total − releases_total` = number of distinct used blocks -/
theorem metrics_tell_the_truth (g : Geo) (l : String) (hg : C14.Supported g) (ops : List PoolOp)
    (hops : ∀ op ∈ ops, C14.OpWF op) (p : Pool) (hp : p = (Pool.new g l).run ops) :
    p.maxGauge = g.max ∧ p.usage = p.used.length ∧ p.allocs - p.releases = p.used.length ∧
    p.releases ≤ p.allocs ∧ p.used.Nodup := by
  obtain ⟨hI, hgeo⟩ := C14.ops_inv g l hg ops hops
  rw [← hp] at hI hgeo
  refine ⟨?_, ?_, ?_, ?_, hI.nodup⟩
  · have := hI.maxg; unfold Pool.max at this; rw [hgeo] at this; exact this
  · rw [hI.usage_eq, hI.count_eq]
  · have := hI.metrics; have := hI.count_eq; omega
  · have := hI.metrics; omega

/-- repeated occupy of the same CIDR is counted once: the second call changes no series -/
theorem repeated_occupy_counted_once {p p' : Pool} (hg : C14.Supported p.geo) (hI : p.Inv) {cd : Cidr}
    (hcd : cd.WF) (h : p.occupy cd = some p') :
    ∀ p'', p'.occupy cd = some p'' → p''.allocs = p'.allocs ∧ p''.releases = p'.releases ∧ p''.usage = p'.usage := by
  intro p'' h2
  rw [C14.occupy_idempotent hg hI hcd h] at h2
  cases h2; exact ⟨rfl, rfl, rfl⟩

theorem repeated_release_counted_once {p p' : Pool} (hg : C14.Supported p.geo) (hI : p.Inv) {cd : Cidr}
    (hcd : cd.WF) (h : p.release cd = some p') :
    ∀ p'', p'.release cd = some p'' → p''.allocs = p'.allocs ∧ p''.releases = p'.releases ∧ p''.usage = p'.usage := by
  intro p'' h2
  rw [C14.release_idempotent hg hI hcd h] at h2
  cases h2; exact ⟨rfl, rfl, rfl⟩

/-- a failing operation and `NextCandidate` change no series -/
theorem next_changes_no_series {p : Pool} (hI : p.Inv) {c k : Nat} {p' : Pool} (h : p.next = some (c, k, p')) :
    p'.allocs = p.allocs ∧ p'.releases = p.releases ∧ p'.usage = p.usage ∧ p'.maxGauge = p.maxGauge := by
  obtain ⟨_, _, _, _, _, hp', _⟩ := C14.next_some hI h
  rw [hp']; exact ⟨rfl, rfl, rfl, rfl⟩

example : ((Pool.new ⟨.v4, 0x0a000000, 24, 26⟩ "10.0.0.0/24").run
    [.occupy ⟨.v4, 0x0a000040, 27⟩, .occupy ⟨.v4, 0x0a000040, 26⟩, .release ⟨.v4, 0x0a000040, 28⟩,
     .release ⟨.v4, 0x0a000040, 28⟩, .occupy ⟨.v4, 0x0a000000, 16⟩]).allocs = 5 := by decide

end Ipam.C19
