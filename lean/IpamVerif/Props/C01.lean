import IpamVerif.Safety
import IpamVerif.Restart
/-!
# C01 — no two nodes are ever given overlapping pod CIDRs

**Proved, for every history of the fragment (`no_two_nodes_overlap`).**  Start from a controller that has mapped
ClusterCIDRs with pairwise disjoint ranges and a cluster whose nodes hold no pod CIDRs (`Safety.inv_init`; any
state satisfying the invariant will do).  Then, after *any* sequence of fragment events — nodes created, marked
for deletion, deleted; ClusterCIDRs (with ranges disjoint from the mapped ones) created, deleted, touched by
other controllers; notifications delivered late, in any order, or overtaken by a cache update in the middle of
an item; node and ClusterCIDR work items interleaved arbitrarily, each API write failing any number of times —
no two nodes that exist and are not being deleted hold overlapping pod CIDRs.  Unbounded in the number of nodes,
ClusterCIDRs, families, block sizes and steps.  The proof is an inductive invariant of the whole controller model
(`Safety.Inv`, `Safety.inv_step`).

**With restarts at any instant** (`no_two_nodes_overlap_with_restarts`, from `Restart.lean`): the same statement for
histories in which the controller is stopped and started again any number of times, under the conditions listed in
`Props/C03.lean` (ClusterCIDRs deleted only once the finalizer is on them, not edited, names not re-used while cached).

**The assignment step, with no assumption at all** (`Recorded.lean`): a block handed out overlaps no CIDR that any
pool records, and the reservation precedes the write.

**Outside the fragment** the property is *false* on the pinned code — each exclusion is a recorded finding with a
witness replayed on the implementation on every run: label edits, also followed by a restart (P8, P10), overlapping
ClusterCIDRs (P9, P11, P12, P22), node writes applied but reported as failed (P13), nodes created with or handed
pod CIDRs by someone else (P18), a node re-created before its deletion was delivered (P21), tombstones with a
stale state (P19).  There the correspondence check and the judge (`checklib/judge_hist.py`) do the work.
-/
namespace Ipam.C01
open Ipam Ipam.Safety

/-- **C01 on the fragment** -/
theorem no_two_nodes_overlap (s : Sys) (hs : Inv s) (evs : List Ev) (hf : FragAll s evs) :
    ∀ x ∈ (run s evs).api.nodes, ∀ y ∈ (run s evs).api.nodes, x.name ≠ y.name → x.deleting = false → y.deleting = false →
      ∀ a ∈ x.cidrs, ∀ b ∈ y.cidrs, a.fam = b.fam → a.Disjoint b :=
  no_overlap_ever s hs evs hf

/-- **C01 on the fragment with restarts** -/
theorem no_two_nodes_overlap_with_restarts (s : Sys) (hs : Restart.Inv3 s) (evs : List Ev) (hf : Restart.Frag3All s evs) :
    ∀ x ∈ (run s evs).api.nodes, ∀ y ∈ (run s evs).api.nodes, x.name ≠ y.name → x.deleting = false → y.deleting = false →
      ∀ a ∈ x.cidrs, ∀ b ∈ y.cidrs, a.fam = b.fam → a.Disjoint b :=
  Restart.no_overlap_across_restarts s hs evs hf

/-- the fragment is closed under prefixes, so the statement holds at every moment of the history, in particular
right after every write of pod CIDRs -/
theorem fragAll_prefix : ∀ (evs evs' : List Ev) (s : Sys), FragAll s (evs ++ evs') → FragAll s evs := by
  intro evs
  induction evs with
  | nil => intro _ _ _; trivial
  | cons e rest ih => intro evs' s h; exact ⟨h.1, ih evs' _ h.2⟩

/-- a start satisfying the invariant exists and a non-trivial history of the fragment exists: see
`Safety.exStart_inv` and the examples after it -/
example : Inv exStart := exStart_inv

end Ipam.C01
