import IpamVerif.AddrLemmas
/-!
# C13 — block numbering of a range is a bijection onto its aligned sub-ranges

Statements only (helpers are in `AddrLemmas`).  `goBlock`, `goIndexOf`,
`goBeginEnd` are the transcriptions of `indexToCIDRBlock`, `getIndexForIP`,
`getBeginningAndEndIndices`; `Geo.Valid` is what `NewMultiCIDRSet` accepts;
`Supported` additionally excludes the single 2^32-block IPv4 geometry, as the
property does.
-/
namespace Ipam.C13

open Ipam

/-- the quantifier of the property -/
def Supported (g : Geo) : Prop := g.Valid ∧ (g.max < 2 ^ 32 ∨ g.fam = .v6)
instance (g : Geo) : Decidable (Supported g) := by unfold Supported; exact inferInstance

/-- block `i` is the `i`-th aligned sub-range of the range -/
theorem block_is_ith_subrange {g : Geo} (h : Supported g) {i : Nat} (hi : i < g.max) :
    goBlock g i = ⟨g.fam, g.base + i * g.blockSize, g.n⟩ ∧ (goBlock g i).WF ∧
    (goBlock g i).Sub g.range := by
  rw [goBlock_eq h.1 hi]
  refine ⟨rfl, Geo.block_WF h.1 hi, ?_⟩
  have hm := Geo.block_mem_range h.1 hi (g.block i).mem_addr
  have hoff := Geo.block_off_lt h.1 hi
  refine ⟨hm.1, ?_⟩
  change g.base + i * g.blockSize + g.blockSize ≤ g.base + 2 ^ (g.W - g.c)
  omega

/-- distinct numbers give disjoint blocks -/
theorem blocks_disjoint {g : Geo} (h : Supported g) {i j : Nat} (hi : i < g.max) (hj : j < g.max)
    (hij : i ≠ j) : (goBlock g i).Disjoint (goBlock g j) := by
  rw [goBlock_eq h.1 hi, goBlock_eq h.1 hj]
  unfold Cidr.Disjoint
  rw [Geo.block_size, Geo.block_size]
  change g.base + i * g.blockSize + g.blockSize ≤ g.base + j * g.blockSize ∨
    g.base + j * g.blockSize + g.blockSize ≤ g.base + i * g.blockSize
  rcases Nat.lt_or_gt_of_ne hij with hlt | hlt
  · left
    have : (i + 1) * g.blockSize ≤ j * g.blockSize := Nat.mul_le_mul_right _ hlt
    rw [Nat.add_mul, Nat.one_mul] at this; omega
  · right
    have : (j + 1) * g.blockSize ≤ i * g.blockSize := Nat.mul_le_mul_right _ hlt
    rw [Nat.add_mul, Nat.one_mul] at this; omega

/-- the blocks tile the range exactly -/
theorem blocks_tile {g : Geo} (h : Supported g) (a : Nat) :
    g.range.Mem a ↔ ∃ i, i < g.max ∧ (goBlock g i).Mem a := by
  constructor
  · intro ha
    refine ⟨g.idx a, Geo.idx_lt h.1 ha, ?_⟩
    rw [goBlock_eq h.1 (Geo.idx_lt h.1 ha)]
    have hbp := g.blockSize_pos
    have h1 := Nat.div_add_mod (a - g.base) g.blockSize
    have h2 := Nat.mod_lt (a - g.base) hbp
    have h3 : g.base ≤ a := ha.1
    unfold Cidr.Mem
    rw [Geo.block_size]
    change g.base + (a - g.base) / g.blockSize * g.blockSize ≤ a ∧
      a < g.base + (a - g.base) / g.blockSize * g.blockSize + g.blockSize
    rw [Nat.mul_comm]; omega
  · rintro ⟨i, hi, hm⟩
    rw [goBlock_eq h.1 hi] at hm
    exact Geo.block_mem_range h.1 hi hm

/-- any address of block `i` maps back to `i` -/
theorem index_of_address {g : Geo} (h : Supported g) {i a : Nat} (hi : i < g.max)
    (ha : (goBlock g i).Mem a) : goIndexOf g a = some i := by
  rw [goBlock_eq h.1 hi] at ha
  exact goIndexOf_block h.1 h.2 hi ha

/-- addresses outside the range are rejected -/
theorem index_of_outside {g : Geo} (h : Supported g) {a : Nat} (ha : ¬ g.range.Mem a) :
    goIndexOf g a = none := goIndexOf_outside h.1 ha

/-- the block itself, or any sub-range of it, maps back to `(i, i)` -/
theorem beginEnd_of_subrange {g : Geo} (h : Supported g) {i : Nat} (hi : i < g.max) {cd : Cidr}
    (hcd : cd.WF) (hf : cd.fam = g.fam) (hsub : cd.Sub (goBlock g i)) : goBeginEnd g cd = some (i, i) := by
  rw [goBlock_eq h.1 hi] at hsub
  rw [goBeginEnd_eq_spec h.1 h.2 hcd]
  have hcm : (g.block i).Mem cd.addr := ⟨hsub.1, by have := cd.size_pos; have := hsub.2; omega⟩
  have hndi : ¬ (g.block i).Disjoint cd := Cidr.not_disjoint_of_mem hcm cd.mem_addr
  cases hs : specBeginEnd g cd with
  | none =>
    rcases specBeginEnd_none h.1 hs with h1 | h1
    · exact absurd hf h1
    · exact absurd (h1 i hi) hndi
  | some be =>
    obtain ⟨b, e⟩ := be
    obtain ⟨_, hbe, hemax, hiff⟩ := specBeginEnd_some h.1 hcd hs
    have hi' := (hiff i hi).mpr hndi
    -- a block that meets `cd` meets block `i`, hence is block `i`
    have key : ∀ k, k < g.max → ¬ (g.block k).Disjoint cd → k = i := by
      intro k hk hnd
      false_or_by_contra
      rename_i hne
      have hd := blocks_disjoint h hk hi hne
      rw [goBlock_eq h.1 hk, goBlock_eq h.1 hi] at hd
      apply hnd
      unfold Cidr.Disjoint at hd ⊢
      have := hsub.1; have := hsub.2
      omega
    have hb : b = i := key b (by omega) ((hiff b (by omega)).mp ⟨Nat.le_refl _, hbe⟩)
    have he : e = i := key e hemax ((hiff e hemax).mp ⟨hbe, Nat.le_refl _⟩)
    rw [hb, he]

/-- a CIDR that contains the whole range maps to all blocks -/
theorem beginEnd_of_superrange {g : Geo} (h : Supported g) {cd : Cidr} (hcd : cd.WF)
    (hf : cd.fam = g.fam) (hsup : g.range.Sub cd) : goBeginEnd g cd = some (0, g.max - 1) := by
  rw [goBeginEnd_eq_spec h.1 h.2 hcd]
  unfold specBeginEnd
  have hnd : ¬ cd.Disjoint g.range := by
    apply Cidr.not_disjoint_of_mem (x := g.base) _ g.range.mem_addr
    have := g.range.size_pos
    exact ⟨hsup.1, by have := hsup.2; change g.base + g.range.size ≤ _ at this; omega⟩
  rw [if_neg (by rintro (h1 | h1); exact h1 hf; exact hnd h1)]
  have hlen : cd.len ≤ g.c := by
    -- sizes: 2^(W-c) ≤ 2^(W-len)
    false_or_by_contra; rename_i hn
    have hW : cd.W = g.W := by simp [Cidr.W, Geo.W, hf]
    have h1 := hsup.1; have h2 := hsup.2
    have hs : cd.size < g.range.size := by
      unfold Cidr.size Cidr.hostBits
      apply Nat.pow_lt_pow_right (by decide)
      have hcw : g.c ≤ g.W := (Geo.range_WF h.1).1
      have hlw : cd.len ≤ g.W := hW ▸ hcd.1
      rw [hW]; change g.W - cd.len < g.W - g.c
      omega
    omega
  rw [if_pos hlen]

/-- a CIDR is rejected exactly when it does not meet the range (or is of the other family) -/
theorem beginEnd_rejects_iff {g : Geo} (h : Supported g) {cd : Cidr} (hcd : cd.WF) :
    goBeginEnd g cd = none ↔ (cd.fam ≠ g.fam ∨ cd.Disjoint g.range) := by
  rw [goBeginEnd_eq_spec h.1 h.2 hcd]
  unfold specBeginEnd
  constructor
  · intro hn
    false_or_by_contra; rename_i hc
    rw [if_neg hc] at hn
    split at hn <;> cases hn
  · intro hc; rw [if_pos hc]

/-- every range / host-bits pair `NewMultiCIDRSet` accepts is a valid geometry -/
theorem newGeo_valid {r : Cidr} (hr : r.WF) {hb : Int} {g : Geo} (h : newGeo r hb = some g) : g.Valid := by
  unfold newGeo at h
  simp only at h
  split at h
  · cases h
  rename_i h1
  split at h
  · cases h
  rename_i h2
  cases h
  obtain ⟨hl, ha, hal⟩ := hr
  have hW : (⟨r.fam, r.addr, r.len, ((r.W : Int) - hb).toNat⟩ : Geo).W = r.W := rfl
  refine ⟨?_, ?_, ?_, ?_, ?_⟩
  · change r.len ≤ ((r.W : Int) - hb).toNat; omega
  · change ((r.W : Int) - hb).toNat ≤ r.W; omega
  · exact ha
  · exact hal
  · intro hf
    change ((r.W : Int) - hb).toNat - r.len ≤ 16
    have hf' : r.fam = .v6 := hf
    have h2' : ¬ ((r.W : Int) - hb - (r.len : Int) > 16) := fun hh => h2 ⟨hf', hh⟩
    omega

/-! non-vacuity: concrete geometries of every branch of the Go code meet `Supported` -/
example : Supported ⟨.v4, 0x0a000000, 8, 24⟩ := by decide
example : Supported ⟨.v6, 0xfd000000000000000000000000000000, 48, 64⟩ := by decide   -- left half only
example : Supported ⟨.v6, 0xfd001234567800000000000000000000, 52, 68⟩ := by decide   -- straddling
example : Supported ⟨.v6, 0xfd000000000000000000000000010000, 112, 120⟩ := by decide -- right half only
example : goBlock ⟨.v6, 0xfd001234567800000000000000000000, 52, 68⟩ 0x1234 =
    ⟨.v6, 0xfd001234567801230000000000000000 + 0x4000000000000000, 68⟩ := by decide

end Ipam.C13
