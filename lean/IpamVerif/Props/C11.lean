import IpamVerif.System
import IpamVerif.Facts
import IpamVerif.Pending
/-!
# C11 — when changes stop the controller converges; failed items are queued again

Proved here: a work item whose sync returned an error is in its queue again after the step
(`AddRateLimited`), one that succeeded is not re-added by the step itself (`Forget`); a refusal is
an error.  The program-text side (both worker loops reach `AddRateLimited(key)` on the error branch and
`Forget` only on success) is checked on the regenerated fact table (`Props/C16.lean`, `workerLoopsRequeue`).
PARTIAL: convergence itself ("a fair run reaches the intended steady state") is established by the
drain stream of the correspondence check and its judge, not by a Lean liveness proof; real back-off
timing is not modelled (queue contract: `AddRateLimited` eventually re-delivers).
-/
namespace Ipam.C11
open Ipam

theorem mem_qAdd (q : List String) (k : String) : k ∈ qAdd q k := by
  unfold qAdd
  split
  · rename_i h; simpa using h
  · simp

/-- a failed node item is queued again -/
theorem failed_node_item_requeued (s : Sys) (name : String) (refresh : Bool) (ws : List WOut)
    (h : (procNode s name refresh ws).2.res = "err") : name ∈ (procNode s name refresh ws).1.nodeQ := by
  unfold procNode at h ⊢
  simp only at h ⊢
  split
  · exact mem_qAdd _ _
  · rename_i hne
    split at h
    · rename_i he; exact absurd he hne
    · simp [h] at hne

/-- a failed ClusterCIDR item is queued again -/
theorem failed_cc_item_requeued (s : Sys) (name : String) (w : WOut)
    (h : (procCC s name w).2.res = "err") : name ∈ (procCC s name w).1.ccQ := by
  unfold procCC at h ⊢
  simp only at h ⊢
  split
  · exact mem_qAdd _ _
  · rename_i hne
    split at h
    · rename_i he; exact absurd he hne
    · simp [h] at hne

/-- a refusal (no ClusterCIDR can serve the node) is an error, hence retried, and is recorded as an event -/
theorem refusal_is_error (s : Sys) (n : NodeObj) (refresh : Bool) (ws : List WOut) (hn : n.hasCidrs = false)
    (al : Alloc) (h : s.alloc.prioritized (s.alloc.ordered n.labels true) = (al, none)) :
    (allocateOrOccupy s n refresh ws).2.res = "err" ∧ (allocateOrOccupy s n refresh ws).2.events = ["CIDRNotAvailable"] ∧
    (allocateOrOccupy s n refresh ws).2.patches = [] := by
  unfold allocateOrOccupy
  rw [if_neg (by simp [hn]), h]
  exact ⟨rfl, rfl, rfl⟩

/-- the worker loops re-queue on error and forget only on success (C11), regenerated fact -/
theorem workerLoopsRequeue : Facts.workerLoops =
    [("processNextCIDRWorkItem", true, true), ("processNextNodeWorkItem", true, true)] := by decide


/-- **C11, the safety half, over whole histories**: from the empty controller, through any history in which no object is
re-created under a name the cache still holds — restarts, failed and lost writes, label edits, foreign writers, duplicate
and late notifications included — whenever the queues are empty and the caches are current, every node that is not
being deleted has pod CIDRs, every ClusterCIDR under deletion has been released and every other one carries the
finalizer.  Unserved nodes and unfinished ClusterCIDRs are never dropped: they stay queued (`Pending.Pend`). -/
theorem steady_state_is_the_intended_one (evs : List Ev) (hf : Pending.Frag2All Sys.init evs)
    (hnq : (run Sys.init evs).nodeQ = []) (hcq : (run Sys.init evs).ccQ = [])
    (hn : ∀ x, getNode (run Sys.init evs).nodeView x = getNode (run Sys.init evs).api.nodes x)
    (hc : ∀ x, getCC (run Sys.init evs).ccView x = getCC (run Sys.init evs).api.ccs x) :
    (∀ x y, getNode (run Sys.init evs).api.nodes x = some y → y.deleting = false → y.hasCidrs = true) ∧
    (∀ x o, getCC (run Sys.init evs).api.ccs x = some o →
      (o.deleting = true → hasFin o = false) ∧ (o.deleting = false → hasFin o = true)) := by
  have h := Pending.pend_run evs Sys.init Pending.pend_init hf
  exact ⟨Pending.quiescent_nodes_served h hnq hn, Pending.quiescent_ccs_done h hcq hc⟩

end Ipam.C11
