import IpamVerif.Alloc
/-!
# C07 — the ClusterCIDR serving a node follows the documented priority order

`PQItem.less` transcribes `PriorityQueue.Less`.  `container/heap` is library code: pushing all
items and popping them yields *a* list sorted by `Less`; the theorems below show that `Less` is a
strict weak order (so such a list exists and equal-priority classes are well defined), that the
sorted list is *unique* when no two items agree on all five keys (so the result depends neither on
the iteration order of the Go map nor on creation order: determinism), and that the node is served
from the first entry of that list that has room.
-/
namespace Ipam.C07
open Ipam

/-- a strict order that is total up to equality of the compared component -/
structure StrictTotalOn {α β : Type} (f : α → β) (lt : β → β → Prop) : Prop where
  irrefl : ∀ x, ¬ lt x x
  trans : ∀ x y z, lt x y → lt y z → lt x z
  tri : ∀ x y, lt x y ∨ x = y ∨ lt y x

/-- strict weak order: irreflexive, transitive, incomparability transitive -/
structure StrictWeak {α : Type} (R : α → α → Prop) : Prop where
  irrefl : ∀ a, ¬ R a a
  trans : ∀ a b c, R a b → R b c → R a c
  incomp_trans : ∀ a b c, (¬ R a b ∧ ¬ R b a) → (¬ R b c ∧ ¬ R c b) → (¬ R a c ∧ ¬ R c a)

/-- one lexicographic level on top of a strict weak order -/
def lexStep {α β : Type} (f : α → β) (lt : β → β → Prop) (R : α → α → Prop) (a b : α) : Prop :=
  lt (f a) (f b) ∨ (f a = f b ∧ R a b)

theorem lexStep_strictWeak {α β : Type} (f : α → β) (lt : β → β → Prop) (R : α → α → Prop)
    (h1 : StrictTotalOn f lt) (h2 : StrictWeak R) : StrictWeak (lexStep f lt R) := by
  have incomp : ∀ a b, (¬ lexStep f lt R a b ∧ ¬ lexStep f lt R b a) ↔ (f a = f b ∧ ¬ R a b ∧ ¬ R b a) := by
    intro a b
    unfold lexStep
    constructor
    · rintro ⟨n1, n2⟩
      rcases h1.tri (f a) (f b) with h | h | h
      · exact absurd (Or.inl h) n1
      · exact ⟨h, fun r => n1 (Or.inr ⟨h, r⟩), fun r => n2 (Or.inr ⟨h.symm, r⟩)⟩
      · exact absurd (Or.inl h) n2
    · rintro ⟨e, r1, r2⟩
      constructor
      · rintro (h | ⟨_, h⟩)
        · rw [e] at h; exact h1.irrefl _ h
        · exact r1 h
      · rintro (h | ⟨_, h⟩)
        · rw [e] at h; exact h1.irrefl _ h
        · exact r2 h
  refine ⟨?_, ?_, ?_⟩
  · intro a h
    rcases h with h | ⟨_, h⟩
    · exact h1.irrefl _ h
    · exact h2.irrefl _ h
  · intro a b c hab hbc
    unfold lexStep at *
    rcases hab with h | ⟨e, h⟩ <;> rcases hbc with k | ⟨e', k⟩
    · exact Or.inl (h1.trans _ _ _ h k)
    · exact Or.inl (e' ▸ h)
    · exact Or.inl (e ▸ k)
    · exact Or.inr ⟨e.trans e', h2.trans _ _ _ h k⟩
  · intro a b c hab hbc
    rw [incomp] at hab hbc ⊢
    obtain ⟨e1, r1, r2⟩ := hab
    obtain ⟨e2, r3, r4⟩ := hbc
    have := h2.incomp_trans a b c ⟨r1, r2⟩ ⟨r3, r4⟩
    exact ⟨e1.trans e2, this.1, this.2⟩

theorem natLt_total {α : Type} (f : α → Nat) : StrictTotalOn f (· < ·) :=
  ⟨fun x => Nat.lt_irrefl x, fun _ _ _ => Nat.lt_trans, fun x y => by omega⟩
theorem natGt_total {α : Type} (f : α → Nat) : StrictTotalOn f (· > ·) :=
  ⟨fun x => Nat.lt_irrefl x, fun _ _ _ h k => Nat.lt_trans k h, fun x y => by omega⟩
theorem strLt_total {α : Type} (f : α → String) : StrictTotalOn f (· < ·) :=
  ⟨String.lt_irrefl, fun _ _ _ => String.lt_trans, fun x y => Std.lt_trichotomy x y⟩

/-- the empty relation at the bottom of the lexicographic tower -/
theorem bottom_strictWeak {α : Type} : StrictWeak (fun (_ _ : α) => False) :=
  ⟨fun _ h => h, fun _ _ _ h _ => h, fun _ _ _ _ _ => ⟨id, id⟩⟩

/-- the documented order as a relation: more satisfied requirements; then fewer blocks; then the smaller
per-node block (longer node mask); then the smaller selector string; then the smaller range string -/
def Documented : PQItem → PQItem → Prop :=
  lexStep (·.matchCnt) (· > ·) <|
  lexStep (·.maxAlloc) (· < ·) <|
  lexStep (·.maskSize) (· > ·) <|
  lexStep (·.sel) (· < ·) <|
  lexStep (·.label) (· < ·) (fun _ _ => False)

/-- `Less` is exactly the documented lexicographic order -/
theorem less_iff_documented (a b : PQItem) : a.less b = true ↔ Documented a b := by
  unfold PQItem.less Documented lexStep
  by_cases h1 : a.matchCnt = b.matchCnt
  · by_cases h2 : a.maxAlloc = b.maxAlloc
    · by_cases h3 : a.maskSize = b.maskSize
      · by_cases h4 : a.sel = b.sel
        · simp [h1, h2, h3, h4]
        · simp [h1, h2, h3, h4]
      · simp [h1, h2, h3]
    · simp [h1, h2]
  · simp [h1]

theorem documented_strictWeak : StrictWeak Documented := by
  unfold Documented
  exact lexStep_strictWeak _ _ _ (natGt_total _) <|
    lexStep_strictWeak _ _ _ (natLt_total _) <|
    lexStep_strictWeak _ _ _ (natGt_total _) <|
    lexStep_strictWeak _ _ _ (strLt_total _) <|
    lexStep_strictWeak _ _ _ (strLt_total _) bottom_strictWeak

/-- **`PriorityQueue.Less` is a strict weak order** -/
theorem less_strictWeak : StrictWeak (fun a b => PQItem.less a b = true) := by
  have := documented_strictWeak
  constructor
  · intro a; rw [less_iff_documented]; exact this.irrefl a
  · intro a b c; simp only [less_iff_documented]; exact this.trans a b c
  · intro a b c; simp only [less_iff_documented]; exact this.incomp_trans a b c

/-- the five sort keys -/
def keys (x : PQItem) : Nat × Nat × Nat × String × String := (x.matchCnt, x.maxAlloc, x.maskSize, x.sel, x.label)

/-- with different keys two items are comparable (the order is total on key-distinct items) -/
theorem less_total_of_keys_ne (a b : PQItem) (h : keys a ≠ keys b) : a.less b = true ∨ b.less a = true := by
  simp only [less_iff_documented]
  unfold Documented lexStep
  rcases Nat.lt_trichotomy a.matchCnt b.matchCnt with h1 | h1 | h1
  · right; left; exact h1
  · rcases Nat.lt_trichotomy a.maxAlloc b.maxAlloc with h2 | h2 | h2
    · left; right; exact ⟨h1, Or.inl h2⟩
    · rcases Nat.lt_trichotomy a.maskSize b.maskSize with h3 | h3 | h3
      · right; right; exact ⟨h1.symm, Or.inr ⟨h2.symm, Or.inl h3⟩⟩
      · rcases Std.lt_trichotomy a.sel b.sel with h4 | h4 | h4
        · left; right; exact ⟨h1, Or.inr ⟨h2, Or.inr ⟨h3, Or.inl h4⟩⟩⟩
        · rcases Std.lt_trichotomy a.label b.label with h5 | h5 | h5
          · left; right; exact ⟨h1, Or.inr ⟨h2, Or.inr ⟨h3, Or.inr ⟨h4, Or.inl h5⟩⟩⟩⟩
          · exact absurd (by simp [keys, h1, h2, h3, h4, h5]) h
          · right; right; exact ⟨h1.symm, Or.inr ⟨h2.symm, Or.inr ⟨h3.symm, Or.inr ⟨h4.symm, Or.inl h5⟩⟩⟩⟩
        · right; right; exact ⟨h1.symm, Or.inr ⟨h2.symm, Or.inr ⟨h3.symm, Or.inl h4⟩⟩⟩
      · left; right; exact ⟨h1, Or.inr ⟨h2, Or.inl h3⟩⟩
    · right; right; exact ⟨h1.symm, Or.inl h2⟩
  · left; left; exact h1

/-- sortedness: nobody later in the list is strictly before somebody earlier -/
def Sorted (l : List PQItem) : Prop := l.Pairwise (fun a b => b.less a = false)

theorem pqInsert_perm (x : PQItem) (l : List PQItem) : (pqInsert x l).Perm (x :: l) := by
  induction l with
  | nil => exact List.Perm.refl _
  | cons h t ih =>
    unfold pqInsert
    split
    · exact List.Perm.refl _
    · exact (List.Perm.cons h ih).trans (List.Perm.swap x h t)

theorem pqSort_perm (l : List PQItem) : (pqSort l).Perm l := by
  induction l with
  | nil => exact List.Perm.refl _
  | cons h t ih =>
    unfold pqSort at ih ⊢
    simp only [List.foldr_cons]
    exact (pqInsert_perm h _).trans (List.Perm.cons h ih)

theorem pqInsert_sorted (x : PQItem) (l : List PQItem) (hs : Sorted l) : Sorted (pqInsert x l) := by
  induction l with
  | nil => simp [pqInsert, Sorted]
  | cons h t ih =>
    unfold pqInsert
    have hsw := less_strictWeak
    split
    · rename_i hx
      -- x before h: everything in h :: t is not before x
      unfold Sorted at hs ⊢
      rw [List.pairwise_cons] at hs ⊢
      refine ⟨?_, List.pairwise_cons.mpr hs⟩
      intro y hy
      rcases List.mem_cons.mp hy with rfl | hy
      · cases hyx : PQItem.less y x with
        | false => rfl
        | true => exact absurd (hsw.trans _ _ _ hx hyx) (hsw.irrefl _)
      · cases hyx : PQItem.less y x with
        | false => rfl
        | true =>
          have := hs.1 y hy
          have := hsw.trans _ _ _ hyx hx
          simp_all
    · rename_i hx
      unfold Sorted at hs ⊢
      rw [List.pairwise_cons] at hs ⊢
      refine ⟨?_, ih hs.2⟩
      intro y hy
      have hp := (pqInsert_perm x t).mem_iff.mp hy
      rcases List.mem_cons.mp hp with rfl | hy'
      · simpa using hx
      · exact hs.1 y hy'

/-- what comes out of the priority queue is sorted by `Less` … -/
theorem pqSort_sorted (l : List PQItem) : Sorted (pqSort l) := by
  induction l with
  | nil => simp [pqSort, Sorted]
  | cons h t ih => unfold pqSort at ih ⊢; simp only [List.foldr_cons]; exact pqInsert_sorted h _ ih

/-- … and, when no two items agree on all five keys, it is the ONLY sorted arrangement: any two sorted
permutations of the same items are equal, whatever order the items were pushed in (map iteration order,
creation order).  This is the determinism clause of the property. -/
theorem sorted_perm_unique : ∀ (l₁ l₂ : List PQItem), l₁.Perm l₂ → Sorted l₁ → Sorted l₂ →
    l₁.Pairwise (fun a b => keys a ≠ keys b) → l₁ = l₂ := by
  intro l₁
  induction l₁ with
  | nil => intro l₂ hp _ _ _; exact (List.Perm.nil_eq hp)
  | cons a t ih =>
    intro l₂ hp hs1 hs2 hk
    cases l₂ with
    | nil => exact absurd hp.symm (List.Perm.nil_eq · |> fun h => by cases h)
    | cons b u =>
      unfold Sorted at hs1 hs2
      rw [List.pairwise_cons] at hs1 hs2 hk
      -- the heads coincide
      have hab : a = b := by
        false_or_by_contra; rename_i hne
        have ha : a ∈ u := by
          have := hp.mem_iff.mp (List.mem_cons_self ..)
          rcases List.mem_cons.mp this with h | h
          · exact absurd h hne
          · exact h
        have hb : b ∈ t := by
          have := hp.mem_iff.mpr (List.mem_cons_self ..)
          rcases List.mem_cons.mp this with h | h
          · exact absurd h.symm hne
          · exact h
        have h1 := hs1.1 b hb   -- ¬ b < a
        have h2 := hs2.1 a ha   -- ¬ a < b
        rcases less_total_of_keys_ne a b (hk.1 b hb) with h | h <;> simp_all
      subst hab
      congr 1
      exact ih u (List.Perm.cons_inv hp) hs1.2 hs2.2 hk.2

/-- pushing the same items in any order yields the same list -/
theorem pqSort_order_independent (l₁ l₂ : List PQItem) (hp : l₁.Perm l₂)
    (hk : l₁.Pairwise (fun a b => keys a ≠ keys b)) : pqSort l₁ = pqSort l₂ := by
  apply sorted_perm_unique _ _ (((pqSort_perm l₁).trans hp).trans (pqSort_perm l₂).symm) (pqSort_sorted _) (pqSort_sorted _)
  exact (pqSort_perm l₁).symm.pairwise hk (fun h => Ne.symm h)

/-- **the node is served from the first entry of the ordered list that has room**: every entry tried
before the serving one failed to provide a block in one of its families -/
theorem served_is_first_with_room : ∀ (l : List Nat) (a a' : Alloc) (cidrs : List Cidr) (i : Nat),
    a.prioritized l = (a', some (cidrs, i)) →
    ∃ pre post, l = pre ++ i :: post ∧
      ∃ a0 : Alloc, (a0.tryEntry i).2 = some cidrs ∧ (a0.tryEntry i).1 = a' := by
  intro l
  induction l with
  | nil => intro a a' c i h; simp [Alloc.prioritized] at h
  | cons j rest ih =>
    intro a a' c i h
    unfold Alloc.prioritized at h
    split at h
    · rename_i a1 cs heq
      simp only [Prod.mk.injEq, Option.some.injEq] at h
      obtain ⟨rfl, rfl, rfl⟩ := h
      exact ⟨[], rest, rfl, a, by rw [heq], by rw [heq]⟩
    · rename_i a1 heq
      obtain ⟨pre, post, hl, a0, h1, h2⟩ := ih a1 a' c i h
      exact ⟨j :: pre, post, by rw [hl]; rfl, a0, h1, h2⟩

/-- entries before the serving one did not serve -/
theorem earlier_entries_refused : ∀ (l : List Nat) (a a' : Alloc) (r : Option (List Cidr × Nat)) (j : Nat) (rest : List Nat),
    l = j :: rest → a.prioritized l = (a', r) → (a.tryEntry j).2 = none →
    a.prioritized l = (a.tryEntry j).1.prioritized rest := by
  intro l a a' r j rest hl _ hn
  subst hl
  conv => lhs; unfold Alloc.prioritized
  split
  · rename_i heq; rw [heq] at hn; cases hn
  · rename_i heq; rw [heq]

example : pqSort [⟨0, 1, 16, 28, "zone in (a)", "10.0.0.0/24"⟩, ⟨1, 2, 16, 28, "gpu,zone in (a)", "10.0.1.0/24"⟩,
    ⟨2, 1, 4, 28, "zone in (a)", "10.0.2.0/26"⟩] = [⟨1, 2, 16, 28, "gpu,zone in (a)", "10.0.1.0/24"⟩,
    ⟨2, 1, 4, 28, "zone in (a)", "10.0.2.0/26"⟩, ⟨0, 1, 16, 28, "zone in (a)", "10.0.0.0/24"⟩] := by decide

end Ipam.C07
