import IpamVerif.AllocOrder
import IpamVerif.System
import IpamVerif.Props.C02
import IpamVerif.Justified
/-!
# C09 — pod CIDRs never overlap the configured service ranges

`filterOutServiceRange` occupies, in every pool of the service range's family that it meets, every block
it touches (C13's index range: inside / equal / containing / smaller than a block).  `allocateCIDR` never
returns a used block.  Hence, as long as those blocks stay used — they do along any continuation
consisting of allocations, the property's quantifier — no assignment meets the service range.
Entries without a pool of the service range's family are skipped (after the repair of
`associatedCIDRSet`; before it the model step was a nil dereference).
-/
namespace Ipam.C09
open Ipam

/-- all blocks of entry pools of the family that meet the service range are used -/
def Covered (a : Alloc) (svc : Cidr) : Prop :=
  ∀ i c p, a.get? i = some c → c.pool svc.fam = some p → ∀ k, k < p.max → ¬ (goBlock p.geo k).Disjoint svc → k ∈ p.used

/-- `occupyServiceCIDR` on one entry -/
theorem occupyService_covers (c : CC) (hwf : c.WF) (svc : Cidr) (hsvc : svc.WF) :
    (c.occupyService svc).WF ∧
    ∀ p, (c.occupyService svc).pool svc.fam = some p → ∀ k, k < p.max → ¬ (goBlock p.geo k).Disjoint svc → k ∈ p.used := by
  unfold CC.occupyService
  cases hp : c.pool svc.fam with
  | none =>
    simp only
    exact ⟨hwf, by intro p h; rw [hp] at h; cases h⟩
  | some p =>
    simp only
    have hok := hwf _ _ hp
    have hrange := Geo.range_WF hok.2.1.1
    by_cases hov : goOverlap p.geo.range svc = true
    · rw [if_pos hov]
      unfold CC.occupy
      rw [hp]
      simp only
      cases hocc : p.occupy svc with
      | none => 
        -- impossible: the ranges intersect
        exfalso
        have := (C14.occupy_refines hok.2.1 hok.1 hsvc).1.mp hocc
        rcases this with h | h
        · exact h hok.2.2.symm
        · rw [goOverlap_iff hrange hsvc (by simp [Geo.range, hok.2.2])] at hov
          exact hov (Cidr.disjoint_comm.mp h)
      | some p' =>
        simp only
        obtain ⟨hI', hg, _, _, hm⟩ := (C14.occupy_refines hok.2.1 hok.1 hsvc).2 p' hocc
        refine ⟨CC.WF_setPool hwf ⟨hI', hg ▸ hok.2.1, hg ▸ hok.2.2⟩, ?_⟩
        intro q hq k hk hnd
        rw [CC.pool_setPool_same] at hq
        cases hq
        have hmax : p'.max = p.max := by unfold Pool.max; rw [hg]
        rw [hm k]
        right
        exact ⟨hmax ▸ hk, hg ▸ hnd⟩
    · rw [if_neg hov]
      refine ⟨hwf, ?_⟩
      intro q hq k hk hnd
      rw [hp] at hq; cases hq
      -- a block of the range cannot meet a CIDR the range does not meet
      exfalso
      apply hnd
      have hsub := (C13.block_is_ith_subrange hok.2.1 hk).2.2
      have hd : p.geo.range.Disjoint svc := by
        false_or_by_contra; rename_i hnn
        exact hov ((goOverlap_iff hrange hsvc (by simp [Geo.range, hok.2.2])).mpr hnn)
      unfold Cidr.Disjoint at hd ⊢
      have := hsub.1; have := hsub.2
      omega

/-- **after `filterOutServiceRange` every block of every mapped pool that meets the service range is used** -/
theorem filterService_covers (a : Alloc) (ha : a.WF) (svc : Cidr) (hsvc : svc.WF) :
    (a.filterService svc).WF ∧ Covered (a.filterService svc) svc := by
  have hget : ∀ i c', (a.filterService svc).get? i = some c' → ∃ c, a.get? i = some c ∧ c' = c.occupyService svc := by
    intro i c' h
    unfold Alloc.filterService Alloc.get? at *
    simp only [List.getElem?_map] at h
    cases hc : a.ccs[i]? with
    | none => rw [hc] at h; cases h
    | some c => rw [hc] at h; simp only [Option.map_some, Option.some.injEq] at h; exact ⟨c, rfl, h.symm⟩
  constructor
  · intro i c' h
    obtain ⟨c, hc, rfl⟩ := hget i c' h
    exact (occupyService_covers c (ha i c hc) svc hsvc).1
  · intro i c' p h hp k hk hnd
    obtain ⟨c, hc, rfl⟩ := hget i c' h
    exact (occupyService_covers c (ha i c hc) svc hsvc).2 p hp k hk hnd

/-- **no allocation from a covered map meets the service range** -/
theorem allocation_avoids_service {a a' : Alloc} (ha : a.WF) {svc : Cidr} (hcov : Covered a svc)
    {i : Nat} {c : CC} {p : Pool} {blk : Cidr} (hget : a.get? i = some c) (hp : c.pool svc.fam = some p)
    (h : a.allocate i svc.fam = (a', some blk)) : blk.Disjoint svc := by
  have hok := ha i c hget _ p hp
  obtain ⟨k, x, p', hk, hb, hfree, _⟩ := (allocate_spec hget hp hok).2 a' blk h
  false_or_by_contra; rename_i hnd
  exact hfree (hcov i c p hget hp k hk (hb ▸ hnd))

/-- a block of the other family never meets the service range (different address families) -/
theorem other_family_disjoint {blk svc : Cidr} (h : blk.fam ≠ svc.fam) : goOverlap blk svc = false :=
  goOverlap_diff_fam h

/-- allocations keep the service blocks used: `allocateCIDR` only adds to the used sets -/
theorem allocate_keeps_covered {a a' : Alloc} (ha : a.WF) {svc : Cidr} (hcov : Covered a svc)
    {i : Nat} {f : Fam} {c : CC} {p : Pool} {r : Option Cidr} (hget : a.get? i = some c) (hp : c.pool f = some p)
    (h : a.allocate i f = (a', r)) : Covered a' svc := by
  have hok := ha i c hget f p hp
  obtain ⟨h1, h2⟩ := allocate_spec hget hp hok
  -- in both outcomes entry `i`'s pool `f` keeps its geometry and all its used blocks
  have key : ∃ p', a' = a.set i (c.setPool f p') ∧ p'.geo = p.geo ∧ ∀ k, k ∈ p.used → k ∈ p'.used := by
    cases r with
    | none =>
      obtain ⟨_, x, hx, _⟩ := h1 a' h
      exact ⟨_, hx, rfl, fun k hk => hk⟩
    | some blk =>
      obtain ⟨k, x, p', hk, hb, _, _, hx, hocc, ha'⟩ := h2 a' blk h
      have hokx : PoolOK f ({ p with cursor := x } : Pool) :=
        ⟨{ toInv0 := { nodup := hok.1.nodup, bound := hok.1.bound, count_eq := hok.1.count_eq, cursor_lt := hx,
                       metrics := hok.1.metrics, maxg := hok.1.maxg }, usage_eq := hok.1.usage_eq }, hok.2.1, hok.2.2⟩
      obtain ⟨_, hg, _, _, hm⟩ := (C14.occupy_refines hokx.2.1 hokx.1 (hb ▸ goBlock_WF hok hk)).2 p' hocc
      exact ⟨p', ha', hg, fun j hj => (hm j).mpr (Or.inl hj)⟩
  obtain ⟨p', rfl, hg, hmono⟩ := key
  intro j d q hj hq k hk hnd
  by_cases hij : i = j
  · subst hij
    rw [Alloc.get?_set_self _ _ _ _ hget] at hj
    cases hj
    by_cases hf : svc.fam = f
    · subst hf
      rw [CC.pool_setPool_same] at hq
      cases hq
      have hmax : p'.max = p.max := by unfold Pool.max; rw [hg]
      exact hmono k (hcov i c p hget hp k (hmax ▸ hk) (hg ▸ hnd))
    · rw [CC.pool_setPool_other _ _ _ _ hf] at hq
      exact hcov i c q hget hq k hk hnd
  · rw [Alloc.get?_set_ne _ _ _ _ hij] at hj
    exact hcov j d q hj hq k hk hnd


/-- pools only grew (associations and flags may differ) -/
def PoolsLe (a a' : Alloc) : Prop :=
  a'.ccs.length = a.ccs.length ∧ ∀ j c, a.get? j = some c → ∃ c', a'.get? j = some c' ∧ ∀ g, OptPoolLe (c.pool g) (c'.pool g)

theorem PoolsLe.refl (a : Alloc) : PoolsLe a a := ⟨rfl, fun _ c h => ⟨c, h, fun _ => OptPoolLe.refl _⟩⟩
theorem PoolsLe.trans {a b c : Alloc} (h1 : PoolsLe a b) (h2 : PoolsLe b c) : PoolsLe a c := by
  refine ⟨h2.1.trans h1.1, ?_⟩
  intro j x hx
  obtain ⟨y, hy, hxy⟩ := h1.2 j x hx
  obtain ⟨z, hz, hyz⟩ := h2.2 j y hy
  exact ⟨z, hz, fun g => OptPoolLe.trans (hxy g) (hyz g)⟩
theorem PoolsLe.of_le {a a' : Alloc} (h : AllocLe a a') : PoolsLe a a' :=
  ⟨h.1, fun j c hc => let ⟨c', h1, h2⟩ := h.2 j c hc; ⟨c', h1, h2.2.2.2.2.2⟩⟩

theorem get?_some_of_lt (a : Alloc) (j : Nat) (h : j < a.ccs.length) : ∃ c, a.get? j = some c := by
  unfold Alloc.get?; exact ⟨a.ccs[j], List.getElem?_eq_getElem h⟩
theorem lt_of_get?_some (a : Alloc) (j : Nat) (c : CC) (h : a.get? j = some c) : j < a.ccs.length := by
  unfold Alloc.get? at h
  false_or_by_contra; rename_i hn
  rw [List.getElem?_eq_none (by omega)] at h; cases h

/-- the cover of a service range survives any growth of the pools -/
theorem Covered_of_poolsLe {a a' : Alloc} {svc : Cidr} (h : PoolsLe a a') (hc : Covered a svc) : Covered a' svc := by
  intro j c' p' hj hp k hk hnd
  have hlt := lt_of_get?_some a' j c' hj
  rw [h.1] at hlt
  obtain ⟨c, hcj⟩ := get?_some_of_lt a j hlt
  obtain ⟨c'', hj'', hle⟩ := h.2 j c hcj
  rw [hj] at hj''; cases hj''
  have := hle svc.fam
  rw [hp] at this
  cases hq : c.pool svc.fam with
  | none => rw [hq] at this; exact this.elim
  | some p =>
    rw [hq] at this
    have hmax : p'.max = p.max := by unfold Pool.max; rw [this.1]
    exact this.2.2 k (hc j c p hcj hq k (hmax ▸ hk) (this.1 ▸ hnd))

/-- whatever one entry serves avoids a covered service range -/
theorem tryEntry_avoids_service {a a' : Alloc} (ha : a.WF) {svc : Cidr} (hsvc : svc.WF) (hcov : Covered a svc) {i : Nat} {c : CC}
    {cidrs : List Cidr} (hget : a.get? i = some c) (h : a.tryEntry i = (a', some cidrs)) :
    ∀ b ∈ cidrs, goOverlap b svc = false := by
  -- a block of family `f` served from entry `i` of a covered, well-formed state
  have one : ∀ (s s' : Alloc) (d : CC) (f : Fam) (p : Pool) (blk : Cidr), s.WF → Covered s svc → s.get? i = some d →
      d.pool f = some p → s.allocate i f = (s', some blk) → goOverlap blk svc = false := by
    intro s s' d f p blk hs hcs hd hp hal
    obtain ⟨k, hk, hb, _, hbw, hbf⟩ := allocate_ok hd hp (hs i d hd f p hp) hal
    by_cases hf : svc.fam = f
    · subst hf
      have hdis := allocation_avoids_service hs hcs hd hp hal
      cases ho : goOverlap blk svc with
      | false => rfl
      | true => exact absurd hdis ((goOverlap_iff hbw hsvc hbf).mp ho)
    · exact goOverlap_diff_fam (by rw [hbf]; exact fun e => hf e.symm)
  unfold Alloc.tryEntry at h
  simp only [hget] at h
  cases h4 : c.v4 with
  | none =>
    rw [h4] at h
    simp only at h
    cases h6 : c.v6 with
    | none =>
      rw [h6] at h
      simp only [Prod.mk.injEq, Option.some.injEq] at h
      intro b hb; rw [← h.2] at hb; cases hb
    | some p6 =>
      rw [h6] at h
      simp only at h
      cases hal : a.allocate i .v6 with
      | mk a2 r2 =>
        rw [hal] at h
        cases r2 with
        | none => simp at h
        | some b6 =>
          simp only [List.nil_append, Prod.mk.injEq, Option.some.injEq] at h
          intro b hb
          rw [← h.2] at hb
          simp only [List.mem_singleton] at hb
          subst hb
          exact one a a2 c .v6 p6 b ha hcov hget (by simp [CC.pool, h6]) hal
  | some p4 =>
    rw [h4] at h
    simp only at h
    have hp4 : c.pool .v4 = some p4 := by simp [CC.pool, h4]
    cases hal : a.allocate i .v4 with
    | mk a1 r1 =>
      rw [hal] at h
      cases r1 with
      | none => simp at h
      | some b4 =>
        simp only at h
        have hb4 := one a a1 c .v4 p4 b4 ha hcov hget hp4 hal
        cases h6 : c.v6 with
        | none =>
          rw [h6] at h
          simp only [Prod.mk.injEq, Option.some.injEq] at h
          intro b hb
          rw [← h.2] at hb
          simp only [List.mem_singleton] at hb
          subst hb; exact hb4
        | some p6 =>
          rw [h6] at h
          simp only at h
          have hle1 := allocate_le ha hget hp4 hal
          obtain ⟨_, x4, p4', _, _, _, _, _, _, ha1⟩ := (allocate_spec hget hp4 (ha i c hget .v4 p4 hp4)).2 a1 b4 hal
          have hget1 : a1.get? i = some (c.setPool .v4 p4') := by rw [ha1]; exact Alloc.get?_set_self _ _ _ _ hget
          have hp6 : (c.setPool .v4 p4').pool .v6 = some p6 := by
            rw [CC.pool_setPool_other _ _ _ _ (by decide)]; simp [CC.pool, h6]
          cases hal2 : a1.allocate i .v6 with
          | mk a2 r2 =>
            rw [hal2] at h
            cases r2 with
            | none => simp at h
            | some b6 =>
              simp only [Prod.mk.injEq, Option.some.injEq] at h
              have hb6 := one a1 a2 _ .v6 p6 b6 hle1.2.1 (Covered_of_poolsLe (PoolsLe.of_le hle1.1) hcov) hget1 hp6 hal2
              intro b hb
              rw [← h.2] at hb
              simp only [List.cons_append, List.nil_append, List.mem_cons, List.mem_singleton, List.not_mem_nil, or_false] at hb
              rcases hb with rfl | rfl
              · exact hb4
              · exact hb6

/-- … and so does whatever `prioritizedCIDRs` reserves -/
theorem prioritized_avoids_service {a : Alloc} (ha : a.WF) {svc : Cidr} (hsvc : svc.WF) (hcov : Covered a svc) :
    ∀ (l : List Nat) {a' : Alloc} {cidrs : List Cidr} {i : Nat}, a.prioritized l = (a', some (cidrs, i)) →
      ∀ b ∈ cidrs, goOverlap b svc = false := by
  intro l
  induction l generalizing a with
  | nil => intro a' cidrs i h; simp [Alloc.prioritized] at h
  | cons j rest ih =>
    intro a' cidrs i h
    unfold Alloc.prioritized at h
    cases ht : a.tryEntry j with
    | mk a1 r1 =>
      rw [ht] at h
      cases hg : a.get? j with
      | none =>
        unfold Alloc.tryEntry at ht
        simp only [hg, Prod.mk.injEq] at ht
        obtain ⟨rfl, rfl⟩ := ht
        simp only at h
        exact ih ha hcov h
      | some c =>
        cases r1 with
        | some cs =>
          simp only [Prod.mk.injEq, Option.some.injEq] at h
          obtain ⟨rfl, rfl, rfl⟩ := h
          exact tryEntry_avoids_service ha hsvc hcov hg ht
        | none =>
          simp only at h
          have := tryEntry_le ha hg ht
          exact ih this.2.1 (Covered_of_poolsLe (PoolsLe.of_le this.1) hcov) h


/-! ### the controller level -/

/-- every configured service range is covered -/
def CoveredAll (s : Sys) : Prop := ∀ svc ∈ s.svcs, svc.WF ∧ Covered s.alloc svc

theorem updateCIDRsAllocation_svcs (s : Sys) (name : String) (cidrs : List Cidr) (i : Nat) (ws : List WOut) :
    (updateCIDRsAllocation s name cidrs i ws).1.svcs = s.svcs := by
  unfold updateCIDRsAllocation
  split
  · rfl
  · split
    · rfl
    · split
      · split <;> rfl
      · simp only; split <;> rfl

theorem allocateOrOccupy_svcs (s : Sys) (n : NodeObj) (r : Bool) (ws : List WOut) :
    (allocateOrOccupy s n r ws).1.svcs = s.svcs := by
  unfold allocateOrOccupy
  split
  · split <;> rfl
  · split
    · rfl
    · split
      · rfl
      · simp only
        split
        · split
          · rw [updateCIDRsAllocation_svcs]
          · simp only [updateCIDRsAllocation_svcs]
        · rw [updateCIDRsAllocation_svcs]

/-- **no PATCH of a node item meets a configured service range** — for every ClusterCIDR mapped, whatever the
relative sizes of service range, ClusterCIDR range and per-node block, whatever the write outcomes -/
theorem item_patches_avoid_service (s : Sys) (hwf : s.alloc.WF) (hcov : CoveredAll s) (n : NodeObj) (refresh : Bool)
    (ws : List WOut) :
    ∀ p ∈ (allocateOrOccupy s n refresh ws).2.patches, ∀ b ∈ p.2.1, ∀ svc ∈ s.svcs, goOverlap b svc = false := by
  intro p hp b hb svc hsvc
  have hne : (allocateOrOccupy s n refresh ws).2.patches ≠ [] := fun h => by rw [h] at hp; cases hp
  obtain ⟨al, cidrs, i, hpr, hall⟩ := C02.patch_comes_from_one_entry s n refresh ws hne
  have := (hall p hp).2
  rw [this] at hb
  exact prioritized_avoids_service hwf (hcov svc hsvc).1 (hcov svc hsvc).2 _ hpr b hb

/-- **an allocation item keeps every service range covered** (used sets only grow or are restored) -/
theorem item_keeps_covered (s : Sys) (hwf : s.alloc.WF) (hcov : CoveredAll s) (n : NodeObj) (refresh : Bool)
    (ws : List WOut) (hn : n.hasCidrs = false)
    (hr : refresh = true → (getNode s.api.nodes n.name).isSome = true) : CoveredAll (allocateOrOccupy s n refresh ws).1 := by
  intro svc hsvc
  rw [allocateOrOccupy_svcs] at hsvc
  refine ⟨(hcov svc hsvc).1, ?_⟩
  rcases C04.item_keeps_only_justified_reservations s hwf n refresh ws hn hr with h | ⟨al, cidrs, i, hpr, _, h⟩
  · exact Covered_of_poolsLe (PoolsLe.of_le h.1) (hcov svc hsvc).2
  · have hle := (C04.attempt_only_grows hwf _ _ hpr).1
    have hcal := Covered_of_poolsLe (PoolsLe.of_le hle) (hcov svc hsvc).2
    rcases h with h | ⟨c, hc, h⟩
    · rw [h]; exact hcal
    · rw [h]
      -- recording the association touches no pool
      apply Covered_of_poolsLe _ hcal
      refine ⟨by simp, ?_⟩
      intro j d hd
      by_cases hij : i = j
      · subst hij
        rw [hc] at hd; cases hd
        refine ⟨_, Alloc.get?_set_self _ _ _ _ hc, ?_⟩
        intro g
        have : (c.addAssoc n.name).pool g = c.pool g := by
          unfold CC.addAssoc; split <;> rfl
        rw [this]; exact OptPoolLe.refl _
      · exact ⟨d, by rw [Alloc.get?_set_ne _ _ _ _ hij]; exact hd, fun g => OptPoolLe.refl _⟩


/-- a range field the model's theorems cover: a parsed CIDR as Go delivers it, not the single 2^32-block geometry -/
def FieldOK (fld : RangeField) (hb : Int) : Prop :=
  match fld with
  | .ok c _ => c.WF ∧ ¬ (c.fam = .v4 ∧ c.len = 0 ∧ hb = 0)
  | _ => True

def SpecOK (sp : CCSpec) : Prop := FieldOK sp.ipv4 sp.hostBits ∧ FieldOK sp.ipv6 sp.hostBits

theorem buildPool_ok {fld : RangeField} {want : Fam} {hb : Int} {p : Pool} (hf : FieldOK fld hb)
    (h : buildPool fld want hb = some (some p)) : PoolOK want p := by
  unfold buildPool at h
  split at h
  · cases h
  · cases h
  · rename_i c label
    split at h
    · cases h
    · rename_i hfam
      cases hg : newGeo c hb with
      | none => rw [hg] at h; cases h
      | some g =>
        rw [hg] at h
        simp only [Option.some.injEq] at h
        subst h
        obtain ⟨hcw, hnot⟩ := hf
        have hv := C13.newGeo_valid hcw hg
        have hgf : g.fam = c.fam := by
          unfold newGeo at hg; simp only at hg
          split at hg
          · cases hg
          · split at hg
            · cases hg
            · cases hg; rfl
        refine ⟨Pool.new_inv g label, ⟨hv, ?_⟩, by simp [Pool.new, hgf]; simpa using hfam⟩
        -- capacity below 2^32 unless IPv6
        cases hcf : c.fam with
        | v6 => right; simp [Pool.new, hgf, hcf]
        | v4 =>
          left
          unfold newGeo at hg; simp only at hg
          split at hg
          · cases hg
          · split at hg
            · cases hg
            · rename_i h1 h2
              cases hg
              simp only [Pool.new, Geo.max]
              have hW : c.W = 32 := by simp [Cidr.W, hcf, Fam.W]
              apply Nat.pow_lt_pow_right (by decide)
              have hl := hcw.1
              have : ¬ (c.len = 0 ∧ hb = 0) := fun hh => hnot ⟨hcf, hh.1, hh.2⟩
              omega

theorem buildCC_WF {key : String} {reqs : List Req} {name : String} {spec : CCSpec} {t : Bool} {c : CC}
    (hs : SpecOK spec) (h : buildCC key reqs name spec t = some c) : c.WF := by
  unfold buildCC at h
  cases h4 : buildPool spec.ipv4 .v4 spec.hostBits with
  | none => rw [h4] at h; cases h
  | some p4 =>
    rw [h4] at h
    cases h6 : buildPool spec.ipv6 .v6 spec.hostBits with
    | none => rw [h6] at h; cases h
    | some p6 =>
      rw [h6] at h
      simp only at h
      split at h
      · cases h
      · cases h
        intro f p hp
        cases f with
        | v4 =>
          simp only [CC.pool] at hp
          subst hp
          exact buildPool_ok hs.1 h4
        | v6 =>
          simp only [CC.pool] at hp
          subst hp
          exact buildPool_ok hs.2 h6

theorem Alloc.WF_append {a : Alloc} (ha : a.WF) {c : CC} (hc : c.WF) : (Alloc.mk (a.ccs ++ [c])).WF := by
  intro j d hd
  unfold Alloc.get? at hd
  simp only at hd
  by_cases hj : j < a.ccs.length
  · rw [List.getElem?_append_left hj] at hd; exact ha j d hd
  · rw [List.getElem?_append_right (by omega)] at hd
    cases hk : j - a.ccs.length with
    | zero => rw [hk] at hd; simp at hd; subst hd; exact hc
    | succ k => rw [hk] at hd; simp at hd

theorem createCC_WF {a a' : Alloc} (ha : a.WF) {name : String} {spec : CCSpec} {t : Bool} (hs : SpecOK spec)
    (h : a.createCC name spec t = some a') : a'.WF := by
  unfold Alloc.createCC at h
  cases hsel : selectorOf spec.sel with
  | none => rw [hsel] at h; cases h
  | some reqs =>
    rw [hsel] at h
    simp only at h
    split at h
    · cases h; exact ha
    · cases hb : buildCC (printSel reqs) reqs name spec t with
      | none => rw [hb] at h; cases h
      | some c => rw [hb] at h; cases h; exact Alloc.WF_append ha (buildCC_WF hs hb)

/-- `filterOutServiceRange` only adds to the pools -/
theorem filterService_poolsLe (a : Alloc) (ha : a.WF) (svc : Cidr) (hsvc : svc.WF) : PoolsLe a (a.filterService svc) := by
  refine ⟨by simp [Alloc.filterService], ?_⟩
  intro j c hc
  refine ⟨c.occupyService svc, by unfold Alloc.filterService Alloc.get? at *; simp [hc], ?_⟩
  intro g
  unfold CC.occupyService
  cases hp : c.pool svc.fam with
  | none => simp only; exact OptPoolLe.refl _
  | some p =>
    simp only
    split
    · unfold CC.occupy
      rw [hp]
      simp only
      cases hocc : p.occupy svc with
      | none => simp only; exact OptPoolLe.refl _
      | some p' =>
        simp only
        have hok := ha j c hc _ p hp
        obtain ⟨_, hg, _, hl, hm⟩ := (C14.occupy_refines hok.2.1 hok.1 hsvc).2 p' hocc
        by_cases hgf : g = svc.fam
        · subst hgf
          rw [hp, CC.pool_setPool_same]
          exact ⟨hg, hl, fun k hk => (hm k).mpr (Or.inl hk)⟩
        · rw [CC.pool_setPool_other _ _ _ _ hgf]; exact OptPoolLe.refl _
    · exact OptPoolLe.refl _

/-- all service ranges of a start-up are covered after the fold of `filterOutServiceRange` -/
theorem filterAll_covers : ∀ (svcs : List Cidr) (a : Alloc), a.WF → (∀ s ∈ svcs, s.WF) →
    (svcs.foldl (fun a sv => a.filterService sv) a).WF ∧
    (∀ s ∈ svcs, Covered (svcs.foldl (fun a sv => a.filterService sv) a) s) ∧
    PoolsLe a (svcs.foldl (fun a sv => a.filterService sv) a) := by
  intro svcs
  induction svcs with
  | nil => intro a ha _; exact ⟨ha, by simp, PoolsLe.refl a⟩
  | cons sv rest ih =>
    intro a ha hw
    have hsv := hw sv (List.mem_cons_self ..)
    obtain ⟨hwf1, hcov1⟩ := filterService_covers a ha sv hsv
    obtain ⟨hwf2, hcov2, hle2⟩ := ih (a.filterService sv) hwf1 (fun s hs => hw s (List.mem_cons_of_mem _ hs))
    simp only [List.foldl_cons]
    refine ⟨hwf2, ?_, PoolsLe.trans (filterService_poolsLe a ha sv hsv) hle2⟩
    intro s hs
    rcases List.mem_cons.mp hs with rfl | hs
    · exact Covered_of_poolsLe hle2 hcov1
    · exact hcov2 s hs



theorem CC.occupy_poolsLe {c c' : CC} (hc : c.WF) {cd : Cidr} (hcd : cd.WF) (h : c.occupy cd = some c') :
    c'.WF ∧ ∀ g, OptPoolLe (c.pool g) (c'.pool g) := by
  refine ⟨CC.WF_occupy hc hcd h, ?_⟩
  unfold CC.occupy at h
  cases hp : c.pool cd.fam with
  | none => rw [hp] at h; cases h
  | some p =>
    rw [hp] at h
    simp only at h
    cases hocc : p.occupy cd with
    | none => rw [hocc] at h; cases h
    | some p' =>
      rw [hocc] at h
      cases h
      have hok := hc _ p hp
      obtain ⟨_, hg, _, hl, hm⟩ := (C14.occupy_refines hok.2.1 hok.1 hcd).2 p' hocc
      intro g
      by_cases hgf : g = cd.fam
      · subst hgf; rw [hp, CC.pool_setPool_same]; exact ⟨hg, hl, fun k hk => (hm k).mpr (Or.inl hk)⟩
      · rw [CC.pool_setPool_other _ _ _ _ hgf]; exact OptPoolLe.refl _

theorem CC.occupyList_poolsLe : ∀ (cidrs : List Cidr) (c : CC), c.WF → (∀ cd ∈ cidrs, cd.WF) →
    (c.occupyList cidrs).1.WF ∧ ∀ g, OptPoolLe (c.pool g) ((c.occupyList cidrs).1.pool g) := by
  intro cidrs
  induction cidrs with
  | nil => intro c hc _; exact ⟨hc, fun g => OptPoolLe.refl _⟩
  | cons cd rest ih =>
    intro c hc hw
    unfold CC.occupyList
    cases ho : c.occupy cd with
    | none => simp only; exact ⟨hc, fun g => OptPoolLe.refl _⟩
    | some c' =>
      simp only
      obtain ⟨hwf', hle'⟩ := CC.occupy_poolsLe hc (hw cd (List.mem_cons_self ..)) ho
      obtain ⟨hwf2, hle2⟩ := ih c' hwf' (fun x hx => hw x (List.mem_cons_of_mem _ hx))
      exact ⟨hwf2, fun g => OptPoolLe.trans (hle' g) (hle2 g)⟩

theorem PoolsLe_set {a : Alloc} {i : Nat} {c c' : CC} (hget : a.get? i = some c)
    (hle : ∀ g, OptPoolLe (c.pool g) (c'.pool g)) : PoolsLe a (a.set i c') := by
  refine ⟨by simp, ?_⟩
  intro j d hd
  by_cases hij : i = j
  · subst hij; rw [hget] at hd; cases hd
    exact ⟨c', Alloc.get?_set_self _ _ _ _ hget, hle⟩
  · exact ⟨d, by rw [Alloc.get?_set_ne _ _ _ _ hij]; exact hd, fun g => OptPoolLe.refl _⟩

theorem addAssoc_pool (c : CC) (n : String) (g : Fam) : (c.addAssoc n).pool g = c.pool g := by
  unfold CC.addAssoc; split <;> rfl

theorem addAssoc_WF {c : CC} (hc : c.WF) (n : String) : (c.addAssoc n).WF := by
  intro g p hp; rw [addAssoc_pool] at hp; exact hc g p hp

/-- recording an existing node's pod CIDRs only adds to the pools -/
theorem occupyNode_poolsLe (name : String) (cidrs : List Cidr) (hw : ∀ cd ∈ cidrs, cd.WF) :
    ∀ (l : List Nat) (a : Alloc), a.WF → (a.occupyNode name cidrs l).1.WF ∧ PoolsLe a (a.occupyNode name cidrs l).1 := by
  intro l
  induction l with
  | nil => intro a ha; exact ⟨ha, PoolsLe.refl a⟩
  | cons i rest ih =>
    intro a ha
    unfold Alloc.occupyNode
    cases hg : a.get? i with
    | none => simp only; exact ih a ha
    | some c =>
      simp only
      obtain ⟨hwf', hle'⟩ := CC.occupyList_poolsLe cidrs c (ha i c hg) hw
      cases hr : c.occupyList cidrs with
      | mk c' okk =>
        rw [hr] at hwf' hle'
        cases okk with
        | true =>
          simp only
          refine ⟨Alloc.WF_set ha (addAssoc_WF hwf' name), PoolsLe_set hg (fun g => ?_)⟩
          rw [addAssoc_pool]; exact hle' g
        | false =>
          simp only
          have h1 : (a.set i c').WF := Alloc.WF_set ha hwf'
          obtain ⟨h2, h3⟩ := ih (a.set i c') h1
          exact ⟨h2, PoolsLe.trans (PoolsLe_set hg hle') h3⟩

theorem occupyCIDRs_poolsLe (a : Alloc) (ha : a.WF) (n : NodeObj) (hw : ∀ cd ∈ n.cidrs, cd.WF) :
    (occupyCIDRs a n).1.WF ∧ PoolsLe a (occupyCIDRs a n).1 := by
  unfold occupyCIDRs
  simp only
  split
  · exact ⟨ha, PoolsLe.refl a⟩
  · split
    · exact ⟨ha, PoolsLe.refl a⟩
    · exact occupyNode_poolsLe n.name n.cidrs hw _ a ha

theorem bootNodes_poolsLe : ∀ (l : List NodeObj) (a : Alloc), a.WF → (∀ n ∈ l, ∀ cd ∈ n.cidrs, cd.WF) →
    (bootNodes a l).WF ∧ PoolsLe a (bootNodes a l) := by
  intro l
  induction l with
  | nil => intro a ha _; exact ⟨ha, PoolsLe.refl a⟩
  | cons n rest ih =>
    intro a ha hw
    unfold bootNodes
    split
    · exact ih a ha (fun m hm => hw m (List.mem_cons_of_mem _ hm))
    · obtain ⟨h1, h2⟩ := occupyCIDRs_poolsLe a ha n (hw n (List.mem_cons_self ..))
      obtain ⟨h3, h4⟩ := ih _ h1 (fun m hm => hw m (List.mem_cons_of_mem _ hm))
      exact ⟨h3, PoolsLe.trans h2 h4⟩

theorem updateCC_nodes (a : Api) (name : String) (rv : Nat) (fins : List String) :
    (a.updateCC name rv fins).1.nodes = a.nodes := by
  unfold Api.updateCC
  split
  · rfl
  · split
    · rfl
    · split <;> rfl

theorem attemptUpdate_nodes (a : Api) (name : String) (rv : Nat) (fins : List String) (w : WOut) :
    (attemptUpdate a name rv fins w).1.nodes = a.nodes := by
  unfold attemptUpdate
  cases w <;> simp only <;> first | rfl | exact updateCC_nodes ..

theorem createClusterCIDR_WF (s : Sys) (hs : s.alloc.WF) (o : CCObj) (ho : SpecOK o.spec) (t : Bool) (w : WOut) :
    (createClusterCIDR s o t w).1.alloc.WF ∧ (createClusterCIDR s o t w).1.svcs = s.svcs ∧
    (createClusterCIDR s o t w).1.api.nodes = s.api.nodes := by
  unfold createClusterCIDR
  cases hc : s.alloc.createCC o.name o.spec t with
  | none => refine ⟨hs, ?_, ?_⟩ <;> first | rfl | trivial
  | some al =>
    simp only
    refine ⟨createCC_WF hs ho hc, ?_, ?_⟩
    · first | rfl | trivial
    · exact attemptUpdate_nodes _ _ _ _ _

theorem bootCCs_WF : ∀ (l : List CCObj) (s : Sys) (ws : List WOut) (acc : List (String × List String × String)),
    s.alloc.WF → (∀ o ∈ l, SpecOK o.spec) →
    (bootCCs s l ws acc).1.alloc.WF ∧ (bootCCs s l ws acc).1.svcs = s.svcs ∧ (bootCCs s l ws acc).1.api.nodes = s.api.nodes := by
  intro l
  induction l with
  | nil => intro s ws acc hs _; exact ⟨hs, rfl, rfl⟩
  | cons o rest ih =>
    intro s ws acc hs hl
    unfold bootCCs
    simp only
    obtain ⟨h1, h2, h3⟩ := createClusterCIDR_WF s hs o (hl o (List.mem_cons_self ..)) (decide (o.generation > 1)) (ws.headD .ok)
    obtain ⟨h4, h5, h6⟩ := ih (createClusterCIDR s o (decide (o.generation > 1)) (ws.headD .ok)).1
      (if (createClusterCIDR s o (decide (o.generation > 1)) (ws.headD .ok)).2.ccWrites.isEmpty then ws else ws.tail)
      (acc ++ (createClusterCIDR s o (decide (o.generation > 1)) (ws.headD .ok)).2.ccWrites) h1
      (fun x hx => hl x (List.mem_cons_of_mem _ hx))
    exact ⟨h4, h5.trans h2, h6.trans h3⟩

theorem mem_sortCCObjs (l : List CCObj) (o : CCObj) (h : o ∈ sortCCObjs l) : o ∈ l := by
  unfold sortCCObjs at h
  obtain ⟨n, _, hn⟩ := List.mem_filterMap.mp h
  unfold getCC at hn
  exact List.mem_of_find?_eq_some hn

theorem mem_sortNodeObjs (l : List NodeObj) (o : NodeObj) (h : o ∈ sortNodeObjs l) : o ∈ l := by
  unfold sortNodeObjs at h
  obtain ⟨n, _, hn⟩ := List.mem_filterMap.mp h
  unfold getNode at hn
  exact List.mem_of_find?_eq_some hn

/-- **start-up covers every configured service range in every ClusterCIDR known at that time** -/
theorem boot_covers (s : Sys) (svcs : List Cidr) (ws : List WOut)
    (hspecs : ∀ o ∈ s.api.ccs, SpecOK o.spec) (hsvcs : ∀ sv ∈ svcs, sv.WF)
    (hnodes : ∀ n ∈ s.api.nodes, ∀ cd ∈ n.cidrs, cd.WF) :
    (boot s svcs ws).1.alloc.WF ∧ CoveredAll (boot s svcs ws).1 := by
  unfold boot
  simp only
  have hinit : (Alloc.mk []).WF := by intro j c h; simp [Alloc.get?] at h
  obtain ⟨h1, h2, h3⟩ := bootCCs_WF (sortCCObjs s.api.ccs)
    { s with alloc := ⟨[]⟩, nodeView := [], ccView := [], nodeQ := [], ccQ := [], svcs := svcs } ws [] hinit
    (fun o ho => hspecs o (mem_sortCCObjs _ _ ho))
  obtain ⟨h4, h5, _⟩ := filterAll_covers svcs _ h1 hsvcs
  obtain ⟨h7, h8⟩ := bootNodes_poolsLe (sortNodeObjs s.api.nodes) _ h4
    (fun n hn => hnodes n (mem_sortNodeObjs _ _ hn))
  refine ⟨h7, ?_⟩
  intro sv hsv
  simp only at hsv
  rw [h2] at hsv
  exact ⟨hsvcs sv hsv, Covered_of_poolsLe h8 (h5 sv hsv)⟩



/-- non-vacuity: a state with a ClusterCIDR, a node holding one of its blocks and a service range inside
it meets the hypotheses of `boot_covers` -/
example :
    let cc : CCObj := ⟨"cc", ⟨none, 4, .ok ⟨.v4, 167772160, 24⟩ "10.0.0.0/24", .empty⟩, [], false, 1, 1⟩
    let nd : NodeObj := ⟨"n", [], [⟨.v4, 167772160 + 32, 28⟩], false, false⟩
    let s : Sys := { (Sys.init) with api := { (Sys.init).api with ccs := [cc], nodes := [nd] } }
    (∀ o ∈ s.api.ccs, SpecOK o.spec) ∧ (∀ sv ∈ [(⟨.v4, 167772160, 26⟩ : Cidr)], sv.WF) ∧
    (∀ n ∈ s.api.nodes, ∀ cd ∈ n.cidrs, cd.WF) := by
  refine ⟨?_, ?_, ?_⟩
  · intro o ho
    simp only [List.mem_singleton] at ho
    subst ho
    exact ⟨⟨by decide, by decide⟩, trivial⟩
  · intro sv hsv
    simp only [List.mem_singleton] at hsv
    subst hsv; decide
  · intro n hn cd hcd
    simp only [List.mem_singleton] at hn
    subst hn
    simp only [List.mem_singleton] at hcd
    subst hcd; decide

end Ipam.C09
