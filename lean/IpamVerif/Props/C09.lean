import IpamVerif.AllocOrder
import IpamVerif.System
import IpamVerif.Props.C02
import IpamVerif.Props.C04
/-!
# C09 — pod CIDRs never overlap the configured service ranges

`filterOutServiceRange` occupies, in every pool of the service range's family that it meets, every block
it touches (C13's index range: inside / equal / containing / smaller than a block).  `allocateCIDR` never
returns a used block.  Hence, as long as those blocks stay used — they do along any continuation
consisting of allocations, the property's quantifier — no assignment meets the service range.
Entries without a pool of the service range's family are skipped (after the repair of
`associatedCIDRSet`; before it the model step was a nil dereference).
-/
namespace Ipam.C09
open Ipam

/-- all blocks of entry pools of the family that meet the service range are used -/
def Covered (a : Alloc) (svc : Cidr) : Prop :=
  ∀ i c p, a.get? i = some c → c.pool svc.fam = some p → ∀ k, k < p.max → ¬ (goBlock p.geo k).Disjoint svc → k ∈ p.used

/-- `occupyServiceCIDR` on one entry -/
theorem occupyService_covers (c : CC) (hwf : c.WF) (svc : Cidr) (hsvc : svc.WF) :
    (c.occupyService svc).WF ∧
    ∀ p, (c.occupyService svc).pool svc.fam = some p → ∀ k, k < p.max → ¬ (goBlock p.geo k).Disjoint svc → k ∈ p.used := by
  unfold CC.occupyService
  cases hp : c.pool svc.fam with
  | none =>
    simp only
    exact ⟨hwf, by intro p h; rw [hp] at h; cases h⟩
  | some p =>
    simp only
    have hok := hwf _ _ hp
    have hrange := Geo.range_WF hok.2.1.1
    by_cases hov : goOverlap p.geo.range svc = true
    · rw [if_pos hov]
      unfold CC.occupy
      rw [hp]
      simp only
      cases hocc : p.occupy svc with
      | none => 
        -- impossible: the ranges intersect
        exfalso
        have := (C14.occupy_refines hok.2.1 hok.1 hsvc).1.mp hocc
        rcases this with h | h
        · exact h hok.2.2.symm
        · rw [goOverlap_iff hrange hsvc (by simp [Geo.range, hok.2.2])] at hov
          exact hov (Cidr.disjoint_comm.mp h)
      | some p' =>
        simp only
        obtain ⟨hI', hg, _, _, hm⟩ := (C14.occupy_refines hok.2.1 hok.1 hsvc).2 p' hocc
        refine ⟨CC.WF_setPool hwf ⟨hI', hg ▸ hok.2.1, hg ▸ hok.2.2⟩, ?_⟩
        intro q hq k hk hnd
        rw [CC.pool_setPool_same] at hq
        cases hq
        have hmax : p'.max = p.max := by unfold Pool.max; rw [hg]
        rw [hm k]
        right
        exact ⟨hmax ▸ hk, hg ▸ hnd⟩
    · rw [if_neg hov]
      refine ⟨hwf, ?_⟩
      intro q hq k hk hnd
      rw [hp] at hq; cases hq
      -- a block of the range cannot meet a CIDR the range does not meet
      exfalso
      apply hnd
      have hsub := (C13.block_is_ith_subrange hok.2.1 hk).2.2
      have hd : p.geo.range.Disjoint svc := by
        false_or_by_contra; rename_i hnn
        exact hov ((goOverlap_iff hrange hsvc (by simp [Geo.range, hok.2.2])).mpr hnn)
      unfold Cidr.Disjoint at hd ⊢
      have := hsub.1; have := hsub.2
      omega

/-- **after `filterOutServiceRange` every block of every mapped pool that meets the service range is used** -/
theorem filterService_covers (a : Alloc) (ha : a.WF) (svc : Cidr) (hsvc : svc.WF) :
    (a.filterService svc).WF ∧ Covered (a.filterService svc) svc := by
  have hget : ∀ i c', (a.filterService svc).get? i = some c' → ∃ c, a.get? i = some c ∧ c' = c.occupyService svc := by
    intro i c' h
    unfold Alloc.filterService Alloc.get? at *
    simp only [List.getElem?_map] at h
    cases hc : a.ccs[i]? with
    | none => rw [hc] at h; cases h
    | some c => rw [hc] at h; simp only [Option.map_some, Option.some.injEq] at h; exact ⟨c, rfl, h.symm⟩
  constructor
  · intro i c' h
    obtain ⟨c, hc, rfl⟩ := hget i c' h
    exact (occupyService_covers c (ha i c hc) svc hsvc).1
  · intro i c' p h hp k hk hnd
    obtain ⟨c, hc, rfl⟩ := hget i c' h
    exact (occupyService_covers c (ha i c hc) svc hsvc).2 p hp k hk hnd

/-- **no allocation from a covered map meets the service range** -/
theorem allocation_avoids_service {a a' : Alloc} (ha : a.WF) {svc : Cidr} (hcov : Covered a svc)
    {i : Nat} {c : CC} {p : Pool} {blk : Cidr} (hget : a.get? i = some c) (hp : c.pool svc.fam = some p)
    (h : a.allocate i svc.fam = (a', some blk)) : blk.Disjoint svc := by
  have hok := ha i c hget _ p hp
  obtain ⟨k, x, p', hk, hb, hfree, _⟩ := (allocate_spec hget hp hok).2 a' blk h
  false_or_by_contra; rename_i hnd
  exact hfree (hcov i c p hget hp k hk (hb ▸ hnd))

/-- a block of the other family never meets the service range (different address families) -/
theorem other_family_disjoint {blk svc : Cidr} (h : blk.fam ≠ svc.fam) : goOverlap blk svc = false :=
  goOverlap_diff_fam h

/-- allocations keep the service blocks used: `allocateCIDR` only adds to the used sets -/
theorem allocate_keeps_covered {a a' : Alloc} (ha : a.WF) {svc : Cidr} (hcov : Covered a svc)
    {i : Nat} {f : Fam} {c : CC} {p : Pool} {r : Option Cidr} (hget : a.get? i = some c) (hp : c.pool f = some p)
    (h : a.allocate i f = (a', r)) : Covered a' svc := by
  have hok := ha i c hget f p hp
  obtain ⟨h1, h2⟩ := allocate_spec hget hp hok
  -- in both outcomes entry `i`'s pool `f` keeps its geometry and all its used blocks
  have key : ∃ p', a' = a.set i (c.setPool f p') ∧ p'.geo = p.geo ∧ ∀ k, k ∈ p.used → k ∈ p'.used := by
    cases r with
    | none =>
      obtain ⟨_, x, hx, _⟩ := h1 a' h
      exact ⟨_, hx, rfl, fun k hk => hk⟩
    | some blk =>
      obtain ⟨k, x, p', hk, hb, _, _, hx, hocc, ha'⟩ := h2 a' blk h
      have hokx : PoolOK f ({ p with cursor := x } : Pool) :=
        ⟨{ toInv0 := { nodup := hok.1.nodup, bound := hok.1.bound, count_eq := hok.1.count_eq, cursor_lt := hx,
                       metrics := hok.1.metrics, maxg := hok.1.maxg }, usage_eq := hok.1.usage_eq }, hok.2.1, hok.2.2⟩
      obtain ⟨_, hg, _, _, hm⟩ := (C14.occupy_refines hokx.2.1 hokx.1 (hb ▸ goBlock_WF hok hk)).2 p' hocc
      exact ⟨p', ha', hg, fun j hj => (hm j).mpr (Or.inl hj)⟩
  obtain ⟨p', rfl, hg, hmono⟩ := key
  intro j d q hj hq k hk hnd
  by_cases hij : i = j
  · subst hij
    rw [Alloc.get?_set_self _ _ _ _ hget] at hj
    cases hj
    by_cases hf : svc.fam = f
    · subst hf
      rw [CC.pool_setPool_same] at hq
      cases hq
      have hmax : p'.max = p.max := by unfold Pool.max; rw [hg]
      exact hmono k (hcov i c p hget hp k (hmax ▸ hk) (hg ▸ hnd))
    · rw [CC.pool_setPool_other _ _ _ _ hf] at hq
      exact hcov i c q hget hq k hk hnd
  · rw [Alloc.get?_set_ne _ _ _ _ hij] at hj
    exact hcov j d q hj hq k hk hnd


/-- pools only grew (associations and flags may differ) -/
def PoolsLe (a a' : Alloc) : Prop :=
  a'.ccs.length = a.ccs.length ∧ ∀ j c, a.get? j = some c → ∃ c', a'.get? j = some c' ∧ ∀ g, OptPoolLe (c.pool g) (c'.pool g)

theorem PoolsLe.refl (a : Alloc) : PoolsLe a a := ⟨rfl, fun _ c h => ⟨c, h, fun _ => OptPoolLe.refl _⟩⟩
theorem PoolsLe.trans {a b c : Alloc} (h1 : PoolsLe a b) (h2 : PoolsLe b c) : PoolsLe a c := by
  refine ⟨h2.1.trans h1.1, ?_⟩
  intro j x hx
  obtain ⟨y, hy, hxy⟩ := h1.2 j x hx
  obtain ⟨z, hz, hyz⟩ := h2.2 j y hy
  exact ⟨z, hz, fun g => OptPoolLe.trans (hxy g) (hyz g)⟩
theorem PoolsLe.of_le {a a' : Alloc} (h : AllocLe a a') : PoolsLe a a' :=
  ⟨h.1, fun j c hc => let ⟨c', h1, h2⟩ := h.2 j c hc; ⟨c', h1, h2.2.2.2.2.2⟩⟩

theorem get?_some_of_lt (a : Alloc) (j : Nat) (h : j < a.ccs.length) : ∃ c, a.get? j = some c := by
  unfold Alloc.get?; exact ⟨a.ccs[j], List.getElem?_eq_getElem h⟩
theorem lt_of_get?_some (a : Alloc) (j : Nat) (c : CC) (h : a.get? j = some c) : j < a.ccs.length := by
  unfold Alloc.get? at h
  false_or_by_contra; rename_i hn
  rw [List.getElem?_eq_none (by omega)] at h; cases h

/-- the cover of a service range survives any growth of the pools -/
theorem Covered_of_poolsLe {a a' : Alloc} {svc : Cidr} (h : PoolsLe a a') (hc : Covered a svc) : Covered a' svc := by
  intro j c' p' hj hp k hk hnd
  have hlt := lt_of_get?_some a' j c' hj
  rw [h.1] at hlt
  obtain ⟨c, hcj⟩ := get?_some_of_lt a j hlt
  obtain ⟨c'', hj'', hle⟩ := h.2 j c hcj
  rw [hj] at hj''; cases hj''
  have := hle svc.fam
  rw [hp] at this
  cases hq : c.pool svc.fam with
  | none => rw [hq] at this; exact this.elim
  | some p =>
    rw [hq] at this
    have hmax : p'.max = p.max := by unfold Pool.max; rw [this.1]
    exact this.2.2 k (hc j c p hcj hq k (hmax ▸ hk) (this.1 ▸ hnd))

/-- whatever one entry serves avoids a covered service range -/
theorem tryEntry_avoids_service {a a' : Alloc} (ha : a.WF) {svc : Cidr} (hsvc : svc.WF) (hcov : Covered a svc) {i : Nat} {c : CC}
    {cidrs : List Cidr} (hget : a.get? i = some c) (h : a.tryEntry i = (a', some cidrs)) :
    ∀ b ∈ cidrs, goOverlap b svc = false := by
  -- a block of family `f` served from entry `i` of a covered, well-formed state
  have one : ∀ (s s' : Alloc) (d : CC) (f : Fam) (p : Pool) (blk : Cidr), s.WF → Covered s svc → s.get? i = some d →
      d.pool f = some p → s.allocate i f = (s', some blk) → goOverlap blk svc = false := by
    intro s s' d f p blk hs hcs hd hp hal
    obtain ⟨k, hk, hb, _, hbw, hbf⟩ := allocate_ok hd hp (hs i d hd f p hp) hal
    by_cases hf : svc.fam = f
    · subst hf
      have hdis := allocation_avoids_service hs hcs hd hp hal
      cases ho : goOverlap blk svc with
      | false => rfl
      | true => exact absurd hdis ((goOverlap_iff hbw hsvc hbf).mp ho)
    · exact goOverlap_diff_fam (by rw [hbf]; exact fun e => hf e.symm)
  unfold Alloc.tryEntry at h
  simp only [hget] at h
  cases h4 : c.v4 with
  | none =>
    rw [h4] at h
    simp only at h
    cases h6 : c.v6 with
    | none =>
      rw [h6] at h
      simp only [Prod.mk.injEq, Option.some.injEq] at h
      intro b hb; rw [← h.2] at hb; cases hb
    | some p6 =>
      rw [h6] at h
      simp only at h
      cases hal : a.allocate i .v6 with
      | mk a2 r2 =>
        rw [hal] at h
        cases r2 with
        | none => simp at h
        | some b6 =>
          simp only [List.nil_append, Prod.mk.injEq, Option.some.injEq] at h
          intro b hb
          rw [← h.2] at hb
          simp only [List.mem_singleton] at hb
          subst hb
          exact one a a2 c .v6 p6 b ha hcov hget (by simp [CC.pool, h6]) hal
  | some p4 =>
    rw [h4] at h
    simp only at h
    have hp4 : c.pool .v4 = some p4 := by simp [CC.pool, h4]
    cases hal : a.allocate i .v4 with
    | mk a1 r1 =>
      rw [hal] at h
      cases r1 with
      | none => simp at h
      | some b4 =>
        simp only at h
        have hb4 := one a a1 c .v4 p4 b4 ha hcov hget hp4 hal
        cases h6 : c.v6 with
        | none =>
          rw [h6] at h
          simp only [Prod.mk.injEq, Option.some.injEq] at h
          intro b hb
          rw [← h.2] at hb
          simp only [List.mem_singleton] at hb
          subst hb; exact hb4
        | some p6 =>
          rw [h6] at h
          simp only at h
          have hle1 := allocate_le ha hget hp4 hal
          obtain ⟨_, x4, p4', _, _, _, _, _, _, ha1⟩ := (allocate_spec hget hp4 (ha i c hget .v4 p4 hp4)).2 a1 b4 hal
          have hget1 : a1.get? i = some (c.setPool .v4 p4') := by rw [ha1]; exact Alloc.get?_set_self _ _ _ _ hget
          have hp6 : (c.setPool .v4 p4').pool .v6 = some p6 := by
            rw [CC.pool_setPool_other _ _ _ _ (by decide)]; simp [CC.pool, h6]
          cases hal2 : a1.allocate i .v6 with
          | mk a2 r2 =>
            rw [hal2] at h
            cases r2 with
            | none => simp at h
            | some b6 =>
              simp only [Prod.mk.injEq, Option.some.injEq] at h
              have hb6 := one a1 a2 _ .v6 p6 b6 hle1.2.1 (Covered_of_poolsLe (PoolsLe.of_le hle1.1) hcov) hget1 hp6 hal2
              intro b hb
              rw [← h.2] at hb
              simp only [List.cons_append, List.nil_append, List.mem_cons, List.mem_singleton, List.not_mem_nil, or_false] at hb
              rcases hb with rfl | rfl
              · exact hb4
              · exact hb6

/-- … and so does whatever `prioritizedCIDRs` reserves -/
theorem prioritized_avoids_service {a : Alloc} (ha : a.WF) {svc : Cidr} (hsvc : svc.WF) (hcov : Covered a svc) :
    ∀ (l : List Nat) {a' : Alloc} {cidrs : List Cidr} {i : Nat}, a.prioritized l = (a', some (cidrs, i)) →
      ∀ b ∈ cidrs, goOverlap b svc = false := by
  intro l
  induction l generalizing a with
  | nil => intro a' cidrs i h; simp [Alloc.prioritized] at h
  | cons j rest ih =>
    intro a' cidrs i h
    unfold Alloc.prioritized at h
    cases ht : a.tryEntry j with
    | mk a1 r1 =>
      rw [ht] at h
      cases hg : a.get? j with
      | none =>
        unfold Alloc.tryEntry at ht
        simp only [hg, Prod.mk.injEq] at ht
        obtain ⟨rfl, rfl⟩ := ht
        simp only at h
        exact ih ha hcov h
      | some c =>
        cases r1 with
        | some cs =>
          simp only [Prod.mk.injEq, Option.some.injEq] at h
          obtain ⟨rfl, rfl, rfl⟩ := h
          exact tryEntry_avoids_service ha hsvc hcov hg ht
        | none =>
          simp only at h
          have := tryEntry_le ha hg ht
          exact ih this.2.1 (Covered_of_poolsLe (PoolsLe.of_le this.1) hcov) h


/-! ### the controller level -/

/-- every configured service range is covered -/
def CoveredAll (s : Sys) : Prop := ∀ svc ∈ s.svcs, svc.WF ∧ Covered s.alloc svc

theorem updateCIDRsAllocation_svcs (s : Sys) (name : String) (cidrs : List Cidr) (i : Nat) (ws : List WOut) :
    (updateCIDRsAllocation s name cidrs i ws).1.svcs = s.svcs := by
  unfold updateCIDRsAllocation
  split
  · rfl
  · split
    · rfl
    · split
      · split <;> rfl
      · simp only; split <;> rfl

theorem allocateOrOccupy_svcs (s : Sys) (n : NodeObj) (r : Bool) (ws : List WOut) :
    (allocateOrOccupy s n r ws).1.svcs = s.svcs := by
  unfold allocateOrOccupy
  split
  · split <;> rfl
  · split
    · rfl
    · split
      · rfl
      · rw [updateCIDRsAllocation_svcs]
        split
        · split <;> rfl
        · rfl

/-- **no PATCH of a node item meets a configured service range** — for every ClusterCIDR mapped, whatever the
relative sizes of service range, ClusterCIDR range and per-node block, whatever the write outcomes -/
theorem item_patches_avoid_service (s : Sys) (hwf : s.alloc.WF) (hcov : CoveredAll s) (n : NodeObj) (refresh : Bool)
    (ws : List WOut) :
    ∀ p ∈ (allocateOrOccupy s n refresh ws).2.patches, ∀ b ∈ p.2.1, ∀ svc ∈ s.svcs, goOverlap b svc = false := by
  intro p hp b hb svc hsvc
  have hne : (allocateOrOccupy s n refresh ws).2.patches ≠ [] := fun h => by rw [h] at hp; cases hp
  obtain ⟨al, cidrs, i, hpr, hall⟩ := C02.patch_comes_from_one_entry s n refresh ws hne
  have := (hall p hp).2
  rw [this] at hb
  exact prioritized_avoids_service hwf (hcov svc hsvc).1 (hcov svc hsvc).2 _ hpr b hb

/-- **an allocation item keeps every service range covered** (used sets only grow or are restored) -/
theorem item_keeps_covered (s : Sys) (hwf : s.alloc.WF) (hcov : CoveredAll s) (n : NodeObj) (refresh : Bool)
    (ws : List WOut) (hn : n.hasCidrs = false) : CoveredAll (allocateOrOccupy s n refresh ws).1 := by
  intro svc hsvc
  rw [allocateOrOccupy_svcs] at hsvc
  refine ⟨(hcov svc hsvc).1, ?_⟩
  rcases C04.item_keeps_only_justified_reservations s hwf n refresh ws hn with h | ⟨al, cidrs, i, hpr, _, h⟩
  · exact Covered_of_poolsLe (PoolsLe.of_le h.1) (hcov svc hsvc).2
  · have hle := (C04.attempt_only_grows hwf _ _ hpr).1
    have hcal := Covered_of_poolsLe (PoolsLe.of_le hle) (hcov svc hsvc).2
    rcases h with h | ⟨c, hc, h⟩
    · rw [h]; exact hcal
    · rw [h]
      -- recording the association touches no pool
      apply Covered_of_poolsLe _ hcal
      refine ⟨by simp, ?_⟩
      intro j d hd
      by_cases hij : i = j
      · subst hij
        rw [hc] at hd; cases hd
        refine ⟨_, Alloc.get?_set_self _ _ _ _ hc, ?_⟩
        intro g
        have : (c.addAssoc n.name).pool g = c.pool g := by
          unfold CC.addAssoc; split <;> rfl
        rw [this]; exact OptPoolLe.refl _
      · exact ⟨d, by rw [Alloc.get?_set_ne _ _ _ _ hij]; exact hd, fun g => OptPoolLe.refl _⟩

end Ipam.C09
