import IpamVerif.AllocLemmas
import IpamVerif.System
/-!
# C09 — pod CIDRs never overlap the configured service ranges

`filterOutServiceRange` occupies, in every pool of the service range's family that it meets, every block
it touches (C13's index range: inside / equal / containing / smaller than a block).  `allocateCIDR` never
returns a used block.  Hence, as long as those blocks stay used — they do along any continuation
consisting of allocations, the property's quantifier — no assignment meets the service range.
Entries without a pool of the service range's family are skipped (after the repair of
`associatedCIDRSet`; before it the model step was a nil dereference).
-/
namespace Ipam.C09
open Ipam

/-- all blocks of entry pools of the family that meet the service range are used -/
def Covered (a : Alloc) (svc : Cidr) : Prop :=
  ∀ i c p, a.get? i = some c → c.pool svc.fam = some p → ∀ k, k < p.max → ¬ (goBlock p.geo k).Disjoint svc → k ∈ p.used

/-- `occupyServiceCIDR` on one entry -/
theorem occupyService_covers (c : CC) (hwf : c.WF) (svc : Cidr) (hsvc : svc.WF) :
    (c.occupyService svc).WF ∧
    ∀ p, (c.occupyService svc).pool svc.fam = some p → ∀ k, k < p.max → ¬ (goBlock p.geo k).Disjoint svc → k ∈ p.used := by
  unfold CC.occupyService
  cases hp : c.pool svc.fam with
  | none =>
    simp only
    exact ⟨hwf, by intro p h; rw [hp] at h; cases h⟩
  | some p =>
    simp only
    have hok := hwf _ _ hp
    have hrange := Geo.range_WF hok.2.1.1
    by_cases hov : goOverlap p.geo.range svc = true
    · rw [if_pos hov]
      unfold CC.occupy
      rw [hp]
      simp only
      cases hocc : p.occupy svc with
      | none => 
        -- impossible: the ranges intersect
        exfalso
        have := (C14.occupy_refines hok.2.1 hok.1 hsvc).1.mp hocc
        rcases this with h | h
        · exact h hok.2.2.symm
        · rw [goOverlap_iff hrange hsvc (by simp [Geo.range, hok.2.2])] at hov
          exact hov (Cidr.disjoint_comm.mp h)
      | some p' =>
        simp only
        obtain ⟨hI', hg, _, _, hm⟩ := (C14.occupy_refines hok.2.1 hok.1 hsvc).2 p' hocc
        refine ⟨CC.WF_setPool hwf ⟨hI', hg ▸ hok.2.1, hg ▸ hok.2.2⟩, ?_⟩
        intro q hq k hk hnd
        rw [CC.pool_setPool_same] at hq
        cases hq
        have hmax : p'.max = p.max := by unfold Pool.max; rw [hg]
        rw [hm k]
        right
        exact ⟨hmax ▸ hk, hg ▸ hnd⟩
    · rw [if_neg hov]
      refine ⟨hwf, ?_⟩
      intro q hq k hk hnd
      rw [hp] at hq; cases hq
      -- a block of the range cannot meet a CIDR the range does not meet
      exfalso
      apply hnd
      have hsub := (C13.block_is_ith_subrange hok.2.1 hk).2.2
      have hd : p.geo.range.Disjoint svc := by
        false_or_by_contra; rename_i hnn
        exact hov ((goOverlap_iff hrange hsvc (by simp [Geo.range, hok.2.2])).mpr hnn)
      unfold Cidr.Disjoint at hd ⊢
      have := hsub.1; have := hsub.2
      omega

/-- **after `filterOutServiceRange` every block of every mapped pool that meets the service range is used** -/
theorem filterService_covers (a : Alloc) (ha : a.WF) (svc : Cidr) (hsvc : svc.WF) :
    (a.filterService svc).WF ∧ Covered (a.filterService svc) svc := by
  have hget : ∀ i c', (a.filterService svc).get? i = some c' → ∃ c, a.get? i = some c ∧ c' = c.occupyService svc := by
    intro i c' h
    unfold Alloc.filterService Alloc.get? at *
    simp only [List.getElem?_map] at h
    cases hc : a.ccs[i]? with
    | none => rw [hc] at h; cases h
    | some c => rw [hc] at h; simp only [Option.map_some, Option.some.injEq] at h; exact ⟨c, rfl, h.symm⟩
  constructor
  · intro i c' h
    obtain ⟨c, hc, rfl⟩ := hget i c' h
    exact (occupyService_covers c (ha i c hc) svc hsvc).1
  · intro i c' p h hp k hk hnd
    obtain ⟨c, hc, rfl⟩ := hget i c' h
    exact (occupyService_covers c (ha i c hc) svc hsvc).2 p hp k hk hnd

/-- **no allocation from a covered map meets the service range** -/
theorem allocation_avoids_service {a a' : Alloc} (ha : a.WF) {svc : Cidr} (hcov : Covered a svc)
    {i : Nat} {c : CC} {p : Pool} {blk : Cidr} (hget : a.get? i = some c) (hp : c.pool svc.fam = some p)
    (h : a.allocate i svc.fam = (a', some blk)) : blk.Disjoint svc := by
  have hok := ha i c hget _ p hp
  obtain ⟨k, x, p', hk, hb, hfree, _⟩ := (allocate_spec hget hp hok).2 a' blk h
  false_or_by_contra; rename_i hnd
  exact hfree (hcov i c p hget hp k hk (hb ▸ hnd))

/-- a block of the other family never meets the service range (different address families) -/
theorem other_family_disjoint {blk svc : Cidr} (h : blk.fam ≠ svc.fam) : goOverlap blk svc = false :=
  goOverlap_diff_fam h

/-- allocations keep the service blocks used: `allocateCIDR` only adds to the used sets -/
theorem allocate_keeps_covered {a a' : Alloc} (ha : a.WF) {svc : Cidr} (hcov : Covered a svc)
    {i : Nat} {f : Fam} {c : CC} {p : Pool} {r : Option Cidr} (hget : a.get? i = some c) (hp : c.pool f = some p)
    (h : a.allocate i f = (a', r)) : Covered a' svc := by
  have hok := ha i c hget f p hp
  obtain ⟨h1, h2⟩ := allocate_spec hget hp hok
  -- in both outcomes entry `i`'s pool `f` keeps its geometry and all its used blocks
  have key : ∃ p', a' = a.set i (c.setPool f p') ∧ p'.geo = p.geo ∧ ∀ k, k ∈ p.used → k ∈ p'.used := by
    cases r with
    | none =>
      obtain ⟨_, x, hx, _⟩ := h1 a' h
      exact ⟨_, hx, rfl, fun k hk => hk⟩
    | some blk =>
      obtain ⟨k, x, p', hk, hb, _, _, hx, hocc, ha'⟩ := h2 a' blk h
      have hokx : PoolOK f ({ p with cursor := x } : Pool) :=
        ⟨{ toInv0 := { nodup := hok.1.nodup, bound := hok.1.bound, count_eq := hok.1.count_eq, cursor_lt := hx,
                       metrics := hok.1.metrics, maxg := hok.1.maxg }, usage_eq := hok.1.usage_eq }, hok.2.1, hok.2.2⟩
      obtain ⟨_, hg, _, _, hm⟩ := (C14.occupy_refines hokx.2.1 hokx.1 (hb ▸ goBlock_WF hok hk)).2 p' hocc
      exact ⟨p', ha', hg, fun j hj => (hm j).mpr (Or.inl hj)⟩
  obtain ⟨p', rfl, hg, hmono⟩ := key
  intro j d q hj hq k hk hnd
  by_cases hij : i = j
  · subst hij
    rw [Alloc.get?_set_self _ _ _ _ hget] at hj
    cases hj
    by_cases hf : svc.fam = f
    · subst hf
      rw [CC.pool_setPool_same] at hq
      cases hq
      have hmax : p'.max = p.max := by unfold Pool.max; rw [hg]
      exact hmono k (hcov i c p hget hp k (hmax ▸ hk) (hg ▸ hnd))
    · rw [CC.pool_setPool_other _ _ _ _ hf] at hq
      exact hcov i c q hget hq k hk hnd
  · rw [Alloc.get?_set_ne _ _ _ _ hij] at hj
    exact hcov j d q hj hq k hk hnd

end Ipam.C09
