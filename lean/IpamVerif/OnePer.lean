import IpamVerif.System
/-!
# One entry per ClusterCIDR object, in every reachable state (C10, unconditional)

`NoDupKN a`: no two entries of the allocator state share selector key and name.  `createCC` appends only when the
pair is not mapped, every other operation keeps the list of pairs (`KN_*`) or drops one (`deleteCC`).  Hence the
invariant holds after *every* event of *every* history — restarts, failed and lost writes, duplicate and stale
notifications, retries — with no assumption at all (`nodup_step`, `nodup_run`).  Core Lean only.
-/
namespace Ipam.OnePer
open Ipam

def kn (c : CC) : String × String := (c.key, c.name)
def KN (a : Alloc) : List (String × String) := a.ccs.map kn
def NoDupKN (a : Alloc) : Prop := (KN a).Nodup

theorem KN_set {a : Alloc} {i : Nat} {c c' : CC} (hg : a.get? i = some c) (hk : kn c' = kn c) : KN (a.set i c') = KN a := by
  unfold KN Alloc.set
  unfold Alloc.get? at hg
  simp only
  have hlt : i < a.ccs.length := (List.getElem?_eq_some_iff.mp hg).1
  rw [List.map_set]
  apply List.ext_getElem?
  intro j
  by_cases hij : i = j
  · subst hij
    rw [List.getElem?_set_self (by simpa using hlt), List.getElem?_map, hg, hk]; rfl
  · rw [List.getElem?_set_ne hij]

theorem KN_set_none {a : Alloc} {i : Nat} (c' : CC) (hg : a.get? i = none) : a.set i c' = a := by
  unfold Alloc.set Alloc.get? at *
  have : a.ccs.length ≤ i := by
    rw [List.getElem?_eq_none_iff] at hg; exact hg
  rw [List.set_eq_of_length_le this]

theorem kn_setPool (c : CC) (f : Fam) (p : Pool) : kn (c.setPool f p) = kn c := by
  unfold CC.setPool kn; cases f <;> rfl

theorem kn_occupy {c c' : CC} {cd : Cidr} (h : c.occupy cd = some c') : kn c' = kn c := by
  unfold CC.occupy at h
  split at h
  · cases h
  · split at h
    · cases h
    · cases h; exact kn_setPool _ _ _

theorem kn_release {c c' : CC} {cd : Cidr} (h : c.release cd = some c') : kn c' = kn c := by
  unfold CC.release at h
  split at h
  · cases h
  · split at h
    · cases h
    · cases h; exact kn_setPool _ _ _

theorem kn_addAssoc (c : CC) (n : String) : kn (c.addAssoc n) = kn c := by
  unfold CC.addAssoc kn; split <;> rfl

theorem kn_delAssoc (c : CC) (n : String) : kn (c.delAssoc n) = kn c := rfl

theorem kn_occupyList : ∀ (cs : List Cidr) (c : CC), kn (c.occupyList cs).1 = kn c := by
  intro cs
  induction cs with
  | nil => intro c; rfl
  | cons cd rest ih =>
    intro c
    unfold CC.occupyList
    cases ho : c.occupy cd with
    | none => rfl
    | some c' => simp only; rw [ih c', kn_occupy ho]

theorem KN_allocLoop (i : Nat) (f : Fam) : ∀ (fuel ev : Nat) (a : Alloc), KN (allocLoop a i f fuel ev).1 = KN a := by
  intro fuel
  induction fuel with
  | zero => intro ev a; rfl
  | succ fuel ih =>
    intro ev a
    unfold allocLoop
    cases hg : a.get? i with
    | none => rfl
    | some c =>
      simp only
      cases hp : c.pool f with
      | none => rfl
      | some p =>
        simp only
        split
        · rfl
        · cases hn : p.next with
          | none => rfl
          | some r =>
            obtain ⟨k, skipped, p'⟩ := r
            simp only
            have h1 : KN (a.set i (c.setPool f p')) = KN a := KN_set hg (kn_setPool _ _ _)
            split
            · rw [ih, h1]
            · cases ho : (c.setPool f p').occupy (goBlock p.geo k) with
              | none => simp only; exact h1
              | some c'' =>
                simp only
                have hg1 : (a.set i (c.setPool f p')).get? i = some (c.setPool f p') := by
                  unfold Alloc.set Alloc.get? at *
                  simp only
                  rw [List.getElem?_set]
                  have := (List.getElem?_eq_some_iff.mp hg).1
                  simp [this]
                rw [KN_set hg1 (kn_occupy ho), h1]

theorem KN_allocate (a : Alloc) (i : Nat) (f : Fam) : KN (a.allocate i f).1 = KN a := by
  unfold Alloc.allocate
  cases a.get? i with
  | none => rfl
  | some c =>
    simp only
    cases c.pool f with
    | none => rfl
    | some p => exact KN_allocLoop i f _ _ a


theorem get?_set_self' {a : Alloc} {i : Nat} {c : CC} (d : CC) (hg : a.get? i = some c) : (a.set i d).get? i = some d := by
  unfold Alloc.set Alloc.get? at *
  simp only
  have := (List.getElem?_eq_some_iff.mp hg).1
  rw [List.getElem?_set_self this]

theorem KN_tryEntry (a : Alloc) (i : Nat) : KN (a.tryEntry i).1 = KN a := by
  unfold Alloc.tryEntry
  cases hg : a.get? i with
  | none => rfl
  | some c =>
    simp only
    cases h4 : c.v4 with
    | none =>
      simp only
      cases h6 : c.v6 with
      | none => rfl
      | some p6 =>
        simp only
        have := KN_allocate a i .v6
        cases hal : a.allocate i .v6 with
        | mk a2 r =>
          rw [hal] at this
          cases r with
          | some b6 => exact this
          | none => simp only [List.foldl_nil]; exact this
    | some p4 =>
      simp only
      have h1 := KN_allocate a i .v4
      cases hal : a.allocate i .v4 with
      | mk a1 r =>
        rw [hal] at h1
        cases r with
        | none => exact h1
        | some b4 =>
          simp only
          cases h6 : c.v6 with
          | none => exact h1
          | some p6 =>
            simp only
            have h2 := KN_allocate a1 i .v6
            cases hbl : a1.allocate i .v6 with
            | mk a2 r2 =>
              rw [hbl] at h2
              cases r2 with
              | some b6 => simp only; rw [h2, h1]
              | none =>
                simp only [List.foldl_cons, List.foldl_nil]
                split
                · rw [h2, h1]
                · rename_i c2 hg2
                  split
                  · rw [h2, h1]
                  · rename_i c3 hr3
                    rw [KN_set hg2 (kn_release hr3), h2, h1]

theorem KN_prioritized : ∀ (l : List Nat) (a : Alloc), KN (a.prioritized l).1 = KN a := by
  intro l
  induction l with
  | nil => intro a; rfl
  | cons i rest ih =>
    intro a
    unfold Alloc.prioritized
    have h1 := KN_tryEntry a i
    cases ht : a.tryEntry i with
    | mk a' r =>
      rw [ht] at h1
      cases r with
      | some cidrs => exact h1
      | none => simp only; rw [ih, h1]

theorem KN_releaseAll (i : Nat) : ∀ (cs : List Cidr) (a : Alloc), KN (a.releaseAll i cs).1 = KN a := by
  intro cs
  induction cs with
  | nil => intro a; rfl
  | cons cd rest ih =>
    intro a
    unfold Alloc.releaseAll
    cases hg : a.get? i with
    | none => rfl
    | some c =>
      simp only
      cases hr : c.release cd with
      | none => rfl
      | some c' => simp only; rw [ih, KN_set hg (kn_release hr)]

theorem KN_occupyNode (name : String) (cidrs : List Cidr) : ∀ (l : List Nat) (a : Alloc),
    KN (a.occupyNode name cidrs l).1 = KN a := by
  intro l
  induction l with
  | nil => intro a; rfl
  | cons i rest ih =>
    intro a
    unfold Alloc.occupyNode
    cases hg : a.get? i with
    | none => simp only; exact ih a
    | some c =>
      simp only
      have hk := kn_occupyList cidrs c
      cases hr : c.occupyList cidrs with
      | mk c' okk =>
        rw [hr] at hk
        cases okk with
        | true => simp only; exact KN_set hg (by rw [kn_addAssoc]; exact hk)
        | false => simp only; rw [ih, KN_set hg hk]

theorem KN_releaseNode (a : Alloc) (name : String) (ls : Labels) (cs : List Cidr) : KN (a.releaseNode name ls cs).1 = KN a := by
  unfold Alloc.releaseNode
  cases a.allocatedCC name (a.ordered ls false) with
  | none => rfl
  | some i =>
    simp only
    have h1 := KN_releaseAll i cs a
    cases hra : a.releaseAll i cs with
    | mk a' okk =>
      rw [hra] at h1
      cases okk with
      | false => exact h1
      | true =>
        simp only
        cases hg : a'.get? i with
        | none => exact h1
        | some c => simp only; rw [KN_set hg (kn_delAssoc c name), h1]

theorem kn_occupyService (c : CC) (svc : Cidr) : kn (c.occupyService svc) = kn c := by
  unfold CC.occupyService
  split
  · rfl
  · split
    · split
      · rfl
      · rename_i h; exact kn_occupy h
    · rfl

theorem KN_filterService (a : Alloc) (svc : Cidr) : KN (a.filterService svc) = KN a := by
  unfold Alloc.filterService KN
  simp only [List.map_map]
  apply List.map_congr_left
  intro c _
  exact kn_occupyService c svc


/-! ### the work items -/

theorem KN_releaseCIDR (al : Alloc) (n : NodeObj) : KN (releaseCIDR al n).1 = KN al := by
  unfold releaseCIDR
  split
  · rfl
  · split
    · rfl
    · exact KN_releaseNode _ _ _ _

theorem KN_occupyCIDRs (al : Alloc) (n : NodeObj) : KN (occupyCIDRs al n).1 = KN al := by
  unfold occupyCIDRs
  simp only
  split
  · rfl
  · split
    · rfl
    · exact KN_occupyNode _ _ _ _

theorem KN_update (s : Sys) (name : String) (cidrs : List Cidr) (i : Nat) (ws : List WOut) :
    KN (updateCIDRsAllocation s name cidrs i ws).1.alloc = KN s.alloc := by
  unfold updateCIDRsAllocation
  split
  · exact KN_releaseAll _ _ _
  · split
    · simp only
      split
      · rename_i c hg; exact KN_set hg (kn_addAssoc c name)
      · rfl
    · split
      · have := KN_releaseAll i cidrs s.alloc
        cases hr : s.alloc.releaseAll i cidrs with
        | mk al okk => rw [hr] at this; cases okk <;> exact this
      · simp only
        split
        · simp only
          split
          · rename_i c hg; exact KN_set hg (kn_addAssoc c name)
          · rfl
        · exact KN_releaseAll _ _ _

theorem KN_allocateOrOccupy (s : Sys) (n : NodeObj) (refresh : Bool) (ws : List WOut) :
    KN (allocateOrOccupy s n refresh ws).1.alloc = KN s.alloc := by
  unfold allocateOrOccupy
  split
  · have := KN_occupyCIDRs s.alloc n
    cases hr : occupyCIDRs s.alloc n with
    | mk al okk => rw [hr] at this; cases okk <;> exact this
  · have hp := KN_prioritized (s.alloc.ordered n.labels true) s.alloc
    cases hpr : s.alloc.prioritized (s.alloc.ordered n.labels true) with
    | mk al r =>
      rw [hpr] at hp
      cases r with
      | none => exact hp
      | some ci =>
        obtain ⟨cidrs, i⟩ := ci
        simp only
        split
        · exact hp
        · split
          · split
            · rw [KN_update]; exact hp
            · simp only
              rw [KN_releaseCIDR, KN_update]; exact hp
          · rw [KN_update]; exact hp

theorem KN_procNode (s : Sys) (name : String) (refresh : Bool) (ws : List WOut) :
    KN (procNode s name refresh ws).1.alloc = KN s.alloc := by
  unfold procNode
  have key : KN (procNodeCore { s with nodeQ := qDel s.nodeQ name } name refresh ws).1.alloc = KN s.alloc := by
    unfold procNodeCore
    split
    · rfl
    · split
      · have := KN_releaseCIDR s.alloc (by assumption : NodeObj)
        rename_i n _ _
        have h2 := KN_releaseCIDR s.alloc n
        cases hr : releaseCIDR s.alloc n with
        | mk al okk => rw [hr] at h2; cases okk <;> exact h2
      · exact KN_allocateOrOccupy _ _ _ _
  simp only
  split
  · exact key
  · exact key

/-! ### mapping and unmapping -/

theorem mem_KN_of_mapped {a : Alloc} {key name : String} : a.mapped key name = true ↔ (key, name) ∈ KN a := by
  unfold Alloc.mapped KN
  rw [List.any_eq_true]
  constructor
  · rintro ⟨c, hc, hk⟩
    simp only [Bool.and_eq_true, beq_iff_eq] at hk
    exact List.mem_map.mpr ⟨c, hc, by unfold kn; rw [hk.1, hk.2]⟩
  · intro h
    obtain ⟨c, hc, hk⟩ := List.mem_map.mp h
    unfold kn at hk
    simp only [Prod.mk.injEq] at hk
    exact ⟨c, hc, by simp [hk.1, hk.2]⟩

theorem buildCC_kn {key : String} {reqs : List Req} {name : String} {spec : CCSpec} {t : Bool} {c : CC}
    (h : buildCC key reqs name spec t = some c) : kn c = (key, name) := by
  unfold buildCC at h
  split at h
  · cases h
  · split at h
    · cases h
    · split at h
      · cases h
      · cases h; rfl

theorem nodup_createCC {a al : Alloc} {name : String} {spec : CCSpec} {t : Bool} (h : NoDupKN a)
    (hc : a.createCC name spec t = some al) : NoDupKN al := by
  unfold Alloc.createCC at hc
  cases hsel : selectorOf spec.sel with
  | none => rw [hsel] at hc; cases hc
  | some reqs =>
    rw [hsel] at hc
    simp only at hc
    split at hc
    · cases hc; exact h
    · rename_i hnm
      cases hb : buildCC (printSel reqs) reqs name spec t with
      | none => rw [hb] at hc; cases hc
      | some c =>
        rw [hb] at hc
        cases hc
        unfold NoDupKN KN
        simp only [List.map_append, List.map_cons, List.map_nil]
        rw [List.nodup_append]
        refine ⟨h, by simp, ?_⟩
        intro x hx y hy
        simp at hy; subst hy
        intro he; subst he
        rw [buildCC_kn hb] at hx
        exact hnm (mem_KN_of_mapped.mpr hx)

/-- what `deleteClusterCIDR` does to the list of entries (as in `Safety.lean`, restated here to keep this file
independent of the fragment) -/
theorem delFirst_cases' (key name : String) : ∀ (l l' : List CC) (r : DelResult), delFirst key name l = (l', r) →
    l' = l ∨ (∃ i c, l[i]? = some c ∧ l' = l.set i { c with term := true }) ∨ (∃ i, l' = l.eraseIdx i) := by
  intro l
  induction l with
  | nil => intro l' r h; simp [delFirst] at h; left; exact h.1
  | cons c t ih =>
    intro l' r h
    unfold delFirst at h
    split at h
    · split at h
      · simp only [Prod.mk.injEq] at h
        right; left
        exact ⟨0, c, rfl, by rw [← h.1]; rfl⟩
      · simp only [Prod.mk.injEq] at h
        right; right
        exact ⟨0, by rw [← h.1]; rfl⟩
    · cases hd : delFirst key name t with
      | mk t' r' =>
        rw [hd] at h
        simp only [Prod.mk.injEq] at h
        obtain ⟨rfl, rfl⟩ := h
        rcases ih t' r' hd with h1 | ⟨i, d, hi, h2⟩ | ⟨i, h3⟩
        · left; rw [h1]
        · right; left
          exact ⟨i + 1, d, by simpa using hi, by rw [h2]; rfl⟩
        · right; right
          exact ⟨i + 1, by rw [h3]; rfl⟩

theorem nodup_deleteCC {a : Alloc} (h : NoDupKN a) (name : String) (spec : CCSpec) : NoDupKN (a.deleteCC name spec).1 := by
  unfold Alloc.deleteCC
  cases selectorOf spec.sel with
  | none => exact h
  | some reqs =>
    simp only
    cases hd : delFirst (printSel reqs) name a.ccs with
    | mk l' r =>
      simp only
      rcases delFirst_cases' _ _ _ _ _ hd with h1 | ⟨i, c, hi, h2⟩ | ⟨i, h3⟩
      · subst h1; exact h
      · have : KN ⟨l'⟩ = KN a := by
          have hg : a.get? i = some c := hi
          have := KN_set (c' := { c with term := true }) hg rfl
          rw [← this, h2]; rfl
        unfold NoDupKN; rw [this]; exact h
      · subst h3
        unfold NoDupKN KN
        exact ((List.eraseIdx_sublist _ _).map _).nodup h


theorem nodup_createClusterCIDR {s : Sys} (h : NoDupKN s.alloc) (o : CCObj) (t : Bool) (w : WOut) :
    NoDupKN (createClusterCIDR s o t w).1.alloc := by
  unfold createClusterCIDR
  cases hc : s.alloc.createCC o.name o.spec t with
  | none => exact h
  | some al => exact nodup_createCC h hc

theorem nodup_reconcileDelete {s : Sys} (h : NoDupKN s.alloc) (o : CCObj) (w : WOut) :
    NoDupKN (reconcileDelete s o w).1.alloc := by
  unfold reconcileDelete
  split
  · have key := nodup_deleteCC h o.name o.spec
    cases hd : s.alloc.deleteCC o.name o.spec with
    | mk al r =>
      rw [hd] at key
      cases r <;> exact key
  · exact h

theorem nodup_procCC {s : Sys} (h : NoDupKN s.alloc) (name : String) (w : WOut) : NoDupKN (procCC s name w).1.alloc := by
  unfold procCC
  have key : NoDupKN (procCCCore { s with ccQ := qDel s.ccQ name } name w).1.alloc := by
    unfold procCCCore
    split
    · exact h
    · split
      · exact nodup_reconcileDelete (s := { s with ccQ := qDel s.ccQ name }) h _ w
      · split
        · exact nodup_createClusterCIDR (s := { s with ccQ := qDel s.ccQ name }) h _ false w
        · exact h
  simp only
  split
  · exact key
  · exact key

theorem nodup_bootCCs : ∀ (l : List CCObj) (s : Sys) (ws : List WOut) (acc : List (String × List String × String)),
    NoDupKN s.alloc → NoDupKN (bootCCs s l ws acc).1.alloc := by
  intro l
  induction l with
  | nil => intro s ws acc h; exact h
  | cons o rest ih =>
    intro s ws acc h
    unfold bootCCs
    simp only
    exact ih _ _ _ (nodup_createClusterCIDR h o _ _)

theorem KN_bootNodes : ∀ (l : List NodeObj) (al : Alloc), KN (bootNodes al l) = KN al := by
  intro l
  induction l with
  | nil => intro al; rfl
  | cons n rest ih =>
    intro al
    unfold bootNodes
    split
    · exact ih al
    · rw [ih, KN_occupyCIDRs]

theorem KN_filterAll : ∀ (svcs : List Cidr) (al : Alloc), KN (svcs.foldl (fun a sv => a.filterService sv) al) = KN al := by
  intro svcs
  induction svcs with
  | nil => intro al; rfl
  | cons sv rest ih => intro al; simp only [List.foldl_cons]; rw [ih, KN_filterService]

theorem nodup_boot (s : Sys) (svcs : List Cidr) (ws : List WOut) : NoDupKN (boot s svcs ws).1.alloc := by
  unfold boot
  simp only
  have h0 : NoDupKN (Alloc.mk []) := List.nodup_nil
  have h1 := nodup_bootCCs (sortCCObjs s.api.ccs)
    { s with alloc := ⟨[]⟩, nodeView := [], ccView := [], nodeQ := [], ccQ := [], svcs := svcs } ws [] h0
  unfold NoDupKN at h1 ⊢
  rw [KN_bootNodes, KN_filterAll]
  exact h1

/-- **one entry per ClusterCIDR object** (selector key and name), after every event — with no restriction on the
history: restarts, failed and lost writes, duplicate and stale notifications, retries, deletions, re-creations -/
theorem nodup_step {s : Sys} (h : NoDupKN s.alloc) (e : Ev) : NoDupKN (step s e).1.alloc := by
  cases e with
  | boot svcs ws => exact nodup_boot s svcs ws
  | nodeAdd n => simp only [step]; split <;> exact h
  | nodeDel name => simp only [step]; split <;> exact h
  | nodeLabels name ls => simp only [step]; split <;> exact h
  | nodeDeleting name => simp only [step]; split <;> exact h
  | ccAdd name spec => simp only [step]; split <;> exact h
  | ccDel name =>
    simp only [step]
    split
    · exact h
    · split <;> exact h
  | ccGen name g => simp only [step]; split <;> exact h
  | ccAddFin name fin =>
    simp only [step]
    split
    · exact h
    · split <;> exact h
  | nodeSetCIDRs name cidrs => exact h
  | deliverNode name tomb =>
    simp only [step]
    split
    · exact h
    · split
      · exact h
      · unfold NoDupKN; simp only; rw [KN_releaseCIDR]; exact h
  | deliverCC name =>
    simp only [step]
    split
    · exact h
    · split <;> exact h
  | procNode name refresh ws =>
    simp only [step]
    split
    · unfold NoDupKN; rw [KN_procNode]; exact h
    · exact h
  | procCC name w =>
    simp only [step]
    split
    · exact nodup_procCC h name w
    · exact h

theorem nodup_run : ∀ (evs : List Ev) (s : Sys), NoDupKN s.alloc → NoDupKN (run s evs).alloc := by
  intro evs
  induction evs with
  | nil => intro s h; exact h
  | cons e rest ih =>
    intro s h
    have : run s (e :: rest) = run (step s e).1 rest := by simp [run]
    rw [this]
    exact ih _ (nodup_step h e)

end Ipam.OnePer
