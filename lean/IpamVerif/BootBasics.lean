import IpamVerif.System
import IpamVerif.Facts
/-!
# Start-up basics (step facts of C03; the property theorems are in `Props/C03.lean`)

In the model a work item performs its API writes inside one `step`; everything else it does lives in `alloc`, the
caches and the queues.  `boot` (the constructor followed by the informers' initial listing) ignores all of these:
the new incarnation is a function of the API state alone.
-/
namespace Ipam.C03
open Ipam

/-- the incarnation that comes up after a restart depends only on the API state (and its own start-up
parameters): not on the reservations, caches or queues of the incarnation that crashed -/
theorem boot_memoryless (s : Sys) (al : Alloc) (nv : List NodeObj) (cv : List CCObj) (nq cq : List String) (sv : List Cidr)
    (svcs : List Cidr) (ws : List WOut) :
    boot { s with alloc := al, nodeView := nv, ccView := cv, nodeQ := nq, ccQ := cq, svcs := sv } svcs ws = boot s svcs ws := by
  unfold boot
  rfl

/-- two incarnations crashing over the same API state come up identically -/
theorem boot_depends_on_api_only (s t : Sys) (h : s.api = t.api) (svcs : List Cidr) (ws : List WOut) :
    boot s svcs ws = boot t svcs ws := by
  have e1 := boot_memoryless s t.alloc t.nodeView t.ccView t.nodeQ t.ccQ t.svcs svcs ws
  rw [← e1]
  congr 1
  cases s; cases t; simp_all

/-- crash right after an API write whose answer never arrived = that step with outcome `lost`, then a
restart; crash right before = outcome `fail`, then a restart: both are ordinary histories -/
theorem crash_points_are_histories (s : Sys) (e : Ev) (svcs : List Cidr) (ws : List WOut) :
    run s [e, .boot svcs ws] = (boot (step s e).1 svcs ws).1 := by
  simp [run, step]

/-- after the restart the caches equal the API state and every object is queued for processing -/
theorem boot_views (s : Sys) (svcs : List Cidr) (ws : List WOut) :
    (boot s svcs ws).1.nodeView = (boot s svcs ws).1.api.nodes ∧ (boot s svcs ws).1.ccView = (boot s svcs ws).1.api.ccs := by
  unfold boot
  exact ⟨rfl, rfl⟩

/-- start-up order (C03): nodes are listed before the allocator is constructed, informers start afterwards;
inside the constructor ClusterCIDRs are mapped before the service ranges are occupied, before the listed
nodes are occupied, before the node handlers are registered -/
theorem startupOrder : Facts.startupOrder = ["Nodes.List", "NewMultiCIDRRangeAllocator", "Start", "Start", "Run"] ∧
    Facts.constructorOrder = ["listClusterCIDRs", "reconcileBootstrap", "AddEventHandler:clusterCIDRInformer",
      "filterOutServiceRange", "filterOutServiceRange", "occupyCIDRs", "AddEventHandler:nodeInformer"] := by decide


end Ipam.C03
