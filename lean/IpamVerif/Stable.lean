import IpamVerif.Pending
import IpamVerif.Restart
import IpamVerif.Props.C09
/-!
# C08 over whole histories: pod CIDRs, once a node has them, are never changed

`Keeps a a'`: every node the API state `a` shows with pod CIDRs is still there in `a'` with the same pod CIDRs (and the
same `junk` flag).  **No assumption on the history**: every event of the model except the deletion of that very node —
a restart, node and ClusterCIDR work items under every write outcome (failed, lost, retried PATCHes; a cache that is
stale or catches up mid-item), label edits, foreign writers, notifications — keeps it (`step_keeps`), hence every
history does (`run_keeps`).  The controller side of this is `patch_only_when_cache_shows_no_cidrs` (it *tries* to write
only when its cache shows none); that a stale cache cannot turn the attempt into a change is the API server's rule
`Api.patchNode`, which the harness ties to the fake API server used by the implementation run.
-/
namespace Ipam.C08
open Ipam Ipam.Pending

/-- same pod CIDRs as before, for every node that had some -/
def Keeps (a a' : Api) : Prop :=
  ∀ name y, getNode a.nodes name = some y → y.hasCidrs = true →
    ∃ y', getNode a'.nodes name = some y' ∧ y'.cidrs = y.cidrs ∧ y'.junk = y.junk

theorem Keeps.refl (a : Api) : Keeps a a := fun _ y h _ => ⟨y, h, rfl, rfl⟩

theorem Keeps.of_nodes {a a' : Api} (h : a'.nodes = a.nodes) : Keeps a a' := by
  intro name y hy _
  exact ⟨y, by rw [h]; exact hy, rfl, rfl⟩

theorem hasCidrs_congr {y y' : NodeObj} (hc : y'.cidrs = y.cidrs) (hj : y'.junk = y.junk) : y'.hasCidrs = y.hasCidrs := by
  unfold NodeObj.hasCidrs; rw [hc, hj]

theorem Keeps.trans {a b c : Api} (h1 : Keeps a b) (h2 : Keeps b c) : Keeps a c := by
  intro name y hy hc
  obtain ⟨y1, hy1, hc1, hj1⟩ := h1 name y hy hc
  obtain ⟨y2, hy2, hc2, hj2⟩ := h2 name y1 hy1 (by rw [hasCidrs_congr hc1 hj1]; exact hc)
  exact ⟨y2, hy2, hc2.trans hc1, hj2.trans hj1⟩

/-- the API server's rule: a PATCH of `spec.podCIDRs` changes no node that has pod CIDRs -/
theorem patchNode_keeps (a : Api) (name : String) (cidrs : List Cidr) : Keeps a (a.patchNode name cidrs).1 := by
  rcases @Restart.patchNode_changes a name cidrs with hsame | ⟨n, hg, hnc, hp⟩
  · rw [hsame]; exact Keeps.refl a
  · rw [hp]
    intro z y hy hc
    by_cases hz : z = name
    · subst hz
      rw [hg] at hy; cases hy
      rw [hnc] at hc; cases hc
    · have hnn : n.name = name := (mem_of_getNode hg).2
      refine ⟨y, ?_, rfl, rfl⟩
      show getNode (putNode a.nodes { n with cidrs := cidrs }) z = some y
      rw [getNode_putNode_ne _ _ (by simpa [hnn] using hz)]
      exact hy

theorem apiAfter_keeps (name : String) (cidrs : List Cidr) : ∀ (k : Nat) (a : Api) (ws : List WOut),
    Keeps a (Restart.apiAfter name cidrs k a ws) := by
  intro k
  induction k with
  | zero => intro a ws; exact Keeps.refl a
  | succ k ih =>
    intro a ws
    unfold Restart.apiAfter
    cases ws.headD .ok with
    | fail => exact ih _ _
    | ok =>
      simp only
      split
      · exact patchNode_keeps a name cidrs
      · exact (patchNode_keeps a name cidrs).trans (ih _ _)
    | lost => exact (patchNode_keeps a name cidrs).trans (ih _ _)

theorem update_keeps (s : Sys) (name : String) (cidrs : List Cidr) (i : Nat) (ws : List WOut) :
    Keeps s.api (updateCIDRsAllocation s name cidrs i ws).1.api := by
  unfold updateCIDRsAllocation
  split
  · exact Keeps.refl _
  · split
    · exact Keeps.refl _
    · split
      · cases s.alloc.releaseAll i cidrs with
        | mk al okk => cases okk <;> exact Keeps.refl _
      · have key := apiAfter_keeps name cidrs 3 s.api ws
        rw [← Restart.patchLoop_api name cidrs 3 s.api ws []] at key
        cases h1 : patchLoop s.api name cidrs 3 ws [] with
        | mk a1 r1 =>
          rw [h1] at key
          obtain ⟨o1, p1⟩ := r1
          cases o1 <;> exact key

theorem update_keeps' (s s2 : Sys) (h : s2.api = s.api) (name : String) (cidrs : List Cidr) (i : Nat) (ws : List WOut) :
    Keeps s.api (updateCIDRsAllocation s2 name cidrs i ws).1.api := by
  rw [← h]; exact update_keeps s2 name cidrs i ws

theorem core_keeps (s : Sys) (name : String) (refresh : Bool) (ws : List WOut) :
    Keeps s.api (procNodeCore s name refresh ws).1.api := by
  unfold procNodeCore
  split
  · exact Keeps.refl _
  · split
    · cases releaseCIDR s.alloc _ with
      | mk al okk => cases okk <;> exact Keeps.refl _
    · unfold allocateOrOccupy
      split
      · cases occupyCIDRs s.alloc _ with
        | mk al okk => cases okk <;> exact Keeps.refl _
      · split
        · exact Keeps.refl _
        · split
          · exact Keeps.refl _
          · simp only
            split
            · split
              · refine update_keeps' s _ ?_ _ _ _ _; rfl
              · show Keeps s.api (updateCIDRsAllocation _ _ _ _ _).1.api
                refine update_keeps' s _ ?_ _ _ _ _; rfl
            · refine update_keeps' s _ ?_ _ _ _ _; rfl

theorem procNode_keeps (s : Sys) (name : String) (refresh : Bool) (ws : List WOut) :
    Keeps s.api (procNode s name refresh ws).1.api := by
  have := core_keeps { s with nodeQ := qDel s.nodeQ name } name refresh ws
  unfold procNode
  simp only
  split <;> exact this

theorem procCC_keeps (s : Sys) (name : String) (w : WOut) : Keeps s.api (procCC s name w).1.api := by
  have := (ccCore_eff { s with ccQ := qDel s.ccQ name } name w).1.nodes.2.1
  unfold procCC
  simp only
  split <;> exact Keeps.of_nodes this

theorem createClusterCIDR_nodes (s : Sys) (o : CCObj) (t : Bool) (w : WOut) :
    (createClusterCIDR s o t w).1.api.nodes = s.api.nodes := by
  unfold createClusterCIDR
  cases s.alloc.createCC o.name o.spec t with
  | none => rfl
  | some al => exact C09.attemptUpdate_nodes _ _ _ _ _

theorem bootCCs_nodes : ∀ (l : List CCObj) (s : Sys) (ws : List WOut) (acc : List (String × List String × String)),
    (bootCCs s l ws acc).1.api.nodes = s.api.nodes := by
  intro l
  induction l with
  | nil => intro s ws acc; rfl
  | cons o rest ih =>
    intro s ws acc
    unfold bootCCs
    simp only
    rw [ih, createClusterCIDR_nodes]

theorem boot_nodes (s : Sys) (svcs : List Cidr) (ws : List WOut) : (boot s svcs ws).1.api.nodes = s.api.nodes := by
  unfold boot
  simp only
  exact bootCCs_nodes _ _ _ _

theorem getNode_append_some (l : List NodeObj) (n : NodeObj) {x : String} {y : NodeObj} (h : getNode l x = some y) :
    getNode (l ++ [n]) x = some y := by
  unfold getNode at h ⊢
  rw [List.find?_append, h]; rfl

/-- **one event**: unless it deletes that very node, no event of the model changes the pod CIDRs of a node that has some -/
theorem step_keeps (s : Sys) (e : Ev) (name : String) (y : NodeObj) (hy : getNode s.api.nodes name = some y)
    (hc : y.hasCidrs = true) (hne : e ≠ .nodeDel name) :
    ∃ y', getNode (step s e).1.api.nodes name = some y' ∧ y'.cidrs = y.cidrs ∧ y'.junk = y.junk := by
  have same : ∀ s' : Sys, s'.api.nodes = s.api.nodes →
      ∃ y', getNode s'.api.nodes name = some y' ∧ y'.cidrs = y.cidrs ∧ y'.junk = y.junk :=
    fun s' h => ⟨y, by rw [h]; exact hy, rfl, rfl⟩
  have put : ∀ (z : String) (n n' : NodeObj), getNode s.api.nodes z = some n → n'.name = n.name → n'.cidrs = n.cidrs →
      n'.junk = n.junk → ∃ y', getNode (putNode s.api.nodes n') name = some y' ∧ y'.cidrs = y.cidrs ∧ y'.junk = y.junk := by
    intro z n n' hn hnn hcc hjj
    have hzn : n.name = z := (mem_of_getNode hn).2
    by_cases hz : name = z
    · subst hz
      rw [hy] at hn; cases hn
      refine ⟨n', ?_, hcc, hjj⟩
      have := getNode_putNode_self s.api.nodes n'
      rw [hnn, hzn] at this; exact this
    · refine ⟨y, ?_, rfl, rfl⟩
      rw [getNode_putNode_ne _ _ (by rw [hnn, hzn]; exact hz)]; exact hy
  cases e with
  | boot svcs ws => exact same _ (boot_nodes s svcs ws)
  | nodeAdd n =>
    simp only [step]
    split
    · exact same _ rfl
    · exact ⟨y, getNode_append_some _ _ hy, rfl, rfl⟩
  | nodeDel z =>
    have hz : name ≠ z := fun h => hne (by rw [h])
    simp only [step]
    split
    · exact same _ rfl
    · refine ⟨y, ?_, rfl, rfl⟩
      show getNode (delNode s.api.nodes z) name = some y
      rw [getNode_delNode_ne _ hz]; exact hy
  | nodeLabels z ls =>
    simp only [step]
    split
    · exact same _ rfl
    · rename_i n hn
      exact put z n { n with labels := ls } hn rfl rfl rfl
  | nodeDeleting z =>
    simp only [step]
    split
    · exact same _ rfl
    · rename_i n hn
      exact put z n { n with deleting := true } hn rfl rfl rfl
  | ccAdd z spec =>
    simp only [step]
    split <;> exact same _ rfl
  | ccDel z =>
    simp only [step]
    repeat' split
    all_goals exact same _ rfl
  | ccGen z g =>
    simp only [step]
    repeat' split
    all_goals exact same _ rfl
  | ccAddFin z fin =>
    simp only [step]
    repeat' split
    all_goals exact same _ rfl
  | nodeSetCIDRs z cidrs => exact patchNode_keeps s.api z cidrs name y hy hc
  | deliverNode z tomb =>
    simp only [step]
    repeat' split
    all_goals exact same _ rfl
  | deliverCC z =>
    simp only [step]
    repeat' split
    all_goals exact same _ rfl
  | procNode z refresh ws =>
    simp only [step]
    split
    · exact procNode_keeps s z refresh ws name y hy hc
    · exact same _ rfl
  | procCC z w =>
    simp only [step]
    split
    · exact procCC_keeps s z w name y hy hc
    · exact same _ rfl

/-- **every history**: from the moment the API shows a node with pod CIDRs until that node is deleted, every state
shows it with exactly those pod CIDRs — whatever else happens (restarts at any instant, lost and failed writes, stale
caches, other writers, ClusterCIDR churn) -/
theorem run_keeps (evs : List Ev) : ∀ (s : Sys) (name : String) (y : NodeObj), getNode s.api.nodes name = some y →
    y.hasCidrs = true → (∀ e ∈ evs, e ≠ .nodeDel name) →
    ∃ y', getNode (run s evs).api.nodes name = some y' ∧ y'.cidrs = y.cidrs ∧ y'.junk = y.junk := by
  induction evs with
  | nil => intro s name y hy _ _; exact ⟨y, hy, rfl, rfl⟩
  | cons e rest ih =>
    intro s name y hy hc hne
    obtain ⟨y1, hy1, hc1, hj1⟩ := step_keeps s e name y hy hc (hne e (List.mem_cons_self ..))
    obtain ⟨y2, hy2, hc2, hj2⟩ := ih (step s e).1 name y1 hy1 (by rw [hasCidrs_congr hc1 hj1]; exact hc)
      (fun e' he' => hne e' (List.mem_cons_of_mem _ he'))
    exact ⟨y2, by unfold run; exact hy2, hc2.trans hc1, hj2.trans hj1⟩

end Ipam.C08
