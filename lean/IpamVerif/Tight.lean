import IpamVerif.Safety
/-!
# Tightness: every used block is justified (C04 on the fragment of `Safety.lean`)

`Tight s`: every block in use in a pool is a pod CIDR of a node *associated with that entry* — whose object is in
the API or is the recorded final state of a deleted node — or it meets a configured service range.  Preserved by
every event of the fragment (`tight_step`, given the invariant `Inv` of `Safety.lean`), hence by every history in
it (`tight_run`).  The ingredients that are not in `Safety.lean`: a release frees *every* CIDR of the node in the
entry it is associated with (`releaseNode_frees`); a re-sync marks nothing new (`occupyNode_same`); what
`prioritizedCIDRs` leaves in use is what was in use plus exactly the CIDRs it returns (`served_exact`); the branch
"the cache already shows exactly these CIDRs" of `updateCIDRsAllocation` cannot be taken on the fragment
(the blocks would still be in use); entries mapped anew have nothing in use.  Core Lean only.
-/
namespace Ipam.Safety
open Ipam

/-- every used block is justified: it is a pod CIDR of a node associated with that entry (an API object, or the
final state of a deleted node whose delete notification is still to come), or it meets a configured service range -/
def Tight (s : Sys) : Prop :=
  ∀ j cd, UsedAt s.alloc j cd →
    (∃ x, Claims s.alloc x j ∧ ∃ v ∈ s.api.nodes ++ s.api.graves, v.name = x ∧ cd ∈ v.cidrs) ∨
    (∃ svc ∈ s.svcs, ¬ cd.Disjoint svc)

/-- the allocator state is untouched; the objects of associated nodes keep their pod CIDRs -/
theorem tight_api {s s' : Sys} (hT : Tight s) (hal : s'.alloc = s.alloc) (hsv : s'.svcs = s.svcs)
    (hobj : ∀ x j, Claims s.alloc x j → ∀ v ∈ s.api.nodes ++ s.api.graves, v.name = x →
      ∃ v' ∈ s'.api.nodes ++ s'.api.graves, v'.name = x ∧ v'.cidrs = v.cidrs) : Tight s' := by
  intro j cd hu
  rw [hal] at hu
  rcases hT j cd hu with ⟨x, hc, v, hv, hvn, hcd⟩ | hsvc
  · left
    obtain ⟨v', hv', hvn', hvc'⟩ := hobj x j hc v hv hvn
    exact ⟨x, by rw [hal]; exact hc, v', hv', hvn', by rw [hvc']; exact hcd⟩
  · right; rw [hsv]; exact hsvc

/-- used sets shrank or stayed, associations and API objects unchanged -/
theorem tight_shrink {s : Sys} (hT : Tight s) {a' : Alloc} (hle : AllocLe a' s.alloc) : Tight { s with alloc := a' } := by
  intro j cd hu
  have hu0 := usedAt_le hle hu
  rcases hT j cd hu0 with ⟨x, hc, hv⟩ | hsvc
  · exact Or.inl ⟨x, (claims_le hle x j).mp hc, hv⟩
  · exact Or.inr hsvc

theorem Tight.congr {s s' : Sys} (h : Tight s) (hn : s'.api.nodes = s.api.nodes) (hg : s'.api.graves = s.api.graves)
    (hal : s'.alloc = s.alloc) (hsv : s'.svcs = s.svcs) : Tight s' := by
  intro j cd hu
  rw [hal] at hu
  rcases h j cd hu with ⟨x, hc, v, hv, hvn, hcd⟩ | hsvc
  · exact Or.inl ⟨x, by rw [hal]; exact hc, v, by rw [hn, hg]; exact hv, hvn, hcd⟩
  · exact Or.inr (by rw [hsv]; exact hsvc)


/-! ### events on API objects -/

theorem tight_nodeAdd {s : Sys} (h : Inv s) (hT : Tight s) (n : NodeObj)
    (hv : getNode s.nodeView n.name = none) (ha : getNode s.api.nodes n.name = none) :
    Tight (step s (.nodeAdd n)).1 := by
  have hstep : (step s (.nodeAdd n)).1 =
      { s with api := { s.api with nodes := s.api.nodes ++ [n], graves := delNode s.api.graves n.name } } := by
    simp [step, ha]
  rw [hstep]
  have hview := getNode_none_iff.mp hv
  refine tight_api hT rfl rfl ?_
  intro x j hc v hvm hvn
  refine ⟨v, ?_, hvn, rfl⟩
  rcases List.mem_append.mp hvm with hvm | hvm
  · exact List.mem_append_left _ (List.mem_append_left _ hvm)
  · apply List.mem_append_right
    refine mem_delNode.mpr ⟨hvm, ?_⟩
    intro he
    obtain ⟨w, hw, hwn⟩ := h.pend j x hc
    exact hview w hw (hwn.trans (hvn.symm.trans he))

theorem tight_nodeDel {s : Sys} (h : Inv s) (hT : Tight s) (name : String) : Tight (step s (.nodeDel name)).1 := by
  cases hg : getNode s.api.nodes name with
  | none =>
    have : (step s (.nodeDel name)).1 = s := by simp [step, hg]
    rw [this]; exact hT
  | some y =>
    have hstep : (step s (.nodeDel name)).1 =
        { s with api := { s.api with nodes := delNode s.api.nodes name, graves := putNode s.api.graves y } } := by
      simp [step, hg]
    rw [hstep]
    obtain ⟨hym, hyn⟩ := mem_of_getNode hg
    refine tight_api hT rfl rfl ?_
    intro x j _ v hvm hvn
    refine ⟨v, ?_, hvn, rfl⟩
    show v ∈ delNode s.api.nodes name ++ putNode s.api.graves y
    rcases List.mem_append.mp hvm with hvm | hvm
    · by_cases he : v.name = name
      · have : v = y := eq_of_nodup_names h.nodupApi hvm hym (he.trans hyn.symm)
        rw [this]
        exact List.mem_append_right _ (mem_putNode_self _ _)
      · exact List.mem_append_left _ (mem_delNode.mpr ⟨hvm, he⟩)
    · exact List.mem_append_right _ (mem_putNode_of_ne hvm (h.gravesFresh v hvm y hym))

theorem tight_nodeDeleting {s : Sys} (h : Inv s) (hT : Tight s) (name : String) : Tight (step s (.nodeDeleting name)).1 := by
  cases hg : getNode s.api.nodes name with
  | none =>
    have : (step s (.nodeDeleting name)).1 = s := by simp [step, hg]
    rw [this]; exact hT
  | some y =>
    have hstep : (step s (.nodeDeleting name)).1 =
        { s with api := { s.api with nodes := putNode s.api.nodes { y with deleting := true } } } := by
      simp [step, hg]
    rw [hstep]
    obtain ⟨hym, hyn⟩ := mem_of_getNode hg
    refine tight_api hT rfl rfl ?_
    intro x j _ v hvm hvn
    rcases List.mem_append.mp hvm with hvm | hvm
    · by_cases he : v.name = y.name
      · have : v = y := eq_of_nodup_names h.nodupApi hvm hym he
        subst this
        exact ⟨{ v with deleting := true }, List.mem_append_left _ (mem_putNode_self _ _), hvn, rfl⟩
      · exact ⟨v, List.mem_append_left _ (mem_putNode_of_ne hvm he), hvn, rfl⟩
    · exact ⟨v, List.mem_append_right _ hvm, hvn, rfl⟩


/-! ### release -/

theorem Released.usedAt_sub {a a' : Alloc} {x : String} {cs : List Cidr} (h : Released a a' x cs) {j : Nat} {cd : Cidr}
    (hu : UsedAt a' j cd) : UsedAt a j cd := by
  obtain ⟨c', p', k, hg, hp, hk, hb⟩ := hu
  obtain ⟨c, hc, _, _, hpl, _, _⟩ := h.stat j c' hg
  have := hpl cd.fam
  rw [hp] at this
  cases hcp : c.pool cd.fam with
  | none => rw [hcp] at this; exact this.elim
  | some p =>
    rw [hcp] at this
    exact ⟨c, p, k, hc, hcp, this.2.2 k hk, by rw [this.1]; exact hb⟩

theorem releaseAll_frees (i : Nat) : ∀ (cs : List Cidr) (a : Alloc), a.WF → (∀ cd ∈ cs, cd.WF) →
    ∀ a', a.releaseAll i cs = (a', true) → ∀ cd ∈ cs, ¬ UsedAt a' i cd := by
  intro cs
  induction cs with
  | nil => intro a _ _ a' _ cd hcd; cases hcd
  | cons c0 rest ih =>
    intro a ha hw a' h
    unfold Alloc.releaseAll at h
    cases hg : a.get? i with
    | none => rw [hg] at h; simp at h
    | some c =>
      rw [hg] at h
      simp only at h
      cases hr : c.release c0 with
      | none => rw [hr] at h; simp at h
      | some c' =>
        rw [hr] at h
        simp only at h
        have hc0 := hw c0 (List.mem_cons_self ..)
        have hwrest : ∀ cd ∈ rest, cd.WF := fun cd hcd => hw cd (List.mem_cons_of_mem _ hcd)
        -- the pool after the first release
        unfold CC.release at hr
        cases hp : c.pool c0.fam with
        | none => rw [hp] at hr; cases hr
        | some p =>
          rw [hp] at hr
          simp only at hr
          cases hpr : p.release c0 with
          | none => rw [hpr] at hr; cases hr
          | some p' =>
            rw [hpr] at hr
            cases hr
            have hok := ha i c hg _ p hp
            obtain ⟨hI, hgeo, _, _, hm⟩ := (C14.release_refines hok.2.1 hok.1 hc0).2 p' hpr
            have hok' : PoolOK c0.fam p' := ⟨hI, hgeo ▸ hok.2.1, hgeo ▸ hok.2.2⟩
            have hwf1 : (a.set i (c.setPool c0.fam p')).WF := Alloc.WF_set ha (CC.WF_setPool (ha i c hg) hok')
            obtain ⟨_, hle2, _⟩ := releaseAll_spec i rest _ hwf1 hwrest a' true h
            intro cd hcd
            rcases List.mem_cons.mp hcd with rfl | hcd
            · intro hu
              have hu1 := usedAt_le hle2 hu
              obtain ⟨d, q, k, hd, hq, hk, hb⟩ := hu1
              rw [Alloc.get?_set_self _ _ _ _ hg] at hd; cases hd
              rw [CC.pool_setPool_same] at hq; cases hq
              have hkp := (hm k).mp hk
              apply hkp.2
              refine ⟨hok.1.bound k hkp.1, ?_⟩
              rw [← hgeo, hb]
              intro hdis
              have := cd.size_pos
              unfold Cidr.Disjoint at hdis
              omega
            · exact ih _ hwf1 hwrest a' h cd hcd

/-- the release of an associated node goes through and frees every one of its CIDRs in the entry it is associated with -/
theorem releaseNode_frees {a : Alloc} (ha : a.WF) {x : String} {ls : Labels} {cs : List Cidr} (hcs : ∀ cd ∈ cs, cd.WF)
    (huniq : ∀ i j, Claims a x i → Claims a x j → i = j)
    (hel : ∀ i, Claims a x i → Elig a i ls)
    (hin : ∀ i, Claims a x i → ∀ cd ∈ cs, UsedAt a i cd)
    {a' : Alloc} {ok : Bool} (h : a.releaseNode x ls cs = (a', ok)) {i : Nat} (hci : Claims a x i) :
    ∀ cd ∈ cs, ¬ UsedAt a' i cd := by
  unfold Alloc.releaseNode at h
  cases hcc : a.allocatedCC x (a.ordered ls false) with
  | none =>
    exact absurd hci (allocatedCC_none _ hcc i (mem_ordered_false_of_elig (hel i hci)))
  | some i' =>
    have hci' := allocatedCC_some _ hcc
    have hii : i' = i := huniq i' i hci' hci
    subst hii
    rw [hcc] at h
    simp only at h
    have hokk : (a.releaseAll i' cs).2 = true := by
      apply releaseAll_ok i' cs a ha
      intro cd hcd
      refine ⟨hcs cd hcd, ?_⟩
      obtain ⟨c, p, hg, hp, hsub, _⟩ := usedAt_sub_range ha (hin i' hci cd hcd)
      refine ⟨c, p, hg, hp, ?_⟩
      intro hdis
      have := cd.size_pos
      unfold Cidr.Sub at hsub
      unfold Cidr.Disjoint at hdis
      omega
    cases hra : a.releaseAll i' cs with
    | mk a1 okk =>
      rw [hra] at h hokk
      simp only at hokk
      subst hokk
      simp only at h
      obtain ⟨_, hle1, _⟩ := releaseAll_spec i' cs a ha hcs a1 true hra
      have hfree := releaseAll_frees i' cs a ha hcs a1 hra
      obtain ⟨c, hg, _⟩ := hci
      have hlt : i' < a1.ccs.length := by
        rw [← hle1.1]
        unfold Alloc.get? at hg
        exact (List.getElem?_eq_some_iff.mp hg).1
      have hg1 : a1.get? i' = some (a1.ccs[i']) := by unfold Alloc.get?; exact List.getElem?_eq_getElem hlt
      rw [hg1] at h
      simp only [Prod.mk.injEq] at h
      obtain ⟨rfl, _⟩ := h
      intro cd hcd hu
      apply hfree cd hcd
      obtain ⟨d, q, k, hd, hq, hk, hb⟩ := hu
      rw [Alloc.get?_set_self _ _ _ _ hg1] at hd; cases hd
      rw [delAssoc_pool] at hq
      exact ⟨_, q, k, hg1, hq, hk, hb⟩


theorem tight_releaseCIDR {s : Sys} (h : Inv s) (hT : Tight s) (V : NodeObj) (hV : V ∈ Objs s)
    (hW : ∀ i, Claims s.alloc V.name i → V.cidrs ≠ []) (view' : List NodeObj) :
    Tight { s with alloc := (releaseCIDR s.alloc V).1, nodeView := view' } := by
  have hjunk := h.obj.nojunk V hV
  by_cases hcl : ∃ i₀, Claims s.alloc V.name i₀
  · obtain ⟨i₀, hc0⟩ := hcl
    have hne := hW i₀ hc0
    have hrc : releaseCIDR s.alloc V = s.alloc.releaseNode V.name V.labels V.cidrs := by
      unfold releaseCIDR NodeObj.hasCidrs
      have : V.cidrs.isEmpty = false := by
        cases hcs : V.cidrs with
        | nil => exact absurd hcs hne
        | cons _ _ => rfl
      simp [hjunk, this]
    rw [hrc]
    have hcsw : ∀ cd ∈ V.cidrs, cd.WF := h.obj.cidrWF V hV
    have hres : s.alloc.releaseNode V.name V.labels V.cidrs = ((s.alloc.releaseNode V.name V.labels V.cidrs).1, (s.alloc.releaseNode V.name V.labels V.cidrs).2) := rfl
    have hrel := releaseNode_released h.wf hcsw hres
    have hin : ∀ i, Claims s.alloc V.name i → ∀ cd ∈ V.cidrs, UsedAt s.alloc i cd := by
      intro i hci cd hcd
      obtain ⟨w, hwm, hwn, hw0, hu⟩ := h.own i _ hci
      have hwo : w ∈ Objs s := by
        unfold Objs
        rcases List.mem_append.mp hwm with hwm | hwm
        · exact List.mem_append_left _ (List.mem_append_left _ hwm)
        · exact List.mem_append_right _ hwm
      have := h.obj.coh V hV w hwo hwn.symm hne hw0
      rw [this] at hcd
      exact hu cd hcd
    have hfree := releaseNode_frees h.wf hcsw (fun i j => h.uniq i j _)
      (fun i hci => h.obj.elig i _ hci V hV rfl) hin hres hc0
    intro j cd hu
    have hu0 := hrel.usedAt_sub hu
    rcases hT j cd hu0 with ⟨x, hcx, v, hvm, hvn, hcd⟩ | hsvc
    · by_cases hxe : x = V.name
      · -- a block of the released node itself: it was freed
        exfalso
        subst hxe
        have hji : j = i₀ := h.uniq j i₀ _ hcx hc0
        subst hji
        have hvo : v ∈ Objs s := by
          unfold Objs
          rcases List.mem_append.mp hvm with hvm | hvm
          · exact List.mem_append_left _ (List.mem_append_left _ hvm)
          · exact List.mem_append_right _ hvm
        have hv0 : v.cidrs ≠ [] := by intro h0; rw [h0] at hcd; cases hcd
        have := h.obj.coh v hvo V hV hvn hv0 hne
        rw [this] at hcd
        exact hfree cd hcd hu
      · exact Or.inl ⟨x, hrel.claims_keep hcx hxe, v, hvm, hvn, hcd⟩
    · exact Or.inr hsvc
  · have hno : ∀ i, ¬ Claims s.alloc V.name i := fun i hi => hcl ⟨i, hi⟩
    have hrc : (releaseCIDR s.alloc V).1 = s.alloc := by
      unfold releaseCIDR
      split
      · rfl
      · split
        · rfl
        · rw [releaseNode_unclaimed _ _ hno]
    rw [hrc]
    exact hT.congr rfl rfl rfl rfl

theorem tight_gone {s : Sys} (h : Inv s) (hT : Tight s) (name : String) (hg : getNode s.api.nodes name = none) (stale : NodeObj)
    (hv : getNode s.nodeView name = some stale) :
    Tight { s with alloc := (releaseCIDR s.alloc ((getNode s.api.graves name).getD stale)).1, nodeView := delNode s.nodeView name } := by
  obtain ⟨hsm, hsn⟩ := mem_of_getNode hv
  have hapi := getNode_none_iff.mp hg
  obtain ⟨g, hgm, hgn⟩ : ∃ g ∈ s.api.graves, g.name = name := by
    rcases h.graveOrApi stale hsm with ⟨y, hy, hyn⟩ | ⟨g, hgm, hgn⟩
    · exact absurd (hyn.trans hsn) (hapi y hy)
    · exact ⟨g, hgm, hgn.trans hsn⟩
  obtain ⟨g', hg'⟩ := getNode_isSome_of_mem hgm hgn
  obtain ⟨hg'm, hg'n⟩ := mem_of_getNode hg'
  rw [hg']
  simp only [Option.getD_some]
  exact tight_releaseCIDR h hT g' (List.mem_append_right _ hg'm) (by
      intro i hci
      obtain ⟨w, hwm, hwn, hw0, _⟩ := h.own i _ hci
      rcases List.mem_append.mp hwm with hwm | hwm
      · exact absurd (hwn.trans hg'n) (hapi w hwm)
      · have : w = g' := eq_of_nodup_names h.nodupGraves hwm hg'm hwn
        rw [← this]; exact hw0) _

theorem tight_deliver {s : Sys} (h : Inv s) (hT : Tight s) (name : String) (tomb : Bool)
    (hf : Frag s (.deliverNode name tomb)) : Tight (step s (.deliverNode name tomb)).1 := by
  cases hg : getNode s.api.nodes name with
  | some cur =>
    have hstep : (step s (.deliverNode name tomb)).1 =
        { s with nodeView := putNode s.nodeView cur, nodeQ := qAdd s.nodeQ name } := by simp [step, hg]
    rw [hstep]; exact hT.congr rfl rfl rfl rfl
  | none =>
    cases tomb with
    | true => have := hf rfl; rw [hg] at this; cases this
    | false =>
      cases hv : getNode s.nodeView name with
      | none =>
        have : (step s (.deliverNode name false)).1 = s := by simp [step, hg, hv]
        rw [this]; exact hT
      | some stale =>
        have hstep : (step s (.deliverNode name false)).1 =
            { s with alloc := (releaseCIDR s.alloc ((getNode s.api.graves name).getD stale)).1,
                     nodeView := delNode s.nodeView name, nodeQ := qAdd s.nodeQ name } := by
          simp [step, hg, hv]
        rw [hstep]
        exact (tight_gone h hT name hg stale hv).congr rfl rfl rfl rfl


/-! ### re-sync marks nothing new -/

theorem pool_occupy_used_block {f : Fam} {p p' : Pool} (hp : PoolOK f p) {k : Nat} (hk : k ∈ p.used)
    (h : p.occupy (goBlock p.geo k) = some p') : PoolLe p' p ∧ PoolLe p p' ∧ PoolOK f p' := by
  have hkm : k < p.max := hp.1.bound k hk
  have hbw := goBlock_WF hp hkm
  obtain ⟨hI, hg, _, hl, hm⟩ := (C14.occupy_refines hp.2.1 hp.1 hbw).2 p' h
  refine ⟨⟨hg.symm, hl.symm, ?_⟩, ⟨hg, hl, fun j hj => (hm j).mpr (Or.inl hj)⟩, ⟨hI, hg ▸ hp.2.1, hg ▸ hp.2.2⟩⟩
  intro j hj
  rcases (hm j).mp hj with hj | ⟨hjm, hnd⟩
  · exact hj
  · -- a block that meets block `k` is block `k`
    by_cases hjk : j = k
    · rw [hjk]; exact hk
    · exact absurd (C13.blocks_disjoint hp.2.1 hjm hkm hjk) hnd

/-- occupying, in an entry, CIDRs that are all blocks in use there changes no used set -/
theorem occupyList_exact : ∀ (cs : List Cidr) (c : CC), c.WF →
    (∀ cd ∈ cs, ∃ p k, c.pool cd.fam = some p ∧ k ∈ p.used ∧ goBlock p.geo k = cd) →
    (c.occupyList cs).2 = true ∧ CCLe (c.occupyList cs).1 c ∧ (c.occupyList cs).1.WF := by
  intro cs
  induction cs with
  | nil => intro c hc _; exact ⟨rfl, CCLe.refl c, hc⟩
  | cons cd rest ih =>
    intro c hc hall
    obtain ⟨p, k, hp, hk, hb⟩ := hall cd (List.mem_cons_self ..)
    have hok := hc _ p hp
    have hkm : k < p.max := hok.1.bound k hk
    obtain ⟨p', hocc⟩ := occupy_own_block hok hkm
    obtain ⟨hle1, hle2, hok'⟩ := pool_occupy_used_block hok hk hocc
    rw [hb] at hocc
    have hco : c.occupy cd = some (c.setPool cd.fam p') := by
      unfold CC.occupy; rw [hp]; simp only [hocc]
    unfold CC.occupyList
    rw [hco]
    simp only
    have hcw' : (c.setPool cd.fam p').WF := CC.WF_setPool hc hok'
    have hall' : ∀ cd2 ∈ rest, ∃ q k2, (c.setPool cd.fam p').pool cd2.fam = some q ∧ k2 ∈ q.used ∧ goBlock q.geo k2 = cd2 := by
      intro cd2 hcd2
      obtain ⟨q, k2, hq, hk2, hb2⟩ := hall cd2 (List.mem_cons_of_mem _ hcd2)
      by_cases hf : cd2.fam = cd.fam
      · rw [hf, hp] at hq; cases hq
        exact ⟨p', k2, by rw [hf]; exact CC.pool_setPool_same _ _ _, hle2.2.2 k2 hk2, by rw [hle2.1]; exact hb2⟩
      · exact ⟨q, k2, by rw [CC.pool_setPool_other _ _ _ _ hf]; exact hq, hk2, hb2⟩
    obtain ⟨h1, h2, h3⟩ := ih _ hcw' hall'
    refine ⟨h1, CCLe.trans h2 ?_, h3⟩
    refine ⟨by cases cd.fam <;> rfl, by cases cd.fam <;> rfl, by cases cd.fam <;> rfl, by cases cd.fam <;> rfl,
      by cases cd.fam <;> rfl, ?_⟩
    intro g
    by_cases hg : g = cd.fam
    · subst hg; rw [CC.pool_setPool_same, hp]; exact hle1
    · rw [CC.pool_setPool_other _ _ _ _ hg]; exact OptPoolLe.refl _

theorem occupyList_head_fails {c : CC} (hc : c.WF) {cd : Cidr} (hcd : cd.WF) (rest : List Cidr)
    (hdis : ∀ p, c.pool cd.fam = some p → cd.Disjoint p.geo.range) : c.occupyList (cd :: rest) = (c, false) := by
  unfold CC.occupyList
  have : c.occupy cd = none := by
    unfold CC.occupy
    cases hp : c.pool cd.fam with
    | none => rfl
    | some p =>
      simp only
      have hok := hc _ p hp
      rw [((C14.occupy_refines hok.2.1 hok.1 hcd).1).mpr (Or.inr (hdis p hp))]
  rw [this]

theorem occupyNode_same (name : String) (cidrs : List Cidr) (i₀ : Nat) (hne : cidrs ≠ []) :
    ∀ (l : List Nat) (a : Alloc), a.WF → RangesDisj a → Claims a name i₀ → (∀ cd ∈ cidrs, UsedAt a i₀ cd) →
      AllocLe (a.occupyNode name cidrs l).1 a := by
  intro l
  induction l with
  | nil => intro a _ _ _ _; exact AllocLe.refl a
  | cons j rest ih =>
    intro a ha hrd hcl hused
    unfold Alloc.occupyNode
    cases hg : a.get? j with
    | none => simp only; exact ih a ha hrd hcl hused
    | some c =>
      simp only
      by_cases hj : j = i₀
      · subst hj
        have hall : ∀ cd ∈ cidrs, ∃ p k, c.pool cd.fam = some p ∧ k ∈ p.used ∧ goBlock p.geo k = cd := by
          intro cd hcd
          obtain ⟨d, p, k, hd, hp, hk, hb⟩ := hused cd hcd
          rw [hg] at hd; cases hd
          exact ⟨p, k, hp, hk, hb⟩
        obtain ⟨h1, h2, _⟩ := occupyList_exact cidrs c (ha j c hg) hall
        cases hr : c.occupyList cidrs with
        | mk c' okk =>
          rw [hr] at h1 h2
          simp only at h1 h2
          subst h1
          simp only
          obtain ⟨c0, hg0, hx⟩ := hcl
          rw [hg] at hg0; cases hg0
          have hassoc : c'.addAssoc name = c' := by
            unfold CC.addAssoc
            have : c'.assoc.contains name = true := by rw [← h2.2.2.2.1]; simpa using hx
            rw [if_pos this]
          rw [hassoc]
          refine ⟨by simp [Alloc.set], ?_⟩
          intro k d hd
          by_cases hjk : j = k
          · subst hjk
            rw [Alloc.get?_set_self _ _ _ _ hg] at hd; cases hd
            exact ⟨c, hg, h2⟩
          · rw [Alloc.get?_set_ne _ _ _ _ hjk] at hd
            exact ⟨d, hd, CCLe.refl d⟩
      · -- another entry: the first CIDR lies outside its ranges, nothing is marked
        cases hcs : cidrs with
        | nil => exact absurd hcs hne
        | cons cd0 rest0 =>
          have hcd0 : cd0 ∈ cidrs := by rw [hcs]; exact List.mem_cons_self ..
          obtain ⟨c0, p0, hg0, hp0, hsub, hw0⟩ := usedAt_sub_range ha (hused cd0 hcd0)
          have hfail : c.occupyList (cd0 :: rest0) = (c, false) := by
            apply occupyList_head_fails (ha j c hg) hw0
            intro p hp
            have hdis := hrd j i₀ c c0 cd0.fam p p0 hg hg0 hp hp0 hj
            have := cd0.size_pos
            unfold Cidr.Sub at hsub
            unfold Cidr.Disjoint at hdis ⊢
            omega
          rw [hfail]
          simp only
          have hset : a.set j c = a := Alloc.set_self a j c hg
          rw [hset, ← hcs]
          exact ih a ha hrd hcl hused


/-! ### allocation -/

/-- after `prioritizedCIDRs` served `cidrs` from entry `i`: what is in use is what was in use before, plus exactly these -/
theorem served_exact {a₀ al a'' : Alloc} (hwf : al.WF) {cidrs : List Cidr} {i : Nat}
    (hserved : ∀ cd ∈ cidrs, UsedAt al i cd ∧ cd.WF)
    (hback : al.releaseAll i cidrs = (a'', true)) (hle : AllocLe a'' a₀) {j : Nat} {cd : Cidr} (hu : UsedAt al j cd) :
    UsedAt a₀ j cd ∨ (j = i ∧ cd ∈ cidrs) := by
  by_cases hex : j = i ∧ ∃ c ∈ cidrs, c.fam = cd.fam ∧ ¬ cd.Disjoint c
  · obtain ⟨hji, c, hc, hfam, hnd⟩ := hex
    subst hji
    right
    refine ⟨rfl, ?_⟩
    obtain ⟨d, q, kc, hd, hq, hkc, hbc⟩ := (hserved c hc).1
    obtain ⟨d', p, k, hd', hp, hk, hb⟩ := hu
    rw [hd] at hd'; cases hd'
    rw [← hfam, hq] at hp; cases hp
    have hok := hwf j d hd _ q hq
    have hkm := hok.1.bound k hk
    have hkcm := hok.1.bound kc hkc
    have : k = kc := by
      false_or_by_contra; rename_i hne
      have := C13.blocks_disjoint hok.2.1 hkm hkcm hne
      rw [hb, hbc] at this
      exact hnd this
    rw [← hb, this, hbc]; exact hc
  · left
    have hw : ∀ c ∈ cidrs, c.WF := fun c hc => (hserved c hc).2
    obtain ⟨_, _, hkeep⟩ := releaseAll_spec i cidrs al hwf hw a'' true hback
    apply usedAt_le hle
    apply hkeep j cd hu
    by_cases hji : j = i
    · right
      intro c hc hfam
      false_or_by_contra; rename_i hnd
      exact hex ⟨hji, c, hc, hfam, hnd⟩
    · exact Or.inl hji

/-- the write, for tightness -/
theorem tight_assign {s₀ : Sys} (hT : Tight s₀) {al : Alloc} (hle : AllocLe s₀.alloc al)
    {name : String} {cidrs : List Cidr} {i : Nat}
    (hex : ∀ j cd, UsedAt al j cd → UsedAt s₀.alloc j cd ∨ (j = i ∧ cd ∈ cidrs))
    (hnodup : (s₀.api.nodes.map (·.name)).Nodup)
    (y : NodeObj) (hy : getNode s₀.api.nodes name = some y) (hyc : y.cidrs = [] ∨ y.cidrs = cidrs)
    (c : CC) (hc : al.get? i = some c) (view' : List NodeObj) (q : List String) :
    Tight { s₀ with api := { s₀.api with nodes := putNode s₀.api.nodes { y with cidrs := cidrs } },
                    alloc := al.set i (c.addAssoc name), nodeView := view', nodeQ := q } := by
  obtain ⟨hym, hyn⟩ := mem_of_getNode hy
  intro j cd hu
  have hu1 := (usedAt_addAssoc hc name j cd).mp hu
  rcases hex j cd hu1 with hu0 | ⟨hji, hcd⟩
  · rcases hT j cd hu0 with ⟨x, hcx, v, hvm, hvn, hvc⟩ | hsvc
    · left
      refine ⟨x, (claims_addAssoc hc name x j).mpr (Or.inl ((claims_le hle x j).mpr hcx)), ?_⟩
      rcases List.mem_append.mp hvm with hvm | hvm
      · by_cases he : v.name = y.name
        · have : v = y := eq_of_nodup_names hnodup hvm hym he
          subst this
          refine ⟨{ v with cidrs := cidrs }, List.mem_append_left _ (mem_putNode_self _ _), hvn, ?_⟩
          rcases hyc with h0 | h0
          · rw [h0] at hvc; cases hvc
          · rw [h0] at hvc; exact hvc
        · exact ⟨v, List.mem_append_left _ (mem_putNode_of_ne hvm he), hvn, hvc⟩
      · exact ⟨v, List.mem_append_right _ hvm, hvn, hvc⟩
    · exact Or.inr hsvc
  · left
    subst hji
    exact ⟨name, (claims_addAssoc hc name name j).mpr (Or.inr ⟨rfl, rfl⟩), { y with cidrs := cidrs },
      List.mem_append_left _ (mem_putNode_self _ _), hyn, hcd⟩


theorem tight_update {sB : Sys} (hB : Inv sB) (hT : Tight sB) {al : Alloc} (hle : AllocLe sB.alloc al) (hwf : al.WF)
    {name : String} {cidrs : List Cidr} {i : Nat} (hne : cidrs ≠ [])
    (hserved : ∀ cd ∈ cidrs, UsedAt al i cd ∧ cd.WF ∧ sB.alloc.blocked cd = false)
    {a'' : Alloc} (hback : al.releaseAll i cidrs = (a'', true)) (heqv : AllocEqv sB.alloc a'')
    (hbranch : ∀ n2, getNode sB.nodeView name = some n2 → ¬ (n2.junk = false ∧ n2.cidrs = cidrs))
    (ws : List WOut) (hws : ∀ w ∈ ws.take 3, w ≠ WOut.lost) :
    Tight (updateCIDRsAllocation { sB with alloc := al } name cidrs i ws).1 := by
  have hBack : Tight { sB with alloc := a'' } := tight_shrink hT heqv.2
  have hU : ∀ cd ∈ cidrs, UsedAt al i cd ∧ cd.WF := fun cd hcd => ⟨(hserved cd hcd).1, (hserved cd hcd).2.1⟩
  have hexact : ∀ j cd, UsedAt al j cd → UsedAt sB.alloc j cd ∨ (j = i ∧ cd ∈ cidrs) :=
    fun j cd hu => served_exact hwf hU hback heqv.2 hu
  unfold updateCIDRsAllocation
  cases hv : getNode sB.nodeView name with
  | none =>
    simp only [hback]
    exact hBack.congr rfl rfl rfl rfl
  | some n2 =>
    simp only
    split
    · rename_i hcond
      exfalso
      simp only [Bool.and_eq_true, Bool.not_eq_true', decide_eq_true_eq] at hcond
      exact hbranch n2 hv hcond
    · split
      · simp only [hback]
        exact hBack.congr rfl rfl rfl rfl
      · rcases patchLoop_cases sB.api name cidrs 3 ws [] hws with ⟨hsame, hfalse⟩ | ⟨htrue, hacc, hapi⟩
        · simp only [hfalse, Bool.false_eq_true, ↓reduceIte, hback, hsame]
          exact hBack.congr rfl rfl rfl rfl
        · simp only [htrue, ↓reduceIte, hapi]
          obtain ⟨cd0, hcd0⟩ : ∃ cd, cd ∈ cidrs := by
            cases hcs : cidrs with
            | nil => exact absurd hcs hne
            | cons a _ => exact ⟨a, List.mem_cons_self ..⟩
          obtain ⟨c, _, _, hc, _⟩ := (hserved cd0 hcd0).1
          simp only [hc]
          unfold Api.patchNode at hacc ⊢
          cases hg : getNode sB.api.nodes name with
          | none => rw [hg] at hacc; cases hacc
          | some y =>
            obtain ⟨hym, _⟩ := mem_of_getNode hg
            rw [hg] at hacc
            simp only at hacc ⊢
            by_cases h1 : (!y.hasCidrs) = true
            · rw [if_pos h1]
              have hy0 := (hasCidrs_false (by simpa using h1)).2
              exact tight_assign hT hle hexact hB.nodupApi y hg (Or.inl hy0) c hc sB.nodeView sB.nodeQ
            · rw [if_neg h1] at hacc ⊢
              split at hacc
              · rename_i h2
                rw [if_pos h2]
                simp only [Bool.and_eq_true, Bool.not_eq_true', decide_eq_true_eq] at h2
                have key := tight_assign hT hle hexact hB.nodupApi y hg (Or.inr h2.2) c hc sB.nodeView sB.nodeQ
                have hyy : ({ y with cidrs := cidrs } : NodeObj) = y := by
                  cases y; simp only at h2; simp [h2.2]
                rw [hyy, putNode_self_eq hB.nodupApi hym] at key
                exact key
              · cases hacc


theorem tight_allocateOrOccupy {s : Sys} (h : Inv s) (hT : Tight s) (n : NodeObj) (hn : n ∈ s.nodeView) (hnd : n.deleting = false)
    (refresh : Bool) (ws : List WOut) (hws : ∀ w ∈ ws.take 3, w ≠ WOut.lost) :
    Tight (allocateOrOccupy s n refresh ws).1 := by
  have hno : n ∈ Objs s := List.mem_append_left _ (List.mem_append_right _ hn)
  have hjunk := h.obj.nojunk n hno
  have hvn : getNode s.nodeView n.name = some n := by
    cases hgv : getNode s.nodeView n.name with
    | none => exact absurd rfl (getNode_none_iff.mp hgv n hn)
    | some m =>
      obtain ⟨hmm, hmn⟩ := mem_of_getNode hgv
      rw [eq_of_nodup_names h.nodupView hmm hn hmn]
  unfold allocateOrOccupy
  split
  · rename_i hc
    have hc0 : n.cidrs ≠ [] := by
      intro h0
      unfold NodeObj.hasCidrs at hc
      simp [hjunk, h0] at hc
    obtain ⟨i₀, hcl, hu⟩ := h.held n (List.mem_append_right _ hn) hc0 (Or.inl hnd)
    have key : Tight { s with alloc := (occupyCIDRs s.alloc n).1 } := by
      unfold occupyCIDRs
      simp only
      split
      · exact hT.congr rfl rfl rfl rfl
      · rw [if_neg (by simp [hjunk])]
        exact tight_shrink hT (occupyNode_same n.name n.cidrs i₀ hc0 _ s.alloc h.wf h.rd hcl hu)
    cases hoc : occupyCIDRs s.alloc n with
    | mk al okk =>
      rw [hoc] at key
      cases okk <;> exact key.congr rfl rfl rfl rfl
  · rename_i hc
    have hcf : n.hasCidrs = false := by simpa using hc
    have hn0 : n.cidrs = [] := (hasCidrs_false hcf).2
    cases hp : s.alloc.prioritized (s.alloc.ordered n.labels true) with
    | mk al r =>
      obtain ⟨hle, hwf, heq⟩ := prioritized_le h.wf _ hp
      cases r with
      | none => exact (tight_shrink hT (heq rfl).2).congr rfl rfl rfl rfl
      | some ci =>
        obtain ⟨cidrs, i⟩ := ci
        simp only
        obtain ⟨a'', hback, heqv, hwf''⟩ := prioritized_then_release h.wf _ hp
        split
        · rename_i hemp
          have hc : cidrs = [] := by simpa using hemp
          subst hc
          simp only [Alloc.releaseAll, Prod.mk.injEq] at hback
          exact (tight_shrink hT (hback.1 ▸ heqv.2)).congr rfl rfl rfl rfl
        · rename_i hemp
          have hne : cidrs ≠ [] := by intro h0; rw [h0] at hemp; simp at hemp
          obtain ⟨_, hserved⟩ := prioritized_served h.wf _ hp
          split
          · cases hg : getNode s.api.nodes n.name with
            | some cur =>
              simp only
              obtain ⟨hcm, hcn⟩ := mem_of_getNode hg
              have hB : Inv { s with nodeView := putNode s.nodeView cur, nodeQ := qAdd s.nodeQ n.name } :=
                (inv_view_put h n.name cur hg).congr rfl rfl rfl
              have hTB : Tight { s with nodeView := putNode s.nodeView cur, nodeQ := qAdd s.nodeQ n.name } :=
                hT.congr rfl rfl rfl rfl
              apply tight_update hB hTB hle hwf hne hserved hback heqv _ ws hws
              intro n2 hn2
              have : getNode (putNode s.nodeView cur) n.name = some cur := by rw [← hcn]; exact getNode_putNode_self _ _
              simp only at hn2
              rw [this] at hn2; cases hn2
              rintro ⟨_, hcc⟩
              -- the API object would hold exactly the fresh blocks: but as long as the cache shows the node alive they are in use
              obtain ⟨cd0, hcd0⟩ : ∃ cd, cd ∈ cidrs := by
                cases hcs : cidrs with
                | nil => exact absurd hcs hne
                | cons a _ => exact ⟨a, List.mem_cons_self ..⟩
              obtain ⟨i', _, hu'⟩ := h.held cur (List.mem_append_left _ hcm) (by rw [hcc]; exact hne)
                (Or.inr ⟨n, hn, hcn.symm, hnd⟩)
              have hb := hu' cd0 (by rw [hcc]; exact hcd0)
              have := fresh_disjoint h.wf (hserved cd0 hcd0).2.2 (hserved cd0 hcd0).2.1 hb rfl
              have hp := cd0.size_pos
              unfold Cidr.Disjoint at this
              omega
            | none =>
              simp only
              have hupd : ∀ sX : Sys, getNode sX.nodeView n.name = none → sX.alloc = al →
                  (updateCIDRsAllocation sX n.name cidrs i ws).1 = { sX with alloc := a'' } := by
                intro sX h1 h2
                unfold updateCIDRsAllocation
                simp only [h1, h2, hback]
              rw [hupd _ (getNode_delNode_self _ _) rfl]
              have hE : Inv { s with alloc := a'' } := inv_alloc_grow h a'' heqv.1 hwf''
              have hTE : Tight { s with alloc := a'' } := tight_shrink hT heqv.2
              exact (tight_gone hE hTE n.name hg n hvn).congr rfl rfl rfl rfl
          · apply tight_update h hT hle hwf hne hserved hback heqv _ ws hws
            intro n2 hn2
            rw [hvn] at hn2; cases hn2
            rintro ⟨_, hcc⟩
            exact hne (hcc ▸ hn0)


theorem tight_procNodeCore {s : Sys} (h : Inv s) (hT : Tight s) (name : String) (refresh : Bool) (ws : List WOut)
    (hws : ∀ w ∈ ws.take 3, w ≠ WOut.lost) : Tight (procNodeCore s name refresh ws).1 := by
  unfold procNodeCore
  cases hv : getNode s.nodeView name with
  | none => exact hT
  | some n =>
    obtain ⟨hnm, _⟩ := mem_of_getNode hv
    have hno : n ∈ Objs s := List.mem_append_left _ (List.mem_append_right _ hnm)
    simp only
    split
    · have key : Tight { s with alloc := (releaseCIDR s.alloc n).1 } := by
        by_cases hc : n.cidrs = []
        · have : (releaseCIDR s.alloc n).1 = s.alloc := by
            unfold releaseCIDR NodeObj.hasCidrs
            simp [h.obj.nojunk n hno, hc]
          rw [this]; exact hT.congr rfl rfl rfl rfl
        · exact (tight_releaseCIDR h hT n hno (fun _ _ => hc) s.nodeView).congr rfl rfl rfl rfl
      cases hr : releaseCIDR s.alloc n with
      | mk al okk =>
        rw [hr] at key
        cases okk <;> exact key.congr rfl rfl rfl rfl
    · rename_i hd
      exact tight_allocateOrOccupy h hT n hnm (by simpa using hd) refresh ws hws

theorem tight_procNode {s : Sys} (h : Inv s) (hT : Tight s) (name : String) (refresh : Bool) (ws : List WOut)
    (hws : ∀ w ∈ ws.take 3, w ≠ WOut.lost) : Tight (procNode s name refresh ws).1 := by
  unfold procNode
  have h0 : Inv { s with nodeQ := qDel s.nodeQ name } := h.congr rfl rfl rfl
  have hT0 : Tight { s with nodeQ := qDel s.nodeQ name } := hT.congr rfl rfl rfl rfl
  have key := tight_procNodeCore h0 hT0 name refresh ws hws
  simp only
  split
  · exact key.congr rfl rfl rfl rfl
  · exact key

/-! ### ClusterCIDR items -/

theorem tight_remap {s : Sys} (hT : Tight s) {a' : Alloc} {φ : Nat → Option Nat} (hr : Remap s.alloc a' φ)
    (hback : ∀ j' cd, UsedAt a' j' cd → ∃ j, φ j = some j' ∧ UsedAt s.alloc j cd) : Tight { s with alloc := a' } := by
  intro j' cd hu
  obtain ⟨j, hφ, hu0⟩ := hback j' cd hu
  rcases hT j cd hu0 with ⟨x, hcx, hv⟩ | hsvc
  · obtain ⟨j'', hφ', hcx'⟩ := hr.claims_fwd hcx
    rw [hφ] at hφ'; cases hφ'
    exact Or.inl ⟨x, hcx', hv⟩
  · exact Or.inr hsvc

theorem buildPool_unused {fld : RangeField} {want : Fam} {hb : Int} {p : Pool} (h : buildPool fld want hb = some (some p)) :
    p.used = [] := by
  unfold buildPool at h
  split at h
  · cases h
  · cases h
  · split at h
    · cases h
    · split at h
      · cases h
      · simp only [Option.some.injEq] at h
        rw [← h]; rfl

theorem buildCC_unused {key : String} {reqs : List Req} {name : String} {spec : CCSpec} {t : Bool} {c : CC}
    (h : buildCC key reqs name spec t = some c) : ∀ f p, c.pool f = some p → p.used = [] := by
  unfold buildCC at h
  cases h4 : buildPool spec.ipv4 .v4 spec.hostBits with
  | none => rw [h4] at h; cases h
  | some p4 =>
    rw [h4] at h
    simp only at h
    cases h6 : buildPool spec.ipv6 .v6 spec.hostBits with
    | none => rw [h6] at h; cases h
    | some p6 =>
      rw [h6] at h
      simp only at h
      split at h
      · cases h
      · cases h
        intro f p hp
        cases f with
        | v4 =>
          simp only [CC.pool] at hp
          subst hp
          exact buildPool_unused h4
        | v6 =>
          simp only [CC.pool] at hp
          subst hp
          exact buildPool_unused h6

theorem tight_createCC {s : Sys} (hT : Tight s) {name : String} {spec : CCSpec} {t : Bool}
    {al : Alloc} (hc : s.alloc.createCC name spec t = some al) : Tight { s with alloc := al } := by
  unfold Alloc.createCC at hc
  cases hsel : selectorOf spec.sel with
  | none => rw [hsel] at hc; cases hc
  | some reqs =>
    rw [hsel] at hc
    simp only at hc
    split at hc
    · cases hc; exact hT.congr rfl rfl rfl rfl
    · cases hb : buildCC (printSel reqs) reqs name spec t with
      | none => rw [hb] at hc; cases hc
      | some c =>
        rw [hb] at hc
        cases hc
        apply tight_remap hT (remap_append s.alloc c (buildCC_assoc hb))
        intro j' cd hu
        obtain ⟨d, p, k, hd, hp, hk, hbk⟩ := hu
        unfold Alloc.get? at hd
        simp only at hd
        by_cases hlt : j' < s.alloc.ccs.length
        · rw [List.getElem?_append_left hlt] at hd
          exact ⟨j', rfl, d, p, k, hd, hp, hk, hbk⟩
        · exfalso
          rw [List.getElem?_append_right (by omega)] at hd
          have : j' - s.alloc.ccs.length = 0 := by
            have := (List.getElem?_eq_some_iff.mp hd).1
            simp at this; omega
          rw [this] at hd
          simp at hd
          subst hd
          rw [buildCC_unused hb _ p hp] at hk
          cases hk

theorem tight_deleteCC {s : Sys} (hT : Tight s) (name : String) (spec : CCSpec) :
    Tight { s with alloc := (s.alloc.deleteCC name spec).1 } := by
  unfold Alloc.deleteCC
  cases hsel : selectorOf spec.sel with
  | none => exact hT.congr rfl rfl rfl rfl
  | some reqs =>
    simp only
    cases hd : delFirst (printSel reqs) name s.alloc.ccs with
    | mk l' r =>
      simp only
      rcases delFirst_cases _ _ _ _ _ hd with h1 | ⟨i, c, hi, h2⟩ | ⟨i, c, hi, ha, h3⟩
      · subst h1; exact hT.congr rfl rfl rfl rfl
      · have hg : s.alloc.get? i = some c := hi
        have heq : (⟨l'⟩ : Alloc) = s.alloc.set i { c with term := true } := by rw [h2]; rfl
        rw [heq]
        apply tight_remap hT (remap_set_term s.alloc i c hg)
        intro j' cd hu
        refine ⟨j', rfl, ?_⟩
        obtain ⟨d, p, k, hd', hp, hk, hb⟩ := hu
        by_cases hij : i = j'
        · subst hij
          rw [Alloc.get?_set_self _ _ _ _ hg] at hd'; cases hd'
          exact ⟨c, p, k, hg, by (have : ({ c with term := true } : CC).pool cd.fam = c.pool cd.fam := by cases cd.fam <;> rfl); rw [← this]; exact hp, hk, hb⟩
        · rw [Alloc.get?_set_ne _ _ _ _ hij] at hd'
          exact ⟨d, p, k, hd', hp, hk, hb⟩
      · have hg : s.alloc.get? i = some c := hi
        subst h3
        apply tight_remap hT (remap_erase s.alloc i c hg ha)
        intro j' cd hu
        obtain ⟨d, p, k, hd', hp, hk, hb⟩ := hu
        unfold Alloc.get? at hd'
        simp only at hd'
        rw [List.getElem?_eraseIdx] at hd'
        by_cases h1 : j' < i
        · simp only [h1, ↓reduceIte] at hd'
          exact ⟨j', by simp [dropMap, h1], d, p, k, hd', hp, hk, hb⟩
        · simp only [h1, ↓reduceIte] at hd'
          refine ⟨j' + 1, ?_, d, p, k, hd', hp, hk, hb⟩
          have h3 : ¬ (j' + 1 < i) := by omega
          have h4 : ¬ (j' + 1 = i) := by omega
          simp [dropMap, h3, h4]


theorem tight_createClusterCIDR {s : Sys} (hT : Tight s) (o : CCObj) (t : Bool) (w : WOut) : Tight (createClusterCIDR s o t w).1 := by
  unfold createClusterCIDR
  cases hc : s.alloc.createCC o.name o.spec t with
  | none => exact hT
  | some al =>
    simp only
    exact (tight_createCC hT hc).congr (C09.attemptUpdate_nodes _ _ _ _ _) (attemptUpdate_graves _ _ _ _ _) rfl rfl

theorem tight_reconcileDelete {s : Sys} (hT : Tight s) (o : CCObj) (w : WOut) : Tight (reconcileDelete s o w).1 := by
  unfold reconcileDelete
  split
  · have key := tight_deleteCC hT o.name o.spec
    cases hd : s.alloc.deleteCC o.name o.spec with
    | mk al r =>
      rw [hd] at key
      cases r <;> simp only
      · exact key.congr (C09.attemptUpdate_nodes _ _ _ _ _) (attemptUpdate_graves _ _ _ _ _) rfl rfl
      · exact key.congr (C09.attemptUpdate_nodes _ _ _ _ _) (attemptUpdate_graves _ _ _ _ _) rfl rfl
      · exact key.congr rfl rfl rfl rfl
      · exact key.congr rfl rfl rfl rfl
  · exact hT

theorem tight_procCC {s : Sys} (hT : Tight s) (name : String) (w : WOut) : Tight (procCC s name w).1 := by
  unfold procCC
  have hT0 : Tight { s with ccQ := qDel s.ccQ name } := hT.congr rfl rfl rfl rfl
  have key : Tight (procCCCore { s with ccQ := qDel s.ccQ name } name w).1 := by
    unfold procCCCore
    cases hg : getCC s.ccView name with
    | none => exact hT0
    | some obj =>
      simp only
      split
      · exact tight_reconcileDelete hT0 obj w
      · split
        · exact tight_createClusterCIDR hT0 obj false w
        · exact hT0
  simp only
  split
  · exact key.congr rfl rfl rfl rfl
  · exact key

theorem tight_step {s : Sys} (h : Inv s) (hT : Tight s) (e : Ev) (hf : Frag s e) : Tight (step s e).1 := by
  cases e with
  | nodeAdd n =>
    obtain ⟨_, _, hv⟩ := hf
    cases ha : getNode s.api.nodes n.name with
    | none => exact tight_nodeAdd h hT n hv ha
    | some y =>
      have : (step s (.nodeAdd n)).1 = s := by simp [step, ha]
      rw [this]; exact hT
  | nodeDel name => exact tight_nodeDel h hT name
  | nodeDeleting name => exact tight_nodeDeleting h hT name
  | deliverNode name tomb => exact tight_deliver h hT name tomb hf
  | procNode name refresh ws =>
    show Tight (if s.nodeQ.contains name then procNode s name refresh ws else (s, {})).1
    split
    · exact tight_procNode h hT name refresh ws hf
    · exact hT
  | procCC name w =>
    show Tight (if s.ccQ.contains name then procCC s name w else (s, {})).1
    split
    · exact tight_procCC hT name w
    · exact hT
  | boot _ _ => exact hf.elim
  | nodeLabels _ _ => exact hf.elim
  | nodeSetCIDRs _ _ => exact hf.elim
  | ccAdd name spec =>
    cases hg : getCC s.api.ccs name with
    | some o =>
      have : (step s (.ccAdd name spec)).1 = s := by simp [step, hg]
      rw [this]; exact hT
    | none =>
      have : (step s (.ccAdd name spec)).1 = { s with api := { s.api with ccs := s.api.ccs ++ [⟨name, spec, [], false, 1, freshRv s⟩] } } := by
        simp [step, hg]
      rw [this]; exact hT.congr rfl rfl rfl rfl
  | ccDel name =>
    cases hg : getCC s.api.ccs name with
    | none =>
      have : (step s (.ccDel name)).1 = s := by simp [step, hg]
      rw [this]; exact hT
    | some o =>
      by_cases hfin : o.finalizers.isEmpty = true
      · have : (step s (.ccDel name)).1 = { s with api := { s.api with ccs := delCC s.api.ccs name } } := by
          simp [step, hg, hfin]
        rw [this]; exact hT.congr rfl rfl rfl rfl
      · have : (step s (.ccDel name)).1 = { s with api := { s.api with ccs := putCC s.api.ccs { o with deleting := true, rv := o.rv + 1 } } } := by
          simp [step, hg, hfin]
        rw [this]; exact hT.congr rfl rfl rfl rfl
  | ccGen name g =>
    cases hg : getCC s.api.ccs name with
    | none =>
      have : (step s (.ccGen name g)).1 = s := by simp [step, hg]
      rw [this]; exact hT
    | some o =>
      have : (step s (.ccGen name g)).1 = { s with api := { s.api with ccs := putCC s.api.ccs { o with generation := g, rv := o.rv + 1 } } } := by
        simp [step, hg]
      rw [this]; exact hT.congr rfl rfl rfl rfl
  | ccAddFin name fin =>
    cases hg : getCC s.api.ccs name with
    | none =>
      have : (step s (.ccAddFin name fin)).1 = s := by simp [step, hg]
      rw [this]; exact hT
    | some o =>
      by_cases hfin : fin ∈ o.finalizers
      · have : (step s (.ccAddFin name fin)).1 = s := by simp [step, hg, hfin]
        rw [this]; exact hT
      · have : (step s (.ccAddFin name fin)).1 = { s with api := { s.api with ccs := putCC s.api.ccs { o with finalizers := o.finalizers ++ [fin], rv := o.rv + 1 } } } := by
          simp [step, hg, hfin]
        rw [this]; exact hT.congr rfl rfl rfl rfl
  | deliverCC name =>
    cases hg : getCC s.api.ccs name with
    | some cur =>
      have : (step s (.deliverCC name)).1 = { s with ccView := putCC s.ccView cur, ccQ := qAdd s.ccQ name } := by
        simp [step, hg]
      rw [this]; exact hT.congr rfl rfl rfl rfl
    | none =>
      by_cases hv : (getCC s.ccView name).isSome = true
      · have : (step s (.deliverCC name)).1 = { s with ccView := delCC s.ccView name, ccQ := qAdd s.ccQ name } := by
          simp [step, hg, hv]
        rw [this]; exact hT.congr rfl rfl rfl rfl
      · have : (step s (.deliverCC name)).1 = s := by simp [step, hg, hv]
        rw [this]; exact hT

theorem tight_run : ∀ (evs : List Ev) (s : Sys), Inv s → Tight s → FragAll s evs → Tight (run s evs) := by
  intro evs
  induction evs with
  | nil => intro s _ hT _; exact hT
  | cons e rest ih =>
    intro s h hT hf
    have : run s (e :: rest) = run (step s e).1 rest := by simp [run]
    rw [this]
    exact ih _ (inv_step h e hf.1) (tight_step h hT e hf.1) hf.2

/-- a start state in which nothing is associated is tight when every used block covers a service range (what
`filterOutServiceRange` leaves behind), in particular when nothing is in use -/
theorem tight_init (s : Sys) (h : ∀ j cd, UsedAt s.alloc j cd → ∃ svc ∈ s.svcs, ¬ cd.Disjoint svc) : Tight s :=
  fun j cd hu => Or.inr (h j cd hu)

example : Tight exStart := by
  apply tight_init
  rintro j cd ⟨c, p, k, hg, hp, hk, _⟩
  exfalso
  have : j = 0 ∨ j = 1 := by
    unfold Alloc.get? exStart at hg
    have := (List.getElem?_eq_some_iff.mp hg).1
    simp at this; omega
  unfold Alloc.get? exStart at hg
  rcases this with rfl | rfl
  · simp at hg; subst hg
    cases hf : cd.fam <;> rw [hf] at hp <;> simp [CC.pool, exA] at hp
    subst hp; simp [Pool.new] at hk
  · simp at hg; subst hg
    cases hf : cd.fam <;> rw [hf] at hp <;> simp [CC.pool, exB] at hp <;> (subst hp; simp [Pool.new] at hk)

end Ipam.Safety
