import IpamVerif.Addr
/-! Helper lemmas for L0 (property statements live in `Props/C13.lean`). -/
namespace Ipam

theorem two_pow_pos (k : Nat) : 0 < 2 ^ k := Nat.two_pow_pos k

/-- `b ||| x = b + x` when `x` fits below the trailing zeros of `b` -/
theorem or_eq_add {b x k : Nat} (hb : b % 2 ^ k = 0) (hx : x < 2 ^ k) : b ||| x = b + x := by
  have h1 : b = (b / 2 ^ k) <<< k := by
    rw [Nat.shiftLeft_eq]
    have := Nat.div_add_mod b (2 ^ k)
    rw [hb, Nat.add_zero, Nat.mul_comm] at this
    exact this.symm
  rw [h1, ← Nat.shiftLeft_add_eq_or_of_lt hx]

/-- `b ^^^ (b + x) = x` under the same condition -/
theorem xor_add_eq {b x k : Nat} (hb : b % 2 ^ k = 0) (hx : x < 2 ^ k) : b ^^^ (b + x) = x := by
  have h1 : b = (b / 2 ^ k) <<< k := by
    rw [Nat.shiftLeft_eq]
    have := Nat.div_add_mod b (2 ^ k)
    rw [hb, Nat.add_zero, Nat.mul_comm] at this
    exact this.symm
  generalize b / 2 ^ k = q at h1
  subst h1
  rw [Nat.shiftLeft_add_eq_or_of_lt hx]
  apply Nat.eq_of_testBit_eq
  intro j
  rw [Nat.testBit_xor, Nat.testBit_or, Nat.testBit_shiftLeft]
  by_cases hj : j ≥ k
  · have : x.testBit j = false := Nat.testBit_lt_two_pow (Nat.lt_of_lt_of_le hx (Nat.pow_le_pow_right (by decide) hj))
    simp [hj, this]
  · simp [hj]

theorem shl_lt {i s k : Nat} (hi : i < 2 ^ k) : i * 2 ^ s < 2 ^ (k + s) := by
  rw [Nat.pow_add]; exact Nat.mul_lt_mul_of_pos_right hi (two_pow_pos s)

/-- a number with a set bit at or above `k` is at least `2^k` -/
theorem xor_high_ne {a b k : Nat} (h : a / 2 ^ k ≠ b / 2 ^ k) : (a ^^^ b) / 2 ^ k ≠ 0 := by
  rw [← Nat.shiftRight_eq_div_pow, Nat.shiftRight_xor_distrib, Nat.shiftRight_eq_div_pow, Nat.shiftRight_eq_div_pow]
  intro h0
  apply h
  apply Nat.eq_of_testBit_eq
  intro j
  have := congrArg (fun z => z.testBit j) h0
  simp [Nat.testBit_xor] at this
  exact this

theorem maskTo_eq (W len x : Nat) : maskTo W len x = x - x % 2 ^ (W - len) := by
  unfold maskTo
  rw [Nat.shiftRight_eq_div_pow, Nat.shiftLeft_eq]
  have := Nat.div_add_mod x (2 ^ (W - len))
  rw [Nat.mul_comm] at this
  omega

theorem maskTo_div (W len x : Nat) : maskTo W len x / 2 ^ (W - len) = x / 2 ^ (W - len) := by
  unfold maskTo
  rw [Nat.shiftRight_eq_div_pow, Nat.shiftLeft_eq]
  exact Nat.mul_div_cancel _ (two_pow_pos _)

theorem maskTo_mod (W len x : Nat) : maskTo W len x % 2 ^ (W - len) = 0 := by
  unfold maskTo
  rw [Nat.shiftLeft_eq]
  exact Nat.mul_mod_left _ _

theorem maskTo_le (W len x : Nat) : maskTo W len x ≤ x := by
  rw [maskTo_eq]; omega



theorem goBlockV4_eq {g : Geo} (hf : g.fam = .v4) (hg : g.Valid) {i : Nat} (hi : i < g.max) :
    goBlockV4 g i = g.base + i * 2 ^ (32 - g.n) := by
  obtain ⟨hcn, hnW, hb, hal, _⟩ := hg
  have hW : g.W = 32 := by simp [Geo.W, hf, Fam.W]
  rw [hW] at hnW hb hal
  unfold Geo.max at hi
  have hi32 : i < 2 ^ 32 := Nat.lt_of_lt_of_le hi (Nat.pow_le_pow_right (by decide) (by omega))
  have hx : i * 2 ^ (32 - g.n) < 2 ^ (32 - g.c) := by
    have := shl_lt (s := 32 - g.n) hi
    have e : g.n - g.c + (32 - g.n) = 32 - g.c := by omega
    rwa [e] at this
  have hx32 : i * 2 ^ (32 - g.n) < 2 ^ 32 :=
    Nat.lt_of_lt_of_le hx (Nat.pow_le_pow_right (by decide) (by omega))
  unfold goBlockV4 shl32
  rw [Nat.mod_eq_of_lt hi32]
  by_cases hs : 32 - g.n < 32
  · rw [if_pos hs, Nat.shiftLeft_eq, Nat.mod_eq_of_lt hx32]
    exact or_eq_add hal hx
  · rw [if_neg hs]
    have hn0 : g.n = 0 := by omega
    have hc0 : g.c = 0 := by omega
    rw [hn0, hc0] at hi
    have : i = 0 := by simpa using hi
    subst this
    simp



theorem bitLen_lt (i : Nat) : i < 2 ^ bitLen i := by
  unfold bitLen
  split
  · simp_all
  · exact Nat.lt_log2_self

/-- splitting a 128-bit aligned base into halves -/
theorem base_split_hi {b k : Nat} (hk : k ≤ 64) (hal : b % 2 ^ (128 - k) = 0) :
    b % 2 ^ 64 = 0 ∧ (b / 2 ^ 64) % 2 ^ (64 - k) = 0 := by
  have e : (2:Nat) ^ (128 - k) = 2 ^ 64 * 2 ^ (64 - k) := by rw [← Nat.pow_add]; congr 1; omega
  have hd : 2 ^ (128 - k) ∣ b := Nat.dvd_of_mod_eq_zero hal
  rw [e] at hd
  obtain ⟨q, hq⟩ := hd
  subst hq
  constructor
  · rw [Nat.mul_assoc]; exact Nat.mul_mod_right _ _
  · rw [Nat.mul_assoc, Nat.mul_div_cancel_left _ (two_pow_pos 64)]; exact Nat.mul_mod_right _ _

theorem shr64_eq {i : Nat} (hi : i < 2 ^ 64) (s : Nat) : shr64 i s = i / 2 ^ s := by
  unfold shr64
  split
  · exact Nat.shiftRight_eq_div_pow _ _
  · rename_i h
    rw [Nat.div_eq_of_lt (Nat.lt_of_lt_of_le hi (Nat.pow_le_pow_right (by decide) (by omega)))]

theorem base_split_lo {b k : Nat} (hk : 64 ≤ k) (hal : b % 2 ^ (128 - k) = 0) :
    (b % 2 ^ 64) % 2 ^ (128 - k) = 0 := by
  have hd : 2 ^ (128 - k) ∣ 2 ^ 64 := Nat.pow_dvd_pow 2 (by omega)
  rw [Nat.mod_mod_of_dvd _ hd]; exact hal

theorem goBlockV6_eq {g : Geo} (hf : g.fam = .v6) (hg : g.Valid) {i : Nat} (hi : i < g.max) :
    (goBlockV6 g i).1 * 2 ^ 64 + (goBlockV6 g i).2 = g.base + i * 2 ^ (128 - g.n) := by
  obtain ⟨hcn, hnW, hb, hal, h16⟩ := hg
  have h16 := h16 hf
  have hW : g.W = 128 := by simp [Geo.W, hf, Fam.W]
  rw [hW] at hnW hb hal
  unfold Geo.max at hi
  have hbase : g.base = g.base / 2 ^ 64 * 2 ^ 64 + g.base % 2 ^ 64 := by
    have := Nat.div_add_mod g.base (2 ^ 64); rw [Nat.mul_comm] at this; exact this.symm
  unfold goBlockV6
  by_cases h1 : g.n ≤ 64
  · -- only the left half
    simp only [if_pos h1]
    obtain ⟨hlo, hhi⟩ := base_split_hi (k := g.c) (by omega) hal
    have hx : i * 2 ^ (64 - g.n) < 2 ^ (64 - g.c) := by
      have := shl_lt (s := 64 - g.n) hi
      have e : g.n - g.c + (64 - g.n) = 64 - g.c := by omega
      rwa [e] at this
    have hx64 : i * 2 ^ (64 - g.n) < 2 ^ 64 :=
      Nat.lt_of_lt_of_le hx (Nat.pow_le_pow_right (by decide) (by omega))
    have hsh : shl64 i (64 - g.n) = i * 2 ^ (64 - g.n) := by
      unfold shl64
      by_cases hs : 64 - g.n < 64
      · rw [if_pos hs, Nat.shiftLeft_eq, Nat.mod_eq_of_lt hx64]
      · rw [if_neg hs]
        have hn0 : g.n = 0 := by omega
        have hc0 : g.c = 0 := by omega
        rw [hn0, hc0] at hi
        have : i = 0 := by simpa using hi
        subst this; simp
    rw [hsh, or_eq_add hhi hx]
    have e2 : (2:Nat) ^ (128 - g.n) = 2 ^ (64 - g.n) * 2 ^ 64 := by rw [← Nat.pow_add]; congr 1; omega
    rw [e2, ← Nat.mul_assoc, Nat.add_mul]
    omega
  · simp only [if_neg h1]
    have hs64 : 128 - g.n < 64 := by omega
    by_cases h2 : g.c < 64
    · -- straddling: index bits in both halves
      simp only [if_pos h2]
      obtain ⟨hlo, hhi⟩ := base_split_hi (k := g.c) (by omega) hal
      have hshr : (if bitLen i > g.n - 64 then g.base / 2 ^ 64 ||| shr64 i (g.n - 64) else g.base / 2 ^ 64)
          = g.base / 2 ^ 64 + i / 2 ^ (g.n - 64) := by
        split
        · have hq : i / 2 ^ (g.n - 64) < 2 ^ (64 - g.c) := by
            apply Nat.div_lt_of_lt_mul
            rw [← Nat.pow_add]
            have e : g.n - 64 + (64 - g.c) = g.n - g.c := by omega
            rwa [e]
          have hi64 : i < 2 ^ 64 := Nat.lt_of_lt_of_le hi (Nat.pow_le_pow_right (by decide) (by omega))
          rw [shr64_eq hi64]
          exact or_eq_add hhi hq
        · rename_i hbl
          have : i < 2 ^ (g.n - 64) :=
            Nat.lt_of_lt_of_le (bitLen_lt i) (Nat.pow_le_pow_right (by decide) (by omega))
          rw [Nat.div_eq_of_lt this]; rfl
      rw [hshr, hlo]
      have hlo2 : shl64 i (128 - g.n) = i % 2 ^ (g.n - 64) * 2 ^ (128 - g.n) := by
        unfold shl64
        rw [if_pos hs64, Nat.shiftLeft_eq]
        have e : (2:Nat) ^ 64 = 2 ^ (g.n - 64) * 2 ^ (128 - g.n) := by rw [← Nat.pow_add]; congr 1; omega
        rw [e, Nat.mul_mod_mul_right]
      rw [hlo2, Nat.zero_or]
      have e : (2:Nat) ^ 64 = 2 ^ (g.n - 64) * 2 ^ (128 - g.n) := by rw [← Nat.pow_add]; congr 1; omega
      have hdm := Nat.div_add_mod i (2 ^ (g.n - 64))
      have hb2 : g.base = g.base / 2 ^ 64 * 2 ^ 64 := by rw [hlo, Nat.add_zero] at hbase; exact hbase
      generalize hA : g.base / 2 ^ 64 = A at *
      generalize hq : i / 2 ^ (g.n - 64) = q at *
      generalize hr : i % 2 ^ (g.n - 64) = r at *
      rw [hb2, ← hdm, Nat.add_mul, Nat.add_mul, e, ← Nat.mul_assoc, Nat.mul_comm (2 ^ (g.n - 64)) q, Nat.add_assoc]
      simp only [Nat.mul_assoc]
    · -- only the right half
      simp only [if_neg h2]
      have hlo := base_split_lo (k := g.c) (by omega) hal
      have hx : i * 2 ^ (128 - g.n) < 2 ^ (128 - g.c) := by
        have := shl_lt (s := 128 - g.n) hi
        have e : g.n - g.c + (128 - g.n) = 128 - g.c := by omega
        rwa [e] at this
      have hx64 : i * 2 ^ (128 - g.n) < 2 ^ 64 :=
        Nat.lt_of_lt_of_le hx (Nat.pow_le_pow_right (by decide) (by omega))
      have hsh : shl64 i (128 - g.n) = i * 2 ^ (128 - g.n) := by
        unfold shl64
        rw [if_pos hs64, Nat.shiftLeft_eq, Nat.mod_eq_of_lt hx64]
      rw [hsh, or_eq_add hlo hx]
      omega




theorem Geo.blockSize_eq (g : Geo) : g.blockSize = 2 ^ (g.W - g.n) := rfl

/-- **block formula**: the Go code's block `i` is `base + i * blockSize` -/
theorem goBlockAddr_eq {g : Geo} (hg : g.Valid) {i : Nat} (hi : i < g.max) :
    goBlockAddr g i = g.base + i * g.blockSize := by
  unfold goBlockAddr Geo.blockSize
  cases hf : g.fam with
  | v4 => simp only [Geo.W, hf, Fam.W]; exact goBlockV4_eq hf hg hi
  | v6 => simp only [Geo.W, hf, Fam.W]; exact goBlockV6_eq hf hg hi

theorem goBlock_eq {g : Geo} (hg : g.Valid) {i : Nat} (hi : i < g.max) : goBlock g i = g.block i := by
  unfold goBlock Geo.block; rw [goBlockAddr_eq hg hi]

/-- blocks times capacity = range -/
theorem Geo.max_mul_blockSize {g : Geo} (hg : g.Valid) : g.max * g.blockSize = 2 ^ (g.W - g.c) := by
  obtain ⟨hcn, hnW, _, _, _⟩ := hg
  unfold Geo.max Geo.blockSize
  rw [← Nat.pow_add]; congr 1; omega

theorem Geo.blockSize_pos (g : Geo) : 0 < g.blockSize := two_pow_pos _
theorem Geo.max_pos (g : Geo) : 0 < g.max := two_pow_pos _

/-- offset of block `i` stays inside the range -/
theorem Geo.block_off_lt {g : Geo} (hg : g.Valid) {i : Nat} (hi : i < g.max) :
    i * g.blockSize + g.blockSize ≤ 2 ^ (g.W - g.c) := by
  rw [← Geo.max_mul_blockSize hg]
  have : (i + 1) * g.blockSize ≤ g.max * g.blockSize := Nat.mul_le_mul_right _ hi
  rw [Nat.add_mul, Nat.one_mul] at this
  exact this

/-- **index of an address**: any address of block `i` maps back to `i` -/
theorem goIndexOf_block {g : Geo} (hg : g.Valid) (hmax : g.max < 2 ^ 32 ∨ g.fam = .v6) {i a : Nat} (hi : i < g.max)
    (ha : (g.block i).Mem a) : goIndexOf g a = some i := by
  have hoff := Geo.block_off_lt hg hi
  obtain ⟨hcn, hnW, hb, hal, h16⟩ := hg
  obtain ⟨hlo, hhi⟩ := ha
  simp only [Geo.block, Cidr.size, Cidr.hostBits, Cidr.W] at hlo hhi
  change g.base + i * g.blockSize ≤ a at hlo
  change a < g.base + i * g.blockSize + g.blockSize at hhi
  -- a = base + d with d below the trailing zeros of base
  obtain ⟨d, rfl⟩ : ∃ d, a = g.base + d := ⟨a - g.base, by omega⟩
  have hd : d < 2 ^ (g.W - g.c) := by omega
  have hx : g.base ^^^ (g.base + d) = d := xor_add_eq hal hd
  have hdi : d / g.blockSize = i := by
    have h1 : i * g.blockSize ≤ d := by omega
    have h2 : d < (i + 1) * g.blockSize := by rw [Nat.add_mul, Nat.one_mul]; omega
    exact Nat.div_eq_of_lt_le ((Nat.mul_comm _ _) ▸ h1) ((Nat.mul_comm _ _) ▸ h2)
  unfold goIndexOf
  cases hf : g.fam with
  | v4 =>
    have hW : g.W = 32 := by simp [Geo.W, hf, Fam.W]
    have hm : g.max % 2 ^ 32 = g.max := by
      rcases hmax with h | h
      · exact Nat.mod_eq_of_lt h
      · rw [hf] at h; cases h
    simp only [hx, Nat.shiftRight_eq_div_pow, hm]
    have : d / 2 ^ (32 - g.n) = i := by rw [← hW]; exact hdi
    rw [this, if_neg (by omega)]
  | v6 =>
    have hW : g.W = 128 := by simp [Geo.W, hf, Fam.W]
    simp only [hx, Nat.shiftRight_eq_div_pow]
    have : d / 2 ^ (128 - g.n) = i := by rw [← hW]; exact hdi
    rw [this]
    have h16' := h16 hf
    have hm16 : g.max ≤ 2 ^ 16 := Nat.pow_le_pow_right (by decide) h16'
    have hi64 : i < 2 ^ 64 := Nat.lt_of_lt_of_le hi (Nat.le_trans hm16 (by decide))
    rw [Nat.mod_eq_of_lt hi64, if_neg (by intro h; rcases h with h | h <;> omega)]




/-- an address of the same width outside the range is rejected -/
theorem goIndexOf_outside {g : Geo} (hg : g.Valid) {a : Nat}
    (hout : ¬ g.range.Mem a) : goIndexOf g a = none := by
  obtain ⟨hcn, hnW, hb, hal, h16⟩ := hg
  -- high parts differ
  have hne : g.base / 2 ^ (g.W - g.c) ≠ a / 2 ^ (g.W - g.c) := by
    intro heq
    apply hout
    simp only [Cidr.Mem, Geo.range, Cidr.size, Cidr.hostBits, Cidr.W]
    change g.base ≤ a ∧ a < g.base + 2 ^ (g.W - g.c)
    have h1 := Nat.div_add_mod g.base (2 ^ (g.W - g.c))
    have h2 := Nat.div_add_mod a (2 ^ (g.W - g.c))
    have h3 := Nat.mod_lt a (two_pow_pos (g.W - g.c))
    rw [hal] at h1
    rw [← heq] at h2
    omega
  have hx := xor_high_ne hne
  have hge : 2 ^ (g.W - g.c) ≤ g.base ^^^ a := by
    have : 0 < (g.base ^^^ a) / 2 ^ (g.W - g.c) := Nat.pos_of_ne_zero hx
    exact (Nat.le_div_iff_mul_le (two_pow_pos _)).mp this |> fun h => by simpa using h
  -- after shifting by the block bits at least `max` remains
  have hidx : g.max ≤ (g.base ^^^ a) / 2 ^ (g.W - g.n) := by
    rw [Nat.le_div_iff_mul_le (two_pow_pos _)]
    have : g.max * 2 ^ (g.W - g.n) = 2 ^ (g.W - g.c) := by
      unfold Geo.max; rw [← Nat.pow_add]; congr 1; omega
    rw [this]; exact hge
  unfold goIndexOf
  cases hf : g.fam with
  | v4 =>
    have hW : g.W = 32 := by simp [Geo.W, hf, Fam.W]
    rw [hW] at hidx
    simp only [Nat.shiftRight_eq_div_pow]
    have : g.max % 2 ^ 32 ≤ g.max := Nat.mod_le _ _
    rw [if_pos (by omega)]
  | v6 =>
    have hW : g.W = 128 := by simp [Geo.W, hf, Fam.W]
    rw [hW] at hidx
    simp only [Nat.shiftRight_eq_div_pow]
    rw [if_pos]
    by_cases h : (g.base ^^^ a) / 2 ^ (128 - g.n) ≥ 2 ^ 64
    · exact Or.inl h
    · right; rw [Nat.mod_eq_of_lt (by omega)]; exact hidx




/-- membership in an aligned power-of-two interval is equality of the high parts -/
theorem mem_iff_div {addr h x : Nat} (hal : addr % 2 ^ h = 0) :
    (addr ≤ x ∧ x < addr + 2 ^ h) ↔ x / 2 ^ h = addr / 2 ^ h := by
  have h1 := Nat.div_add_mod addr (2 ^ h)
  rw [hal, Nat.add_zero] at h1
  constructor
  · rintro ⟨hl, hu⟩
    apply Nat.div_eq_of_lt_le
    · rw [Nat.mul_comm, h1]; exact hl
    · rw [Nat.add_mul, Nat.one_mul, Nat.mul_comm, h1]; exact hu
  · intro he
    have h2 := Nat.div_add_mod x (2 ^ h)
    have h3 := Nat.mod_lt x (two_pow_pos h)
    rw [he] at h2
    omega

theorem Cidr.mem_iff_div {c : Cidr} (hc : c.WF) (x : Nat) :
    c.Mem x ↔ x / 2 ^ c.hostBits = c.addr / 2 ^ c.hostBits := by
  unfold Cidr.Mem Cidr.size; exact Ipam.mem_iff_div hc.2.2

theorem goContains_iff {c : Cidr} (hc : c.WF) (x : Nat) :
    goContains c.W c x = true ↔ c.Mem x := by
  unfold goContains
  rw [Cidr.mem_iff_div hc, Nat.shiftRight_eq_div_pow, Nat.shiftRight_eq_div_pow]
  simp [Cidr.hostBits]

theorem Cidr.mem_maskTo_iff {c : Cidr} (hc : c.WF) (x : Nat) :
    c.Mem (maskTo c.W c.len x) ↔ c.Mem x := by
  rw [Cidr.mem_iff_div hc, Cidr.mem_iff_div hc]
  unfold Cidr.hostBits
  rw [maskTo_div]

/-- for CIDRs of one family: the finer one is inside the coarser one as soon as its
base is -/
theorem Cidr.sub_of_mem {a b : Cidr} (ha : a.WF) (hb : b.WF) (hf : a.fam = b.fam)
    (hlen : b.len ≤ a.len) (hm : b.Mem a.addr) : a.Sub b := by
  have hW : a.W = b.W := by simp [Cidr.W, hf]
  have hle : a.hostBits ≤ b.hostBits := by unfold Cidr.hostBits; omega
  obtain ⟨hl, hu⟩ := hm
  refine ⟨hl, ?_⟩
  -- a.addr % 2^hb ≤ 2^hb - 2^ha
  have e : (2:Nat) ^ b.hostBits = 2 ^ a.hostBits * 2 ^ (b.hostBits - a.hostBits) := by
    rw [← Nat.pow_add]; congr 1; omega
  have h1 := Nat.div_add_mod a.addr (2 ^ a.hostBits)
  rw [ha.2.2, Nat.add_zero] at h1
  have h2 : a.addr % 2 ^ b.hostBits = 2 ^ a.hostBits * ((a.addr / 2 ^ a.hostBits) % 2 ^ (b.hostBits - a.hostBits)) := by
    rw [e]; conv => lhs; rw [← h1]
    exact Nat.mul_mod_mul_left _ _ _
  have h3 := Nat.mod_lt (a.addr / 2 ^ a.hostBits) (two_pow_pos (b.hostBits - a.hostBits))
  have h4 : a.addr % 2 ^ b.hostBits + 2 ^ a.hostBits ≤ 2 ^ b.hostBits := by
    rw [h2, e]
    generalize (a.addr / 2 ^ a.hostBits) % 2 ^ (b.hostBits - a.hostBits) = m at *
    have : 2 ^ a.hostBits * m + 2 ^ a.hostBits = 2 ^ a.hostBits * (m + 1) := by
      rw [Nat.mul_add, Nat.mul_one]
    rw [this]; exact Nat.mul_le_mul_left _ h3
  have h5 := Nat.div_add_mod a.addr (2 ^ b.hostBits)
  have h6 := Nat.div_add_mod b.addr (2 ^ b.hostBits)
  rw [hb.2.2, Nat.add_zero] at h6
  have h7 : a.addr / 2 ^ b.hostBits = b.addr / 2 ^ b.hostBits :=
    (Ipam.mem_iff_div hb.2.2).mp ⟨hl, hu⟩
  unfold Cidr.size
  rw [h7, h6] at h5
  omega

/-- ... and disjoint from it otherwise -/
theorem Cidr.disjoint_of_not_mem {a b : Cidr} (ha : a.WF) (hb : b.WF) (hf : a.fam = b.fam)
    (hlen : b.len ≤ a.len) (hm : ¬ b.Mem a.addr) : a.Disjoint b := by
  have hW : a.W = b.W := by simp [Cidr.W, hf]
  have hle : a.hostBits ≤ b.hostBits := by unfold Cidr.hostBits; omega
  -- every x in a has the high part of a.addr
  unfold Cidr.Disjoint
  false_or_by_contra
  rename_i hnd
  -- the point max a.addr b.addr is in both
  have hx : ∃ x, a.Mem x ∧ b.Mem x := by
    have := two_pow_pos a.hostBits
    have := two_pow_pos b.hostBits
    by_cases h : a.addr ≤ b.addr
    · exact ⟨b.addr, ⟨h, by unfold Cidr.size at *; omega⟩, ⟨Nat.le_refl _, by unfold Cidr.size; omega⟩⟩
    · exact ⟨a.addr, ⟨Nat.le_refl _, by unfold Cidr.size; omega⟩, ⟨by omega, by unfold Cidr.size at *; omega⟩⟩
  obtain ⟨x, hxa, hxb⟩ := hx
  apply hm
  rw [Cidr.mem_iff_div ha] at hxa
  rw [Cidr.mem_iff_div hb] at hxb ⊢
  have e : b.hostBits = a.hostBits + (b.hostBits - a.hostBits) := by omega
  rw [e, Nat.pow_add, ← Nat.div_div_eq_div_mul, ← Nat.div_div_eq_div_mul] at hxb ⊢
  rw [← hxa, hxb]




theorem Cidr.disjoint_comm {a b : Cidr} : a.Disjoint b ↔ b.Disjoint a := by
  unfold Cidr.Disjoint; constructor <;> (intro h; omega)

theorem Cidr.size_pos (c : Cidr) : 0 < c.size := two_pow_pos _

theorem Cidr.mem_addr (c : Cidr) : c.Mem c.addr := ⟨Nat.le_refl _, by have := c.size_pos; omega⟩

theorem Cidr.not_disjoint_of_mem {a b : Cidr} {x : Nat} (ha : a.Mem x) (hb : b.Mem x) : ¬ a.Disjoint b := by
  unfold Cidr.Disjoint; unfold Cidr.Mem at ha hb; omega

/-- **Go's intersection test is interval intersection** -/
theorem goOverlap_iff {a b : Cidr} (ha : a.WF) (hb : b.WF) (hf : a.fam = b.fam) :
    goOverlap a b = true ↔ ¬ a.Disjoint b := by
  have hW : a.W = b.W := by simp [Cidr.W, hf]
  unfold goOverlap
  simp only [hf, beq_self_eq_true, Bool.true_and, Bool.or_eq_true]
  rw [goContains_iff ha, hW, goContains_iff hb, ← hW, Cidr.mem_maskTo_iff ha, hW, Cidr.mem_maskTo_iff hb]
  constructor
  · rintro (h | h)
    · exact Cidr.not_disjoint_of_mem h b.mem_addr
    · exact Cidr.not_disjoint_of_mem a.mem_addr h
  · intro hnd
    by_cases hl : a.len ≤ b.len
    · left
      false_or_by_contra
      rename_i hm
      exact hnd (Cidr.disjoint_comm.mp (Cidr.disjoint_of_not_mem hb ha hf.symm hl hm))
    · right
      false_or_by_contra
      rename_i hm
      exact hnd (Cidr.disjoint_of_not_mem ha hb hf (by omega) hm)

theorem goOverlap_diff_fam {a b : Cidr} (hf : a.fam ≠ b.fam) : goOverlap a b = false := by
  unfold goOverlap; simp [hf]

/-! ### getBeginningAndEndIndices -/

theorem Geo.range_WF {g : Geo} (hg : g.Valid) : g.range.WF := by
  obtain ⟨hcn, hnW, hb, hal, _⟩ := hg
  exact ⟨by simp [Geo.range, Cidr.W, Geo.W] at *; omega, hb, hal⟩

theorem Geo.base_mod_blockSize {g : Geo} (hg : g.Valid) : g.base % g.blockSize = 0 := by
  obtain ⟨hcn, hnW, hb, hal, _⟩ := hg
  have hd : g.blockSize ∣ 2 ^ (g.W - g.c) := Nat.pow_dvd_pow 2 (by omega)
  have := Nat.mod_mod_of_dvd g.base hd
  rw [hal] at this; simpa using this.symm

/-- the block number of an address of the range -/
def Geo.idx (g : Geo) (x : Nat) : Nat := (x - g.base) / g.blockSize

theorem Geo.idx_lt {g : Geo} (hg : g.Valid) {x : Nat} (hx : g.range.Mem x) : g.idx x < g.max := by
  obtain ⟨hl, hu⟩ := hx
  simp only [Geo.range, Cidr.size, Cidr.hostBits, Cidr.W] at hl hu
  change x < g.base + 2 ^ (g.W - g.c) at hu
  unfold Geo.idx
  apply Nat.div_lt_of_lt_mul
  rw [Nat.mul_comm, Geo.max_mul_blockSize hg]
  omega

theorem goIndexOf_mask {g : Geo} (hg : g.Valid) (hmax : g.max < 2 ^ 32 ∨ g.fam = .v6) {x : Nat}
    (hx : g.range.Mem x) : goIndexOf g (maskTo g.W g.n x) = some (g.idx x) := by
  apply goIndexOf_block hg hmax (Geo.idx_lt hg hx)
  have hbm := Geo.base_mod_blockSize hg
  obtain ⟨hl, hu⟩ := hx
  change g.base ≤ x at hl
  rw [maskTo_eq]
  have hbs : 2 ^ (g.W - g.n) = g.blockSize := rfl
  rw [hbs]
  have h1 := Nat.div_add_mod (x - g.base) g.blockSize
  have h2 := Nat.mod_lt (x - g.base) g.blockSize_pos
  have h3 : x % g.blockSize = (x - g.base) % g.blockSize := by
    have hbd := Nat.div_add_mod g.base g.blockSize
    rw [hbm, Nat.add_zero] at hbd
    have : x = (x - g.base) + g.blockSize * (g.base / g.blockSize) := by omega
    conv => lhs; rw [this]
    exact Nat.add_mul_mod_self_left _ _ _
  unfold Cidr.Mem Geo.block Geo.idx Cidr.size Cidr.hostBits Cidr.W
  simp only
  change g.base + (x - g.base) / g.blockSize * g.blockSize ≤ x - x % g.blockSize ∧
    x - x % g.blockSize < g.base + (x - g.base) / g.blockSize * g.blockSize + g.blockSize
  rw [h3, Nat.mul_comm]
  omega

/-- the specification of `getBeginningAndEndIndices` -/
def specBeginEnd (g : Geo) (cd : Cidr) : Option (Nat × Nat) :=
  if cd.fam ≠ g.fam ∨ cd.Disjoint g.range then none
  else if cd.len ≤ g.c then some (0, g.max - 1)
  else some (g.idx cd.addr, g.idx (cd.addr + cd.size - 1))

theorem goBeginEnd_eq_spec {g : Geo} (hg : g.Valid) (hmax : g.max < 2 ^ 32 ∨ g.fam = .v6)
    {cd : Cidr} (hcd : cd.WF) : goBeginEnd g cd = specBeginEnd g cd := by
  unfold goBeginEnd specBeginEnd
  by_cases hf' : ¬ cd.fam = g.fam
  · simp [hf']
  have hf : cd.fam = g.fam := Decidable.not_not.mp hf'
  clear hf'
  have hr := Geo.range_WF hg
  have hfr : cd.fam = g.range.fam := hf
  have hWc : cd.W = g.W := by simp [Cidr.W, Geo.W, hf]
  have hWr : g.range.W = g.W := rfl
  simp only [hf, ne_eq, not_true_eq_false, ite_false, false_or]
  -- the first test is exactly `goOverlap`
  have hov : (!(goContains g.W g.range (maskTo g.W g.c cd.addr)) && !(goContains g.W cd (maskTo g.W cd.len g.base))) = true
      ↔ cd.Disjoint g.range := by
    have := goOverlap_iff hr hcd hfr.symm
    unfold goOverlap at this
    simp only [hfr, beq_self_eq_true, Bool.true_and, Bool.or_eq_true] at this
    rw [Cidr.disjoint_comm]
    simp only [Bool.and_eq_true, Bool.not_eq_true']
    constructor
    · rintro ⟨h1, h2⟩
      false_or_by_contra
      rename_i hnd
      rcases this.mpr hnd with h | h
      · rw [hWr] at h; change goContains g.W g.range (maskTo g.W g.c cd.addr) = true at h; simp [h1] at h
      · rw [hWr] at h; change goContains g.W cd (maskTo g.W cd.len g.base) = true at h; simp [h2] at h
    · intro hd
      have hn := mt this.mp (by simpa using hd)
      rw [hWr] at hn
      constructor
      · false_or_by_contra; rename_i h; apply hn; left; simp only [Bool.not_eq_false] at h; exact h
      · false_or_by_contra; rename_i h; apply hn; right; simp only [Bool.not_eq_false] at h; exact h
  by_cases hd : cd.Disjoint g.range
  · rw [if_pos (hov.mpr hd), if_pos hd]
  · rw [if_neg (mt hov.mp hd), if_neg hd]
    by_cases hlen : cd.len ≤ g.c
    · rw [if_neg (by omega), if_pos hlen]
    · rw [if_pos (by omega), if_neg hlen]
      -- cd is strictly inside the range
      have hsub : cd.Sub g.range := by
        apply Cidr.sub_of_mem hcd hr hfr (by simp [Geo.range]; omega)
        false_or_by_contra; rename_i hm
        exact hd (Cidr.disjoint_of_not_mem hcd hr hfr (by simp [Geo.range]; omega) hm)
      have hm1 : g.range.Mem cd.addr := ⟨hsub.1, by have := cd.size_pos; have := hsub.2; omega⟩
      have hlast : cd.addr ||| (2 ^ (g.W - cd.len) - 1) = cd.addr + cd.size - 1 := by
        have hs : cd.size = 2 ^ (g.W - cd.len) := by simp [Cidr.size, Cidr.hostBits, hWc]
        have := or_eq_add (b := cd.addr) (x := 2 ^ (g.W - cd.len) - 1) (k := g.W - cd.len)
          (by rw [← hWc]; exact hcd.2.2) (by have := two_pow_pos (g.W - cd.len); omega)
        rw [this, hs]; have := two_pow_pos (g.W - cd.len); omega
      have hm2 : g.range.Mem (cd.addr + cd.size - 1) := ⟨by have := cd.size_pos; have := hsub.1; omega, by have := cd.size_pos; have := hsub.2; omega⟩
      rw [goIndexOf_mask hg hmax hm1, hlast, goIndexOf_mask hg hmax hm2]




theorem Geo.block_mem_range {g : Geo} (hg : g.Valid) {k : Nat} (hk : k < g.max) {x : Nat}
    (hx : (g.block k).Mem x) : g.range.Mem x := by
  have := Geo.block_off_lt hg hk
  obtain ⟨h1, h2⟩ := hx
  simp only [Geo.block, Cidr.size, Cidr.hostBits, Cidr.W] at h1 h2
  change x < g.base + k * g.blockSize + g.blockSize at h2
  constructor
  · change g.base ≤ x; omega
  · change x < g.base + 2 ^ (g.W - g.c); omega

theorem Geo.block_size (g : Geo) (k : Nat) : (g.block k).size = g.blockSize := rfl

theorem Geo.block_WF {g : Geo} (hg : g.Valid) {k : Nat} (hk : k < g.max) : (g.block k).WF := by
  have hoff := Geo.block_off_lt hg hk
  have hbm := Geo.base_mod_blockSize hg
  obtain ⟨hcn, hnW, hb, hal, _⟩ := hg
  refine ⟨hnW, ?_, ?_⟩
  · change g.base + k * g.blockSize < 2 ^ g.W
    -- base + 2^(W-c) ≤ 2^W
    have h1 := Nat.div_add_mod g.base (2 ^ (g.W - g.c))
    rw [hal, Nat.add_zero] at h1
    have e : (2:Nat) ^ g.W = 2 ^ (g.W - g.c) * 2 ^ g.c := by rw [← Nat.pow_add]; congr 1; omega
    have h2 : g.base / 2 ^ (g.W - g.c) < 2 ^ g.c := by
      apply Nat.div_lt_of_lt_mul; rw [← e]; exact hb
    have h3 : 2 ^ (g.W - g.c) * (g.base / 2 ^ (g.W - g.c) + 1) ≤ 2 ^ (g.W - g.c) * 2 ^ g.c :=
      Nat.mul_le_mul_left _ h2
    rw [Nat.mul_add, Nat.mul_one, h1, ← e] at h3
    have := g.blockSize_pos
    omega
  · change (g.base + k * g.blockSize) % g.blockSize = 0
    rw [Nat.add_mul_mod_self_right]; exact hbm

/-- meaning of the index range: exactly the blocks that intersect the CIDR -/
theorem specBeginEnd_some {g : Geo} (hg : g.Valid) {cd : Cidr} (hcd : cd.WF) {b e : Nat}
    (h : specBeginEnd g cd = some (b, e)) :
    cd.fam = g.fam ∧ b ≤ e ∧ e < g.max ∧
    ∀ k, k < g.max → ((b ≤ k ∧ k ≤ e) ↔ ¬ (g.block k).Disjoint cd) := by
  unfold specBeginEnd at h
  split at h
  · cases h
  rename_i h0
  have hf : cd.fam = g.fam := by false_or_by_contra; rename_i hn; exact h0 (Or.inl hn)
  have hnd : ¬ cd.Disjoint g.range := fun hd => h0 (Or.inr hd)
  have hr := Geo.range_WF hg
  refine ⟨hf, ?_⟩
  split at h
  · -- the CIDR contains the range
    rename_i hlen
    cases h
    have hsub : g.range.Sub cd := by
      apply Cidr.sub_of_mem hr hcd hf.symm hlen
      false_or_by_contra; rename_i hm
      exact hnd (Cidr.disjoint_comm.mp (Cidr.disjoint_of_not_mem hr hcd hf.symm hlen hm))
    refine ⟨Nat.zero_le _, by have := g.max_pos; omega, ?_⟩
    intro k hk
    constructor
    · intro _
      have hm := Geo.block_mem_range hg hk (g.block k).mem_addr
      have : cd.Mem (g.block k).addr := ⟨by have := hsub.1; have := hm.1; omega, by have := hsub.2; have := hm.2; omega⟩
      exact Cidr.not_disjoint_of_mem (g.block k).mem_addr this
    · intro _; omega
  · rename_i hlen
    cases h
    have hfr : cd.fam = g.range.fam := hf
    have hsub : cd.Sub g.range := by
      apply Cidr.sub_of_mem hcd hr hfr (by simp [Geo.range]; omega)
      false_or_by_contra; rename_i hm
      exact hnd (Cidr.disjoint_of_not_mem hcd hr hfr (by simp [Geo.range]; omega) hm)
    have hsp := cd.size_pos
    have hm2 : g.range.Mem (cd.addr + cd.size - 1) := ⟨by have := hsub.1; omega, by have := hsub.2; omega⟩
    have hbp := g.blockSize_pos
    refine ⟨?_, Geo.idx_lt hg hm2, ?_⟩
    · unfold Geo.idx; apply Nat.div_le_div_right; omega
    · intro k hk
      unfold Geo.idx Cidr.Disjoint
      rw [Geo.block_size]
      change ((cd.addr - g.base) / g.blockSize ≤ k ∧ k ≤ (cd.addr + cd.size - 1 - g.base) / g.blockSize) ↔
        ¬ (g.base + k * g.blockSize + g.blockSize ≤ cd.addr ∨ cd.addr + cd.size ≤ g.base + k * g.blockSize)
      have hb1 : g.base ≤ cd.addr := hsub.1
      rw [Nat.le_div_iff_mul_le hbp]
      have : (cd.addr - g.base) / g.blockSize ≤ k ↔ cd.addr - g.base < (k + 1) * g.blockSize := by
        rw [← Nat.div_lt_iff_lt_mul hbp]; omega
      rw [this, Nat.add_mul, Nat.one_mul]
      omega

theorem specBeginEnd_none {g : Geo} {cd : Cidr} (hg : g.Valid)
    (h : specBeginEnd g cd = none) : cd.fam ≠ g.fam ∨ ∀ k, k < g.max → (g.block k).Disjoint cd := by
  unfold specBeginEnd at h
  split at h
  · rename_i h0
    rcases h0 with h0 | h0
    · exact Or.inl h0
    · right
      intro k hk
      have hoff := Geo.block_off_lt hg hk
      unfold Cidr.Disjoint at h0 ⊢
      simp only [Geo.range, Cidr.size, Cidr.hostBits, Cidr.W] at h0
      change cd.addr + cd.size ≤ g.base ∨ g.base + 2 ^ (g.W - g.c) ≤ cd.addr at h0
      change g.base + k * g.blockSize + g.blockSize ≤ cd.addr ∨ cd.addr + cd.size ≤ g.base + k * g.blockSize
      omega
  · split at h <;> cases h


end Ipam
