/-!
L2a — node selectors as the allocator handles them
(`nodeSelectorAsSelector`, `nodeSelectorRequirementsAsLabelRequirements`,
`nodeSelectorKey`, `matchCIDRLabels` in multi_cidr_range_allocator.go) and the
parts of `k8s.io/apimachinery/pkg/labels` they rely on, modelled at
requirement level (`NewRequirement`, `Requirement.Matches`, `String`).
The character-level lexer of `labels.Parse` is library code (trusted base);
what `Parse (String sel)` returns is modelled by `normalize`.  Core Lean only.
-/
namespace Ipam

inductive SelOp where
  | In | NotIn | Exists | DoesNotExist | Gt | Lt
deriving DecidableEq, Repr, Inhabited

structure Req where
  key : String
  op : SelOp
  vals : List String
deriving DecidableEq, Repr, Inhabited

/-- node labels: an association list with distinct keys (as the harness supplies it) -/
abbrev Labels := List (String × String)

def Labels.get (ls : Labels) (k : String) : Option String :=
  match ls with
  | [] => none
  | (k', v) :: t => if k' = k then some v else Labels.get t k

/-- digits of a decimal number -/
def parseDigits (cs : List Char) : Option Nat :=
  if cs.isEmpty then none
  else cs.foldl (fun acc c => match acc with
    | none => none
    | some a => if '0' ≤ c ∧ c ≤ '9' then some (a * 10 + (c.toNat - '0'.toNat)) else none) (some 0)

/-- `strconv.ParseInt(s, 10, 64)` -/
def parseInt64 (s : String) : Option Int :=
  let cs := s.toList
  let (neg, ds) := match cs with
    | '-' :: t => (true, t)
    | '+' :: t => (false, t)
    | _ => (false, cs)
  match parseDigits ds with
  | none => none
  | some n =>
    if neg then (if n ≤ 2 ^ 63 then some (-(n : Int)) else none)
    else (if n < 2 ^ 63 then some (n : Int) else none)

/-- `Requirement.Matches` -/
def Req.sat (r : Req) (ls : Labels) : Bool :=
  match r.op with
  | .In => match ls.get r.key with
    | some v => r.vals.contains v
    | none => false
  | .NotIn => match ls.get r.key with
    | some v => !r.vals.contains v
    | none => true
  | .Exists => (ls.get r.key).isSome
  | .DoesNotExist => (ls.get r.key).isNone
  | .Gt | .Lt =>
    match ls.get r.key with
    | none => false
    | some v =>
      match parseInt64 v with
      | none => false
      | some lv =>
        match r.vals with
        | [rv] =>
          match parseInt64 rv with
          | none => false
          | some x => if r.op = .Gt then decide (lv > x) else decide (lv < x)
        | _ => false

/-- a requirement as it appears in a `NodeSelectorTerm`, with the library's verdicts on its
key and values attached by the harness (`validateLabelKey`, `validateLabelValue`) -/
structure RawReq where
  key : String
  op : String
  vals : List String
  keyOK : Bool
  valsOK : Bool
deriving DecidableEq, Repr, Inhabited

structure RawTerm where
  exprs : List RawReq
  fields : List RawReq
deriving DecidableEq, Repr, Inhabited

/-- `nodeSelectorRequirementsAsLabelRequirements` + `labels.NewRequirement`; `none` = error -/
def RawReq.toReq (r : RawReq) : Option Req :=
  let op? : Option SelOp :=
    if r.op = "In" then some .In else if r.op = "NotIn" then some .NotIn
    else if r.op = "Exists" then some .Exists else if r.op = "DoesNotExist" then some .DoesNotExist
    else if r.op = "Gt" then some .Gt else if r.op = "Lt" then some .Lt else none
  match op? with
  | none => none
  | some op =>
    if !r.keyOK || !r.valsOK then none
    else
      let okCount : Bool := match op with
        | .In | .NotIn => r.vals.length ≠ 0
        | .Exists | .DoesNotExist => r.vals.length = 0
        | .Gt | .Lt => r.vals.length = 1 ∧ r.vals.all (fun v => (parseInt64 v).isSome)
      if okCount then some ⟨r.key, op, r.vals⟩ else none

/-- insertion of a requirement by key (`sort.Sort(ByKey)`, stable for the short lists involved) -/
def insertByKey (r : Req) : List Req → List Req
  | [] => [r]
  | h :: t => if h.key < r.key then h :: insertByKey r t else r :: h :: t

def sortByKey (l : List Req) : List Req := l.foldr insertByKey []

def insertStr (s : String) : List String → List String
  | [] => [s]
  | h :: t => if s < h then s :: h :: t else h :: insertStr s t
def sortStrs (l : List String) : List String := l.foldr insertStr []

/-- the selector the repo builds from a `NodeSelector`: all terms' expressions and fields,
flattened (AND-ed), sorted by key.  `none` = error. -/
def flattenTerms (ts : List RawTerm) : Option (List Req) :=
  (ts.flatMap (fun t => t.exprs ++ t.fields)).mapM RawReq.toReq |>.map sortByKey

/-- the internal catch-all selector `kubernetes.io/clusterCIDR in (default)` -/
def defaultReqs : List Req := [⟨"kubernetes.io/clusterCIDR", .In, ["default"]⟩]

/-- `Requirement.String()` -/
def Req.print (r : Req) : String :=
  let vs := match r.vals with
    | [v] => v
    | l => ",".intercalate (sortStrs l)
  match r.op with
  | .In => r.key ++ " in (" ++ vs ++ ")"
  | .NotIn => r.key ++ " notin (" ++ vs ++ ")"
  | .Exists => r.key
  | .DoesNotExist => "!" ++ r.key
  | .Gt => r.key ++ ">" ++ vs
  | .Lt => r.key ++ "<" ++ vs

/-- `Selector.String()` -/
def printSel (rs : List Req) : String := ",".intercalate (rs.map Req.print)

/-- `nodeSelectorKey`: the requirements the ClusterCIDR is filed under, and their string -/
def selectorOf (sel : Option (List RawTerm)) : Option (List Req) :=
  match sel with
  | none => some defaultReqs
  | some ts => flattenTerms ts

def dedupStrs : List String → List String
  | [] => []
  | h :: t => if t.contains h then dedupStrs t else h :: dedupStrs t

/-- what `labels.Parse (key)` returns for a key produced by `printSel`: the same requirements
with each value list turned into a sorted set (the parser collects values in a set) -/
def Req.normalize (r : Req) : Req :=
  match r.op with
  | .In | .NotIn => { r with vals := sortStrs (dedupStrs r.vals) }
  | _ => r

/-- `matchCIDRLabels`: all requirements satisfied?, number satisfied -/
def matchCIDR (rs : List Req) (ls : Labels) : Bool × Nat :=
  let cnt := (rs.filter (fun r => r.normalize.sat ls)).length
  (cnt == rs.length, cnt)

end Ipam
