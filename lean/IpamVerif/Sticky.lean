import IpamVerif.OnePer
/-!
# Once terminating, never used again (C06, second half, over whole histories)

`KNT a`: the list of (selector key, name, terminating flag) of the mapped entries.  Every operation of the node side —
the allocation loop with its roll-back, `occupyCIDRs`, `ReleaseCIDR`, associations, the service filter — keeps that
list exactly (`KNT_*`, the lemmas of `OnePer.lean` with the flag added, no well-formedness needed); `createCC` only
appends an entry for an unmapped pair, `deleteCC` flags or drops one entry.  Hence `NoRevival`: a pair that serves nodes
after an event served before it or was not mapped at all — for every event except a restart (`step_noRevival`), and so
for every history without one (`run_dead`).  A restart rebuilds the map from the API objects and is covered by
`Restart.lean` on its fragment.  Core Lean only.
-/
namespace Ipam.Sticky
open Ipam Ipam.OnePer

def knt (c : CC) : String × String × Bool := (c.key, c.name, c.term)
def KNT (a : Alloc) : List (String × String × Bool) := a.ccs.map knt

theorem KNT_set {a : Alloc} {i : Nat} {c c' : CC} (hg : a.get? i = some c) (hk : knt c' = knt c) : KNT (a.set i c') = KNT a := by
  unfold KNT Alloc.set
  unfold Alloc.get? at hg
  simp only
  have hlt : i < a.ccs.length := (List.getElem?_eq_some_iff.mp hg).1
  rw [List.map_set]
  apply List.ext_getElem?
  intro j
  by_cases hij : i = j
  · subst hij
    rw [List.getElem?_set_self (by simpa using hlt), List.getElem?_map, hg, hk]; rfl
  · rw [List.getElem?_set_ne hij]

theorem KNT_set_none {a : Alloc} {i : Nat} (c' : CC) (hg : a.get? i = none) : a.set i c' = a := by
  unfold Alloc.set Alloc.get? at *
  have : a.ccs.length ≤ i := by
    rw [List.getElem?_eq_none_iff] at hg; exact hg
  rw [List.set_eq_of_length_le this]

theorem knt_setPool (c : CC) (f : Fam) (p : Pool) : knt (c.setPool f p) = knt c := by
  unfold CC.setPool knt; cases f <;> rfl

theorem knt_occupy {c c' : CC} {cd : Cidr} (h : c.occupy cd = some c') : knt c' = knt c := by
  unfold CC.occupy at h
  split at h
  · cases h
  · split at h
    · cases h
    · cases h; exact knt_setPool _ _ _

theorem knt_release {c c' : CC} {cd : Cidr} (h : c.release cd = some c') : knt c' = knt c := by
  unfold CC.release at h
  split at h
  · cases h
  · split at h
    · cases h
    · cases h; exact knt_setPool _ _ _

theorem knt_addAssoc (c : CC) (n : String) : knt (c.addAssoc n) = knt c := by
  unfold CC.addAssoc knt; split <;> rfl

theorem knt_delAssoc (c : CC) (n : String) : knt (c.delAssoc n) = knt c := rfl

theorem knt_occupyList : ∀ (cs : List Cidr) (c : CC), knt (c.occupyList cs).1 = knt c := by
  intro cs
  induction cs with
  | nil => intro c; rfl
  | cons cd rest ih =>
    intro c
    unfold CC.occupyList
    cases ho : c.occupy cd with
    | none => rfl
    | some c' => simp only; rw [ih c', knt_occupy ho]

theorem KNT_allocLoop (i : Nat) (f : Fam) : ∀ (fuel ev : Nat) (a : Alloc), KNT (allocLoop a i f fuel ev).1 = KNT a := by
  intro fuel
  induction fuel with
  | zero => intro ev a; rfl
  | succ fuel ih =>
    intro ev a
    unfold allocLoop
    cases hg : a.get? i with
    | none => rfl
    | some c =>
      simp only
      cases hp : c.pool f with
      | none => rfl
      | some p =>
        simp only
        split
        · rfl
        · cases hn : p.next with
          | none => rfl
          | some r =>
            obtain ⟨k, skipped, p'⟩ := r
            simp only
            have h1 : KNT (a.set i (c.setPool f p')) = KNT a := KNT_set hg (knt_setPool _ _ _)
            split
            · rw [ih, h1]
            · cases ho : (c.setPool f p').occupy (goBlock p.geo k) with
              | none => simp only; exact h1
              | some c'' =>
                simp only
                have hg1 : (a.set i (c.setPool f p')).get? i = some (c.setPool f p') := by
                  unfold Alloc.set Alloc.get? at *
                  simp only
                  rw [List.getElem?_set]
                  have := (List.getElem?_eq_some_iff.mp hg).1
                  simp [this]
                rw [KNT_set hg1 (knt_occupy ho), h1]

theorem KNT_allocate (a : Alloc) (i : Nat) (f : Fam) : KNT (a.allocate i f).1 = KNT a := by
  unfold Alloc.allocate
  cases a.get? i with
  | none => rfl
  | some c =>
    simp only
    cases c.pool f with
    | none => rfl
    | some p => exact KNT_allocLoop i f _ _ a


theorem get?_set_self'' {a : Alloc} {i : Nat} {c : CC} (d : CC) (hg : a.get? i = some c) : (a.set i d).get? i = some d := by
  unfold Alloc.set Alloc.get? at *
  simp only
  have := (List.getElem?_eq_some_iff.mp hg).1
  rw [List.getElem?_set_self this]

theorem KNT_tryEntry (a : Alloc) (i : Nat) : KNT (a.tryEntry i).1 = KNT a := by
  unfold Alloc.tryEntry
  cases hg : a.get? i with
  | none => rfl
  | some c =>
    simp only
    cases h4 : c.v4 with
    | none =>
      simp only
      cases h6 : c.v6 with
      | none => rfl
      | some p6 =>
        simp only
        have := KNT_allocate a i .v6
        cases hal : a.allocate i .v6 with
        | mk a2 r =>
          rw [hal] at this
          cases r with
          | some b6 => exact this
          | none => simp only [List.foldl_nil]; exact this
    | some p4 =>
      simp only
      have h1 := KNT_allocate a i .v4
      cases hal : a.allocate i .v4 with
      | mk a1 r =>
        rw [hal] at h1
        cases r with
        | none => exact h1
        | some b4 =>
          simp only
          cases h6 : c.v6 with
          | none => exact h1
          | some p6 =>
            simp only
            have h2 := KNT_allocate a1 i .v6
            cases hbl : a1.allocate i .v6 with
            | mk a2 r2 =>
              rw [hbl] at h2
              cases r2 with
              | some b6 => simp only; rw [h2, h1]
              | none =>
                simp only [List.foldl_cons, List.foldl_nil]
                split
                · rw [h2, h1]
                · rename_i c2 hg2
                  split
                  · rw [h2, h1]
                  · rename_i c3 hr3
                    rw [KNT_set hg2 (knt_release hr3), h2, h1]

theorem KNT_prioritized : ∀ (l : List Nat) (a : Alloc), KNT (a.prioritized l).1 = KNT a := by
  intro l
  induction l with
  | nil => intro a; rfl
  | cons i rest ih =>
    intro a
    unfold Alloc.prioritized
    have h1 := KNT_tryEntry a i
    cases ht : a.tryEntry i with
    | mk a' r =>
      rw [ht] at h1
      cases r with
      | some cidrs => exact h1
      | none => simp only; rw [ih, h1]

theorem KNT_releaseAll (i : Nat) : ∀ (cs : List Cidr) (a : Alloc), KNT (a.releaseAll i cs).1 = KNT a := by
  intro cs
  induction cs with
  | nil => intro a; rfl
  | cons cd rest ih =>
    intro a
    unfold Alloc.releaseAll
    cases hg : a.get? i with
    | none => rfl
    | some c =>
      simp only
      cases hr : c.release cd with
      | none => rfl
      | some c' => simp only; rw [ih, KNT_set hg (knt_release hr)]

theorem KNT_occupyNode (name : String) (cidrs : List Cidr) : ∀ (l : List Nat) (a : Alloc),
    KNT (a.occupyNode name cidrs l).1 = KNT a := by
  intro l
  induction l with
  | nil => intro a; rfl
  | cons i rest ih =>
    intro a
    unfold Alloc.occupyNode
    cases hg : a.get? i with
    | none => simp only; exact ih a
    | some c =>
      simp only
      have hk := knt_occupyList cidrs c
      cases hr : c.occupyList cidrs with
      | mk c' okk =>
        rw [hr] at hk
        cases okk with
        | true => simp only; exact KNT_set hg (by rw [knt_addAssoc]; exact hk)
        | false => simp only; rw [ih, KNT_set hg hk]

theorem KNT_releaseNode (a : Alloc) (name : String) (ls : Labels) (cs : List Cidr) : KNT (a.releaseNode name ls cs).1 = KNT a := by
  unfold Alloc.releaseNode
  cases a.allocatedCC name (a.ordered ls false) with
  | none => rfl
  | some i =>
    simp only
    have h1 := KNT_releaseAll i cs a
    cases hra : a.releaseAll i cs with
    | mk a' okk =>
      rw [hra] at h1
      cases okk with
      | false => exact h1
      | true =>
        simp only
        cases hg : a'.get? i with
        | none => exact h1
        | some c => simp only; rw [KNT_set hg (knt_delAssoc c name), h1]

theorem knt_occupyService (c : CC) (svc : Cidr) : knt (c.occupyService svc) = knt c := by
  unfold CC.occupyService
  split
  · rfl
  · split
    · split
      · rfl
      · rename_i h; exact knt_occupy h
    · rfl

theorem KNT_filterService (a : Alloc) (svc : Cidr) : KNT (a.filterService svc) = KNT a := by
  unfold Alloc.filterService KNT
  simp only [List.map_map]
  apply List.map_congr_left
  intro c _
  exact knt_occupyService c svc


/-! ### the work items -/

theorem KNT_releaseCIDR (al : Alloc) (n : NodeObj) : KNT (releaseCIDR al n).1 = KNT al := by
  unfold releaseCIDR
  split
  · rfl
  · split
    · rfl
    · exact KNT_releaseNode _ _ _ _

theorem KNT_occupyCIDRs (al : Alloc) (n : NodeObj) : KNT (occupyCIDRs al n).1 = KNT al := by
  unfold occupyCIDRs
  simp only
  split
  · rfl
  · split
    · rfl
    · exact KNT_occupyNode _ _ _ _

theorem KNT_update (s : Sys) (name : String) (cidrs : List Cidr) (i : Nat) (ws : List WOut) :
    KNT (updateCIDRsAllocation s name cidrs i ws).1.alloc = KNT s.alloc := by
  unfold updateCIDRsAllocation
  split
  · exact KNT_releaseAll _ _ _
  · split
    · simp only
      split
      · rename_i c hg; exact KNT_set hg (knt_addAssoc c name)
      · rfl
    · split
      · have := KNT_releaseAll i cidrs s.alloc
        cases hr : s.alloc.releaseAll i cidrs with
        | mk al okk => rw [hr] at this; cases okk <;> exact this
      · simp only
        split
        · simp only
          split
          · rename_i c hg; exact KNT_set hg (knt_addAssoc c name)
          · rfl
        · exact KNT_releaseAll _ _ _

theorem KNT_allocateOrOccupy (s : Sys) (n : NodeObj) (refresh : Bool) (ws : List WOut) :
    KNT (allocateOrOccupy s n refresh ws).1.alloc = KNT s.alloc := by
  unfold allocateOrOccupy
  split
  · have := KNT_occupyCIDRs s.alloc n
    cases hr : occupyCIDRs s.alloc n with
    | mk al okk => rw [hr] at this; cases okk <;> exact this
  · have hp := KNT_prioritized (s.alloc.ordered n.labels true) s.alloc
    cases hpr : s.alloc.prioritized (s.alloc.ordered n.labels true) with
    | mk al r =>
      rw [hpr] at hp
      cases r with
      | none => exact hp
      | some ci =>
        obtain ⟨cidrs, i⟩ := ci
        simp only
        split
        · exact hp
        · split
          · split
            · rw [KNT_update]; exact hp
            · simp only
              rw [KNT_releaseCIDR, KNT_update]; exact hp
          · rw [KNT_update]; exact hp

theorem KNT_procNode (s : Sys) (name : String) (refresh : Bool) (ws : List WOut) :
    KNT (procNode s name refresh ws).1.alloc = KNT s.alloc := by
  unfold procNode
  have key : KNT (procNodeCore { s with nodeQ := qDel s.nodeQ name } name refresh ws).1.alloc = KNT s.alloc := by
    unfold procNodeCore
    split
    · rfl
    · split
      · have := KNT_releaseCIDR s.alloc (by assumption : NodeObj)
        rename_i n _ _
        have h2 := KNT_releaseCIDR s.alloc n
        cases hr : releaseCIDR s.alloc n with
        | mk al okk => rw [hr] at h2; cases okk <;> exact h2
      · exact KNT_allocateOrOccupy _ _ _ _
  simp only
  split
  · exact key
  · exact key

/-! ### mapping and unmapping -/
/-! ## the ClusterCIDR side, and whole histories -/

/-- the (selector key, name) pairs of the entries that may serve nodes -/
def Live (a : Alloc) : List (String × String) := (a.ccs.filter (fun c => !c.term)).map kn

theorem mem_Live {a : Alloc} {p : String × String} : p ∈ Live a ↔ (p.1, p.2, false) ∈ KNT a := by
  unfold Live KNT
  constructor
  · intro h
    obtain ⟨c, hc, hk⟩ := List.mem_map.mp h
    obtain ⟨hc1, hc2⟩ := List.mem_filter.mp hc
    refine List.mem_map.mpr ⟨c, hc1, ?_⟩
    unfold knt; unfold kn at hk
    have ht : c.term = false := by simpa using hc2
    rw [← hk, ht]
  · intro h
    obtain ⟨c, hc, hk⟩ := List.mem_map.mp h
    unfold knt at hk
    simp only [Prod.mk.injEq] at hk
    refine List.mem_map.mpr ⟨c, List.mem_filter.mpr ⟨hc, by simp [hk.2.2]⟩, ?_⟩
    unfold kn; rw [hk.1, hk.2.1]

/-- "whoever serves afterwards served before or was not there at all": no entry that is terminating is ever revived -/
def NoRevival (a a' : Alloc) : Prop := ∀ p ∈ Live a', p ∈ Live a ∨ p ∉ KN a

theorem NoRevival.of_KNT {a a' : Alloc} (h : KNT a' = KNT a) : NoRevival a a' := by
  intro p hp
  left
  rw [mem_Live] at hp ⊢
  rw [← h]; exact hp

theorem noRevival_createCC {a al : Alloc} {name : String} {spec : CCSpec} {t : Bool}
    (hc : a.createCC name spec t = some al) : NoRevival a al := by
  unfold Alloc.createCC at hc
  cases hsel : selectorOf spec.sel with
  | none => rw [hsel] at hc; cases hc
  | some reqs =>
    rw [hsel] at hc
    simp only at hc
    split at hc
    · cases hc; exact NoRevival.of_KNT rfl
    · rename_i hnm
      cases hb : buildCC (printSel reqs) reqs name spec t with
      | none => rw [hb] at hc; cases hc
      | some c =>
        rw [hb] at hc
        cases hc
        intro p hp
        unfold Live at hp
        simp only [List.filter_append, List.map_append, List.mem_append] at hp
        rcases hp with hp | hp
        · left; exact hp
        · right
          have : p = kn c := by
            by_cases ht : c.term = true
            · simp [List.filter, ht] at hp
            · simp [List.filter, ht] at hp; exact hp
          rw [this, buildCC_kn hb]
          intro hx
          exact hnm (mem_KN_of_mapped.mpr hx)

theorem noRevival_deleteCC (a : Alloc) (name : String) (spec : CCSpec) : NoRevival a (a.deleteCC name spec).1 := by
  unfold Alloc.deleteCC
  cases selectorOf spec.sel with
  | none => exact NoRevival.of_KNT rfl
  | some reqs =>
    simp only
    cases hd : delFirst (printSel reqs) name a.ccs with
    | mk l' r =>
      simp only
      intro p hp
      left
      obtain ⟨c, hc, hk⟩ := List.mem_map.mp hp
      obtain ⟨hc1, hc2⟩ := List.mem_filter.mp hc
      have hc1 : c ∈ l' := hc1
      suffices c ∈ a.ccs from List.mem_map.mpr ⟨c, List.mem_filter.mpr ⟨this, hc2⟩, hk⟩
      rcases delFirst_cases' _ _ _ _ _ hd with h1 | ⟨i, d, hi, h2⟩ | ⟨i, h3⟩
      · rw [h1] at hc1; exact hc1
      · rw [h2] at hc1
        rcases List.mem_or_eq_of_mem_set hc1 with h | h
        · exact h
        · rw [h] at hc2; simp at hc2
      · rw [h3] at hc1
        exact (List.eraseIdx_sublist _ _).subset hc1

theorem noRevival_createClusterCIDR (s : Sys) (o : CCObj) (t : Bool) (w : WOut) :
    NoRevival s.alloc (createClusterCIDR s o t w).1.alloc := by
  unfold createClusterCIDR
  cases hc : s.alloc.createCC o.name o.spec t with
  | none => exact NoRevival.of_KNT rfl
  | some al => exact noRevival_createCC hc

theorem noRevival_reconcileDelete (s : Sys) (o : CCObj) (w : WOut) :
    NoRevival s.alloc (reconcileDelete s o w).1.alloc := by
  unfold reconcileDelete
  split
  · have := noRevival_deleteCC s.alloc o.name o.spec
    cases hd : s.alloc.deleteCC o.name o.spec with
    | mk al r =>
      rw [hd] at this
      cases r <;> exact this
  · exact NoRevival.of_KNT rfl

theorem noRevival_procCC (s : Sys) (name : String) (w : WOut) : NoRevival s.alloc (procCC s name w).1.alloc := by
  have core : ∀ t : Sys, NoRevival t.alloc (procCCCore t name w).1.alloc := by
    intro t
    unfold procCCCore
    split
    · exact NoRevival.of_KNT rfl
    · split
      · exact noRevival_reconcileDelete _ _ _
      · split
        · exact noRevival_createClusterCIDR _ _ _ _
        · exact NoRevival.of_KNT rfl
  have := core { s with ccQ := qDel s.ccQ name }
  unfold procCC
  simp only
  split <;> exact this

/-- **no event but a restart revives a terminating entry**: node items of every kind (allocation with retries and
roll-back, recording, release, re-sync), notifications (the delete handler's release included), the service filter,
every ClusterCIDR item under every write outcome, every change made by others -/
theorem step_noRevival (s : Sys) (e : Ev) (hb : ∀ svcs ws, e ≠ .boot svcs ws) : NoRevival s.alloc (step s e).1.alloc := by
  have same : ∀ s' : Sys, s'.alloc = s.alloc → NoRevival s.alloc s'.alloc := fun s' h => NoRevival.of_KNT (by rw [h])
  cases e with
  | boot svcs ws => exact absurd rfl (hb svcs ws)
  | procNode z refresh ws =>
    simp only [step]
    split
    · exact NoRevival.of_KNT (KNT_procNode s z refresh ws)
    · exact same _ rfl
  | procCC z w =>
    simp only [step]
    split
    · exact noRevival_procCC s z w
    · exact same _ rfl
  | deliverNode z tomb =>
    simp only [step]
    split
    · exact same _ rfl
    · split
      · exact same _ rfl
      · exact NoRevival.of_KNT (KNT_releaseCIDR _ _)
  | nodeAdd n => simp only [step]; split <;> exact same _ rfl
  | nodeDel z => simp only [step]; split <;> exact same _ rfl
  | nodeLabels z ls => simp only [step]; split <;> exact same _ rfl
  | nodeDeleting z => simp only [step]; split <;> exact same _ rfl
  | ccAdd z spec => simp only [step]; split <;> exact same _ rfl
  | ccDel z => simp only [step]; repeat' split
               all_goals exact same _ rfl
  | ccGen z g => simp only [step]; repeat' split
                 all_goals exact same _ rfl
  | ccAddFin z fin => simp only [step]; repeat' split
                      all_goals exact same _ rfl
  | nodeSetCIDRs z cidrs => exact same _ rfl
  | deliverCC z => simp only [step]; repeat' split
                   all_goals exact same _ rfl

/-- an entry that is mapped but serves nobody: terminating -/
def Dead (a : Alloc) (p : String × String) : Prop := p ∈ KN a ∧ p ∉ Live a

theorem step_dead (s : Sys) (e : Ev) (hb : ∀ svcs ws, e ≠ .boot svcs ws) (p : String × String) (h : Dead s.alloc p) :
    p ∉ KN (step s e).1.alloc ∨ Dead (step s e).1.alloc p := by
  by_cases hk : p ∈ KN (step s e).1.alloc
  · right
    refine ⟨hk, fun hl => ?_⟩
    rcases step_noRevival s e hb p hl with h1 | h1
    · exact h.2 h1
    · exact h1 h.1
  · left; exact hk

/-- **once terminating, never used again** — every history without a restart, no other assumption: from the moment an
entry is terminating it serves nobody in any later state, up to the moment it is removed from the map (after which
a new object of that name is a new ClusterCIDR) -/
theorem run_dead : ∀ (evs : List Ev) (s : Sys) (p : String × String), Dead s.alloc p →
    (∀ e ∈ evs, ∀ svcs ws, e ≠ .boot svcs ws) →
    p ∉ Live (run s evs).alloc ∨ ∃ pre post, evs = pre ++ post ∧ p ∉ KN (run s pre).alloc := by
  intro evs
  induction evs with
  | nil => intro s p h _; left; exact h.2
  | cons e rest ih =>
    intro s p h hb
    rcases step_dead s e (hb e (List.mem_cons_self ..)) p h with h1 | h1
    · right; exact ⟨[e], rest, rfl, h1⟩
    · rcases ih (step s e).1 p h1 (fun e' he' => hb e' (List.mem_cons_of_mem _ he')) with h2 | ⟨pre, post, he, h2⟩
      · left; exact h2
      · right; exact ⟨e :: pre, post, by rw [he]; rfl, h2⟩

end Ipam.Sticky
