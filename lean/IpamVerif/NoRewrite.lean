import IpamVerif.System
/-!
# C08, the work item: a PATCH is issued only when the cache shows the node without pod CIDRs; processing a
node that has pod CIDRs writes nothing.  (The statement about what such a re-sync reserves is in `Props/C08.lean`.)
-/
namespace Ipam.C08
open Ipam

theorem patchLoop_patches_of_acc (a : Api) (name : String) (cidrs : List Cidr) :
    ∀ (k : Nat) (ws : List WOut) (acc : List (String × List Cidr × String)),
      ∀ p ∈ (patchLoop a name cidrs k ws acc).2.2, p ∈ acc ∨ (p.1 = name ∧ p.2.1 = cidrs) := by
  intro k
  induction k generalizing a with
  | zero => intro ws acc p hp; exact Or.inl hp
  | succ k ih =>
    intro ws acc p hp
    unfold patchLoop at hp
    simp only at hp
    split at hp
    · rcases List.mem_append.mp hp with h | h
      · exact Or.inl h
      · simp only [List.mem_singleton] at h; subst h; exact Or.inr ⟨rfl, rfl⟩
    · rcases ih _ _ _ p hp with h | h
      · rcases List.mem_append.mp h with h | h
        · exact Or.inl h
        · simp only [List.mem_singleton] at h; subst h; exact Or.inr ⟨rfl, rfl⟩
      · exact Or.inr h

/-- **a PATCH is issued only when the controller's cache shows the node without pod CIDRs**
(the second read, inside `updateCIDRsAllocation`, after any refresh of the cache) -/
theorem patch_only_when_cache_shows_no_cidrs (s : Sys) (name : String) (cidrs : List Cidr) (i : Nat) (ws : List WOut)
    (h : (updateCIDRsAllocation s name cidrs i ws).2.patches ≠ []) :
    ∃ n2, getNode s.nodeView name = some n2 ∧ n2.hasCidrs = false := by
  unfold updateCIDRsAllocation at h
  split at h
  · exact absurd rfl h
  · rename_i n2 hn2
    split at h
    · exact absurd rfl h
    · split at h
      · split at h <;> exact absurd rfl h
      · rename_i hh
        exact ⟨n2, hn2, by simpa using hh⟩

/-- … and every PATCH of a work item is for that node and carries the CIDRs reserved for it -/
theorem patches_are_for_the_node (s : Sys) (name : String) (cidrs : List Cidr) (i : Nat) (ws : List WOut) :
    ∀ p ∈ (updateCIDRsAllocation s name cidrs i ws).2.patches, p.1 = name ∧ p.2.1 = cidrs := by
  intro p hp
  unfold updateCIDRsAllocation at hp
  split at hp
  · cases hp
  · split at hp
    · cases hp
    · split at hp
      · split at hp <;> cases hp
      · simp only at hp
        split at hp
        · rcases patchLoop_patches_of_acc _ _ _ _ _ _ p hp with h | h
          · cases h
          · exact h
        · rcases patchLoop_patches_of_acc _ _ _ _ _ _ p hp with h | h
          · cases h
          · exact h

/-- **processing a node that already has pod CIDRs changes nothing in the cluster**: no PATCH, no
ClusterCIDR write, no event, API state and caches untouched — whatever the write outcomes offered,
with or without a concurrent cache refresh, any number of times -/
theorem resync_writes_nothing (s : Sys) (n : NodeObj) (refresh : Bool) (ws : List WOut) (h : n.hasCidrs = true) :
    (allocateOrOccupy s n refresh ws).2.patches = [] ∧ (allocateOrOccupy s n refresh ws).2.ccWrites = [] ∧
    (allocateOrOccupy s n refresh ws).2.events = [] ∧ (allocateOrOccupy s n refresh ws).1.api = s.api ∧
    (allocateOrOccupy s n refresh ws).1.nodeView = s.nodeView ∧ (allocateOrOccupy s n refresh ws).1.ccView = s.ccView ∧
    (allocateOrOccupy s n refresh ws).1.nodeQ = s.nodeQ := by
  unfold allocateOrOccupy
  rw [if_pos h]
  split <;> exact ⟨rfl, rfl, rfl, rfl, rfl, rfl, rfl⟩

/-- the only thing such a step may touch is the in-memory reservation state, through `occupyCIDRs` of
that node's own CIDRs -/
theorem resync_alloc (s : Sys) (n : NodeObj) (refresh : Bool) (ws : List WOut) (h : n.hasCidrs = true) :
    (allocateOrOccupy s n refresh ws).1.alloc = (occupyCIDRs s.alloc n).1 := by
  unfold allocateOrOccupy
  rw [if_pos h]
  split <;> (rename_i heq; rw [heq])

example : (allocateOrOccupy Sys.init ⟨"n1", [], [⟨.v4, 0x0a000000, 28⟩], false, false⟩ false []).2.patches = [] := by decide

end Ipam.C08
