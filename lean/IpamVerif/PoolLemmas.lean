import IpamVerif.Pool
import IpamVerif.AddrLemmas
/-! Helper lemmas for L1 (property statements live in `Props/C14.lean`, `Props/C19.lean`). -/
namespace Ipam

/-- the part of the invariant that holds inside the loops too -/
structure Pool.Inv0 (p : Pool) : Prop where
  nodup : p.used.Nodup
  bound : ∀ i ∈ p.used, i < p.max
  count_eq : p.count = p.used.length
  cursor_lt : p.cursor < p.max
  metrics : p.allocs = p.releases + p.count
  maxg : p.maxGauge = p.max

/-- the invariant between operations -/
structure Pool.Inv (p : Pool) : Prop extends p.Inv0 where
  usage_eq : p.usage = p.count

theorem Pool.new_inv (g : Geo) (l : String) : (Pool.new g l).Inv :=
  { toInv0 := { nodup := List.nodup_nil, bound := (by intro i hi; cases hi), count_eq := rfl,
                cursor_lt := g.max_pos, metrics := rfl, maxg := rfl },
    usage_eq := rfl }

theorem mem_idxRange {b e k : Nat} : k ∈ idxRange b e ↔ b ≤ k ∧ k ≤ e := by
  unfold idxRange; rw [List.mem_range'_1]; omega

/-- fields the loops never touch -/
def Pool.SameFrame (p q : Pool) : Prop :=
  q.geo = p.geo ∧ q.label = p.label ∧ q.cursor = p.cursor ∧ q.maxGauge = p.maxGauge ∧ q.usage = p.usage

theorem Pool.SameFrame.refl (p : Pool) : p.SameFrame p := ⟨rfl, rfl, rfl, rfl, rfl⟩
theorem Pool.SameFrame.trans {p q r : Pool} (h1 : p.SameFrame q) (h2 : q.SameFrame r) : p.SameFrame r := by
  obtain ⟨a1, a2, a3, a4, a5⟩ := h1; obtain ⟨b1, b2, b3, b4, b5⟩ := h2
  exact ⟨b1.trans a1, b2.trans a2, b3.trans a3, b4.trans a4, b5.trans a5⟩

/-! ### occupy -/

theorem Pool.occupyIdx_spec (p : Pool) (i : Nat) (h : p.Inv0) (hi : i < p.max) :
    (p.occupyIdx i).Inv0 ∧ p.SameFrame (p.occupyIdx i) ∧ (p.occupyIdx i).releases = p.releases ∧
    ∀ k, k ∈ (p.occupyIdx i).used ↔ k = i ∨ k ∈ p.used := by
  unfold Pool.occupyIdx
  split
  · rename_i hm
    refine ⟨h, Pool.SameFrame.refl p, rfl, ?_⟩
    intro k; constructor
    · exact Or.inr
    · rintro (rfl | hk); exact hm; exact hk
  · rename_i hm
    refine ⟨?_, ⟨rfl, rfl, rfl, rfl, rfl⟩, rfl, ?_⟩
    · exact { nodup := List.nodup_cons.mpr ⟨hm, h.nodup⟩
              bound := by
                intro j hj
                rcases List.mem_cons.mp hj with rfl | hj
                · exact hi
                · exact h.bound j hj
              count_eq := by simp [h.count_eq]
              cursor_lt := h.cursor_lt
              metrics := by have := h.metrics; simp only; omega
              maxg := h.maxg }
    · intro k; simp [List.mem_cons]

theorem Pool.occupyFold_spec (l : List Nat) (p : Pool) (h : p.Inv0) (hl : ∀ i ∈ l, i < p.max) :
    (l.foldl Pool.occupyIdx p).Inv0 ∧ p.SameFrame (l.foldl Pool.occupyIdx p) ∧
    (l.foldl Pool.occupyIdx p).releases = p.releases ∧
    ∀ k, k ∈ (l.foldl Pool.occupyIdx p).used ↔ k ∈ l ∨ k ∈ p.used := by
  induction l generalizing p with
  | nil => exact ⟨h, Pool.SameFrame.refl p, rfl, by simp⟩
  | cons a t ih =>
    obtain ⟨h1, f1, r1, m1⟩ := p.occupyIdx_spec a h (hl a (List.mem_cons_self ..))
    have hmax : (p.occupyIdx a).max = p.max := by unfold Pool.max; rw [f1.1]
    obtain ⟨h2, f2, r2, m2⟩ := ih (p.occupyIdx a) h1 (by
      intro i hi; rw [hmax]; exact hl i (List.mem_cons_of_mem _ hi))
    refine ⟨h2, f1.trans f2, r2.trans r1, ?_⟩
    intro k
    simp only [List.foldl_cons]
    rw [m2 k, m1 k, List.mem_cons]
    constructor
    · rintro (hk | rfl | hk)
      · exact Or.inl (Or.inr hk)
      · exact Or.inl (Or.inl rfl)
      · exact Or.inr hk
    · rintro ((rfl | hk) | hk)
      · exact Or.inr (Or.inl rfl)
      · exact Or.inl hk
      · exact Or.inr (Or.inr hk)

/-! ### release -/

theorem Pool.releaseIdx_spec (p : Pool) (i : Nat) (h : p.Inv0) :
    (p.releaseIdx i).Inv0 ∧ p.SameFrame (p.releaseIdx i) ∧ (p.releaseIdx i).allocs = p.allocs ∧
    ∀ k, k ∈ (p.releaseIdx i).used ↔ k ≠ i ∧ k ∈ p.used := by
  unfold Pool.releaseIdx
  split
  · rename_i hm
    refine ⟨?_, ⟨rfl, rfl, rfl, rfl, rfl⟩, rfl, ?_⟩
    · have hpos : 0 < p.used.length := List.length_pos_of_mem hm
      exact { nodup := h.nodup.erase i
              bound := by intro j hj; exact h.bound j (List.mem_of_mem_erase hj)
              count_eq := by simp only; rw [List.length_erase_of_mem hm, h.count_eq]
              cursor_lt := h.cursor_lt
              metrics := by have := h.metrics; have := h.count_eq; simp only; omega
              maxg := h.maxg }
    · intro k; exact h.nodup.mem_erase_iff
  · rename_i hm
    refine ⟨h, Pool.SameFrame.refl p, rfl, ?_⟩
    intro k; constructor
    · intro hk; exact ⟨fun he => hm (he ▸ hk), hk⟩
    · exact fun hk => hk.2

theorem Pool.releaseFold_spec (l : List Nat) (p : Pool) (h : p.Inv0) :
    (l.foldl Pool.releaseIdx p).Inv0 ∧ p.SameFrame (l.foldl Pool.releaseIdx p) ∧
    (l.foldl Pool.releaseIdx p).allocs = p.allocs ∧
    ∀ k, k ∈ (l.foldl Pool.releaseIdx p).used ↔ k ∉ l ∧ k ∈ p.used := by
  induction l generalizing p with
  | nil => exact ⟨h, Pool.SameFrame.refl p, rfl, by simp⟩
  | cons a t ih =>
    obtain ⟨h1, f1, r1, m1⟩ := p.releaseIdx_spec a h
    obtain ⟨h2, f2, r2, m2⟩ := ih (p.releaseIdx a) h1
    refine ⟨h2, f1.trans f2, r2.trans r1, ?_⟩
    intro k
    simp only [List.foldl_cons]
    rw [m2 k, m1 k, List.mem_cons]
    constructor
    · rintro ⟨hk, hne, hu⟩
      exact ⟨by rintro (rfl | hh); exact hne rfl; exact hk hh, hu⟩
    · rintro ⟨hk, hu⟩
      exact ⟨fun hh => hk (Or.inr hh), fun he => hk (Or.inl he), hu⟩

/-- a fold that changes nothing returns the pool itself -/
theorem Pool.occupyFold_id (l : List Nat) (p : Pool) (hl : ∀ i ∈ l, i ∈ p.used) :
    l.foldl Pool.occupyIdx p = p := by
  induction l with
  | nil => rfl
  | cons a t ih =>
    simp only [List.foldl_cons]
    have : p.occupyIdx a = p := by unfold Pool.occupyIdx; rw [if_pos (hl a (List.mem_cons_self ..))]
    rw [this]; exact ih (fun i hi => hl i (List.mem_cons_of_mem _ hi))

theorem Pool.releaseFold_id (l : List Nat) (p : Pool) (hl : ∀ i ∈ l, i ∉ p.used) :
    l.foldl Pool.releaseIdx p = p := by
  induction l with
  | nil => rfl
  | cons a t ih =>
    simp only [List.foldl_cons]
    have : p.releaseIdx a = p := by unfold Pool.releaseIdx; rw [if_neg (hl a (List.mem_cons_self ..))]
    rw [this]; exact ih (fun i hi => hl i (List.mem_cons_of_mem _ hi))

/-! ### the cyclic scan of `NextCandidate` -/

theorem Pool.scan_some (p : Pool) (hm : 0 < p.max) :
    ∀ fuel cand i c k, cand < p.max → p.scan fuel cand i = some (c, k) →
      i ≤ k ∧ k < i + fuel ∧ c = (cand + (k - i)) % p.max ∧ c ∉ p.used ∧
      ∀ j, j < k - i → (cand + j) % p.max ∈ p.used := by
  intro fuel
  induction fuel with
  | zero => intro cand i c k _ h; simp [Pool.scan] at h
  | succ f ih =>
    intro cand i c k hc h
    unfold Pool.scan at h
    split at h
    · rename_i hu
      obtain ⟨h1, h2, h3, h4, h5⟩ := ih _ _ _ _ (Nat.mod_lt _ hm) h
      refine ⟨by omega, by omega, ?_, h4, ?_⟩
      · rw [h3, Nat.mod_add_mod]; congr 1; omega
      · intro j hj
        cases j with
        | zero => simpa [Nat.mod_eq_of_lt hc] using hu
        | succ j' =>
          have := h5 j' (by omega)
          rw [Nat.mod_add_mod] at this
          have e : cand + 1 + j' = cand + (j' + 1) := by omega
          rw [e] at this; exact this
    · rename_i hu
      cases h
      refine ⟨Nat.le_refl _, by omega, ?_, ?_, by intro j hj; omega⟩
      · rw [Nat.sub_self, Nat.add_zero, Nat.mod_eq_of_lt hc]
      · exact hu

theorem Pool.scan_none (p : Pool) (hm : 0 < p.max) :
    ∀ fuel cand i, cand < p.max → p.scan fuel cand i = none →
      ∀ j, j < fuel → (cand + j) % p.max ∈ p.used := by
  intro fuel
  induction fuel with
  | zero => intro cand i _ _ j hj; omega
  | succ f ih =>
    intro cand i hc h j hj
    unfold Pool.scan at h
    split at h
    · rename_i hu
      cases j with
      | zero => simpa [Nat.mod_eq_of_lt hc] using hu
      | succ j' =>
        have := ih _ _ (Nat.mod_lt _ hm) h j' (by omega)
        rw [Nat.mod_add_mod] at this
        have e : cand + 1 + j' = cand + (j' + 1) := by omega
        rw [e] at this; exact this
    · cases h

/-- the cyclic walk from any start visits every index -/
theorem cyclic_cover {m s i : Nat} (hs : s < m) (hi : i < m) : ∃ j, j < m ∧ (s + j) % m = i := by
  by_cases h : s ≤ i
  · exact ⟨i - s, by omega, by rw [Nat.add_sub_cancel' h, Nat.mod_eq_of_lt hi]⟩
  · refine ⟨i + m - s, by omega, ?_⟩
    have : s + (i + m - s) = i + m := by omega
    rw [this, Nat.add_mod_right, Nat.mod_eq_of_lt hi]

/-- a duplicate-free list of numbers below `m` that contains all of them has length `m` -/
theorem full_length {l : List Nat} {m : Nat} (hn : l.Nodup) (hb : ∀ i ∈ l, i < m) : l.length ≤ m := by
  have : l ⊆ List.range m := fun i hi => List.mem_range.mpr (hb i hi)
  simpa using hn.length_le_of_subset this

theorem full_of_all {l : List Nat} {m : Nat} (hall : ∀ i, i < m → i ∈ l) : m ≤ l.length := by
  have : List.range m ⊆ l := fun i hi => hall i (List.mem_range.mp hi)
  simpa using List.nodup_range.length_le_of_subset this

end Ipam
