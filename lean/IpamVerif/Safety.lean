import IpamVerif.System
import IpamVerif.AllocOrder
import IpamVerif.Props.C02
import IpamVerif.Props.C09
import IpamVerif.Recorded
/-!
# History-level safety: an inductive invariant of the whole controller model

`Inv` relates the three places a pod CIDR lives in — the API objects, the informer cache, the allocator's
pools and associations — and is preserved by every event of the fragment `Frag` (`inv_step`), hence by every
history in it (`inv_run`).  It implies that nodes which exist and are not being deleted hold pairwise disjoint
pod CIDRs (`Inv.noOverlap`).  The clauses:

* `own`   – a node associated with an entry has (as API object, or as the final state of a deleted one) pod CIDRs
            that are blocks in use in exactly that entry;
* `uniq`  – a node is associated with at most one entry;
* `obj.disj` – nodes associated with entries hold disjoint CIDRs, whichever object (API, cache, final state) one looks at;
* `held`  – an API or cached object with pod CIDRs that is not (known to be) under deletion is associated and in use;
* `pend`  – an associated node is still in the cache (its release is still to come);
* `obj.coh`, `obj.lab`, `delMono`, `gravesFresh`, `graveOrApi`, `nodup*` – the cache and the record of final states lag
            behind the API objects but never contradict them;
* `obj.elig` – the entry a node is associated with is found again when the release is routed by the node's labels;
* `rd`    – mapped ranges are pairwise disjoint (the fragment's standing assumption; overlapping ClusterCIDRs are
            the subject of the recorded findings P9, P11, P12, P22).

The invariant was first tested on random histories of the executable model (that is how finding P22 surfaced),
then proved.  Core Lean only.
-/
namespace Ipam.Safety
open Ipam

/-! ## list-as-map helpers -/

theorem mem_of_getNode {l : List NodeObj} {n : String} {o : NodeObj} (h : getNode l n = some o) : o ∈ l ∧ o.name = n := by
  unfold getNode at h
  refine ⟨List.mem_of_find?_eq_some h, ?_⟩
  have := List.find?_some h
  simpa using this

theorem getNode_none_iff {l : List NodeObj} {n : String} : getNode l n = none ↔ ∀ o ∈ l, o.name ≠ n := by
  unfold getNode
  rw [List.find?_eq_none]
  constructor
  · intro h o ho; simpa using h o ho
  · intro h o ho; simpa using h o ho

theorem mem_delNode {l : List NodeObj} {n : String} {o : NodeObj} : o ∈ delNode l n ↔ o ∈ l ∧ o.name ≠ n := by
  unfold delNode
  rw [List.mem_filter]
  simp

theorem mem_putNode {l : List NodeObj} {o x : NodeObj} (h : x ∈ putNode l o) : x = o ∨ (x ∈ l ∧ x.name ≠ o.name) := by
  unfold putNode at h
  split at h
  · obtain ⟨y, hy, rfl⟩ := List.mem_map.mp h
    by_cases hn : y.name == o.name
    · simp [hn]
    · simp only [hn]
      right
      simp only [Bool.false_eq_true, ↓reduceIte]
      exact ⟨hy, by simpa using hn⟩
  · rename_i hany
    rcases List.mem_append.mp h with h | h
    · right
      refine ⟨h, ?_⟩
      intro he
      apply hany
      rw [List.any_eq_true]
      exact ⟨x, h, by simp [he]⟩
    · left; simpa using h

theorem putNode_names_nodup {l : List NodeObj} {o : NodeObj} (h : (l.map (·.name)).Nodup) : ((putNode l o).map (·.name)).Nodup := by
  unfold putNode
  split
  · have : (l.map (fun x => if x.name == o.name then o else x)).map (·.name) = l.map (·.name) := by
      rw [List.map_map]
      apply List.map_congr_left
      intro x _
      simp only [Function.comp]
      split
      · rename_i he; simp at he; exact he.symm
      · rfl
    rw [this]; exact h
  · rename_i hany
    rw [List.map_append, List.nodup_append]
    refine ⟨h, by simp, ?_⟩
    intro a ha b hb
    simp at hb
    subst hb
    intro he
    subst he
    apply hany
    obtain ⟨y, hy, hyn⟩ := List.mem_map.mp ha
    rw [List.any_eq_true]
    exact ⟨y, hy, by simp [hyn]⟩

theorem delNode_names_nodup {l : List NodeObj} {n : String} (h : (l.map (·.name)).Nodup) : ((delNode l n).map (·.name)).Nodup := by
  unfold delNode
  exact (List.filter_sublist.map _).nodup h


/-! ## the invariant -/

def Claims (a : Alloc) (x : String) (i : Nat) : Prop := ∃ c, a.get? i = some c ∧ x ∈ c.assoc
def UsedAt (a : Alloc) (i : Nat) (cd : Cidr) : Prop :=
  ∃ c p k, a.get? i = some c ∧ c.pool cd.fam = some p ∧ k ∈ p.used ∧ goBlock p.geo k = cd
def Elig (a : Alloc) (i : Nat) (ls : Labels) : Prop :=
  ∃ c, a.get? i = some c ∧ ((matchCIDR c.reqs ls).1 = true ∨ (c.key == defaultKey) = true)
def CidrsDisj (a b : List Cidr) : Prop := ∀ x ∈ a, ∀ y ∈ b, x.fam = y.fam → x.Disjoint y
def RangesDisj (a : Alloc) : Prop :=
  ∀ i j c d f p q, a.get? i = some c → a.get? j = some d → c.pool f = some p → d.pool f = some q → i ≠ j →
    p.geo.range.Disjoint q.geo.range
def Objs (s : Sys) : List NodeObj := s.api.nodes ++ s.nodeView ++ s.api.graves

/-- what all the object-level clauses look at -/
def Sim (o' o : NodeObj) : Prop := o'.name = o.name ∧ o'.labels = o.labels ∧ o'.cidrs = o.cidrs ∧ o'.junk = o.junk

structure ObjInv (objs : List NodeObj) (a : Alloc) : Prop where
  nojunk : ∀ v ∈ objs, v.junk = false
  cidrWF : ∀ v ∈ objs, ∀ cd ∈ v.cidrs, cd.WF
  coh : ∀ v ∈ objs, ∀ w ∈ objs, v.name = w.name → v.cidrs ≠ [] → w.cidrs ≠ [] → v.cidrs = w.cidrs
  lab : ∀ v ∈ objs, ∀ w ∈ objs, v.name = w.name → v.labels = w.labels
  disj : ∀ i j x x', Claims a x i → Claims a x' j → x ≠ x' → ∀ v ∈ objs, ∀ w ∈ objs, v.name = x → w.name = x' →
    CidrsDisj v.cidrs w.cidrs
  elig : ∀ i x, Claims a x i → ∀ v ∈ objs, v.name = x → Elig a i v.labels

structure Inv (s : Sys) : Prop where
  wf : s.alloc.WF
  rd : RangesDisj s.alloc
  nodupApi : (s.api.nodes.map (·.name)).Nodup
  nodupView : (s.nodeView.map (·.name)).Nodup
  nodupGraves : (s.api.graves.map (·.name)).Nodup
  graveOrApi : ∀ v ∈ s.nodeView, (∃ y ∈ s.api.nodes, y.name = v.name) ∨ (∃ g ∈ s.api.graves, g.name = v.name)
  obj : ObjInv (Objs s) s.alloc
  delMono : ∀ v ∈ s.nodeView, ∀ y ∈ s.api.nodes, v.name = y.name → v.deleting = true → y.deleting = true
  gravesFresh : ∀ g ∈ s.api.graves, ∀ y ∈ s.api.nodes, g.name ≠ y.name
  own : ∀ i x, Claims s.alloc x i → ∃ v ∈ s.api.nodes ++ s.api.graves, v.name = x ∧ v.cidrs ≠ [] ∧ ∀ cd ∈ v.cidrs, UsedAt s.alloc i cd
  uniq : ∀ i j x, Claims s.alloc x i → Claims s.alloc x j → i = j
  held : ∀ v ∈ s.api.nodes ++ s.nodeView, v.cidrs ≠ [] →
    (v.deleting = false ∨ ∃ w ∈ s.nodeView, w.name = v.name ∧ w.deleting = false) →
    ∃ i, Claims s.alloc v.name i ∧ ∀ cd ∈ v.cidrs, UsedAt s.alloc i cd
  pend : ∀ i x, Claims s.alloc x i → ∃ v ∈ s.nodeView, v.name = x

theorem ObjInv.of_sim {objs objs' : List NodeObj} {a : Alloc} (h : ObjInv objs a)
    (hs : ∀ o' ∈ objs', ∃ o ∈ objs, Sim o' o) : ObjInv objs' a := by
  constructor
  · intro v hv
    obtain ⟨o, ho, hsim⟩ := hs v hv
    rw [hsim.2.2.2]; exact h.nojunk o ho
  · intro v hv cd hcd
    obtain ⟨o, ho, hsim⟩ := hs v hv
    rw [hsim.2.2.1] at hcd; exact h.cidrWF o ho cd hcd
  · intro v hv w hw hn hv0 hw0
    obtain ⟨o, ho, hsim⟩ := hs v hv
    obtain ⟨o2, ho2, hsim2⟩ := hs w hw
    rw [hsim.2.2.1] at hv0 ⊢
    rw [hsim2.2.2.1] at hw0 ⊢
    exact h.coh o ho o2 ho2 (by rw [← hsim.1, ← hsim2.1]; exact hn) hv0 hw0
  · intro v hv w hw hn
    obtain ⟨o, ho, hsim⟩ := hs v hv
    obtain ⟨o2, ho2, hsim2⟩ := hs w hw
    rw [hsim.2.1, hsim2.2.1]
    exact h.lab o ho o2 ho2 (by rw [← hsim.1, ← hsim2.1]; exact hn)
  · intro i j x x' hc hc' hne v hv w hw hvx hwx
    obtain ⟨o, ho, hsim⟩ := hs v hv
    obtain ⟨o2, ho2, hsim2⟩ := hs w hw
    rw [hsim.2.2.1, hsim2.2.2.1]
    exact h.disj i j x x' hc hc' hne o ho o2 ho2 (by rw [← hsim.1]; exact hvx) (by rw [← hsim2.1]; exact hwx)
  · intro i x hc v hv hvx
    obtain ⟨o, ho, hsim⟩ := hs v hv
    rw [hsim.2.1]
    exact h.elig i x hc o ho (by rw [← hsim.1]; exact hvx)

theorem Sim.refl (o : NodeObj) : Sim o o := ⟨rfl, rfl, rfl, rfl⟩

/-- the goal: existing, not-being-deleted nodes hold pairwise disjoint pod CIDRs -/
def NoOverlap (s : Sys) : Prop :=
  ∀ x ∈ s.api.nodes, ∀ y ∈ s.api.nodes, x.name ≠ y.name → x.deleting = false → y.deleting = false →
    CidrsDisj x.cidrs y.cidrs

theorem Inv.noOverlap {s : Sys} (h : Inv s) : NoOverlap s := by
  intro x hx y hy hne hxd hyd
  by_cases hx0 : x.cidrs = []
  · intro a ha; rw [hx0] at ha; cases ha
  by_cases hy0 : y.cidrs = []
  · intro a _ b hb; rw [hy0] at hb; cases hb
  obtain ⟨i, hci, _⟩ := h.held x (List.mem_append_left _ hx) hx0 (Or.inl hxd)
  obtain ⟨j, hcj, _⟩ := h.held y (List.mem_append_left _ hy) hy0 (Or.inl hyd)
  have hxo : x ∈ Objs s := List.mem_append_left _ (List.mem_append_left _ hx)
  have hyo : y ∈ Objs s := List.mem_append_left _ (List.mem_append_left _ hy)
  exact h.obj.disj i j x.name y.name hci hcj hne x hxo y hyo rfl rfl



theorem Inv.congr {s s' : Sys} (h : Inv s) (ha : s'.api = s.api) (hv : s'.nodeView = s.nodeView) (hal : s'.alloc = s.alloc) :
    Inv s' := by
  obtain ⟨api, nv, cv, al, nq, cq, sv⟩ := s
  obtain ⟨api', nv', cv', al', nq', cq', sv'⟩ := s'
  simp only at ha hv hal
  subst ha hv hal
  exact ⟨h.wf, h.rd, h.nodupApi, h.nodupView, h.nodupGraves, h.graveOrApi, h.obj, h.delMono, h.gravesFresh, h.own, h.uniq, h.held, h.pend⟩

/-! ## events that change only the API objects or the cache -/

theorem ObjInv.subset {objs objs' : List NodeObj} {a : Alloc} (h : ObjInv objs a) (hs : ∀ o ∈ objs', o ∈ objs) : ObjInv objs' a :=
  h.of_sim (fun o ho => ⟨o, hs o ho, Sim.refl o⟩)

/-- adding an object that claims nothing and whose name is unknown and unclaimed -/
theorem ObjInv.cons_fresh {objs : List NodeObj} {a : Alloc} (h : ObjInv objs a) (n : NodeObj)
    (hc : n.cidrs = []) (hj : n.junk = false) (hname : ∀ o ∈ objs, o.name ≠ n.name)
    (hcl : ∀ i, ¬ Claims a n.name i) : ObjInv (n :: objs) a := by
  constructor
  · intro v hv
    rcases List.mem_cons.mp hv with rfl | hv
    · exact hj
    · exact h.nojunk v hv
  · intro v hv cd hcd
    rcases List.mem_cons.mp hv with rfl | hv
    · rw [hc] at hcd; cases hcd
    · exact h.cidrWF v hv cd hcd
  · intro v hv w hw hn hv0 hw0
    rcases List.mem_cons.mp hv with rfl | hv
    · exact absurd hc hv0
    rcases List.mem_cons.mp hw with rfl | hw
    · exact absurd hc hw0
    exact h.coh v hv w hw hn hv0 hw0
  · intro v hv w hw hn
    rcases List.mem_cons.mp hv with hve | hv
    · rcases List.mem_cons.mp hw with hwe | hw
      · rw [hve, hwe]
      · rw [hve] at hn; exact absurd hn.symm (hname w hw)
    · rcases List.mem_cons.mp hw with hwe | hw
      · rw [hwe] at hn; exact absurd hn (hname v hv)
      · exact h.lab v hv w hw hn
  · intro i j x x' hci hcj hne v hv w hw hvx hwx
    rcases List.mem_cons.mp hv with rfl | hv
    · intro p hp; rw [hc] at hp; cases hp
    rcases List.mem_cons.mp hw with rfl | hw
    · intro p _ q hq; rw [hc] at hq; cases hq
    exact h.disj i j x x' hci hcj hne v hv w hw hvx hwx
  · intro i x hci v hv hvx
    rcases List.mem_cons.mp hv with rfl | hv
    · exact absurd (hvx ▸ hci) (hcl i)
    · exact h.elig i x hci v hv hvx

theorem inv_nodeAdd {s : Sys} (h : Inv s) (n : NodeObj) (hc : n.cidrs = []) (hj : n.junk = false)
    (hv : getNode s.nodeView n.name = none) (ha : getNode s.api.nodes n.name = none) :
    Inv (step s (.nodeAdd n)).1 := by
  have hstep : (step s (.nodeAdd n)).1 =
      { s with api := { s.api with nodes := s.api.nodes ++ [n], graves := delNode s.api.graves n.name } } := by
    simp [step, ha]
  rw [hstep]
  have hapi := getNode_none_iff.mp ha
  have hview := getNode_none_iff.mp hv
  have hncl : ∀ i, ¬ Claims s.alloc n.name i := by
    intro i hci
    obtain ⟨v, hvm, hvn⟩ := h.pend i _ hci
    exact hview v hvm hvn
  constructor
  · exact h.wf
  · exact h.rd
  · show ((s.api.nodes ++ [n]).map (·.name)).Nodup
    rw [List.map_append, List.nodup_append]
    refine ⟨h.nodupApi, by simp, ?_⟩
    intro a ha' b hb
    simp at hb; subst hb
    obtain ⟨y, hy, hyn⟩ := List.mem_map.mp ha'
    intro he; exact hapi y hy (hyn.trans he)
  · exact h.nodupView
  · exact delNode_names_nodup h.nodupGraves
  · intro v hvm
    rcases h.graveOrApi v hvm with ⟨y, hy, hyn⟩ | ⟨g, hg, hgn⟩
    · exact Or.inl ⟨y, List.mem_append_left _ hy, hyn⟩
    · exact Or.inr ⟨g, mem_delNode.mpr ⟨hg, fun he => hview v hvm (hgn ▸ he)⟩, hgn⟩
  · -- objects
    have base : ObjInv (s.api.nodes ++ s.nodeView ++ delNode s.api.graves n.name) s.alloc := by
      apply h.obj.subset
      intro o ho
      rcases List.mem_append.mp ho with ho | ho
      · exact List.mem_append_left _ ho
      · exact List.mem_append_right _ (mem_delNode.mp ho).1
    have hfresh := base.cons_fresh n hc hj (by
      intro o ho
      rcases List.mem_append.mp ho with ho | ho
      · rcases List.mem_append.mp ho with ho | ho
        · exact hapi o ho
        · exact hview o ho
      · exact (mem_delNode.mp ho).2) hncl
    apply hfresh.subset
    intro o ho
    show o ∈ n :: (s.api.nodes ++ s.nodeView ++ delNode s.api.graves n.name)
    unfold Objs at ho
    simp only [List.mem_append, List.mem_cons, List.not_mem_nil, or_false] at ho ⊢
    rcases ho with ((ho | ho) | ho) | ho
    · exact Or.inr (Or.inl (Or.inl ho))
    · exact Or.inl ho
    · exact Or.inr (Or.inl (Or.inr ho))
    · exact Or.inr (Or.inr ho)
  · intro v hvm y hy hn hd
    rcases List.mem_append.mp hy with hy | hy
    · exact h.delMono v hvm y hy hn hd
    · simp at hy; subst hy
      exact absurd hn (hview v hvm)
  · intro g hg y hy
    have hg' := mem_delNode.mp hg
    rcases List.mem_append.mp hy with hy | hy
    · exact h.gravesFresh g hg'.1 y hy
    · simp at hy; subst hy; exact hg'.2
  · intro i x hci
    obtain ⟨v, hvm, hvn, hv0, hu⟩ := h.own i x hci
    refine ⟨v, ?_, hvn, hv0, hu⟩
    rcases List.mem_append.mp hvm with hvm | hvm
    · exact List.mem_append_left _ (List.mem_append_left _ hvm)
    · apply List.mem_append_right
      refine mem_delNode.mpr ⟨hvm, ?_⟩
      intro he
      exact hncl i (by rw [← he, hvn]; exact hci)
  · exact h.uniq
  · intro v hvm hv0 hcond
    rcases List.mem_append.mp hvm with hvm | hvm
    · rcases List.mem_append.mp hvm with hvm | hvm
      · exact h.held v (List.mem_append_left _ hvm) hv0 hcond
      · simp at hvm; subst hvm; exact absurd hc hv0
    · exact h.held v (List.mem_append_right _ hvm) hv0 hcond
  · exact h.pend


theorem mem_putNode_self (l : List NodeObj) (o : NodeObj) : o ∈ putNode l o := by
  unfold putNode
  split
  · rename_i hany
    rw [List.any_eq_true] at hany
    obtain ⟨y, hy, hyn⟩ := hany
    apply List.mem_map.mpr
    exact ⟨y, hy, by simp [hyn]⟩
  · simp

theorem mem_putNode_of_ne {l : List NodeObj} {o x : NodeObj} (hx : x ∈ l) (hn : x.name ≠ o.name) : x ∈ putNode l o := by
  unfold putNode
  split
  · apply List.mem_map.mpr
    refine ⟨x, hx, ?_⟩
    have : (x.name == o.name) = false := by simpa using hn
    simp [this]
  · exact List.mem_append_left _ hx

theorem eq_of_nodup_names {l : List NodeObj} (h : (l.map (·.name)).Nodup) {x y : NodeObj} (hx : x ∈ l) (hy : y ∈ l)
    (hn : x.name = y.name) : x = y := by
  induction l with
  | nil => cases hx
  | cons a t ih =>
    rw [List.map_cons, List.nodup_cons] at h
    rcases List.mem_cons.mp hx with hxe | hx
    · rcases List.mem_cons.mp hy with hye | hy
      · rw [hxe, hye]
      · exact absurd (List.mem_map.mpr ⟨y, hy, by rw [← hn, hxe]⟩) h.1
    · rcases List.mem_cons.mp hy with hye | hy
      · exact absurd (List.mem_map.mpr ⟨x, hx, by rw [hn, hye]⟩) h.1
      · exact ih h.2 hx hy

theorem inv_nodeDel {s : Sys} (h : Inv s) (name : String) : Inv (step s (.nodeDel name)).1 := by
  cases hg : getNode s.api.nodes name with
  | none =>
    have : (step s (.nodeDel name)).1 = s := by simp [step, hg]
    rw [this]; exact h
  | some y =>
    have hstep : (step s (.nodeDel name)).1 =
        { s with api := { s.api with nodes := delNode s.api.nodes name, graves := putNode s.api.graves y } } := by
      simp [step, hg]
    rw [hstep]
    obtain ⟨hym, hyn⟩ := mem_of_getNode hg
    constructor
    · exact h.wf
    · exact h.rd
    · exact delNode_names_nodup h.nodupApi
    · exact h.nodupView
    · exact putNode_names_nodup h.nodupGraves
    · intro v hvm
      rcases h.graveOrApi v hvm with ⟨z, hz, hzn⟩ | ⟨g, hgm, hgn⟩
      · by_cases he : z.name = name
        · have : z = y := eq_of_nodup_names h.nodupApi hz hym (he.trans hyn.symm)
          exact Or.inr ⟨y, mem_putNode_self _ _, this ▸ hzn⟩
        · exact Or.inl ⟨z, mem_delNode.mpr ⟨hz, he⟩, hzn⟩
      · by_cases he : g.name = y.name
        · exact Or.inr ⟨y, mem_putNode_self _ _, he ▸ hgn⟩
        · exact Or.inr ⟨g, mem_putNode_of_ne hgm he, hgn⟩
    · apply h.obj.subset
      intro o ho
      unfold Objs at ho ⊢
      simp only [List.mem_append] at ho ⊢
      rcases ho with (ho | ho) | ho
      · exact Or.inl (Or.inl (mem_delNode.mp ho).1)
      · exact Or.inl (Or.inr ho)
      · rcases mem_putNode ho with rfl | ⟨ho, _⟩
        · exact Or.inl (Or.inl hym)
        · exact Or.inr ho
    · intro v hv z hz hn hd
      exact h.delMono v hv z (mem_delNode.mp hz).1 hn hd
    · intro g hgm z hz
      have hz' := mem_delNode.mp hz
      rcases mem_putNode hgm with rfl | ⟨hgm, _⟩
      · intro he; exact hz'.2 (he ▸ hyn)
      · exact h.gravesFresh g hgm z hz'.1
    · intro i x hci
      obtain ⟨v, hvm, hvn, hv0, hu⟩ := h.own i x hci
      refine ⟨v, ?_, hvn, hv0, hu⟩
      show v ∈ delNode s.api.nodes name ++ putNode s.api.graves y
      rcases List.mem_append.mp hvm with hvm | hvm
      · by_cases he : v.name = name
        · have : v = y := eq_of_nodup_names h.nodupApi hvm hym (he.trans hyn.symm)
          rw [this]
          exact List.mem_append_right _ (mem_putNode_self _ _)
        · exact List.mem_append_left _ (mem_delNode.mpr ⟨hvm, he⟩)
      · exact List.mem_append_right _ (mem_putNode_of_ne hvm (h.gravesFresh v hvm y hym))
    · exact h.uniq
    · intro v hvm hv0 hcond
      apply h.held v _ hv0 hcond
      rcases List.mem_append.mp hvm with hvm | hvm
      · exact List.mem_append_left _ (mem_delNode.mp hvm).1
      · exact List.mem_append_right _ hvm
    · exact h.pend


theorem inv_nodeDeleting {s : Sys} (h : Inv s) (name : String) : Inv (step s (.nodeDeleting name)).1 := by
  cases hg : getNode s.api.nodes name with
  | none =>
    have : (step s (.nodeDeleting name)).1 = s := by simp [step, hg]
    rw [this]; exact h
  | some y =>
    have hstep : (step s (.nodeDeleting name)).1 =
        { s with api := { s.api with nodes := putNode s.api.nodes { y with deleting := true } } } := by
      simp [step, hg]
    rw [hstep]
    obtain ⟨hym, hyn⟩ := mem_of_getNode hg
    have hsim : Sim { y with deleting := true } y := ⟨rfl, rfl, rfl, rfl⟩
    constructor
    · exact h.wf
    · exact h.rd
    · exact putNode_names_nodup h.nodupApi
    · exact h.nodupView
    · exact h.nodupGraves
    · intro v hvm
      rcases h.graveOrApi v hvm with ⟨z, hz, hzn⟩ | hgr
      · by_cases he : z.name = y.name
        · exact Or.inl ⟨{ y with deleting := true }, mem_putNode_self _ _, he ▸ hzn⟩
        · exact Or.inl ⟨z, mem_putNode_of_ne hz he, hzn⟩
      · exact Or.inr hgr
    · apply h.obj.of_sim
      intro o ho
      unfold Objs at ho ⊢
      simp only [List.mem_append] at ho ⊢
      rcases ho with (ho | ho) | ho
      · rcases mem_putNode ho with rfl | ⟨ho, _⟩
        · exact ⟨y, Or.inl (Or.inl hym), hsim⟩
        · exact ⟨o, Or.inl (Or.inl ho), Sim.refl o⟩
      · exact ⟨o, Or.inl (Or.inr ho), Sim.refl o⟩
      · exact ⟨o, Or.inr ho, Sim.refl o⟩
    · intro v hv z hz hn hd
      rcases mem_putNode hz with rfl | ⟨hz, _⟩
      · rfl
      · exact h.delMono v hv z hz hn hd
    · intro g hgm z hz
      rcases mem_putNode hz with rfl | ⟨hz, _⟩
      · exact h.gravesFresh g hgm y hym
      · exact h.gravesFresh g hgm z hz
    · intro i x hci
      obtain ⟨v, hvm, hvn, hv0, hu⟩ := h.own i x hci
      rcases List.mem_append.mp hvm with hvm | hvm
      · by_cases he : v.name = y.name
        · have : v = y := eq_of_nodup_names h.nodupApi hvm hym he
          subst this
          exact ⟨{ v with deleting := true }, List.mem_append_left _ (mem_putNode_self _ _), hvn, hv0, hu⟩
        · exact ⟨v, List.mem_append_left _ (mem_putNode_of_ne hvm he), hvn, hv0, hu⟩
      · exact ⟨v, List.mem_append_right _ hvm, hvn, hv0, hu⟩
    · exact h.uniq
    · intro v hvm hv0 hcond
      rcases List.mem_append.mp hvm with hvm | hvm
      · rcases mem_putNode hvm with rfl | ⟨hvm, _⟩
        · rcases hcond with hd | hw
          · cases hd
          · exact h.held y (List.mem_append_left _ hym) hv0 (Or.inr hw)
        · exact h.held v (List.mem_append_left _ hvm) hv0 hcond
      · exact h.held v (List.mem_append_right _ hvm) hv0 hcond
    · exact h.pend

/-- the cache takes the current API state of an object that exists -/
theorem inv_view_put {s : Sys} (h : Inv s) (name : String) (cur : NodeObj)
    (hg : getNode s.api.nodes name = some cur) : Inv { s with nodeView := putNode s.nodeView cur } := by
  obtain ⟨hcm, hcn⟩ := mem_of_getNode hg
  constructor
  · exact h.wf
  · exact h.rd
  · exact h.nodupApi
  · exact putNode_names_nodup h.nodupView
  · exact h.nodupGraves
  · intro v hvm
    rcases mem_putNode hvm with rfl | ⟨hvm, _⟩
    · exact Or.inl ⟨v, hcm, rfl⟩
    · exact h.graveOrApi v hvm
  · apply h.obj.subset
    intro o ho
    unfold Objs at ho ⊢
    simp only [List.mem_append] at ho ⊢
    rcases ho with (ho | ho) | ho
    · exact Or.inl (Or.inl ho)
    · rcases mem_putNode ho with rfl | ⟨ho, _⟩
      · exact Or.inl (Or.inl hcm)
      · exact Or.inl (Or.inr ho)
    · exact Or.inr ho
  · intro v hv z hz hn hd
    rcases mem_putNode hv with rfl | ⟨hv, _⟩
    · have : v = z := eq_of_nodup_names h.nodupApi hcm hz hn
      rw [← this]; exact hd
    · exact h.delMono v hv z hz hn hd
  · exact h.gravesFresh
  · exact h.own
  · exact h.uniq
  · intro v hvm hv0 hcond
    -- the condition, read in the old cache
    have hcond' : ∀ u ∈ s.api.nodes ++ s.nodeView, u.name = v.name → u.deleting = v.deleting →
        (v.deleting = false ∨ ∃ w ∈ putNode s.nodeView cur, w.name = v.name ∧ w.deleting = false) →
        (u.deleting = false ∨ ∃ w ∈ s.nodeView, w.name = u.name ∧ w.deleting = false) := by
      intro u _ hun hud hc
      rcases hc with hd | ⟨w, hw, hwn, hwd⟩
      · exact Or.inl (hud ▸ hd)
      · rcases mem_putNode hw with rfl | ⟨hw, _⟩
        · -- the fresh cache entry is the API object itself
          left
          by_cases hvapi : v ∈ s.api.nodes
          · have : w = v := eq_of_nodup_names h.nodupApi hcm hvapi hwn
            rw [hud, ← this]; exact hwd
          · rcases List.mem_append.mp hvm with hvm | hvm
            · exact absurd hvm hvapi
            · rcases mem_putNode hvm with rfl | ⟨hvm, hvne⟩
              · rw [hud]; exact hwd
              · exact absurd hwn.symm hvne
        · exact Or.inr ⟨w, hw, hwn.trans hun.symm, hwd⟩
    rcases List.mem_append.mp hvm with hvm' | hvm'
    · exact h.held v (List.mem_append_left _ hvm') hv0 (hcond' v (List.mem_append_left _ hvm') rfl rfl hcond)
    · rcases mem_putNode hvm' with rfl | ⟨hvm', _⟩
      · exact h.held v (List.mem_append_left _ hcm) hv0 (hcond' v (List.mem_append_left _ hcm) rfl rfl hcond)
      · exact h.held v (List.mem_append_right _ hvm') hv0 (hcond' v (List.mem_append_right _ hvm') rfl rfl hcond)
  · intro i x hci
    obtain ⟨v, hvm, hvn⟩ := h.pend i x hci
    by_cases he : v.name = cur.name
    · exact ⟨cur, mem_putNode_self _ _, he ▸ hvn⟩
    · exact ⟨v, mem_putNode_of_ne hvm he, hvn⟩

/-- a notification for an object that exists -/
theorem inv_deliver_present {s : Sys} (h : Inv s) (name : String) (tomb : Bool) (cur : NodeObj)
    (hg : getNode s.api.nodes name = some cur) : Inv (step s (.deliverNode name tomb)).1 := by
  have hstep : (step s (.deliverNode name tomb)).1 =
      { s with nodeView := putNode s.nodeView cur, nodeQ := qAdd s.nodeQ name } := by
    simp [step, hg]
  rw [hstep]
  exact (inv_view_put h name cur hg).congr rfl rfl rfl


/-! ## the allocator state only grows (associations untouched) -/

theorem allocLe_get_rev {a a' : Alloc} (h : AllocLe a a') {i : Nat} {c' : CC} (hg : a'.get? i = some c') :
    ∃ c, a.get? i = some c ∧ CCLe c c' := by
  have hlt : i < a'.ccs.length := by
    unfold Alloc.get? at hg
    exact (List.getElem?_eq_some_iff.mp hg).1
  rw [h.1] at hlt
  have : a.get? i = some (a.ccs[i]) := by unfold Alloc.get?; exact List.getElem?_eq_getElem hlt
  obtain ⟨c'', hc'', hle⟩ := h.2 i _ this
  rw [hg] at hc''; cases hc''
  exact ⟨_, this, hle⟩

theorem claims_le {a a' : Alloc} (h : AllocLe a a') (x : String) (i : Nat) : Claims a' x i ↔ Claims a x i := by
  constructor
  · rintro ⟨c', hg, hx⟩
    obtain ⟨c, hc, hle⟩ := allocLe_get_rev h hg
    exact ⟨c, hc, by rw [← hle.2.2.2.1]; exact hx⟩
  · rintro ⟨c, hg, hx⟩
    obtain ⟨c', hc', hle⟩ := h.2 i c hg
    exact ⟨c', hc', by rw [hle.2.2.2.1]; exact hx⟩

theorem usedAt_le {a a' : Alloc} (h : AllocLe a a') {i : Nat} {cd : Cidr} (hu : UsedAt a i cd) : UsedAt a' i cd := by
  obtain ⟨c, p, k, hg, hp, hk, hb⟩ := hu
  obtain ⟨c', hc', hle⟩ := h.2 i c hg
  have hpl := hle.2.2.2.2.2 cd.fam
  rw [hp] at hpl
  cases hp' : c'.pool cd.fam with
  | none => rw [hp'] at hpl; exact hpl.elim
  | some p' =>
    rw [hp'] at hpl
    exact ⟨c', p', k, hc', hp', hpl.2.2 k hk, by rw [hpl.1]; exact hb⟩

theorem elig_le {a a' : Alloc} (h : AllocLe a a') {i : Nat} {ls : Labels} (he : Elig a i ls) : Elig a' i ls := by
  obtain ⟨c, hg, hm⟩ := he
  obtain ⟨c', hc', hle⟩ := h.2 i c hg
  exact ⟨c', hc', by rw [hle.2.1, hle.1]; exact hm⟩

theorem rangesDisj_le {a a' : Alloc} (h : AllocLe a a') (hr : RangesDisj a) : RangesDisj a' := by
  intro i j c' d' f p' q' hi hj hp hq hne
  obtain ⟨c, hc, hlec⟩ := allocLe_get_rev h hi
  obtain ⟨d, hd, hled⟩ := allocLe_get_rev h hj
  have h1 := hlec.2.2.2.2.2 f
  have h2 := hled.2.2.2.2.2 f
  rw [hp] at h1; rw [hq] at h2
  cases hcp : c.pool f with
  | none => rw [hcp] at h1; exact h1.elim
  | some p =>
    cases hdq : d.pool f with
    | none => rw [hdq] at h2; exact h2.elim
    | some q =>
      rw [hcp] at h1; rw [hdq] at h2
      rw [h1.1, h2.1]
      exact hr i j c d f p q hc hd hcp hdq hne

theorem objInv_le {objs : List NodeObj} {a a' : Alloc} (h : AllocLe a a') (ho : ObjInv objs a) : ObjInv objs a' := by
  refine ⟨ho.nojunk, ho.cidrWF, ho.coh, ho.lab, ?_, ?_⟩
  · intro i j x x' hc hc' hne
    exact ho.disj i j x x' ((claims_le h x i).mp hc) ((claims_le h x' j).mp hc') hne
  · intro i x hc v hv hvx
    exact elig_le h (ho.elig i x ((claims_le h x i).mp hc) v hv hvx)

/-- the allocator state grew (or only cursors moved), nothing else changed -/
theorem inv_alloc_grow {s : Sys} (h : Inv s) (a' : Alloc) (hle : AllocLe s.alloc a') (hwf : a'.WF) :
    Inv { s with alloc := a' } := by
  constructor
  · exact hwf
  · exact rangesDisj_le hle h.rd
  · exact h.nodupApi
  · exact h.nodupView
  · exact h.nodupGraves
  · exact h.graveOrApi
  · exact objInv_le hle h.obj
  · exact h.delMono
  · exact h.gravesFresh
  · intro i x hc
    obtain ⟨v, hv, hvn, hv0, hu⟩ := h.own i x ((claims_le hle x i).mp hc)
    exact ⟨v, hv, hvn, hv0, fun cd hcd => usedAt_le hle (hu cd hcd)⟩
  · intro i j x hc hc'
    exact h.uniq i j x ((claims_le hle x i).mp hc) ((claims_le hle x j).mp hc')
  · intro v hv hv0 hcond
    obtain ⟨i, hc, hu⟩ := h.held v hv hv0 hcond
    exact ⟨i, (claims_le hle _ i).mpr hc, fun cd hcd => usedAt_le hle (hu cd hcd)⟩
  · intro i x hc
    exact h.pend i x ((claims_le hle x i).mp hc)


/-! ## releasing -/

theorem cc_release_spec {c c' : CC} (hc : c.WF) {cd : Cidr} (hcd : cd.WF) (h : c.release cd = some c') :
    ∃ p p', c.pool cd.fam = some p ∧ c' = c.setPool cd.fam p' ∧ PoolOK cd.fam p' ∧ PoolLe p' p ∧
      ∀ k, k ∈ p.used → (goBlock p.geo k).Disjoint cd → k ∈ p'.used := by
  unfold CC.release at h
  cases hp : c.pool cd.fam with
  | none => rw [hp] at h; cases h
  | some p =>
    rw [hp] at h
    simp only at h
    cases hr : p.release cd with
    | none => rw [hr] at h; cases h
    | some p' =>
      rw [hr] at h
      cases h
      have hok := hc _ p hp
      obtain ⟨hI, hg, _, hl, hm⟩ := (C14.release_refines hok.2.1 hok.1 hcd).2 p' hr
      refine ⟨p, p', rfl, rfl, ⟨hI, hg ▸ hok.2.1, hg ▸ hok.2.2⟩, ⟨hg.symm, hl.symm, fun k hk => ((hm k).mp hk).1⟩, ?_⟩
      intro k hk hd
      exact (hm k).mpr ⟨hk, fun ht => ht.2 hd⟩

theorem releaseAll_spec (i : Nat) : ∀ (cs : List Cidr) (a : Alloc), a.WF → (∀ cd ∈ cs, cd.WF) →
    ∀ a' ok, a.releaseAll i cs = (a', ok) →
      a'.WF ∧ AllocLe a' a ∧
      (∀ j cd, UsedAt a j cd → (j ≠ i ∨ ∀ c ∈ cs, c.fam = cd.fam → cd.Disjoint c) → UsedAt a' j cd) := by
  intro cs
  induction cs with
  | nil =>
    intro a ha _ a' ok h
    simp only [Alloc.releaseAll, Prod.mk.injEq] at h
    obtain ⟨rfl, _⟩ := h
    exact ⟨ha, AllocLe.refl _, fun j cd hu _ => hu⟩
  | cons c0 rest ih =>
    intro a ha hw a' ok h
    unfold Alloc.releaseAll at h
    cases hg : a.get? i with
    | none =>
      rw [hg] at h
      simp only [Prod.mk.injEq] at h
      obtain ⟨rfl, _⟩ := h
      exact ⟨ha, AllocLe.refl _, fun j cd hu _ => hu⟩
    | some c =>
      rw [hg] at h
      simp only at h
      cases hr : c.release c0 with
      | none =>
        rw [hr] at h
        simp only [Prod.mk.injEq] at h
        obtain ⟨rfl, _⟩ := h
        exact ⟨ha, AllocLe.refl _, fun j cd hu _ => hu⟩
      | some c' =>
        rw [hr] at h
        simp only at h
        have hc0 := hw c0 (List.mem_cons_self ..)
        obtain ⟨p, p', hp, hc', hok', hle, hkeep⟩ := cc_release_spec (ha i c hg) hc0 hr
        have hwf1 : (a.set i c').WF := Alloc.WF_set ha (hc' ▸ CC.WF_setPool (ha i c hg) hok')
        obtain ⟨hwf2, hle2, hu2⟩ := ih (a.set i c') hwf1 (fun cd hcd => hw cd (List.mem_cons_of_mem _ hcd)) a' ok h
        have hle1 : AllocLe (a.set i c') a := hc' ▸ AllocLe_set_rev hg hp hle
        refine ⟨hwf2, AllocLe.trans hle2 hle1, ?_⟩
        intro j cd hu hcond
        apply hu2 j cd
        · -- survives the first release
          obtain ⟨d, q, k, hd, hq, hk, hb⟩ := hu
          by_cases hji : j = i
          · subst hji
            rw [hg] at hd; cases hd
            by_cases hf : cd.fam = c0.fam
            · rw [hf, hp] at hq; cases hq
              have hdis : (goBlock p.geo k).Disjoint c0 := by
                rcases hcond with hcond | hcond
                · exact absurd rfl hcond
                · rw [hb]; exact hcond c0 (List.mem_cons_self ..) hf.symm
              refine ⟨c', p', k, Alloc.get?_set_self _ _ _ _ hg, ?_, hkeep k hk hdis, by rw [← hle.1]; exact hb⟩
              rw [hc', hf]; exact CC.pool_setPool_same _ _ _
            · refine ⟨c', q, k, Alloc.get?_set_self _ _ _ _ hg, ?_, hk, hb⟩
              rw [hc', CC.pool_setPool_other _ _ _ _ hf]; exact hq
          · exact ⟨d, q, k, by rw [Alloc.get?_set_ne _ _ _ _ (Ne.symm hji)]; exact hd, hq, hk, hb⟩
        · rcases hcond with hcond | hcond
          · exact Or.inl hcond
          · exact Or.inr (fun c hc => hcond c (List.mem_cons_of_mem _ hc))

/-- every CIDR of the list lies inside a range of entry `i`: releasing them cannot fail -/
theorem releaseAll_ok (i : Nat) : ∀ (cs : List Cidr) (a : Alloc), a.WF →
    (∀ cd ∈ cs, cd.WF ∧ ∃ c p, a.get? i = some c ∧ c.pool cd.fam = some p ∧ ¬ cd.Disjoint p.geo.range) →
    (a.releaseAll i cs).2 = true := by
  intro cs
  induction cs with
  | nil => intro a _ _; rfl
  | cons c0 rest ih =>
    intro a ha hall
    obtain ⟨hc0, c, p, hg, hp, hnd⟩ := hall c0 (List.mem_cons_self ..)
    unfold Alloc.releaseAll
    rw [hg]
    simp only
    have hok := ha i c hg _ p hp
    have hsome : p.release c0 ≠ none := by
      intro hn
      rcases ((C14.release_refines hok.2.1 hok.1 hc0).1).mp hn with h | h
      · exact h hok.2.2.symm
      · exact hnd h
    cases hr : p.release c0 with
    | none => exact absurd hr hsome
    | some p' =>
      have hcr : c.release c0 = some (c.setPool c0.fam p') := CC.release_of_pool rfl hp hr
      rw [hcr]
      simp only
      obtain ⟨hI, hgeo, _, _, _⟩ := (C14.release_refines hok.2.1 hok.1 hc0).2 p' hr
      have hok' : PoolOK c0.fam p' := ⟨hI, hgeo ▸ hok.2.1, hgeo ▸ hok.2.2⟩
      apply ih (a.set i (c.setPool c0.fam p')) (Alloc.WF_set ha (CC.WF_setPool (ha i c hg) hok'))
      intro cd hcd
      obtain ⟨hcdw, d, q, hd, hq, hndq⟩ := hall cd (List.mem_cons_of_mem _ hcd)
      rw [hg] at hd; cases hd
      refine ⟨hcdw, c.setPool c0.fam p', ?_⟩
      by_cases hf : cd.fam = c0.fam
      · rw [hf, hp] at hq; cases hq
        exact ⟨p', Alloc.get?_set_self _ _ _ _ hg, by rw [hf]; exact CC.pool_setPool_same _ _ _, by rw [hgeo]; exact hndq⟩
      · exact ⟨q, Alloc.get?_set_self _ _ _ _ hg, by rw [CC.pool_setPool_other _ _ _ _ hf]; exact hq, hndq⟩


theorem mem_indexed {a : Alloc} {i : Nat} {c : CC} : (i, c) ∈ a.indexed ↔ a.get? i = some c := by
  unfold Alloc.indexed Alloc.get?
  constructor
  · intro h
    obtain ⟨⟨d, j⟩, hm, he⟩ := List.mem_map.mp h
    simp only [Prod.mk.injEq] at he
    obtain ⟨rfl, rfl⟩ := he
    rw [List.mem_zipIdx_iff_getElem?] at hm
    simpa using hm
  · intro h
    apply List.mem_map.mpr
    refine ⟨(c, i), ?_, rfl⟩
    rw [List.mem_zipIdx_iff_getElem?]
    simpa using h

/-- for a release every entry whose selector the labels satisfy (or that is filed under the catch-all key)
is in the list, terminating or not -/
theorem mem_ordered_false_of_elig {a : Alloc} {i : Nat} {ls : Labels} (h : Elig a i ls) : i ∈ a.ordered ls false := by
  obtain ⟨c, hg, hm⟩ := h
  unfold Alloc.ordered
  have hperm : ∀ (l : List PQItem) (x : PQItem), x ∈ l → x ∈ pqSort l :=
    fun l x hx => (C07.pqSort_perm l).mem_iff.mpr hx
  rw [List.mem_append]
  rcases hm with hm | hm
  · left
    apply List.mem_map.mpr
    refine ⟨c.item i (matchCIDR c.reqs ls).2, hperm _ _ ?_, rfl⟩
    apply List.mem_filterMap.mpr
    refine ⟨(i, c), mem_indexed.mpr hg, ?_⟩
    simp [hm]
  · right
    apply List.mem_map.mpr
    refine ⟨c.item i 0, hperm _ _ ?_, rfl⟩
    apply List.mem_filterMap.mpr
    refine ⟨(i, c), mem_indexed.mpr hg, ?_⟩
    simp [hm]

theorem allocatedCC_some {a : Alloc} {x : String} : ∀ (l : List Nat) {i : Nat}, a.allocatedCC x l = some i → Claims a x i := by
  intro l
  induction l with
  | nil => intro i h; cases h
  | cons j rest ih =>
    intro i h
    unfold Alloc.allocatedCC at h
    cases hg : a.get? j with
    | none => rw [hg] at h; exact ih h
    | some c =>
      rw [hg] at h
      simp only at h
      split at h
      · rename_i hc
        cases h
        exact ⟨c, hg, by simpa using hc⟩
      · exact ih h

theorem allocatedCC_none {a : Alloc} {x : String} : ∀ (l : List Nat), a.allocatedCC x l = none → ∀ i ∈ l, ¬ Claims a x i := by
  intro l
  induction l with
  | nil => intro _ i hi; cases hi
  | cons j rest ih =>
    intro h i hi
    unfold Alloc.allocatedCC at h
    cases hg : a.get? j with
    | none =>
      rw [hg] at h
      rcases List.mem_cons.mp hi with rfl | hi
      · rintro ⟨c, hc, _⟩; rw [hg] at hc; cases hc
      · exact ih h i hi
    | some c =>
      rw [hg] at h
      simp only at h
      split at h
      · cases h
      · rename_i hc
        rcases List.mem_cons.mp hi with rfl | hi
        · rintro ⟨c', hc', hx⟩
          rw [hg] at hc'; cases hc'
          exact hc (by simpa using hx)
        · exact ih h i hi


/-- what a release of node `x` with CIDRs `cs` may do to the allocator state -/
structure Released (a a' : Alloc) (x : String) (cs : List Cidr) : Prop where
  wf : a'.WF
  len : a'.ccs.length = a.ccs.length
  stat : ∀ j c', a'.get? j = some c' → ∃ c, a.get? j = some c ∧ c'.key = c.key ∧ c'.reqs = c.reqs ∧
    (∀ g, OptPoolLe (c'.pool g) (c.pool g)) ∧ (∀ y, y ∈ c'.assoc → y ∈ c.assoc) ∧ (∀ y, y ∈ c.assoc → y ≠ x → y ∈ c'.assoc)
  used : ∀ j cd, UsedAt a j cd → (∀ c ∈ cs, c.fam = cd.fam → cd.Disjoint c) → UsedAt a' j cd

theorem Released.refl {a : Alloc} (ha : a.WF) (x : String) (cs : List Cidr) : Released a a x cs :=
  ⟨ha, rfl, fun j c' h => ⟨c', h, rfl, rfl, fun g => OptPoolLe.refl _, fun _ hy => hy, fun _ hy _ => hy⟩, fun _ _ hu _ => hu⟩

theorem Released.of_le {a a' : Alloc} (hwf : a'.WF) (hle : AllocLe a' a) (x : String) (cs : List Cidr)
    (hu : ∀ j cd, UsedAt a j cd → (∀ c ∈ cs, c.fam = cd.fam → cd.Disjoint c) → UsedAt a' j cd) : Released a a' x cs := by
  refine ⟨hwf, hle.1.symm, ?_, hu⟩
  intro j c' hg
  obtain ⟨c, hc, hcle⟩ := hle.2 j c' hg
  exact ⟨c, hc, hcle.1.symm, hcle.2.1.symm, hcle.2.2.2.2.2, fun y hy => by rw [hcle.2.2.2.1]; exact hy,
    fun y hy _ => by rw [hcle.2.2.2.1] at hy; exact hy⟩

theorem delAssoc_pool (c : CC) (x : String) (g : Fam) : (c.delAssoc x).pool g = c.pool g := by
  unfold CC.delAssoc CC.pool; cases g <;> rfl

theorem mem_delAssoc {c : CC} {x y : String} : y ∈ (c.delAssoc x).assoc ↔ y ∈ c.assoc ∧ y ≠ x := by
  unfold CC.delAssoc
  simp [List.mem_filter]

theorem releaseNode_released {a : Alloc} (ha : a.WF) {x : String} {ls : Labels} {cs : List Cidr} (hcs : ∀ cd ∈ cs, cd.WF)
    {a' : Alloc} {ok : Bool} (h : a.releaseNode x ls cs = (a', ok)) : Released a a' x cs := by
  unfold Alloc.releaseNode at h
  cases hcc : a.allocatedCC x (a.ordered ls false) with
  | none =>
    rw [hcc] at h
    simp only [Prod.mk.injEq] at h
    obtain ⟨rfl, _⟩ := h
    exact Released.refl ha x cs
  | some i =>
    rw [hcc] at h
    simp only at h
    cases hra : a.releaseAll i cs with
    | mk a1 okk =>
      rw [hra] at h
      obtain ⟨hwf1, hle1, hu1⟩ := releaseAll_spec i cs a ha hcs a1 okk hra
      have hrel1 : Released a a1 x cs := Released.of_le hwf1 hle1 x cs (fun j cd hu hd => hu1 j cd hu (Or.inr hd))
      cases okk with
      | false =>
        simp only [Prod.mk.injEq] at h
        obtain ⟨rfl, _⟩ := h
        exact hrel1
      | true =>
        simp only at h
        cases hg : a1.get? i with
        | none =>
          rw [hg] at h
          simp only [Prod.mk.injEq] at h
          obtain ⟨rfl, _⟩ := h
          exact hrel1
        | some c =>
          rw [hg] at h
          simp only [Prod.mk.injEq] at h
          obtain ⟨rfl, _⟩ := h
          refine ⟨?_, ?_, ?_, ?_⟩
          · apply Alloc.WF_set hwf1
            intro g p hp
            rw [delAssoc_pool] at hp
            exact hwf1 i c hg g p hp
          · simp [Alloc.set, hrel1.len]
          · intro j c' hj
            by_cases hij : i = j
            · subst hij
              rw [Alloc.get?_set_self _ _ _ _ hg] at hj; cases hj
              obtain ⟨c0, hc0, hk, hr, hp, has, _⟩ := hrel1.stat i c hg
              refine ⟨c0, hc0, hk, hr, fun g => by rw [delAssoc_pool]; exact hp g, ?_, ?_⟩
              · intro y hy; exact has y (mem_delAssoc.mp hy).1
              · intro y hy hne
                have := hle1.2 i c hg
                obtain ⟨c0', hc0', hcle⟩ := this
                rw [hc0] at hc0'; cases hc0'
                exact mem_delAssoc.mpr ⟨by rw [← hcle.2.2.2.1]; exact hy, hne⟩
            · rw [Alloc.get?_set_ne _ _ _ _ hij] at hj
              exact hrel1.stat j c' hj
          · intro j cd hu hd
            obtain ⟨d, q, k, hd1, hq, hk, hb⟩ := hrel1.used j cd hu hd
            by_cases hij : i = j
            · subst hij
              rw [hg] at hd1; cases hd1
              exact ⟨c.delAssoc x, q, k, Alloc.get?_set_self _ _ _ _ hg, by rw [delAssoc_pool]; exact hq, hk, hb⟩
            · exact ⟨d, q, k, by rw [Alloc.get?_set_ne _ _ _ _ hij]; exact hd1, hq, hk, hb⟩


theorem Released.claims_sub {a a' : Alloc} {x : String} {cs : List Cidr} (h : Released a a' x cs) {y : String} {j : Nat}
    (hc : Claims a' y j) : Claims a y j := by
  obtain ⟨c', hg, hy⟩ := hc
  obtain ⟨c, hc, _, _, _, has, _⟩ := h.stat j c' hg
  exact ⟨c, hc, has y hy⟩

theorem Released.get_fwd {a a' : Alloc} {x : String} {cs : List Cidr} (h : Released a a' x cs) {j : Nat} {c : CC}
    (hg : a.get? j = some c) : ∃ c', a'.get? j = some c' := by
  have hlt : j < a.ccs.length := by
    unfold Alloc.get? at hg
    exact (List.getElem?_eq_some_iff.mp hg).1
  rw [← h.len] at hlt
  exact ⟨a'.ccs[j], by unfold Alloc.get?; exact List.getElem?_eq_getElem hlt⟩

theorem Released.claims_keep {a a' : Alloc} {x : String} {cs : List Cidr} (h : Released a a' x cs) {y : String} {j : Nat}
    (hc : Claims a y j) (hne : y ≠ x) : Claims a' y j := by
  obtain ⟨c, hg, hy⟩ := hc
  obtain ⟨c', hg'⟩ := h.get_fwd hg
  obtain ⟨c0, hc0, _, _, _, _, hkeep⟩ := h.stat j c' hg'
  rw [hg] at hc0; cases hc0
  exact ⟨c', hg', hkeep y hy hne⟩

theorem Released.elig {a a' : Alloc} {x : String} {cs : List Cidr} (h : Released a a' x cs) {j : Nat} {ls : Labels}
    (he : Elig a j ls) : Elig a' j ls := by
  obtain ⟨c, hg, hm⟩ := he
  obtain ⟨c', hg'⟩ := h.get_fwd hg
  obtain ⟨c0, hc0, hk, hr, _⟩ := h.stat j c' hg'
  rw [hg] at hc0; cases hc0
  exact ⟨c', hg', by rw [hr, hk]; exact hm⟩

theorem Released.rangesDisj {a a' : Alloc} {x : String} {cs : List Cidr} (h : Released a a' x cs) (hr : RangesDisj a) :
    RangesDisj a' := by
  intro i j c' d' f p' q' hi hj hp hq hne
  obtain ⟨c, hc, _, _, hpc, _⟩ := h.stat i c' hi
  obtain ⟨d, hd, _, _, hpd, _⟩ := h.stat j d' hj
  have h1 := hpc f
  have h2 := hpd f
  rw [hp] at h1; rw [hq] at h2
  cases hcp : c.pool f with
  | none => rw [hcp] at h1; exact h1.elim
  | some p =>
    cases hdq : d.pool f with
    | none => rw [hdq] at h2; exact h2.elim
    | some q =>
      rw [hcp] at h1; rw [hdq] at h2
      rw [← h1.1, ← h2.1]
      exact hr i j c d f p q hc hd hcp hdq hne

/-- after the release the node is associated with nothing: either it was not (and the release changed nothing
it could be associated through), or its one association was found, all its CIDRs lie in that entry, and the
release went through -/
theorem releaseNode_unclaims {a : Alloc} (ha : a.WF) {x : String} {ls : Labels} {cs : List Cidr} (hcs : ∀ cd ∈ cs, cd.WF)
    (huniq : ∀ i j, Claims a x i → Claims a x j → i = j)
    (hel : ∀ i, Claims a x i → Elig a i ls)
    (hin : ∀ i, Claims a x i → ∀ cd ∈ cs, UsedAt a i cd)
    {a' : Alloc} {ok : Bool} (h : a.releaseNode x ls cs = (a', ok)) : ∀ j, ¬ Claims a' x j := by
  have hrel := releaseNode_released ha hcs h
  intro j hj
  have hja := hrel.claims_sub hj
  -- `x` was associated with entry `j` (the only one)
  unfold Alloc.releaseNode at h
  cases hcc : a.allocatedCC x (a.ordered ls false) with
  | none =>
    exact allocatedCC_none _ hcc j (mem_ordered_false_of_elig (hel j hja)) hja
  | some i =>
    have hci := allocatedCC_some _ hcc
    have hij : i = j := huniq i j hci hja
    subst hij
    rw [hcc] at h
    simp only at h
    have hokk : (a.releaseAll i cs).2 = true := by
      apply releaseAll_ok i cs a ha
      intro cd hcd
      refine ⟨hcs cd hcd, ?_⟩
      obtain ⟨c, p, k, hg, hp, hk, hb⟩ := hin i hci cd hcd
      refine ⟨c, p, hg, hp, ?_⟩
      have hok := ha i c hg _ p hp
      have hkm : k < p.max := hok.1.bound k hk
      have hsub := (C13.block_is_ith_subrange hok.2.1 hkm).2.2
      rw [hb] at hsub
      intro hdis
      have := cd.size_pos
      unfold Cidr.Sub at hsub
      unfold Cidr.Disjoint at hdis
      omega
    cases hra : a.releaseAll i cs with
    | mk a1 okk =>
      rw [hra] at h hokk
      simp only at hokk
      subst hokk
      simp only at h
      obtain ⟨hwf1, hle1, _⟩ := releaseAll_spec i cs a ha hcs a1 true hra
      obtain ⟨c, hg, _⟩ := hci
      have hlt : i < a1.ccs.length := by
        rw [← hle1.1]
        unfold Alloc.get? at hg
        exact (List.getElem?_eq_some_iff.mp hg).1
      have hg1 : a1.get? i = some (a1.ccs[i]) := by unfold Alloc.get?; exact List.getElem?_eq_getElem hlt
      rw [hg1] at h
      simp only [Prod.mk.injEq] at h
      obtain ⟨rfl, _⟩ := h
      obtain ⟨c', hc', hx⟩ := hj
      rw [Alloc.get?_set_self _ _ _ _ hg1] at hc'; cases hc'
      exact (mem_delAssoc.mp hx).2 rfl


/-- the state after `ReleaseCIDR` for node `x` (and, for a delete notification, after the cache dropped it) -/
theorem inv_release {s : Sys} (h : Inv s) {x : String} {cs : List Cidr} {a' : Alloc} (hrel : Released s.alloc a' x cs)
    (hun : ∀ j, ¬ Claims a' x j)
    (hU : ∀ y i v, Claims s.alloc y i → y ≠ x → v ∈ Objs s → v.name = y → ∀ cd ∈ v.cidrs, UsedAt s.alloc i cd → UsedAt a' i cd)
    (view' : List NodeObj) (hsub : ∀ v ∈ view', v ∈ s.nodeView) (hkeep : ∀ v ∈ s.nodeView, v.name ≠ x → v ∈ view')
    (hnd : (view'.map (·.name)).Nodup)
    (hliveA : ∀ y ∈ s.api.nodes, y.name = x → y.deleting = true ∨ y.cidrs = [])
    (hliveV : ∀ v ∈ view', v.name = x → v.deleting = true) :
    Inv { s with alloc := a', nodeView := view' } := by
  have hobjs : ∀ o ∈ Objs { s with alloc := a', nodeView := view' }, o ∈ Objs s := by
    intro o ho
    unfold Objs at ho ⊢
    simp only [List.mem_append] at ho ⊢
    rcases ho with (ho | ho) | ho
    · exact Or.inl (Or.inl ho)
    · exact Or.inl (Or.inr (hsub o ho))
    · exact Or.inr ho
  constructor
  · exact hrel.wf
  · exact hrel.rangesDisj h.rd
  · exact h.nodupApi
  · exact hnd
  · exact h.nodupGraves
  · intro v hv
    exact h.graveOrApi v (hsub v hv)
  · have base := h.obj.subset hobjs
    refine ⟨base.nojunk, base.cidrWF, base.coh, base.lab, ?_, ?_⟩
    · intro i j y y' hc hc' hne
      exact base.disj i j y y' (hrel.claims_sub hc) (hrel.claims_sub hc') hne
    · intro i y hc v hv hvy
      exact hrel.elig (base.elig i y (hrel.claims_sub hc) v hv hvy)
  · intro v hv y hy hn hd
    exact h.delMono v (hsub v hv) y hy hn hd
  · exact h.gravesFresh
  · intro i y hc
    have hne : y ≠ x := fun he => hun i (he ▸ hc)
    have hca := hrel.claims_sub hc
    obtain ⟨v, hvm, hvn, hv0, hu⟩ := h.own i y hca
    refine ⟨v, hvm, hvn, hv0, ?_⟩
    intro cd hcd
    apply hU y i v hca hne _ hvn cd hcd (hu cd hcd)
    unfold Objs
    rcases List.mem_append.mp hvm with hvm | hvm
    · exact List.mem_append_left _ (List.mem_append_left _ hvm)
    · exact List.mem_append_right _ hvm
  · intro i j y hc hc'
    exact h.uniq i j y (hrel.claims_sub hc) (hrel.claims_sub hc')
  · intro v hvm hv0 hcond
    have hvold : v ∈ s.api.nodes ++ s.nodeView := by
      rcases List.mem_append.mp hvm with hvm | hvm
      · exact List.mem_append_left _ hvm
      · exact List.mem_append_right _ (hsub v hvm)
    have hcondold : v.deleting = false ∨ ∃ w ∈ s.nodeView, w.name = v.name ∧ w.deleting = false := by
      rcases hcond with hd | ⟨w, hw, hwn, hwd⟩
      · exact Or.inl hd
      · exact Or.inr ⟨w, hsub w hw, hwn, hwd⟩
    obtain ⟨i, hc, hu⟩ := h.held v hvold hv0 hcondold
    have hne : v.name ≠ x := by
      intro he
      rcases hcond with hd | ⟨w, hw, hwn, hwd⟩
      · rcases List.mem_append.mp hvm with hvm | hvm
        · rcases hliveA v hvm he with hd' | hc0
          · rw [hd] at hd'; cases hd'
          · exact hv0 hc0
        · have := hliveV v hvm he
          rw [hd] at this; cases this
      · have := hliveV w hw (hwn.trans he)
        rw [hwd] at this; cases this
    refine ⟨i, hrel.claims_keep hc hne, ?_⟩
    intro cd hcd
    apply hU v.name i v hc hne _ rfl cd hcd (hu cd hcd)
    unfold Objs
    rcases List.mem_append.mp hvold with hvm | hvm
    · exact List.mem_append_left _ (List.mem_append_left _ hvm)
    · exact List.mem_append_left _ (List.mem_append_right _ hvm)
  · intro i y hc
    have hne : y ≠ x := fun he => hun i (he ▸ hc)
    obtain ⟨v, hvm, hvn⟩ := h.pend i y (hrel.claims_sub hc)
    exact ⟨v, hkeep v hvm (hvn ▸ hne), hvn⟩


theorem releaseNode_unclaimed {a : Alloc} {x : String} (ls : Labels) (cs : List Cidr) (h : ∀ i, ¬ Claims a x i) :
    a.releaseNode x ls cs = (a, false) := by
  unfold Alloc.releaseNode
  cases hcc : a.allocatedCC x (a.ordered ls false) with
  | none => rfl
  | some i => exact absurd (allocatedCC_some _ hcc) (h i)

/-- `ReleaseCIDR` made with an object `V` the controller holds for node `x` (cached object or final state), where
`V` carries the node's pod CIDRs whenever the node is associated with a ClusterCIDR -/
theorem inv_releaseCIDR {s : Sys} (h : Inv s) (V : NodeObj) (hV : V ∈ Objs s)
    (hW : ∀ i, Claims s.alloc V.name i → V.cidrs ≠ [])
    (view' : List NodeObj) (hsub : ∀ v ∈ view', v ∈ s.nodeView) (hkeep : ∀ v ∈ s.nodeView, v.name ≠ V.name → v ∈ view')
    (hnd : (view'.map (·.name)).Nodup)
    (hliveA : ∀ y ∈ s.api.nodes, y.name = V.name → y.deleting = true ∨ y.cidrs = [])
    (hliveV : ∀ v ∈ view', v.name = V.name → v.deleting = true) :
    Inv { s with alloc := (releaseCIDR s.alloc V).1, nodeView := view' } := by
  have hjunk := h.obj.nojunk V hV
  by_cases hcl : ∃ i₀, Claims s.alloc V.name i₀
  · obtain ⟨i₀, hc0⟩ := hcl
    have hne := hW i₀ hc0
    have hrc : releaseCIDR s.alloc V = s.alloc.releaseNode V.name V.labels V.cidrs := by
      unfold releaseCIDR NodeObj.hasCidrs
      have : V.cidrs.isEmpty = false := by
        cases hcs : V.cidrs with
        | nil => exact absurd hcs hne
        | cons _ _ => rfl
      simp [hjunk, this]
    rw [hrc]
    have hcsw : ∀ cd ∈ V.cidrs, cd.WF := h.obj.cidrWF V hV
    have hres : s.alloc.releaseNode V.name V.labels V.cidrs = ((s.alloc.releaseNode V.name V.labels V.cidrs).1, (s.alloc.releaseNode V.name V.labels V.cidrs).2) := rfl
    have hrel := releaseNode_released h.wf hcsw hres
    have hin : ∀ i, Claims s.alloc V.name i → ∀ cd ∈ V.cidrs, UsedAt s.alloc i cd := by
      intro i hci cd hcd
      obtain ⟨w, hwm, hwn, hw0, hu⟩ := h.own i _ hci
      have hwo : w ∈ Objs s := by
        unfold Objs
        rcases List.mem_append.mp hwm with hwm | hwm
        · exact List.mem_append_left _ (List.mem_append_left _ hwm)
        · exact List.mem_append_right _ hwm
      have := h.obj.coh V hV w hwo hwn.symm hne hw0
      rw [this] at hcd
      exact hu cd hcd
    have hun := releaseNode_unclaims h.wf hcsw (fun i j => h.uniq i j _)
      (fun i hci => h.obj.elig i _ hci V hV rfl) hin hres
    apply inv_release h hrel hun _ view' hsub hkeep hnd hliveA hliveV
    intro y i v hcy hyne hvo hvn cd hcd hu
    apply hrel.used i cd hu
    intro c hc hfam
    exact h.obj.disj i i₀ y V.name hcy hc0 hyne v hvo V hV hvn rfl cd hcd c hc hfam.symm
  · have hno : ∀ i, ¬ Claims s.alloc V.name i := fun i hi => hcl ⟨i, hi⟩
    have hrc : (releaseCIDR s.alloc V).1 = s.alloc := by
      unfold releaseCIDR
      split
      · rfl
      · split
        · rfl
        · rw [releaseNode_unclaimed _ _ hno]
    rw [hrc]
    exact inv_release h (Released.refl h.wf V.name []) hno (fun _ _ _ _ _ _ _ _ _ hu => hu) view' hsub hkeep hnd hliveA hliveV


theorem getNode_isSome_of_mem {l : List NodeObj} {n : String} {g : NodeObj} (hg : g ∈ l) (hn : g.name = n) :
    ∃ g', getNode l n = some g' := by
  cases h : getNode l n with
  | some g' => exact ⟨g', rfl⟩
  | none => exact absurd hn (getNode_none_iff.mp h g hg)

/-- the cache drops a node that no longer exists and the delete handler releases its final pod CIDRs -/
theorem inv_gone {s : Sys} (h : Inv s) (name : String) (hg : getNode s.api.nodes name = none) (stale : NodeObj)
    (hv : getNode s.nodeView name = some stale) :
    Inv { s with alloc := (releaseCIDR s.alloc ((getNode s.api.graves name).getD stale)).1, nodeView := delNode s.nodeView name } := by
  obtain ⟨hsm, hsn⟩ := mem_of_getNode hv
  have hapi := getNode_none_iff.mp hg
  -- the final state of the node is on record
  obtain ⟨g, hgm, hgn⟩ : ∃ g ∈ s.api.graves, g.name = name := by
    rcases h.graveOrApi stale hsm with ⟨y, hy, hyn⟩ | ⟨g, hgm, hgn⟩
    · exact absurd (hyn.trans hsn) (hapi y hy)
    · exact ⟨g, hgm, hgn.trans hsn⟩
  obtain ⟨g', hg'⟩ := getNode_isSome_of_mem hgm hgn
  obtain ⟨hg'm, hg'n⟩ := mem_of_getNode hg'
  rw [hg']
  simp only [Option.getD_some]
  have hg'o : g' ∈ Objs s := List.mem_append_right _ hg'm
  exact inv_releaseCIDR h g' hg'o (by
      intro i hci
      obtain ⟨w, hwm, hwn, hw0, _⟩ := h.own i _ hci
      rcases List.mem_append.mp hwm with hwm | hwm
      · exact absurd (hwn.trans hg'n) (hapi w hwm)
      · have : w = g' := eq_of_nodup_names h.nodupGraves hwm hg'm hwn
        rw [← this]; exact hw0)
    (delNode s.nodeView name)
    (fun v hvm => (mem_delNode.mp hvm).1)
    (fun v hvm hne => mem_delNode.mpr ⟨hvm, by rw [hg'n] at hne; exact hne⟩)
    (delNode_names_nodup h.nodupView)
    (fun v hvm hvn => absurd (hvn.trans hg'n) (hapi v hvm))
    (fun v hvm hvn => absurd (hvn.trans hg'n) (mem_delNode.mp hvm).2)

/-- a delete notification (carrying the final state of the node) -/
theorem inv_deliver_gone {s : Sys} (h : Inv s) (name : String) (hg : getNode s.api.nodes name = none) :
    Inv (step s (.deliverNode name false)).1 := by
  cases hv : getNode s.nodeView name with
  | none =>
    have : (step s (.deliverNode name false)).1 = s := by simp [step, hg, hv]
    rw [this]; exact h
  | some stale =>
    have hstep : (step s (.deliverNode name false)).1 =
        { s with alloc := (releaseCIDR s.alloc ((getNode s.api.graves name).getD stale)).1,
                 nodeView := delNode s.nodeView name, nodeQ := qAdd s.nodeQ name } := by
      simp [step, hg, hv]
    rw [hstep]
    exact (inv_gone h name hg stale hv).congr rfl rfl rfl

/-! ## a node item: release of a node being deleted, re-sync of a node that has pod CIDRs -/

theorem inv_release_deleting {s : Sys} (h : Inv s) (n : NodeObj) (hn : n ∈ s.nodeView) (hd : n.deleting = true) :
    Inv { s with alloc := (releaseCIDR s.alloc n).1 } := by
  have hno : n ∈ Objs s := List.mem_append_left _ (List.mem_append_right _ hn)
  by_cases hc : n.cidrs = []
  · have : (releaseCIDR s.alloc n).1 = s.alloc := by
      unfold releaseCIDR NodeObj.hasCidrs
      simp [h.obj.nojunk n hno, hc]
    rw [this]
    exact h.congr rfl rfl rfl
  · have key := inv_releaseCIDR h n hno (fun _ _ => hc) s.nodeView (fun _ hv => hv) (fun _ hv _ => hv) h.nodupView
      (fun y hy hyn => Or.inl (h.delMono n hn y hy hyn.symm hd))
      (fun v hv hvn => by rw [eq_of_nodup_names h.nodupView hv hn hvn]; exact hd)
    exact key.congr rfl rfl rfl

theorem allocLe_set_cc {a : Alloc} {j : Nat} {c c' : CC} (hg : a.get? j = some c) (hle : CCLe c c') : AllocLe a (a.set j c') := by
  refine ⟨by simp [Alloc.set], ?_⟩
  intro k d hd
  by_cases hjk : j = k
  · subst hjk
    rw [hg] at hd; cases hd
    exact ⟨c', Alloc.get?_set_self _ _ _ _ hg, hle⟩
  · exact ⟨d, by rw [Alloc.get?_set_ne _ _ _ _ hjk]; exact hd, CCLe.refl d⟩

theorem cc_occupy_static {c c' : CC} {cd : Cidr} (h : c.occupy cd = some c') :
    c'.key = c.key ∧ c'.reqs = c.reqs ∧ c'.name = c.name ∧ c'.assoc = c.assoc ∧ c'.term = c.term := by
  unfold CC.occupy at h
  cases hp : c.pool cd.fam with
  | none => rw [hp] at h; cases h
  | some p =>
    rw [hp] at h
    simp only at h
    cases ho : p.occupy cd with
    | none => rw [ho] at h; cases h
    | some p' =>
      rw [ho] at h
      cases h
      unfold CC.setPool
      cases cd.fam <;> exact ⟨rfl, rfl, rfl, rfl, rfl⟩

theorem occupyList_static : ∀ (cs : List Cidr) (c : CC),
    (c.occupyList cs).1.key = c.key ∧ (c.occupyList cs).1.reqs = c.reqs ∧ (c.occupyList cs).1.name = c.name ∧
    (c.occupyList cs).1.assoc = c.assoc ∧ (c.occupyList cs).1.term = c.term := by
  intro cs
  induction cs with
  | nil => intro c; exact ⟨rfl, rfl, rfl, rfl, rfl⟩
  | cons cd rest ih =>
    intro c
    unfold CC.occupyList
    cases ho : c.occupy cd with
    | none => exact ⟨rfl, rfl, rfl, rfl, rfl⟩
    | some c' =>
      simp only
      obtain ⟨h1, h2, h3, h4, h5⟩ := cc_occupy_static ho
      obtain ⟨g1, g2, g3, g4, g5⟩ := ih c'
      exact ⟨g1.trans h1, g2.trans h2, g3.trans h3, g4.trans h4, g5.trans h5⟩

/-- if the whole list could be occupied in `c`, its first CIDR meets a range of `c` -/
theorem occupyList_true_head {c : CC} (hc : c.WF) {cd : Cidr} {rest : List Cidr} (hcd : cd.WF)
    (h : (c.occupyList (cd :: rest)).2 = true) : ∃ p, c.pool cd.fam = some p ∧ ¬ cd.Disjoint p.geo.range := by
  unfold CC.occupyList at h
  cases ho : c.occupy cd with
  | none => rw [ho] at h; cases h
  | some c' =>
    unfold CC.occupy at ho
    cases hp : c.pool cd.fam with
    | none => rw [hp] at ho; cases ho
    | some p =>
      rw [hp] at ho
      simp only at ho
      refine ⟨p, rfl, ?_⟩
      intro hdis
      have hok := hc _ p hp
      have := ((C14.occupy_refines hok.2.1 hok.1 hcd).1).mpr (Or.inr hdis)
      rw [this] at ho
      cases ho


theorem usedAt_sub_range {a : Alloc} (ha : a.WF) {i : Nat} {cd : Cidr} (hu : UsedAt a i cd) :
    ∃ c p, a.get? i = some c ∧ c.pool cd.fam = some p ∧ cd.Sub p.geo.range ∧ cd.WF := by
  obtain ⟨c, p, k, hg, hp, hk, hb⟩ := hu
  have hok := ha i c hg _ p hp
  have hkm : k < p.max := hok.1.bound k hk
  obtain ⟨_, hwf, hsub⟩ := C13.block_is_ith_subrange hok.2.1 hkm
  exact ⟨c, p, hg, hp, hb ▸ hsub, hb ▸ hwf⟩

/-- re-sync of a node whose pod CIDRs are recorded in entry `i₀` (and ranges do not overlap): the walk through the
ordered list can only mark blocks, and records the association nowhere else -/
theorem occupyNode_grow (name : String) (cidrs : List Cidr) (i₀ : Nat) (hne : cidrs ≠ []) :
    ∀ (l : List Nat) (a : Alloc), a.WF → RangesDisj a → Claims a name i₀ → (∀ cd ∈ cidrs, UsedAt a i₀ cd) →
      AllocLe a (a.occupyNode name cidrs l).1 ∧ (a.occupyNode name cidrs l).1.WF := by
  intro l
  induction l with
  | nil => intro a ha _ _ _; exact ⟨AllocLe.refl a, ha⟩
  | cons j rest ih =>
    intro a ha hrd hcl hused
    unfold Alloc.occupyNode
    cases hg : a.get? j with
    | none => simp only; exact ih a ha hrd hcl hused
    | some c =>
      simp only
      have hcw : ∀ cd ∈ cidrs, cd.WF := by
        intro cd hcd
        obtain ⟨_, _, _, _, _, hw⟩ := usedAt_sub_range ha (hused cd hcd)
        exact hw
      obtain ⟨hwf', hple⟩ := C09.CC.occupyList_poolsLe cidrs c (ha j c hg) hcw
      obtain ⟨s1, s2, s3, s4, s5⟩ := occupyList_static cidrs c
      have hccle : CCLe c (c.occupyList cidrs).1 := ⟨s1, s2, s3, s4, s5, hple⟩
      cases hr : c.occupyList cidrs with
      | mk c' okk =>
        rw [hr] at hwf' hccle
        simp only at hwf' hccle
        cases okk with
        | true =>
          simp only
          -- the entry that took everything is the one the node is associated with
          have hj : j = i₀ := by
            false_or_by_contra; rename_i hji
            cases hcs : cidrs with
            | nil => exact hne hcs
            | cons cd0 rest0 =>
              have hcd0 : cd0 ∈ cidrs := by rw [hcs]; exact List.mem_cons_self ..
              obtain ⟨c0, p0, hg0, hp0, hsub, hw0⟩ := usedAt_sub_range ha (hused cd0 hcd0)
              have htrue : (c.occupyList (cd0 :: rest0)).2 = true := by rw [← hcs, hr]
              obtain ⟨p, hp, hnd⟩ := occupyList_true_head (ha j c hg) hw0 htrue
              have hdis := hrd j i₀ c c0 cd0.fam p p0 hg hg0 hp hp0 hji
              have := cd0.size_pos
              unfold Cidr.Sub at hsub
              unfold Cidr.Disjoint at hnd hdis
              omega
          subst hj
          obtain ⟨c0, hg0, hx⟩ := hcl
          rw [hg] at hg0; cases hg0
          have hassoc : c'.addAssoc name = c' := by
            unfold CC.addAssoc
            have : c'.assoc.contains name = true := by
              rw [hccle.2.2.2.1]; simpa using hx
            rw [if_pos this]
          rw [hassoc]
          exact ⟨allocLe_set_cc hg hccle, Alloc.WF_set ha hwf'⟩
        | false =>
          simp only
          have hle1 : AllocLe a (a.set j c') := allocLe_set_cc hg hccle
          have hwf1 : (a.set j c').WF := Alloc.WF_set ha hwf'
          obtain ⟨hle2, hwf2⟩ := ih (a.set j c') hwf1 (rangesDisj_le hle1 hrd) ((claims_le hle1 name i₀).mpr hcl)
            (fun cd hcd => usedAt_le hle1 (hused cd hcd))
          exact ⟨AllocLe.trans hle1 hle2, hwf2⟩


/-! ## allocation -/

theorem usedAt_of_reserved {a a' : Alloc} (ha : a.WF) {i : Nat} {f : Fam} {c : CC} {p : Pool} {blk : Cidr}
    (hget : a.get? i = some c) (hp : c.pool f = some p) (h : a.allocate i f = (a', some blk)) : UsedAt a' i blk := by
  obtain ⟨c', p', hg', hp', k, hk, hb⟩ := C01.reservation_recorded ha hget hp h
  obtain ⟨_, _, _, _, _, hfam⟩ := allocate_ok hget hp (ha i c hget f p hp) h
  exact ⟨c', p', k, hg', by rw [hfam]; exact hp', hk, hb.symm⟩

theorem not_blocked_of_le {a a' : Alloc} (h : AllocLe a a') {blk : Cidr} (hb : a'.blocked blk = false) : a.blocked blk = false := by
  cases hx : a.blocked blk with
  | false => rfl
  | true => rw [blocked_mono h blk hx] at hb; cases hb

/-- what one entry hands out: every CIDR is in use in that entry afterwards, and overlapped nothing in use before -/
theorem tryEntry_served {a a' : Alloc} (ha : a.WF) {i : Nat} {c : CC} {cidrs : List Cidr}
    (hget : a.get? i = some c) (h : a.tryEntry i = (a', some cidrs)) :
    ∀ cd ∈ cidrs, UsedAt a' i cd ∧ cd.WF ∧ a.blocked cd = false := by
  have hwf := ha i c hget
  unfold Alloc.tryEntry at h
  simp only [hget] at h
  cases h4 : c.v4 with
  | none =>
    rw [h4] at h
    simp only at h
    cases h6 : c.v6 with
    | none =>
      rw [h6] at h
      simp only [Prod.mk.injEq, Option.some.injEq] at h
      intro cd hcd; rw [← h.2] at hcd; cases hcd
    | some p6 =>
      rw [h6] at h
      simp only at h
      cases hal : a.allocate i .v6 with
      | mk a2 r =>
        rw [hal] at h
        cases r with
        | none => simp at h
        | some b6 =>
          simp only [Prod.mk.injEq, Option.some.injEq] at h
          obtain ⟨rfl, rfl⟩ := h
          have hp6 : c.pool .v6 = some p6 := by simp [CC.pool, h6]
          obtain ⟨k, hk, hb, hnb, hbw, _⟩ := allocate_ok hget hp6 (hwf .v6 p6 hp6) hal
          intro cd hcd
          simp at hcd; subst hcd
          exact ⟨usedAt_of_reserved ha hget hp6 hal, hbw, hnb⟩
  | some p4 =>
    rw [h4] at h
    simp only at h
    have hp4 : c.pool .v4 = some p4 := by simp [CC.pool, h4]
    cases hal : a.allocate i .v4 with
    | mk a1 r =>
      rw [hal] at h
      cases r with
      | none => simp at h
      | some b4 =>
        simp only at h
        obtain ⟨k4, hk4, hb4, hnb4, hbw4, _⟩ := allocate_ok hget hp4 (hwf .v4 p4 hp4) hal
        have hu4 := usedAt_of_reserved ha hget hp4 hal
        obtain ⟨hle1, hwf1, _⟩ := allocate_le ha hget hp4 hal
        cases h6 : c.v6 with
        | none =>
          rw [h6] at h
          simp only [Prod.mk.injEq, Option.some.injEq] at h
          obtain ⟨rfl, rfl⟩ := h
          intro cd hcd
          simp at hcd; subst hcd
          exact ⟨hu4, hbw4, hnb4⟩
        | some p6 =>
          rw [h6] at h
          simp only at h
          cases hbl : a1.allocate i .v6 with
          | mk a2 r2 =>
            rw [hbl] at h
            cases r2 with
            | none => simp at h
            | some b6 =>
              simp only [Prod.mk.injEq, Option.some.injEq] at h
              obtain ⟨rfl, rfl⟩ := h
              obtain ⟨_, x, p4', _, _, _, _, _, _, ha1⟩ := (allocate_spec hget hp4 (hwf .v4 p4 hp4)).2 a1 b4 hal
              have hget1 : a1.get? i = some (c.setPool .v4 p4') := by rw [ha1]; exact Alloc.get?_set_self _ _ _ _ hget
              have hp6 : (c.setPool .v4 p4').pool .v6 = some p6 := by
                rw [CC.pool_setPool_other _ _ _ _ (by decide)]; simp [CC.pool, h6]
              obtain ⟨k6, hk6, hb6, hnb6, hbw6, _⟩ := allocate_ok hget1 hp6 (hwf1 i _ hget1 .v6 p6 hp6) hbl
              have hu6 := usedAt_of_reserved hwf1 hget1 hp6 hbl
              obtain ⟨hle2, _, _⟩ := allocate_le hwf1 hget1 hp6 hbl
              intro cd hcd
              simp at hcd
              rcases hcd with rfl | rfl
              · exact ⟨usedAt_le hle2 hu4, hbw4, hnb4⟩
              · exact ⟨hu6, hbw6, not_blocked_of_le hle1 hnb6⟩


theorem prioritized_served {a : Alloc} (ha : a.WF) : ∀ (l : List Nat) {a' : Alloc} {cidrs : List Cidr} {i : Nat},
    a.prioritized l = (a', some (cidrs, i)) →
    i ∈ l ∧ ∀ cd ∈ cidrs, UsedAt a' i cd ∧ cd.WF ∧ a.blocked cd = false := by
  intro l
  induction l generalizing a with
  | nil => intro a' cidrs i h; simp [Alloc.prioritized] at h
  | cons j rest ih =>
    intro a' cidrs i h
    unfold Alloc.prioritized at h
    cases ht : a.tryEntry j with
    | mk a1 r =>
      rw [ht] at h
      cases hget : a.get? j with
      | none =>
        have : a.tryEntry j = (a, none) := by unfold Alloc.tryEntry; simp [hget]
        rw [this] at ht
        simp only [Prod.mk.injEq] at ht
        obtain ⟨rfl, rfl⟩ := ht
        simp only at h
        obtain ⟨hi, hall⟩ := ih ha h
        exact ⟨List.mem_cons_of_mem _ hi, hall⟩
      | some c =>
        cases r with
        | some cs =>
          simp only [Prod.mk.injEq, Option.some.injEq] at h
          obtain ⟨rfl, rfl, rfl⟩ := h
          exact ⟨List.mem_cons_self .., tryEntry_served ha hget ht⟩
        | none =>
          simp only at h
          obtain ⟨_, hwf1, heqv⟩ := tryEntry_le ha hget ht
          obtain ⟨hi, hall⟩ := ih hwf1 h
          refine ⟨List.mem_cons_of_mem _ hi, ?_⟩
          intro cd hcd
          obtain ⟨h1, h2, h3⟩ := hall cd hcd
          exact ⟨h1, h2, by rw [← blocked_eqv (heqv rfl) cd]; exact h3⟩


theorem fresh_disjoint {a : Alloc} (ha : a.WF) {blk : Cidr} (hb : a.blocked blk = false) (hbw : blk.WF) {j : Nat} {cd : Cidr}
    (hu : UsedAt a j cd) (hf : cd.fam = blk.fam) : blk.Disjoint cd := by
  obtain ⟨c, p, k, hg, hp, hk, hbk⟩ := hu
  have hok := ha j c hg _ p hp
  have hkm : k < p.max := hok.1.bound k hk
  have hcw : cd.WF := hbk ▸ goBlock_WF hok hkm
  false_or_by_contra; rename_i hnd
  have hnot : ¬ (a.blocked blk = true) := by rw [hb]; simp
  apply hnot
  rw [Alloc.blocked_iff']
  refine ⟨j, c, p, k, hg, by rw [← hf]; exact hp, hk, ?_⟩
  rw [hbk]
  exact (goOverlap_iff hbw hcw hf.symm).mpr hnd

/-! the state after the association is recorded -/

theorem claims_addAssoc {a : Alloc} {i : Nat} {c : CC} (hc : a.get? i = some c) (name x : String) (j : Nat) :
    Claims (a.set i (c.addAssoc name)) x j ↔ Claims a x j ∨ (x = name ∧ j = i) := by
  constructor
  · rintro ⟨d, hd, hx⟩
    by_cases hij : i = j
    · subst hij
      rw [Alloc.get?_set_self _ _ _ _ hc] at hd; cases hd
      unfold CC.addAssoc at hx
      split at hx
      · exact Or.inl ⟨c, hc, hx⟩
      · simp only [List.mem_cons] at hx
        rcases hx with rfl | hx
        · exact Or.inr ⟨rfl, rfl⟩
        · exact Or.inl ⟨c, hc, hx⟩
    · rw [Alloc.get?_set_ne _ _ _ _ hij] at hd
      exact Or.inl ⟨d, hd, hx⟩
  · rintro (⟨d, hd, hx⟩ | ⟨rfl, rfl⟩)
    · by_cases hij : i = j
      · subst hij
        rw [hc] at hd; cases hd
        refine ⟨_, Alloc.get?_set_self _ _ _ _ hc, ?_⟩
        unfold CC.addAssoc
        split
        · exact hx
        · exact List.mem_cons_of_mem _ hx
      · exact ⟨d, by rw [Alloc.get?_set_ne _ _ _ _ hij]; exact hd, hx⟩
    · refine ⟨_, Alloc.get?_set_self _ _ _ _ hc, ?_⟩
      unfold CC.addAssoc
      split
      · rename_i h; simpa using h
      · exact List.mem_cons_self ..

theorem usedAt_addAssoc {a : Alloc} {i : Nat} {c : CC} (hc : a.get? i = some c) (name : String) (j : Nat) (cd : Cidr) :
    UsedAt (a.set i (c.addAssoc name)) j cd ↔ UsedAt a j cd := by
  constructor
  · rintro ⟨d, p, k, hd, hp, hk, hb⟩
    by_cases hij : i = j
    · subst hij
      rw [Alloc.get?_set_self _ _ _ _ hc] at hd; cases hd
      rw [C09.addAssoc_pool] at hp
      exact ⟨c, p, k, hc, hp, hk, hb⟩
    · rw [Alloc.get?_set_ne _ _ _ _ hij] at hd
      exact ⟨d, p, k, hd, hp, hk, hb⟩
  · rintro ⟨d, p, k, hd, hp, hk, hb⟩
    by_cases hij : i = j
    · subst hij
      rw [hc] at hd; cases hd
      exact ⟨_, p, k, Alloc.get?_set_self _ _ _ _ hc, by rw [C09.addAssoc_pool]; exact hp, hk, hb⟩
    · exact ⟨d, p, k, by rw [Alloc.get?_set_ne _ _ _ _ hij]; exact hd, hp, hk, hb⟩

theorem addAssoc_static (c : CC) (name : String) : (c.addAssoc name).key = c.key ∧ (c.addAssoc name).reqs = c.reqs := by
  unfold CC.addAssoc; split <;> exact ⟨rfl, rfl⟩

theorem elig_addAssoc {a : Alloc} {i : Nat} {c : CC} (hc : a.get? i = some c) (name : String) {j : Nat} {ls : Labels}
    (h : Elig a j ls) : Elig (a.set i (c.addAssoc name)) j ls := by
  obtain ⟨d, hd, hm⟩ := h
  by_cases hij : i = j
  · subst hij
    rw [hc] at hd; cases hd
    obtain ⟨hk, hr⟩ := addAssoc_static c name
    exact ⟨_, Alloc.get?_set_self _ _ _ _ hc, by rw [hk, hr]; exact hm⟩
  · exact ⟨d, by rw [Alloc.get?_set_ne _ _ _ _ hij]; exact hd, hm⟩

theorem rangesDisj_addAssoc {a : Alloc} {i : Nat} {c : CC} (hc : a.get? i = some c) (name : String) (h : RangesDisj a) :
    RangesDisj (a.set i (c.addAssoc name)) := by
  have key : ∀ j d, (a.set i (c.addAssoc name)).get? j = some d → ∃ d0, a.get? j = some d0 ∧ ∀ g, d.pool g = d0.pool g := by
    intro j d hd
    by_cases hij : i = j
    · subst hij
      rw [Alloc.get?_set_self _ _ _ _ hc] at hd; cases hd
      exact ⟨c, hc, fun g => C09.addAssoc_pool c name g⟩
    · rw [Alloc.get?_set_ne _ _ _ _ hij] at hd
      exact ⟨d, hd, fun _ => rfl⟩
  intro j j' d d' f p q hj hj' hp hq hne
  obtain ⟨d0, hd0, hpe⟩ := key j d hj
  obtain ⟨d0', hd0', hpe'⟩ := key j' d' hj'
  rw [hpe] at hp; rw [hpe'] at hq
  exact h j j' d0 d0' f p q hd0 hd0' hp hq hne


/-- **the write**: node `name` (which has no pod CIDRs, or these very ones) is given the freshly reserved
`cidrs` of entry `i` and is associated with that entry -/
theorem inv_assign {sP : Sys} (h : Inv sP) {name : String} {cidrs : List Cidr} {i : Nat} (hne : cidrs ≠ [])
    (hU : ∀ cd ∈ cidrs, UsedAt sP.alloc i cd ∧ cd.WF)
    (hF : ∀ x j, Claims sP.alloc x j → ∀ v ∈ Objs sP, v.name = x → CidrsDisj cidrs v.cidrs)
    (hEl : ∀ v ∈ Objs sP, v.name = name → Elig sP.alloc i v.labels)
    (hView : ∃ v ∈ sP.nodeView, v.name = name)
    (hViewNo : ∀ v ∈ sP.nodeView, v.name = name → v.cidrs = [])
    (hUn : ∀ j, ¬ Claims sP.alloc name j)
    (y : NodeObj) (hy : getNode sP.api.nodes name = some y) (c : CC) (hc : sP.alloc.get? i = some c) :
    Inv { sP with api := { sP.api with nodes := putNode sP.api.nodes { y with cidrs := cidrs } },
                  alloc := sP.alloc.set i (c.addAssoc name) } := by
  obtain ⟨hym, hyn⟩ := mem_of_getNode hy
  have hyo : y ∈ Objs sP := List.mem_append_left _ (List.mem_append_left _ hym)
  -- objects of the new state
  have hobj : ∀ o, o ∈ (putNode sP.api.nodes { y with cidrs := cidrs } ++ sP.nodeView ++ sP.api.graves) →
      (o = { y with cidrs := cidrs } ∨ (o ∈ Objs sP ∧ (o.name = name → o.cidrs = []))) := by
    intro o ho
    unfold Objs
    simp only [List.mem_append] at ho ⊢
    rcases ho with (ho | ho) | ho
    · rcases mem_putNode ho with rfl | ⟨ho, hne'⟩
      · exact Or.inl rfl
      · exact Or.inr ⟨Or.inl (Or.inl ho), fun he => absurd (he.trans hyn.symm) hne'⟩
    · exact Or.inr ⟨Or.inl (Or.inr ho), fun he => hViewNo o ho he⟩
    · exact Or.inr ⟨Or.inr ho, fun he => absurd (he.trans hyn.symm) (h.gravesFresh o ho y hym)⟩
  have hcl := fun x j => claims_addAssoc hc name x j
  have hus := fun j cd => usedAt_addAssoc hc name j cd
  constructor
  · exact Alloc.WF_set h.wf (C09.addAssoc_WF (h.wf i c hc) name)
  · exact rangesDisj_addAssoc hc name h.rd
  · exact putNode_names_nodup h.nodupApi
  · exact h.nodupView
  · exact h.nodupGraves
  · intro v hvm
    rcases h.graveOrApi v hvm with ⟨z, hz, hzn⟩ | hgr
    · by_cases he : z.name = y.name
      · exact Or.inl ⟨{ y with cidrs := cidrs }, mem_putNode_self _ _, he ▸ hzn⟩
      · exact Or.inl ⟨z, mem_putNode_of_ne hz he, hzn⟩
    · exact Or.inr hgr
  · -- object clauses
    constructor
    · intro v hv
      rcases hobj v hv with rfl | ⟨hv, _⟩
      · exact h.obj.nojunk y hyo
      · exact h.obj.nojunk v hv
    · intro v hv cd hcd
      rcases hobj v hv with rfl | ⟨hv, _⟩
      · exact (hU cd hcd).2
      · exact h.obj.cidrWF v hv cd hcd
    · intro v hv w hw hn hv0 hw0
      rcases hobj v hv with rfl | ⟨hv, hvz⟩
      · rcases hobj w hw with rfl | ⟨hw, hwz⟩
        · rfl
        · exact absurd (hwz (hn.symm.trans hyn)) hw0
      · rcases hobj w hw with rfl | ⟨hw, _⟩
        · exact absurd (hvz (hn.trans hyn)) hv0
        · exact h.obj.coh v hv w hw hn hv0 hw0
    · intro v hv w hw hn
      have hl : ∀ o, (o = { y with cidrs := cidrs } ∨ (o ∈ Objs sP ∧ (o.name = name → o.cidrs = []))) →
          ∃ o0 ∈ Objs sP, o.name = o0.name ∧ o.labels = o0.labels := by
        intro o ho
        rcases ho with rfl | ⟨ho, _⟩
        · exact ⟨y, hyo, rfl, rfl⟩
        · exact ⟨o, ho, rfl, rfl⟩
      obtain ⟨v0, hv0, hvn, hvl⟩ := hl v (hobj v hv)
      obtain ⟨w0, hw0, hwn, hwl⟩ := hl w (hobj w hw)
      rw [hvl, hwl]
      exact h.obj.lab v0 hv0 w0 hw0 (by rw [← hvn, ← hwn]; exact hn)
    · intro j j' x x' hcx hcx' hxne v hv w hw hvx hwx
      -- an object named after the node being served is the patched API object or carries no CIDRs
      have served : ∀ o, (o = { y with cidrs := cidrs } ∨ (o ∈ Objs sP ∧ (o.name = name → o.cidrs = []))) → o.name = name →
          o.cidrs = cidrs ∨ o.cidrs = [] := by
        intro o ho hon
        rcases ho with rfl | ⟨_, hz⟩
        · exact Or.inl rfl
        · exact Or.inr (hz hon)
      have other : ∀ o, (o = { y with cidrs := cidrs } ∨ (o ∈ Objs sP ∧ (o.name = name → o.cidrs = []))) → o.name ≠ name →
          o ∈ Objs sP := by
        intro o ho hon
        rcases ho with rfl | ⟨ho, _⟩
        · exact absurd hyn hon
        · exact ho
      rcases (hcl x j).mp hcx with hcx0 | ⟨hxe, _⟩
      · have hxn : x ≠ name := fun he => hUn j (he ▸ hcx0)
        have hvo := other v (hobj v hv) (hvx ▸ hxn)
        rcases (hcl x' j').mp hcx' with hcx0' | ⟨hxe', _⟩
        · have hxn' : x' ≠ name := fun he => hUn j' (he ▸ hcx0')
          have hwo := other w (hobj w hw) (hwx ▸ hxn')
          exact h.obj.disj j j' x x' hcx0 hcx0' hxne v hvo w hwo hvx hwx
        · rcases served w (hobj w hw) (hwx.trans hxe') with hwc | hwc
          · rw [hwc]
            intro a ha b hb hab
            exact Cidr.disjoint_comm.mp (hF x j hcx0 v hvo hvx b hb a ha hab.symm)
          · intro a _ b hb; rw [hwc] at hb; cases hb
      · rcases (hcl x' j').mp hcx' with hcx0' | ⟨hxe', _⟩
        · have hxn' : x' ≠ name := fun he => hUn j' (he ▸ hcx0')
          have hwo := other w (hobj w hw) (hwx ▸ hxn')
          rcases served v (hobj v hv) (hvx.trans hxe) with hvc | hvc
          · rw [hvc]; exact hF x' j' hcx0' w hwo hwx
          · intro a ha; rw [hvc] at ha; cases ha
        · exact absurd (hxe.trans hxe'.symm) hxne
    · intro j x hcx v hv hvx
      have hvl : ∃ o0 ∈ Objs sP, v.name = o0.name ∧ v.labels = o0.labels := by
        rcases hobj v hv with rfl | ⟨hv, _⟩
        · exact ⟨y, hyo, rfl, rfl⟩
        · exact ⟨v, hv, rfl, rfl⟩
      obtain ⟨o0, ho0, hn0, hl0⟩ := hvl
      rw [hl0]
      rcases (hcl x j).mp hcx with hcx0 | ⟨hxe, hje⟩
      · exact elig_addAssoc hc name (h.obj.elig j x hcx0 o0 ho0 (hn0 ▸ hvx))
      · rw [hje]
        exact elig_addAssoc hc name (hEl o0 ho0 (by rw [← hn0, hvx, hxe]))
  · intro v hv z hz hn hd
    rcases mem_putNode hz with rfl | ⟨hz, _⟩
    · exact h.delMono v hv y hym hn hd
    · exact h.delMono v hv z hz hn hd
  · intro g hg z hz
    rcases mem_putNode hz with rfl | ⟨hz, _⟩
    · exact h.gravesFresh g hg y hym
    · exact h.gravesFresh g hg z hz
  · intro j x hcx
    rcases (hcl x j).mp hcx with hcx0 | ⟨hxe, hje⟩
    · obtain ⟨w, hwm, hwn, hw0, hu⟩ := h.own j x hcx0
      have hxne : x ≠ name := fun he => hUn j (he ▸ hcx0)
      refine ⟨w, ?_, hwn, hw0, fun cd hcd => (hus j cd).mpr (hu cd hcd)⟩
      rcases List.mem_append.mp hwm with hwm | hwm
      · exact List.mem_append_left _ (mem_putNode_of_ne hwm (by rw [hwn, hyn]; exact hxne))
      · exact List.mem_append_right _ hwm
    · exact ⟨{ y with cidrs := cidrs }, List.mem_append_left _ (mem_putNode_self _ _), hyn.trans hxe.symm, hne,
        fun cd hcd => (hus j cd).mpr (hje ▸ (hU cd hcd).1)⟩
  · intro j j' x hcx hcx'
    rcases (hcl x j).mp hcx with hcx0 | ⟨hxe, hje⟩
    · rcases (hcl x j').mp hcx' with hcx0' | ⟨hxe', _⟩
      · exact h.uniq j j' x hcx0 hcx0'
      · exact absurd (hxe' ▸ hcx0) (hUn j)
    · rcases (hcl x j').mp hcx' with hcx0' | ⟨_, hje'⟩
      · exact absurd (hxe ▸ hcx0') (hUn j')
      · exact hje.trans hje'.symm
  · intro v hvm hv0 hcond
    have hold : ∀ u ∈ sP.api.nodes ++ sP.nodeView, u.cidrs ≠ [] →
        (u.deleting = false ∨ ∃ w ∈ sP.nodeView, w.name = u.name ∧ w.deleting = false) →
        ∃ j, Claims (sP.alloc.set i (c.addAssoc name)) u.name j ∧ ∀ cd ∈ u.cidrs, UsedAt (sP.alloc.set i (c.addAssoc name)) j cd := by
      intro u hu hu0 hc'
      obtain ⟨j, hcj, huj⟩ := h.held u hu hu0 hc'
      exact ⟨j, (hcl _ j).mpr (Or.inl hcj), fun cd hcd => (hus j cd).mpr (huj cd hcd)⟩
    rcases List.mem_append.mp hvm with hvm | hvm
    · rcases mem_putNode hvm with rfl | ⟨hvm, _⟩
      · exact ⟨i, (hcl _ i).mpr (Or.inr ⟨hyn, rfl⟩), fun cd hcd => (hus i cd).mpr (hU cd hcd).1⟩
      · exact hold v (List.mem_append_left _ hvm) hv0 hcond
    · exact hold v (List.mem_append_right _ hvm) hv0 hcond
  · intro j x hcx
    rcases (hcl x j).mp hcx with hcx0 | ⟨hxe, _⟩
    · exact h.pend j x hcx0
    · rw [hxe]; exact hView


/-! ## the PATCH loop (no outcome in which the write is applied but reported as failed) -/

theorem patchNode_fail_same (a : Api) (name : String) (cidrs : List Cidr) (h : (a.patchNode name cidrs).2 = false) :
    (a.patchNode name cidrs).1 = a := by
  unfold Api.patchNode at h ⊢
  cases hg : getNode a.nodes name with
  | none => rfl
  | some n =>
    rw [hg] at h
    simp only at h ⊢
    by_cases h1 : (!n.hasCidrs) = true
    · rw [if_pos h1] at h; cases h
    · rw [if_neg h1]
      split <;> rfl

theorem patchLoop_cases (a : Api) (name : String) (cidrs : List Cidr) : ∀ (k : Nat) (ws : List WOut) (acc : List (String × List Cidr × String)),
    (∀ w ∈ ws.take k, w ≠ WOut.lost) →
    ((patchLoop a name cidrs k ws acc).1 = a ∧ (patchLoop a name cidrs k ws acc).2.1 = false) ∨
    ((patchLoop a name cidrs k ws acc).2.1 = true ∧ (a.patchNode name cidrs).2 = true ∧
      (patchLoop a name cidrs k ws acc).1 = (a.patchNode name cidrs).1) := by
  intro k
  induction k with
  | zero => intro ws acc _; left; exact ⟨rfl, rfl⟩
  | succ k ih =>
    intro ws acc hws
    unfold patchLoop
    have htail : ∀ w ∈ ws.tail.take k, w ≠ WOut.lost := by
      intro w hw
      apply hws
      cases ws with
      | nil => simp at hw
      | cons w0 rest => simp only [List.tail_cons] at hw; simp only [List.take_succ_cons, List.mem_cons]; exact Or.inr hw
    have hhead : ws.headD .ok ≠ WOut.lost := by
      cases ws with
      | nil => simp
      | cons w0 rest => simp only [List.headD_cons]; exact hws w0 (by simp)
    cases hw : ws.headD .ok with
    | lost => exact absurd hw hhead
    | fail =>
      simp only [attemptPatch]
      exact ih ws.tail _ htail
    | ok =>
      simp only [attemptPatch]
      by_cases hacc : (a.patchNode name cidrs).2 = true
      · right
        simp [hacc]
      · have hacc' : (a.patchNode name cidrs).2 = false := by simpa using hacc
        have hsame := patchNode_fail_same a name cidrs hacc'
        simp only [hacc', Bool.false_eq_true, ↓reduceIte, hsame]
        rcases ih ws.tail (acc ++ [(name, cidrs, "rejected")]) htail with h | ⟨_, h2, _⟩
        · exact Or.inl h
        · rw [hacc'] at h2; cases h2

theorem putNode_self_eq {l : List NodeObj} (h : (l.map (·.name)).Nodup) {y : NodeObj} (hy : y ∈ l) : putNode l y = l := by
  unfold putNode
  have hany : (l.any fun x => x.name == y.name) = true := by
    rw [List.any_eq_true]; exact ⟨y, hy, by simp⟩
  rw [if_pos hany]
  conv => rhs; rw [← List.map_id l]
  apply List.map_congr_left
  intro x hx
  split
  · rename_i he
    simp only [id]
    exact (eq_of_nodup_names h hx hy (by simpa using he)).symm
  · rfl


/-! ## the second half of an allocation item -/

theorem hasCidrs_false {n : NodeObj} (h : n.hasCidrs = false) : n.junk = false ∧ n.cidrs = [] := by
  unfold NodeObj.hasCidrs at h
  simp only [Bool.or_eq_false_iff, Bool.not_eq_false'] at h
  exact ⟨h.1, by simpa using h.2⟩

theorem inv_update {sB : Sys} (hB : Inv sB) {al : Alloc} (hle : AllocLe sB.alloc al) (hwf : al.WF)
    {name : String} {cidrs : List Cidr} {i : Nat} (hne : cidrs ≠ [])
    (hserved : ∀ cd ∈ cidrs, UsedAt al i cd ∧ cd.WF ∧ sB.alloc.blocked cd = false)
    {a'' : Alloc} (hback : al.releaseAll i cidrs = (a'', true)) (heqv : AllocEqv sB.alloc a'') (hwf'' : a''.WF)
    (hEl : ∀ v ∈ Objs sB, v.name = name → Elig sB.alloc i v.labels)
    (hbranch : ∀ n2, getNode sB.nodeView name = some n2 → ¬ (n2.junk = false ∧ n2.cidrs = cidrs))
    (ws : List WOut) (hws : ∀ w ∈ ws.take 3, w ≠ WOut.lost) :
    Inv (updateCIDRsAllocation { sB with alloc := al } name cidrs i ws).1 := by
  have hP : Inv { sB with alloc := al } := inv_alloc_grow hB al hle hwf
  have hBack : Inv { sB with alloc := a'' } := inv_alloc_grow hB a'' heqv.1 hwf''
  unfold updateCIDRsAllocation
  cases hv : getNode sB.nodeView name with
  | none =>
    simp only [hv, hback]
    exact hBack.congr rfl rfl rfl
  | some n2 =>
    simp only [hv]
    split
    · -- "the cache already shows exactly these CIDRs": impossible here, the blocks would still be in use
      rename_i hcond
      exfalso
      simp only [Bool.and_eq_true, Bool.not_eq_true', decide_eq_true_eq] at hcond
      exact hbranch n2 hv hcond
    · split
      · simp only [hback]
        exact hBack.congr rfl rfl rfl
      · rename_i _ hnc
        have hn2 := hasCidrs_false (by simpa using hnc)
        obtain ⟨hn2m, hn2n⟩ := mem_of_getNode hv
        rcases patchLoop_cases sB.api name cidrs 3 ws [] hws with ⟨hsame, hfalse⟩ | ⟨htrue, hacc, hapi⟩
        · -- every attempt failed: the reservation is given back
          simp only [hfalse, Bool.false_eq_true, ↓reduceIte, hback, hsame]
          exact hBack.congr rfl rfl rfl
        · simp only [htrue, ↓reduceIte, hapi]
          -- the entry that served
          obtain ⟨cd0, hcd0⟩ : ∃ cd, cd ∈ cidrs := by
            cases hcs : cidrs with
            | nil => exact absurd hcs hne
            | cons a _ => exact ⟨a, List.mem_cons_self ..⟩
          obtain ⟨c, _, _, hc, _⟩ := (hserved cd0 hcd0).1
          simp only [hc]
          have hobjsP : Objs { sB with alloc := al } = Objs sB := rfl
          -- the fresh blocks meet nothing any associated node holds
          have hF : ∀ x j, Claims al x j → ∀ v ∈ Objs sB, v.name = x → CidrsDisj cidrs v.cidrs := by
            intro x j hcx v hv hvx a ha b hb hab
            have hcx0 := (claims_le hle x j).mp hcx
            obtain ⟨w, hwm, hwn, hw0, hu⟩ := hB.own j x hcx0
            have hwo : w ∈ Objs sB := by
              unfold Objs
              rcases List.mem_append.mp hwm with hwm | hwm
              · exact List.mem_append_left _ (List.mem_append_left _ hwm)
              · exact List.mem_append_right _ hwm
            have hvw : v.cidrs = w.cidrs := hB.obj.coh v hv w hwo (hvx.trans hwn.symm) (by intro h0; rw [h0] at hb; cases hb) hw0
            rw [hvw] at hb
            exact fresh_disjoint hB.wf (hserved a ha).2.2 (hserved a ha).2.1 (hu b hb) hab.symm
          have hUn : ∀ j, ¬ Claims al name j := by
            intro j hcj
            have hcj0 := (claims_le hle name j).mp hcj
            obtain ⟨w, hwm, hwn, hw0, hu⟩ := hB.own j name hcj0
            -- the API object of the node has no pod CIDRs or exactly the fresh ones; either way nothing of it is in use
            unfold Api.patchNode at hacc
            cases hg : getNode sB.api.nodes name with
            | none => rw [hg] at hacc; cases hacc
            | some y =>
              obtain ⟨hym, hyn⟩ := mem_of_getNode hg
              rw [hg] at hacc
              simp only at hacc
              rcases List.mem_append.mp hwm with hwm | hwm
              · have hwy : w = y := eq_of_nodup_names hB.nodupApi hwm hym (hwn.trans hyn.symm)
                subst hwy
                by_cases h1 : (!w.hasCidrs) = true
                · have := (hasCidrs_false (by simpa using h1)).2
                  exact hw0 this
                · rw [if_neg h1] at hacc
                  split at hacc
                  · rename_i h2
                    simp only [Bool.and_eq_true, Bool.not_eq_true', decide_eq_true_eq] at h2
                    have hb := hu cd0 (by rw [h2.2]; exact hcd0)
                    have := fresh_disjoint hB.wf (hserved cd0 hcd0).2.2 (hserved cd0 hcd0).2.1 hb rfl
                    have hp := cd0.size_pos
                    unfold Cidr.Disjoint at this
                    omega
                  · cases hacc
              · exact hB.gravesFresh w hwm y hym (hwn.trans hyn.symm)
          have hElP : ∀ v ∈ Objs sB, v.name = name → Elig al i v.labels := fun v hv hvn => elig_le hle (hEl v hv hvn)
          have hViewNo : ∀ v ∈ sB.nodeView, v.name = name → v.cidrs = [] := by
            intro v hvm hvn
            rw [eq_of_nodup_names hB.nodupView hvm hn2m (hvn.trans hn2n.symm)]; exact hn2.2
          have hU : ∀ cd ∈ cidrs, UsedAt al i cd ∧ cd.WF := fun cd hcd => ⟨(hserved cd hcd).1, (hserved cd hcd).2.1⟩
          -- the two ways the server accepts
          unfold Api.patchNode at hacc ⊢
          cases hg : getNode sB.api.nodes name with
          | none => rw [hg] at hacc; cases hacc
          | some y =>
            obtain ⟨hym, hyn⟩ := mem_of_getNode hg
            rw [hg] at hacc
            simp only at hacc ⊢
            have key := inv_assign hP hne hU hF hElP ⟨n2, hn2m, hn2n⟩ hViewNo hUn y hg c hc
            by_cases h1 : (!y.hasCidrs) = true
            · rw [if_pos h1]
              exact key
            · rw [if_neg h1] at hacc ⊢
              split at hacc
              · rename_i h2
                rw [if_pos h2]
                simp only [Bool.and_eq_true, Bool.not_eq_true', decide_eq_true_eq] at h2
                have hyy : ({ y with cidrs := cidrs } : NodeObj) = y := by
                  cases y; simp only at h2; simp [h2.2]
                rw [hyy, putNode_self_eq hB.nodupApi hym] at key
                exact key
              · cases hacc



/-! ## one node item -/

theorem elig_of_mem_ordered {a : Alloc} {ls : Labels} {i : Nat} (h : i ∈ a.ordered ls true) : Elig a i ls := by
  obtain ⟨c, hg, _, hm⟩ := C02.ordered_mem_eligible a ls i h
  refine ⟨c, hg, ?_⟩
  rcases hm with hm | hm
  · exact Or.inl ((C17.matchCIDR_iff _ _).mpr hm)
  · exact Or.inr (by simp [hm])

theorem getNode_delNode_self (l : List NodeObj) (n : String) : getNode (delNode l n) n = none := by
  rw [getNode_none_iff]
  intro o ho
  exact (mem_delNode.mp ho).2

theorem getNode_putNode_self (l : List NodeObj) (o : NodeObj) : getNode (putNode l o) o.name = some o := by
  cases h : getNode (putNode l o) o.name with
  | none => exact absurd rfl (getNode_none_iff.mp h o (mem_putNode_self l o))
  | some x =>
    obtain ⟨hxm, hxn⟩ := mem_of_getNode h
    rcases mem_putNode hxm with rfl | ⟨_, hne⟩
    · rfl
    · exact absurd hxn hne

theorem inv_allocateOrOccupy {s : Sys} (h : Inv s) (n : NodeObj) (hn : n ∈ s.nodeView) (hnd : n.deleting = false)
    (refresh : Bool) (ws : List WOut) (hws : ∀ w ∈ ws.take 3, w ≠ WOut.lost) :
    Inv (allocateOrOccupy s n refresh ws).1 := by
  have hno : n ∈ Objs s := List.mem_append_left _ (List.mem_append_right _ hn)
  have hjunk := h.obj.nojunk n hno
  unfold allocateOrOccupy
  split
  · -- the cached node has pod CIDRs: re-sync
    rename_i hc
    have hc0 : n.cidrs ≠ [] := by
      intro h0
      unfold NodeObj.hasCidrs at hc
      simp [hjunk, h0] at hc
    obtain ⟨i₀, hcl, hu⟩ := h.held n (List.mem_append_right _ hn) hc0 (Or.inl hnd)
    have key : Inv { s with alloc := (occupyCIDRs s.alloc n).1 } := by
      unfold occupyCIDRs
      simp only
      split
      · exact h.congr rfl rfl rfl
      · rw [if_neg (by simp [hjunk])]
        obtain ⟨hle, hwf⟩ := occupyNode_grow n.name n.cidrs i₀ hc0 _ s.alloc h.wf h.rd hcl hu
        exact inv_alloc_grow h _ hle hwf
    cases hoc : occupyCIDRs s.alloc n with
    | mk al okk =>
      rw [hoc] at key
      cases okk <;> exact key.congr rfl rfl rfl
  · rename_i hc
    have hcf : n.hasCidrs = false := by simpa using hc
    cases hp : s.alloc.prioritized (s.alloc.ordered n.labels true) with
    | mk al r =>
      obtain ⟨hle, hwf, heq⟩ := prioritized_le h.wf _ hp
      have hgrow : Inv { s with alloc := al } := inv_alloc_grow h al hle hwf
      cases r with
      | none => exact hgrow.congr rfl rfl rfl
      | some ci =>
        obtain ⟨cidrs, i⟩ := ci
        simp only
        split
        · exact hgrow.congr rfl rfl rfl
        · rename_i hemp
          have hne : cidrs ≠ [] := by intro h0; rw [h0] at hemp; simp at hemp
          obtain ⟨hil, hserved⟩ := prioritized_served h.wf _ hp
          obtain ⟨a'', hback, heqv, hwf''⟩ := prioritized_then_release h.wf _ hp
          have hEl0 : ∀ v ∈ Objs s, v.name = n.name → Elig s.alloc i v.labels := by
            intro v hv hvn
            rw [h.obj.lab v hv n hno hvn]
            exact elig_of_mem_ordered hil
          split
          · -- the cache catches up in the middle of the item
            cases hg : getNode s.api.nodes n.name with
            | some cur =>
              simp only
              obtain ⟨hcm, _⟩ := mem_of_getNode hg
              have hB : Inv { s with nodeView := putNode s.nodeView cur, nodeQ := qAdd s.nodeQ n.name } :=
                (inv_view_put h n.name cur hg).congr rfl rfl rfl
              obtain ⟨_, hcn⟩ := mem_of_getNode hg
              apply inv_update hB hle hwf hne hserved hback heqv hwf'' _ _ ws hws
              · intro v hv hvn
                apply hEl0 v _ hvn
                unfold Objs at hv ⊢
                simp only [List.mem_append] at hv ⊢
                rcases hv with (hv | hv) | hv
                · exact Or.inl (Or.inl hv)
                · rcases mem_putNode hv with rfl | ⟨hv, _⟩
                  · exact Or.inl (Or.inl hcm)
                  · exact Or.inl (Or.inr hv)
                · exact Or.inr hv
              · intro n2 hn2
                have : getNode (putNode s.nodeView cur) n.name = some cur := by rw [← hcn]; exact getNode_putNode_self _ _
                simp only at hn2
                rw [this] at hn2; cases hn2
                rintro ⟨_, hcc⟩
                -- the API object would hold exactly the fresh blocks: but as long as the cache shows the node alive they are in use
                obtain ⟨cd0, hcd0⟩ : ∃ cd, cd ∈ cidrs := by
                  cases hcs : cidrs with
                  | nil => exact absurd hcs hne
                  | cons a _ => exact ⟨a, List.mem_cons_self ..⟩
                obtain ⟨i', _, hu'⟩ := h.held cur (List.mem_append_left _ hcm) (by rw [hcc]; exact hne)
                  (Or.inr ⟨n, hn, hcn.symm, hnd⟩)
                have hb := hu' cd0 (by rw [hcc]; exact hcd0)
                have := fresh_disjoint h.wf (hserved cd0 hcd0).2.2 (hserved cd0 hcd0).2.1 hb rfl
                have hp := cd0.size_pos
                unfold Cidr.Disjoint at this
                omega
            | none =>
              simp only
              -- the item fails on its second read and gives the reservation back; then the delete handler runs
              have hupd : ∀ sX : Sys, getNode sX.nodeView n.name = none → sX.alloc = al →
                  (updateCIDRsAllocation sX n.name cidrs i ws).1 = { sX with alloc := a'' } := by
                intro sX h1 h2
                unfold updateCIDRsAllocation
                simp only [h1, h2, hback]
              rw [hupd _ (getNode_delNode_self _ _) rfl]
              have hE : Inv { s with alloc := a'' } := inv_alloc_grow h a'' heqv.1 hwf''
              have hvn : getNode s.nodeView n.name = some n := by
                cases hgv : getNode s.nodeView n.name with
                | none => exact absurd rfl (getNode_none_iff.mp hgv n hn)
                | some m =>
                  obtain ⟨hmm, hmn⟩ := mem_of_getNode hgv
                  rw [eq_of_nodup_names h.nodupView hmm hn hmn]
              exact (inv_gone hE n.name hg n hvn).congr rfl rfl rfl
          · apply inv_update h hle hwf hne hserved hback heqv hwf'' hEl0 _ ws hws
            intro n2 hn2
            have hvn : getNode s.nodeView n.name = some n := by
              cases hgv : getNode s.nodeView n.name with
              | none => exact absurd rfl (getNode_none_iff.mp hgv n hn)
              | some m =>
                obtain ⟨hmm, hmn⟩ := mem_of_getNode hgv
                rw [eq_of_nodup_names h.nodupView hmm hn hmn]
            rw [hvn] at hn2; cases hn2
            rintro ⟨_, hcc⟩
            exact hne (hcc ▸ (hasCidrs_false hcf).2)


theorem inv_procNodeCore {s : Sys} (h : Inv s) (name : String) (refresh : Bool) (ws : List WOut)
    (hws : ∀ w ∈ ws.take 3, w ≠ WOut.lost) : Inv (procNodeCore s name refresh ws).1 := by
  unfold procNodeCore
  cases hv : getNode s.nodeView name with
  | none => exact h
  | some n =>
    obtain ⟨hnm, _⟩ := mem_of_getNode hv
    simp only
    split
    · rename_i hd
      have key := inv_release_deleting h n hnm hd
      cases hr : releaseCIDR s.alloc n with
      | mk al okk =>
        rw [hr] at key
        cases okk <;> exact key.congr rfl rfl rfl
    · rename_i hd
      exact inv_allocateOrOccupy h n hnm (by simpa using hd) refresh ws hws

theorem inv_procNode {s : Sys} (h : Inv s) (name : String) (refresh : Bool) (ws : List WOut)
    (hws : ∀ w ∈ ws.take 3, w ≠ WOut.lost) : Inv (procNode s name refresh ws).1 := by
  unfold procNode
  have h0 : Inv { s with nodeQ := qDel s.nodeQ name } := h.congr rfl rfl rfl
  have key := inv_procNodeCore h0 name refresh ws hws
  simp only
  split
  · exact key.congr rfl rfl rfl
  · exact key

/-! ## ClusterCIDRs come and go: re-indexing the entries -/

theorem Inv.congr' {s s' : Sys} (h : Inv s) (hn : s'.api.nodes = s.api.nodes) (hg : s'.api.graves = s.api.graves)
    (hv : s'.nodeView = s.nodeView) (hal : s'.alloc = s.alloc) : Inv s' := by
  obtain ⟨⟨nodes, ccs, graves⟩, nv, cv, al, nq, cq, sv⟩ := s
  obtain ⟨⟨nodes', ccs', graves'⟩, nv', cv', al', nq', cq', sv'⟩ := s'
  simp only at hn hg hv hal
  subst hn hg hv hal
  exact ⟨h.wf, h.rd, h.nodupApi, h.nodupView, h.nodupGraves, h.graveOrApi, h.obj, h.delMono, h.gravesFresh, h.own, h.uniq,
    h.held, h.pend⟩

/-- two entries that differ at most in the terminating flag, the name and counters that play no role here -/
def SameCC (c c' : CC) : Prop := c'.assoc = c.assoc ∧ c'.key = c.key ∧ c'.reqs = c.reqs ∧ ∀ g, c'.pool g = c.pool g

/-- the entries of `a'` are those of `a` under the partial renumbering `φ`; entries dropped or added associate no node -/
structure Remap (a a' : Alloc) (φ : Nat → Option Nat) : Prop where
  fwd : ∀ j c, a.get? j = some c → (φ j = none ∧ c.assoc = []) ∨ ∃ j' c', φ j = some j' ∧ a'.get? j' = some c' ∧ SameCC c c'
  bwd : ∀ j' c', a'.get? j' = some c' → c'.assoc = [] ∨ ∃ j c, φ j = some j' ∧ a.get? j = some c ∧ SameCC c c'

theorem Remap.claims_bwd {a a' : Alloc} {φ : Nat → Option Nat} (h : Remap a a' φ) {x : String} {j' : Nat}
    (hc : Claims a' x j') : ∃ j, φ j = some j' ∧ Claims a x j := by
  obtain ⟨c', hg, hx⟩ := hc
  rcases h.bwd j' c' hg with h0 | ⟨j, c, hφ, hgc, hs⟩
  · rw [h0] at hx; cases hx
  · exact ⟨j, hφ, c, hgc, by rw [← hs.1]; exact hx⟩

theorem Remap.claims_fwd {a a' : Alloc} {φ : Nat → Option Nat} (h : Remap a a' φ) {x : String} {j : Nat}
    (hc : Claims a x j) : ∃ j', φ j = some j' ∧ Claims a' x j' := by
  obtain ⟨c, hg, hx⟩ := hc
  rcases h.fwd j c hg with ⟨_, h0⟩ | ⟨j', c', hφ, hgc, hs⟩
  · rw [h0] at hx; cases hx
  · exact ⟨j', hφ, c', hgc, by rw [hs.1]; exact hx⟩

theorem Remap.usedAt {a a' : Alloc} {φ : Nat → Option Nat} (h : Remap a a' φ) {j j' : Nat} (hφ : φ j = some j') {cd : Cidr}
    (hu : UsedAt a j cd) : UsedAt a' j' cd := by
  obtain ⟨c, p, k, hg, hp, hk, hb⟩ := hu
  rcases h.fwd j c hg with ⟨h0, _⟩ | ⟨j'', c', hφ', hgc, hs⟩
  · rw [h0] at hφ; cases hφ
  · rw [hφ] at hφ'; cases hφ'
    exact ⟨c', p, k, hgc, by rw [hs.2.2.2]; exact hp, hk, hb⟩

theorem Remap.elig {a a' : Alloc} {φ : Nat → Option Nat} (h : Remap a a' φ) {j j' : Nat} (hφ : φ j = some j') {ls : Labels}
    (he : Elig a j ls) : Elig a' j' ls := by
  obtain ⟨c, hg, hm⟩ := he
  rcases h.fwd j c hg with ⟨h0, _⟩ | ⟨j'', c', hφ', hgc, hs⟩
  · rw [h0] at hφ; cases hφ
  · rw [hφ] at hφ'; cases hφ'
    exact ⟨c', hgc, by rw [hs.2.2.1, hs.2.1]; exact hm⟩

/-- the set of mapped ClusterCIDRs changed (one mapped, one marked terminating, one without associated nodes dropped) -/
theorem inv_remap {s : Sys} (h : Inv s) {a' : Alloc} {φ : Nat → Option Nat} (hr : Remap s.alloc a' φ)
    (hwf : a'.WF) (hrd : RangesDisj a') : Inv { s with alloc := a' } := by
  constructor
  · exact hwf
  · exact hrd
  · exact h.nodupApi
  · exact h.nodupView
  · exact h.nodupGraves
  · exact h.graveOrApi
  · refine ⟨h.obj.nojunk, h.obj.cidrWF, h.obj.coh, h.obj.lab, ?_, ?_⟩
    · intro i' j' x x' hc hc' hne
      obtain ⟨i, _, hci⟩ := hr.claims_bwd hc
      obtain ⟨j, _, hcj⟩ := hr.claims_bwd hc'
      exact h.obj.disj i j x x' hci hcj hne
    · intro i' x hc v hv hvx
      obtain ⟨i, hφ, hci⟩ := hr.claims_bwd hc
      exact hr.elig hφ (h.obj.elig i x hci v hv hvx)
  · exact h.delMono
  · exact h.gravesFresh
  · intro i' x hc
    obtain ⟨i, hφ, hci⟩ := hr.claims_bwd hc
    obtain ⟨v, hv, hvn, hv0, hu⟩ := h.own i x hci
    exact ⟨v, hv, hvn, hv0, fun cd hcd => hr.usedAt hφ (hu cd hcd)⟩
  · intro i' j' x hc hc'
    obtain ⟨i, hφi, hci⟩ := hr.claims_bwd hc
    obtain ⟨j, hφj, hcj⟩ := hr.claims_bwd hc'
    have := h.uniq i j x hci hcj
    subst this
    rw [hφi] at hφj; cases hφj; rfl
  · intro v hv hv0 hcond
    obtain ⟨i, hci, hu⟩ := h.held v hv hv0 hcond
    obtain ⟨i', hφ, hci'⟩ := hr.claims_fwd hci
    exact ⟨i', hci', fun cd hcd => hr.usedAt hφ (hu cd hcd)⟩
  · intro i' x hc
    obtain ⟨i, _, hci⟩ := hr.claims_bwd hc
    exact h.pend i x hci


theorem SameCC.refl (c : CC) : SameCC c c := ⟨rfl, rfl, rfl, fun _ => rfl⟩

theorem remap_append (a : Alloc) (c : CC) (hc : c.assoc = []) : Remap a ⟨a.ccs ++ [c]⟩ some := by
  constructor
  · intro j d hd
    right
    refine ⟨j, d, rfl, ?_, SameCC.refl d⟩
    unfold Alloc.get? at hd ⊢
    have hlt := (List.getElem?_eq_some_iff.mp hd).1
    simp only
    rw [List.getElem?_append_left hlt]; exact hd
  · intro j' d' hd'
    unfold Alloc.get? at hd'
    simp only at hd'
    by_cases hlt : j' < a.ccs.length
    · rw [List.getElem?_append_left hlt] at hd'
      exact Or.inr ⟨j', d', rfl, hd', SameCC.refl d'⟩
    · left
      rw [List.getElem?_append_right (by omega)] at hd'
      have : j' - a.ccs.length = 0 := by
        have := (List.getElem?_eq_some_iff.mp hd').1
        simp at this; omega
      rw [this] at hd'
      simp at hd'
      rw [← hd']; exact hc

theorem remap_set_term (a : Alloc) (i : Nat) (c : CC) (hg : a.get? i = some c) :
    Remap a (a.set i { c with term := true }) some := by
  have hs : SameCC c { c with term := true } := ⟨rfl, rfl, rfl, fun g => by cases g <;> rfl⟩
  constructor
  · intro j d hd
    right
    by_cases hij : i = j
    · subst hij
      rw [hg] at hd; cases hd
      exact ⟨i, _, rfl, Alloc.get?_set_self _ _ _ _ hg, hs⟩
    · exact ⟨j, d, rfl, by rw [Alloc.get?_set_ne _ _ _ _ hij]; exact hd, SameCC.refl d⟩
  · intro j' d' hd'
    right
    by_cases hij : i = j'
    · subst hij
      rw [Alloc.get?_set_self _ _ _ _ hg] at hd'; cases hd'
      exact ⟨i, c, rfl, hg, hs⟩
    · rw [Alloc.get?_set_ne _ _ _ _ hij] at hd'
      exact ⟨j', d', rfl, hd', SameCC.refl d'⟩

def dropMap (i : Nat) (j : Nat) : Option Nat := if j < i then some j else if j = i then none else some (j - 1)

theorem remap_erase (a : Alloc) (i : Nat) (c : CC) (hg : a.get? i = some c) (hc : c.assoc = []) :
    Remap a ⟨a.ccs.eraseIdx i⟩ (dropMap i) := by
  constructor
  · intro j d hd
    unfold dropMap
    by_cases h1 : j < i
    · right
      refine ⟨j, d, by simp [h1], ?_, SameCC.refl d⟩
      unfold Alloc.get? at hd ⊢
      simp only
      rw [List.getElem?_eraseIdx]; simp [h1]; exact hd
    · by_cases h2 : j = i
      · left
        subst h2
        rw [hg] at hd; cases hd
        exact ⟨by simp, hc⟩
      · right
        refine ⟨j - 1, d, by simp [h1, h2], ?_, SameCC.refl d⟩
        unfold Alloc.get? at hd ⊢
        simp only
        rw [List.getElem?_eraseIdx]
        have : ¬ (j - 1 < i) := by omega
        simp only [this, ↓reduceIte]
        have : j - 1 + 1 = j := by omega
        rw [this]; exact hd
  · intro j' d' hd'
    right
    unfold Alloc.get? at hd'
    simp only at hd'
    rw [List.getElem?_eraseIdx] at hd'
    unfold dropMap
    by_cases h1 : j' < i
    · simp only [h1, ↓reduceIte] at hd'
      exact ⟨j', d', by simp [h1], hd', SameCC.refl d'⟩
    · simp only [h1, ↓reduceIte] at hd'
      refine ⟨j' + 1, d', ?_, hd', SameCC.refl d'⟩
      have h3 : ¬ (j' + 1 < i) := by omega
      have h4 : ¬ (j' + 1 = i) := by omega
      simp [h3, h4]

/-- what `deleteClusterCIDR` does to the list of entries -/
theorem delFirst_cases (key name : String) : ∀ (l l' : List CC) (r : DelResult), delFirst key name l = (l', r) →
    l' = l ∨ (∃ i c, l[i]? = some c ∧ l' = l.set i { c with term := true }) ∨
    (∃ i c, l[i]? = some c ∧ c.assoc = [] ∧ l' = l.eraseIdx i) := by
  intro l
  induction l with
  | nil => intro l' r h; simp [delFirst] at h; left; exact h.1
  | cons c t ih =>
    intro l' r h
    unfold delFirst at h
    split at h
    · split at h
      · simp only [Prod.mk.injEq] at h
        right; left
        exact ⟨0, c, rfl, by rw [← h.1]; rfl⟩
      · rename_i hlen
        simp only [Prod.mk.injEq] at h
        right; right
        refine ⟨0, c, rfl, ?_, by rw [← h.1]; rfl⟩
        cases hca : c.assoc with
        | nil => rfl
        | cons _ _ => rw [hca] at hlen; simp at hlen
    · cases hd : delFirst key name t with
      | mk t' r' =>
        rw [hd] at h
        simp only [Prod.mk.injEq] at h
        obtain ⟨rfl, rfl⟩ := h
        rcases ih t' r' hd with h1 | ⟨i, d, hi, h2⟩ | ⟨i, d, hi, ha, h3⟩
        · left; rw [h1]
        · right; left
          exact ⟨i + 1, d, by simpa using hi, by rw [h2]; rfl⟩
        · right; right
          exact ⟨i + 1, d, by simpa using hi, ha, by rw [h3]; rfl⟩


theorem updateCC_graves (a : Api) (name : String) (rv : Nat) (fins : List String) :
    (a.updateCC name rv fins).1.graves = a.graves := by
  unfold Api.updateCC
  split
  · rfl
  · split
    · rfl
    · split <;> rfl

theorem attemptUpdate_graves (a : Api) (name : String) (rv : Nat) (fins : List String) (w : WOut) :
    (attemptUpdate a name rv fins w).1.graves = a.graves := by
  unfold attemptUpdate
  cases w <;> simp only <;> first | rfl | exact updateCC_graves ..

theorem buildCC_assoc {key : String} {reqs : List Req} {name : String} {spec : CCSpec} {t : Bool} {c : CC}
    (h : buildCC key reqs name spec t = some c) : c.assoc = [] := by
  unfold buildCC at h
  split at h
  · cases h
  · split at h
    · cases h
    · split at h
      · cases h
      · cases h; rfl

/-- a ClusterCIDR is mapped (or found already mapped) -/
theorem inv_createCC {s : Sys} (h : Inv s) {name : String} {spec : CCSpec} {t : Bool} (hs : C09.SpecOK spec)
    {al : Alloc} (hc : s.alloc.createCC name spec t = some al) (hrd : RangesDisj al) : Inv { s with alloc := al } := by
  have hwf := C09.createCC_WF h.wf hs hc
  unfold Alloc.createCC at hc
  cases hsel : selectorOf spec.sel with
  | none => rw [hsel] at hc; cases hc
  | some reqs =>
    rw [hsel] at hc
    simp only at hc
    split at hc
    · cases hc; exact h.congr rfl rfl rfl
    · cases hb : buildCC (printSel reqs) reqs name spec t with
      | none => rw [hb] at hc; cases hc
      | some c =>
        rw [hb] at hc
        cases hc
        exact inv_remap h (remap_append s.alloc c (buildCC_assoc hb)) hwf hrd

theorem inv_createClusterCIDR {s : Sys} (h : Inv s) (o : CCObj) (t : Bool) (w : WOut) (hs : C09.SpecOK o.spec)
    (hrd : ∀ al, s.alloc.createCC o.name o.spec t = some al → RangesDisj al) : Inv (createClusterCIDR s o t w).1 := by
  unfold createClusterCIDR
  cases hc : s.alloc.createCC o.name o.spec t with
  | none => exact h
  | some al =>
    simp only
    have key := inv_createCC h hs hc (hrd al hc)
    exact key.congr' (C09.attemptUpdate_nodes _ _ _ _ _) (attemptUpdate_graves _ _ _ _ _) rfl rfl

theorem get?_mk_set (l : List CC) (i : Nat) (c : CC) : (Alloc.mk l).set i c = ⟨l.set i c⟩ := rfl

/-- a ClusterCIDR is marked terminating, or unmapped when no node is associated with it -/
theorem inv_deleteCC {s : Sys} (h : Inv s) (name : String) (spec : CCSpec) :
    Inv { s with alloc := (s.alloc.deleteCC name spec).1 } := by
  unfold Alloc.deleteCC
  cases hsel : selectorOf spec.sel with
  | none => exact h.congr rfl rfl rfl
  | some reqs =>
    simp only
    cases hd : delFirst (printSel reqs) name s.alloc.ccs with
    | mk l' r =>
      simp only
      rcases delFirst_cases _ _ _ _ _ hd with h1 | ⟨i, c, hi, h2⟩ | ⟨i, c, hi, ha, h3⟩
      · subst h1; exact h.congr rfl rfl rfl
      · -- marked terminating
        have hg : s.alloc.get? i = some c := hi
        have hr := remap_set_term s.alloc i c hg
        have heq : (⟨l'⟩ : Alloc) = s.alloc.set i { c with term := true } := by rw [h2]; rfl
        rw [heq]
        have hcw : ({ c with term := true } : CC).WF := by
          intro g p hp
          have : ({ c with term := true } : CC).pool g = c.pool g := by cases g <;> rfl
          rw [this] at hp
          exact h.wf i c hg g p hp
        refine inv_remap h hr (Alloc.WF_set h.wf hcw) ?_
        intro j j' d d' f p q hj hj' hp hq hne
        have key : ∀ k e, (s.alloc.set i { c with term := true }).get? k = some e → ∃ e0, s.alloc.get? k = some e0 ∧ ∀ g, e.pool g = e0.pool g := by
          intro k e he
          by_cases hik : i = k
          · subst hik
            rw [Alloc.get?_set_self _ _ _ _ hg] at he; cases he
            exact ⟨c, hg, fun g => by cases g <;> rfl⟩
          · rw [Alloc.get?_set_ne _ _ _ _ hik] at he
            exact ⟨e, he, fun _ => rfl⟩
        obtain ⟨d0, hd0, hpe⟩ := key j d hj
        obtain ⟨d0', hd0', hpe'⟩ := key j' d' hj'
        rw [hpe] at hp; rw [hpe'] at hq
        exact h.rd j j' d0 d0' f p q hd0 hd0' hp hq hne
      · -- unmapped
        have hg : s.alloc.get? i = some c := hi
        have hr := remap_erase s.alloc i c hg ha
        subst h3
        have key : ∀ k e, (Alloc.mk (s.alloc.ccs.eraseIdx i)).get? k = some e →
            s.alloc.get? (if k < i then k else k + 1) = some e := by
          intro k e he
          unfold Alloc.get? at he ⊢
          simp only at he
          rw [List.getElem?_eraseIdx] at he
          split at he <;> rename_i hki <;> simp only [hki, ↓reduceIte] <;> exact he
        refine inv_remap h hr ?_ ?_
        · intro k e he
          exact h.wf _ e (key k e he)
        · intro j j' d d' f p q hj hj' hp hq hne
          refine h.rd _ _ d d' f p q (key j d hj) (key j' d' hj') hp hq ?_
          split <;> split <;> omega


theorem inv_reconcileDelete {s : Sys} (h : Inv s) (o : CCObj) (w : WOut) : Inv (reconcileDelete s o w).1 := by
  unfold reconcileDelete
  split
  · have key := inv_deleteCC h o.name o.spec
    cases hd : s.alloc.deleteCC o.name o.spec with
    | mk al r =>
      rw [hd] at key
      cases r <;> simp only
      · exact key.congr' (C09.attemptUpdate_nodes _ _ _ _ _) (attemptUpdate_graves _ _ _ _ _) rfl rfl
      · exact key.congr' (C09.attemptUpdate_nodes _ _ _ _ _) (attemptUpdate_graves _ _ _ _ _) rfl rfl
      · exact key.congr rfl rfl rfl
      · exact key.congr rfl rfl rfl
  · exact h

/-- what the fragment asks of a ClusterCIDR about to be mapped: ranges the model's theorems cover, disjoint from
the ranges already mapped -/
def NewCCOK (s : Sys) (obj : CCObj) : Prop :=
  C09.SpecOK obj.spec ∧ ∀ al, s.alloc.createCC obj.name obj.spec false = some al → RangesDisj al

theorem inv_procCCCore {s : Sys} (h : Inv s) (name : String) (w : WOut)
    (hnew : ∀ obj, getCC s.ccView name = some obj → obj.deleting = false → NewCCOK s obj) :
    Inv (procCCCore s name w).1 := by
  unfold procCCCore
  cases hg : getCC s.ccView name with
  | none => exact h
  | some obj =>
    simp only
    split
    · exact inv_reconcileDelete h obj w
    · rename_i hd
      split
      · obtain ⟨hs, hrd⟩ := hnew obj hg (by simpa using hd)
        exact inv_createClusterCIDR h obj false w hs hrd
      · exact h

theorem inv_procCC {s : Sys} (h : Inv s) (name : String) (w : WOut)
    (hnew : ∀ obj, getCC s.ccView name = some obj → obj.deleting = false → NewCCOK s obj) :
    Inv (procCC s name w).1 := by
  unfold procCC
  have h0 : Inv { s with ccQ := qDel s.ccQ name } := h.congr rfl rfl rfl
  have key := inv_procCCCore (s := { s with ccQ := qDel s.ccQ name }) h0 name w hnew
  simp only
  split
  · exact key.congr rfl rfl rfl
  · exact key

/-! ## the fragment and the history theorem -/

/-- The events of the fragment.  Excluded, each because of a recorded finding or because it is outside this
theorem's scope: restarts (P10, P12), label edits (P8), nodes created with or handed pod CIDRs by somebody
else (P18), re-creation of a node before its deletion was delivered (P21), tombstones that carry a stale state
(P19), node writes that are applied but reported as failed (P13), and ClusterCIDRs whose ranges overlap ranges
already mapped (P9, P11, P12, P22).  ClusterCIDRs with ranges disjoint from the mapped ones may be created and
deleted at any time, with any write outcomes, retried, notified late. -/
def Frag (s : Sys) : Ev → Prop
  | .nodeAdd n => n.cidrs = [] ∧ n.junk = false ∧ getNode s.nodeView n.name = none
  | .nodeDel _ => True
  | .nodeDeleting _ => True
  | .deliverNode name tomb => tomb = true → (getNode s.api.nodes name).isSome = true
  | .procNode _ _ ws => ∀ w ∈ ws.take 3, w ≠ WOut.lost
  | .ccAdd _ _ => True
  | .ccDel _ => True
  | .ccGen _ _ => True
  | .ccAddFin _ _ => True
  | .deliverCC _ => True
  | .procCC name _ => ∀ obj, getCC s.ccView name = some obj → obj.deleting = false → NewCCOK s obj
  | _ => False

theorem inv_step {s : Sys} (h : Inv s) (e : Ev) (hf : Frag s e) : Inv (step s e).1 := by
  cases e with
  | nodeAdd n =>
    obtain ⟨hc, hj, hv⟩ := hf
    cases ha : getNode s.api.nodes n.name with
    | none => exact inv_nodeAdd h n hc hj hv ha
    | some y =>
      have : (step s (.nodeAdd n)).1 = s := by simp [step, ha]
      rw [this]; exact h
  | nodeDel name => exact inv_nodeDel h name
  | nodeDeleting name => exact inv_nodeDeleting h name
  | deliverNode name tomb =>
    cases hg : getNode s.api.nodes name with
    | some cur => exact inv_deliver_present h name tomb cur hg
    | none =>
      cases tomb with
      | false => exact inv_deliver_gone h name hg
      | true =>
        have := hf rfl
        rw [hg] at this; cases this
  | procNode name refresh ws =>
    show Inv (if s.nodeQ.contains name then procNode s name refresh ws else (s, {})).1
    split
    · exact inv_procNode h name refresh ws hf
    · exact h
  | boot _ _ => exact hf.elim
  | nodeLabels _ _ => exact hf.elim
  | nodeSetCIDRs _ _ => exact hf.elim
  | ccAdd name spec =>
    cases hg : getCC s.api.ccs name with
    | some o =>
      have : (step s (.ccAdd name spec)).1 = s := by simp [step, hg]
      rw [this]; exact h
    | none =>
      have : (step s (.ccAdd name spec)).1 = { s with api := { s.api with ccs := s.api.ccs ++ [⟨name, spec, [], false, 1, freshRv s⟩] } } := by
        simp [step, hg]
      rw [this]; exact h.congr' rfl rfl rfl rfl
  | ccDel name =>
    cases hg : getCC s.api.ccs name with
    | none =>
      have : (step s (.ccDel name)).1 = s := by simp [step, hg]
      rw [this]; exact h
    | some o =>
      by_cases hfin : o.finalizers.isEmpty = true
      · have : (step s (.ccDel name)).1 = { s with api := { s.api with ccs := delCC s.api.ccs name } } := by
          simp [step, hg, hfin]
        rw [this]; exact h.congr' rfl rfl rfl rfl
      · have : (step s (.ccDel name)).1 = { s with api := { s.api with ccs := putCC s.api.ccs { o with deleting := true, rv := o.rv + 1 } } } := by
          simp [step, hg, hfin]
        rw [this]; exact h.congr' rfl rfl rfl rfl
  | ccGen name g =>
    cases hg : getCC s.api.ccs name with
    | none =>
      have : (step s (.ccGen name g)).1 = s := by simp [step, hg]
      rw [this]; exact h
    | some o =>
      have : (step s (.ccGen name g)).1 = { s with api := { s.api with ccs := putCC s.api.ccs { o with generation := g, rv := o.rv + 1 } } } := by
        simp [step, hg]
      rw [this]; exact h.congr' rfl rfl rfl rfl
  | ccAddFin name fin =>
    cases hg : getCC s.api.ccs name with
    | none =>
      have : (step s (.ccAddFin name fin)).1 = s := by simp [step, hg]
      rw [this]; exact h
    | some o =>
      by_cases hfin : fin ∈ o.finalizers
      · have : (step s (.ccAddFin name fin)).1 = s := by simp [step, hg, hfin]
        rw [this]; exact h
      · have : (step s (.ccAddFin name fin)).1 = { s with api := { s.api with ccs := putCC s.api.ccs { o with finalizers := o.finalizers ++ [fin], rv := o.rv + 1 } } } := by
          simp [step, hg, hfin]
        rw [this]; exact h.congr' rfl rfl rfl rfl
  | deliverCC name =>
    cases hg : getCC s.api.ccs name with
    | some cur =>
      have : (step s (.deliverCC name)).1 = { s with ccView := putCC s.ccView cur, ccQ := qAdd s.ccQ name } := by
        simp [step, hg]
      rw [this]; exact h.congr rfl rfl rfl
    | none =>
      by_cases hv : (getCC s.ccView name).isSome = true
      · have : (step s (.deliverCC name)).1 = { s with ccView := delCC s.ccView name, ccQ := qAdd s.ccQ name } := by
          simp [step, hg, hv]
        rw [this]; exact h.congr rfl rfl rfl
      · have : (step s (.deliverCC name)).1 = s := by simp [step, hg, hv]
        rw [this]; exact h
  | procCC name w =>
    show Inv (if s.ccQ.contains name then procCC s name w else (s, {})).1
    split
    · exact inv_procCC h name w hf
    · exact h

/-- every event of the history is in the fragment, judged in the state it happens in -/
def FragAll : Sys → List Ev → Prop
  | _, [] => True
  | s, e :: rest => Frag s e ∧ FragAll (step s e).1 rest

theorem inv_run : ∀ (evs : List Ev) (s : Sys), Inv s → FragAll s evs → Inv (run s evs) := by
  intro evs
  induction evs with
  | nil => intro s h _; exact h
  | cons e rest ih =>
    intro s h hf
    have : run s (e :: rest) = run (step s e).1 rest := by simp [run]
    rw [this]
    exact ih _ (inv_step h e hf.1) hf.2


/-! ## where histories start, and what the invariant gives -/

/-- a controller that has mapped ClusterCIDRs with pairwise disjoint ranges, associates no node yet, and a cluster
whose nodes have no pod CIDRs and have not been shown to the controller -/
theorem inv_init (s : Sys) (hwf : s.alloc.WF) (hrd : RangesDisj s.alloc)
    (hassoc : ∀ i c, s.alloc.get? i = some c → c.assoc = [])
    (hview : s.nodeView = []) (hgraves : s.api.graves = [])
    (hnodup : (s.api.nodes.map (·.name)).Nodup)
    (hnodes : ∀ y ∈ s.api.nodes, y.cidrs = [] ∧ y.junk = false) : Inv s := by
  have hnc : ∀ x i, ¬ Claims s.alloc x i := by
    rintro x i ⟨c, hc, hx⟩
    rw [hassoc i c hc] at hx; cases hx
  have hobjs : ∀ v ∈ Objs s, v ∈ s.api.nodes := by
    intro v hv
    unfold Objs at hv
    rw [hview, hgraves] at hv
    simpa using hv
  constructor
  · exact hwf
  · exact hrd
  · exact hnodup
  · rw [hview]; exact List.nodup_nil
  · rw [hgraves]; exact List.nodup_nil
  · intro v hv; rw [hview] at hv; cases hv
  · constructor
    · intro v hv; exact (hnodes v (hobjs v hv)).2
    · intro v hv cd hcd; rw [(hnodes v (hobjs v hv)).1] at hcd; cases hcd
    · intro v hv _ _ _ hv0 _; exact absurd (hnodes v (hobjs v hv)).1 hv0
    · intro v hv w hw hn
      rw [eq_of_nodup_names hnodup (hobjs v hv) (hobjs w hw) hn]
    · intro i j x x' hc; exact absurd hc (hnc x i)
    · intro i x hc; exact absurd hc (hnc x i)
  · intro v hv; rw [hview] at hv; cases hv
  · intro g hg; rw [hgraves] at hg; cases hg
  · intro i x hc; exact absurd hc (hnc x i)
  · intro i j x hc; exact absurd hc (hnc x i)
  · intro v hv hv0
    rw [hview] at hv
    simp only [List.append_nil] at hv
    exact absurd (hnodes v hv).1 hv0
  · intro i x hc; exact absurd hc (hnc x i)

/-- **C01 on the fragment**: from such a start, whatever happens in the fragment — nodes coming and going, being
deleted with or without a deletion timestamp first, notifications delayed or overtaken by cache updates in the
middle of an item, work items interleaved in any order, writes failing any number of times — no two nodes that
exist and are not being deleted ever hold overlapping pod CIDRs. -/
theorem no_overlap_ever (s : Sys) (hs : Inv s) (evs : List Ev) (hf : FragAll s evs) : NoOverlap (run s evs) :=
  (inv_run evs s hs hf).noOverlap


/-! ### non-vacuity: a concrete start and a concrete history of the fragment in which two nodes are served -/

def exA : CC := ⟨defaultKey, defaultReqs, "a", some (Pool.new ⟨.v4, 0x0a000000, 26, 28⟩ "10.0.0.0/26"), none, [], false⟩
def exB : CC := ⟨"zone in (a)", [⟨"zone", .In, ["a"]⟩], "b", some (Pool.new ⟨.v4, 0x0a000100, 26, 28⟩ "10.0.1.0/26"),
  some (Pool.new ⟨.v6, 0xfd00 * 2 ^ 112, 122, 124⟩ "fd00::/122"), [], false⟩
def exStart : Sys :=
  { Sys.init with alloc := ⟨[exA, exB]⟩,
                  api := ⟨[⟨"n1", [("zone", "a")], [], false, false⟩, ⟨"n2", [], [], false, false⟩], [], []⟩ }

theorem poolOK_new {g : Geo} (hg : C13.Supported g) (l : String) : PoolOK g.fam (Pool.new g l) :=
  ⟨Pool.new_inv g l, hg, rfl⟩

theorem exStart_inv : Inv exStart := by
  apply inv_init
  · intro i c hc
    have : i = 0 ∨ i = 1 := by
      unfold Alloc.get? exStart at hc
      simp only at hc
      have := (List.getElem?_eq_some_iff.mp hc).1
      simp at this; omega
    rcases this with rfl | rfl
    · have : c = exA := by unfold Alloc.get? exStart at hc; simpa using hc.symm
      subst this
      intro f p hp
      cases f with
      | v4 => simp [CC.pool, exA] at hp; subst hp; exact poolOK_new (by decide) _
      | v6 => simp [CC.pool, exA] at hp
    · have : c = exB := by unfold Alloc.get? exStart at hc; simpa using hc.symm
      subst this
      intro f p hp
      cases f with
      | v4 => simp [CC.pool, exB] at hp; subst hp; exact poolOK_new (by decide) _
      | v6 => simp [CC.pool, exB] at hp; subst hp; exact poolOK_new (by decide) _
  · intro i j c d f p q hi hj hp hq hne
    have hi' : i = 0 ∨ i = 1 := by
      unfold Alloc.get? exStart at hi
      have := (List.getElem?_eq_some_iff.mp hi).1
      simp at this; omega
    have hj' : j = 0 ∨ j = 1 := by
      unfold Alloc.get? exStart at hj
      have := (List.getElem?_eq_some_iff.mp hj).1
      simp at this; omega
    unfold Alloc.get? exStart at hi hj
    rcases hi' with rfl | rfl <;> rcases hj' with rfl | rfl
    · exact absurd rfl hne
    · simp at hi hj; subst hi hj
      cases f <;> simp [CC.pool, exA, exB] at hp hq
      subst hp hq; decide
    · simp at hi hj; subst hi hj
      cases f <;> simp [CC.pool, exA, exB] at hp hq
      subst hp hq; decide
    · exact absurd rfl hne
  · intro i c hc
    unfold Alloc.get? exStart at hc
    have : i = 0 ∨ i = 1 := by
      have := (List.getElem?_eq_some_iff.mp hc).1
      simp at this; omega
    rcases this with rfl | rfl <;> (simp at hc; subst hc; rfl)
  · rfl
  · rfl
  · decide
  · intro y hy
    simp [exStart] at hy
    rcases hy with rfl | rfl <;> exact ⟨rfl, rfl⟩

def exHistory : List Ev :=
  [.deliverNode "n1" false, .deliverNode "n2" false, .procNode "n1" false [.fail, .ok], .procNode "n2" true [],
   .nodeDeleting "n1", .deliverNode "n1" false, .procNode "n1" false [], .nodeDel "n1", .deliverNode "n1" false,
   .nodeAdd ⟨"n3", [], [], false, false⟩, .deliverNode "n3" false, .procNode "n3" false []]

example : FragAll exStart exHistory := by
  simp only [exHistory, FragAll, Frag]
  decide

/-- in that history the two nodes are served from different entries, and the third gets a block only after … -/
example : (run exStart exHistory).api.nodes.map (fun n => (n.name, n.cidrs.map (·.addr))) =
    [("n2", [0x0a000000]), ("n3", [0x0a000010])] := by decide +kernel



end Ipam.Safety
