import IpamVerif.AllocOrder
import IpamVerif.System
/-!
# C04 — blocks are withheld only while something in the cluster justifies it

Proved here (the release paths of one work item):
* a block reserved by `allocateCIDR` and given back by `Release` leaves the pool's used set exactly as it
  was (`reserve_then_release_restores`) — the path taken when the other family of a dual-stack
  ClusterCIDR is exhausted (after the repair of `prioritizedCIDRs`), when the node turns out to have pod
  CIDRs already, when the write is rejected, and when the node cannot be read back (after the repair of
  `updateCIDRsAllocation`);
* in each of those branches `updateCIDRsAllocation` does call `releaseAll` on exactly the reserved CIDRs
  of the serving entry, and in the success branch it does not (`failed_write_releases`,
  `node_has_cidrs_releases`, `vanished_node_releases`, `success_keeps`);
* a failing allocation from a pool changes no used set at all, only cursors (`failed_allocation_reserves_nothing`).
PARTIAL: the history invariant "every used block is justified" is false on the pinned code for the known
findings P8 (release routed by the node's current labels), P11 (release from the wrong one of two
overlapping ClusterCIDRs), P17b (partial occupation), P19 (stale tombstone); it is checked on every
history of the correspondence stream by the judge, inside the envelope those findings leave.
-/
namespace Ipam.C04
open Ipam

/-- reserve block `k` (free) and give it back: the used set is what it was, the counter too -/
theorem reserve_then_release_restores {f : Fam} {p p1 : Pool} (hp : PoolOK f p) {k : Nat} (hk : k < p.max)
    (hfree : k ∉ p.used) (h1 : p.occupy (goBlock p.geo k) = some p1) :
    ∃ p2, p1.release (goBlock p.geo k) = some p2 ∧ (∀ j, j ∈ p2.used ↔ j ∈ p.used) ∧ p2.count = p.count ∧ PoolOK f p2 :=
  Ipam.reserve_then_release_restores hp hk hfree h1

/-- **an allocation attempt that does not end in a reservation leaves every used set as it was** — whichever
entries were tried, whichever family ran out (the IPv4 block of a dual-stack entry whose IPv6 pool is
exhausted is given back): only cursors and the allocation / release counters moved -/
theorem refused_attempt_reserves_nothing {a a' : Alloc} (ha : a.WF) (l : List Nat)
    (h : a.prioritized l = (a', none)) : AllocEqv a a' ∧ a'.WF :=
  let ⟨_, hwf, he⟩ := prioritized_le ha l h
  ⟨he rfl, hwf⟩

/-- … and one that does reserve only adds to the used sets (nothing is released on the way) -/
theorem attempt_only_grows {a a' : Alloc} (ha : a.WF) (l : List Nat) (r : Option (List Cidr × Nat))
    (h : a.prioritized l = (a', r)) : AllocLe a a' ∧ a'.WF :=
  let ⟨hle, hwf, _⟩ := prioritized_le ha l h
  ⟨hle, hwf⟩

/-- a failing allocation from a pool reserves nothing: only the rotating cursor of that pool moved -/
theorem failed_allocation_reserves_nothing {a a' : Alloc} {i : Nat} {f : Fam} {c : CC} {p : Pool}
    (hget : a.get? i = some c) (hp : c.pool f = some p) (hok : PoolOK f p) (h : a.allocate i f = (a', none)) :
    ∃ x, a' = a.set i (c.setPool f { p with cursor := x }) :=
  let ⟨_, x, hx, _⟩ := (allocate_spec hget hp hok).1 a' h
  ⟨x, hx⟩

/-- the node turns out to have (other) pod CIDRs: the reservation is given back, nothing is written -/
theorem node_has_cidrs_releases (s : Sys) (name : String) (cidrs : List Cidr) (i : Nat) (ws : List WOut) (n2 : NodeObj)
    (hv : getNode s.nodeView name = some n2) (hne : ¬ (!n2.junk && n2.cidrs = cidrs) = true) (hc : n2.hasCidrs = true) :
    (updateCIDRsAllocation s name cidrs i ws).1.alloc = (s.alloc.releaseAll i cidrs).1 ∧
    (updateCIDRsAllocation s name cidrs i ws).2.patches = [] := by
  unfold updateCIDRsAllocation
  rw [hv]
  simp only
  rw [if_neg (by simpa using hne), if_pos hc]
  split <;> (rename_i heq; rw [heq]; exact ⟨rfl, rfl⟩)

/-- the node cannot be read back: the reservation is given back -/
theorem vanished_node_releases (s : Sys) (name : String) (cidrs : List Cidr) (i : Nat) (ws : List WOut)
    (hv : getNode s.nodeView name = none) :
    (updateCIDRsAllocation s name cidrs i ws).1.alloc = (s.alloc.releaseAll i cidrs).1 ∧
    (updateCIDRsAllocation s name cidrs i ws).2.res = "err" := by
  unfold updateCIDRsAllocation
  rw [hv]
  exact ⟨rfl, rfl⟩

/-- all three write attempts failed: the reservation is given back (the code cannot tell an ambiguous
outcome from a clean failure, see P13), the error is returned and an event recorded -/
theorem failed_write_releases (s : Sys) (name : String) (cidrs : List Cidr) (i : Nat) (ws : List WOut) (n2 : NodeObj)
    (hv : getNode s.nodeView name = some n2) (hc : n2.hasCidrs = false) (hcs : cidrs ≠ [])
    (hfail : (patchLoop s.api name cidrs 3 ws []).2.1 = false) :
    (updateCIDRsAllocation s name cidrs i ws).1.alloc = (s.alloc.releaseAll i cidrs).1 ∧
    (updateCIDRsAllocation s name cidrs i ws).2.res = "err" ∧
    (updateCIDRsAllocation s name cidrs i ws).2.events = ["CIDRAssignmentFailed"] := by
  unfold updateCIDRsAllocation
  rw [hv]
  simp only
  have hj : n2.junk = false := by unfold NodeObj.hasCidrs at hc; simp at hc; exact hc.1
  have he : n2.cidrs = [] := by unfold NodeObj.hasCidrs at hc; simp at hc; exact hc.2
  rw [if_neg (by simp [hj, he]; exact fun h => hcs h), if_neg (by simp [hc])]
  cases hp : patchLoop s.api name cidrs 3 ws [] with
  | mk api' r =>
    obtain ⟨okk, ps⟩ := r
    rw [hp] at hfail
    simp only at hfail
    subst hfail
    simp

/-- the write succeeded: the reservation stays and the node is associated with the serving entry -/
theorem success_keeps (s : Sys) (name : String) (cidrs : List Cidr) (i : Nat) (ws : List WOut) (n2 : NodeObj)
    (hv : getNode s.nodeView name = some n2) (hc : n2.hasCidrs = false) (hcs : cidrs ≠ [])
    (hok : (patchLoop s.api name cidrs 3 ws []).2.1 = true) (c : CC) (hget : s.alloc.get? i = some c) :
    (updateCIDRsAllocation s name cidrs i ws).1.alloc = s.alloc.set i (c.addAssoc name) ∧
    (updateCIDRsAllocation s name cidrs i ws).2.res = "ok" := by
  unfold updateCIDRsAllocation
  rw [hv]
  simp only
  have hj : n2.junk = false := by unfold NodeObj.hasCidrs at hc; simp at hc; exact hc.1
  have he : n2.cidrs = [] := by unfold NodeObj.hasCidrs at hc; simp at hc; exact hc.2
  rw [if_neg (by simp [hj, he]; exact fun h => hcs h), if_neg (by simp [hc])]
  cases hp : patchLoop s.api name cidrs 3 ws [] with
  | mk api' r =>
    obtain ⟨okk, ps⟩ := r
    rw [hp] at hok
    simp only at hok
    subst hok
    simp [hget]

end Ipam.C04

namespace Ipam.C04
open Ipam

/-- **one node work item, seen from the reservation state**: either nothing stays reserved — every used
set is what it was before the item (refusal; node vanished; node turned out to have other pod CIDRs; all
write attempts failed) — or the item ended well (`res = "ok"`) with exactly the blocks `prioritizedCIDRs`
reserved from one entry, and then either the write succeeded and the node is associated with that entry, or
the cache shows the node already holding exactly those CIDRs (the "answer was lost" case) -/
theorem item_keeps_only_justified_reservations (s : Sys) (hwf : s.alloc.WF) (n : NodeObj) (refresh : Bool)
    (ws : List WOut) (hn : n.hasCidrs = false)
    (hr : refresh = true → (getNode s.api.nodes n.name).isSome = true) :
    AllocEqv s.alloc (allocateOrOccupy s n refresh ws).1.alloc ∨
    ∃ al cidrs i, s.alloc.prioritized (s.alloc.ordered n.labels true) = (al, some (cidrs, i)) ∧
      (allocateOrOccupy s n refresh ws).2.res = "ok" ∧
      ((allocateOrOccupy s n refresh ws).1.alloc = al ∨
       ∃ c, al.get? i = some c ∧ (allocateOrOccupy s n refresh ws).1.alloc = al.set i (c.addAssoc n.name)) := by
  unfold allocateOrOccupy
  rw [if_neg (by simp [hn])]
  cases hp : s.alloc.prioritized (s.alloc.ordered n.labels true) with
  | mk al r =>
    cases r with
    | none =>
      left
      exact (refused_attempt_reserves_nothing hwf _ hp).1
    | some ci =>
      obtain ⟨cidrs, i⟩ := ci
      simp only
      obtain ⟨a'', hrel, heqv, _⟩ := prioritized_then_release hwf _ hp
      split
      · left
        -- empty reservation: `cidrs = []`, there is nothing to restore
        rename_i he
        have hc : cidrs = [] := by simpa using he
        subst hc
        simp only [Alloc.releaseAll, Prod.mk.injEq] at hrel
        exact hrel.1 ▸ heqv
      · -- the state the second half of the item starts from differs from `al` in the cache and queue only
        have key : ∀ (s2 : Sys), s2.alloc = al →
            AllocEqv s.alloc (updateCIDRsAllocation s2 n.name cidrs i ws).1.alloc ∨
            ((updateCIDRsAllocation s2 n.name cidrs i ws).2.res = "ok" ∧
             ((updateCIDRsAllocation s2 n.name cidrs i ws).1.alloc = al ∨
              ∃ c, al.get? i = some c ∧ (updateCIDRsAllocation s2 n.name cidrs i ws).1.alloc = al.set i (c.addAssoc n.name))) := by
          intro s2 hs2
          unfold updateCIDRsAllocation
          split
          · left; simp only [hs2, hrel]; exact heqv
          · split
            · right
              refine ⟨rfl, ?_⟩
              simp only [hs2]
              cases hg : al.get? i with
              | none => left; rfl
              | some c => right; exact ⟨c, rfl, rfl⟩
            · split
              · left
                simp only [hs2, hrel]
                exact heqv
              · simp only
                split
                · right
                  refine ⟨rfl, ?_⟩
                  simp only [hs2]
                  cases hg : al.get? i with
                  | none => left; rfl
                  | some c => right; exact ⟨c, rfl, rfl⟩
                · left; simp only [hs2, hrel]; exact heqv
        have fin : ∀ (s2 : Sys), s2.alloc = al →
            AllocEqv s.alloc (updateCIDRsAllocation s2 n.name cidrs i ws).1.alloc ∨
            ∃ al' cidrs' i', (al, some (cidrs, i)) = (al', some (cidrs', i')) ∧
              (updateCIDRsAllocation s2 n.name cidrs i ws).2.res = "ok" ∧
              ((updateCIDRsAllocation s2 n.name cidrs i ws).1.alloc = al' ∨
               ∃ c, al'.get? i' = some c ∧ (updateCIDRsAllocation s2 n.name cidrs i ws).1.alloc = al'.set i' (c.addAssoc n.name)) := by
          intro s2 hs2
          rcases key s2 hs2 with h | h
          · exact Or.inl h
          · exact Or.inr ⟨al, cidrs, i, rfl, h.1, h.2⟩
        split
        · rename_i hrt
          have hsome := hr hrt
          split
          · exact fin _ rfl
          · rename_i hnone
            rw [hnone] at hsome
            cases hsome
        · exact fin _ rfl

/-- the remaining case: the node left the cache in the middle of the item.  The item gives its reservation
back (`a₁` is equivalent to the state before the item), and what happens next is exactly the delete
handler of that cache update releasing the node's final pod CIDRs -/
theorem vanished_mid_item (s : Sys) (hwf : s.alloc.WF) (n : NodeObj) (ws : List WOut) (hn : n.hasCidrs = false)
    (hgone : getNode s.api.nodes n.name = none) :
    (∃ a₁, AllocEqv s.alloc a₁ ∧ (allocateOrOccupy s n true ws).1.alloc = a₁) ∨
    ∃ a₁, AllocEqv s.alloc a₁ ∧
      (allocateOrOccupy s n true ws).1.alloc = (releaseCIDR a₁ ((getNode s.api.graves n.name).getD n)).1 := by
  unfold allocateOrOccupy
  rw [if_neg (by simp [hn])]
  cases hp : s.alloc.prioritized (s.alloc.ordered n.labels true) with
  | mk al r =>
    cases r with
    | none =>
      left
      exact ⟨al, (refused_attempt_reserves_nothing hwf _ hp).1, rfl⟩
    | some ci =>
      obtain ⟨cidrs, i⟩ := ci
      simp only
      obtain ⟨a'', hrel, heqv, _⟩ := prioritized_then_release hwf _ hp
      split
      · left
        rename_i he
        have hc : cidrs = [] := by simpa using he
        subst hc
        simp only [Alloc.releaseAll, Prod.mk.injEq] at hrel
        exact ⟨al, hrel.1 ▸ heqv, rfl⟩
      · right
        simp only [if_true, hgone]
        refine ⟨a'', heqv, ?_⟩
        have hv : getNode (delNode s.nodeView n.name) n.name = none := by
          unfold getNode delNode
          rw [List.find?_eq_none]
          intro x hx
          have := (List.mem_filter.mp hx).2
          simpa using this
        unfold updateCIDRsAllocation
        simp only [hv, hrel]

end Ipam.C04
