import IpamVerif.Pool
import IpamVerif.Selector
/-!
L2 — the allocator's in-memory state (`cidrMap`) and its operations, one Lean
function per Go function of multi_cidr_range_allocator.go /
multi_cidr_priority_queue.go, with their early returns.  The map
`selector string → []*ClusterCIDR` is the flat list `ccs`; a bucket is the
sub-list with one key, in list order (Go appends to a bucket and deletes by
position, which preserves the relative order inside every bucket).
Core Lean only.
-/
namespace Ipam

/-- internal `cidrset.ClusterCIDR` plus the key of the bucket it is filed under -/
structure CC where
  key : String
  reqs : List Req
  name : String
  v4 : Option Pool
  v6 : Option Pool
  assoc : List String
  term : Bool
deriving Repr, Inhabited, DecidableEq

structure Alloc where
  ccs : List CC
deriving Repr, Inhabited, DecidableEq

def CC.pool (c : CC) : Fam → Option Pool
  | .v4 => c.v4
  | .v6 => c.v6

def CC.setPool (c : CC) (f : Fam) (p : Pool) : CC :=
  match f with
  | .v4 => { c with v4 := some p }
  | .v6 => { c with v6 := some p }

def defaultKey : String := printSel defaultReqs

/-! ### ordering (`PriorityQueue.Less`) -/

def maxIntGo : Nat := 2 ^ 63 - 1

/-- `maxAllocatable` -/
def CC.maxAllocatable (c : CC) : Nat :=
  let a := match c.v4 with | some p => p.max | none => maxIntGo
  let b := match c.v6 with | some p => p.max | none => maxIntGo
  if a < b then a else b

/-- `nodeMaskSize` (IPv4's if present; an entry always has at least one pool) -/
def CC.nodeMaskSize (c : CC) : Nat :=
  match c.v4 with
  | some p => p.geo.n
  | none => match c.v6 with | some p => p.geo.n | none => 0

/-- `cidrLabel` -/
def CC.cidrLabel (c : CC) : String :=
  match c.v4 with
  | some p => p.label
  | none => match c.v6 with | some p => p.label | none => ""

structure PQItem where
  idx : Nat          -- position of the entry in `ccs`
  matchCnt : Nat
  maxAlloc : Nat
  maskSize : Nat
  sel : String
  label : String
deriving Repr, DecidableEq, Inhabited

/-- `PriorityQueue.Less` -/
def PQItem.less (a b : PQItem) : Bool :=
  if a.matchCnt ≠ b.matchCnt then decide (a.matchCnt > b.matchCnt)
  else if a.maxAlloc ≠ b.maxAlloc then decide (a.maxAlloc < b.maxAlloc)
  else if a.maskSize ≠ b.maskSize then decide (a.maskSize > b.maskSize)
  else if a.sel ≠ b.sel then decide (a.sel < b.sel)
  else decide (a.label < b.label)

/-- heap push/pop of all items = sorting by `less` (stable insertion; the heap's choice among
items equal on all five keys is unspecified and excluded by the property) -/
def pqInsert (x : PQItem) : List PQItem → List PQItem
  | [] => [x]
  | h :: t => if x.less h then x :: h :: t else h :: pqInsert x t

def pqSort (l : List PQItem) : List PQItem := l.foldr pqInsert []

def CC.item (c : CC) (i cnt : Nat) : PQItem :=
  ⟨i, cnt, c.maxAllocatable, c.nodeMaskSize, c.key, c.cidrLabel⟩

/-- entries (by position) with their positions -/
def Alloc.indexed (a : Alloc) : List (Nat × CC) := a.ccs.zipIdx.map (fun (c, i) => (i, c))

/-- `orderedMatchingClusterCIDRs`: positions of the entries, in the order they are tried -/
def Alloc.ordered (a : Alloc) (ls : Labels) (occupy : Bool) : List Nat :=
  let items := a.indexed.filterMap (fun (i, c) =>
    let (m, cnt) := matchCIDR c.reqs ls
    if m && (!occupy || !c.term) then some (c.item i cnt) else none)
  -- the catch-all entries go through a priority queue of their own (match count 0)
  let dflt := a.indexed.filterMap (fun (i, c) =>
    if c.key == defaultKey && (!occupy || !c.term) then some (c.item i 0) else none)
  (pqSort items).map (·.idx) ++ (pqSort dflt).map (·.idx)

/-! ### pools reached through the map -/

def Alloc.get? (a : Alloc) (i : Nat) : Option CC := a.ccs[i]?

def Alloc.set (a : Alloc) (i : Nat) (c : CC) : Alloc := ⟨a.ccs.set i c⟩

/-- all pools of one family -/
def Alloc.pools (a : Alloc) (f : Fam) : List Pool := a.ccs.filterMap (fun c => c.pool f)

/-- `cidrInAllocatedList || cidrOverlapWithAllocatedList`: the candidate overlaps a used
block of some pool of its family, anywhere in the map -/
def Alloc.blocked (a : Alloc) (blk : Cidr) : Bool :=
  (a.pools blk.fam).any (fun q => q.used.any (fun j => goOverlap blk (goBlock q.geo j)))

/-- `r.Occupy(clusterCIDR, cidr)`: `none` = error (no pool of that family / outside the range) -/
def CC.occupy (c : CC) (cd : Cidr) : Option CC :=
  match c.pool cd.fam with
  | none => none
  | some p => match p.occupy cd with
    | none => none
    | some p' => some (c.setPool cd.fam p')

/-- `r.Release(clusterCIDR, cidr)` -/
def CC.release (c : CC) (cd : Cidr) : Option CC :=
  match c.pool cd.fam with
  | none => none
  | some p => match p.release cd with
    | none => none
    | some p' => some (c.setPool cd.fam p')

/-- the loop of `allocateCIDR` on entry `i`, family `f`: `fuel` rounds left, `ev` = the loop
variable `evaluated`.  Returns the reserved block and the new state; `none` = error.
The state changes made by failed rounds (cursor moves) are kept in `a` by the caller via
`allocLoopState`. -/
def allocLoop (a : Alloc) (i : Nat) (f : Fam) : Nat → Nat → Alloc × Option Cidr
  | 0, _ => (a, none)
  | fuel + 1, ev =>
    match a.get? i with
    | none => (a, none)
    | some c =>
      match c.pool f with
      | none => (a, none)
      | some p =>
        if ev ≥ p.max then (a, none)
        else
          match p.next with
          | none => (a, none)
          | some (k, skipped, p') =>
            let c' := c.setPool f p'
            let a' := a.set i c'
            let blk := goBlock p.geo k
            if a'.blocked blk then allocLoop a' i f fuel (ev + skipped + 1)
            else
              match c'.occupy blk with
              | none => (a', none)
              | some c'' => (a'.set i c'', some blk)

/-- `allocateCIDR(clusterCIDR, cidrSet)` -/
def Alloc.allocate (a : Alloc) (i : Nat) (f : Fam) : Alloc × Option Cidr :=
  match a.get? i with
  | none => (a, none)
  | some c => match c.pool f with
    | none => (a, none)
    | some p => allocLoop a i f p.max 0

/-- body of the loop of `prioritizedCIDRs` for one entry (after the repair that gives the
IPv4 block back when IPv6 is exhausted) -/
def Alloc.tryEntry (a : Alloc) (i : Nat) : Alloc × Option (List Cidr) :=
  match a.get? i with
  | none => (a, none)
  | some c =>
    let (a1, r4) : Alloc × Option (List Cidr) :=
      match c.v4 with
      | none => (a, some [])
      | some _ => match a.allocate i .v4 with
        | (a', none) => (a', none)
        | (a', some b) => (a', some [b])
    match r4 with
    | none => (a1, none)
    | some l4 =>
      match c.v6 with
      | none => (a1, some l4)
      | some _ =>
        match a1.allocate i .v6 with
        | (a2, some b6) => (a2, some (l4 ++ [b6]))
        | (a2, none) =>
          -- give the reserved IPv4 block back
          let a3 := l4.foldl (fun (s : Alloc) cd => match s.get? i with
            | none => s
            | some c' => match c'.release cd with
              | none => s
              | some c'' => s.set i c'') a2
          (a3, none)

/-- `prioritizedCIDRs`: walk the ordered list; `(state, some (cidrs, entry))` or `none` -/
def Alloc.prioritized (a : Alloc) : List Nat → Alloc × Option (List Cidr × Nat)
  | [] => (a, none)
  | i :: rest =>
    match a.tryEntry i with
    | (a', some cidrs) => (a', some (cidrs, i))
    | (a', none) => Alloc.prioritized a' rest

/-- release every CIDR of the list in entry `i`; stops at the first error (`false`) -/
def Alloc.releaseAll (a : Alloc) (i : Nat) : List Cidr → Alloc × Bool
  | [] => (a, true)
  | cd :: rest =>
    match a.get? i with
    | none => (a, false)
    | some c => match c.release cd with
      | none => (a, false)
      | some c' => Alloc.releaseAll (a.set i c') i rest

def CC.addAssoc (c : CC) (n : String) : CC := if c.assoc.contains n then c else { c with assoc := n :: c.assoc }
def CC.delAssoc (c : CC) (n : String) : CC := { c with assoc := c.assoc.filter (· != n) }

/-- inner loop of `occupyCIDRs` for one entry: occupy the CIDRs one by one, stop at the first failure -/
def CC.occupyList (c : CC) : List Cidr → CC × Bool
  | [] => (c, true)
  | cd :: rest => match c.occupy cd with
    | none => (c, false)
    | some c' => CC.occupyList c' rest

/-- `occupyCIDRs` over the ordered list: `true` = an entry took all CIDRs (association recorded) -/
def Alloc.occupyNode (a : Alloc) (name : String) (cidrs : List Cidr) : List Nat → Alloc × Bool
  | [] => (a, false)
  | i :: rest =>
    match a.get? i with
    | none => Alloc.occupyNode a name cidrs rest
    | some c =>
      match c.occupyList cidrs with
      | (c', true) => (a.set i (c'.addAssoc name), true)
      | (c', false) => Alloc.occupyNode (a.set i c') name cidrs rest

/-- `allocatedClusterCIDR`: first entry of the list associated with the node -/
def Alloc.allocatedCC (a : Alloc) (name : String) : List Nat → Option Nat
  | [] => none
  | i :: rest => match a.get? i with
    | some c => if c.assoc.contains name then some i else Alloc.allocatedCC a name rest
    | none => Alloc.allocatedCC a name rest

/-- `ReleaseCIDR` (node with pod CIDRs): `false` = error -/
def Alloc.releaseNode (a : Alloc) (name : String) (ls : Labels) (cidrs : List Cidr) : Alloc × Bool :=
  match a.allocatedCC name (a.ordered ls false) with
  | none => (a, false)
  | some i =>
    match a.releaseAll i cidrs with
    | (a', false) => (a', false)
    | (a', true) => match a'.get? i with
      | none => (a', false)
      | some c => (a'.set i (c.delAssoc name), true)

/-! ### ClusterCIDR objects → entries -/

/-- what a range field of the spec parses to (oracle: Go's `ParseCIDRSloppy`) together with
the range's string form (`IPNet.String()`, the pool label) -/
inductive RangeField where
  | empty
  | malformed
  | ok (c : Cidr) (label : String)
deriving DecidableEq, Repr, Inhabited

structure CCSpec where
  sel : Option (List RawTerm)
  hostBits : Int
  ipv4 : RangeField
  ipv6 : RangeField
deriving DecidableEq, Repr, Inhabited

/-- one branch of `createClusterCIDRSet`: `none` = error, `some none` = field empty -/
def buildPool (fld : RangeField) (want : Fam) (hb : Int) : Option (Option Pool) :=
  match fld with
  | .empty => some none
  | .malformed => none
  | .ok c label =>
    if c.fam ≠ want then none
    else match newGeo c hb with
      | none => none
      | some g => some (some (Pool.new g label))

/-- `createClusterCIDRSet` + the "at least one family" check; `none` = error -/
def buildCC (key : String) (reqs : List Req) (name : String) (spec : CCSpec) (terminating : Bool) : Option CC :=
  match buildPool spec.ipv4 .v4 spec.hostBits with
  | none => none
  | some p4 =>
    match buildPool spec.ipv6 .v6 spec.hostBits with
    | none => none
    | some p6 =>
      if p4.isNone && p6.isNone then none
      else some ⟨key, reqs, name, p4, p6, [], terminating⟩

/-- `isClusterCIDRMapped` -/
def Alloc.mapped (a : Alloc) (key name : String) : Bool := a.ccs.any (fun c => c.key == key && c.name == name)

/-- the in-memory part of `createClusterCIDR`: `none` = error (nothing mapped) -/
def Alloc.createCC (a : Alloc) (name : String) (spec : CCSpec) (terminating : Bool) : Option Alloc :=
  match selectorOf spec.sel with
  | none => none
  | some reqs =>
    let key := printSel reqs
    if a.mapped key name then some a
    else match buildCC key reqs name spec terminating with
      | none => none
      | some c => some ⟨a.ccs ++ [c]⟩

inductive DelResult where
  | removed | notFound | hasNodes | keyError
deriving DecidableEq, Repr

/-- mark the first entry named `name` under `key` terminating; remove it if no node is associated -/
def delFirst (key name : String) : List CC → List CC × DelResult
  | [] => ([], .notFound)
  | c :: t =>
    if c.key == key && c.name == name then
      if c.assoc.length > 0 then ({ c with term := true } :: t, .hasNodes) else (t, .removed)
    else
      let (t', r) := delFirst key name t
      (c :: t', r)

/-- `deleteClusterCIDR` -/
def Alloc.deleteCC (a : Alloc) (name : String) (spec : CCSpec) : Alloc × DelResult :=
  match selectorOf spec.sel with
  | none => (a, .keyError)
  | some reqs =>
    let (l, r) := delFirst (printSel reqs) name a.ccs
    (⟨l⟩, r)

/-- `occupyServiceCIDR` on one entry: occupy the service range in the pool of its family if
they intersect; entries without such a pool and errors are skipped (logged in Go) -/
def CC.occupyService (c : CC) (svc : Cidr) : CC :=
  match c.pool svc.fam with
  | none => c
  | some p =>
    if goOverlap p.geo.range svc then
      match c.occupy svc with
      | none => c
      | some c' => c'
    else c

/-- `filterOutServiceRange` -/
def Alloc.filterService (a : Alloc) (svc : Cidr) : Alloc := ⟨a.ccs.map (fun c => c.occupyService svc)⟩

end Ipam
