import IpamVerif.Alloc
/-!
L3 — the controller in its environment: API state with the server rules the
controller relies on, informer views (what the caches hold), the two work
queues (as sets of keys), and one event per thing that can happen:
API changes, a notification being delivered, one work item being processed
(with the outcome of each API write it attempts), a restart.
`step` is the executable model the implementation is compared with, and the
function the history theorems are about.  Core Lean only.
-/
namespace Ipam

def finalizerName : String := "networking.x-k8s.io/cluster-cidr-finalizer"

structure NodeObj where
  name : String
  labels : Labels
  cidrs : List Cidr
  deleting : Bool
  /-- `spec.podCIDRs` holds a single string that does not parse as a CIDR (then `cidrs = []`) -/
  junk : Bool := false
deriving DecidableEq, Repr, Inhabited

/-- `len(node.Spec.PodCIDRs) > 0` -/
def NodeObj.hasCidrs (n : NodeObj) : Bool := n.junk || !n.cidrs.isEmpty

structure CCObj where
  name : String
  spec : CCSpec
  finalizers : List String
  deleting : Bool
  generation : Nat
  rv : Nat
deriving DecidableEq, Repr, Inhabited

structure Api where
  nodes : List NodeObj
  ccs : List CCObj
  /-- final state of deleted nodes (what a delete notification carries) -/
  graves : List NodeObj
deriving DecidableEq, Repr, Inhabited

/-- outcome of one API write attempt, chosen by the environment -/
inductive WOut where
  | ok      -- delivered, answered truthfully
  | fail    -- not applied, error returned
  | lost    -- applied (if the server accepts it), but an error is returned
deriving DecidableEq, Repr, Inhabited

structure Sys where
  api : Api
  nodeView : List NodeObj
  ccView : List CCObj
  alloc : Alloc
  nodeQ : List String
  ccQ : List String
  svcs : List Cidr
deriving DecidableEq, Repr, Inhabited

/-- what a step shows to the outside -/
structure Obs where
  res : String := "none"
  patches : List (String × List Cidr × String) := []
  ccWrites : List (String × List String × String) := []
  events : List String := []
deriving DecidableEq, Repr, Inhabited

/-! ### small list-as-map helpers -/

def getNode (l : List NodeObj) (n : String) : Option NodeObj := l.find? (·.name == n)
def delNode (l : List NodeObj) (n : String) : List NodeObj := l.filter (·.name != n)
def putNode (l : List NodeObj) (o : NodeObj) : List NodeObj :=
  if l.any (·.name == o.name) then l.map (fun x => if x.name == o.name then o else x) else l ++ [o]
def getCC (l : List CCObj) (n : String) : Option CCObj := l.find? (·.name == n)
def delCC (l : List CCObj) (n : String) : List CCObj := l.filter (·.name != n)
def putCC (l : List CCObj) (o : CCObj) : List CCObj :=
  if l.any (·.name == o.name) then l.map (fun x => if x.name == o.name then o else x) else l ++ [o]
def qAdd (q : List String) (k : String) : List String := if q.contains k then q else q ++ [k]
def qDel (q : List String) (k : String) : List String := q.filter (· != k)

def insertName (s : String) : List String → List String
  | [] => [s]
  | h :: t => if s < h then s :: h :: t else h :: insertName s t
def sortNames (l : List String) : List String := l.foldr insertName []

/-! ### API server rules -/

/-- PATCH of `spec.podCIDRs`: allowed from empty to a list, or to the same list; returns the new
API state and whether the server accepted -/
def Api.patchNode (a : Api) (name : String) (cidrs : List Cidr) : Api × Bool :=
  match getNode a.nodes name with
  | none => (a, false)
  | some n =>
    if !n.hasCidrs then ({ a with nodes := putNode a.nodes { n with cidrs := cidrs } }, true)
    else if !n.junk && n.cidrs = cidrs then (a, true)
    else (a, false)

/-- Update of a ClusterCIDR (only finalizers can differ): optimistic concurrency on the resource
version; an object under deletion disappears when its last finalizer goes -/
def Api.updateCC (a : Api) (name : String) (rv : Nat) (fins : List String) : Api × Bool :=
  match getCC a.ccs name with
  | none => (a, false)
  | some o =>
    if o.rv ≠ rv then (a, false)
    else if o.deleting && fins.isEmpty then ({ a with ccs := delCC a.ccs name }, true)
    else ({ a with ccs := putCC a.ccs { o with finalizers := fins, rv := o.rv + 1 } }, true)

/-- one write attempt under an environment outcome: new API state, success as seen by the controller,
and the outcome label printed in the trace -/
def attemptPatch (a : Api) (name : String) (cidrs : List Cidr) (w : WOut) : Api × Bool × String :=
  match w with
  | .fail => (a, false, "fail")
  | .ok => let (a', acc) := a.patchNode name cidrs; (a', acc, if acc then "ok" else "rejected")
  | .lost => let (a', acc) := a.patchNode name cidrs; (a', false, if acc then "lost" else "rejected")

def attemptUpdate (a : Api) (name : String) (rv : Nat) (fins : List String) (w : WOut) : Api × Bool × String :=
  match w with
  | .fail => (a, false, "fail")
  | .ok => let (a', acc) := a.updateCC name rv fins; (a', acc, if acc then "ok" else "rejected")
  | .lost => let (a', acc) := a.updateCC name rv fins; (a', false, if acc then "lost" else "rejected")

/-! ### controller steps -/

/-- `ReleaseCIDR(node)`: `true` = no error -/
def releaseCIDR (al : Alloc) (n : NodeObj) : Alloc × Bool :=
  if !n.hasCidrs then (al, true)
  else if n.junk then (al, false)   -- no associated entry, or the string fails to parse: an error either way
  else al.releaseNode n.name n.labels n.cidrs

/-- `occupyCIDRs(node)` for a node with pod CIDRs: `true` = no error -/
def occupyCIDRs (al : Alloc) (n : NodeObj) : Alloc × Bool :=
  let l := al.ordered n.labels true
  if l.isEmpty then (al, false)
  else if n.junk then (al, false)   -- parse error inside the loop, nothing occupied yet
  else al.occupyNode n.name n.cidrs l

/-- the PATCH retry loop of `updateCIDRsAllocation` (`cidrUpdateRetries` = 3) -/
def patchLoop (a : Api) (name : String) (cidrs : List Cidr) : Nat → List WOut → List (String × List Cidr × String) →
    Api × Bool × List (String × List Cidr × String)
  | 0, _, acc => (a, false, acc)
  | k + 1, ws, acc =>
    let w := ws.headD .ok
    let (a', okk, lbl) := attemptPatch a name cidrs w
    let acc' := acc ++ [(name, cidrs, lbl)]
    if okk then (a', true, acc') else patchLoop a' name cidrs k ws.tail acc'

/-- `updateCIDRsAllocation` -/
def updateCIDRsAllocation (s : Sys) (name : String) (cidrs : List Cidr) (i : Nat) (ws : List WOut) : Sys × Obs :=
  match getNode s.nodeView name with
  | none =>
    -- lister error: give the reservation back, return the error
    let (al, _) := s.alloc.releaseAll i cidrs
    ({ s with alloc := al }, { res := "err" })
  | some n2 =>
    if !n2.junk && n2.cidrs = cidrs then
      -- "we possibly updated this node and just failed to ack the success": the reservation is kept, and the node is
      -- recorded as depending on the ClusterCIDR (after the repair of P24)
      let al := match s.alloc.get? i with
        | some c => s.alloc.set i (c.addAssoc name)
        | none => s.alloc
      ({ s with alloc := al }, { res := "ok" })
    else if n2.hasCidrs then
      match s.alloc.releaseAll i cidrs with
      | (al, true) => ({ s with alloc := al }, { res := "ok" })
      | (al, false) => ({ s with alloc := al }, { res := "err" })
    else
      let (api', okk, ps) := patchLoop s.api name cidrs 3 ws []
      if okk then
        let al := match s.alloc.get? i with
          | some c => s.alloc.set i (c.addAssoc name)
          | none => s.alloc
        ({ s with api := api', alloc := al }, { res := "ok", patches := ps })
      else
        -- `IsServerTimeout` never sees through `PatchNodeCIDRs`' error wrapping: always released
        let (al, _) := s.alloc.releaseAll i cidrs
        ({ s with api := api', alloc := al }, { res := "err", patches := ps, events := ["CIDRAssignmentFailed"] })

/-- `AllocateOrOccupyCIDR(node)`; `refresh` = the cache entry of the node is brought up to date
between the two reads of the item -/
def allocateOrOccupy (s : Sys) (n : NodeObj) (refresh : Bool) (ws : List WOut) : Sys × Obs :=
  if n.hasCidrs then
    match occupyCIDRs s.alloc n with
    | (al, true) => ({ s with alloc := al }, { res := "ok" })
    | (al, false) => ({ s with alloc := al }, { res := "err" })
  else
    match s.alloc.prioritized (s.alloc.ordered n.labels true) with
    | (al, none) => ({ s with alloc := al }, { res := "err", events := ["CIDRNotAvailable"] })
    | (al, some (cidrs, i)) =>
      if cidrs.isEmpty then ({ s with alloc := al }, { res := "err", events := ["CIDRNotAvailable"] })
      else
        let s1 := { s with alloc := al }
        if refresh then
          match getNode s1.api.nodes n.name with
          | some cur =>
            updateCIDRsAllocation { s1 with nodeView := putNode s1.nodeView cur, nodeQ := qAdd s1.nodeQ n.name } n.name cidrs i ws
          | none =>
            -- the node left the cache in the middle of the item: the item fails on its second read, and the delete
            -- handler that belongs to that cache update (`ReleaseCIDR` with the final state) runs once the item has
            -- given the lock back
            let r := updateCIDRsAllocation { s1 with nodeView := delNode s1.nodeView n.name, nodeQ := qAdd s1.nodeQ n.name } n.name cidrs i ws
            ({ r.1 with alloc := (releaseCIDR r.1.alloc ((getNode s1.api.graves n.name).getD n)).1 }, r.2)
        else updateCIDRsAllocation s1 n.name cidrs i ws

/-- `syncNode` on the cached node -/
def procNodeCore (s0 : Sys) (name : String) (refresh : Bool) (ws : List WOut) : Sys × Obs :=
  match getNode s0.nodeView name with
  | none => (s0, { res := "ok" })
  | some n =>
    if n.deleting then
      match releaseCIDR s0.alloc n with
      | (al, true) => ({ s0 with alloc := al }, { res := "ok" })
      | (al, false) => ({ s0 with alloc := al }, { res := "err" })
    else allocateOrOccupy s0 n refresh ws

/-- one node work item (`processNextNodeWorkItem`): take the key, sync, then
error ⇒ `AddRateLimited`, success ⇒ `Forget` -/
def procNode (s : Sys) (name : String) (refresh : Bool) (ws : List WOut) : Sys × Obs :=
  let r := procNodeCore { s with nodeQ := qDel s.nodeQ name } name refresh ws
  if r.2.res == "err" then ({ r.1 with nodeQ := qAdd r.1.nodeQ name }, r.2) else r

def hasFin (o : CCObj) : Bool := o.finalizers.contains finalizerName
def needFin (o : CCObj) : Bool := !o.deleting && !hasFin o

/-- `createClusterCIDR`: map, then persist the finalizer -/
def createClusterCIDR (s : Sys) (o : CCObj) (terminating : Bool) (w : WOut) : Sys × Obs :=
  match s.alloc.createCC o.name o.spec terminating with
  | none => (s, { res := "err" })
  | some al =>
    let fins := if needFin o then o.finalizers ++ [finalizerName] else o.finalizers
    let (api', okk, lbl) := attemptUpdate s.api o.name o.rv fins w
    ({ s with alloc := al, api := api' }, { res := if okk then "ok" else "err", ccWrites := [(o.name, fins, lbl)] })

/-- `reconcileDelete` -/
def reconcileDelete (s : Sys) (o : CCObj) (w : WOut) : Sys × Obs :=
  if hasFin o then
    match s.alloc.deleteCC o.name o.spec with
    | (al, .keyError) => ({ s with alloc := al }, { res := "err" })
    | (al, .hasNodes) => ({ s with alloc := al }, { res := "err" })
    | (al, _) =>
      let fins := o.finalizers.filter (· != finalizerName)
      let (api', okk, lbl) := attemptUpdate s.api o.name o.rv fins w
      ({ s with alloc := al, api := api' }, { res := if okk then "ok" else "err", ccWrites := [(o.name, fins, lbl)] })
  else (s, { res := "ok" })

/-- `syncClusterCIDR` on the cached object -/
def procCCCore (s0 : Sys) (name : String) (w : WOut) : Sys × Obs :=
  match getCC s0.ccView name with
  | none => (s0, { res := "ok" })
  | some obj =>
    if obj.deleting then reconcileDelete s0 obj w
    else if needFin obj then createClusterCIDR s0 obj false w
    else (s0, { res := "ok" })

/-- one ClusterCIDR work item (`processNextCIDRWorkItem`) -/
def procCC (s : Sys) (name : String) (w : WOut) : Sys × Obs :=
  let r := procCCCore { s with ccQ := qDel s.ccQ name } name w
  if r.2.res == "err" then ({ r.1 with ccQ := qAdd r.1.ccQ name }, r.2) else r

/-- construction: bootstrap every listed ClusterCIDR (in name order, as the API lists them),
occupy the service ranges, occupy the pod CIDRs of every listed node that is not being deleted -/
def bootCCs (s : Sys) : List CCObj → List WOut → List (String × List String × String) → Sys × List (String × List String × String)
  | [], _, acc => (s, acc)
  | o :: rest, ws, acc =>
    let (s', ob) := createClusterCIDR s o (decide (o.generation > 1)) (ws.headD .ok)
    -- an outcome is consumed only when a write was attempted
    let ws' := if ob.ccWrites.isEmpty then ws else ws.tail
    bootCCs s' rest ws' (acc ++ ob.ccWrites)

def bootNodes (al : Alloc) : List NodeObj → Alloc
  | [] => al
  | n :: rest => if !n.hasCidrs || n.deleting then bootNodes al rest else bootNodes (occupyCIDRs al n).1 rest

def sortCCObjs (l : List CCObj) : List CCObj :=
  (sortNames (l.map (·.name))).filterMap (fun n => getCC l n)
def sortNodeObjs (l : List NodeObj) : List NodeObj :=
  (sortNames (l.map (·.name))).filterMap (fun n => getNode l n)

def boot (s : Sys) (svcs : List Cidr) (ws : List WOut) : Sys × Obs :=
  let nodesListed := sortNodeObjs s.api.nodes
  let s0 : Sys := { s with alloc := ⟨[]⟩, nodeView := [], ccView := [], nodeQ := [], ccQ := [], svcs := svcs }
  let (s1, writes) := bootCCs s0 (sortCCObjs s0.api.ccs) ws []
  let al1 := svcs.foldl (fun a sv => a.filterService sv) s1.alloc
  let al2 := bootNodes al1 nodesListed
  -- informers start: caches = API, every object is notified
  ({ s1 with alloc := al2, nodeView := s1.api.nodes, ccView := s1.api.ccs,
             nodeQ := sortNames (s1.api.nodes.map (·.name)), ccQ := sortNames (s1.api.ccs.map (·.name)) },
   { res := "ok", ccWrites := writes })

inductive Ev where
  | boot (svcs : List Cidr) (ws : List WOut)
  | nodeAdd (n : NodeObj)
  | nodeDel (name : String)
  | nodeLabels (name : String) (ls : Labels)
  | nodeDeleting (name : String)
  | ccAdd (name : String) (spec : CCSpec)
  | ccDel (name : String)
  | ccGen (name : String) (g : Nat)
  | ccAddFin (name : String) (fin : String)
  | nodeSetCIDRs (name : String) (cidrs : List Cidr)
  | deliverNode (name : String) (tomb : Bool)
  | deliverCC (name : String)
  | procNode (name : String) (refresh : Bool) (ws : List WOut)
  | procCC (name : String) (w : WOut)
deriving Repr, DecidableEq, Inhabited

/-- resource versions are never re-used (they are revisions of the store): a new ClusterCIDR object is newer than
every object the API or the controller's cache holds -/
def freshRv (s : Sys) : Nat := ((s.api.ccs ++ s.ccView).map (·.rv)).foldl max 0 + 1

def step (s : Sys) : Ev → Sys × Obs
  | .boot svcs ws => boot s svcs ws
  | .nodeAdd n =>
    if (getNode s.api.nodes n.name).isSome then (s, {}) else
    ({ s with api := { s.api with nodes := s.api.nodes ++ [n], graves := delNode s.api.graves n.name } }, {})
  | .nodeDel name =>
    match getNode s.api.nodes name with
    | none => (s, {})
    | some n => ({ s with api := { s.api with nodes := delNode s.api.nodes name, graves := putNode s.api.graves n } }, {})
  | .nodeLabels name ls =>
    match getNode s.api.nodes name with
    | none => (s, {})
    | some n => ({ s with api := { s.api with nodes := putNode s.api.nodes { n with labels := ls } } }, {})
  | .nodeDeleting name =>
    match getNode s.api.nodes name with
    | none => (s, {})
    | some n => ({ s with api := { s.api with nodes := putNode s.api.nodes { n with deleting := true } } }, {})
  | .ccAdd name spec =>
    if (getCC s.api.ccs name).isSome then (s, {}) else
    ({ s with api := { s.api with ccs := s.api.ccs ++ [⟨name, spec, [], false, 1, freshRv s⟩] } }, {})
  | .ccDel name =>
    match getCC s.api.ccs name with
    | none => (s, {})
    | some o =>
      if o.finalizers.isEmpty then ({ s with api := { s.api with ccs := delCC s.api.ccs name } }, {})
      else ({ s with api := { s.api with ccs := putCC s.api.ccs { o with deleting := true, rv := o.rv + 1 } } }, {})
  | .ccGen name g =>
    match getCC s.api.ccs name with
    | none => (s, {})
    | some o => ({ s with api := { s.api with ccs := putCC s.api.ccs { o with generation := g, rv := o.rv + 1 } } }, {})
  | .ccAddFin name fin =>
    -- another controller adds its own finalizer
    match getCC s.api.ccs name with
    | none => (s, {})
    | some o =>
      if o.finalizers.contains fin then (s, {})
      else ({ s with api := { s.api with ccs := putCC s.api.ccs { o with finalizers := o.finalizers ++ [fin], rv := o.rv + 1 } } }, {})
  | .nodeSetCIDRs name cidrs =>
    -- somebody else assigns pod CIDRs to a node that has none (the only change the server admits)
    ({ s with api := (s.api.patchNode name cidrs).1 }, {})
  | .deliverNode name tomb =>
    match getNode s.api.nodes name with
    | some cur => ({ s with nodeView := putNode s.nodeView cur, nodeQ := qAdd s.nodeQ name }, {})
    | none =>
      match getNode s.nodeView name with
      | none => (s, {})
      | some stale =>
        -- delete notification: the final state, or a tombstone with the last state the cache had
        let obj := if tomb then stale else (getNode s.api.graves name).getD stale
        -- an error of `ReleaseCIDR` is only logged by the handler
        let (al, _) := releaseCIDR s.alloc obj
        ({ s with alloc := al, nodeView := delNode s.nodeView name, nodeQ := qAdd s.nodeQ name }, {})
  | .deliverCC name =>
    match getCC s.api.ccs name with
    | some cur => ({ s with ccView := putCC s.ccView cur, ccQ := qAdd s.ccQ name }, {})
    | none =>
      if (getCC s.ccView name).isSome then ({ s with ccView := delCC s.ccView name, ccQ := qAdd s.ccQ name }, {})
      else (s, {})
  | .procNode name refresh ws => if s.nodeQ.contains name then procNode s name refresh ws else (s, {})
  | .procCC name w => if s.ccQ.contains name then procCC s name w else (s, {})

def Sys.init : Sys := ⟨⟨[], [], []⟩, [], [], ⟨[]⟩, [], [], []⟩

def run (s : Sys) (evs : List Ev) : Sys := evs.foldl (fun st e => (step st e).1) s

end Ipam
