import IpamVerif.System
/-!
# The shape of the entries never changes (used by `Restart.lean`)

`sh c`: selector key, parsed selector, name and pool geometries of an entry — everything `createClusterCIDRSet`
derives from the ClusterCIDR object.  Every allocator operation on the node side (allocate, occupy, release,
associate, the service filter) keeps the list of shapes `SH` as it is, with no assumption on the state.  Core Lean only.
-/
namespace Ipam.Shape
open Ipam

/-- what an entry is made from: selector key, parsed selector, name, and the geometry of its pools -/
def sh (c : CC) : String × List Req × String × Option Geo × Option Geo := (c.key, c.reqs, c.name, c.v4.map (·.geo), c.v6.map (·.geo))
def SH (a : Alloc) : List (String × List Req × String × Option Geo × Option Geo) := a.ccs.map sh

theorem SH_set {a : Alloc} {i : Nat} {c c' : CC} (hg : a.get? i = some c) (hk : sh c' = sh c) : SH (a.set i c') = SH a := by
  unfold SH Alloc.set
  unfold Alloc.get? at hg
  simp only
  have hlt : i < a.ccs.length := (List.getElem?_eq_some_iff.mp hg).1
  rw [List.map_set]
  apply List.ext_getElem?
  intro j
  by_cases hij : i = j
  · subst hij
    rw [List.getElem?_set_self (by simpa using hlt), List.getElem?_map, hg, hk]; rfl
  · rw [List.getElem?_set_ne hij]

theorem SH_set_none {a : Alloc} {i : Nat} (c' : CC) (hg : a.get? i = none) : a.set i c' = a := by
  unfold Alloc.set Alloc.get? at *
  have : a.ccs.length ≤ i := by
    rw [List.getElem?_eq_none_iff] at hg; exact hg
  rw [List.set_eq_of_length_le this]

theorem sh_setPool (c : CC) (f : Fam) {p0 : Pool} (p : Pool) (h0 : c.pool f = some p0) (hg : p.geo = p0.geo) :
    sh (c.setPool f p) = sh c := by
  unfold CC.setPool sh
  cases f with
  | v4 =>
    have : c.v4 = some p0 := h0
    simp only [this, Option.map_some, hg]
  | v6 =>
    have : c.v6 = some p0 := h0
    simp only [this, Option.map_some, hg]

theorem occupyIdx_geo (p : Pool) (i : Nat) : (p.occupyIdx i).geo = p.geo := by
  unfold Pool.occupyIdx; split <;> rfl

theorem releaseIdx_geo (p : Pool) (i : Nat) : (p.releaseIdx i).geo = p.geo := by
  unfold Pool.releaseIdx; split <;> rfl

theorem foldl_occupyIdx_geo : ∀ (l : List Nat) (p : Pool), (l.foldl Pool.occupyIdx p).geo = p.geo := by
  intro l
  induction l with
  | nil => intro p; rfl
  | cons i rest ih => intro p; simp only [List.foldl_cons]; rw [ih, occupyIdx_geo]

theorem foldl_releaseIdx_geo : ∀ (l : List Nat) (p : Pool), (l.foldl Pool.releaseIdx p).geo = p.geo := by
  intro l
  induction l with
  | nil => intro p; rfl
  | cons i rest ih => intro p; simp only [List.foldl_cons]; rw [ih, releaseIdx_geo]

theorem pool_occupy_geo {p p' : Pool} {cd : Cidr} (h : p.occupy cd = some p') : p'.geo = p.geo := by
  unfold Pool.occupy at h
  split at h
  · cases h
  · cases h; exact foldl_occupyIdx_geo _ _

theorem pool_release_geo {p p' : Pool} {cd : Cidr} (h : p.release cd = some p') : p'.geo = p.geo := by
  unfold Pool.release at h
  split at h
  · cases h
  · cases h; exact foldl_releaseIdx_geo _ _

theorem pool_next_geo {p p' : Pool} {k i : Nat} (h : p.next = some (k, i, p')) : p'.geo = p.geo := by
  unfold Pool.next at h
  split at h
  · cases h
  · split at h
    · cases h
    · cases h; rfl

theorem sh_occupy {c c' : CC} {cd : Cidr} (h : c.occupy cd = some c') : sh c' = sh c := by
  unfold CC.occupy at h
  split at h
  · cases h
  · rename_i p hp
    split at h
    · cases h
    · rename_i p' ho
      cases h; exact sh_setPool _ _ _ hp (pool_occupy_geo ho)

theorem sh_release {c c' : CC} {cd : Cidr} (h : c.release cd = some c') : sh c' = sh c := by
  unfold CC.release at h
  split at h
  · cases h
  · rename_i p hp
    split at h
    · cases h
    · rename_i p' ho
      cases h; exact sh_setPool _ _ _ hp (pool_release_geo ho)

theorem sh_addAssoc (c : CC) (n : String) : sh (c.addAssoc n) = sh c := by
  unfold CC.addAssoc sh; split <;> rfl

theorem sh_delAssoc (c : CC) (n : String) : sh (c.delAssoc n) = sh c := rfl

theorem sh_occupyList : ∀ (cs : List Cidr) (c : CC), sh (c.occupyList cs).1 = sh c := by
  intro cs
  induction cs with
  | nil => intro c; rfl
  | cons cd rest ih =>
    intro c
    unfold CC.occupyList
    cases ho : c.occupy cd with
    | none => rfl
    | some c' => simp only; rw [ih c', sh_occupy ho]

theorem SH_allocLoop (i : Nat) (f : Fam) : ∀ (fuel ev : Nat) (a : Alloc), SH (allocLoop a i f fuel ev).1 = SH a := by
  intro fuel
  induction fuel with
  | zero => intro ev a; rfl
  | succ fuel ih =>
    intro ev a
    unfold allocLoop
    cases hg : a.get? i with
    | none => rfl
    | some c =>
      simp only
      cases hp : c.pool f with
      | none => rfl
      | some p =>
        simp only
        split
        · rfl
        · cases hn : p.next with
          | none => rfl
          | some r =>
            obtain ⟨k, skipped, p'⟩ := r
            simp only
            have h1 : SH (a.set i (c.setPool f p')) = SH a := SH_set hg (sh_setPool _ _ _ hp (pool_next_geo hn))
            split
            · rw [ih, h1]
            · cases ho : (c.setPool f p').occupy (goBlock p.geo k) with
              | none => simp only; exact h1
              | some c'' =>
                simp only
                have hg1 : (a.set i (c.setPool f p')).get? i = some (c.setPool f p') := by
                  unfold Alloc.set Alloc.get? at *
                  simp only
                  rw [List.getElem?_set]
                  have := (List.getElem?_eq_some_iff.mp hg).1
                  simp [this]
                rw [SH_set hg1 (sh_occupy ho), h1]

theorem SH_allocate (a : Alloc) (i : Nat) (f : Fam) : SH (a.allocate i f).1 = SH a := by
  unfold Alloc.allocate
  cases a.get? i with
  | none => rfl
  | some c =>
    simp only
    cases c.pool f with
    | none => rfl
    | some p => exact SH_allocLoop i f _ _ a


theorem get?_set_self' {a : Alloc} {i : Nat} {c : CC} (d : CC) (hg : a.get? i = some c) : (a.set i d).get? i = some d := by
  unfold Alloc.set Alloc.get? at *
  simp only
  have := (List.getElem?_eq_some_iff.mp hg).1
  rw [List.getElem?_set_self this]

theorem SH_tryEntry (a : Alloc) (i : Nat) : SH (a.tryEntry i).1 = SH a := by
  unfold Alloc.tryEntry
  cases hg : a.get? i with
  | none => rfl
  | some c =>
    simp only
    cases h4 : c.v4 with
    | none =>
      simp only
      cases h6 : c.v6 with
      | none => rfl
      | some p6 =>
        simp only
        have := SH_allocate a i .v6
        cases hal : a.allocate i .v6 with
        | mk a2 r =>
          rw [hal] at this
          cases r with
          | some b6 => exact this
          | none => simp only [List.foldl_nil]; exact this
    | some p4 =>
      simp only
      have h1 := SH_allocate a i .v4
      cases hal : a.allocate i .v4 with
      | mk a1 r =>
        rw [hal] at h1
        cases r with
        | none => exact h1
        | some b4 =>
          simp only
          cases h6 : c.v6 with
          | none => exact h1
          | some p6 =>
            simp only
            have h2 := SH_allocate a1 i .v6
            cases hbl : a1.allocate i .v6 with
            | mk a2 r2 =>
              rw [hbl] at h2
              cases r2 with
              | some b6 => simp only; rw [h2, h1]
              | none =>
                simp only [List.foldl_cons, List.foldl_nil]
                split
                · rw [h2, h1]
                · rename_i c2 hg2
                  split
                  · rw [h2, h1]
                  · rename_i c3 hr3
                    rw [SH_set hg2 (sh_release hr3), h2, h1]

theorem SH_prioritized : ∀ (l : List Nat) (a : Alloc), SH (a.prioritized l).1 = SH a := by
  intro l
  induction l with
  | nil => intro a; rfl
  | cons i rest ih =>
    intro a
    unfold Alloc.prioritized
    have h1 := SH_tryEntry a i
    cases ht : a.tryEntry i with
    | mk a' r =>
      rw [ht] at h1
      cases r with
      | some cidrs => exact h1
      | none => simp only; rw [ih, h1]

theorem SH_releaseAll (i : Nat) : ∀ (cs : List Cidr) (a : Alloc), SH (a.releaseAll i cs).1 = SH a := by
  intro cs
  induction cs with
  | nil => intro a; rfl
  | cons cd rest ih =>
    intro a
    unfold Alloc.releaseAll
    cases hg : a.get? i with
    | none => rfl
    | some c =>
      simp only
      cases hr : c.release cd with
      | none => rfl
      | some c' => simp only; rw [ih, SH_set hg (sh_release hr)]

theorem SH_occupyNode (name : String) (cidrs : List Cidr) : ∀ (l : List Nat) (a : Alloc),
    SH (a.occupyNode name cidrs l).1 = SH a := by
  intro l
  induction l with
  | nil => intro a; rfl
  | cons i rest ih =>
    intro a
    unfold Alloc.occupyNode
    cases hg : a.get? i with
    | none => simp only; exact ih a
    | some c =>
      simp only
      have hk := sh_occupyList cidrs c
      cases hr : c.occupyList cidrs with
      | mk c' okk =>
        rw [hr] at hk
        cases okk with
        | true => simp only; exact SH_set hg (by rw [sh_addAssoc]; exact hk)
        | false => simp only; rw [ih, SH_set hg hk]

theorem SH_releaseNode (a : Alloc) (name : String) (ls : Labels) (cs : List Cidr) : SH (a.releaseNode name ls cs).1 = SH a := by
  unfold Alloc.releaseNode
  cases a.allocatedCC name (a.ordered ls false) with
  | none => rfl
  | some i =>
    simp only
    have h1 := SH_releaseAll i cs a
    cases hra : a.releaseAll i cs with
    | mk a' okk =>
      rw [hra] at h1
      cases okk with
      | false => exact h1
      | true =>
        simp only
        cases hg : a'.get? i with
        | none => exact h1
        | some c => simp only; rw [SH_set hg (sh_delAssoc c name), h1]

theorem sh_occupyService (c : CC) (svc : Cidr) : sh (c.occupyService svc) = sh c := by
  unfold CC.occupyService
  split
  · rfl
  · split
    · split
      · rfl
      · rename_i h; exact sh_occupy h
    · rfl

theorem SH_filterService (a : Alloc) (svc : Cidr) : SH (a.filterService svc) = SH a := by
  unfold Alloc.filterService SH
  simp only [List.map_map]
  apply List.map_congr_left
  intro c _
  exact sh_occupyService c svc


/-! ### the work items -/

theorem SH_releaseCIDR (al : Alloc) (n : NodeObj) : SH (releaseCIDR al n).1 = SH al := by
  unfold releaseCIDR
  split
  · rfl
  · split
    · rfl
    · exact SH_releaseNode _ _ _ _

theorem SH_occupyCIDRs (al : Alloc) (n : NodeObj) : SH (occupyCIDRs al n).1 = SH al := by
  unfold occupyCIDRs
  simp only
  split
  · rfl
  · split
    · rfl
    · exact SH_occupyNode _ _ _ _

theorem SH_update (s : Sys) (name : String) (cidrs : List Cidr) (i : Nat) (ws : List WOut) :
    SH (updateCIDRsAllocation s name cidrs i ws).1.alloc = SH s.alloc := by
  unfold updateCIDRsAllocation
  split
  · exact SH_releaseAll _ _ _
  · split
    · simp only
      split
      · rename_i c hg; exact SH_set hg (sh_addAssoc c name)
      · rfl
    · split
      · have := SH_releaseAll i cidrs s.alloc
        cases hr : s.alloc.releaseAll i cidrs with
        | mk al okk => rw [hr] at this; cases okk <;> exact this
      · simp only
        split
        · simp only
          split
          · rename_i c hg; exact SH_set hg (sh_addAssoc c name)
          · rfl
        · exact SH_releaseAll _ _ _

theorem SH_allocateOrOccupy (s : Sys) (n : NodeObj) (refresh : Bool) (ws : List WOut) :
    SH (allocateOrOccupy s n refresh ws).1.alloc = SH s.alloc := by
  unfold allocateOrOccupy
  split
  · have := SH_occupyCIDRs s.alloc n
    cases hr : occupyCIDRs s.alloc n with
    | mk al okk => rw [hr] at this; cases okk <;> exact this
  · have hp := SH_prioritized (s.alloc.ordered n.labels true) s.alloc
    cases hpr : s.alloc.prioritized (s.alloc.ordered n.labels true) with
    | mk al r =>
      rw [hpr] at hp
      cases r with
      | none => exact hp
      | some ci =>
        obtain ⟨cidrs, i⟩ := ci
        simp only
        split
        · exact hp
        · split
          · split
            · rw [SH_update]; exact hp
            · simp only
              rw [SH_releaseCIDR, SH_update]; exact hp
          · rw [SH_update]; exact hp

theorem SH_procNode (s : Sys) (name : String) (refresh : Bool) (ws : List WOut) :
    SH (procNode s name refresh ws).1.alloc = SH s.alloc := by
  unfold procNode
  have key : SH (procNodeCore { s with nodeQ := qDel s.nodeQ name } name refresh ws).1.alloc = SH s.alloc := by
    unfold procNodeCore
    split
    · rfl
    · split
      · have := SH_releaseCIDR s.alloc (by assumption : NodeObj)
        rename_i n _ _
        have h2 := SH_releaseCIDR s.alloc n
        cases hr : releaseCIDR s.alloc n with
        | mk al okk => rw [hr] at h2; cases okk <;> exact h2
      · exact SH_allocateOrOccupy _ _ _ _
  simp only
  split
  · exact key
  · exact key


end Ipam.Shape
