import IpamVerif.Alloc
import IpamVerif.Props.C14
/-! Helper lemmas for L2: well-formedness of the map, the "same up to cursors" view, and the
loop of `allocateCIDR`.  Property statements live in `Props/`. -/
namespace Ipam

/-! ### frames -/

@[simp] theorem CC.pool_setPool_same (c : CC) (f : Fam) (p : Pool) : (c.setPool f p).pool f = some p := by
  cases f <;> rfl

theorem CC.pool_setPool_other (c : CC) (f g : Fam) (p : Pool) (h : g ≠ f) : (c.setPool f p).pool g = c.pool g := by
  cases f <;> cases g <;> first | rfl | exact absurd rfl h

@[simp] theorem CC.setPool_key (c : CC) (f : Fam) (p : Pool) : (c.setPool f p).key = c.key := by cases f <;> rfl
@[simp] theorem CC.setPool_reqs (c : CC) (f : Fam) (p : Pool) : (c.setPool f p).reqs = c.reqs := by cases f <;> rfl
@[simp] theorem CC.setPool_name (c : CC) (f : Fam) (p : Pool) : (c.setPool f p).name = c.name := by cases f <;> rfl
@[simp] theorem CC.setPool_assoc (c : CC) (f : Fam) (p : Pool) : (c.setPool f p).assoc = c.assoc := by cases f <;> rfl
@[simp] theorem CC.setPool_term (c : CC) (f : Fam) (p : Pool) : (c.setPool f p).term = c.term := by cases f <;> rfl

theorem Alloc.get?_set (a : Alloc) (i j : Nat) (c : CC) :
    (a.set i c).get? j = if i = j then (if i < a.ccs.length then some c else none) else a.get? j := by
  unfold Alloc.set Alloc.get?
  rw [List.getElem?_set]

theorem Alloc.get?_set_self (a : Alloc) (i : Nat) (c d : CC) (h : a.get? i = some d) : (a.set i c).get? i = some c := by
  rw [Alloc.get?_set, if_pos rfl]
  unfold Alloc.get? at h
  have : i < a.ccs.length := by
    false_or_by_contra; rename_i hn
    rw [List.getElem?_eq_none (by omega)] at h; cases h
  rw [if_pos this]

theorem Alloc.get?_set_ne (a : Alloc) (i j : Nat) (c : CC) (h : i ≠ j) : (a.set i c).get? j = a.get? j := by
  rw [Alloc.get?_set, if_neg h]

@[simp] theorem Alloc.set_length (a : Alloc) (i : Nat) (c : CC) : (a.set i c).ccs.length = a.ccs.length := by
  unfold Alloc.set; simp

/-! ### well-formedness -/

/-- a pool sitting in slot `f` of an entry -/
def PoolOK (f : Fam) (p : Pool) : Prop := p.Inv ∧ C13.Supported p.geo ∧ p.geo.fam = f

def CC.WF (c : CC) : Prop := ∀ f p, c.pool f = some p → PoolOK f p

def Alloc.WF (a : Alloc) : Prop := ∀ i c, a.get? i = some c → c.WF

theorem CC.WF_setPool {c : CC} (hc : c.WF) {f : Fam} {p : Pool} (hp : PoolOK f p) : (c.setPool f p).WF := by
  intro g q hq
  by_cases hg : g = f
  · subst hg; rw [CC.pool_setPool_same] at hq; cases hq; exact hp
  · rw [CC.pool_setPool_other _ _ _ _ hg] at hq; exact hc g q hq

theorem Alloc.WF_set {a : Alloc} (ha : a.WF) {i : Nat} {c : CC} (hc : c.WF) : (a.set i c).WF := by
  intro j d hd
  rw [Alloc.get?_set] at hd
  split at hd
  · split at hd
    · cases hd; exact hc
    · cases hd
  · exact ha j d hd

theorem PoolOK_occupy {f : Fam} {p p' : Pool} (hp : PoolOK f p) {cd : Cidr} (hcd : cd.WF) (h : p.occupy cd = some p') :
    PoolOK f p' := by
  obtain ⟨hI, hS, hf⟩ := hp
  obtain ⟨hI', hg, _⟩ := (C14.occupy_refines hS hI hcd).2 p' h
  exact ⟨hI', hg ▸ hS, hg ▸ hf⟩

theorem PoolOK_release {f : Fam} {p p' : Pool} (hp : PoolOK f p) {cd : Cidr} (hcd : cd.WF) (h : p.release cd = some p') :
    PoolOK f p' := by
  obtain ⟨hI, hS, hf⟩ := hp
  obtain ⟨hI', hg, _⟩ := (C14.release_refines hS hI hcd).2 p' h
  exact ⟨hI', hg ▸ hS, hg ▸ hf⟩

theorem PoolOK_next {f : Fam} {p p' : Pool} (hp : PoolOK f p) {k s : Nat} (h : p.next = some (k, s, p')) : PoolOK f p' := by
  obtain ⟨hI, hS, hf⟩ := hp
  obtain ⟨_, _, _, _, _, he, hI'⟩ := C14.next_some hI h
  rw [he] at hI' ⊢
  exact ⟨hI', hS, hf⟩

theorem CC.WF_occupy {c c' : CC} (hc : c.WF) {cd : Cidr} (hcd : cd.WF) (h : c.occupy cd = some c') : c'.WF := by
  unfold CC.occupy at h
  split at h
  · cases h
  · rename_i p hp
    split at h
    · cases h
    · rename_i p' hp'
      cases h
      exact CC.WF_setPool hc (PoolOK_occupy (hc _ _ hp) hcd hp')

theorem CC.WF_release {c c' : CC} (hc : c.WF) {cd : Cidr} (hcd : cd.WF) (h : c.release cd = some c') : c'.WF := by
  unfold CC.release at h
  split at h
  · cases h
  · rename_i p hp
    split at h
    · cases h
    · rename_i p' hp'
      cases h
      exact CC.WF_setPool hc (PoolOK_release (hc _ _ hp) hcd hp')

/-- blocks of a supported pool are well-formed CIDRs -/
theorem goBlock_WF {f : Fam} {p : Pool} (hp : PoolOK f p) {k : Nat} (hk : k < p.max) : (goBlock p.geo k).WF :=
  (C13.block_is_ith_subrange hp.2.1 hk).2.1

/-! ### the part of the state a candidate is checked against -/

/-- used blocks of one family, as CIDRs, over the whole map -/
def Alloc.usedCidrs (a : Alloc) (f : Fam) : List Cidr :=
  (a.pools f).flatMap (fun q => q.used.map (fun j => goBlock q.geo j))

theorem Alloc.blocked_iff (a : Alloc) (blk : Cidr) :
    a.blocked blk = true ↔ ∃ u ∈ a.usedCidrs blk.fam, goOverlap blk u = true := by
  unfold Alloc.blocked Alloc.usedCidrs
  simp only [List.any_eq_true, List.mem_flatMap, List.mem_map]
  constructor
  · rintro ⟨q, hq, j, hj, ho⟩
    exact ⟨_, ⟨q, hq, j, hj, rfl⟩, ho⟩
  · rintro ⟨u, ⟨q, hq, j, hj, rfl⟩, ho⟩
    exact ⟨q, hq, j, hj, ho⟩



theorem Alloc.mem_pools_iff (a : Alloc) (g : Fam) (q : Pool) :
    q ∈ a.pools g ↔ ∃ j d, a.get? j = some d ∧ d.pool g = some q := by
  unfold Alloc.pools Alloc.get?
  simp only [List.mem_filterMap]
  constructor
  · rintro ⟨d, hd, hq⟩
    obtain ⟨j, hj⟩ := List.mem_iff_getElem?.mp hd
    exact ⟨j, d, hj, hq⟩
  · rintro ⟨j, d, hj, hq⟩
    exact ⟨d, List.mem_of_getElem? hj, hq⟩

/-- index-based reading of the overlap check -/
theorem Alloc.blocked_iff' (a : Alloc) (blk : Cidr) :
    a.blocked blk = true ↔ ∃ j d q u, a.get? j = some d ∧ d.pool blk.fam = some q ∧ u ∈ q.used ∧
      goOverlap blk (goBlock q.geo u) = true := by
  unfold Alloc.blocked
  simp only [List.any_eq_true]
  constructor
  · rintro ⟨q, hq, u, hu, ho⟩
    obtain ⟨j, d, hj, hd⟩ := (a.mem_pools_iff _ _).mp hq
    exact ⟨j, d, q, u, hj, hd, hu, ho⟩
  · rintro ⟨j, d, q, u, hj, hd, hu, ho⟩
    exact ⟨q, (a.mem_pools_iff _ _).mpr ⟨j, d, hj, hd⟩, u, hu, ho⟩

/-- moving a cursor changes nothing the overlap check looks at -/
theorem Alloc.blocked_set_cursor (a : Alloc) (i : Nat) (c : CC) (f : Fam) (p : Pool) (x : Nat)
    (hget : a.get? i = some c) (hp : c.pool f = some p) (blk : Cidr) :
    (a.set i (c.setPool f { p with cursor := x })).blocked blk = a.blocked blk := by
  rw [Bool.eq_iff_iff, Alloc.blocked_iff', Alloc.blocked_iff']
  constructor
  · rintro ⟨j, d, q, u, hj, hd, hu, ho⟩
    by_cases hij : i = j
    · subst hij
      rw [Alloc.get?_set_self _ _ _ _ hget] at hj
      cases hj
      by_cases hg : blk.fam = f
      · rw [hg, CC.pool_setPool_same] at hd
        cases hd
        exact ⟨i, c, p, u, hget, hg ▸ hp, hu, ho⟩
      · rw [CC.pool_setPool_other _ _ _ _ hg] at hd
        exact ⟨i, c, q, u, hget, hd, hu, ho⟩
    · rw [Alloc.get?_set_ne _ _ _ _ hij] at hj
      exact ⟨j, d, q, u, hj, hd, hu, ho⟩
  · rintro ⟨j, d, q, u, hj, hd, hu, ho⟩
    by_cases hij : i = j
    · subst hij
      rw [hget] at hj; cases hj
      by_cases hg : blk.fam = f
      · rw [hg, hp] at hd; cases hd
        exact ⟨i, _, { p with cursor := x }, u, Alloc.get?_set_self _ _ _ _ hget, by rw [hg, CC.pool_setPool_same], hu, ho⟩
      · exact ⟨i, _, q, u, Alloc.get?_set_self _ _ _ _ hget, by rw [CC.pool_setPool_other _ _ _ _ hg]; exact hd, hu, ho⟩
    · exact ⟨j, d, q, u, by rw [Alloc.get?_set_ne _ _ _ _ hij]; exact hj, hd, hu, ho⟩

theorem CC.setPool_setPool (c : CC) (f : Fam) (p q : Pool) : (c.setPool f p).setPool f q = c.setPool f q := by
  cases f <;> rfl

theorem Alloc.set_set (a : Alloc) (i : Nat) (c d : CC) : (a.set i c).set i d = a.set i d := by
  unfold Alloc.set; simp [List.set_set]




theorem CC.setPool_self (c : CC) (f : Fam) (p : Pool) (h : c.pool f = some p) : c.setPool f p = c := by
  cases f <;> (simp only [CC.pool] at h; cases c; simp_all [CC.setPool])

theorem Alloc.set_self (a : Alloc) (i : Nat) (c : CC) (h : a.get? i = some c) : a.set i c = a := by
  unfold Alloc.set Alloc.get? at *
  cases a with
  | mk l =>
    simp only [Alloc.mk.injEq] at *
    have hl : i < l.length := by
      false_or_by_contra; rename_i hn
      rw [List.getElem?_eq_none (by omega)] at h; cases h
    rw [List.getElem?_eq_getElem hl] at h
    cases h
    exact List.set_getElem_self hl

theorem Pool.with_cursor_self (p : Pool) : { p with cursor := p.cursor } = p := rfl

/-- block `k` of the pool cannot be handed out: it is used there, or overlaps a used block somewhere -/
def Unavail (a : Alloc) (p : Pool) (k : Nat) : Prop := k ∈ p.used ∨ a.blocked (goBlock p.geo k) = true

theorem all_unavail_of_cycle {a : Alloc} {p : Pool} {b ev : Nat} (hm : 0 < p.max) (hev : ev ≥ p.max)
    (hprev : ∀ j, j < ev → Unavail a p ((b + j) % p.max)) : ∀ k, k < p.max → Unavail a p k := by
  intro k hk
  obtain ⟨j, hj, hjk⟩ := cyclic_cover (m := p.max) (s := b % p.max) (i := k) (Nat.mod_lt _ hm) hk
  have := hprev j (by omega)
  rw [← Nat.mod_add_mod, hjk] at this
  exact this

/-- occupying a block of the pool itself always succeeds -/
theorem occupy_own_block {f : Fam} {p : Pool} (hp : PoolOK f p) {k : Nat} (hk : k < p.max) :
    ∃ p', p.occupy (goBlock p.geo k) = some p' := by
  obtain ⟨hI, hS, hf⟩ := hp
  have hb := C13.block_is_ith_subrange hS hk
  cases h : p.occupy (goBlock p.geo k) with
  | some p' => exact ⟨p', rfl⟩
  | none =>
    have := (C14.occupy_refines hS hI hb.2.1).1.mp h
    rcases this with h1 | h1
    · exact absurd rfl h1
    · exfalso
      have hsub := hb.2.2
      have hpos := (goBlock p.geo k).size_pos
      unfold Cidr.Disjoint at h1
      have := hsub.1; have := hsub.2
      omega




theorem Unavail_set_cursor (a : Alloc) (i : Nat) (c : CC) (f : Fam) (p : Pool) (x : Nat)
    (hget : a.get? i = some c) (hp : c.pool f = some p) (k : Nat) :
    Unavail (a.set i (c.setPool f { p with cursor := x })) { p with cursor := x } k ↔ Unavail a p k := by
  unfold Unavail
  rw [Alloc.blocked_set_cursor a i c f p x hget hp]

/-- **the loop of `allocateCIDR`**, started with `evaluated = ev` after the `ev` indices that cyclically
follow `b` were found unavailable.  On failure every block of the pool is unavailable and only the cursor
moved; on success the block is a free block of the pool that overlaps no used block anywhere, and the
state is the old one with the cursor moved and exactly that block occupied. -/
theorem allocLoop_spec (i : Nat) (f : Fam) (b : Nat) :
    ∀ (fuel ev : Nat) (a : Alloc) (c : CC) (p : Pool),
      a.get? i = some c → c.pool f = some p → PoolOK f p →
      fuel + ev ≥ p.max → p.cursor = (b + ev) % p.max → (∀ j, j < ev → Unavail a p ((b + j) % p.max)) →
      (∀ a', allocLoop a i f fuel ev = (a', none) →
          (∀ k, k < p.max → Unavail a p k) ∧ ∃ x, a' = a.set i (c.setPool f { p with cursor := x }) ∧ x < p.max) ∧
      (∀ a' blk, allocLoop a i f fuel ev = (a', some blk) →
          ∃ k x p', k < p.max ∧ blk = goBlock p.geo k ∧ k ∉ p.used ∧ a.blocked blk = false ∧ x < p.max ∧
            ({ p with cursor := x } : Pool).occupy blk = some p' ∧ a' = a.set i (c.setPool f p')) := by
  intro fuel
  induction fuel with
  | zero =>
    intro ev a c p hget hp hok hfuel hcur hprev
    have hm : 0 < p.max := p.geo.max_pos
    constructor
    · intro a' h
      simp only [allocLoop, Prod.mk.injEq] at h
      refine ⟨all_unavail_of_cycle hm (by omega) hprev, p.cursor, ?_, hok.1.cursor_lt⟩
      have e : ({ p with cursor := p.cursor } : Pool) = p := rfl
      rw [e, CC.setPool_self _ _ _ hp, Alloc.set_self _ _ _ hget]; exact h.1.symm
    · intro a' blk h
      simp [allocLoop] at h
  | succ fuel ih =>
    intro ev a c p hget hp hok hfuel hcur hprev
    have hm : 0 < p.max := p.geo.max_pos
    have hself : a = a.set i (c.setPool f { p with cursor := p.cursor }) := by
      have e : ({ p with cursor := p.cursor } : Pool) = p := rfl
      rw [e, CC.setPool_self _ _ _ hp, Alloc.set_self _ _ _ hget]
    unfold allocLoop
    simp only [hget, hp]
    by_cases hev : ev ≥ p.max
    · rw [if_pos hev]
      constructor
      · intro a' h
        simp only [Prod.mk.injEq] at h
        exact ⟨all_unavail_of_cycle hm hev hprev, p.cursor, h.1 ▸ hself, hok.1.cursor_lt⟩
      · intro a' blk h; simp at h
    · rw [if_neg hev]
      cases hn : p.next with
      | none =>
        simp only
        constructor
        · intro a' h
          simp only [Prod.mk.injEq] at h
          refine ⟨?_, p.cursor, h.1 ▸ hself, hok.1.cursor_lt⟩
          intro k hk
          exact Or.inl ((C14.next_none_iff hok.1).mp hn k hk)
        · intro a' blk h; simp at h
      | some r =>
        obtain ⟨k, skipped, p'⟩ := r
        simp only
        obtain ⟨hk, hkfree, hsk, hkeq, hskipped, hp', hinv'⟩ := C14.next_some hok.1 hn
        have hok' : PoolOK f p' := PoolOK_next hok hn
        have hmax' : p'.max = p.max := by rw [hp']; rfl
        have hgeo' : p'.geo = p.geo := by rw [hp']
        have hused' : p'.used = p.used := by rw [hp']
        -- the index reached
        have hkidx : k = (b + (ev + skipped)) % p.max := by
          rw [hkeq, hcur, Nat.mod_add_mod]; congr 1; omega
        by_cases hbl : (a.set i (c.setPool f p')).blocked (goBlock p.geo k) = true
        · rw [if_pos hbl]
          have hbl0 : a.blocked (goBlock p.geo k) = true := by
            rw [hp'] at hbl; rwa [Alloc.blocked_set_cursor a i c f p _ hget hp] at hbl
          have hget1 : (a.set i (c.setPool f p')).get? i = some (c.setPool f p') := Alloc.get?_set_self _ _ _ _ hget
          have hprev1 : ∀ j, j < ev + skipped + 1 → Unavail (a.set i (c.setPool f p')) p' ((b + j) % p'.max) := by
            intro j hj
            rw [hmax']
            have key : Unavail a p ((b + j) % p.max) := by
              by_cases h1 : j < ev
              · exact hprev j h1
              · by_cases h2 : j < ev + skipped
                · left
                  have := hskipped (j - ev) (by omega)
                  rw [hcur, Nat.mod_add_mod] at this
                  have e : b + ev + (j - ev) = b + j := by omega
                  rw [e] at this; exact this
                · right
                  have e : j = ev + skipped := by omega
                  rw [e, ← hkidx]; exact hbl0
            rw [hp']
            exact (Unavail_set_cursor a i c f p _ hget hp _).mpr key
          have hcur1 : p'.cursor = (b + (ev + skipped + 1)) % p'.max := by
            rw [hmax', hp']
            simp only
            rw [hkidx, Nat.mod_add_mod]; congr 1
          obtain ⟨ih1, ih2⟩ := ih (ev + skipped + 1) (a.set i (c.setPool f p')) (c.setPool f p') p' hget1
            (CC.pool_setPool_same _ _ _) hok' (by rw [hmax']; omega) hcur1 hprev1
          constructor
          · intro a' h
            obtain ⟨hall, x, hx, hxm⟩ := ih1 a' h
            refine ⟨?_, x, ?_, hmax' ▸ hxm⟩
            · intro k' hk'
              have := hall k' (hmax' ▸ hk')
              rw [hp'] at this
              exact (Unavail_set_cursor a i c f p _ hget hp _).mp this
            · rw [hx, Alloc.set_set, CC.setPool_setPool, hp']
          · intro a' blk h
            obtain ⟨k2, x, p2, hk2, hb2, hf2, hnb2, hx2, hocc2, ha2⟩ := ih2 a' blk h
            refine ⟨k2, x, p2, hmax' ▸ hk2, hgeo' ▸ hb2, hused' ▸ hf2, ?_, hmax' ▸ hx2, ?_, ?_⟩
            · rw [hp'] at hnb2; rwa [Alloc.blocked_set_cursor a i c f p _ hget hp] at hnb2
            · rw [hp'] at hocc2; exact hocc2
            · rw [ha2, Alloc.set_set, CC.setPool_setPool]
        · rw [if_neg hbl]
          have hbl0 : a.blocked (goBlock p.geo k) = false := by
            rw [hp'] at hbl; rw [Alloc.blocked_set_cursor a i c f p _ hget hp] at hbl; simpa using hbl
          have hfam : (goBlock p.geo k).fam = f := hok.2.2
          obtain ⟨p'', hocc⟩ := occupy_own_block hok' (hmax' ▸ hk)
          rw [hgeo'] at hocc
          have hcocc : (c.setPool f p').occupy (goBlock p.geo k) = some ((c.setPool f p').setPool f p'') := by
            unfold CC.occupy
            rw [hfam, CC.pool_setPool_same]
            simp only [hocc]
          rw [hcocc]
          simp only
          constructor
          · intro a' h; simp at h
          · intro a' blk h
            simp only [Prod.mk.injEq, Option.some.injEq] at h
            obtain ⟨rfl, rfl⟩ := h
            refine ⟨k, (k + 1) % p.max, p'', hk, rfl, hkfree, hbl0, Nat.mod_lt _ hm, ?_, ?_⟩
            · rw [← hp']; exact hocc
            · rw [Alloc.set_set, CC.setPool_setPool]




/-- `allocateCIDR` on entry `i`, family `f` -/
theorem allocate_spec {a : Alloc} {i : Nat} {f : Fam} {c : CC} {p : Pool}
    (hget : a.get? i = some c) (hp : c.pool f = some p) (hok : PoolOK f p) :
    (∀ a', a.allocate i f = (a', none) →
        (∀ k, k < p.max → Unavail a p k) ∧ ∃ x, a' = a.set i (c.setPool f { p with cursor := x }) ∧ x < p.max) ∧
    (∀ a' blk, a.allocate i f = (a', some blk) →
        ∃ k x p', k < p.max ∧ blk = goBlock p.geo k ∧ k ∉ p.used ∧ a.blocked blk = false ∧ x < p.max ∧
          ({ p with cursor := x } : Pool).occupy blk = some p' ∧ a' = a.set i (c.setPool f p')) := by
  unfold Alloc.allocate
  simp only [hget, hp]
  have hm : 0 < p.max := p.geo.max_pos
  exact allocLoop_spec i f p.cursor p.max 0 a c p hget hp hok (by omega)
    (by rw [Nat.add_zero, Nat.mod_eq_of_lt hok.1.cursor_lt]) (by intro j hj; omega)

theorem goOverlap_self {c : Cidr} (hc : c.WF) : goOverlap c c = true := by
  rw [goOverlap_iff hc hc rfl]
  exact Cidr.not_disjoint_of_mem c.mem_addr c.mem_addr

/-- in a well-formed map a used block of the pool itself is found by the overlap check -/
theorem Unavail_iff_blocked {a : Alloc} {i : Nat} {f : Fam} {c : CC} {p : Pool}
    (hget : a.get? i = some c) (hp : c.pool f = some p) (hok : PoolOK f p) {k : Nat} (hk : k < p.max) :
    Unavail a p k ↔ a.blocked (goBlock p.geo k) = true := by
  unfold Unavail
  constructor
  · rintro (h | h)
    · rw [Alloc.blocked_iff']
      have hfam : (goBlock p.geo k).fam = f := hok.2.2
      exact ⟨i, c, p, k, hget, hfam ▸ hp, h, goOverlap_self (goBlock_WF hok hk)⟩
    · exact h
  · exact Or.inr

/-- **C05 at pool level: the allocation from one pool fails iff every block of the pool overlaps a
block in use (in this pool or any other pool of the family)** -/
theorem allocate_fails_iff {a : Alloc} {i : Nat} {f : Fam} {c : CC} {p : Pool}
    (hget : a.get? i = some c) (hp : c.pool f = some p) (hok : PoolOK f p) :
    (a.allocate i f).2 = none ↔ ∀ k, k < p.max → a.blocked (goBlock p.geo k) = true := by
  obtain ⟨h1, h2⟩ := allocate_spec hget hp hok
  constructor
  · intro hn k hk
    have := (h1 (a.allocate i f).1 (by rw [← hn])).1 k hk
    exact (Unavail_iff_blocked hget hp hok hk).mp this
  · intro hall
    cases hr : (a.allocate i f).2 with
    | none => rfl
    | some blk =>
      obtain ⟨k, x, p', hk, hb, _, hnb, _⟩ := h2 (a.allocate i f).1 blk (by rw [← hr])
      rw [hb, hall k hk] at hnb; cases hnb

/-- on success the block handed out is a block of the pool that overlaps nothing in use -/
theorem allocate_ok {a a' : Alloc} {i : Nat} {f : Fam} {c : CC} {p : Pool} {blk : Cidr}
    (hget : a.get? i = some c) (hp : c.pool f = some p) (hok : PoolOK f p)
    (h : a.allocate i f = (a', some blk)) :
    ∃ k, k < p.max ∧ blk = goBlock p.geo k ∧ a.blocked blk = false ∧ blk.WF ∧ blk.fam = f := by
  obtain ⟨k, x, p', hk, hb, _, hnb, _⟩ := (allocate_spec hget hp hok).2 a' blk h
  exact ⟨k, hk, hb, hnb, hb ▸ goBlock_WF hok hk, hb ▸ hok.2.2⟩


end Ipam
