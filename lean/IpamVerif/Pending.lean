import IpamVerif.System
/-!
# Nothing is forgotten (the safety half of C11)

`Pend s`: (1) a cached node that is not being deleted and has no pod CIDRs is in the node queue — unless the API
object already has pod CIDRs or is gone (then a notification that will queue or drop it is still to be delivered);
(2) a cached ClusterCIDR that is what the API has and still needs the controller's finalizer added or removed is in
the ClusterCIDR queue; (3) cached ClusterCIDRs are never newer than the API objects.  Preserved by *every* event —
restarts, failed and lost writes, label edits, foreign writers — except the re-creation of an object under a name the
cache still holds (`Frag2`; findings P21 / P15).  Consequence (`quiescent_nodes_served`, `quiescent_ccs_done`): whenever
the queues are empty and the caches are current, every node that is not being deleted has pod CIDRs and every
ClusterCIDR has been dealt with; work is never dropped on the way.  That queued work *is* eventually processed is the
work queue's and the scheduler's contract (trusted, DESIGN §4).  Core Lean only.
-/
namespace Ipam.Pending
open Ipam

/-- a cached node that is not being deleted and has no pod CIDRs is queued for (re)processing — unless the API object
already has pod CIDRs or is gone, i.e. a notification that will queue it (or drop it) is still to be delivered -/
def NodePending (s : Sys) : Prop :=
  ∀ x v, getNode s.nodeView x = some v → v.deleting = false → v.hasCidrs = false →
    x ∈ s.nodeQ ∨ (∃ y, getNode s.api.nodes x = some y ∧ y.hasCidrs = true) ∨ getNode s.api.nodes x = none

theorem mem_qAdd_self (q : List String) (k : String) : k ∈ qAdd q k := by
  unfold qAdd
  split
  · rename_i h; simpa using h
  · simp

theorem mem_qAdd_of_mem {q : List String} {k x : String} (h : x ∈ q) : x ∈ qAdd q k := by
  unfold qAdd
  split
  · exact h
  · exact List.mem_append_left _ h

theorem mem_qDel_of_ne {q : List String} {k x : String} (h : x ∈ q) (hne : x ≠ k) : x ∈ qDel q k := by
  unfold qDel
  exact List.mem_filter.mpr ⟨h, by simpa using hne⟩

theorem mem_of_getNode {l : List NodeObj} {n : String} {o : NodeObj} (h : getNode l n = some o) : o ∈ l ∧ o.name = n := by
  unfold getNode at h
  refine ⟨List.mem_of_find?_eq_some h, ?_⟩
  have := List.find?_some h
  simpa using this

theorem mem_putNode {l : List NodeObj} {o x : NodeObj} (h : x ∈ putNode l o) : x = o ∨ (x ∈ l ∧ x.name ≠ o.name) := by
  unfold putNode at h
  split at h
  · obtain ⟨y, hy, rfl⟩ := List.mem_map.mp h
    by_cases hn : y.name == o.name
    · simp [hn]
    · simp only [hn]
      right
      simp only [Bool.false_eq_true, ↓reduceIte]
      exact ⟨hy, by simpa using hn⟩
  · rename_i hany
    rcases List.mem_append.mp h with h | h
    · right
      refine ⟨h, ?_⟩
      intro he
      apply hany
      rw [List.any_eq_true]
      exact ⟨x, h, by simp [he]⟩
    · left; simpa using h

theorem mem_delNode {l : List NodeObj} {n : String} {o : NodeObj} : o ∈ delNode l n ↔ o ∈ l ∧ o.name ≠ n := by
  unfold delNode
  rw [List.mem_filter]
  simp

theorem find_map_replace_ne (o : NodeObj) {n : String} (h : n ≠ o.name) : ∀ (l : List NodeObj),
    (l.map (fun x => if x.name == o.name then o else x)).find? (fun x => x.name == n) = l.find? (fun x => x.name == n) := by
  intro l
  induction l with
  | nil => rfl
  | cons a t ih =>
    simp only [List.map_cons, List.find?_cons]
    by_cases ha : (a.name == o.name) = true
    · have h1 : (o.name == n) = false := by simpa using (Ne.symm h)
      have h2 : (a.name == n) = false := by
        have : a.name = o.name := by simpa using ha
        rw [this]; exact h1
      rw [if_pos ha, h1, h2]
      exact ih
    · rw [if_neg ha]
      cases han : (a.name == n) with
      | true => rfl
      | false => exact ih

/-- looking up another name is not affected by replacing / removing / appending an object -/
theorem getNode_putNode_ne (l : List NodeObj) (o : NodeObj) {n : String} (h : n ≠ o.name) : getNode (putNode l o) n = getNode l n := by
  unfold getNode putNode
  split
  · exact find_map_replace_ne o h l
  · rw [List.find?_append]
    have : (o.name == n) = false := by simpa using (Ne.symm h)
    simp [this]

theorem getNode_delNode_ne (l : List NodeObj) {k n : String} (h : n ≠ k) : getNode (delNode l k) n = getNode l n := by
  unfold getNode delNode
  induction l with
  | nil => rfl
  | cons a t ih =>
    simp only [List.filter_cons]
    by_cases ha : a.name != k
    · simp only [ha, ↓reduceIte, List.find?_cons]
      by_cases han : a.name == n
      · simp [han]
      · simp [han, ih]
    · have hak : a.name = k := by simpa using ha
      have han : (a.name == n) = false := by rw [hak]; simpa using (Ne.symm h)
      simp [ha, List.find?_cons, han, ih]


theorem getNode_putNode_self (l : List NodeObj) (o : NodeObj) : getNode (putNode l o) o.name = some o := by
  unfold getNode putNode
  split
  · rename_i hany
    rw [List.any_eq_true] at hany
    obtain ⟨y, hy, hyn⟩ := hany
    induction l with
    | nil => cases hy
    | cons a t ih =>
      simp only [List.map_cons, List.find?_cons]
      by_cases ha : (a.name == o.name) = true
      · simp [ha]
      · rw [if_neg ha]
        have han : (a.name == o.name) = false := by simpa using ha
        rw [han]
        rcases List.mem_cons.mp hy with rfl | hy
        · exact absurd hyn ha
        · exact ih hy
  · rename_i hany
    rw [List.find?_append]
    have : l.find? (fun x => x.name == o.name) = none := by
      rw [List.find?_eq_none]
      intro x hx hxn
      apply hany
      rw [List.any_eq_true]
      exact ⟨x, hx, hxn⟩
    simp [this]

theorem getNode_delNode_self (l : List NodeObj) (n : String) : getNode (delNode l n) n = none := by
  unfold getNode
  rw [List.find?_eq_none]
  intro o ho
  have := (mem_delNode.mp ho).2
  simpa using this

/-- the frame of `Api.patchNode`: other names are untouched -/
theorem patchNode_other (a : Api) (name : String) (cidrs : List Cidr) {z : String} (hz : z ≠ name) :
    getNode (a.patchNode name cidrs).1.nodes z = getNode a.nodes z := by
  unfold Api.patchNode
  cases hg : getNode a.nodes name with
  | none => rfl
  | some y =>
    obtain ⟨_, hyn⟩ := mem_of_getNode hg
    simp only
    split
    · exact getNode_putNode_ne _ _ (by simpa [hyn] using hz)
    · split <;> rfl

/-- when the server accepts the PATCH the node has pod CIDRs afterwards -/
theorem patchNode_served (a : Api) (name : String) (cidrs : List Cidr) (hne : cidrs ≠ []) (h : (a.patchNode name cidrs).2 = true) :
    ∃ y, getNode (a.patchNode name cidrs).1.nodes name = some y ∧ y.hasCidrs = true := by
  unfold Api.patchNode at h ⊢
  cases hg : getNode a.nodes name with
  | none => rw [hg] at h; cases h
  | some y =>
    obtain ⟨_, hyn⟩ := mem_of_getNode hg
    rw [hg] at h
    simp only at h ⊢
    by_cases h1 : (!y.hasCidrs) = true
    · rw [if_pos h1]
      refine ⟨{ y with cidrs := cidrs }, ?_, ?_⟩
      · have := getNode_putNode_self a.nodes { y with cidrs := cidrs }
        simpa [hyn] using this
      · unfold NodeObj.hasCidrs
        cases cidrs with
        | nil => exact absurd rfl hne
        | cons _ _ => simp
    · rw [if_neg h1] at h ⊢
      split at h
      · rename_i h2
        rw [if_pos h2]
        exact ⟨y, hg, by simpa using h1⟩
      · cases h

theorem patchNode_served_stays (a : Api) (name : String) (cidrs : List Cidr)
    (h : ∃ y, getNode a.nodes name = some y ∧ y.hasCidrs = true) :
    ∃ y, getNode (a.patchNode name cidrs).1.nodes name = some y ∧ y.hasCidrs = true := by
  obtain ⟨y, hg, hy⟩ := h
  unfold Api.patchNode
  rw [hg]
  simp only [hy, Bool.not_true, Bool.false_eq_true, ↓reduceIte]
  split <;> exact ⟨y, hg, hy⟩

theorem patchLoop_other (name : String) (cidrs : List Cidr) {z : String} (hz : z ≠ name) :
    ∀ (k : Nat) (a : Api) (ws : List WOut) (acc : List (String × List Cidr × String)),
      getNode (patchLoop a name cidrs k ws acc).1.nodes z = getNode a.nodes z := by
  intro k
  induction k with
  | zero => intro a ws acc; rfl
  | succ k ih =>
    intro a ws acc
    unfold patchLoop
    cases ws.headD .ok with
    | fail => simp only [attemptPatch, Bool.false_eq_true, ↓reduceIte]; exact ih _ _ _
    | ok =>
      simp only [attemptPatch]
      split
      · exact patchNode_other a name cidrs hz
      · rw [ih]; exact patchNode_other a name cidrs hz
    | lost =>
      simp only [attemptPatch, Bool.false_eq_true, ↓reduceIte]
      rw [ih]; exact patchNode_other a name cidrs hz

theorem patchLoop_served (name : String) (cidrs : List Cidr) (hne : cidrs ≠ []) :
    ∀ (k : Nat) (a : Api) (ws : List WOut) (acc : List (String × List Cidr × String)),
      (patchLoop a name cidrs k ws acc).2.1 = true →
      ∃ y, getNode (patchLoop a name cidrs k ws acc).1.nodes name = some y ∧ y.hasCidrs = true := by
  intro k
  induction k with
  | zero => intro a ws acc h; cases h
  | succ k ih =>
    intro a ws acc h
    unfold patchLoop at h ⊢
    cases hw : ws.headD .ok with
    | fail =>
      rw [hw] at h
      simp only [attemptPatch, Bool.false_eq_true, ↓reduceIte] at h ⊢
      exact ih _ _ _ h
    | ok =>
      rw [hw] at h
      simp only [attemptPatch] at h ⊢
      by_cases hacc : (a.patchNode name cidrs).2 = true
      · simp only [hacc, ↓reduceIte]
        exact patchNode_served a name cidrs hne hacc
      · simp only [hacc, Bool.false_eq_true, ↓reduceIte] at h ⊢
        exact ih _ _ _ h
    | lost =>
      rw [hw] at h
      simp only [attemptPatch, Bool.false_eq_true, ↓reduceIte] at h ⊢
      exact ih _ _ _ h


/-- what a node item may do to the rest of the world, and what it has achieved when it does not end in an error -/
structure NodeEff (s s' : Sys) (name : String) (res : String) : Prop where
  view_other : ∀ z, z ≠ name → getNode s'.nodeView z = getNode s.nodeView z
  api_other : ∀ z, z ≠ name → getNode s'.api.nodes z = getNode s.api.nodes z
  queue : ∀ x ∈ s.nodeQ, x ∈ s'.nodeQ
  served : res ≠ "err" → ∀ v, getNode s'.nodeView name = some v → v.deleting = false → v.hasCidrs = false →
    ∃ y, getNode s'.api.nodes name = some y ∧ y.hasCidrs = true
  ccs : s'.ccView = s.ccView ∧ s'.api.ccs = s.api.ccs ∧ s'.ccQ = s.ccQ

theorem hasCidrs_of_ne {n : NodeObj} {cidrs : List Cidr} (hne : cidrs ≠ []) (h : n.cidrs = cidrs) : n.hasCidrs = true := by
  unfold NodeObj.hasCidrs
  rw [h]
  cases cidrs with
  | nil => exact absurd rfl hne
  | cons _ _ => simp

theorem patchNode_ccs (a : Api) (name : String) (cidrs : List Cidr) : (a.patchNode name cidrs).1.ccs = a.ccs := by
  unfold Api.patchNode
  split
  · rfl
  · split
    · rfl
    · split <;> rfl

theorem patchLoop_ccs (name : String) (cidrs : List Cidr) : ∀ (k : Nat) (a : Api) (ws : List WOut) (acc : List (String × List Cidr × String)),
    (patchLoop a name cidrs k ws acc).1.ccs = a.ccs := by
  intro k
  induction k with
  | zero => intro a ws acc; rfl
  | succ k ih =>
    intro a ws acc
    unfold patchLoop
    cases ws.headD .ok with
    | fail => simp only [attemptPatch, Bool.false_eq_true, ↓reduceIte]; exact ih _ _ _
    | ok =>
      simp only [attemptPatch]
      split
      · exact patchNode_ccs a name cidrs
      · rw [ih]; exact patchNode_ccs a name cidrs
    | lost =>
      simp only [attemptPatch, Bool.false_eq_true, ↓reduceIte]
      rw [ih]; exact patchNode_ccs a name cidrs

theorem update_eff (s : Sys) (name : String) (cidrs : List Cidr) (i : Nat) (ws : List WOut) (hne : cidrs ≠ []) :
    NodeEff s (updateCIDRsAllocation s name cidrs i ws).1 name (updateCIDRsAllocation s name cidrs i ws).2.res := by
  unfold updateCIDRsAllocation
  cases hv : getNode s.nodeView name with
  | none =>
    simp only
    exact ⟨fun _ _ => rfl, fun _ _ => rfl, fun _ hx => hx, fun h => absurd rfl h, rfl, rfl, rfl⟩
  | some n2 =>
    simp only
    split
    · rename_i hc
      simp only [Bool.and_eq_true, Bool.not_eq_true', decide_eq_true_eq] at hc
      refine ⟨fun _ _ => rfl, fun _ _ => rfl, fun _ hx => hx, ?_, rfl, rfl, rfl⟩
      intro _ v hv' _ hnc
      rw [hv] at hv'; cases hv'
      rw [hasCidrs_of_ne hne hc.2] at hnc; cases hnc
    · split
      · rename_i hh
        have hserved : ∀ v, getNode s.nodeView name = some v → v.hasCidrs = true := by
          intro v hv'; rw [hv] at hv'; cases hv'; exact hh
        cases hr : s.alloc.releaseAll i cidrs with
        | mk al okk =>
          cases okk <;> exact ⟨fun _ _ => rfl, fun _ _ => rfl, fun _ hx => hx,
            fun _ v hv' _ hnc => (by rw [hserved v hv'] at hnc; cases hnc), rfl, rfl, rfl⟩
      · split
        · rename_i hokk
          refine ⟨fun _ _ => rfl, fun z hz => patchLoop_other name cidrs hz 3 s.api ws [], fun _ hx => hx, ?_, rfl, patchLoop_ccs _ _ _ _ _ _, rfl⟩
          intro _ v _ _ _
          exact patchLoop_served name cidrs hne 3 s.api ws [] hokk
        · exact ⟨fun _ _ => rfl, fun z hz => patchLoop_other name cidrs hz 3 s.api ws [], fun _ hx => hx, fun h => absurd rfl h, rfl,
            patchLoop_ccs _ _ _ _ _ _, rfl⟩


theorem NodeEff.of_frame {s s2 s3 : Sys} {name res : String}
    (hv : ∀ z, z ≠ name → getNode s2.nodeView z = getNode s.nodeView z) (ha : s2.api = s.api)
    (hq : ∀ x ∈ s.nodeQ, x ∈ s2.nodeQ) (hcc : s2.ccView = s.ccView ∧ s2.ccQ = s.ccQ)
    (h : NodeEff s2 s3 name res) : NodeEff s s3 name res := by
  refine ⟨fun z hz => (h.view_other z hz).trans (hv z hz), fun z hz => by rw [h.api_other z hz, ha],
    fun x hx => h.queue x (hq x hx), h.served, ?_⟩
  obtain ⟨h1, h2, h3⟩ := h.ccs
  exact ⟨h1.trans hcc.1, by rw [h2, ha], h3.trans hcc.2⟩

/-- an item whose observable effect is confined to the allocator state -/
theorem NodeEff.alloc_only (s : Sys) (al : Alloc) (name res : String)
    (hs : res ≠ "err" → ∀ v, getNode s.nodeView name = some v → v.deleting = false → v.hasCidrs = true) :
    NodeEff s { s with alloc := al } name res :=
  ⟨fun _ _ => rfl, fun _ _ => rfl, fun _ hx => hx,
    fun hr v hv hd hnc => (by rw [hs hr v hv hd] at hnc; cases hnc), rfl, rfl, rfl⟩

theorem allocate_eff (s : Sys) (n : NodeObj) (refresh : Bool) (ws : List WOut) (hn : getNode s.nodeView n.name = some n) :
    NodeEff s (allocateOrOccupy s n refresh ws).1 n.name (allocateOrOccupy s n refresh ws).2.res := by
  unfold allocateOrOccupy
  split
  · rename_i hc
    cases hr : occupyCIDRs s.alloc n with
    | mk al okk =>
      cases okk <;> simp only <;> apply NodeEff.alloc_only <;> (intro _ v hv _; rw [hn] at hv; cases hv; exact hc)
  · cases hp : s.alloc.prioritized (s.alloc.ordered n.labels true) with
    | mk al r =>
      cases r with
      | none => exact NodeEff.alloc_only s al n.name "err" (fun h => absurd rfl h)
      | some ci =>
        obtain ⟨cidrs, i⟩ := ci
        simp only
        split
        · exact NodeEff.alloc_only s al n.name "err" (fun h => absurd rfl h)
        · rename_i hemp
          have hne : cidrs ≠ [] := by intro h0; rw [h0] at hemp; simp at hemp
          split
          · cases hg : getNode s.api.nodes n.name with
            | some cur =>
              obtain ⟨_, hcn⟩ := mem_of_getNode hg
              simp only
              apply NodeEff.of_frame (s := s) (s2 := { s with alloc := al, nodeView := putNode s.nodeView cur, nodeQ := qAdd s.nodeQ n.name })
                _ rfl (fun x hx => mem_qAdd_of_mem hx) ⟨rfl, rfl⟩ (update_eff _ n.name cidrs i ws hne)
              intro z hz
              exact getNode_putNode_ne _ _ (by rw [hcn]; exact hz)
            | none =>
              simp only
              have h1 := update_eff { s with alloc := al, nodeView := delNode s.nodeView n.name, nodeQ := qAdd s.nodeQ n.name } n.name cidrs i ws hne
              have hf : NodeEff s (updateCIDRsAllocation { s with alloc := al, nodeView := delNode s.nodeView n.name, nodeQ := qAdd s.nodeQ n.name } n.name cidrs i ws).1
                  n.name (updateCIDRsAllocation { s with alloc := al, nodeView := delNode s.nodeView n.name, nodeQ := qAdd s.nodeQ n.name } n.name cidrs i ws).2.res :=
                NodeEff.of_frame (s := s) (s2 := { s with alloc := al, nodeView := delNode s.nodeView n.name, nodeQ := qAdd s.nodeQ n.name }) (fun z hz => getNode_delNode_ne _ hz) rfl (fun x hx => mem_qAdd_of_mem hx) ⟨rfl, rfl⟩ h1
              exact ⟨hf.view_other, hf.api_other, hf.queue, hf.served, hf.ccs⟩
          · exact NodeEff.of_frame (s := s) (s2 := { s with alloc := al }) (fun _ _ => rfl) rfl (fun _ hx => hx) ⟨rfl, rfl⟩
              (update_eff _ n.name cidrs i ws hne)


theorem core_eff (s : Sys) (name : String) (refresh : Bool) (ws : List WOut) :
    NodeEff s (procNodeCore s name refresh ws).1 name (procNodeCore s name refresh ws).2.res := by
  unfold procNodeCore
  cases hv : getNode s.nodeView name with
  | none =>
    exact ⟨fun _ _ => rfl, fun _ _ => rfl, fun _ hx => hx, fun _ v hv' _ _ => (by rw [hv] at hv'; cases hv'), rfl, rfl, rfl⟩
  | some n =>
    obtain ⟨_, hnn⟩ := mem_of_getNode hv
    simp only
    split
    · rename_i hd
      cases hr : releaseCIDR s.alloc n with
      | mk al okk =>
        cases okk <;> simp only <;> apply NodeEff.alloc_only <;>
          (intro _ v hv' hvd; rw [hv] at hv'; cases hv'; rw [hd] at hvd; cases hvd)
    · have := allocate_eff s n refresh ws (hnn ▸ hv)
      rw [hnn] at this
      exact this

/-- **a node work item keeps every unserved node pending** -/
theorem nodePending_procNode {s : Sys} (h : NodePending s) (name : String) (refresh : Bool) (ws : List WOut) :
    NodePending (procNode s name refresh ws).1 := by
  have eff := core_eff { s with nodeQ := qDel s.nodeQ name } name refresh ws
  unfold procNode
  simp only
  intro x v hxv hd hnc
  by_cases hx : x = name
  · subst hx
    split
    · exact Or.inl (mem_qAdd_self _ _)
    · rename_i hres
      split at hxv
      · exact absurd (by assumption) hres
      · right; left
        exact eff.served (by simpa using hres) v hxv hd hnc
  · -- another node: nothing about it changed, and its key is still queued
    have hview : getNode (procNodeCore { s with nodeQ := qDel s.nodeQ name } name refresh ws).1.nodeView x = some v := by
      split at hxv <;> exact hxv
    rw [eff.view_other x hx] at hview
    have hapi := eff.api_other x hx
    rcases h x v hview hd hnc with hq | hy | hn
    · left
      have hq' := eff.queue x (mem_qDel_of_ne hq hx)
      split
      · exact mem_qAdd_of_mem hq'
      · exact hq'
    · right; left
      split <;> (rw [hapi]; exact hy)
    · right; right
      split <;> (rw [hapi]; exact hn)

/-! ### ClusterCIDR items -/

/-- a cached ClusterCIDR that needs the controller's finalizer added, or is being deleted and still carries it, is
queued — unless the API object differs from the cached one (a notification is still to be delivered) -/
def CCPending (s : Sys) : Prop :=
  ∀ x o, getCC s.ccView x = some o → getCC s.api.ccs x = some o →
    ((o.deleting = true ∧ hasFin o = true) ∨ needFin o = true) → x ∈ s.ccQ

theorem mem_of_getCC {l : List CCObj} {n : String} {o : CCObj} (h : getCC l n = some o) : o ∈ l ∧ o.name = n := by
  unfold getCC at h
  refine ⟨List.mem_of_find?_eq_some h, ?_⟩
  have := List.find?_some h
  simpa using this

theorem find_mapCC_replace_ne (o : CCObj) {n : String} (h : n ≠ o.name) : ∀ (l : List CCObj),
    (l.map (fun x => if x.name == o.name then o else x)).find? (fun x => x.name == n) = l.find? (fun x => x.name == n) := by
  intro l
  induction l with
  | nil => rfl
  | cons a t ih =>
    simp only [List.map_cons, List.find?_cons]
    by_cases ha : (a.name == o.name) = true
    · have h1 : (o.name == n) = false := by simpa using (Ne.symm h)
      have h2 : (a.name == n) = false := by
        have : a.name = o.name := by simpa using ha
        rw [this]; exact h1
      rw [if_pos ha, h1, h2]
      exact ih
    · rw [if_neg ha]
      cases han : (a.name == n) with
      | true => rfl
      | false => exact ih

theorem getCC_putCC_ne (l : List CCObj) (o : CCObj) {n : String} (h : n ≠ o.name) : getCC (putCC l o) n = getCC l n := by
  unfold getCC putCC
  split
  · exact find_mapCC_replace_ne o h l
  · rw [List.find?_append]
    have : (o.name == n) = false := by simpa using (Ne.symm h)
    simp [this]

theorem getCC_delCC_ne (l : List CCObj) {k n : String} (h : n ≠ k) : getCC (delCC l k) n = getCC l n := by
  unfold getCC delCC
  induction l with
  | nil => rfl
  | cons a t ih =>
    simp only [List.filter_cons]
    by_cases ha : a.name != k
    · simp only [ha, ↓reduceIte, List.find?_cons]
      by_cases han : a.name == n
      · simp [han]
      · simp [han, ih]
    · have hak : a.name = k := by simpa using ha
      have han : (a.name == n) = false := by rw [hak]; simpa using (Ne.symm h)
      simp [ha, List.find?_cons, han, ih]

theorem getCC_delCC_self (l : List CCObj) (n : String) : getCC (delCC l n) n = none := by
  unfold getCC delCC
  rw [List.find?_eq_none]
  intro o ho
  have := (List.mem_filter.mp ho).2
  simpa using this

theorem getCC_putCC_self (l : List CCObj) (o : CCObj) : getCC (putCC l o) o.name = some o := by
  unfold getCC putCC
  split
  · rename_i hany
    rw [List.any_eq_true] at hany
    obtain ⟨y, hy, hyn⟩ := hany
    induction l with
    | nil => cases hy
    | cons a t ih =>
      simp only [List.map_cons, List.find?_cons]
      by_cases ha : (a.name == o.name) = true
      · simp [ha]
      · rw [if_neg ha]
        have han : (a.name == o.name) = false := by simpa using ha
        rw [han]
        rcases List.mem_cons.mp hy with rfl | hy
        · exact absurd hyn ha
        · exact ih hy
  · rename_i hany
    rw [List.find?_append]
    have : l.find? (fun x => x.name == o.name) = none := by
      rw [List.find?_eq_none]
      intro x hx hxn
      apply hany
      rw [List.any_eq_true]
      exact ⟨x, hx, hxn⟩
    simp [this]


structure CCEff (s s' : Sys) (name : String) : Prop where
  view : s'.ccView = s.ccView
  api_other : ∀ z, z ≠ name → getCC s'.api.ccs z = getCC s.api.ccs z
  queue : s'.ccQ = s.ccQ
  rv : ∀ o', getCC s'.api.ccs name = some o' → ∃ o, getCC s.api.ccs name = some o ∧ o.rv ≤ o'.rv
  nodes : s'.nodeView = s.nodeView ∧ s'.api.nodes = s.api.nodes ∧ s'.nodeQ = s.nodeQ

theorem CCEff.refl (s : Sys) (name : String) : CCEff s s name :=
  ⟨rfl, fun _ _ => rfl, rfl, fun o' h => ⟨o', h, Nat.le_refl _⟩, rfl, rfl, rfl⟩

/-- an accepted Update bumps the resource version (or removes the object) -/
theorem updateCC_spec (a : Api) (name : String) (rv : Nat) (fins : List String) :
    (∀ z, z ≠ name → getCC (a.updateCC name rv fins).1.ccs z = getCC a.ccs z) ∧
    (a.updateCC name rv fins).1.nodes = a.nodes ∧
    (∀ o', getCC (a.updateCC name rv fins).1.ccs name = some o' → ∃ o, getCC a.ccs name = some o ∧ o.rv ≤ o'.rv) ∧
    ((a.updateCC name rv fins).2 = true → ∀ o', getCC (a.updateCC name rv fins).1.ccs name = some o' → rv < o'.rv) := by
  cases hg : getCC a.ccs name with
  | none =>
    have : a.updateCC name rv fins = (a, false) := by unfold Api.updateCC; rw [hg]
    rw [this]
    refine ⟨fun _ _ => rfl, rfl, ?_, ?_⟩
    · intro o' h; rw [hg] at h; cases h
    · intro h; cases h
  | some o =>
    obtain ⟨_, hon⟩ := mem_of_getCC hg
    subst hon
    by_cases hrv : o.rv ≠ rv
    · have : a.updateCC o.name rv fins = (a, false) := by unfold Api.updateCC; rw [hg]; simp only; rw [if_pos hrv]
      rw [this]
      refine ⟨fun _ _ => rfl, rfl, ?_, ?_⟩
      · intro o' h; simp only at h; rw [hg] at h; cases h; exact ⟨o, rfl, Nat.le_refl _⟩
      · intro h; cases h
    · have hrv' : o.rv = rv := by simpa using hrv
      by_cases hdel : (o.deleting && fins.isEmpty) = true
      · have : a.updateCC o.name rv fins = ({ a with ccs := delCC a.ccs o.name }, true) := by
          unfold Api.updateCC; rw [hg]; simp only; rw [if_neg hrv, if_pos hdel]
        rw [this]
        refine ⟨fun z hz => getCC_delCC_ne _ hz, rfl, ?_, ?_⟩
        · intro o' h; simp only at h; rw [getCC_delCC_self] at h; cases h
        · intro _ o' h; simp only at h; rw [getCC_delCC_self] at h; cases h
      · have : a.updateCC o.name rv fins = ({ a with ccs := putCC a.ccs { o with finalizers := fins, rv := o.rv + 1 } }, true) := by
          unfold Api.updateCC; rw [hg]; simp only; rw [if_neg hrv, if_neg hdel]
        rw [this]
        have hself := getCC_putCC_self a.ccs { o with finalizers := fins, rv := o.rv + 1 }
        refine ⟨fun z hz => getCC_putCC_ne _ _ hz, rfl, ?_, ?_⟩
        · intro o' h; simp only at h hself; rw [hself] at h; cases h
          exact ⟨o, rfl, by simp⟩
        · intro _ o' h; simp only at h hself; rw [hself] at h; cases h
          simp only; omega

theorem attemptUpdate_spec (a : Api) (name : String) (rv : Nat) (fins : List String) (w : WOut) :
    (∀ z, z ≠ name → getCC (attemptUpdate a name rv fins w).1.ccs z = getCC a.ccs z) ∧
    (attemptUpdate a name rv fins w).1.nodes = a.nodes ∧
    (∀ o', getCC (attemptUpdate a name rv fins w).1.ccs name = some o' → ∃ o, getCC a.ccs name = some o ∧ o.rv ≤ o'.rv) ∧
    ((attemptUpdate a name rv fins w).2.1 = true → ∀ o', getCC (attemptUpdate a name rv fins w).1.ccs name = some o' → rv < o'.rv) := by
  obtain ⟨h1, h2, h3, h4⟩ := updateCC_spec a name rv fins
  unfold attemptUpdate
  cases w with
  | fail =>
    refine ⟨fun _ _ => rfl, rfl, ?_, ?_⟩
    · intro o' h; exact ⟨o', h, Nat.le_refl _⟩
    · intro h; cases h
  | ok => exact ⟨h1, h2, h3, h4⟩
  | lost =>
    refine ⟨h1, h2, h3, ?_⟩
    intro h; cases h

/-- the write of a ClusterCIDR item, seen from the item: frame, and the object is newer than `rv` when accepted -/
theorem write_eff (s : Sys) (al : Alloc) (name : String) (rv : Nat) (fins : List String) (w : WOut) :
    CCEff s { s with alloc := al, api := (attemptUpdate s.api name rv fins w).1 } name :=
  let h := attemptUpdate_spec s.api name rv fins w
  ⟨rfl, h.1, rfl, h.2.2.1, rfl, h.2.1, rfl⟩

/-- one ClusterCIDR item: the frame; and if it does not end in an error, the cached object — if it is what the API
has afterwards — needs no further work -/
theorem ccCore_eff (s : Sys) (name : String) (w : WOut) :
    CCEff s (procCCCore s name w).1 name ∧
    ((procCCCore s name w).2.res ≠ "err" → ∀ o, getCC s.ccView name = some o →
        getCC (procCCCore s name w).1.api.ccs name = some o → ¬ ((o.deleting = true ∧ hasFin o = true) ∨ needFin o = true)) := by
  unfold procCCCore
  cases hv : getCC s.ccView name with
  | none => exact ⟨CCEff.refl s name, fun _ o h => by cases h⟩
  | some obj =>
    obtain ⟨_, hobn⟩ := mem_of_getCC hv
    subst hobn
    simp only
    -- an accepted write leaves the API object newer than the cached one
    have newer : ∀ (al : Alloc) (fins : List String),
        (attemptUpdate s.api obj.name obj.rv fins w).2.1 = true →
        getCC (attemptUpdate s.api obj.name obj.rv fins w).1.ccs obj.name = some obj → False := by
      intro al fins hokk hapi
      have := (attemptUpdate_spec s.api obj.name obj.rv fins w).2.2.2 hokk obj hapi
      omega
    split
    · rename_i hdel
      unfold reconcileDelete
      split
      · cases hd : s.alloc.deleteCC obj.name obj.spec with
        | mk al r =>
          cases r <;> simp only
          · refine ⟨write_eff s al obj.name obj.rv _ w, ?_⟩
            intro hres o ho hapi
            cases ho
            exfalso
            cases hb : (attemptUpdate s.api obj.name obj.rv (obj.finalizers.filter (· != finalizerName)) w).2.1 with
            | true => exact newer al _ hb hapi
            | false => simp [hb] at hres
          · refine ⟨write_eff s al obj.name obj.rv _ w, ?_⟩
            intro hres o ho hapi
            cases ho
            exfalso
            cases hb : (attemptUpdate s.api obj.name obj.rv (obj.finalizers.filter (· != finalizerName)) w).2.1 with
            | true => exact newer al _ hb hapi
            | false => simp [hb] at hres
          · exact ⟨⟨rfl, fun _ _ => rfl, rfl, fun o' h => ⟨o', h, Nat.le_refl _⟩, rfl, rfl, rfl⟩, fun h => absurd rfl h⟩
          · exact ⟨⟨rfl, fun _ _ => rfl, rfl, fun o' h => ⟨o', h, Nat.le_refl _⟩, rfl, rfl, rfl⟩, fun h => absurd rfl h⟩
      · rename_i hfin
        refine ⟨CCEff.refl s obj.name, ?_⟩
        intro _ o ho _
        cases ho
        rintro (⟨_, h2⟩ | h2)
        · exact hfin h2
        · unfold needFin at h2
          simp [hdel] at h2
    · rename_i hdel
      split
      · unfold createClusterCIDR
        cases hc : s.alloc.createCC obj.name obj.spec false with
        | none => exact ⟨CCEff.refl s obj.name, fun h => absurd rfl h⟩
        | some al =>
          simp only
          refine ⟨write_eff s al obj.name obj.rv _ w, ?_⟩
          intro hres o ho hapi
          cases ho
          exfalso
          cases hb : (attemptUpdate s.api obj.name obj.rv (if needFin obj then obj.finalizers ++ [finalizerName] else obj.finalizers) w).2.1 with
          | true => exact newer al _ hb hapi
          | false => simp [hb] at hres
      · rename_i hneed
        refine ⟨CCEff.refl s obj.name, ?_⟩
        intro _ o ho _
        cases ho
        rintro (⟨h1, _⟩ | h2)
        · exact hdel h1
        · exact hneed h2


/-! ### the invariants and every event -/

def RvMono (s : Sys) : Prop :=
  ∀ x ov oa, getCC s.ccView x = some ov → getCC s.api.ccs x = some oa → ov.rv ≤ oa.rv

structure Pend (s : Sys) : Prop where
  node : NodePending s
  cc : CCPending s
  rv : RvMono s

theorem mem_insertName {s x : String} {l : List String} : x ∈ insertName s l ↔ x = s ∨ x ∈ l := by
  induction l with
  | nil => simp [insertName]
  | cons h t ih =>
    unfold insertName
    split
    · simp
    · simp only [List.mem_cons, ih]
      constructor
      · rintro (h1 | h1 | h1)
        · exact Or.inr (Or.inl h1)
        · exact Or.inl h1
        · exact Or.inr (Or.inr h1)
      · rintro (h1 | h1 | h1)
        · exact Or.inr (Or.inl h1)
        · exact Or.inl h1
        · exact Or.inr (Or.inr h1)

theorem mem_sortNames {x : String} {l : List String} : x ∈ sortNames l ↔ x ∈ l := by
  unfold sortNames
  induction l with
  | nil => simp
  | cons h t ih => simp only [List.foldr_cons, mem_insertName, ih, List.mem_cons]

theorem getNode_append_ne (l : List NodeObj) (n : NodeObj) {x : String} (h : x ≠ n.name) : getNode (l ++ [n]) x = getNode l x := by
  unfold getNode
  rw [List.find?_append]
  have : (n.name == x) = false := by simpa using (Ne.symm h)
  simp [this]

theorem getCC_append_ne (l : List CCObj) (n : CCObj) {x : String} (h : x ≠ n.name) : getCC (l ++ [n]) x = getCC l x := by
  unfold getCC
  rw [List.find?_append]
  have : (n.name == x) = false := by simpa using (Ne.symm h)
  simp [this]

/-- a change of the API object `name` that keeps "has pod CIDRs" and existence, with the cache untouched -/
theorem nodePending_api_put {s : Sys} (h : NodePending s) (y y' : NodeObj) (hy : getNode s.api.nodes y.name = some y)
    (hn : y'.name = y.name) (hc : y.hasCidrs = true → y'.hasCidrs = true) :
    NodePending { s with api := { s.api with nodes := putNode s.api.nodes y' } } := by
  intro x v hv hd hnc
  by_cases hx : x = y.name
  · subst hx
    rcases h _ v hv hd hnc with hq | ⟨z, hz, hzc⟩ | hnone
    · exact Or.inl hq
    · right; left
      rw [hy] at hz; cases hz
      refine ⟨y', ?_, hc hzc⟩
      have := getNode_putNode_self s.api.nodes y'
      rw [hn] at this; exact this
    · rw [hy] at hnone; cases hnone
  · have : getNode (putNode s.api.nodes y') x = getNode s.api.nodes x := getNode_putNode_ne _ _ (by rw [hn]; exact hx)
    rcases h x v hv hd hnc with hq | hz | hnone
    · exact Or.inl hq
    · exact Or.inr (Or.inl (by simp only; rw [this]; exact hz))
    · exact Or.inr (Or.inr (by simp only; rw [this]; exact hnone))

/-- a change of the API object `o.name` that bumps its resource version -/
theorem cc_api_put {s : Sys} (h : Pend s) (o o' : CCObj) (ho : getCC s.api.ccs o.name = some o) (hn : o'.name = o.name)
    (hrv : o.rv < o'.rv) : CCPending { s with api := { s.api with ccs := putCC s.api.ccs o' } } ∧
      RvMono { s with api := { s.api with ccs := putCC s.api.ccs o' } } := by
  have hself : getCC (putCC s.api.ccs o') o.name = some o' := by
    have := getCC_putCC_self s.api.ccs o'
    rw [hn] at this; exact this
  constructor
  · intro x ov hv hapi hwork
    by_cases hx : x = o.name
    · subst hx
      simp only at hapi
      rw [hself] at hapi; cases hapi
      have := h.rv _ _ o hv ho
      omega
    · simp only at hapi
      rw [getCC_putCC_ne _ _ (by rw [hn]; exact hx)] at hapi
      exact h.cc x ov hv hapi hwork
  · intro x ov oa hv hapi
    by_cases hx : x = o.name
    · subst hx
      simp only at hapi
      rw [hself] at hapi; cases hapi
      have := h.rv _ _ o hv ho
      omega
    · simp only at hapi
      rw [getCC_putCC_ne _ _ (by rw [hn]; exact hx)] at hapi
      exact h.rv x ov oa hv hapi


/-- the only restriction: an object is not re-created under a name the cache still holds (the informer would report
an update then, not the deletion — findings P21, P15) -/
def Frag2 (s : Sys) : Ev → Prop
  | .nodeAdd n => getNode s.nodeView n.name = none
  | .ccAdd name _ => getCC s.ccView name = none
  | _ => True

theorem pend_procNode {s : Sys} (h : Pend s) (name : String) (refresh : Bool) (ws : List WOut) :
    Pend (procNode s name refresh ws).1 := by
  have eff := core_eff { s with nodeQ := qDel s.nodeQ name } name refresh ws
  have hcc : (procNode s name refresh ws).1.ccView = s.ccView ∧ (procNode s name refresh ws).1.api.ccs = s.api.ccs ∧
      (procNode s name refresh ws).1.ccQ = s.ccQ := by
    unfold procNode
    simp only
    split <;> exact eff.ccs
  refine ⟨nodePending_procNode h.node name refresh ws, ?_, ?_⟩
  · intro x o hv hapi hw
    rw [hcc.1] at hv; rw [hcc.2.1] at hapi; rw [hcc.2.2]
    exact h.cc x o hv hapi hw
  · intro x ov oa hv hapi
    rw [hcc.1] at hv; rw [hcc.2.1] at hapi
    exact h.rv x ov oa hv hapi

theorem pend_procCC {s : Sys} (h : Pend s) (name : String) (w : WOut) : Pend (procCC s name w).1 := by
  obtain ⟨eff, done⟩ := ccCore_eff { s with ccQ := qDel s.ccQ name } name w
  unfold procCC
  simp only
  have key : ∀ (s' : Sys), s'.ccView = s.ccView → (∀ z, z ≠ name → getCC s'.api.ccs z = getCC s.api.ccs z) →
      (∀ o', getCC s'.api.ccs name = some o' → ∃ o, getCC s.api.ccs name = some o ∧ o.rv ≤ o'.rv) →
      s'.nodeView = s.nodeView → s'.api.nodes = s.api.nodes → s'.nodeQ = s.nodeQ →
      (∀ x, x ≠ name → x ∈ s.ccQ → x ∈ s'.ccQ) →
      (name ∈ s'.ccQ ∨ ∀ o, getCC s.ccView name = some o → getCC s'.api.ccs name = some o →
        ¬ ((o.deleting = true ∧ hasFin o = true) ∨ needFin o = true)) → Pend s' := by
    intro s' hview hother hrv hnv hnodes hnq hq hself
    refine ⟨?_, ?_, ?_⟩
    · intro x v hv hd hnc
      rw [hnv] at hv; rw [hnodes, hnq]
      exact h.node x v hv hd hnc
    · intro x o hv hapi hw
      rw [hview] at hv
      by_cases hx : x = name
      · subst hx
        rcases hself with hin | hdone
        · exact hin
        · exact absurd hw (hdone o hv hapi)
      · rw [hother x hx] at hapi
        exact hq x hx (h.cc x o hv hapi hw)
    · intro x ov oa hv hapi
      rw [hview] at hv
      by_cases hx : x = name
      · subst hx
        obtain ⟨o, ho, hle⟩ := hrv oa hapi
        have := h.rv _ ov o hv ho
        omega
      · rw [hother x hx] at hapi
        exact h.rv x ov oa hv hapi
  split
  · refine key _ ?_ ?_ ?_ ?_ ?_ ?_ ?_ ?_
    · exact eff.view
    · exact eff.api_other
    · exact eff.rv
    · exact eff.nodes.1
    · exact eff.nodes.2.1
    · exact eff.nodes.2.2
    · intro x hxn hx
      apply mem_qAdd_of_mem
      rw [eff.queue]
      exact mem_qDel_of_ne hx hxn
    · exact Or.inl (mem_qAdd_self _ _)
  · rename_i hres
    refine key _ eff.view eff.api_other eff.rv eff.nodes.1 eff.nodes.2.1 eff.nodes.2.2 ?_ ?_
    · intro x hxn hx
      rw [eff.queue]
      exact mem_qDel_of_ne hx hxn
    · right
      exact done (by simpa using hres)

theorem pend_boot (s : Sys) (svcs : List Cidr) (ws : List WOut) : Pend (boot s svcs ws).1 := by
  unfold boot
  simp only
  refine ⟨?_, ?_, ?_⟩
  · intro x v hv _ _
    left
    obtain ⟨hvm, hvn⟩ := mem_of_getNode hv
    exact mem_sortNames.mpr (List.mem_map.mpr ⟨v, hvm, hvn⟩)
  · intro x o hv _ _
    obtain ⟨hom, hon⟩ := mem_of_getCC hv
    exact mem_sortNames.mpr (List.mem_map.mpr ⟨o, hom, hon⟩)
  · intro x ov oa hv hapi
    simp only at hv hapi
    rw [hv] at hapi; cases hapi
    exact Nat.le_refl _

/-- **nothing is forgotten**: every event keeps the unserved nodes and the unfinished ClusterCIDRs pending -/
theorem pend_step {s : Sys} (h : Pend s) (e : Ev) (hf : Frag2 s e) : Pend (step s e).1 := by
  cases e with
  | boot svcs ws => exact pend_boot s svcs ws
  | procNode name refresh ws =>
    show Pend (if s.nodeQ.contains name then procNode s name refresh ws else (s, {})).1
    split
    · exact pend_procNode h name refresh ws
    · exact h
  | procCC name w =>
    show Pend (if s.ccQ.contains name then procCC s name w else (s, {})).1
    split
    · exact pend_procCC h name w
    · exact h
  | nodeAdd n =>
    cases ha : getNode s.api.nodes n.name with
    | some y =>
      have : (step s (.nodeAdd n)).1 = s := by simp [step, ha]
      rw [this]; exact h
    | none =>
      have hstep : (step s (.nodeAdd n)).1 =
          { s with api := { s.api with nodes := s.api.nodes ++ [n], graves := delNode s.api.graves n.name } } := by
        simp [step, ha]
      rw [hstep]
      refine ⟨?_, h.cc, h.rv⟩
      intro x v hv hd hnc
      by_cases hx : x = n.name
      · subst hx
        have hv0 : getNode s.nodeView n.name = none := hf
        rw [hv0] at hv; cases hv
      · have : getNode (s.api.nodes ++ [n]) x = getNode s.api.nodes x := getNode_append_ne _ _ hx
        rcases h.node x v hv hd hnc with hq | hz | hnone
        · exact Or.inl hq
        · exact Or.inr (Or.inl (by simp only; rw [this]; exact hz))
        · exact Or.inr (Or.inr (by simp only; rw [this]; exact hnone))
  | nodeDel name =>
    cases hg : getNode s.api.nodes name with
    | none =>
      have : (step s (.nodeDel name)).1 = s := by simp [step, hg]
      rw [this]; exact h
    | some y =>
      have hstep : (step s (.nodeDel name)).1 =
          { s with api := { s.api with nodes := delNode s.api.nodes name, graves := putNode s.api.graves y } } := by
        simp [step, hg]
      rw [hstep]
      refine ⟨?_, h.cc, h.rv⟩
      intro x v hv hd hnc
      by_cases hx : x = name
      · subst hx
        exact Or.inr (Or.inr (getNode_delNode_self _ _))
      · have : getNode (delNode s.api.nodes name) x = getNode s.api.nodes x := getNode_delNode_ne _ hx
        rcases h.node x v hv hd hnc with hq | hz | hnone
        · exact Or.inl hq
        · exact Or.inr (Or.inl (by simp only; rw [this]; exact hz))
        · exact Or.inr (Or.inr (by simp only; rw [this]; exact hnone))
  | nodeLabels name ls =>
    cases hg : getNode s.api.nodes name with
    | none =>
      have : (step s (.nodeLabels name ls)).1 = s := by simp [step, hg]
      rw [this]; exact h
    | some y =>
      obtain ⟨_, hyn⟩ := mem_of_getNode hg
      have hstep : (step s (.nodeLabels name ls)).1 =
          { s with api := { s.api with nodes := putNode s.api.nodes { y with labels := ls } } } := by
        simp [step, hg]
      rw [hstep]
      exact ⟨nodePending_api_put h.node y { y with labels := ls } (hyn ▸ hg) rfl (fun hc => hc), h.cc, h.rv⟩
  | nodeDeleting name =>
    cases hg : getNode s.api.nodes name with
    | none =>
      have : (step s (.nodeDeleting name)).1 = s := by simp [step, hg]
      rw [this]; exact h
    | some y =>
      obtain ⟨_, hyn⟩ := mem_of_getNode hg
      have hstep : (step s (.nodeDeleting name)).1 =
          { s with api := { s.api with nodes := putNode s.api.nodes { y with deleting := true } } } := by
        simp [step, hg]
      rw [hstep]
      exact ⟨nodePending_api_put h.node y { y with deleting := true } (hyn ▸ hg) rfl (fun hc => hc), h.cc, h.rv⟩
  | nodeSetCIDRs name cidrs =>
    have hstep : (step s (.nodeSetCIDRs name cidrs)).1 = { s with api := (s.api.patchNode name cidrs).1 } := by simp [step]
    rw [hstep]
    refine ⟨?_, ?_, ?_⟩
    · intro x v hv hd hnc
      by_cases hx : x = name
      · subst hx
        rcases h.node _ v hv hd hnc with hq | hz | hnone
        · exact Or.inl hq
        · exact Or.inr (Or.inl (patchNode_served_stays s.api _ cidrs hz))
        · right; right
          simp only
          unfold Api.patchNode
          rw [hnone]
          exact hnone
      · have := patchNode_other s.api name cidrs hx
        rcases h.node x v hv hd hnc with hq | hz | hnone
        · exact Or.inl hq
        · exact Or.inr (Or.inl (by simp only; rw [this]; exact hz))
        · exact Or.inr (Or.inr (by simp only; rw [this]; exact hnone))
    · intro x o hv hapi hw
      simp only at hapi
      rw [patchNode_ccs] at hapi
      exact h.cc x o hv hapi hw
    · intro x ov oa hv hapi
      simp only at hapi
      rw [patchNode_ccs] at hapi
      exact h.rv x ov oa hv hapi
  | deliverNode name tomb =>
    cases hg : getNode s.api.nodes name with
    | some cur =>
      obtain ⟨_, hcn⟩ := mem_of_getNode hg
      have hstep : (step s (.deliverNode name tomb)).1 =
          { s with nodeView := putNode s.nodeView cur, nodeQ := qAdd s.nodeQ name } := by simp [step, hg]
      rw [hstep]
      refine ⟨?_, h.cc, h.rv⟩
      intro x v hv hd hnc
      by_cases hx : x = name
      · subst hx; exact Or.inl (mem_qAdd_self _ _)
      · simp only at hv
        rw [getNode_putNode_ne _ _ (by rw [hcn]; exact hx)] at hv
        rcases h.node x v hv hd hnc with hq | hz | hnone
        · exact Or.inl (mem_qAdd_of_mem hq)
        · exact Or.inr (Or.inl hz)
        · exact Or.inr (Or.inr hnone)
    | none =>
      cases hv0 : getNode s.nodeView name with
      | none =>
        have : (step s (.deliverNode name tomb)).1 = s := by simp [step, hg, hv0]
        rw [this]; exact h
      | some stale =>
        have hstep : (step s (.deliverNode name tomb)).1 =
            { s with alloc := (releaseCIDR s.alloc (if tomb then stale else (getNode s.api.graves name).getD stale)).1,
                     nodeView := delNode s.nodeView name, nodeQ := qAdd s.nodeQ name } := by
          simp [step, hg, hv0]
        rw [hstep]
        refine ⟨?_, h.cc, h.rv⟩
        intro x v hv hd hnc
        by_cases hx : x = name
        · subst hx
          simp only at hv
          rw [getNode_delNode_self] at hv; cases hv
        · simp only at hv
          rw [getNode_delNode_ne _ hx] at hv
          rcases h.node x v hv hd hnc with hq | hz | hnone
          · exact Or.inl (mem_qAdd_of_mem hq)
          · exact Or.inr (Or.inl hz)
          · exact Or.inr (Or.inr hnone)
  | ccAdd name spec =>
    cases hg : getCC s.api.ccs name with
    | some o =>
      have : (step s (.ccAdd name spec)).1 = s := by simp [step, hg]
      rw [this]; exact h
    | none =>
      have hstep : (step s (.ccAdd name spec)).1 = { s with api := { s.api with ccs := s.api.ccs ++ [⟨name, spec, [], false, 1, freshRv s⟩] } } := by
        simp [step, hg]
      rw [hstep]
      have hv0 : getCC s.ccView name = none := hf
      refine ⟨h.node, ?_, ?_⟩
      · intro x o hv hapi hw
        by_cases hx : x = name
        · subst hx; rw [hv0] at hv; cases hv
        · simp only at hapi
          rw [getCC_append_ne _ _ (by simpa using hx)] at hapi
          exact h.cc x o hv hapi hw
      · intro x ov oa hv hapi
        by_cases hx : x = name
        · subst hx; rw [hv0] at hv; cases hv
        · simp only at hapi
          rw [getCC_append_ne _ _ (by simpa using hx)] at hapi
          exact h.rv x ov oa hv hapi
  | ccDel name =>
    cases hg : getCC s.api.ccs name with
    | none =>
      have : (step s (.ccDel name)).1 = s := by simp [step, hg]
      rw [this]; exact h
    | some o =>
      obtain ⟨_, hon⟩ := mem_of_getCC hg
      by_cases hfin : o.finalizers.isEmpty = true
      · have hstep : (step s (.ccDel name)).1 = { s with api := { s.api with ccs := delCC s.api.ccs name } } := by
          simp [step, hg, hfin]
        rw [hstep]
        refine ⟨h.node, ?_, ?_⟩
        · intro x ov hv hapi hw
          by_cases hx : x = name
          · subst hx; simp only at hapi; rw [getCC_delCC_self] at hapi; cases hapi
          · simp only at hapi; rw [getCC_delCC_ne _ hx] at hapi; exact h.cc x ov hv hapi hw
        · intro x ov oa hv hapi
          by_cases hx : x = name
          · subst hx; simp only at hapi; rw [getCC_delCC_self] at hapi; cases hapi
          · simp only at hapi; rw [getCC_delCC_ne _ hx] at hapi; exact h.rv x ov oa hv hapi
      · have hstep : (step s (.ccDel name)).1 = { s with api := { s.api with ccs := putCC s.api.ccs { o with deleting := true, rv := o.rv + 1 } } } := by
          simp [step, hg, hfin]
        rw [hstep]
        obtain ⟨h1, h2⟩ := cc_api_put h o { o with deleting := true, rv := o.rv + 1 } (hon ▸ hg) rfl (by simp)
        exact ⟨h.node, h1, h2⟩
  | ccGen name g =>
    cases hg : getCC s.api.ccs name with
    | none =>
      have : (step s (.ccGen name g)).1 = s := by simp [step, hg]
      rw [this]; exact h
    | some o =>
      obtain ⟨_, hon⟩ := mem_of_getCC hg
      have hstep : (step s (.ccGen name g)).1 = { s with api := { s.api with ccs := putCC s.api.ccs { o with generation := g, rv := o.rv + 1 } } } := by
        simp [step, hg]
      rw [hstep]
      obtain ⟨h1, h2⟩ := cc_api_put h o { o with generation := g, rv := o.rv + 1 } (hon ▸ hg) rfl (by simp)
      exact ⟨h.node, h1, h2⟩
  | ccAddFin name fin =>
    cases hg : getCC s.api.ccs name with
    | none =>
      have : (step s (.ccAddFin name fin)).1 = s := by simp [step, hg]
      rw [this]; exact h
    | some o =>
      obtain ⟨_, hon⟩ := mem_of_getCC hg
      by_cases hfin : fin ∈ o.finalizers
      · have : (step s (.ccAddFin name fin)).1 = s := by simp [step, hg, hfin]
        rw [this]; exact h
      · have hstep : (step s (.ccAddFin name fin)).1 = { s with api := { s.api with ccs := putCC s.api.ccs { o with finalizers := o.finalizers ++ [fin], rv := o.rv + 1 } } } := by
          simp [step, hg, hfin]
        rw [hstep]
        obtain ⟨h1, h2⟩ := cc_api_put h o { o with finalizers := o.finalizers ++ [fin], rv := o.rv + 1 } (hon ▸ hg) rfl (by simp)
        exact ⟨h.node, h1, h2⟩
  | deliverCC name =>
    cases hg : getCC s.api.ccs name with
    | some cur =>
      obtain ⟨_, hcn⟩ := mem_of_getCC hg
      have hstep : (step s (.deliverCC name)).1 = { s with ccView := putCC s.ccView cur, ccQ := qAdd s.ccQ name } := by
        simp [step, hg]
      rw [hstep]
      refine ⟨h.node, ?_, ?_⟩
      · intro x o hv hapi hw
        by_cases hx : x = name
        · subst hx; exact mem_qAdd_self _ _
        · simp only at hv
          rw [getCC_putCC_ne _ _ (by rw [hcn]; exact hx)] at hv
          exact mem_qAdd_of_mem (h.cc x o hv hapi hw)
      · intro x ov oa hv hapi
        by_cases hx : x = name
        · subst hx
          simp only at hv
          have := getCC_putCC_self s.ccView cur
          rw [hcn] at this
          rw [this] at hv; cases hv
          simp only at hapi
          rw [hg] at hapi; cases hapi
          exact Nat.le_refl _
        · simp only at hv
          rw [getCC_putCC_ne _ _ (by rw [hcn]; exact hx)] at hv
          exact h.rv x ov oa hv hapi
    | none =>
      by_cases hv0 : (getCC s.ccView name).isSome = true
      · have hstep : (step s (.deliverCC name)).1 = { s with ccView := delCC s.ccView name, ccQ := qAdd s.ccQ name } := by
          simp [step, hg, hv0]
        rw [hstep]
        refine ⟨h.node, ?_, ?_⟩
        · intro x o hv hapi hw
          by_cases hx : x = name
          · subst hx; simp only at hv; rw [getCC_delCC_self] at hv; cases hv
          · simp only at hv; rw [getCC_delCC_ne _ hx] at hv
            exact mem_qAdd_of_mem (h.cc x o hv hapi hw)
        · intro x ov oa hv hapi
          by_cases hx : x = name
          · subst hx; simp only at hv; rw [getCC_delCC_self] at hv; cases hv
          · simp only at hv; rw [getCC_delCC_ne _ hx] at hv
            exact h.rv x ov oa hv hapi
      · have : (step s (.deliverCC name)).1 = s := by simp [step, hg, hv0]
        rw [this]; exact h


def Frag2All : Sys → List Ev → Prop
  | _, [] => True
  | s, e :: rest => Frag2 s e ∧ Frag2All (step s e).1 rest

theorem pend_run : ∀ (evs : List Ev) (s : Sys), Pend s → Frag2All s evs → Pend (run s evs) := by
  intro evs
  induction evs with
  | nil => intro s h _; exact h
  | cons e rest ih =>
    intro s h hf
    have : run s (e :: rest) = run (step s e).1 rest := by simp [run]
    rw [this]
    exact ih _ (pend_step h e hf.1) hf.2

theorem pend_init : Pend Sys.init := by
  refine ⟨?_, ?_, ?_⟩
  · intro x v hv; simp [Sys.init, getNode] at hv
  · intro x o hv; simp [Sys.init, getCC] at hv
  · intro x ov oa hv; simp [Sys.init, getCC] at hv

/-- at a quiescent point — the node queue is empty and the cache shows what the API has — every node that is not
being deleted has pod CIDRs: no unserved node was dropped on the way -/
theorem quiescent_nodes_served {s : Sys} (h : Pend s) (hq : s.nodeQ = [])
    (hcur : ∀ x, getNode s.nodeView x = getNode s.api.nodes x) :
    ∀ x y, getNode s.api.nodes x = some y → y.deleting = false → y.hasCidrs = true := by
  intro x y hy hd
  cases hc : y.hasCidrs with
  | true => rfl
  | false =>
    exfalso
    rcases h.node x y (by rw [hcur]; exact hy) hd hc with hq' | ⟨z, hz, hzc⟩ | hnone
    · rw [hq] at hq'; cases hq'
    · rw [hy] at hz; cases hz; rw [hc] at hzc; cases hzc
    · rw [hy] at hnone; cases hnone

/-- … and every ClusterCIDR has been dealt with: one being deleted no longer carries the controller's finalizer (it is
released and, if that was its last finalizer, gone), every other one carries it -/
theorem quiescent_ccs_done {s : Sys} (h : Pend s) (hq : s.ccQ = [])
    (hcur : ∀ x, getCC s.ccView x = getCC s.api.ccs x) :
    ∀ x o, getCC s.api.ccs x = some o → (o.deleting = true → hasFin o = false) ∧ (o.deleting = false → hasFin o = true) := by
  intro x o ho
  have hno : ¬ ((o.deleting = true ∧ hasFin o = true) ∨ needFin o = true) := by
    intro hw
    have := h.cc x o (by rw [hcur]; exact ho) ho hw
    rw [hq] at this; cases this
  constructor
  · intro hd
    cases hf : hasFin o with
    | false => rfl
    | true => exact absurd (Or.inl ⟨hd, hf⟩) hno
  · intro hd
    cases hf : hasFin o with
    | true => rfl
    | false =>
      exfalso
      apply hno
      right
      unfold needFin
      simp [hd, hf]

end Ipam.Pending
