/-!
`pkg/apis/clustercidr/v1/validation/validation.go` (`ValidateClusterCIDRSpec`,
`validateClusterCIDRUpdateSpec` and the selector validators), transcribed.
Library functions are parameters (oracles): the CIDR parser
(`ParseCIDRSloppy` + family test + mask size), `ValidateLabelName`,
`NameIsDNSSubdomain`.  Core Lean only.
-/
namespace Ipam.Validation

/-- what parsing a range string yields -/
inductive Parsed where
  | malformed
  | v4 (len : Nat)
  | v6 (len : Nat)
deriving DecidableEq, Repr

structure Req where
  key : String
  op : String
  vals : List String
deriving DecidableEq, Repr

structure Term where
  exprs : List Req
  fields : List Req
deriving DecidableEq, Repr

structure Spec where
  sel : Option (List Term)
  hostBits : Int
  ipv4 : String
  ipv6 : String
deriving DecidableEq, Repr

/-- the library oracles -/
structure Lib where
  parse : String → Parsed
  labelNameOK : String → Bool
  nodeNameOK : String → Bool

inductive Err where
  | termsRequired | valuesRequired | valuesForbidden | valuesSingle | badOperator | badKey
  | fieldValuesOne | fieldBadOperator | fieldBadKey | fieldBadValue
  | cidrRequired | invalidCIDR4 | invalidCIDR6 | notV4 | notV6 | hostBitsTooSmall | hostBitsTooBig
deriving DecidableEq, Repr

/-- `ValidateNodeSelectorRequirement` -/
def validateReq (L : Lib) (r : Req) : List Err :=
  (if r.op = "In" ∨ r.op = "NotIn" then (if r.vals.length = 0 then [.valuesRequired] else [])
   else if r.op = "Exists" ∨ r.op = "DoesNotExist" then (if r.vals.length > 0 then [.valuesForbidden] else [])
   else if r.op = "Gt" ∨ r.op = "Lt" then (if r.vals.length ≠ 1 then [.valuesSingle] else [])
   else [.badOperator])
  ++ (if L.labelNameOK r.key then [] else [.badKey])

/-- `validateNodeFieldSelectorRequirement` -/
def validateFieldReq (L : Lib) (r : Req) : List Err :=
  (if r.op = "In" ∨ r.op = "NotIn" then (if r.vals.length ≠ 1 then [.fieldValuesOne] else [])
   else [.fieldBadOperator])
  ++ (if r.key = "metadata.name" then (r.vals.filter (fun v => !L.nodeNameOK v)).map (fun _ => .fieldBadValue)
      else [.fieldBadKey])

/-- `validateNodeSelectorTerm` -/
def validateTerm (L : Lib) (t : Term) : List Err :=
  (t.exprs.map (validateReq L)).flatten ++ (t.fields.map (validateFieldReq L)).flatten

/-- `validateNodeSelector` -/
def validateSelector (L : Lib) (ts : List Term) : List Err :=
  if ts.length = 0 then [.termsRequired] else (ts.map (validateTerm L)).flatten

/-- `validateCIDRConfig` for the ipv4 field (`maxMaskSize = 32`) -/
def validateCIDR4 (L : Lib) (s : String) (hb : Int) : List Err :=
  match L.parse s with
  | .malformed => [.invalidCIDR4]
  | .v4 len => (if hb < 4 then [.hostBitsTooSmall] else []) ++ (if hb > 32 - (len : Int) then [.hostBitsTooBig] else [])
  | .v6 len => [.notV4] ++ (if hb < 4 then [.hostBitsTooSmall] else []) ++ (if hb > 32 - (len : Int) then [.hostBitsTooBig] else [])

/-- `validateCIDRConfig` for the ipv6 field (`maxMaskSize = 128`) -/
def validateCIDR6 (L : Lib) (s : String) (hb : Int) : List Err :=
  match L.parse s with
  | .malformed => [.invalidCIDR6]
  | .v6 len => (if hb < 4 then [.hostBitsTooSmall] else []) ++ (if hb > 128 - (len : Int) then [.hostBitsTooBig] else [])
  | .v4 len => [.notV6] ++ (if hb < 4 then [.hostBitsTooSmall] else []) ++ (if hb > 128 - (len : Int) then [.hostBitsTooBig] else [])

/-- `ValidateClusterCIDRSpec` -/
def validateSpec (L : Lib) (s : Spec) : List Err :=
  let e0 := match s.sel with
    | none => []
    | some ts => validateSelector L ts
  if s.ipv4 = "" ∧ s.ipv6 = "" then e0 ++ [.cidrRequired]
  else
    e0 ++ (if s.ipv4 ≠ "" then validateCIDR4 L s.ipv4 s.hostBits else [])
       ++ (if s.ipv6 ≠ "" then validateCIDR6 L s.ipv6 s.hostBits else [])

inductive UErr where
  | selector | hostBits | ipv4 | ipv6
deriving DecidableEq, Repr

/-- `validateClusterCIDRUpdateSpec`: four `ValidateImmutableField` calls -/
def validateUpdate (upd old : Spec) : List UErr :=
  (if upd.sel = old.sel then [] else [.selector]) ++
  (if upd.hostBits = old.hostBits then [] else [.hostBits]) ++
  (if upd.ipv4 = old.ipv4 then [] else [.ipv4]) ++
  (if upd.ipv6 = old.ipv6 then [] else [.ipv6])

end Ipam.Validation
