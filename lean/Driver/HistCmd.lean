import IpamVerif.System
import IpamVerif.Restart
import Driver.Util
/-! `hist` protocol: whole-controller histories. -/
namespace Drv
open Ipam

def un (s : String) : String := if s == "_" then "" else s

def parseLabels (s : String) : Labels :=
  if s == "-" then [] else
  (s.splitOn ",").filterMap (fun kv => match kv.splitOn "=" with
    | [k, v] => some (un k, v)
    | [k] => some (un k, "")
    | _ => none)

def parseCidrs (s : String) : Option (List Cidr) :=
  if s == "-" then some [] else (s.splitOn ",").mapM (fun t => parseCidr ((t.splitOn "~").headD t))

def parseWOut (s : String) : Option WOut :=
  if s == "ok" then some .ok else if s == "fail" then some .fail else if s == "lost" then some .lost else none

def parseWs (s : String) : Option (List WOut) :=
  if s == "-" then some [] else (s.splitOn ",").mapM parseWOut

def parseField (s : String) : Option RangeField :=
  if s == "_" then some .empty
  else if s == "M" || s.startsWith "M@" then some .malformed
  else match ((s.splitOn "~").headD s).splitOn "@" with   -- "tok@label~spelling": the spelling is the API object's business
    | [t, l] => (parseCidr t).map (fun c => .ok c l)
    | _ => none

def parseRawReq (s : String) : Option RawReq :=
  match s.splitOn "," with
  | k :: op :: ko :: vo :: vals => some ⟨un k, op, vals.map un, ko == "1", vo == "1"⟩
  | _ => none

def parseRawReqs (s : String) : Option (List RawReq) :=
  if s == "_" then some [] else (s.splitOn ";").mapM parseRawReq

def parseRawTerm (s : String) : Option RawTerm :=
  match s.splitOn "~" with
  | [e, f] => do
    let es ← parseRawReqs e
    let fs ← parseRawReqs f
    pure ⟨es, fs⟩
  | _ => none

def parseRawSel (s : String) : Option (Option (List RawTerm)) :=
  if s == "-" then some none
  else if s == "[]" then some (some [])
  else ((s.splitOn "|").mapM parseRawTerm).map some

def parseEv (line : String) : Option Ev :=
  match line.splitOn " " with
  | ["boot", s1, s2, ws] => do
    let a ← if s1 == "-" then some [] else (parseCidr s1).map (fun c => [c])
    let b ← if s2 == "-" then some [] else (parseCidr s2).map (fun c => [c])
    let w ← parseWs ws
    pure (.boot (a ++ b) w)
  | ["nodeAdd", n, ls, cs] =>
    if cs.startsWith "?" then some (.nodeAdd ⟨n, parseLabels ls, [], false, true⟩)
    else do
      let c ← parseCidrs cs
      pure (.nodeAdd ⟨n, parseLabels ls, c, false, false⟩)
  | ["nodeDel", n] => some (.nodeDel n)
  | ["nodeLabels", n, ls] => some (.nodeLabels n (parseLabels ls))
  | ["nodeDeleting", n] => some (.nodeDeleting n)
  | ["ccAdd", n, hb, f4, f6, sel] => do
    let h ← hb.toInt?
    let a ← parseField f4
    let b ← parseField f6
    let s ← parseRawSel sel
    pure (.ccAdd n ⟨s, h, a, b⟩)
  | ["ccDel", n] => some (.ccDel n)
  | ["ccGen", n, g] => g.toNat?.map (fun k => .ccGen n k)
  | ["ccAddFin", n, f] => some (.ccAddFin n f)
  | ["nodeSetCIDRs", n, cs] => (parseCidrs cs).map (fun c => .nodeSetCIDRs n c)
  | ["deliverNode", n, t] => some (.deliverNode n (t == "1"))
  | ["deliverCC", n] => some (.deliverCC n)
  | ["procNode", n, r, ws] => (parseWs ws).map (fun w => .procNode n (r == "1") w)
  | ["procCC", n, w] => if w == "-" then some (.procCC n .ok) else (parseWOut w).map (fun x => .procCC n x)
  | _ => none

def joinWith (sep : String) (l : List String) : String := sep.intercalate l

def cidrsStr (l : List Cidr) : String := joinWith "+" (l.map cidrStr)

def poolSnap : Option Pool → String
  | none => "-"
  | some p => s!"{p.label}@{p.count}@{p.cursor}@{natList (sortNat p.used)}"

def ccSnap (c : CC) : String :=
  s!"{c.key}|{c.name}|{if c.term then 1 else 0}|{joinWith "," (sortNames c.assoc)}|{poolSnap c.v4}|{poolSnap c.v6}"

/-- entries grouped by key (keys ascending), bucket order kept -/
def snapStr (a : Alloc) : String :=
  let keys := sortNames (a.ccs.map (·.key)).eraseDups
  joinWith ";;" (keys.flatMap (fun k => (a.ccs.filter (·.key == k)).map ccSnap))

def labelsStr (ls : Labels) : String :=
  joinWith "," ((sortNames (ls.map (·.1))).map (fun k => k ++ "=" ++ (Labels.get ls k).getD ""))

def nodeStr (n : NodeObj) : String :=
  s!"{n.name}\{{labelsStr n.labels}}[{if n.junk then "?" else cidrsStr n.cidrs}]{if n.deleting then "D" else ""}"

def ccObjStr (o : CCObj) : String :=
  s!"{o.name}:{joinWith "+" o.finalizers}:{if o.deleting then 1 else 0}:{o.generation}:{o.rv}"

def nodesStr (l : List NodeObj) : String := joinWith ";" ((sortNodeObjs l).map nodeStr)
def ccObjsStr (l : List CCObj) : String := joinWith ";" ((sortCCObjs l).map ccObjStr)

def obsStr (o : Obs) (s : Sys) : String :=
  let ps := joinWith ";" (o.patches.map (fun (n, cs, l) => s!"{n}:{cidrsStr cs}:{l}"))
  let cw := joinWith ";" (o.ccWrites.map (fun (n, fs, l) => s!"{n}:{joinWith "+" fs}:{l}"))
  s!"ev res={o.res} patches=[{ps}] ccw=[{cw}] events=[{joinWith "," o.events}] mut=[] nq=[{joinWith "," (sortNames s.nodeQ)}] cq=[{joinWith "," (sortNames s.ccQ)}]" ++
  s!" ## snap {snapStr s.alloc}" ++
  s!" ## api nodes=[{nodesStr s.api.nodes}] ccs=[{ccObjsStr s.api.ccs}]" ++
  s!" ## view nodes=[{nodesStr s.nodeView}] ccs=[{ccObjsStr s.ccView}]"

def histStep (s : Sys) (line : String) : Sys × String :=
  if line.startsWith "hist " then (Sys.init, "hist")
  else if line.startsWith "mark " then (s, line)
  else match parseEv line with
    | none => (s, "bad-op")
    | some e =>
      let (s', o) := step s e
      (s', obsStr o s')

/-- membership in the fragment of the restart theorem (`Restart.Frag3`), decided by the executable test
`Restart.frag3B` (proved sound): one line per operation, `in` while every event of the history so far is inside -/
def fragStep (st : Sys × Bool) (line : String) : (Sys × Bool) × String :=
  if line.startsWith "hist " then ((Sys.init, true), "hist")
  else if line.startsWith "mark " then (st, line)
  else match parseEv line with
    | none => ((st.1, false), "out")
    | some e =>
      let inside := st.2 && Ipam.Restart.frag3B st.1 e
      (((step st.1 e).1, inside), if inside then "in" else "out")

/-- membership in the fragment of `Safety.lean`: the history starts with one start-up (inside `Restart.Frag3`, from the
empty state, which satisfies `Restart.Inv3`) and continues with events of `Safety.Frag` (`Restart.fragB`, proved sound) -/
def frag1Step (st : Sys × Bool × Bool) (line : String) : (Sys × Bool × Bool) × String :=
  if line.startsWith "hist " then ((Sys.init, true, true), "hist")
  else if line.startsWith "mark " then (st, line)
  else match parseEv line with
    | none => ((st.1, false, false), "out")
    | some e =>
      let first := st.2.2
      let inside := st.2.1 && (if first then Ipam.Restart.frag3B st.1 e else Ipam.Restart.fragB st.1 e)
      -- environment events before the first start-up stay "first"
      let isBoot := match e with | .boot _ _ => true | _ => false
      (((step st.1 e).1, inside, first && !isBoot), if inside then "in" else "out")

end Drv
