import Driver.PoolCmd
import Driver.ValidCmd
import Driver.HistCmd
open Drv

partial def poolLoop (h : IO.FS.Stream) (out : IO.FS.Stream) (cur : Option Ipam.Pool) : IO Unit := do
  let line ← h.getLine
  if line.isEmpty then return ()
  let l := line.trimAscii.toString
  if l.isEmpty || l.startsWith "#" then
    poolLoop h out cur
  else
    let (cur', o) := poolStep cur l
    out.putStrLn o
    poolLoop h out cur'

partial def lineLoop (h : IO.FS.Stream) (out : IO.FS.Stream) (f : String → String) : IO Unit := do
  let line ← h.getLine
  if line.isEmpty then return ()
  let l := line.trimAscii.toString
  if l.isEmpty || l.startsWith "#" then
    lineLoop h out f
  else
    out.putStrLn (f l)
    lineLoop h out f

partial def histLoop (h : IO.FS.Stream) (out : IO.FS.Stream) (s : Ipam.Sys) : IO Unit := do
  let line ← h.getLine
  if line.isEmpty then return ()
  let l := line.trimAscii.toString
  if l.isEmpty || l.startsWith "#" then
    histLoop h out s
  else
    let (s', o) := histStep s l
    out.putStrLn o
    histLoop h out s'

partial def fragLoop (h : IO.FS.Stream) (out : IO.FS.Stream) (st : Ipam.Sys × Bool) : IO Unit := do
  let line ← h.getLine
  if line.isEmpty then return ()
  let l := line.trimAscii.toString
  if l.isEmpty || l.startsWith "#" then
    fragLoop h out st
  else
    let (st', o) := fragStep st l
    out.putStrLn o
    fragLoop h out st'

partial def frag1Loop (h : IO.FS.Stream) (out : IO.FS.Stream) (st : Ipam.Sys × Bool × Bool) : IO Unit := do
  let line ← h.getLine
  if line.isEmpty then return ()
  let l := line.trimAscii.toString
  if l.isEmpty || l.startsWith "#" then
    frag1Loop h out st
  else
    let (st', o) := frag1Step st l
    out.putStrLn o
    frag1Loop h out st'

def main (args : List String) : IO UInt32 := do
  let stdin ← IO.getStdin
  let stdout ← IO.getStdout
  match args with
  | ["pool"] => poolLoop stdin stdout none; return 0
  | ["hist"] => histLoop stdin stdout Ipam.Sys.init; return 0
  | ["valid"] => lineLoop stdin stdout validStep; return 0
  | ["frag3"] => fragLoop stdin stdout (Ipam.Sys.init, true); return 0
  | ["frag1"] => frag1Loop stdin stdout (Ipam.Sys.init, true, true); return 0
  | _ => IO.eprintln "usage: driver pool|..."; return 2
