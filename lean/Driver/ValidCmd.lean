import IpamVerif.Validation
import Driver.Util
/-! `valid` protocol: ClusterCIDR spec validation. -/
namespace Drv
open Ipam.Validation

def unesc (s : String) : String := if s == "_" then "" else s

def parseParsed (s : String) : Parsed :=
  match s.splitOn "/" with
  | ["4", l] => match l.toNat? with | some n => .v4 n | none => .malformed
  | ["6", l] => match l.toNat? with | some n => .v6 n | none => .malformed
  | _ => .malformed

def parseReq (s : String) : Option Req :=
  match s.splitOn "," with
  | k :: op :: vals => some ⟨unesc k, op, vals.map unesc⟩
  | _ => none

def parseReqs (s : String) : Option (List Req) :=
  if s == "_" then some [] else (s.splitOn ";").mapM parseReq

def parseTerm (s : String) : Option Term :=
  match s.splitOn "~" with
  | [e, f] => do
    let es ← parseReqs e
    let fs ← parseReqs f
    pure ⟨es, fs⟩
  | _ => none

def parseSel (s : String) : Option (Option (List Term)) :=
  if s == "-" then some none
  else if s == "[]" then some (some [])
  else (s.splitOn "|").mapM parseTerm |>.map some

def parseSpec (v4 v6 hb sel : String) : Option Spec := do
  let h ← hb.toInt?
  let sl ← parseSel sel
  pure ⟨sl, h, unesc v4, unesc v6⟩

def errName : Err → String
  | .termsRequired => "termsRequired" | .valuesRequired => "valuesRequired" | .valuesForbidden => "valuesForbidden"
  | .valuesSingle => "valuesSingle" | .badOperator => "badOperator" | .badKey => "badKey"
  | .fieldValuesOne => "fieldValuesOne" | .fieldBadOperator => "fieldBadOperator" | .fieldBadKey => "fieldBadKey"
  | .fieldBadValue => "fieldBadValue" | .cidrRequired => "cidrRequired" | .invalidCIDR4 => "invalidCIDR4"
  | .invalidCIDR6 => "invalidCIDR6" | .notV4 => "notV4" | .notV6 => "notV6"
  | .hostBitsTooSmall => "hostBitsTooSmall" | .hostBitsTooBig => "hostBitsTooBig"

def uerrName : UErr → String
  | .selector => "selector" | .hostBits => "hostBits" | .ipv4 => "ipv4" | .ipv6 => "ipv6"

def validStep (line : String) : String :=
  match line.splitOn " " with
  | ["vspec", v4, v6, hb, sel, p4, p6, okk, okn] =>
    match parseSpec v4 v6 hb sel with
    | some s =>
      let keys := if okk == "_" then [] else (okk.splitOn ",").map unesc
      let names := if okn == "_" then [] else (okn.splitOn ",").map unesc
      let L : Lib := ⟨fun x => if x == s.ipv4 then parseParsed p4 else if x == s.ipv6 then parseParsed p6 else .malformed,
                      fun k => keys.contains k, fun n => names.contains n⟩
      -- when both fields hold the same string the two parse results coincide by construction of the harness
      "verr " ++ ",".intercalate ((validateSpec L s).map errName)
    | none => "bad-op"
  | ["vupd", a4, a6, ahb, asel, b4, b6, bhb, bsel] =>
    match parseSpec a4 a6 ahb asel, parseSpec b4 b6 bhb bsel with
    | some a, some b => "uerr " ++ ",".intercalate ((validateUpdate a b).map uerrName)
    | _, _ => "bad-op"
  | _ => "bad-op"

end Drv
