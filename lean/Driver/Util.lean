import IpamVerif.Addr
/-! Parsing / printing helpers of the line protocol (core only). -/
namespace Drv
open Ipam

def hexDigit (c : Char) : Option Nat :=
  if '0' ≤ c ∧ c ≤ '9' then some (c.toNat - '0'.toNat)
  else if 'a' ≤ c ∧ c ≤ 'f' then some (c.toNat - 'a'.toNat + 10)
  else none

def parseHex (s : String) : Option Nat :=
  if s.isEmpty then none else
  s.foldl (fun acc c => match acc, hexDigit c with
    | some a, some d => some (a * 16 + d)
    | _, _ => none) (some 0)

def hexChar (d : Nat) : Char :=
  if d < 10 then Char.ofNat ('0'.toNat + d) else Char.ofNat ('a'.toNat + d - 10)

partial def toHexAux (n : Nat) (acc : List Char) : List Char :=
  if n < 16 then hexChar n :: acc else toHexAux (n / 16) (hexChar (n % 16) :: acc)

def toHex (n : Nat) : String := String.ofList (toHexAux n [])

def parseFam (s : String) : Option Fam :=
  if s == "4" then some .v4 else if s == "6" then some .v6 else none

def famStr : Fam → String
  | .v4 => "4"
  | .v6 => "6"

/-- token `4:0a000100/28` -/
def cidrStr (c : Cidr) : String := s!"{famStr c.fam}:{toHex c.addr}/{c.len}"

def parseCidr (s : String) : Option Cidr :=
  match s.splitOn ":" with
  | [f, rest] =>
    match rest.splitOn "/" with
    | [a, l] =>
      match parseFam f, parseHex a, l.toNat? with
      | some fam, some addr, some len => some ⟨fam, addr, len⟩
      | _, _, _ => none
    | _ => none
  | _ => none

def parseInt (s : String) : Option Int := s.toInt?

def natList (l : List Nat) : String := ",".intercalate (l.map toString)

/-- insertion sort on Nat lists (for canonical output) -/
def sortNat (l : List Nat) : List Nat := l.foldl (fun acc x =>
  let (a, b) := acc.span (· ≤ x); a ++ x :: b) []

end Drv
