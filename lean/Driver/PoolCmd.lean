import IpamVerif.Pool
import Driver.Util
/-! `pool` protocol: one pool at a time, operations on it. -/
namespace Drv
open Ipam

def poolState (p : Pool) : String :=
  s!"st count={p.count} cursor={p.cursor} used=[{natList (sortNat p.used)}] allocs={p.allocs} releases={p.releases} max={p.maxGauge} usage={p.usage}"

/-- returns the new pool (if any) and the output line -/
def poolStep (cur : Option Pool) (line : String) : Option Pool × String :=
  match line.splitOn " " with
  | ["geo", cs, hb] =>
    match parseCidr cs, parseInt hb with
    | some r, some h =>
      match newGeo r h with
      | some g => (some (Pool.new g cs), s!"geo ok max={g.max} n={g.n}")
      | none => (none, "geo rej")
    | _, _ => (cur, "bad-op")
  | ["block", i] =>
    match cur, i.toNat? with
    | some p, some k => (cur, s!"blk {cidrStr (goBlock p.geo k)}")
    | _, _ => (cur, "bad-op")
  | ["index", f, a] =>
    match cur, parseFam f, parseHex a with
    | some p, some fam, some x =>
      if fam ≠ p.geo.fam then (cur, "idx err") else
      match goIndexOf p.geo x with
      | some k => (cur, s!"idx {k}")
      | none => (cur, "idx err")
    | _, _, _ => (cur, "bad-op")
  | ["be", cs] =>
    match cur, parseCidr cs with
    | some p, some c =>
      match goBeginEnd p.geo c with
      | some (b, e) => (cur, s!"be {b} {e}")
      | none => (cur, "be err")
    | _, _ => (cur, "bad-op")
  | ["occ", cs] =>
    match cur, parseCidr cs with
    | some p, some c =>
      match p.occupy c with
      | some p' => (some p', "occ ok " ++ poolState p')
      | none => (cur, "occ err " ++ poolState p)
    | _, _ => (cur, "bad-op")
  | ["rel", cs] =>
    match cur, parseCidr cs with
    | some p, some c =>
      match p.release c with
      | some p' => (some p', "rel ok " ++ poolState p')
      | none => (cur, "rel err " ++ poolState p)
    | _, _ => (cur, "bad-op")
  | ["next"] =>
    match cur with
    | some p =>
      match p.next with
      | some (c, k, p') => (some p', s!"next {cidrStr (goBlock p.geo c)} {k} " ++ poolState p')
      | none => (cur, "next err " ++ poolState p)
    | none => (cur, "bad-op")
  | _ => (cur, "bad-op")

end Drv
