"""Shared machinery of bin/check: build steps, the Lean audit, stream runs, diffing, evidence."""
import fcntl, hashlib, json, os, re, subprocess, sys, time

VERIF = os.path.dirname(os.path.dirname(os.path.abspath(__file__)))
LEAN = os.path.join(VERIF, "lean")
HARNESS = os.path.join(VERIF, "harness")
WORK = os.path.join(VERIF, "work")
# the registered commands always check /repo; VERIF_REPO lets the seeded-change runner point the same
# machinery at a scratch worktree while /repo is in use
REPO = os.environ.get("VERIF_REPO", "/repo")
DRIVER = os.path.join(LEAN, ".lake", "build", "bin", "driver")
HBIN = os.path.join(HARNESS, "bin", "ipamharness")
FACTGEN = os.path.join(HARNESS, "bin", "factgen")
ALLOWED_AXIOMS = {"propext", "Classical.choice", "Quot.sound"}
FORBIDDEN = ["sorry", "admit", "native_decide", "bv_decide", "implemented_by", "unsafe ", "maxHeartbeats 0"]

GOENV = dict(os.environ, GOFLAGS="-mod=mod", GOPROXY="off", GOSUMDB="off", GOTOOLCHAIN="local",
             CGO_ENABLED=os.environ.get("CGO_ENABLED", "1"))


def run(cmd, cwd=None, env=None, timeout=None, stdin=None, stdout=subprocess.PIPE):
    return subprocess.run(cmd, cwd=cwd, env=env, timeout=timeout, stdin=stdin, stdout=stdout,
                          stderr=subprocess.STDOUT, text=True)


class Lock:
    """one check at a time builds (the build directories are shared)"""
    def __init__(self, name="build"):
        os.makedirs(WORK, exist_ok=True)
        self.f = open(os.path.join(WORK, "." + name + ".lock"), "w")
    def __enter__(self):
        fcntl.flock(self.f, fcntl.LOCK_EX)
        return self
    def __exit__(self, *a):
        fcntl.flock(self.f, fcntl.LOCK_UN)
        self.f.close()


def tree_hash(paths, exts):
    h = hashlib.sha256()
    for root in paths:
        if os.path.isfile(root):
            files = [root]
        else:
            files = []
            for d, dn, fn in os.walk(root):
                dn[:] = [x for x in dn if x not in (".lake", ".git", "bin", "vendor")]
                for f in fn:
                    if f.endswith(exts):
                        files.append(os.path.join(d, f))
        for f in sorted(files):
            h.update(f.encode())
            with open(f, "rb") as fh:
                h.update(fh.read())
    return h.hexdigest()


def modfile_args():
    """`-modfile` arguments redirecting the harness' replace directive when VERIF_REPO is set"""
    if REPO == "/repo":
        return []
    os.makedirs(WORK, exist_ok=True)
    alt = os.path.join(WORK, "alt.mod")
    src = open(os.path.join(HARNESS, "go.mod")).read().replace("=> /repo", "=> " + REPO)
    open(alt, "w").write(src)
    with open(os.path.join(HARNESS, "go.sum"), "rb") as f, open(os.path.join(WORK, "alt.sum"), "wb") as g:
        g.write(f.read())
    return ["-modfile=" + alt]


def build_go():
    """rebuild harness (and factgen) from /repo's working tree, tag verif"""
    os.makedirs(os.path.join(HARNESS, "bin"), exist_ok=True)
    # go.sum / go.mod of the harness follow the repository's
    r = run(["go", "build"] + modfile_args() + ["-tags", "verif", "-o", HBIN, "./cmd/ipamharness"], cwd=HARNESS, env=GOENV, timeout=900)
    if r.returncode != 0:
        return False, r.stdout
    if os.path.isdir(os.path.join(HARNESS, "cmd", "factgen")):
        r2 = run(["go", "build", "-o", FACTGEN, "./cmd/factgen"], cwd=HARNESS, env=GOENV, timeout=900)
        if r2.returncode != 0:
            return False, r2.stdout
    return True, r.stdout


def regen_facts():
    """translator: regenerate Facts.lean from /repo (no-op until factgen exists)"""
    if not os.path.exists(FACTGEN):
        return True, ""
    out = os.path.join(LEAN, "IpamVerif", "Facts.lean")
    tmp = out + ".tmp"
    r = run([FACTGEN, "-repo", REPO, "-out", tmp, "-json", os.path.join(WORK, "facts.json")], env=GOENV, timeout=600)
    if r.returncode != 0:
        return False, r.stdout
    new = open(tmp).read()
    old = open(out).read() if os.path.exists(out) else None
    if new != old:
        os.replace(tmp, out)
    else:
        os.remove(tmp)
    return True, r.stdout


def lake_build(targets=None):
    cmd = ["lake", "build"] + (targets or [])
    r = run(cmd, cwd=LEAN, timeout=3600)
    out = r.stdout
    ok = r.returncode == 0 and "declaration uses 'sorry'" not in out and "declaration uses `sorry`" not in out
    return ok, out


def lean_sources():
    res = []
    for d, dn, fn in os.walk(LEAN):
        dn[:] = [x for x in dn if x != ".lake"]
        for f in fn:
            if f.endswith(".lean"):
                res.append(os.path.join(d, f))
    return sorted(res)


def strip_comments(src):
    # remove /- ... -/ (nested not handled beyond one level; fine for our files) and -- comments
    out, i, depth = [], 0, 0
    while i < len(src):
        if src.startswith("/-", i):
            depth += 1; i += 2; continue
        if src.startswith("-/", i) and depth > 0:
            depth -= 1; i += 2; continue
        if depth == 0:
            out.append(src[i])
        i += 1
    s = "".join(out)
    return re.sub(r"--[^\n]*", "", s)


def forbidden_tokens():
    hits = []
    for f in lean_sources():
        code = strip_comments(open(f).read())
        # string literals may legitimately mention words; our sources do not, keep it strict
        for tok in FORBIDDEN:
            if tok in code:
                hits.append(f"{os.path.relpath(f, VERIF)}: {tok.strip()}")
        if re.search(r"^\s*axiom\s", code, re.M):
            hits.append(f"{os.path.relpath(f, VERIF)}: axiom")
    return hits


def module_closure(mod):
    """IpamVerif modules imported (transitively) by module `mod` (dotted)."""
    seen, todo = [], [mod]
    while todo:
        m = todo.pop()
        if m in seen:
            continue
        p = os.path.join(LEAN, *m.split(".")) + ".lean"
        if not os.path.exists(p):
            continue
        seen.append(m)
        for line in open(p):
            mm = re.match(r"\s*import\s+(IpamVerif[\w.]*)", line)
            if mm:
                todo.append(mm.group(1))
    return seen


def theorems_of(mod):
    p = os.path.join(LEAN, *mod.split(".")) + ".lean"
    src = strip_comments(open(p).read())
    ns = None
    names = []
    for line in src.split("\n"):
        m = re.match(r"\s*namespace\s+([\w.]+)", line)
        if m:
            ns = m.group(1)
        m = re.match(r"\s*(?:@\[[^\]]*\]\s*)?(?:private\s+|protected\s+)?theorem\s+([\w.'!?]+)", line)
        if m:
            names.append((ns + "." if ns else "") + m.group(1))
    return names


def audit(prop_mod):
    """#print axioms for every theorem of the property module; returns (ok, axioms_found, per_theorem, log)"""
    names = theorems_of(prop_mod)
    os.makedirs(os.path.join(WORK, "audit"), exist_ok=True)
    f = os.path.join(WORK, "audit", prop_mod.replace(".", "_") + ".lean")
    with open(f, "w") as fh:
        fh.write(f"import {prop_mod}\n")
        for n in names:
            fh.write(f"#print axioms {n}\n")
    r = run(["lake", "env", "lean", f], cwd=LEAN, timeout=1800)
    found, per, bad = set(), {}, []
    cur = None
    text = r.stdout
    # messages look like: 'X' depends on axioms: [a, b]   or   'X' does not depend on any axioms
    for m in re.finditer(r"'([^']+)' depends on axioms: \[([^\]]*)\]", text, re.S):
        axs = [a.strip() for a in m.group(2).replace("\n", " ").split(",") if a.strip()]
        per[m.group(1)] = axs
        for a in axs:
            found.add(a)
            if a not in ALLOWED_AXIOMS:
                bad.append(f"{m.group(1)}: {a}")
    for m in re.finditer(r"'([^']+)' does not depend on any axioms", text):
        per[m.group(1)] = []
    missing = [n for n in names if n not in per]
    ok = r.returncode == 0 and not bad and not missing
    return ok, sorted(found), per, (text if not ok else ""), names, bad, missing


def count_obligations(prop_mod):
    mods = module_closure(prop_mod)
    per = {m: len(theorems_of(m)) for m in mods}
    return sum(per.values()), per


def file_hash(path):
    h = hashlib.sha256()
    with open(path, "rb") as f:
        for chunk in iter(lambda: f.read(1 << 20), b""):
            h.update(chunk)
    return h.hexdigest()


def cache_key(stream, seed, tier, extra):
    """a stream's output is a function of the harness binary (built from /repo's tree), the driver binary and the arguments"""
    k = hashlib.sha256()
    k.update(file_hash(HBIN).encode())
    k.update(file_hash(DRIVER).encode())
    k.update(repr((stream, seed, tier, extra, os.environ.get("VERIF_HIST_N", ""))).encode())
    for x in (extra or []):
        if isinstance(x, str) and os.path.isfile(x):
            k.update(file_hash(x).encode())
    return k.hexdigest()[:24]


def run_stream_cached(stream, mode, seed, tier, outdir, extra=None):
    """run harness + model driver once per (binaries, stream, seed, tier); later checks of the same build reuse the files"""
    import shutil
    key = cache_key(stream, seed, tier, extra)
    cdir = os.path.join(WORK, "cache", key)
    if os.path.exists(os.path.join(cdir, "done")):
        if os.path.abspath(cdir) != os.path.abspath(outdir):
            if os.path.lexists(outdir):
                if os.path.islink(outdir):
                    os.unlink(outdir)
                else:
                    shutil.rmtree(outdir)
            os.makedirs(os.path.dirname(outdir), exist_ok=True)
            os.symlink(cdir, outdir)
        return True, "", True, "", key
    # evict old cache entries (keep the 12 most recent)
    croot = os.path.join(WORK, "cache")
    os.makedirs(croot, exist_ok=True)
    ents = sorted((os.path.getmtime(os.path.join(croot, e)), e) for e in os.listdir(croot))
    for _, e in ents[:-12]:
        shutil.rmtree(os.path.join(croot, e), ignore_errors=True)
    ok, log = run_stream(stream, seed, tier, cdir, extra)
    ok2, log2 = (False, "")
    if ok:
        ok2, log2 = run_driver(mode, cdir)
    if ok and ok2:
        open(os.path.join(cdir, "done"), "w").write("1")
    if os.path.lexists(outdir):
        if os.path.islink(outdir):
            os.unlink(outdir)
        else:
            shutil.rmtree(outdir)
    os.makedirs(os.path.dirname(outdir), exist_ok=True)
    os.symlink(cdir, outdir)
    return ok, log, ok2, log2, key


def run_stream(stream, seed, tier, outdir, extra=None, timeout=3000):
    os.makedirs(outdir, exist_ok=True)
    for f in ("ops.txt", "impl.txt", "model.txt", "stats.json"):
        try:
            os.remove(os.path.join(outdir, f))
        except FileNotFoundError:
            pass
    cmd = [HBIN, stream, "-seed", str(seed), "-tier", tier, "-out", outdir] + (extra or [])
    env = dict(GOENV, GOMEMLIMIT="8GiB")
    r = run(cmd, env=env, timeout=timeout)
    return r.returncode == 0, r.stdout


def run_driver(mode, outdir, timeout=1500):
    with open(os.path.join(outdir, "ops.txt")) as fi, open(os.path.join(outdir, "model.txt"), "w") as fo:
        try:
            r = subprocess.run([DRIVER, mode], stdin=fi, stdout=fo, stderr=subprocess.PIPE, text=True, timeout=timeout)
        except subprocess.TimeoutExpired:
            return False, f"model driver did not finish within {timeout}s"
    return r.returncode == 0, r.stderr


def read_lines(p):
    with open(p) as f:
        return f.read().split("\n")


def op_lines(p):
    return [l for l in read_lines(p) if l.strip() and not l.startswith("#")]


def write_evidence(pid, ev):
    os.makedirs(os.path.join(VERIF, "evidence"), exist_ok=True)
    with open(os.path.join(VERIF, "evidence", pid + ".json"), "w") as f:
        json.dump(ev, f, indent=1, sort_keys=True)
        f.write("\n")


def known_findings():
    p = os.path.join(VERIF, "known-findings.json")
    if not os.path.exists(p):
        return {"open": [], "fixed": []}
    return json.load(open(p))


def witness_kind(path):
    for l in open(path):
        l = l.strip()
        if l and not l.startswith("#"):
            return ("pool", "pool") if l.startswith("geo ") else ("hist", "hist")
    return ("hist", "hist")
