"""Direct evaluation of C13 / C14 / C19 on the implementation's own trace (the search for a
concrete failing input when proof or correspondence breaks; also run on every pass).
An independent oracle in integers: the abstract spec 'a pool is a set of block numbers'."""
import re


def parse_tok(t):
    fam, rest = t.split(":", 1)
    a, l = rest.split("/")
    return int(fam), int(a, 16), int(l)


def tok(fam, addr, l):
    return f"{fam}:{addr:x}/{l}"


class Geo:
    def __init__(self, fam, base, c, hb):
        self.fam, self.base, self.c, self.hb = fam, base, c, hb
        self.W = 32 if fam == 4 else 128
        self.n = self.W - hb
        self.accept = hb >= 0 and self.n >= c and (fam == 4 or self.n - c <= 16)
        if self.accept:
            self.max = 1 << (self.n - c)
            self.bs = 1 << (self.W - self.n)
            self.size = 1 << (self.W - c)

    def be(self, fam, addr, l):
        """expected index range or None"""
        if fam != self.fam:
            return None
        size = 1 << (self.W - l)
        if addr + size <= self.base or self.base + self.size <= addr:
            return None
        if l <= self.c:
            return (0, self.max - 1)
        return ((addr - self.base) // self.bs, (addr + size - 1 - self.base) // self.bs)


STATE_RE = re.compile(r"st count=(-?\d+) cursor=(-?\d+) used=\[([^\]]*)\] allocs=(-?\d+) releases=(-?\d+) max=(-?\d+) usage=(\S+)")


def parse_state(obs):
    m = STATE_RE.search(obs)
    if not m:
        return None
    used = [x for x in m.group(3).split(",") if x]
    return dict(count=int(m.group(1)), cursor=int(m.group(2)), used=used, allocs=int(m.group(4)),
                releases=int(m.group(5)), max=int(m.group(6)), usage=m.group(7))


def judge(ops, impl, want):
    """ops, impl: parallel lists of lines. want: set of property ids among C13, C14, C19.
    returns list of dicts {prop, line, case_start, msg}"""
    viol = []
    g = None
    S = set()
    case_start = 0
    supported = False

    def bad(prop, i, msg):
        if prop in want:
            viol.append(dict(prop=prop, line=i, case_start=case_start, msg=msg))

    for i, (op, ob) in enumerate(zip(ops, impl)):
        f = op.split()
        if f[0] == "geo":
            fam, base, c = parse_tok(f[1])
            g = Geo(fam, base, c, int(f[2]))
            S = set()
            case_start = i
            supported = g.accept and not (fam == 4 and g.accept and g.max >= 1 << 32)
            if g.accept:
                exp = f"geo ok max={g.max} n={g.n}"
                if ob != exp:
                    bad("C13", i, f"accepted geometry: expected '{exp}', implementation says '{ob}'")
            else:
                g_rej = ob == "geo rej"
                if not g_rej:
                    # accepting an unsupported geometry is C12's subject, not C13's; ignore here
                    pass
                g = g if ob.startswith("geo ok") else None
                supported = False
            continue
        if g is None or not supported or ob.startswith("geo"):
            continue
        if f[0] == "block":
            k = int(f[1])
            exp = "blk " + tok(g.fam, g.base + k * g.bs, g.n)
            if k < g.max and ob != exp:
                bad("C13", i, f"block {k}: expected {exp}, got {ob}")
        elif f[0] == "index":
            fam, a = int(f[1]), int(f[2], 16)
            if fam == g.fam:
                inside = g.base <= a < g.base + g.size
                exp = f"idx {(a - g.base) // g.bs}" if inside else "idx err"
                if ob != exp:
                    bad("C13", i, f"index of {a:x}: expected {exp}, got {ob}")
        elif f[0] == "be":
            fam, a, l = parse_tok(f[1])
            r = g.be(fam, a, l)
            exp = "be err" if r is None else f"be {r[0]} {r[1]}"
            if ob != exp:
                bad("C13", i, f"index range of {f[1]}: expected {exp}, got {ob}")
        elif f[0] in ("occ", "rel"):
            fam, a, l = parse_tok(f[1])
            r = g.be(fam, a, l)
            st = parse_state(ob)
            if st is None:
                bad("C14", i, f"unreadable observation '{ob}'")
                continue
            if r is None:
                if not ob.startswith(f[0] + " err"):
                    bad("C14", i, f"{op}: CIDR outside the range must fail, got '{ob}'")
                newS = S
            else:
                if not ob.startswith(f[0] + " ok"):
                    bad("C14", i, f"{op}: must succeed, got '{ob}'")
                touched = set(range(r[0], r[1] + 1))
                newS = (S | touched) if f[0] == "occ" else (S - touched)
            usedset = set()
            okparse = True
            for u in st["used"]:
                if not u.lstrip("-").isdigit():
                    okparse = False
                else:
                    usedset.add(int(u))
            if not okparse or len(usedset) != len(st["used"]):
                bad("C14", i, f"{op}: used keys are not distinct blocks of the pool: {st['used']}")
            elif usedset != newS:
                bad("C14", i, f"{op}: used blocks {sorted(usedset)} but exactly {sorted(newS)} expected")
            if st["count"] != len(st["used"]) or not (0 <= st["count"] <= g.max):
                bad("C14", i, f"{op}: counter {st['count']} vs {len(st['used'])} distinct used blocks, capacity {g.max}")
            check_metrics(bad, i, op, st, g)
            S = usedset if okparse else newS
        elif f[0] == "next":
            st = parse_state(ob)
            if st is None:
                bad("C14", i, f"unreadable observation '{ob}'")
                continue
            full = len(S) == g.max
            if ob.startswith("next err"):
                if not full:
                    bad("C14", i, f"next: exhaustion reported although block(s) {sorted(set(range(g.max)) - S)[:4]} are free")
            else:
                t = ob.split()[1]
                try:
                    fam, a, l = parse_tok(t)
                    k = (a - g.base) // g.bs
                    proper = fam == g.fam and l == g.n and (a - g.base) % g.bs == 0 and 0 <= k < g.max
                except Exception:
                    proper, k = False, None
                if full:
                    bad("C14", i, f"next: candidate {t} offered although the pool is full")
                elif not proper:
                    bad("C14", i, f"next: candidate {t} is not a block of the pool")
                elif k in S:
                    bad("C14", i, f"next: candidate block {k} is already used")
            usedset = set(int(u) for u in st["used"] if u.lstrip("-").isdigit())
            if usedset != S or st["count"] != len(S):
                bad("C14", i, f"next: must reserve nothing, used {sorted(S)} -> {sorted(usedset)}, counter {st['count']}")
            check_metrics(bad, i, op, st, g)
    return viol


def check_metrics(bad, i, op, st, g):
    if st["max"] != g.max:
        bad("C19", i, f"{op}: max_cidrs={st['max']} but capacity is {g.max}")
    if st["allocs"] - st["releases"] != len(st["used"]):
        bad("C19", i, f"{op}: allocations_total-releases_total={st['allocs'] - st['releases']} but {len(st['used'])} blocks used")
    if st["usage"] != str(len(st["used"])):
        bad("C19", i, f"{op}: usage gauge stands for {st['usage']}/{g.max} but {len(st['used'])} blocks used")
