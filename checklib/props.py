"""Property table and the generic check flow."""
import json, os, re, shutil, time
from . import common as C
from . import judge_pool, judge_valid, judge_hist, facts as factmod


class Result:
    def __init__(self, pid, tier, seed):
        self.pid, self.tier, self.seed = pid, tier, seed
        self.proof_ok = True
        self.proof_notes = []          # what broke on the proof side
        self.corr_breaks = []          # (stream, line, op, impl, model)
        self.violations = []           # judged on the implementation: dict(msg, replay)
        self.known = []                # known findings seen
        self.stale = []                # open findings whose witness no longer fails
        self.cov = dict(evaluations=0, distinct_nontrivial=0, traces_validated_against_impl=0, samples=[],
                        streams={}, rule="")
        self.obligations = 0
        self.discharged = 0
        self.axioms = []
        self.theorems = []
        self.assumptions = []
        self.workdir = os.path.join(C.WORK, pid + "-" + tier)


# ---------------------------------------------------------------- projections

def proj_all(line):
    return line

_METRICS = re.compile(r" allocs=-?\d+ releases=-?\d+ max=-?\d+ usage=\S+")

def proj_c14(line):
    return _METRICS.sub("", line)

def proj_c19(line):
    m = judge_pool.STATE_RE.search(line)
    if not m:
        return line.split()[0] if line.startswith(("geo",)) else line
    w = line.split()
    kind = " ".join(w[:2]) if w[0] in ("occ", "rel") else "next"
    return f"{kind} count={m.group(1)} allocs={m.group(4)} releases={m.group(5)} max={m.group(6)} usage={m.group(7)}"


_CUR = re.compile(r"@(-?\d+)@(-?\d+)@")

def make_proj(fields, snap="full", api=False, view=False):
    """projection of a hist observation line: the named head fields (res, patches, ccw, events, mut, nq, cq), the pool
    snapshot (full / nocursor / none), optionally the API and cache sections"""
    def proj(line):
        if not line.startswith("ev "):
            return line
        parts = line.split(" ## ")
        head = parts[0]
        out = []
        for f in fields:
            if f == "res":
                m = re.search(r"res=(\S+)", head)
                out.append("res=" + (m.group(1) if m else "?"))
            else:
                b = judge_hist.bracket(head, f)
                out.append(f"{f}=[{b}]")
        if "unexpected=" in head:
            out.append("unexpected")
        if snap != "none" and len(parts) > 1:
            sn = parts[1]
            if snap == "nocursor":
                sn = _CUR.sub(lambda m: "@" + m.group(1) + "@", sn)
            out.append(sn)
        if api and len(parts) > 2:
            out.append(parts[2])
        if view and len(parts) > 3:
            out.append(parts[3])
        return " ## ".join(out)
    return proj

HIST_RULE = ("random histories over a small universe built to collide: <=5 ClusterCIDRs from a palette of identical / nested / overlapping / disjoint "
             "ranges with 1..16 blocks, single and dual stack, 20 selector shapes (all six operators, repeated keys, keyword keys, empty terms, "
             "multi-term, unrepresentable); <=6 nodes with 11 label sets, pre-set pod CIDRs (blocks, double blocks, outside); events: API changes, "
             "deliveries (stale caches, tombstones, resyncs), node / ClusterCIDR work items with write outcomes ok/fail/lost per attempt, mid-item "
             "cache refresh, foreign writers and finalizers, restarts with and without service ranges. A case = one history (about 50 events); "
             "non-trivial if it contains a node PATCH and a failed item or a node deletion; distinct by its event list. Violations are judged only "
             "inside the property's envelope (DESIGN 3.5); counts of out-of-envelope histories are reported under outside_envelope. "
             "Stream 'frag' (C01, C02, C04, C05, C06, C08): random histories inside the fragment the Lean history theorems quantify over (disjoint ClusterCIDR ranges, one start, "
             "no label edits, no foreign pod CIDRs, node writes ok/fail only, delete notifications with the final state); there the judge runs with no envelope. "
             "Stream 'fragboot' (C01, C03, C04): the same with restarts at any instant and frequent lingering node deletions, also judged with no envelope")

# ---------------------------------------------------------------- property table

PROPS = {
    "C13": dict(mod="IpamVerif.Props.C13", engine="pool", streams=[("geo", "pool", proj_all)], judge=("pool", {"C13"}),
                rule="every supported geometry (all IPv4 prefix/host-bit pairs but the 2^32-block one, all IPv6 with <= 16 index bits) "
                     "with random base bits; per geometry boundary, power-of-two and random block numbers, addresses inside/outside, "
                     "sub-/super-/disjoint CIDRs; a case = one geometry instance, all are non-trivial, distinct by (family, prefix, host bits, base)"),
    "C14": dict(mod="IpamVerif.Props.C14", engine="pool", streams=[("pool", "pool", proj_c14)], judge=("pool", {"C14"}),
                rule="random occupy/release/next sequences with argument shapes {block, sub-block, aligned multi-block, whole range, "
                     "super-range, sibling, adjacent, other family} on random geometries (capacity 1..1024); thorough adds every reachable "
                     "(used-set, cursor) state x every operation for capacities 1,2,4,8; a case = one pool history, non-trivial if it has >= 2 "
                     "successful state-changing calls, distinct by its operation list"),
    "C19": dict(mod="IpamVerif.Props.C19", engine="pool", streams=[("pool", "pool", proj_c19)], judge=("pool", {"C19"}),
                rule="same histories as C14; the four series are read from the metric vectors after every call, the /metrics handler is "
                     "served once per run; a case = one pool history, non-trivial if >= 2 successful state-changing calls, distinct by operation list"),
    "C01": dict(mod="IpamVerif.Props.C01", engine="hist", streams=[("hist", "hist", make_proj(["patches"], "full", api=True)), ("restart", "hist", make_proj(["patches"], "full", api=True)), ("frag", "hist", make_proj(["res", "patches", "ccw"], "full", api=True)), ("fragboot", "hist", make_proj(["res", "patches", "ccw"], "full", api=True))],
                judge=("hist", {"C01"}), rule=HIST_RULE),
    "C02": dict(mod="IpamVerif.Props.C02", engine="hist", streams=[("hist", "hist", make_proj(["patches"], "nocursor")), ("frag", "hist", make_proj(["res", "patches", "ccw"], "full", api=True))], judge=("hist", {"C02"}), rule=HIST_RULE),
    "C03": dict(mod="IpamVerif.Props.C03", engine="hist", streams=[("restart", "hist", make_proj(["res", "patches", "ccw"], "full", api=True, view=True)), ("fragboot", "hist", make_proj(["res", "patches", "ccw"], "full", api=True))],
                judge=("hist", {"C03"}), rule=HIST_RULE + "; profile 'restart': a restart after every eighth event and, with probability 1/2, right after a lost (crash after the write) or failed (crash before the write) API write"),
    "C04": dict(mod="IpamVerif.Props.C04", engine="hist", streams=[("hist", "hist", make_proj(["patches"], "nocursor", api=True)), ("frag", "hist", make_proj(["res", "patches", "ccw"], "full", api=True)), ("fragboot", "hist", make_proj(["res", "patches", "ccw"], "full", api=True))], judge=("hist", {"C04"}), rule=HIST_RULE),
    "C05": dict(mod="IpamVerif.Props.C05", engine="hist", streams=[("hist", "hist", make_proj(["res", "patches", "events", "nq"], "full")), ("frag", "hist", make_proj(["res", "patches", "ccw"], "full", api=True))], judge=("hist", {"C05"}), rule=HIST_RULE),
    "C06": dict(mod="IpamVerif.Props.C06", engine="hist", streams=[("hist", "hist", make_proj(["patches", "ccw"], "nocursor", api=True)), ("frag", "hist", make_proj(["res", "patches", "ccw"], "full", api=True))], judge=("hist", {"C06"}), rule=HIST_RULE),
    "C07": dict(mod="IpamVerif.Props.C07", engine="hist", streams=[("order", "hist", make_proj(["patches"], "full")), ("hist", "hist", make_proj(["patches"], "full"))], judge=("hist", {"C07"}),
                rule=HIST_RULE + "; profile 'order': 3..5 ClusterCIDRs of one family whose selectors (0, 1 or 2 requirements, ties at every level) all select one label set, created in arbitrary order, "
                     "and a stream of nodes with that label set served until the higher-priority ClusterCIDRs are exhausted"),
    "C08": dict(mod="IpamVerif.Props.C08", engine="hist", streams=[("hist", "hist", make_proj(["patches", "ccw", "events"], "nocursor", view=True)), ("frag", "hist", make_proj(["res", "patches", "ccw"], "full", api=True))], judge=("hist", {"C08"}), rule=HIST_RULE),
    "C09": dict(mod="IpamVerif.Props.C09", engine="hist", streams=[("svc", "hist", make_proj(["patches"], "full"))], judge=("hist", {"C09"}),
                rule=HIST_RULE + "; profile 'svc': every first start and one restart in six is given a primary and/or secondary service range (inside, equal to, containing, smaller than a block, other family)"),
    "C10": dict(mod="IpamVerif.Props.C10", engine="hist", streams=[("hist", "hist", make_proj(["res", "ccw", "cq"], "nocursor", api=True)), ("restart", "hist", make_proj(["res", "ccw", "cq"], "nocursor", api=True)),
                                                                    ("mal", "hist", make_proj(["res", "ccw"], "nocursor"))],
                judge=("hist", {"C10"}), rule=HIST_RULE),
    "C11": dict(mod="IpamVerif.Props.C11", engine="hist", streams=[("drain", "hist", make_proj(["res", "patches", "ccw", "nq", "cq"], "nocursor", api=True))], judge=("hist", {"C11"}),
                rule=HIST_RULE + "; profile 'drain': after the random prefix changes stop, writes succeed, every stale object is delivered and every queued key processed, round after round until nothing moves; the steady state is then judged"),
    "C12": dict(mod="IpamVerif.Props.C12", engine="hist", streams=[("mal", "hist", make_proj(["res", "patches", "ccw", "events"], "nocursor")), ("hist", "hist", make_proj(["res"], "none"))],
                judge=("hist", {"C12"}),
                rule=HIST_RULE + "; profile 'mal': every sixth event injects hostile content - range strings (garbage, missing prefix, prefix out of range, other family, IPv4-mapped, unmasked, upper case), "
                     "perNodeHostBits over the whole int32 range, unrepresentable selectors, node pod CIDRs that do not parse or belong to no ClusterCIDR, tombstones, service ranges of either family; every step under recover and a watchdog"),
    "C20": dict(mod="IpamVerif.Props.C20", engine="hist", streams=[("hist", "hist", make_proj(["mut"], "none")), ("restart", "hist", make_proj(["mut"], "none")), ("mal", "hist", make_proj(["mut"], "none"))], judge=("hist", {"C20"}), rule=HIST_RULE),
    "C15": dict(mod="IpamVerif.Props.C15", engine="facts+conc", streams=[], judge=("conc", None),
                rule="translator: call graph of package ipam regenerated from source, checker re-run by the Lean kernel; supporting validation: seeded workloads on the real Run "
                     "(30+30 workers, real rate-limiting queues, two informer goroutines, six API mutators, injected write failures) under the Go race detector; a case = one workload; "
                     "non-trivial if it performed node PATCHes; the final state is judged for overlap, unjustified blocks and finalizer removal with dependants"),
    "C16": dict(mod="IpamVerif.Props.C16", engine="facts", streams=[], judge=("facts", None),
                rule="translator: every function and closure of package ipam (non-test files) with its static call edges, lock prologue, other lock operations, shared-state accesses, "
                     "entry points; the table is regenerated on every run and `checker Facts.graph = true` is re-decided by the Lean kernel; a case = one function of the table"),
    "C17": dict(mod="IpamVerif.Props.C17", engine="hist", streams=[("hist", "hist", make_proj(["res", "patches"], "nocursor"))], judge=("hist", {"C02", "C05"}),
                rule=HIST_RULE + "; for C17 the selector keys in the pool snapshot are compared byte for byte with the model's printed keys and the serving / refusing decisions are judged for eligibility in both directions"),
    "C18": dict(mod="IpamVerif.Props.C18", engine="valid", streams=[("valid", "valid", proj_all)], judge=("valid", None),
                rule="grid of ipv4 strings x ipv6 strings (valid of several prefix lengths, other family, malformed variants, empty, IPv4-mapped) x host bits "
                     "(negative, 0, 3, 4, 5, limits-1/limit/limit+1 of each range, int32 extremes) x selector shapes (nil, no terms, empty term, all six operators "
                     "with 0/1/2 values, bad keys, bad operators, field selectors good/bad); update pairs changing every subset of the four fields (incl. removals); "
                     "a case = one spec or one ordered pair; every case is non-trivial; distinct by its encoding"),
}


# ---------------------------------------------------------------- flow

def prepare(res, spec):
    ok, log = C.build_go()
    if not ok:
        res.proof_ok = False
        res.proof_notes.append("harness does not build against /repo (tag verif): " + log[-2000:])
        res.build_failed = True
        return
    res.build_failed = False
    ok, log = C.regen_facts()
    if not ok:
        res.proof_ok = False
        res.proof_notes.append("fact extraction (translator) failed: " + log[-2000:])
    # the property's own module (with everything it imports) and the model driver: a property is not
    # reported as unproved because a theorem of another property stopped checking
    mods = [spec["mod"], "driver"]
    if spec.get("engine") == "hist" and spec["mod"] != "IpamVerif.Props.C16":
        # the System model executes one work item or handler at a time: it is a model of this code only while every
        # path to the allocator's state holds its mutex from the first access to the last (C15 / C16).  The regenerated
        # lock table is therefore an obligation of every history property (kernel-decided in Props/C16).
        mods.append("IpamVerif.Props.C16")
    ok, log = C.lake_build(mods)
    if not ok:
        res.proof_ok = False
        # name the failing modules / theorems
        errs = [l for l in log.split("\n") if "error" in l][:12]
        res.proof_notes.append("lake build failed: " + " | ".join(errs))
    hits = C.forbidden_tokens()
    if hits:
        res.proof_ok = False
        res.proof_notes.append("forbidden tokens: " + "; ".join(hits))
    mod = spec["mod"]
    res.obligations, per = C.count_obligations(mod)
    if res.proof_ok:
        ok, axioms, per_thm, log, names, bad, missing = C.audit(mod)
        res.axioms, res.theorems = axioms, names
        if not ok:
            res.proof_ok = False
            res.proof_notes.append(f"axiom audit failed: bad={bad} missing={missing} {log[-1500:]}")
    res.discharged = res.obligations if res.proof_ok else 0
    res.obl_per_module = per


def first_diff(a, b):
    n = min(len(a), len(b))
    for i in range(n):
        if a[i] != b[i]:
            return i
    return None if len(a) == len(b) else n


def case_bounds(ops, i):
    """the case a line belongs to starts at the last case header at or before it"""
    s = i
    while s > 0 and not ops[s].startswith(("geo ", "case ", "hist ")):
        s -= 1
    return s


def write_replay(res, stream, ops, impl, model, i, reason):
    d = os.path.join(C.WORK, "replays")
    os.makedirs(d, exist_ok=True)
    p = os.path.join(d, f"{res.pid}-{stream}-{res.seed}-{i}.txt")
    s = case_bounds(ops, i)
    with open(p, "w") as f:
        f.write(f"# property {res.pid} stream {stream} seed {res.seed} tier {res.tier}\n# {reason}\n")
        for k in range(s, i + 1):
            f.write(ops[k] + "\n")
            f.write(f"#   impl : {impl[k] if k < len(impl) else '<missing>'}\n")
            if model is not None:
                f.write(f"#   model: {model[k] if k < len(model) else '<missing>'}\n")
    return p


def facts_and_conc(res, spec):
    """C16 / C15: the tie is the translator; when the kernel rejects the table, exhibit the offending call path"""
    kind, _ = spec["judge"]
    f = factmod.load()
    if f is None:
        res.corr_breaks.append(("factgen", -1, "no fact table", "", ""))
        return
    summ = factmod.summary(f)
    res.cov["streams"]["factgen"] = summ
    res.cov["evaluations"] += summ["functions"]
    res.cov["distinct_nontrivial"] += summ["functions"]
    res.cov["traces_validated_against_impl"] += summ["functions"]
    res.cov["samples"] += [dict(function=x["name"], holdsLock=x["holdsLock"], touches=x["touches"], root=x["root"], calls=x["calls"]) for x in f["fns"] if x["holdsLock"] or x["root"]][:6]
    bad = factmod.offending_paths(f)
    for b in bad[:5]:
        d = os.path.join(C.WORK, "replays")
        os.makedirs(d, exist_ok=True)
        rp = os.path.join(d, f"{res.pid}-path-{len(res.violations)}.txt")
        with open(rp, "w") as fh:
            fh.write(f"# property {res.pid}: offending call path in /repo's source (regenerated fact table)\n")
            fh.write(f"kind: {b['kind']}\npath: {' -> '.join(b['path'])}\n")
            if b.get("pos"):
                fh.write(f"at: {b['pos']}\n")
            for w in b.get("why", []):
                fh.write(f"why: {w}\n")
        res.violations.append(dict(msg=f"{b['kind']}: {' -> '.join(b['path'])}", replay=rp))
    if kind == "conc" and not getattr(res, "build_failed", False):
        rounds = 20 if res.tier == "thorough" else 3
        binp = os.path.join(C.HARNESS, "bin", "concharness")
        r = C.run(["go", "build"] + C.modfile_args() + ["-race", "-tags", "verif", "-o", binp, "./cmd/concharness"], cwd=C.HARNESS, env=C.GOENV, timeout=1800)
        if r.returncode != 0:
            res.corr_breaks.append(("conc", -1, "concharness does not build", r.stdout[-1500:], ""))
            return
        outp = os.path.join(res.workdir, "conc.json")
        os.makedirs(res.workdir, exist_ok=True)
        env = dict(C.GOENV, GORACE="halt_on_error=1 exitcode=66")
        import subprocess
        try:
            pr = subprocess.run([binp, "-seed", str(res.seed), "-rounds", str(rounds), "-out", outp], env=env, stdout=subprocess.PIPE,
                                stderr=subprocess.PIPE, text=True, timeout=1500)
            rc, so, se = pr.returncode, pr.stdout, pr.stderr
        except subprocess.TimeoutExpired:
            rc, so, se = 124, "", "timeout (workers stuck?)"
        res.cov["streams"]["conc"] = dict(rounds=rounds, exit=rc)
        res.cov["evaluations"] += rounds
        d = os.path.join(C.WORK, "replays")
        os.makedirs(d, exist_ok=True)
        if rc == 66 or "WARNING: DATA RACE" in se:
            rp = os.path.join(d, f"{res.pid}-race-{res.seed}.txt")
            i = se.find("WARNING: DATA RACE")
            open(rp, "w").write(f"# concharness -seed {res.seed} -rounds {rounds} (built -race)\n" + se[i:i + 6000])
            res.violations.append(dict(msg="data race reported by the Go race detector under the concurrent workload", replay=rp))
        elif rc == 3:
            vs = [l for l in so.split("\n") if l.startswith("CONC-VIOLATION")]
            rp = os.path.join(d, f"{res.pid}-conc-{res.seed}.txt")
            open(rp, "w").write(f"# concharness -seed {res.seed} -rounds {rounds}\n" + "\n".join(vs) + "\n")
            res.violations.append(dict(msg=vs[0][:300] if vs else "concurrent workload judged bad", replay=rp))
        elif rc != 0:
            rp = os.path.join(d, f"{res.pid}-conc-{res.seed}.txt")
            open(rp, "w").write(f"# concharness -seed {res.seed} -rounds {rounds}: exit {rc}\n" + se[-4000:])
            res.violations.append(dict(msg=f"concurrent workload did not finish cleanly (exit {rc}: crash, deadlock or timeout)", replay=rp))
        else:
            try:
                cj = json.load(open(outp))
                res.cov["streams"]["conc"]["patches"] = cj.get("patches")
                res.cov["distinct_nontrivial"] += rounds if cj.get("patches", 0) > 0 else 0
                res.cov["traces_validated_against_impl"] += rounds
            except Exception:
                pass


def run_corpus(res, spec):
    """the corpus runs first: witnesses of the open findings of this property (must still fail: KNOWN-FINDING) and of the
    repaired ones (must pass: an ordinary violation otherwise); model and implementation must agree on all of them"""
    kf = C.known_findings()
    pid = res.pid
    res.cov["corpus"] = []
    for status in ("open", "fixed"):
        for e in kf.get(status, []):
            if pid not in e["properties"]:
                continue
            path = os.path.join(C.VERIF, e["witness"])
            stream, mode = C.witness_kind(path)
            wd = os.path.join(res.workdir, "corpus-" + e["id"])
            ok, log, okd, logd, _ = C.run_stream_cached(stream, mode, res.seed, res.tier, wd, extra=["-replay", path])
            if not (ok and okd):
                res.corr_breaks.append(("corpus:" + e["id"], -1, "witness replay failed", (log or logd)[-800:], ""))
                continue
            ops = C.op_lines(os.path.join(wd, "ops.txt"))
            impl = [l for l in C.read_lines(os.path.join(wd, "impl.txt")) if l != ""]
            model = [l for l in C.read_lines(os.path.join(wd, "model.txt")) if l != ""]
            d = first_diff(impl, model)
            if d is not None:
                rp = write_replay(res, "corpus-" + e["id"], ops, impl, model, min(d, len(ops) - 1), "model and implementation differ on a corpus witness")
                res.corr_breaks.append(("corpus:" + e["id"], d, ops[d] if d < len(ops) else "<eof>", impl[d] if d < len(impl) else "<eof>", model[d] if d < len(model) else "<eof>", rp))
            if mode == "hist":
                want = spec["judge"][1] if spec["judge"][0] == "hist" and spec["judge"][1] else {pid}
                strict, _ = judge_hist.judge(ops, impl, want | {pid}, ignore_envelope=True)
                viol = [v for v in strict if v["prop"] in (want | {pid})]
            else:
                viol = [dict(line=v["line"], msg=v["msg"]) for v in judge_pool.judge(ops, impl, {pid})]
            res.cov["evaluations"] += 1
            res.cov["corpus"].append(dict(id=e["id"], status=status, fails=bool(viol)))
            if status == "open":
                if viol:
                    res.known.append(f"{e['id']}: {e['what_fails']} [witness {e['witness']}: {viol[0]['msg'][:160]}]")
                else:
                    res.stale.append(e["id"])
            else:
                for v in viol[:2]:
                    rp = write_replay(res, "corpus-" + e["id"], ops, impl, model, v["line"], v["msg"])
                    res.violations.append(dict(msg=f"repaired finding {e['id']} is back: {v['msg']}", replay=rp))


def run_scenarios(res, spec):
    """directed histories (corpus/scenarios/*.txt): implementation, model and judge, with the usual envelope"""
    if spec["judge"][0] != "hist":
        return
    d = os.path.join(C.VERIF, "corpus", "scenarios")
    if not os.path.isdir(d):
        return
    want = spec["judge"][1] or {res.pid}
    for fn in sorted(os.listdir(d)):
        if not fn.endswith(".txt"):
            continue
        path = os.path.join(d, fn)
        wd = os.path.join(res.workdir, "scenario-" + fn[:-4])
        ok, log, okd, logd, _ = C.run_stream_cached("hist", "hist", res.seed, res.tier, wd, extra=["-replay", path])
        if not (ok and okd):
            res.corr_breaks.append(("scenario:" + fn, -1, "scenario replay failed", (log or logd)[-800:], ""))
            continue
        ops = C.op_lines(os.path.join(wd, "ops.txt"))
        impl = [l for l in C.read_lines(os.path.join(wd, "impl.txt")) if l != ""]
        model = [l for l in C.read_lines(os.path.join(wd, "model.txt")) if l != ""]
        nh = sum(1 for o in ops if o.startswith("hist "))
        res.cov["evaluations"] += nh
        res.cov["distinct_nontrivial"] += nh
        res.cov["streams"]["scenarios:" + fn] = dict(histories=nh, lines=len(ops))
        dd = first_diff(impl, model)
        if dd is not None:
            rp = write_replay(res, "scenario-" + fn[:-4], ops, impl, model, min(dd, len(ops) - 1), "model and implementation differ on a directed scenario")
            res.corr_breaks.append(("scenario:" + fn, dd, ops[dd] if dd < len(ops) else "<eof>", impl[dd] if dd < len(impl) else "<eof>", model[dd] if dd < len(model) else "<eof>", rp))
        else:
            res.cov["traces_validated_against_impl"] += nh
        viol, _ = judge_hist.judge(ops, impl, want)
        for v in [x for x in viol if x["prop"] in want][:3]:
            rp = write_replay(res, "scenario-" + fn[:-4], ops, impl, model, v["line"], v["msg"])
            res.violations.append(dict(msg=v["msg"], replay=rp))


def correspond(res, spec):
    if getattr(res, "build_failed", False):
        return
    run_corpus(res, spec)
    run_scenarios(res, spec)
    if spec["judge"][0] in ("facts", "conc"):
        facts_and_conc(res, spec)
        return
    if spec.get("engine") == "hist":
        # model validity (see prepare): exhibit the offending call path when the lock discipline is broken
        ft = factmod.load()
        if ft is not None:
            for b in factmod.offending_paths(ft)[:3]:
                d = os.path.join(C.WORK, "replays")
                os.makedirs(d, exist_ok=True)
                rp = os.path.join(d, f"{res.pid}-lockpath-{len(res.violations)}.txt")
                with open(rp, "w") as fh:
                    fh.write(f"# property {res.pid}: the one-item-at-a-time model no longer describes this code - allocator state is reached outside the mutex,\n"
                             f"# so another worker or handler can run between the steps of one item (interleavings the property quantifies over)\n")
                    fh.write(f"kind: {b['kind']}\npath: {' -> '.join(b['path'])}\n")
                    if b.get("pos"):
                        fh.write(f"at: {b['pos']}\n")
                    for w in b.get("why", []):
                        fh.write(f"why: {w}\n")
                res.violations.append(dict(msg=f"work items are no longer atomic ({b['kind']}): {' -> '.join(b['path'])}", replay=rp))
    for (stream, mode, proj) in spec["streams"]:
        wd = os.path.join(res.workdir, stream)
        t = time.time()
        ok, log, okd, logd, ckey = C.run_stream_cached(stream, mode, res.seed, res.tier, wd)
        if not ok:
            res.corr_breaks.append((stream, -1, "harness run failed", log[-1500:], ""))
            continue
        ok, log = okd, logd
        ops = C.op_lines(os.path.join(wd, "ops.txt"))
        impl = [l for l in C.read_lines(os.path.join(wd, "impl.txt")) if l != ""]
        model = [l for l in C.read_lines(os.path.join(wd, "model.txt")) if l != ""]
        stats = json.load(open(os.path.join(wd, "stats.json")))
        res.cov["streams"][stream] = dict(lines=len(ops), cases=stats.get("cases", 0), stats=stats.get("stats", {}),
                                          extra=stats.get("extra", {}), wall_s=round(time.time() - t, 1))
        res.cov["evaluations"] += stats.get("cases", 0)
        res.cov["distinct_nontrivial"] += stats.get("distinct_nontrivial", 0)
        res.cov["samples"] += stats.get("samples", [])[:4]
        if not ok:
            res.corr_breaks.append((stream, -1, "model driver failed", log[-1500:], ""))
            continue
        pi, pm = [proj(x) for x in impl], [proj(x) for x in model]
        if mode == "hist":
            # histories that contain a range string outside the modelled input domain (marked X@ by the harness) are judged, not compared
            skip, excluded = False, 0
            for k, o in enumerate(ops):
                if o.startswith("hist "):
                    skip = False
                if " X@" in o and not skip:
                    skip = True
                    excluded += 1
                if skip and k < len(pi) and k < len(pm):
                    pm[k] = pi[k]
            res.cov["streams"][stream]["histories_outside_modelled_inputs"] = excluded
        d = first_diff(pi, pm)
        if d is None:
            res.cov["traces_validated_against_impl"] += stats.get("cases", 0)
        else:
            rp = write_replay(res, stream, ops, impl, model, min(d, len(ops) - 1), "model and implementation observations differ")
            res.corr_breaks.append((stream, d, ops[d] if d < len(ops) else "<eof>", pi[d] if d < len(pi) else "<eof>",
                                    pm[d] if d < len(pm) else "<eof>", rp))
        # endpoint marker lines etc. are part of impl; judge on the implementation alone
        kind, want = spec["judge"]
        if kind == "hist":
            import pickle
            import hashlib
            jh = hashlib.sha256(open(judge_hist.__file__, "rb").read()).hexdigest()[:12]
            jc = os.path.join(wd, f"judge-{jh}.pickle")
            if os.path.exists(jc):
                allv, allo = pickle.load(open(jc, "rb"))
            else:
                # inside the fragment of the Lean history theorems nothing is excused: no envelope.  For `fragboot` membership
                # in the fragment is decided per history by the executable test `Restart.frag3B` (proved sound in Lean)
                strict = None
                if stream == "fragboot":
                    strict, inside, total = fragment_membership(wd, ops)
                    res.cov["streams"][stream]["fragment_membership"] = dict(
                        decided_by="driver frag3 = Restart.frag3B (sound for Restart.Frag3: frag3_of_B)", histories=total, inside=inside)
                if stream == "frag":
                    strict, inside, total = fragment_membership(wd, ops, "frag1")
                    res.cov["streams"][stream]["fragment_membership"] = dict(
                        decided_by="driver frag1 = one start-up inside Restart.Frag3, then Restart.fragB (sound for Safety.Frag: frag_of_B)", histories=total, inside=inside)
                allv, allo = judge_hist.judge(ops, impl, judge_hist.ALL, ignore_envelope=(stream in ("frag", "fragboot")), strict_lines=strict)
                try:
                    pickle.dump((allv, allo), open(jc, "wb"))
                except OSError:
                    pass
            viol = [v for v in allv if v["prop"] in want]
            outside = {p: c for p, c in allo.items() if p in want}
            res.cov["streams"][stream]["outside_envelope"] = {p: c for p, c in outside.items() if p in want}
            for v in viol[:5]:
                rp = write_replay(res, stream, ops, impl, model, v["line"], v["msg"])
                res.violations.append(dict(msg=v["msg"], replay=rp))
        if kind == "valid":
            for v in judge_valid.judge(ops, impl)[:5]:
                rp = write_replay(res, stream, ops, impl, model, v["line"], v["msg"])
                res.violations.append(dict(msg=v["msg"], replay=rp))
        if kind == "pool":
            viol = judge_pool.judge(ops, impl, want)
            for v in viol[:5]:
                rp = write_replay(res, stream, ops, impl, model, v["line"], v["msg"])
                res.violations.append(dict(msg=v["msg"], replay=rp))
            if stream == "pool" and "C19" in want:
                # the pool's own lock discipline (regenerated table): exhibit the offending path when the kernel rejects it
                ft = factmod.load()
                if ft and ft.get("poolFns"):
                    res.cov["streams"]["factgen-pool"] = dict(functions=len(ft["poolFns"]), mutable_fields=ft.get("poolMutableFields"))
                    for b in factmod.offending_paths(dict(fns=[dict(x, calls=x.get("calls") or []) for x in ft["poolFns"]]))[:3]:
                        rp = os.path.join(C.WORK, "replays", f"C19-poolpath-{len(res.violations)}.txt")
                        os.makedirs(os.path.dirname(rp), exist_ok=True)
                        with open(rp, "w") as fh:
                            fh.write("# property C19: the series are computed from pool state read or written outside the pool's lock\n"
                                     f"kind: {b['kind']}\npath: {' -> '.join(b['path'])}\nat: {b.get('pos', '')}\n" + "".join(f"why: {w}\n" for w in b.get("why", [])))
                        res.violations.append(dict(msg=f"pool state outside the pool lock: {b['kind']}: {' -> '.join(b['path'])}", replay=rp))
                ex = stats.get("extra", {})
                if ex.get("metrics_endpoint_missing_series") or ex.get("metrics_gatherer_agrees") is False:
                    rp = os.path.join(C.WORK, "replays", f"C19-endpoint-{res.seed}.txt")
                    os.makedirs(os.path.dirname(rp), exist_ok=True)
                    open(rp, "w").write(f"# GET /metrics (promhttp.Handler()) after the pool stream\nmissing series: {ex.get('metrics_endpoint_missing_series')}\n"
                                        f"gatherer agrees with vectors: {ex.get('metrics_gatherer_agrees')}\n")
                    res.violations.append(dict(msg="metrics endpoint does not serve the pool series truthfully", replay=rp))

    if (res.tier == "quick" and not res.violations and (res.corr_breaks or not res.proof_ok)
            and spec["judge"][0] == "hist" and os.environ.get("VERIF_NO_ESCALATE") != "1"):
        escalate(res, spec)


def fragment_membership(wd, ops, mode="frag3"):
    """histories of a stream that lie inside Restart.Frag3, as decided by the model driver (`driver frag3`):
    returns (set of the line numbers of their `hist` lines, number inside, number of histories)"""
    import subprocess
    with open(os.path.join(wd, "ops.txt")) as fi:
        r = subprocess.run([C.DRIVER, mode], stdin=fi, stdout=subprocess.PIPE, stderr=subprocess.PIPE, text=True, timeout=1500)
    marks = [l for l in r.stdout.split("\n") if l != ""]
    strict, total, cur, ok = set(), 0, None, True
    if r.returncode != 0 or len(marks) != len(ops):
        return set(), 0, sum(1 for o in ops if o.startswith("hist "))
    for k, (o, m) in enumerate(zip(ops, marks)):
        if o.startswith("hist "):
            if cur is not None and ok:
                strict.add(cur)
            cur, ok = k, True
            total += 1
        elif m == "out":
            ok = False
    if cur is not None and ok:
        strict.add(cur)
    return strict, len(strict), total


def escalate(res, spec):
    """a proof obligation or the correspondence broke and the quick streams showed no failing input: widen the search
    for one before giving up - the thorough-size streams of this property (and the restart / fragment streams), a few
    seeds, judged on the implementation alone; stops at the first violation.  Only ever runs on a tree that already fails."""
    want = spec["judge"][1] or {res.pid}
    seen, streams = set(), []
    for (stream, mode, _p) in list(spec["streams"]) + [("restart", "hist", None), ("fragboot", "hist", None), ("hist", "hist", None)]:
        if mode == "hist" and stream not in seen:
            seen.add(stream)
            streams.append(stream)
    budget = time.time() + float(os.environ.get("VERIF_ESCALATE_S", "900"))
    res.cov["escalated_search"] = []
    for seed in (res.seed, res.seed + 100):
        for stream in streams:
            if time.time() > budget:
                return
            wd = os.path.join(res.workdir, f"escalate-{stream}-{seed}")
            ok, log = C.run_stream(stream, seed, "thorough", wd)
            if not ok:
                continue
            ops = C.op_lines(os.path.join(wd, "ops.txt"))
            impl = [l for l in C.read_lines(os.path.join(wd, "impl.txt")) if l != ""]
            strict = fragment_membership(wd, ops)[0] if stream == "fragboot" else (fragment_membership(wd, ops, "frag1")[0] if stream == "frag" else None)
            allv, _ = judge_hist.judge(ops, impl, want | {res.pid}, ignore_envelope=(stream in ("frag", "fragboot")), strict_lines=strict)
            viol = [v for v in allv if v["prop"] in (want | {res.pid})]
            res.cov["escalated_search"].append(dict(stream=stream, seed=seed, lines=len(ops), violations=len(viol)))
            for v in viol[:3]:
                rp = write_replay(res, f"escalate-{stream}", ops, impl, impl, v["line"], v["msg"])
                res.violations.append(dict(msg=v["msg"], replay=rp))
            if viol:
                return


def replay(res, spec, path):
    """re-run one replay file (ops with comments) through implementation, model and judge"""
    if getattr(res, "build_failed", False):
        return
    (stream, mode, proj) = spec["streams"][0]
    wd = os.path.join(res.workdir, "replay")
    ok, log = C.run_stream(stream, res.seed, res.tier, wd, extra=["-replay", path])
    if not ok:
        res.corr_breaks.append((stream, -1, "harness replay failed", log[-1500:], ""))
        return
    C.run_driver(mode, wd)
    ops = C.op_lines(os.path.join(wd, "ops.txt"))
    impl = [l for l in C.read_lines(os.path.join(wd, "impl.txt")) if l != ""]
    model = [l for l in C.read_lines(os.path.join(wd, "model.txt")) if l != ""]
    res.cov["evaluations"] += 1
    d = first_diff([proj(x) for x in impl], [proj(x) for x in model])
    if d is not None:
        rp = write_replay(res, stream, ops, impl, model, min(d, len(ops) - 1), "model and implementation observations differ")
        res.corr_breaks.append((stream, d, ops[d], impl[d] if d < len(impl) else "", model[d] if d < len(model) else "", rp))
    kind, want = spec["judge"]
    if kind == "pool":
        for v in judge_pool.judge(ops, impl, want)[:5]:
            res.violations.append(dict(msg=v["msg"], replay=write_replay(res, stream, ops, impl, model, v["line"], v["msg"])))
    if kind == "hist":
        viol, outside = judge_hist.judge(ops, impl, want)
        for v in viol[:5]:
            res.violations.append(dict(msg=v["msg"], replay=write_replay(res, stream, ops, impl, model, v["line"], v["msg"])))


def finish(res, spec, wall):
    pid = res.pid
    code = 0
    lines = []
    kf = C.known_findings()
    for k in res.known:
        lines.append(f"KNOWN-FINDING: property={pid} {k}")
    for k in res.stale:
        lines.append(f"note: open finding {k} no longer reproduces on this tree (stale entry in known-findings.json)")
    if res.violations:
        code = 1
        v = res.violations[0]
        lines.append(f"VIOLATION property={pid} replay={v['replay']} {v['msg']}")
    elif not res.proof_ok or res.corr_breaks:
        code = 1
        d = os.path.join(C.WORK, "replays")
        os.makedirs(d, exist_ok=True)
        rp = os.path.join(d, f"{pid}-unproved-{res.seed}.txt")
        with open(rp, "w") as f:
            f.write(f"# property {pid}: no longer shown to hold; no concrete failing input found by the judge\n")
            for n in res.proof_notes:
                f.write("proof obligation broken: " + n + "\n")
            for b in res.corr_breaks:
                f.write(f"correspondence broken: stream={b[0]} line={b[1]} op={b[2]}\n  impl : {b[3]}\n  model: {b[4]}\n")
                if len(b) > 5:
                    f.write(f"  case replay: {b[5]}\n")
        what = "proof" if not res.proof_ok else "correspondence"
        lines.append(f"VIOLATION property={pid} replay={rp} {what} no longer checks: "
                     f"{(res.proof_notes + [str(b[:3]) for b in res.corr_breaks])[0][:300]} no-failing-input-found")
    trusted = [f"Lean 4 kernel; axioms used by the theorems of {spec['mod']}: {', '.join(res.axioms) if res.axioms else 'none'}",
               "hand-written Lean model tied to the code by the differential correspondence check (sampling) — harness, canonical CIDR tokens via Go's net package, Python judge are trusted glue",
               "Go libraries modelled, not verified: net / k8s.io/utils/net parsing and masking, Prometheus client arithmetic, sync.Mutex"]
    ev = dict(property_id=pid, tier=res.tier, seed=res.seed, level="proof", wall_s=round(wall, 1),
              violations=len(res.violations) + (1 if (code == 1 and not res.violations) else 0),
              assumptions=res.assumptions + ["the Lean theorems are about the model; the tie to the Go code is the correspondence run reported under coverage.streams"],
              coverage=dict(obligations=res.obligations, discharged=res.discharged,
                            checker_cmd="cd /verif/lean && lake build && lake env lean <#print axioms of every theorem of " + spec["mod"] + ">",
                            trusted_base=trusted, theorems=res.theorems, obligations_per_module=getattr(res, "obl_per_module", {}),
                            proof_ok=res.proof_ok, proof_notes=res.proof_notes,
                            evaluations=res.cov["evaluations"], distinct_nontrivial=res.cov["distinct_nontrivial"],
                            rule=spec.get("rule", ""), samples=res.cov["samples"][:8] or ["<none>"],
                            traces_validated_against_impl=res.cov["traces_validated_against_impl"],
                            correspondence_breaks=[list(b[:5]) for b in res.corr_breaks][:5],
                            judged_violations=[v["msg"] for v in res.violations][:5],
                            known_findings_seen=res.known, streams=res.cov["streams"]))
    C.write_evidence(pid, ev)
    for l in lines:
        print(l)
    if code == 0:
        print(f"OK property={pid} tier={res.tier} seed={res.seed} obligations={res.obligations} "
              f"cases={res.cov['evaluations']} wall={wall:.1f}s")
    return code
