"""Judges for the history properties, evaluated on the IMPLEMENTATION's trace (ops.txt + impl.txt).
They are the search for a concrete failing input when a proof or the correspondence breaks, and run on
every pass as well.  A violation is reported only for histories inside the property's envelope
(DESIGN §3.5); violations in histories that leave the envelope are attributed to the envelope clause
(= known finding) and counted."""
import re

FIN = "networking.x-k8s.io/cluster-cidr-finalizer"
ALL = {"C01", "C02", "C03", "C04", "C05", "C06", "C07", "C08", "C09", "C10", "C11", "C12", "C20"}
DEFAULT_KEY = "kubernetes.io/clusterCIDR in (default)"
SENTINEL_LABEL = "kubernetes.io/clusterCIDR"


# ------------------------------------------------------------------ parsing

def ptok(t):
    fam, rest = t.split(":", 1)
    a, l = rest.split("/")
    fam = int(fam)
    return (fam, int(a, 16), int(l))


def iv(c):
    fam, a, l = c
    w = 32 if fam == 4 else 128
    return (fam, a, a + (1 << (w - l)))


def overlap(c1, c2):
    f1, lo1, hi1 = iv(c1)
    f2, lo2, hi2 = iv(c2)
    return f1 == f2 and lo1 < hi2 and lo2 < hi1


def inside(c, r):
    f1, lo1, hi1 = iv(c)
    f2, lo2, hi2 = iv(r)
    return f1 == f2 and lo2 <= lo1 and hi1 <= hi2


def bracket(s, name):
    """content of name=[...] (first occurrence)"""
    i = s.find(name + "=[")
    if i < 0:
        return None
    j = i + len(name) + 2
    depth = 1
    k = j
    while k < len(s) and depth:
        if s[k] == "[":
            depth += 1
        elif s[k] == "]":
            depth -= 1
        k += 1
    return s[j:k - 1]


def parse_nodes(s):
    out = {}
    if not s:
        return out
    for item in s.split(";"):
        m = re.match(r"^(.*?)\{(.*?)\}\[(.*?)\](D?)$", item)
        if not m:
            continue
        labels = {}
        if m.group(2):
            for kv in m.group(2).split(","):
                k, _, v = kv.partition("=")
                labels[k] = v
        cidrs = [c for c in m.group(3).split("+") if c]
        out[m.group(1)] = dict(labels=labels, cidrs=cidrs, deleting=m.group(4) == "D")
    return out


def parse_ccs(s):
    out = {}
    if not s:
        return out
    for item in s.split(";"):
        p = item.split(":")
        if len(p) < 5:
            continue
        out[p[0]] = dict(fins=[f for f in p[1].split("+") if f], deleting=p[2] == "1", gen=int(p[3]), rv=p[4])
    return out


def parse_pool(s):
    if s == "-":
        return None
    label, count, cursor, used = s.rsplit("@", 3)
    u = [x for x in used.split(",") if x]
    return dict(label=label, count=int(count), cursor=int(cursor), used=u)


def parse_snap(s):
    out = []
    s = s[len("snap "):] if s.startswith("snap ") else s
    s = s.strip()
    if not s:
        return out
    for e in s.split(";;"):
        p = e.split("|")
        if len(p) != 6:
            out.append(dict(bad=e))
            continue
        out.append(dict(key=p[0], name=p[1], term=p[2] == "1", assoc=[a for a in p[3].split(",") if a],
                        v4=parse_pool(p[4]), v6=parse_pool(p[5])))
    return out


def parse_obs(line):
    if not line.startswith("ev "):
        return None
    parts = line.split(" ## ")
    head = parts[0]
    o = dict(raw=line)
    m = re.search(r"res=(\S+)", head)
    o["res"] = m.group(1) if m else "?"
    o["patches"] = []
    pb = bracket(head, "patches")
    if pb:
        for p in pb.split(";"):
            n, cs, out = p.rsplit(":", 2) if p.count(":") >= 2 else (p, "", "?")
            # node:c1+c2:outcome, cidr tokens contain ':' -> split from the ends
            first = p.index(":")
            last = p.rindex(":")
            o["patches"].append(dict(node=p[:first], cidrs=[c for c in p[first + 1:last].split("+") if c], outcome=p[last + 1:]))
    o["ccw"] = []
    cb = bracket(head, "ccw")
    if cb:
        for p in cb.split(";"):
            q = p.split(":")
            dirty = q[-1] == "DIRTY"
            if dirty:
                q = q[:-1]
            o["ccw"].append(dict(name=q[0], fins=[f for f in q[1].split("+") if f], outcome=q[2], dirty=dirty))
    eb = bracket(head, "events")
    o["events"] = [e for e in (eb or "").split(",") if e]
    mb = bracket(head, "mut")
    o["mut"] = [e for e in (mb or "").split(",") if e]
    o["nq"] = [e for e in (bracket(head, "nq") or "").split(",") if e]
    o["cq"] = [e for e in (bracket(head, "cq") or "").split(",") if e]
    o["unexpected"] = "unexpected=" in head
    o["snap"] = parse_snap(parts[1]) if len(parts) > 1 else []
    if len(parts) > 2:
        o["api_nodes"] = parse_nodes(bracket(parts[2], "nodes"))
        o["api_ccs"] = parse_ccs(bracket(parts[2], "ccs"))
    else:
        o["api_nodes"], o["api_ccs"] = {}, {}
    if len(parts) > 3:
        o["view_nodes"] = parse_nodes(bracket(parts[3], "nodes"))
        o["view_ccs"] = parse_ccs(bracket(parts[3], "ccs"))
    else:
        o["view_nodes"], o["view_ccs"] = {}, {}
    return o


# ------------------------------------------------------------------ selectors (independent re-implementation)

def go_parse_int(s):
    m = re.match(r"^[+-]?[0-9]+$", s)
    if not m:
        return None
    v = int(s)
    if v < -(1 << 63) or v >= (1 << 63):
        return None
    return v


def req_sat(req, labels):
    k, op, vals = req
    has = k in labels
    if op == "In":
        return has and labels[k] in vals
    if op == "NotIn":
        return (not has) or labels[k] not in vals
    if op == "Exists":
        return has
    if op == "DoesNotExist":
        return not has
    if op in ("Gt", "Lt"):
        if not has:
            return False
        lv = go_parse_int(labels[k])
        if lv is None or len(vals) != 1:
            return False
        rv = go_parse_int(vals[0])
        if rv is None:
            return False
        return lv > rv if op == "Gt" else lv < rv
    return False


def dec_sel(s):
    """-> None (no selector) | list of reqs (flattened terms) | 'invalid'"""
    if s == "-":
        return None
    if s == "[]":
        return []
    reqs = []
    for t in s.split("|"):
        e, f = t.split("~")
        for part in (e, f):
            if part == "_":
                continue
            for r in part.split(";"):
                p = r.split(",")
                key, op, kok, vok = ("" if p[0] == "_" else p[0]), p[1], p[2] == "1", p[3] == "1"
                vals = [("" if v == "_" else v) for v in p[4:]]
                ok = kok and vok and op in ("In", "NotIn", "Exists", "DoesNotExist", "Gt", "Lt")
                if op in ("In", "NotIn") and len(vals) == 0: ok = False
                if op in ("Exists", "DoesNotExist") and len(vals) != 0: ok = False
                if op in ("Gt", "Lt") and (len(vals) != 1 or any(go_parse_int(v) is None for v in vals)): ok = False
                if not ok:
                    return "invalid"
                reqs.append((key, op, vals))
    return reqs


class Spec:
    def __init__(self, f):
        # ccAdd name hb f4 f6 sel
        self.name = f[1]
        self.raw = f[2:]
        self.hb = int(f[2])
        self.v4 = self.fld(f[3])
        self.v6 = self.fld(f[4])
        self.sel_raw = f[5]
        self.sel = dec_sel(f[5])

    @staticmethod
    def fld(s):
        if s in ("_", "M") or s.startswith("M@"):
            return None if s == "_" else "M"
        if s.startswith("X@"):
            # parses in Go, but not canonical text: re-parse leniently
            import ipaddress
            try:
                n = ipaddress.ip_network(s[2:], strict=False)
            except ValueError:
                return "M"
            if n.version == 6 and n.network_address.ipv4_mapped is not None:
                return "M"   # IPv4-mapped IPv6: a usable network for neither field
            return (n.version, int(n.network_address), n.prefixlen)
        t = s.split("@")[0]
        return ptok(t)

    def ranges(self):
        return [r for r in (self.v4, self.v6) if r not in (None, "M")]

    def usable(self):
        if self.sel == "invalid":
            return False
        if self.v4 == "M" or self.v6 == "M" or (self.v4 is None and self.v6 is None):
            return False
        if self.v4 is not None and self.v4[0] != 4: return False
        if self.v6 is not None and self.v6[0] != 6: return False
        for r in self.ranges():
            w = 32 if r[0] == 4 else 128
            n = w - self.hb
            if self.hb < 0 or n < r[2]: return False
            if r[0] == 6 and n - r[2] > 16: return False
        return True

    def nblocks(self, r):
        w = 32 if r[0] == 4 else 128
        return 1 << (w - self.hb - r[2])

    def block(self, r, i):
        w = 32 if r[0] == 4 else 128
        n = w - self.hb
        return (r[0], r[1] + i * (1 << (w - n)), n)

    def eligible(self, labels):
        if self.sel is None:
            return True, 0
        if self.sel == "invalid":
            return False, 0
        cnt = sum(1 for r in self.sel if req_sat(r, labels))
        return cnt == len(self.sel), cnt


def used_blocks(entry, spec):
    """list of CIDR tuples used in an entry (both families)"""
    out = []
    if not spec.usable():
        return out   # the controller mapped something it should have rejected: no geometry to speak of
    for fam, pool, r in ((4, entry.get("v4"), spec.v4), (6, entry.get("v6"), spec.v6)):
        if pool and r not in (None, "M"):
            for u in pool["used"]:
                if u.lstrip("-").isdigit():
                    out.append(spec.block(r, int(u)))
    return out


# ------------------------------------------------------------------ the judges

class Hist:
    """one history: ops + parsed observations"""
    def __init__(self, start, ops, obs):
        self.start, self.ops, self.obs = start, ops, obs


def split_histories(ops, impl):
    hs, cur = [], None
    for i, (o, b) in enumerate(zip(ops, impl)):
        if o.startswith("hist "):
            cur = Hist(i, [], [])
            hs.append(cur)
            continue
        if cur is None:
            continue
        cur.ops.append(o)
        cur.obs.append(parse_obs(b) if (b.startswith("ev ") and b != "ev res=hang") else dict(raw=b, res=b, special=True))
    return hs


def judge_history(h, want, ignore_envelope=False):
    """returns (violations, outside) ; violations: list of dict(prop, idx, msg); outside: dict prop -> list of clauses hit"""
    V, OUT = [], {}
    specs = {}            # name -> Spec (API objects created)
    svcs = []
    boot_mapped = set()   # names mapped at the last boot
    prev = None           # previous parsed obs
    booted = False
    boots = 0
    p12_latent = False
    p11_latent = False
    holders_shown = {}    # name -> set of cidr toks shown to / written by this incarnation
    known = {}            # name -> pod CIDRs of nodes that exist or whose deletion has not been delivered yet
    listed_at_boot = None
    incarn, viewinc, finals = {}, {}, {}   # node incarnations: current in the API, the one the cache refers to, final CIDRs of past ones
    drained_at = None
    # envelope bookkeeping (history-level clauses; once hit, they stay hit)
    clauses = set()
    label_edited = set()
    del_processed = {}    # cc name -> True once the controller processed its deletion request (entry terminating or removed)
    fin_removed = set()   # cc names whose finalizer we removed (per incarnation)

    def bad(prop, i, msg, env_clauses=()):
        if prop not in want:
            return
        hit = [] if ignore_envelope else [c for c in env_clauses if c in clauses]
        if hit:
            OUT.setdefault(prop, []).append(hit[0])
        else:
            V.append(dict(prop=prop, idx=i, msg=msg))

    for i, (op, ob) in enumerate(zip(h.ops, h.obs)):
        f = op.split(" ")
        kind = f[0]
        if ob.get("special"):
            if ob["raw"] == "ev res=hang":
                bad("C12", i, f"work item / handler did not return within the watchdog: {op}")
            if kind == "mark" and f[1] == "drained":
                drained_at = i
                judge_drained(h, i, prev, specs, bad, clauses)
            continue
        api_nodes, api_ccs = ob["api_nodes"], ob["api_ccs"]
        before = prev if prev is not None else dict(snap=[], api_nodes={}, api_ccs={}, view_nodes={}, view_ccs={}, nq=[], cq=[])
        snap_b, snap_a = before["snap"], ob["snap"]

        # ---------------- environment events: envelope bookkeeping
        if kind == "ccAdd" and f[1] not in before["api_ccs"] and f[1] in api_ccs:
            sp = Spec(f)
            if f[1] in specs and " ".join(specs[f[1]].raw) != " ".join(f[2:]) and any(e.get("name") == f[1] for e in snap_b):
                # the name is created again with another spec while pools of its previous life are still mapped (P15)
                clauses.add("P15-deleted-before-finalizer")
            specs[f[1]] = sp
            del_processed.pop(f[1], None)
            fin_removed.discard(f[1])
            # a new object under an old name: not one of the ClusterCIDRs known when the controller started (C09)
            boot_mapped.discard(f[1])
            # P9: created while an existing node holds a CIDR inside it
            for n, nd in api_nodes.items():
                for c in nd["cidrs"]:
                    if not c.startswith("?") and any(overlap(ptok(c), r) for r in sp.ranges()):
                        clauses.add("P9-cc-created-over-holder")
            # P11 / P12: ranges overlapping another ClusterCIDR ever created
            for on, osp in specs.items():
                if on == sp.name:
                    continue
                for r in sp.ranges():
                    for r2 in osp.ranges():
                        if overlap(r, r2):
                            # P11 needs a holder recorded in two of the overlapping ClusterCIDRs (re-sync, restart): activated below
                            p11_latent = True
                            if osp.hb != sp.hb:
                                # P12 needs a restart over holders: start-up records a holder in the ClusterCIDR ranking first
                                # for it, possibly as a coarser block than the one it was given (activated at `boot`)
                                p12_latent = True
            if sp.sel_raw != "-" and sp.sel not in (None, "invalid") and any(k == SENTINEL_LABEL for (k, _, _) in sp.sel):
                clauses.add("P14-sentinel")
        if kind in ("nodeAdd", "nodeLabels"):
            lbls = f[2]
            if SENTINEL_LABEL in lbls:
                clauses.add("P14-sentinel")
        if kind == "nodeLabels" and f[1] in before["api_nodes"] and before["api_nodes"][f[1]]["cidrs"]:
            clauses.add("P8-label-edit-after-assignment")
        if kind == "nodeLabels":
            # a label edit can also make a node match a different ClusterCIDR on re-sync
            clauses.add("label-edit")
            clauses.add("label-edit@" + f[1])
        if kind in ("nodeAdd", "nodeSetCIDRs") and f[1] in api_nodes:
            mine = [ptok(c) for c in api_nodes[f[1]]["cidrs"] if not c.startswith("?")]
            for n2, nd2 in api_nodes.items():
                if n2 != f[1] and any(overlap(ptok(c2), m) for c2 in nd2["cidrs"] if not c2.startswith("?") for m in mine):
                    clauses.add("preexisting-overlap")
        if kind == "nodeAdd" and f[1] not in before["api_nodes"] and f[1] in before["view_nodes"]:
            # deleted and re-created under the same name before the deletion was delivered: the informer will report
            # an update, the delete handler never runs for the old object
            clauses.add("P21-recreated-before-delete-delivered")
        if kind == "nodeAdd" and booted and f[3] != "-" and f[1] not in before["api_nodes"]:
            clauses.add("P18-node-created-with-cidrs")
            clauses.add("P18-node-created-with-cidrs@" + f[1])
        if kind == "nodeSetCIDRs" and booted:
            clauses.add("P18-node-created-with-cidrs")
            clauses.add("P18-node-created-with-cidrs@" + f[1])
        if kind == "deliverNode" and f[2] == "1" and f[1] not in api_nodes:
            clauses.add("P19-tombstone")
            clauses.add("P19-tombstone@" + f[1])
        if kind == "ccDel" and f[1] in before["api_ccs"] and FIN not in before["api_ccs"][f[1]]["fins"]:
            # deleted while our finalizer is not (yet) on it: nothing holds the object back
            clauses.add("P15-deleted-before-finalizer")
        if kind == "ccAddFin":
            clauses.add("P15-foreign-finalizer")
        if kind == "ccGen":
            clauses.add("generation-bumped")
        for p in ob["patches"]:
            if p["outcome"] == "lost":
                clauses.add("P13-lost-node-write")
                clauses.add("P13-lost-node-write@" + p["node"])
        # dual-stack node CIDRs that an entry can take only in part (P17b) — any node whose cidrs are not all inside one ClusterCIDR's ranges
        if kind in ("nodeAdd", "nodeSetCIDRs"):
            cs = f[3] if kind == "nodeAdd" else f[2]
            if cs != "-" and "," in cs:
                clauses.add("P17b-multi-cidr-preset")

        # recording and release of pod CIDRs are routed by the node's labels: a node holding a CIDR inside a
        # ClusterCIDR that does not select it is never recorded there (root cause of P8/P10)
        if kind in ("nodeAdd", "nodeSetCIDRs", "nodeLabels", "ccAdd", "boot"):
            for n, nd in api_nodes.items():
                for c in nd["cidrs"]:
                    if c.startswith("?"):
                        continue
                    cc = ptok(c)
                    for sp in specs.values():
                        if any(overlap(cc, r) for r in sp.ranges()) and not sp.eligible(nd["labels"])[0]:
                            clauses.add("P10-holder-not-selected")
                        # a pod CIDR that strictly contains a whole ClusterCIDR range is recorded, at start-up, in that
                        # ClusterCIDR only (Occupy succeeds with "all blocks"): the rest of it is unrecorded (P23)
                        if any(r[0] == cc[0] and inside(r, cc) and r != cc for r in sp.ranges()):
                            clauses.add("P23-cidr-contains-range")
                    if any(overlap(cc, sv) for sv in svcs) or (kind == "boot" and any(overlap(cc, ptok(t)) for t in f[1:3] if t != "-")):
                        clauses.add("node-inside-service-range")

        # a node name associated with two entries at once (re-sync recorded it a second time): releases are routed to
        # whichever comes first, the other association outlives the node (root cause shared with P11)
        cnt = {}
        for e in snap_a:
            for a_ in e.get("assoc", []):
                cnt[a_] = cnt.get(a_, 0) + 1
        if any(v > 1 for v in cnt.values()):
            clauses.add("P22-double-association")
            if p11_latent:
                clauses.add("P11-overlapping-clustercidrs")

        # ---------------- crash / hang / unexpected API calls (C12)
        if ob["res"] == "panic":
            bad("C12", i, f"panic while handling: {op}")
        if ob.get("unexpected"):
            bad("C12", i, f"unexpected API call during: {op} :: {ob['raw'][:200]}")

        # ---------------- C20
        if ob["mut"]:
            bad("C20", i, f"cached object(s) {ob['mut']} differ from what the API server last sent, after: {op}")

        # ---------------- queue disposition (C11, C05)
        if ob["res"] == "dropped":
            bad("C11", i, f"work item neither re-queued nor forgotten: {op}")
        if kind == "procNode" and ob["res"] == "err" and f[1] not in ob["nq"]:
            bad("C11", i, f"failed node item {f[1]} was not queued again")
        if kind == "procCC" and ob["res"] == "err" and f[1] not in ob["cq"]:
            bad("C11", i, f"failed ClusterCIDR item {f[1]} was not queued again")

        # ---------------- boot
        if kind == "boot":
            if p12_latent and any(nd["cidrs"] for nd in api_nodes.values()):
                clauses.add("P12-overlap-different-block-size")
            boots += 1
            booted = True
            svcs = [ptok(t) for t in f[1:3] if t != "-"]
            # "any ClusterCIDR known when the controller starts": the objects the start-up listing returned
            boot_mapped = set(e["name"] for e in snap_a if "name" in e) | set(api_ccs.keys())
            holders_shown = {n: set(nd["cidrs"]) for n, nd in api_nodes.items() if nd["cidrs"]}
            listed_at_boot = {n: set(nd["cidrs"]) for n, nd in api_nodes.items() if nd["cidrs"]}
            del_processed = {}
            fin_removed = set()
            # C03/C04: after a restart only listed holders and service ranges justify used blocks
            known = {n: set(nd["cidrs"]) for n, nd in api_nodes.items()}
            check_justified(i, op, ob, specs, svcs, bad, clauses, "C03", known, restart=True)

        # ---------------- shown holders (view updates)
        if kind in ("deliverNode",) or (kind == "procNode" and len(f) > 2 and f[2] == "1"):
            n = f[1]
            if n in ob["view_nodes"] and ob["view_nodes"][n]["cidrs"]:
                holders_shown.setdefault(n, set()).update(ob["view_nodes"][n]["cidrs"])

        # ---------------- patches: C01, C02, C08, C09
        if ob["patches"]:
            check_patches(i, op, f, ob, before, specs, svcs, boot_mapped, holders_shown, bad, clauses, del_processed, fin_removed, boots, listed_at_boot)
        for p in ob["patches"]:
            if p["outcome"] in ("ok", "lost"):
                holders_shown.setdefault(p["node"], set()).update(p["cidrs"])

        # ---------------- C05 / C07 (decision of one node item)
        if kind == "procNode" and booted and ob["res"] not in ("none", "panic"):
            check_decision(i, op, f, ob, before, specs, bad, clauses)

        # ---------------- C08: processing a node that already has pod CIDRs
        if kind == "procNode" and f[1] in before["view_nodes"] and before["view_nodes"][f[1]]["cidrs"] and not before["view_nodes"][f[1]]["deleting"] and ob["res"] != "none":
            check_resync(i, op, f, ob, before, specs, bad)

        # C08, cache catching up mid-item: the item started on a cached node without pod CIDRs, the second read shows them
        if kind == "procNode" and len(f) > 2 and f[2] == "1" and ob["res"] not in ("none", "panic"):
            vb, ab = before["view_nodes"].get(f[1]), before["api_nodes"].get(f[1])
            if vb is not None and not vb["cidrs"] and not vb["deleting"] and ab is not None and ab["cidrs"] and not any(c.startswith("?") for c in ab["cidrs"]):
                own = [ptok(c) for c in ab["cidrs"]]
                ub = set(all_used(before["snap"], specs))
                ua = set(all_used(ob["snap"], specs))
                for (n, b) in ua - ub:
                    if not any(overlap(b, c) for c in own):
                        bad("C08", i, f"node {f[1]} turned out to have pod CIDRs {ab['cidrs']} when re-read, yet block {fmt(b)} of {n} stays reserved after its item")

        # ---------------- C06
        if kind == "procCC":
            check_cc_item(i, op, f, ob, before, specs, bad, clauses, del_processed, fin_removed)
        for w in ob["ccw"]:
            if w["dirty"]:
                bad("C06", i, f"Update of ClusterCIDR {w['name']} changes more than the controller's own finalizer")

        # ---------------- C10: one entry per name; none for objects whose deletion completed
        names = [e.get("name") for e in snap_a if "name" in e]
        for nme in set(names):
            if names.count(nme) > 1:
                bad("C10", i, f"ClusterCIDR {nme} is mapped {names.count(nme)} times after: {op}")
            if nme not in api_ccs and nme not in ob["view_ccs"]:
                # gone from the API and the controller has been told
                bad("C10", i, f"ClusterCIDR {nme} still contributes a pool although it no longer exists", ("P15-deleted-before-finalizer", "P15-foreign-finalizer"))

        # C10: processing a ClusterCIDR that is already mapped (retry after a failed finalizer write, duplicate or stale
        # notification) leaves its entry exactly as it was - used blocks, associations and flag included
        if kind == "procCC" and ob["res"] not in ("none", "panic"):
            vo = before["view_ccs"].get(f[1])
            if vo is not None and not vo["deleting"]:
                eb = [e for e in snap_b if e.get("name") == f[1]]
                ea = [e for e in snap_a if e.get("name") == f[1]]
                if len(eb) == 1 and len(ea) == 1 and eb[0] != ea[0]:
                    def _d(e):
                        return "assoc=%s v4=%s v6=%s term=%s" % (",".join(e["assoc"]), (e["v4"] or {}).get("used"), (e["v6"] or {}).get("used"), e["term"])
                    bad("C10", i, f"processing ClusterCIDR {f[1]} again changed its pools: {_d(eb[0])} -> {_d(ea[0])}")

        # C10: a ClusterCIDR that exists, whose deletion was not requested and which was mapped, does not lose its pool
        if kind == "procCC" and ob["res"] not in ("none", "panic"):
            vo = before["view_ccs"].get(f[1])
            names_a = set(e.get("name") for e in snap_a if "name" in e)
            for e in snap_b:
                nme = e.get("name")
                if nme is None or nme in names_a:
                    continue
                ao = api_ccs.get(nme)
                if ao is not None and not ao["deleting"] and (nme != f[1] or (vo is not None and not vo["deleting"])):
                    bad("C10", i, f"ClusterCIDR {nme} exists, its deletion was not requested, yet its pool was unmapped while handling {f[1]}")

        # C10 "exactly one": a live ClusterCIDR with a usable spec contributes a pool once its item has been processed
        # without error on the current version of the object - and after start-up, which lists the current versions
        if kind == "procCC" and ob["res"] == "ok":
            vo = before["view_ccs"].get(f[1])
            ao = before["api_ccs"].get(f[1])
            sp = specs.get(f[1])
            if vo is not None and not vo["deleting"] and ao == vo and sp is not None and sp.usable() and f[1] in api_ccs:
                if f[1] not in set(e.get("name") for e in snap_a if "name" in e):
                    bad("C10", i, f"ClusterCIDR {f[1]} exists, is not being deleted and its item was processed without error, yet it contributes no pool")
        if kind == "boot":
            mapped_a = set(e.get("name") for e in snap_a if "name" in e)
            for nme, ao in api_ccs.items():
                sp = specs.get(nme)
                if sp is not None and sp.usable() and nme in before["api_ccs"] and nme not in mapped_a:
                    bad("C10", i, f"ClusterCIDR {nme} was listed at start-up with a usable spec, yet it contributes no pool")

        # C09: right after start-up every block of a listed ClusterCIDR that meets a configured service range is in use
        if kind == "boot":
            for e in snap_a:
                sp = specs.get(e.get("name"))
                if sp is None or not sp.usable() or e.get("name") not in before["api_ccs"]:
                    continue
                usedset = set(used_blocks(e, sp))
                for sv in svcs:
                    for r in sp.ranges():
                        if r[0] != sv[0] or not overlap(r, sv):
                            continue
                        w_ = 32 if r[0] == 4 else 128
                        bsz = 1 << sp.hb
                        r0, r1 = r[1], r[1] + (1 << (w_ - r[2])) - 1
                        s0, s1 = sv[1], sv[1] + (1 << (w_ - sv[2])) - 1
                        lo, hi = max(r0, s0), min(r1, s1)
                        i0, i1 = (lo - r0) // bsz, (hi - r0) // bsz
                        if i1 - i0 > 4096:
                            continue
                        for k in range(i0, i1 + 1):
                            b = sp.block(r, k)
                            if b not in usedset:
                                bad("C09", i, f"after start-up block {fmt(b)} of ClusterCIDR {e.get('name')} meets the service range {fmt(sv)} but is not marked used")
                                break

        # C03 "loses no assignment": inside the fragment of the restart theorem - the node's pod CIDRs are blocks of one
        # listed ClusterCIDR that selects it, not edited, and no other listed ClusterCIDR's range meets them - the new
        # incarnation records every listed holder that is not being deleted
        if kind == "boot":
            used_a = set(all_used(snap_a, specs))
            for n, nd in api_nodes.items():
                if nd["deleting"] or not nd["cidrs"] or any(c.startswith("?") for c in nd["cidrs"]):
                    continue
                cds = [ptok(c) for c in nd["cidrs"]]
                homes = []
                for nme, ao in api_ccs.items():
                    sp = specs.get(nme)
                    if sp is None or not sp.usable() or nme not in before["api_ccs"]:
                        continue
                    if any(overlap(cd, r) for cd in cds for r in sp.ranges()):
                        homes.append((nme, ao, sp))
                if len(homes) != 1:
                    continue
                nme, ao, sp = homes[0]
                if ao["gen"] > 1 or not sp.eligible(nd["labels"])[0]:
                    continue
                w = lambda r: 32 if r[0] == 4 else 128
                if not all(any(r[0] == cd[0] and inside(cd, r) and cd[2] == w(r) - sp.hb for r in sp.ranges()) for cd in cds):
                    continue
                if len(set(cd[0] for cd in cds)) != len(cds):
                    continue
                if any(overlap(cd, sv) for cd in cds for sv in svcs):
                    continue
                for cd in cds:
                    if (nme, cd) not in used_a:
                        bad("C03", i, f"after a restart the pod CIDR {fmt(cd)} of listed node {n} is not recorded in ClusterCIDR {nme} (nor anywhere it could be)")

        # ---------------- C04 at idle points: what still justifies a used block
        if kind == "nodeAdd" and f[1] not in before["api_nodes"] and f[1] in api_nodes:
            incarn[f[1]] = incarn.get(f[1], 0) + 1
        if kind == "nodeDel" and f[1] in before["api_nodes"] and f[1] not in api_nodes:
            finals[(f[1], incarn.get(f[1], 0))] = set(before["api_nodes"][f[1]]["cidrs"])
        if kind == "boot":
            for n in api_nodes:
                incarn.setdefault(n, 1)
            viewinc = {n: incarn.get(n, 0) for n in ob["view_nodes"]}
        if kind == "deliverNode" or (kind == "procNode" and len(f) > 2 and f[2] == "1"):
            if f[1] in ob["view_nodes"]:
                viewinc[f[1]] = incarn.get(f[1], 0)
            else:
                viewinc.pop(f[1], None)
        known = {}
        for n, nd in api_nodes.items():
            known.setdefault(n, set()).update(nd["cidrs"])
        for n, nd in ob["view_nodes"].items():
            known.setdefault(n, set()).update(nd["cidrs"])
            # the cache still refers to an incarnation of the node that is gone: its deletion has not been delivered
            inc = viewinc.get(n)
            if inc is not None and (n not in api_nodes or inc != incarn.get(n, 0)):
                known[n].update(finals.get((n, inc), set()))
        if booted and kind != "boot":
            check_justified(i, op, ob, specs, svcs, bad, clauses, "C04", known)

        prev = ob
    return V, OUT


def entry_spec(e, specs):
    return specs.get(e.get("name"))


def all_used(snap, specs, fam=None):
    out = []
    for e in snap:
        sp = entry_spec(e, specs)
        if not sp:
            continue
        for b in used_blocks(e, sp):
            if fam is None or b[0] == fam:
                out.append((e["name"], b))
    return out


def check_justified(i, op, ob, specs, svcs, bad, clauses, prop, known, restart=False):
    """every used block is touched by a pod CIDR of a node the cluster still has (API) or whose deletion the
    controller has not been told about yet (still in its cache), or by a service range"""
    cidrs = []
    names = set(ob["api_nodes"]) | (set() if restart else set(ob["view_nodes"]))
    for n in names:
        for c in known.get(n, ()):
            if not c.startswith("?"):
                cidrs.append(ptok(c))
    for (ename, b) in all_used(ob["snap"], specs):
        if any(overlap(b, c) for c in cidrs) or any(overlap(b, s) for s in svcs):
            continue
        env = ("P8-label-edit-after-assignment", "P11-overlapping-clustercidrs", "P17b-multi-cidr-preset", "P19-tombstone",
               "P15-deleted-before-finalizer", "P13-lost-node-write", "label-edit", "P10-holder-not-selected", "preexisting-overlap",
               "P21-recreated-before-delete-delivered")
        bad(prop, i, f"block {fmt(b)} of ClusterCIDR {ename} is withheld but no existing node, cached node or service range touches it, after: {op}", env)
        break


def fmt(c):
    return f"{c[0]}:{c[1]:x}/{c[2]}"


def check_patches(i, op, f, ob, before, specs, svcs, boot_mapped, holders_shown, bad, clauses, del_processed, fin_removed, boots=0, listed_at_boot=None):
    kind = f[0]
    for p in ob["patches"]:
        node = p["node"]
        toks = p["cidrs"]
        if any(t.startswith("?") for t in toks):
            bad("C02", i, f"node {node} patched with something that is not a canonical CIDR: {toks}")
            bad("C12", i, f"node {node} patched with something that is not a canonical CIDR: {toks}")
            continue
        cs = [ptok(t) for t in toks]
        # C08: the cache says the node already has pod CIDRs
        vn = ob["view_nodes"].get(node)
        if vn is not None and vn["cidrs"]:
            bad("C08", i, f"node {node} patched although the controller's cache shows it with pod CIDRs {vn['cidrs']}")
        # C02: one well-formed block per family of one eligible, mapped, non-terminating ClusterCIDR
        labels = before["view_nodes"].get(node, {}).get("labels", {})
        cands = []
        for e in before["snap"]:
            sp = entry_spec(e, specs)
            if not sp or e.get("term") or not sp.usable():
                continue
            fams = [r for r in (sp.v4, sp.v6) if r not in (None, "M")]
            if len(fams) != len(cs) or len(set(c[0] for c in cs)) != len(cs):
                continue
            okk = True
            for r, c in zip(fams, cs):
                w = 32 if r[0] == 4 else 128
                if c[0] != r[0] or c[2] != w - sp.hb or not inside(c, r):
                    okk = False
            if okk and sp.eligible(labels)[0]:
                cands.append(e["name"])
        if not cands:
            bad("C02", i, f"assignment {toks} to node {node} (labels {labels}) is not one block per family of any eligible mapped ClusterCIDR", ("P14-sentinel", "P15-deleted-before-finalizer"))
            bad("C12", i, f"assignment {toks} to node {node} is not a proper block of a usable ClusterCIDR", ("P14-sentinel", "P15-deleted-before-finalizer"))
        # C06(b,c): nothing allocated from a ClusterCIDR whose deletion has been processed
        gained = [e["name"] for e in ob["snap"] if node in e.get("assoc", []) and not any(b.get("name") == e["name"] and node in b.get("assoc", []) for b in before["snap"])]
        for g in gained:
            if del_processed.get(g):
                bad("C06", i, f"node {node} was assigned from ClusterCIDR {g} after its deletion request had been processed", ("P15-foreign-finalizer",))
                bad("C02", i, f"node {node} was assigned from ClusterCIDR {g} although the controller had already processed a deletion request for it", ("P15-foreign-finalizer",))
        # C01: overlap with another holder
        if p["outcome"] in ("ok", "lost"):
            for other, nd in ob["api_nodes"].items():
                if other == node or nd["deleting"]:
                    continue
                shown = holders_shown.get(other, set())
                for t in nd["cidrs"]:
                    if t in shown and not t.startswith("?") and any(overlap(ptok(t), c) for c in cs):
                        bad("C01", i, f"node {node} assigned {toks}, overlapping {t} held by existing node {other}",
                            ("P9-cc-created-over-holder", "P12-overlap-different-block-size", "P13-lost-node-write", "P18-node-created-with-cidrs",
                             "label-edit", "P17b-multi-cidr-preset", "P15-deleted-before-finalizer", "generation-bumped", "P10-holder-not-selected", "preexisting-overlap",
                             "P22-double-association", "P23-cidr-contains-range"))
                        if boots >= 2 and listed_at_boot is not None and t in listed_at_boot.get(other, ()):
                          bad("C03", i, f"after a restart node {node} was assigned {toks}, overlapping {t} held by node {other}, which the restart had listed",
                            ("P9-cc-created-over-holder", "P12-overlap-different-block-size", "P13-lost-node-write", "P18-node-created-with-cidrs",
                             "label-edit", "P17b-multi-cidr-preset", "P15-deleted-before-finalizer", "generation-bumped", "P10-holder-not-selected", "preexisting-overlap",
                             "P23-cidr-contains-range"))
        # C09: service ranges, for ClusterCIDRs known at start-up
        for c in cs:
            for s in svcs:
                if overlap(c, s) and any(g in boot_mapped for g in (gained or cands)):
                    bad("C09", i, f"node {node} assigned {fmt(c)} which overlaps the service range {fmt(s)}", ("node-inside-service-range",))


def has_room(e, sp, snap, specs):
    """every family of the entry has a block that overlaps no used block of that family anywhere"""
    if not sp.usable():
        return False
    for r in sp.ranges():
        used = [b for (_, b) in all_used(snap, specs, r[0])]
        free = False
        for k in range(sp.nblocks(r)):
            blk = sp.block(r, k)
            if not any(overlap(blk, u) for u in used):
                free = True
                break
        if not free:
            return False
    return True


def check_decision(i, op, f, ob, before, specs, bad, clauses):
    node = f[1]
    vn = before["view_nodes"].get(node)
    if vn is None or vn["cidrs"] or vn["deleting"]:
        return
    labels = vn["labels"]
    elig = []
    for idx, e in enumerate(before["snap"]):
        sp = entry_spec(e, specs)
        if not sp or e.get("term"):
            continue
        okk, cnt = sp.eligible(labels)
        if okk:
            elig.append((e, sp, cnt))
    with_room = [(e, sp, cnt) for (e, sp, cnt) in elig if has_room(e, sp, before["snap"], specs)]
    refused = not ob["patches"] and ob["res"] == "err" and "CIDRNotAvailable" in ob["events"]
    if not ob["patches"]:
        if node not in ob["view_nodes"]:
            return  # the node vanished from the cache in the middle of the item: not a refusal
        if with_room and ob["res"] != "ok":
            bad("C05", i, f"node {node} (labels {labels}) refused although eligible ClusterCIDR {with_room[0][0]['name']} has room in every family", ("P14-sentinel",))
            # C07: the first ClusterCIDR with room in the documented order serves the node — here none did
            bad("C07", i, f"node {node} (labels {labels}) not served although ClusterCIDR {with_room[0][0]['name']} is eligible and has room (no ClusterCIDR of the documented order was used)", ("P14-sentinel",))
        if not with_room:
            if ob["res"] != "err":
                bad("C05", i, f"refusal of node {node} not reported as an error (res={ob['res']})", ("P14-sentinel",))
            elif "CIDRNotAvailable" not in ob["events"]:
                bad("C05", i, f"refusal of node {node} not recorded as CIDRNotAvailable event (events {ob['events']})", ("P14-sentinel",))
        return
    # served: C07 — first in the documented order among those with room
    if not with_room:
        bad("C05", i, f"node {node} was given {ob['patches'][0]['cidrs']} although no eligible ClusterCIDR had room", ("P14-sentinel",))
        return
    fams = set(tuple(sorted(r[0] for r in sp.ranges())) for (_, sp, _) in elig)
    if len(fams) > 1:
        return  # populations with mixed families are outside C07's quantifier
    def keyf(t):
        e, sp, cnt = t
        prim = sp.v4 if sp.v4 not in (None, "M") else sp.v6
        total = min(sp.nblocks(r) for r in sp.ranges())
        pool = e["v4"] if e.get("v4") else e["v6"]
        return (1 if sp.sel is None else 0, -cnt, total, sp.hb, e["key"], pool["label"])
    ordered = sorted(with_room, key=keyf)
    if len(ordered) > 1 and keyf(ordered[0])[1:] == keyf(ordered[1])[1:]:
        return  # full tie: unspecified
    best = ordered[0][0]["name"]
    cs = [ptok(t) for t in ob["patches"][0]["cidrs"] if not t.startswith("?")]
    sp = ordered[0][1]
    fit = len(cs) == len(sp.ranges()) and all(inside(c, r) and c[2] == (32 if r[0] == 4 else 128) - sp.hb for c, r in zip(cs, sp.ranges()))
    gained = [e["name"] for e in ob["snap"] if node in e.get("assoc", []) and not any(b.get("name") == e["name"] and node in b.get("assoc", []) for b in before["snap"])]
    served = gained[0] if gained else None
    if (served is not None and served != best) or (served is None and not fit):
        bad("C07", i, f"node {node} (labels {labels}) served from {served or ob['patches'][0]['cidrs']} but the first ClusterCIDR with room in the documented order is {best}", ("P14-sentinel",))


def check_resync(i, op, f, ob, before, specs, bad):
    node = f[1]
    own = [ptok(c) for c in before["view_nodes"][node]["cidrs"] if not c.startswith("?")]
    if ob["patches"] or ob["ccw"] or ob["events"]:
        bad("C08", i, f"processing node {node}, which has pod CIDRs, wrote to the cluster: patches={ob['patches']} events={ob['events']}")
    ub = set((n, b) for (n, b) in all_used(before["snap"], specs))
    ua = set((n, b) for (n, b) in all_used(ob["snap"], specs))
    for (n, b) in ua - ub:
        if not any(overlap(b, c) for c in own):
            bad("C08", i, f"processing node {node} reserved block {fmt(b)} of {n}, which none of its own pod CIDRs touches")
    for (n, b) in ub - ua:
        bad("C08", i, f"processing node {node}, which has pod CIDRs, released block {fmt(b)} of {n}")
    for e in ob["snap"]:
        for a in e.get("assoc", []):
            if a != node and not any(bb.get("name") == e.get("name") and bb.get("key") == e.get("key") and a in bb.get("assoc", []) for bb in before["snap"]):
                bad("C08", i, f"processing node {node} associated another node {a} with {e.get('name')}")
    # "reserves nothing beyond that node's own CIDRs" also for the capacity accounting: a pool whose set of used blocks
    # is what it was has the counter it had (seeded change C08-r5a: only the counter drifts)
    for e in ob["snap"]:
        for bb in before["snap"]:
            if bb.get("name") == e.get("name") and bb.get("key") == e.get("key"):
                for fam in ("v4", "v6"):
                    pa, pb = e.get(fam), bb.get(fam)
                    if pa and pb and sorted(pa["used"]) == sorted(pb["used"]) and pa["count"] != pb["count"]:
                        bad("C08", i, f"processing node {node}, which has pod CIDRs, moved the allocated counter of {e.get('name')}/{fam} from {pb['count']} to {pa['count']} although its used blocks are the same")
                break


def check_cc_item(i, op, f, ob, before, specs, bad, clauses, del_processed, fin_removed):
    name = f[1]
    vo = before["view_ccs"].get(name)
    if vo is None or ob["res"] == "none":
        return
    if vo["deleting"] and FIN in vo["fins"]:
        del_processed[name] = True
    elif not vo["deleting"]:
        # the cache holds a live object of that name again: a new ClusterCIDR, whose deletion has not been requested
        del_processed.pop(name, None)
    for w in ob["ccw"]:
        if w["name"] == name and FIN not in w["fins"] and vo["deleting"] and w["outcome"] in ("ok", "lost"):
            # finalizer removed: no existing node may depend on this ClusterCIDR
            sp = specs.get(name)
            if sp:
                for n, nd in ob["api_nodes"].items():
                    if nd["deleting"]:
                        # the pod CIDRs of a node under deletion are released as soon as the deletion is seen (and are not
                        # recorded again by a restart): such a node no longer depends on the ClusterCIDR
                        if not any(n in e.get("assoc", []) for e in before["snap"] if e.get("name") == name):
                            continue
                    for t in nd["cidrs"]:
                        if t.startswith("?"):
                            continue
                        c = ptok(t)
                        for e in before["snap"]:
                            if e.get("name") != name:
                                continue
                            if n in e.get("assoc", []):
                                bad("C06", i, f"finalizer of {name} removed while node {n} is still associated with it")
                            elif any(overlap(c, b) for b in used_blocks(e, sp)) and not recorded_elsewhere(c, name, before["snap"], specs):
                                bad("C06", i, f"finalizer of {name} removed while existing node {n} holds {t}, reserved only there",
                                    ("P11-overlapping-clustercidrs", "label-edit@" + n, "P17b-multi-cidr-preset", "P19-tombstone@" + n, "P13-lost-node-write@" + n,
                                     "P10-holder-not-selected", "preexisting-overlap", "P18-node-created-with-cidrs@" + n, "generation-bumped"))
                # the same for a holder the controller has been shown whose pod CIDRs are blocks of this ClusterCIDR and of no
                # other: it depends on it whether or not the controller remembers (a restart must not make it forget)
                w_ = lambda r: 32 if r[0] == 4 else 128
                others = [osp for on, osp in specs.items() if on != name and on in ob["api_ccs"]]
                for n, nd in ob["api_nodes"].items():
                    if nd["deleting"] or not nd["cidrs"] or any(t.startswith("?") for t in nd["cidrs"]):
                        continue
                    vn = before["view_nodes"].get(n)
                    if vn is None or vn["cidrs"] != nd["cidrs"] or not sp.usable() or not sp.eligible(nd["labels"])[0]:
                        continue
                    cds = [ptok(t) for t in nd["cidrs"]]
                    if not all(any(r[0] == c[0] and inside(c, r) and c[2] == w_(r) - sp.hb for r in sp.ranges()) for c in cds):
                        continue
                    if any(overlap(c, r) for c in cds for osp in others for r in osp.ranges()):
                        continue
                    if any(n in e.get("assoc", []) for e in before["snap"] if e.get("name") == name):
                        continue   # reported above
                    bad("C06", i, f"finalizer of {name} removed while existing node {n} holds {nd['cidrs']}, blocks of {name} and of no other ClusterCIDR",
                        ("P11-overlapping-clustercidrs", "label-edit@" + n, "P17b-multi-cidr-preset", "P19-tombstone@" + n, "P13-lost-node-write@" + n,
                         "P10-holder-not-selected", "preexisting-overlap", "P18-node-created-with-cidrs@" + n, "generation-bumped", "P21-recreated-before-delete-delivered",
                         "P9-cc-created-over-holder", "P15-deleted-before-finalizer"))
            fin_removed.add(name)


def recorded_elsewhere(c, name, snap, specs):
    for e in snap:
        if e.get("name") == name:
            continue
        sp = entry_spec(e, specs)
        if sp and any(overlap(c, b) for b in used_blocks(e, sp)):
            return True
    return False


def judge_drained(h, i, last, specs, bad, clauses):
    """C11: after changes stopped and everything was processed with successful writes"""
    if last is None:
        return
    api_nodes, api_ccs, snap = last["api_nodes"], last["api_ccs"], last["snap"]
    for n, nd in api_nodes.items():
        if nd["cidrs"] or nd["deleting"]:
            continue
        for e in snap:
            sp = entry_spec(e, specs)
            if not sp or e.get("term"):
                continue
            if sp.eligible(nd["labels"])[0] and has_room(e, sp, snap, specs):
                bad("C11", i, f"steady state reached but node {n} (labels {nd['labels']}) has no pod CIDRs although ClusterCIDR {e['name']} can serve it", ("P14-sentinel",))
                break
    for name, o in api_ccs.items():
        if o["deleting"] and FIN in o["fins"]:
            sp = specs.get(name)
            dependants = False
            for e in snap:
                if e.get("name") != name or not sp:
                    continue
                for n, nd in api_nodes.items():
                    for t in nd["cidrs"]:
                        if not t.startswith("?") and any(overlap(ptok(t), b) for b in used_blocks(e, sp)):
                            dependants = True
            if not dependants:
                bad("C11", i, f"steady state reached but ClusterCIDR {name}, whose deletion was requested and on which no existing node depends, is still there",
                    ("P8-label-edit-after-assignment", "P11-overlapping-clustercidrs", "P19-tombstone", "P17b-multi-cidr-preset", "label-edit", "P13-lost-node-write",
                     "P21-recreated-before-delete-delivered", "P10-holder-not-selected", "preexisting-overlap", "P15-deleted-before-finalizer"))


def judge(ops, impl, want, ignore_envelope=False, strict_lines=None):
    """strict_lines: optional set of line numbers of the `hist` lines of the histories to be judged without envelope
    (those inside the fragment of the Lean history theorems); overrides ignore_envelope per history"""
    out, outside = [], {}
    for h in split_histories(ops, impl):
        ie = ignore_envelope if strict_lines is None else (h.start in strict_lines)
        V, OUT = judge_history(h, want, ie)
        for v in V:
            out.append(dict(line=h.start + 1 + v["idx"], case_start=h.start, msg=v["msg"], prop=v["prop"]))
        for p, cl in OUT.items():
            for c in cl:
                outside.setdefault(p, {}).setdefault(c, 0)
                outside[p][c] += 1
    return out, outside
