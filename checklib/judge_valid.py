"""C18 judged directly on the implementation's answers: accepted <=> documented; update accepted <=> unchanged."""


def parse_sel(s):
    if s == "-":
        return None
    if s == "[]":
        return []
    terms = []
    for t in s.split("|"):
        e, f = t.split("~")
        def reqs(x):
            if x == "_":
                return []
            out = []
            for r in x.split(";"):
                p = r.split(",")
                out.append((("" if p[0] == "_" else p[0]), p[1], [("" if v == "_" else v) for v in p[2:]]))
            return out
        terms.append((reqs(e), reqs(f)))
    return terms


def documented(v4, v6, hb, sel, p4, p6, okk, okn):
    keys = set() if okk == "_" else set("" if k == "_" else k for k in okk.split(","))
    names = set() if okn == "_" else set("" if k == "_" else k for k in okn.split(","))
    if v4 == "_" and v6 == "_":
        return False
    for (s, p, fam, width) in ((v4, p4, "4", 32), (v6, p6, "6", 128)):
        if s == "_":
            continue
        if p == "M" or not p.startswith(fam + "/"):
            return False
        ln = int(p.split("/")[1])
        if not (4 <= hb <= width - ln):
            return False
    terms = parse_sel(sel)
    if terms is not None:
        if len(terms) < 1:
            return False
        for (es, fs) in terms:
            for (k, op, vals) in es:
                if k not in keys:
                    return False
                if op in ("In", "NotIn"):
                    if len(vals) < 1: return False
                elif op in ("Exists", "DoesNotExist"):
                    if len(vals) != 0: return False
                elif op in ("Gt", "Lt"):
                    if len(vals) != 1: return False
                else:
                    return False
            for (k, op, vals) in fs:
                if op not in ("In", "NotIn") or len(vals) != 1 or k != "metadata.name":
                    return False
                if any(v not in names for v in vals):
                    return False
    return True


def judge(ops, impl):
    viol = []
    for i, (op, ob) in enumerate(zip(ops, impl)):
        f = op.split(" ")
        if f[0] == "vspec":
            exp = documented(f[1], f[2], int(f[3]), f[4], f[5], f[6], f[7], f[8])
            got = ob.strip() == "verr"
            if exp != got:
                viol.append(dict(line=i, msg=f"spec {' '.join(f[1:5])} is {'documented' if exp else 'not as documented'} but validation {'accepts' if got else 'rejects'} it ({ob})"))
        elif f[0] == "vupd":
            same = f[1:5] == f[5:9]
            got = ob.strip() == "uerr"
            if same != got:
                viol.append(dict(line=i, msg=f"update {' '.join(f[1:5])} <- {' '.join(f[5:9])}: specs {'equal' if same else 'differ'} but update validation {'accepts' if got else 'rejects'} ({ob})"))
    return viol
