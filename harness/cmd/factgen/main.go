// factgen is the translator of the verification: it reads the program text of package ipam (and three
// other files) in /repo with go/parser and regenerates, on every run, the finite table of facts the Lean
// theorems of C16 (C15, parts of C03, C11, C19, C20) are about: call graph on the allocator, which
// functions hold / acquire the lock, which touch the shared reservation state, entry points, requeue
// behaviour of the worker loops, metric registration, start-up order, DeepCopy before writes.
// Anything it does not understand becomes an `unknown` fact, which makes the Lean checker false.
package main

import (
	"encoding/json"
	"flag"
	"fmt"
	"go/ast"
	"go/parser"
	"go/token"
	"os"
	"path/filepath"
	"sort"
	"strings"
)

type Fn struct {
	Name      string   `json:"name"`
	HoldsLock bool     `json:"holdsLock"`
	Acquires  bool     `json:"acquires"`
	Touches   bool     `json:"touches"`
	Root      bool     `json:"root"`
	Exempt    bool     `json:"exempt"`
	Unknown   bool     `json:"unknown"`
	Calls     []string `json:"calls"`
	Why       []string `json:"why,omitempty"`
	Pos       string   `json:"pos"`
}

type Facts struct {
	Fns               []*Fn             `json:"fns"`
	WorkerLoops       []WorkerLoop      `json:"workerLoops"`
	MetricsRegistered []string          `json:"metricsRegistered"`
	MetricsEndpoint   bool              `json:"metricsEndpoint"`
	StartupOrder      []string          `json:"startupOrder"`
	ConstructorOrder  []string          `json:"constructorOrder"`
	DeepCopyWrites    []DeepCopyWrite   `json:"deepCopyWrites"`
	PoolFns           []*Fn             `json:"poolFns"`
	PoolMutable       []string          `json:"poolMutableFields"`
	Notes             map[string]string `json:"notes,omitempty"`
}

type WorkerLoop struct {
	Name           string `json:"name"`
	ErrorRequeues  bool   `json:"errorRequeues"`
	SuccessForgets bool   `json:"successForgets"`
	ErrorForgets   bool   `json:"errorForgets"`
}

type DeepCopyWrite struct {
	Fn       string `json:"fn"`
	Writes   int    `json:"writes"`
	FromCopy int    `json:"fromCopy"`
}

const allocType = "multiCIDRRangeAllocator"

var sharedFields = map[string]bool{"cidrMap": true, "AssociatedNodes": true, "Terminating": true, "IPv4CIDRSet": true,
	"IPv6CIDRSet": true, "AllocatedCIDRMap": true}
var poolMethods = map[string]bool{"Occupy": true, "Release": true, "NextCandidate": true, "UpdateEvaluatedCount": true}
var ifaceMethods = map[string]bool{"AllocateOrOccupyCIDR": true, "ReleaseCIDR": true, "Run": true}

type ctx struct {
	fset      *token.FileSet
	methods   map[string]map[string]bool // type -> method names
	funcs     map[string]bool            // package-level function names
	byName    map[string]*Fn
	out       []*Fn
	rootMarks map[string]bool
	closureNo int
}

func recvTypeName(fd *ast.FuncDecl) (typ, recv string) {
	if fd.Recv == nil || len(fd.Recv.List) == 0 {
		return "", ""
	}
	f := fd.Recv.List[0]
	t := f.Type
	if s, ok := t.(*ast.StarExpr); ok {
		t = s.X
	}
	if id, ok := t.(*ast.Ident); ok {
		typ = id.Name
	}
	if len(f.Names) > 0 {
		recv = f.Names[0].Name
	}
	return
}

func fnName(typ, name string) string {
	if typ == "" {
		return name
	}
	return typ + "." + name
}

// isLockCall matches X.lock.Lock() / X.lock.Unlock()
func isLockCall(e ast.Expr, which string) bool {
	c, ok := e.(*ast.CallExpr)
	if !ok {
		return false
	}
	s, ok := c.Fun.(*ast.SelectorExpr)
	if !ok || s.Sel.Name != which {
		return false
	}
	s2, ok := s.X.(*ast.SelectorExpr)
	return ok && s2.Sel.Name == "lock"
}

func (c *ctx) analyse(name string, recv string, body *ast.BlockStmt, pos token.Pos) *Fn {
	fn := &Fn{Name: name, Pos: c.fset.Position(pos).String()}
	c.byName[name] = fn
	c.out = append(c.out, fn)
	if body == nil {
		return fn
	}
	stmts := body.List
	prologue := map[ast.Node]bool{}
	if len(stmts) >= 2 {
		if es, ok := stmts[0].(*ast.ExprStmt); ok && isLockCall(es.X, "Lock") {
			if ds, ok := stmts[1].(*ast.DeferStmt); ok && isLockCall(ds.Call, "Unlock") {
				fn.HoldsLock = true
				fn.Acquires = true
				prologue[es.X] = true
				prologue[ds.Call] = true
			}
		}
	}
	calls := map[string]bool{}
	var walk func(n ast.Node) bool
	walk = func(n ast.Node) bool {
		switch x := n.(type) {
		case *ast.FuncLit:
			// a closure that is not called on the spot is code of its own: an entry point
			c.closureNo++
			cn := fmt.Sprintf("%s$closure%d", name, c.closureNo)
			cf := c.analyse(cn, recv, x.Body, x.Pos())
			cf.Root = true
			cf.Why = append(cf.Why, "closure")
			return false
		case *ast.GoStmt:
			// `go wait.UntilWithContext(ctx, r.method, …)` and `go func(){…}()` are understood
			if fl, ok := x.Call.Fun.(*ast.FuncLit); ok {
				c.closureNo++
				cn := fmt.Sprintf("%s$go%d", name, c.closureNo)
				cf := c.analyse(cn, recv, fl.Body, fl.Pos())
				cf.Root = true
				return false
			}
			ok := false
			for _, a := range x.Call.Args {
				if s, isSel := a.(*ast.SelectorExpr); isSel {
					if id, isID := s.X.(*ast.Ident); isID && id.Name == recv && c.methods[allocType][s.Sel.Name] {
						c.rootMarks[fnName(allocType, s.Sel.Name)] = true
						ok = true
					}
				}
			}
			if !ok {
				fn.Unknown = true
				fn.Why = append(fn.Why, "go statement not understood at "+c.fset.Position(x.Pos()).String())
			}
			return false
		case *ast.CallExpr:
			if isLockCall(x, "Lock") || isLockCall(x, "Unlock") {
				if !prologue[x] {
					fn.Acquires = fn.Acquires || isLockCall(x, "Lock")
					fn.Unknown = true
					fn.Why = append(fn.Why, "lock operation outside the Lock/defer Unlock prologue at "+c.fset.Position(x.Pos()).String())
				}
				return true
			}
			// immediately invoked literal: part of this body
			if fl, ok := x.Fun.(*ast.FuncLit); ok {
				ast.Inspect(fl.Body, walk)
				for _, a := range x.Args {
					ast.Inspect(a, walk)
				}
				return false
			}
			switch f := x.Fun.(type) {
			case *ast.Ident:
				if c.funcs[f.Name] {
					calls[f.Name] = true
				}
			case *ast.SelectorExpr:
				if id, ok := f.X.(*ast.Ident); ok && id.Name == recv && recv != "" {
					for typ, ms := range c.methods {
						if ms[f.Sel.Name] && strings.HasPrefix(name, typ+".") || (typ == allocType && ms[f.Sel.Name] && c.recvIsAlloc(name)) {
							calls[fnName(typ, f.Sel.Name)] = true
						}
					}
				} else {
					if id, ok := f.X.(*ast.Ident); ok && (id.Name == "heap") {
						for m := range c.methods["PriorityQueue"] {
							calls[fnName("PriorityQueue", m)] = true
						}
					}
					if poolMethods[f.Sel.Name] {
						// a pool method on something that is not the allocator itself
						fn.Touches = true
					}
					// methods of other package types, resolved by name (over-approximation)
					for typ, ms := range c.methods {
						if typ != allocType && ms[f.Sel.Name] {
							calls[fnName(typ, f.Sel.Name)] = true
						}
					}
				}
			}
		case *ast.SelectorExpr:
			if sharedFields[x.Sel.Name] {
				fn.Touches = true
			}
			if x.Sel.Name == "lock" {
				// the lock handed around as a value (anything but .Lock()/.Unlock() handled above)
			}
		}
		return true
	}
	// method values of the allocator used as values (not called): they escape, hence entry points
	ast.Inspect(body, func(n ast.Node) bool {
		if ce, ok := n.(*ast.CallExpr); ok {
			for _, a := range ce.Args {
				if s, ok := a.(*ast.SelectorExpr); ok {
					if id, ok := s.X.(*ast.Ident); ok && id.Name == recv && recv != "" && c.methods[allocType][s.Sel.Name] && c.recvIsAlloc(name) {
						c.rootMarks[fnName(allocType, s.Sel.Name)] = true
					}
				}
			}
		}
		return true
	})
	ast.Inspect(body, walk)
	// `x.lock` used other than for Lock/Unlock calls
	ast.Inspect(body, func(n ast.Node) bool {
		if as, ok := n.(*ast.AssignStmt); ok {
			for _, r := range as.Rhs {
				if s, ok := r.(*ast.SelectorExpr); ok && s.Sel.Name == "lock" {
					fn.Unknown = true
					fn.Why = append(fn.Why, "lock copied at "+c.fset.Position(as.Pos()).String())
				}
			}
		}
		return true
	})
	for k := range calls {
		fn.Calls = append(fn.Calls, k)
	}
	sort.Strings(fn.Calls)
	return fn
}

func (c *ctx) recvIsAlloc(name string) bool {
	return strings.HasPrefix(name, allocType+".") || strings.HasPrefix(name, "NewMultiCIDRRangeAllocator")
}

func parseDir(fset *token.FileSet, dir string) []*ast.File {
	ents, err := os.ReadDir(dir)
	if err != nil {
		fail(err)
	}
	var files []*ast.File
	for _, e := range ents {
		n := e.Name()
		if !strings.HasSuffix(n, ".go") || strings.HasSuffix(n, "_test.go") || strings.HasPrefix(n, "verif_") {
			continue
		}
		f, err := parser.ParseFile(fset, filepath.Join(dir, n), nil, parser.ParseComments)
		if err != nil {
			fail(err)
		}
		files = append(files, f)
	}
	return files
}

func fail(err error) {
	fmt.Fprintln(os.Stderr, "factgen:", err)
	os.Exit(1)
}

func main() {
	repo := flag.String("repo", "/repo", "repository root")
	out := flag.String("out", "", "Facts.lean to write")
	jout := flag.String("json", "", "facts.json to write")
	flag.Parse()
	fset := token.NewFileSet()
	files := parseDir(fset, filepath.Join(*repo, "pkg/controller/ipam"))
	c := &ctx{fset: fset, methods: map[string]map[string]bool{}, funcs: map[string]bool{}, byName: map[string]*Fn{}, rootMarks: map[string]bool{}}
	for _, f := range files {
		for _, d := range f.Decls {
			if fd, ok := d.(*ast.FuncDecl); ok {
				typ, _ := recvTypeName(fd)
				if typ == "" {
					c.funcs[fd.Name.Name] = true
				} else {
					if c.methods[typ] == nil {
						c.methods[typ] = map[string]bool{}
					}
					c.methods[typ][fd.Name.Name] = true
				}
			}
		}
	}
	facts := &Facts{Notes: map[string]string{}}
	var ctor *ast.FuncDecl
	for _, f := range files {
		for _, d := range f.Decls {
			fd, ok := d.(*ast.FuncDecl)
			if !ok {
				continue
			}
			typ, recv := recvTypeName(fd)
			name := fnName(typ, fd.Name.Name)
			if typ == "" {
				recv = ""
			}
			// inside the constructor the allocator is the local variable `ra`
			if fd.Name.Name == "NewMultiCIDRRangeAllocator" {
				ctor = fd
				recv = "ra"
			}
			fn := c.analyse(name, recv, fd.Body, fd.Pos())
			if typ == allocType && ifaceMethods[fd.Name.Name] {
				fn.Root = true
				fn.Why = append(fn.Why, "public interface")
			}
			if fd.Name.Name == "NewMultiCIDRRangeAllocator" {
				fn.Exempt = true
				// calls made through `ra.` in the constructor
				ast.Inspect(fd.Body, func(n ast.Node) bool {
					if fl, ok := n.(*ast.FuncLit); ok {
						_ = fl
						return false
					}
					if ce, ok := n.(*ast.CallExpr); ok {
						if s, ok := ce.Fun.(*ast.SelectorExpr); ok {
							if id, ok := s.X.(*ast.Ident); ok && id.Name == "ra" && c.methods[allocType][s.Sel.Name] {
								fn.Calls = append(fn.Calls, fnName(allocType, s.Sel.Name))
							}
						}
					}
					return true
				})
			}
		}
	}
	// closures of the constructor use `ra.` for the allocator: resolve their calls
	for _, fn := range c.out {
		_ = fn
	}
	for n := range c.rootMarks {
		if f, ok := c.byName[n]; ok {
			f.Root = true
			f.Why = append(f.Why, "method value escapes (worker loop / callback)")
		}
	}
	for _, fn := range c.out {
		sort.Strings(fn.Calls)
		fn.Calls = uniq(fn.Calls)
	}
	sort.Slice(c.out, func(i, j int) bool { return c.out[i].Name < c.out[j].Name })
	facts.Fns = c.out

	// worker loops: error branch of the sync call re-queues, success branch forgets
	for _, f := range files {
		for _, d := range f.Decls {
			fd, ok := d.(*ast.FuncDecl)
			if !ok || (fd.Name.Name != "processNextCIDRWorkItem" && fd.Name.Name != "processNextNodeWorkItem") {
				continue
			}
			wl := WorkerLoop{Name: fd.Name.Name}
			ast.Inspect(fd.Body, func(n ast.Node) bool {
				ifs, ok := n.(*ast.IfStmt)
				if !ok || ifs.Init == nil {
					return true
				}
				as, ok := ifs.Init.(*ast.AssignStmt)
				if !ok || len(as.Rhs) != 1 {
					return true
				}
				ce, ok := as.Rhs[0].(*ast.CallExpr)
				if !ok {
					return true
				}
				s, ok := ce.Fun.(*ast.SelectorExpr)
				if !ok || (s.Sel.Name != "syncClusterCIDR" && s.Sel.Name != "syncNode") {
					return true
				}
				// `if err := r.syncX(...); err != nil { … }` — the assigned name must be the one tested
				be, ok := ifs.Cond.(*ast.BinaryExpr)
				if !ok || be.Op != token.NEQ {
					return true
				}
				lhs, _ := as.Lhs[0].(*ast.Ident)
				cx, _ := be.X.(*ast.Ident)
				if lhs == nil || cx == nil || lhs.Name != cx.Name {
					return true
				}
				// the re-queue must be a statement of the error branch itself: one nested in a further condition
				// (a retry budget, an error class) is not "always queued again"
				for _, st := range ifs.Body.List {
					if es, ok := st.(*ast.ExprStmt); ok {
						if c2, ok := es.X.(*ast.CallExpr); ok {
							if s2, ok := c2.Fun.(*ast.SelectorExpr); ok && s2.Sel.Name == "AddRateLimited" {
								wl.ErrorRequeues = true
							}
						}
					}
				}
				ast.Inspect(ifs.Body, func(m ast.Node) bool {
					if c2, ok := m.(*ast.CallExpr); ok {
						if s2, ok := c2.Fun.(*ast.SelectorExpr); ok {
							if s2.Sel.Name == "Forget" {
								wl.ErrorForgets = true
							}
						}
					}
					return true
				})
				return true
			})
			// Forget after the sync (anywhere in the function outside the error branch of the sync and the type-assertion guard)
			forgets := 0
			ast.Inspect(fd.Body, func(m ast.Node) bool {
				if c2, ok := m.(*ast.CallExpr); ok {
					if s2, ok := c2.Fun.(*ast.SelectorExpr); ok && s2.Sel.Name == "Forget" {
						forgets++
					}
				}
				return true
			})
			wl.SuccessForgets = forgets >= 2 && !wl.ErrorForgets
			facts.WorkerLoops = append(facts.WorkerLoops, wl)
		}
	}
	sort.Slice(facts.WorkerLoops, func(i, j int) bool { return facts.WorkerLoops[i].Name < facts.WorkerLoops[j].Name })

	// constructor order
	if ctor != nil {
		for _, st := range ctor.Body.List {
			ast.Inspect(st, func(n ast.Node) bool {
				if _, ok := n.(*ast.FuncLit); ok {
					return false
				}
				ce, ok := n.(*ast.CallExpr)
				if !ok {
					return true
				}
				switch f := ce.Fun.(type) {
				case *ast.Ident:
					if f.Name == "listClusterCIDRs" {
						facts.ConstructorOrder = append(facts.ConstructorOrder, "listClusterCIDRs")
					}
				case *ast.SelectorExpr:
					switch f.Sel.Name {
					case "reconcileBootstrap", "filterOutServiceRange", "occupyCIDRs":
						facts.ConstructorOrder = append(facts.ConstructorOrder, f.Sel.Name)
					case "AddEventHandler":
						who := "?"
						if inner, ok := f.X.(*ast.CallExpr); ok {
							if is, ok := inner.Fun.(*ast.SelectorExpr); ok {
								if id, ok := is.X.(*ast.Ident); ok {
									who = id.Name
								}
							}
						}
						facts.ConstructorOrder = append(facts.ConstructorOrder, "AddEventHandler:"+who)
					}
				}
				return true
			})
		}
	}

	// main.go: runControllers order
	mainFile, err := parser.ParseFile(fset, filepath.Join(*repo, "main.go"), nil, 0)
	if err != nil {
		fail(err)
	}
	for _, d := range mainFile.Decls {
		fd, ok := d.(*ast.FuncDecl)
		if !ok || fd.Name.Name != "runControllers" {
			continue
		}
		ast.Inspect(fd.Body, func(n ast.Node) bool {
			ce, ok := n.(*ast.CallExpr)
			if !ok {
				return true
			}
			if s, ok := ce.Fun.(*ast.SelectorExpr); ok {
				switch s.Sel.Name {
				case "List":
					if strings.Contains(exprString(s.X), "Nodes") {
						facts.StartupOrder = append(facts.StartupOrder, "Nodes.List")
					}
				case "NewMultiCIDRRangeAllocator":
					facts.StartupOrder = append(facts.StartupOrder, "NewMultiCIDRRangeAllocator")
				case "Start":
					facts.StartupOrder = append(facts.StartupOrder, "Start")
				case "Run":
					facts.StartupOrder = append(facts.StartupOrder, "Run")
				}
			}
			return true
		})
	}

	// metrics registration and endpoint
	mf, err := parser.ParseFile(fset, filepath.Join(*repo, "pkg/controller/ipam/multicidrset/metrics.go"), nil, 0)
	if err != nil {
		fail(err)
	}
	varNames := map[string]string{} // var -> metric Name literal
	for _, d := range mf.Decls {
		gd, ok := d.(*ast.GenDecl)
		if !ok {
			continue
		}
		for _, sp := range gd.Specs {
			vs, ok := sp.(*ast.ValueSpec)
			if !ok || len(vs.Names) != 1 || len(vs.Values) != 1 {
				continue
			}
			ast.Inspect(vs.Values[0], func(n ast.Node) bool {
				if kv, ok := n.(*ast.KeyValueExpr); ok {
					if k, ok := kv.Key.(*ast.Ident); ok && k.Name == "Name" {
						if bl, ok := kv.Value.(*ast.BasicLit); ok {
							varNames[vs.Names[0].Name] = strings.Trim(bl.Value, "\"")
						}
					}
				}
				return true
			})
		}
	}
	ast.Inspect(mf, func(n ast.Node) bool {
		if ce, ok := n.(*ast.CallExpr); ok {
			if s, ok := ce.Fun.(*ast.SelectorExpr); ok && s.Sel.Name == "MustRegister" && len(ce.Args) == 1 {
				if id, ok := ce.Args[0].(*ast.Ident); ok {
					facts.MetricsRegistered = append(facts.MetricsRegistered, varNames[id.Name])
				}
			}
		}
		return true
	})
	sort.Strings(facts.MetricsRegistered)
	sf, err := parser.ParseFile(fset, filepath.Join(*repo, "pkg/util/server/server.go"), nil, 0)
	if err != nil {
		fail(err)
	}
	ast.Inspect(sf, func(n ast.Node) bool {
		if ce, ok := n.(*ast.CallExpr); ok {
			if s, ok := ce.Fun.(*ast.SelectorExpr); ok && s.Sel.Name == "Handle" && len(ce.Args) == 2 {
				if bl, ok := ce.Args[0].(*ast.BasicLit); ok && bl.Value == "\"/metrics\"" && exprString(ce.Args[1]) == "promhttp.Handler()" {
					facts.MetricsEndpoint = true
				}
			}
		}
		return true
	})

	// DeepCopy before Update/Create in the ClusterCIDR write paths
	for _, f := range files {
		for _, d := range f.Decls {
			fd, ok := d.(*ast.FuncDecl)
			if !ok || (fd.Name.Name != "createClusterCIDR" && fd.Name.Name != "reconcileDelete") {
				continue
			}
			copies := map[string]bool{}
			dw := DeepCopyWrite{Fn: fd.Name.Name}
			ast.Inspect(fd.Body, func(n ast.Node) bool {
				if as, ok := n.(*ast.AssignStmt); ok && len(as.Lhs) == 1 && len(as.Rhs) == 1 {
					if ce, ok := as.Rhs[0].(*ast.CallExpr); ok {
						if s, ok := ce.Fun.(*ast.SelectorExpr); ok && s.Sel.Name == "DeepCopy" {
							if id, ok := as.Lhs[0].(*ast.Ident); ok {
								copies[id.Name] = true
							}
						}
					}
				}
				if ce, ok := n.(*ast.CallExpr); ok {
					if s, ok := ce.Fun.(*ast.SelectorExpr); ok && (s.Sel.Name == "Update" || s.Sel.Name == "Create") && strings.Contains(exprString(s.X), "networkClient") && len(ce.Args) >= 2 {
						dw.Writes++
						if id, ok := ce.Args[1].(*ast.Ident); ok && copies[id.Name] {
							dw.FromCopy++
						}
					}
				}
				return true
			})
			facts.DeepCopyWrites = append(facts.DeepCopyWrites, dw)
		}
	}
	sort.Slice(facts.DeepCopyWrites, func(i, j int) bool { return facts.DeepCopyWrites[i].Fn < facts.DeepCopyWrites[j].Fn })

	poolFacts(fset, filepath.Join(*repo, "pkg/controller/ipam/multicidrset"), facts)

	if *jout != "" {
		b, _ := json.MarshalIndent(facts, "", " ")
		_ = os.MkdirAll(filepath.Dir(*jout), 0o755)
		if err := os.WriteFile(*jout, b, 0o644); err != nil {
			fail(err)
		}
	}
	if *out != "" {
		if err := os.WriteFile(*out, []byte(lean(facts)), 0o644); err != nil {
			fail(err)
		}
	}
}

const poolType = "MultiCIDRSet"

// isRecvLock matches recv.Lock() / recv.Unlock() / RLock / RUnlock on the embedded mutex of the pool
func isRecvLock(e ast.Expr, recv string, which ...string) bool {
	c, ok := e.(*ast.CallExpr)
	if !ok {
		return false
	}
	s, ok := c.Fun.(*ast.SelectorExpr)
	if !ok {
		return false
	}
	id, ok := s.X.(*ast.Ident)
	if !ok || id.Name != recv {
		return false
	}
	for _, w := range which {
		if s.Sel.Name == w {
			return true
		}
	}
	return false
}

// poolFacts: the lock discipline of MultiCIDRSet's own mutex.  A field is mutable when some method assigns,
// increments, deletes from or indexes-and-assigns it.  Every method is split in the part before its
// `s.Lock(); defer s.Unlock()` pair (an entry of its own, not holding the lock) and the part after it
// (`<name>$locked`, holding it); any other lock operation is an `unknown` fact.
func poolFacts(fset *token.FileSet, dir string, facts *Facts) {
	files := parseDir(fset, dir)
	mutable := map[string]bool{}
	methods := map[string]bool{}
	type md struct {
		fd   *ast.FuncDecl
		recv string
	}
	var ms []md
	for _, f := range files {
		for _, d := range f.Decls {
			fd, ok := d.(*ast.FuncDecl)
			if !ok || fd.Body == nil {
				continue
			}
			typ, recv := recvTypeName(fd)
			if typ != poolType {
				continue
			}
			methods[fd.Name.Name] = true
			ms = append(ms, md{fd, recv})
			fieldOf := func(e ast.Expr) string {
				for {
					switch x := e.(type) {
					case *ast.IndexExpr:
						e = x.X
						continue
					case *ast.ParenExpr:
						e = x.X
						continue
					case *ast.StarExpr:
						e = x.X
						continue
					case *ast.SelectorExpr:
						if id, ok := x.X.(*ast.Ident); ok && id.Name == recv {
							return x.Sel.Name
						}
						return ""
					}
					return ""
				}
			}
			ast.Inspect(fd.Body, func(n ast.Node) bool {
				switch x := n.(type) {
				case *ast.AssignStmt:
					for _, l := range x.Lhs {
						if fn := fieldOf(l); fn != "" {
							mutable[fn] = true
						}
					}
				case *ast.IncDecStmt:
					if fn := fieldOf(x.X); fn != "" {
						mutable[fn] = true
					}
				case *ast.CallExpr:
					if id, ok := x.Fun.(*ast.Ident); ok && id.Name == "delete" && len(x.Args) > 0 {
						if fn := fieldOf(x.Args[0]); fn != "" {
							mutable[fn] = true
						}
					}
				case *ast.UnaryExpr:
					if x.Op == token.AND {
						if fn := fieldOf(x.X); fn != "" {
							mutable[fn] = true // address taken: may be written through the pointer
						}
					}
				}
				return true
			})
		}
	}
	for k := range mutable {
		facts.PoolMutable = append(facts.PoolMutable, k)
	}
	sort.Strings(facts.PoolMutable)
	for _, m := range ms {
		fd, recv := m.fd, m.recv
		name := poolType + "." + fd.Name.Name
		pre := &Fn{Name: name, Root: ast.IsExported(fd.Name.Name), Pos: fset.Position(fd.Pos()).String()}
		post := &Fn{Name: name + "$locked", HoldsLock: true, Acquires: true, Pos: fset.Position(fd.Pos()).String()}
		lockAt := -1
		stmts := fd.Body.List
		prologue := map[ast.Node]bool{}
		for i := 0; i+1 < len(stmts); i++ {
			es, ok := stmts[i].(*ast.ExprStmt)
			if !ok || !isRecvLock(es.X, recv, "Lock") {
				continue
			}
			if ds, ok := stmts[i+1].(*ast.DeferStmt); ok && isRecvLock(ds.Call, recv, "Unlock") {
				lockAt = i
				prologue[es.X] = true
				prologue[ds.Call] = true
				break
			}
		}
		scan := func(fn *Fn, list []ast.Stmt) {
			calls := map[string]bool{}
			for _, st := range list {
				ast.Inspect(st, func(n ast.Node) bool {
					switch x := n.(type) {
					case *ast.FuncLit:
						fn.Unknown = true
						fn.Why = append(fn.Why, "closure in a pool method at "+fset.Position(x.Pos()).String())
					case *ast.GoStmt:
						fn.Unknown = true
						fn.Why = append(fn.Why, "go statement in a pool method at "+fset.Position(x.Pos()).String())
					case *ast.CallExpr:
						if isRecvLock(x, recv, "Lock", "Unlock", "RLock", "RUnlock", "TryLock") && !prologue[x] {
							fn.Unknown = true
							fn.Why = append(fn.Why, "lock operation outside the Lock/defer Unlock pair at "+fset.Position(x.Pos()).String())
						}
						if s, ok := x.Fun.(*ast.SelectorExpr); ok {
							if id, ok := s.X.(*ast.Ident); ok && id.Name == recv && methods[s.Sel.Name] {
								calls[poolType+"."+s.Sel.Name] = true
							}
						}
					case *ast.SelectorExpr:
						if id, ok := x.X.(*ast.Ident); ok && id.Name == recv && mutable[x.Sel.Name] {
							fn.Touches = true
						}
					}
					return true
				})
			}
			for k := range calls {
				fn.Calls = append(fn.Calls, k)
			}
			sort.Strings(fn.Calls)
		}
		if lockAt < 0 {
			scan(pre, stmts)
			facts.PoolFns = append(facts.PoolFns, pre)
			continue
		}
		scan(pre, stmts[:lockAt])
		pre.Calls = append(pre.Calls, post.Name)
		sort.Strings(pre.Calls)
		scan(post, stmts[lockAt:])
		facts.PoolFns = append(facts.PoolFns, pre, post)
	}
	sort.Slice(facts.PoolFns, func(i, j int) bool { return facts.PoolFns[i].Name < facts.PoolFns[j].Name })
}

func uniq(l []string) []string {
	var r []string
	for i, s := range l {
		if i == 0 || s != l[i-1] {
			r = append(r, s)
		}
	}
	return r
}

func exprString(e ast.Expr) string {
	switch x := e.(type) {
	case *ast.Ident:
		return x.Name
	case *ast.SelectorExpr:
		return exprString(x.X) + "." + x.Sel.Name
	case *ast.CallExpr:
		return exprString(x.Fun) + "()"
	}
	return "?"
}

func lb(b bool) string {
	if b {
		return "true"
	}
	return "false"
}

func lstr(l []string) string {
	q := make([]string, len(l))
	for i, s := range l {
		q[i] = fmt.Sprintf("%q", s)
	}
	return "[" + strings.Join(q, ", ") + "]"
}

func lean(f *Facts) string {
	var b strings.Builder
	b.WriteString("import IpamVerif.Lock\n/-! GENERATED by harness/cmd/factgen from /repo's source on every run — do not edit. -/\nnamespace Ipam.Facts\nopen Ipam.Lock\n\n")
	b.WriteString("def graph : Graph := ⟨[\n")
	for i, fn := range f.Fns {
		fmt.Fprintf(&b, "  ⟨%q, %s, %s, %s, %s, %s, %s, %s⟩", fn.Name, lb(fn.HoldsLock), lb(fn.Acquires), lb(fn.Touches), lb(fn.Root), lb(fn.Exempt), lb(fn.Unknown), lstr(fn.Calls))
		if i+1 < len(f.Fns) {
			b.WriteString(",")
		}
		b.WriteString("\n")
	}
	b.WriteString("]⟩\n\n")
	b.WriteString("/-- lock discipline of the pool's own mutex (package multicidrset): a method is split at its\n`Lock(); defer Unlock()` pair; `touches` = accesses a field some method writes -/\ndef poolGraph : Graph := ⟨[\n")
	for i, fn := range f.PoolFns {
		fmt.Fprintf(&b, "  ⟨%q, %s, %s, %s, %s, %s, %s, %s⟩", fn.Name, lb(fn.HoldsLock), lb(fn.Acquires), lb(fn.Touches), lb(fn.Root), lb(fn.Exempt), lb(fn.Unknown), lstr(fn.Calls))
		if i+1 < len(f.PoolFns) {
			b.WriteString(",")
		}
		b.WriteString("\n")
	}
	b.WriteString("]⟩\n\n")
	fmt.Fprintf(&b, "def poolMutableFields : List String := %s\n\n", lstr(f.PoolMutable))
	b.WriteString("/-- (loop, error branch re-queues, success path forgets and the error branch does not) -/\ndef workerLoops : List (String × Bool × Bool) := [")
	for i, w := range f.WorkerLoops {
		if i > 0 {
			b.WriteString(", ")
		}
		fmt.Fprintf(&b, "(%q, %s, %s)", w.Name, lb(w.ErrorRequeues), lb(w.SuccessForgets))
	}
	b.WriteString("]\n\n")
	fmt.Fprintf(&b, "def metricsRegistered : List String := %s\n\n", lstr(f.MetricsRegistered))
	fmt.Fprintf(&b, "def metricsEndpoint : Bool := %s\n\n", lb(f.MetricsEndpoint))
	fmt.Fprintf(&b, "def startupOrder : List String := %s\n\n", lstr(f.StartupOrder))
	fmt.Fprintf(&b, "def constructorOrder : List String := %s\n\n", lstr(f.ConstructorOrder))
	b.WriteString("/-- (function, API writes of a ClusterCIDR, of which with an object obtained from DeepCopy) -/\ndef deepCopyWrites : List (String × Nat × Nat) := [")
	for i, d := range f.DeepCopyWrites {
		if i > 0 {
			b.WriteString(", ")
		}
		fmt.Fprintf(&b, "(%q, %d, %d)", d.Fn, d.Writes, d.FromCopy)
	}
	b.WriteString("]\n\nend Ipam.Facts\n")
	return b.String()
}
