package main

import (
	"fmt"
	"math/rand"
	"sort"
	"strings"

	corev1 "k8s.io/api/core/v1"
	apimachineryvalidation "k8s.io/apimachinery/pkg/api/validation"
	unversionedvalidation "k8s.io/apimachinery/pkg/apis/meta/v1/validation"
	"k8s.io/apimachinery/pkg/util/validation/field"
	netutils "k8s.io/utils/net"

	v1 "sigs.k8s.io/node-ipam-controller/pkg/apis/clustercidr/v1"
	"sigs.k8s.io/node-ipam-controller/pkg/apis/clustercidr/v1/validation"
)

func esc(s string) string {
	if s == "" {
		return "_"
	}
	return s
}

func encReq(r corev1.NodeSelectorRequirement) string {
	parts := []string{esc(r.Key), string(r.Operator)}
	for _, v := range r.Values {
		parts = append(parts, esc(v))
	}
	return strings.Join(parts, ",")
}

func encReqs(rs []corev1.NodeSelectorRequirement) string {
	if len(rs) == 0 {
		return "_"
	}
	var p []string
	for _, r := range rs {
		p = append(p, encReq(r))
	}
	return strings.Join(p, ";")
}

func encSel(ns *corev1.NodeSelector) string {
	if ns == nil {
		return "-"
	}
	if len(ns.NodeSelectorTerms) == 0 {
		return "[]"
	}
	var p []string
	for _, t := range ns.NodeSelectorTerms {
		p = append(p, encReqs(t.MatchExpressions)+"~"+encReqs(t.MatchFields))
	}
	return strings.Join(p, "|")
}

func encSpec(s *v1.ClusterCIDRSpec) string {
	return fmt.Sprintf("%s %s %d %s", esc(s.IPv4), esc(s.IPv6), s.PerNodeHostBits, encSel(s.NodeSelector))
}

// parseOracle is the library's parser result as the model's `Parsed`.
func parseOracle(s string) string {
	if s == "" {
		return "_"
	}
	ip, n, err := netutils.ParseCIDRSloppy(s)
	if err != nil {
		return "M"
	}
	ones, _ := n.Mask.Size()
	if netutils.IsIPv4(ip) {
		return fmt.Sprintf("4/%d", ones)
	}
	return fmt.Sprintf("6/%d", ones)
}

// errKinds maps the field errors to the model's kinds (one per field path and kind).
func errKinds(el field.ErrorList) string {
	var out []string
	seen := map[string]bool{}
	for _, e := range el {
		k := "?" + string(e.Type) + "@" + e.Field
		f := e.Field
		inExpr := strings.Contains(f, "matchExpressions")
		inField := strings.Contains(f, "matchFields")
		switch {
		case e.Type == field.ErrorTypeRequired && strings.HasSuffix(f, "nodeSelectorTerms"):
			k = "termsRequired"
		case inExpr && e.Type == field.ErrorTypeRequired && strings.Contains(e.Detail, "single value"):
			k = "valuesSingle"
		case inExpr && e.Type == field.ErrorTypeRequired:
			k = "valuesRequired"
		case inExpr && e.Type == field.ErrorTypeForbidden:
			k = "valuesForbidden"
		case inExpr && strings.HasSuffix(f, ".operator"):
			k = "badOperator"
		case inExpr && strings.HasSuffix(f, ".key"):
			k = "badKey"
		case inField && e.Type == field.ErrorTypeRequired:
			k = "fieldValuesOne"
		case inField && strings.HasSuffix(f, ".operator"):
			k = "fieldBadOperator"
		case inField && strings.HasSuffix(f, ".key"):
			k = "fieldBadKey"
		case inField && strings.Contains(f, ".values["):
			k = "fieldBadValue"
		case e.Type == field.ErrorTypeRequired && f == "spec":
			k = "cidrRequired"
		case f == "spec.IPv4" && strings.HasPrefix(e.Detail, "must be a valid CIDR"):
			k = "invalidCIDR4"
		case f == "spec.IPv6" && strings.HasPrefix(e.Detail, "must be a valid CIDR"):
			k = "invalidCIDR6"
		case f == "spec.IPv4":
			k = "notV4"
		case f == "spec.IPv6":
			k = "notV6"
		case f == "spec.perNodeHostBits" && strings.Contains(e.Detail, "greater than"):
			k = "hostBitsTooSmall"
		case f == "spec.perNodeHostBits" && strings.Contains(e.Detail, "less than"):
			k = "hostBitsTooBig"
		}
		id := k + "@" + f
		if (k == "badKey" || k == "fieldBadValue") && seen[id] {
			continue // several messages for one offending string
		}
		seen[id] = true
		out = append(out, k)
	}
	return strings.Join(out, ",")
}

func specLine(s *v1.ClusterCIDRSpec) (string, string) {
	keys := map[string]bool{}
	names := map[string]bool{}
	if s.NodeSelector != nil {
		for _, t := range s.NodeSelector.NodeSelectorTerms {
			for _, r := range t.MatchExpressions {
				if len(unversionedvalidation.ValidateLabelName(r.Key, field.NewPath("k"))) == 0 {
					keys[esc(r.Key)] = true
				}
			}
			for _, r := range t.MatchFields {
				for _, v := range r.Values {
					if len(apimachineryvalidation.NameIsDNSSubdomain(v, false)) == 0 {
						names[esc(v)] = true
					}
				}
			}
		}
	}
	kl, nl := sortedKeys(keys), sortedKeys(names)
	ks, ns := "_", "_"
	if len(kl) > 0 {
		ks = strings.Join(kl, ",")
	}
	if len(nl) > 0 {
		ns = strings.Join(nl, ",")
	}
	op := fmt.Sprintf("vspec %s %s %s %s %s", encSpec(s), parseOracle(s.IPv4), parseOracle(s.IPv6), ks, ns)
	el := validation.ValidateClusterCIDRSpec(s, field.NewPath("spec"))
	return op, "verr " + errKinds(el)
}

var v4Strings = []string{"", "10.0.0.0/8", "10.1.0.0/16", "192.168.7.0/24", "10.0.0.0/28", "10.0.0.0/29", "10.0.0.1/32", "0.0.0.0/0",
	"10.0.0.5/24", "010.0.0.0/8", "10.0.0.0", "10.0.0.0/33", "garbage", "10.0.0/8", "fd00::/64", "fd00::/120", "::ffff:10.0.0.0/104", "10.0.0.0/-1"}
var v6Strings = []string{"", "fd00::/48", "fd00::/64", "fd00:1::/112", "fd00::/124", "fd00::/125", "fd00::1/128", "::/0", "FD00::/64",
	"fd00::/129", "fd00::", "nonsense", "fd00:::/64", "10.0.0.0/8", "10.0.0.0/24", "::ffff:10.0.0.0/104", "fd00::5/64"}

func hostBitsFor(rng *rand.Rand, v4, v6 string) []int32 {
	hs := []int32{-1, 0, 3, 4, 5, 8, 16, 32, 33, 64, 100, 127, 128, 129, -2147483648, 2147483647}
	for _, s := range []string{v4, v6} {
		if _, n, err := netutils.ParseCIDRSloppy(s); err == nil {
			ones, bits := n.Mask.Size()
			lim := int32(bits - ones)
			hs = append(hs, lim-1, lim, lim+1, 32-int32(ones), 128-int32(ones))
		}
	}
	return hs
}

var goodKeys = []string{"zone", "kubernetes.io/hostname", "a.b/c-d_e.f", "in", "notin"}
var badKeys = []string{"", "-bad", "a/b/c", "UPPER/ok", "x*y"}
var someVals = []string{"a", "b", "10", "-5", "", "v.1_2-3"}

func randReq(rng *rand.Rand, wellFormed bool) corev1.NodeSelectorRequirement {
	ops := []corev1.NodeSelectorOperator{corev1.NodeSelectorOpIn, corev1.NodeSelectorOpNotIn, corev1.NodeSelectorOpExists,
		corev1.NodeSelectorOpDoesNotExist, corev1.NodeSelectorOpGt, corev1.NodeSelectorOpLt}
	op := ops[rng.Intn(len(ops))]
	r := corev1.NodeSelectorRequirement{Key: goodKeys[rng.Intn(len(goodKeys))], Operator: op}
	nv := 0
	switch op {
	case corev1.NodeSelectorOpIn, corev1.NodeSelectorOpNotIn:
		nv = 1 + rng.Intn(2)
	case corev1.NodeSelectorOpGt, corev1.NodeSelectorOpLt:
		nv = 1
	}
	if !wellFormed {
		switch rng.Intn(4) {
		case 0:
			r.Key = badKeys[rng.Intn(len(badKeys))]
		case 1:
			nv = rng.Intn(3)
			if rng.Intn(2) == 0 {
				nv = (nv + 1) % 3
			}
		case 2:
			r.Operator = corev1.NodeSelectorOperator([]string{"Equals", "", "in", "Gte"}[rng.Intn(4)])
		case 3:
			nv = 0
			if op == corev1.NodeSelectorOpExists || op == corev1.NodeSelectorOpDoesNotExist {
				nv = 1
			}
		}
	}
	for i := 0; i < nv; i++ {
		r.Values = append(r.Values, someVals[rng.Intn(len(someVals))])
	}
	return r
}

func randFieldReq(rng *rand.Rand, wellFormed bool) corev1.NodeSelectorRequirement {
	r := corev1.NodeSelectorRequirement{Key: "metadata.name", Operator: corev1.NodeSelectorOpIn, Values: []string{"node-1"}}
	if rng.Intn(2) == 0 {
		r.Operator = corev1.NodeSelectorOpNotIn
	}
	if !wellFormed {
		switch rng.Intn(4) {
		case 0:
			r.Key = []string{"metadata.namespace", "zone", ""}[rng.Intn(3)]
		case 1:
			r.Values = [][]string{{}, {"a", "b"}, nil}[rng.Intn(3)]
		case 2:
			r.Operator = []corev1.NodeSelectorOperator{corev1.NodeSelectorOpExists, corev1.NodeSelectorOpGt, "Foo"}[rng.Intn(3)]
		case 3:
			r.Values = []string{[]string{"Bad_Name", "", "-x", "a..b"}[rng.Intn(4)]}
		}
	}
	return r
}

func randSelector(rng *rand.Rand) *corev1.NodeSelector {
	switch rng.Intn(8) {
	case 0:
		return nil
	case 1:
		return &corev1.NodeSelector{}
	case 2:
		return &corev1.NodeSelector{NodeSelectorTerms: []corev1.NodeSelectorTerm{{}}}
	}
	ns := &corev1.NodeSelector{}
	nt := 1 + rng.Intn(2)
	allGood := rng.Intn(2) == 0
	for t := 0; t < nt; t++ {
		var term corev1.NodeSelectorTerm
		for i := rng.Intn(3); i > 0; i-- {
			term.MatchExpressions = append(term.MatchExpressions, randReq(rng, allGood || rng.Intn(3) > 0))
		}
		for i := rng.Intn(2); i > 0; i-- {
			term.MatchFields = append(term.MatchFields, randFieldReq(rng, allGood || rng.Intn(3) > 0))
		}
		ns.NodeSelectorTerms = append(ns.NodeSelectorTerms, term)
	}
	return ns
}

func runValid(o *Out, rng *rand.Rand, thorough bool) {
	// 1. the full grid of range strings x host bits, selector nil / random
	accepted, rejected := 0, 0
	for _, a := range v4Strings {
		for _, b := range v6Strings {
			for _, hb := range hostBitsFor(rng, a, b) {
				reps := 1
				if thorough {
					reps = 3
				}
				for rep := 0; rep < reps; rep++ {
					s := &v1.ClusterCIDRSpec{IPv4: a, IPv6: b, PerNodeHostBits: hb}
					if rep > 0 || rng.Intn(3) == 0 {
						s.NodeSelector = randSelector(rng)
					}
					op, obs := specLine(s)
					o.Emit(op, obs)
					o.Case(op, true)
					if obs == "verr " {
						accepted++
					} else {
						rejected++
					}
					for _, k := range strings.Split(strings.TrimPrefix(obs, "verr "), ",") {
						if k != "" {
							o.Count("err-" + k)
						}
					}
				}
			}
		}
	}
	// 2. selector shapes on a fixed valid range
	n := 3000
	if thorough {
		n = 30000
	}
	for i := 0; i < n; i++ {
		s := &v1.ClusterCIDRSpec{IPv4: "10.0.0.0/8", PerNodeHostBits: 8, NodeSelector: randSelector(rng)}
		op, obs := specLine(s)
		o.Emit(op, obs)
		o.Case(op, true)
		if obs == "verr " {
			accepted++
		} else {
			rejected++
		}
		if i%700 == 0 {
			o.Sample(op + " => " + obs)
		}
	}
	o.Stats["accepted"] = accepted
	o.Stats["rejected"] = rejected
	// 3. update pairs: every subset of fields changed
	base := []*v1.ClusterCIDRSpec{}
	for i := 0; i < 12; i++ {
		base = append(base, &v1.ClusterCIDRSpec{IPv4: v4Strings[rng.Intn(6)], IPv6: v6Strings[rng.Intn(6)],
			PerNodeHostBits: int32(4 + rng.Intn(8)), NodeSelector: randSelector(rng)})
	}
	variants := func(s *v1.ClusterCIDRSpec, mask int) *v1.ClusterCIDRSpec {
		c := s.DeepCopy()
		if mask&1 != 0 {
			switch rng.Intn(4) {
			case 0:
				c.NodeSelector = nil
				if s.NodeSelector == nil {
					c.NodeSelector = &corev1.NodeSelector{NodeSelectorTerms: []corev1.NodeSelectorTerm{{MatchExpressions: []corev1.NodeSelectorRequirement{{Key: "k", Operator: "Exists"}}}}}
				}
			case 1: // drop the last term / value
				if c.NodeSelector != nil && len(c.NodeSelector.NodeSelectorTerms) > 0 {
					c.NodeSelector.NodeSelectorTerms = c.NodeSelector.NodeSelectorTerms[:len(c.NodeSelector.NodeSelectorTerms)-1]
					if len(c.NodeSelector.NodeSelectorTerms) == 0 && len(s.NodeSelector.NodeSelectorTerms) == 0 {
						c.NodeSelector = nil
					}
				} else {
					c.NodeSelector = &corev1.NodeSelector{NodeSelectorTerms: []corev1.NodeSelectorTerm{{MatchFields: []corev1.NodeSelectorRequirement{{Key: "metadata.name", Operator: "In", Values: []string{"x"}}}}}}
				}
			default:
				c.NodeSelector = randSelector(rng)
			}
		}
		if mask&2 != 0 {
			c.PerNodeHostBits = s.PerNodeHostBits + int32(1+rng.Intn(3))
			if rng.Intn(3) == 0 {
				c.PerNodeHostBits = 0
			}
		}
		if mask&4 != 0 {
			c.IPv4 = v4Strings[rng.Intn(len(v4Strings))]
			if rng.Intn(3) == 0 {
				c.IPv4 = ""
			}
		}
		if mask&8 != 0 {
			c.IPv6 = v6Strings[rng.Intn(len(v6Strings))]
			if rng.Intn(3) == 0 {
				c.IPv6 = ""
			}
		}
		return c
	}
	reps := 4
	if thorough {
		reps = 40
	}
	for _, s := range base {
		for mask := 0; mask < 16; mask++ {
			for rep := 0; rep < reps; rep++ {
				u := variants(s, mask)
				for _, pair := range [][2]*v1.ClusterCIDRSpec{{u, s}, {s, u}} {
					el := validation.ValidateClusterCIDRUpdate(&v1.ClusterCIDR{Spec: *pair[0]}, &v1.ClusterCIDR{Spec: *pair[1]})
					var kinds []string
					for _, e := range el {
						switch e.Field {
						case "spec.nodeSelector":
							kinds = append(kinds, "selector")
						case "spec.perNodeHostBits":
							kinds = append(kinds, "hostBits")
						case "spec.ipv4":
							kinds = append(kinds, "ipv4")
						case "spec.ipv6":
							kinds = append(kinds, "ipv6")
						default:
							if !strings.HasPrefix(e.Field, "metadata") {
								kinds = append(kinds, "?"+e.Field)
							}
						}
					}
					op := "vupd " + encSpec(pair[0]) + " " + encSpec(pair[1])
					o.Emit(op, "uerr "+strings.Join(kinds, ","))
					o.Case(op, true)
					o.Count(fmt.Sprintf("upd-changed-%d-fields", len(kinds)))
				}
			}
		}
	}
	_ = sort.Strings
}
