package main

import (
	"fmt"
	"math/big"
	"net"
	"math/rand"
	"os"
	"strconv"
	"strings"
	"time"

	corev1 "k8s.io/api/core/v1"
	metav1 "k8s.io/apimachinery/pkg/apis/meta/v1"
	"k8s.io/apimachinery/pkg/types"
	"k8s.io/apimachinery/pkg/util/validation"
	"k8s.io/client-go/tools/cache"

	"ipamverif/harness/internal/canon"

	v1 "sigs.k8s.io/node-ipam-controller/pkg/apis/clustercidr/v1"
	"sigs.k8s.io/node-ipam-controller/pkg/controller/ipam"
	cidrset "sigs.k8s.io/node-ipam-controller/pkg/controller/ipam/multicidrset"
)

var uidCounter int

var fixedTime = metav1.NewTime(time.Unix(1700000000, 0))

// ---------------------------------------------------------------- encoding of specs in op lines

func reqOracle(r corev1.NodeSelectorRequirement) (keyOK, valsOK bool) {
	keyOK = len(validation.IsQualifiedName(r.Key)) == 0
	valsOK = true
	for _, v := range r.Values {
		if len(validation.IsValidLabelValue(v)) != 0 {
			valsOK = false
		}
	}
	return
}

func b2s(b bool) string {
	if b {
		return "1"
	}
	return "0"
}

func encRawReq(r corev1.NodeSelectorRequirement) string {
	k, v := reqOracle(r)
	parts := []string{esc(r.Key), string(r.Operator), b2s(k), b2s(v)}
	for _, x := range r.Values {
		parts = append(parts, esc(x))
	}
	return strings.Join(parts, ",")
}

func encRawReqs(rs []corev1.NodeSelectorRequirement) string {
	if len(rs) == 0 {
		return "_"
	}
	var p []string
	for _, r := range rs {
		p = append(p, encRawReq(r))
	}
	return strings.Join(p, ";")
}

func encRawSel(ns *corev1.NodeSelector) string {
	if ns == nil {
		return "-"
	}
	if len(ns.NodeSelectorTerms) == 0 {
		return "[]"
	}
	var p []string
	for _, t := range ns.NodeSelectorTerms {
		p = append(p, encRawReqs(t.MatchExpressions)+"~"+encRawReqs(t.MatchFields))
	}
	return strings.Join(p, "|")
}

func decRawReqs(s string) []corev1.NodeSelectorRequirement {
	if s == "_" {
		return nil
	}
	var out []corev1.NodeSelectorRequirement
	for _, r := range strings.Split(s, ";") {
		p := strings.Split(r, ",")
		req := corev1.NodeSelectorRequirement{Key: unesc(p[0]), Operator: corev1.NodeSelectorOperator(p[1])}
		for _, v := range p[4:] {
			req.Values = append(req.Values, unesc(v))
		}
		out = append(out, req)
	}
	return out
}

func unesc(s string) string {
	if s == "_" {
		return ""
	}
	return s
}

func decRawSel(s string) *corev1.NodeSelector {
	if s == "-" {
		return nil
	}
	ns := &corev1.NodeSelector{}
	if s == "[]" {
		ns.NodeSelectorTerms = []corev1.NodeSelectorTerm{}
		return ns
	}
	for _, t := range strings.Split(s, "|") {
		ef := strings.Split(t, "~")
		ns.NodeSelectorTerms = append(ns.NodeSelectorTerms, corev1.NodeSelectorTerm{MatchExpressions: decRawReqs(ef[0]), MatchFields: decRawReqs(ef[1])})
	}
	return ns
}

// field token: `_` | `M` | `<tok>@<label>` | `S<raw string>` (raw string handed to the controller; oracle appended by encField)
func encField(s string) string {
	if s == "" {
		return "_"
	}
	_, n, err := parseCIDR(s)
	if err != nil {
		return "M@" + s
	}
	c, ok := canon.FromIPNet(n)
	if !ok {
		// parses, but not to a plain network (IPv4-mapped ...): outside the modelled input domain; only the
		// robustness stream uses such strings and does not compare them with the model
		return "X@" + s
	}
	if n.String() != s {
		// another spelling of a plain network (unmasked host bits, upper case, leading zeros): the code under test
		// only ever parses it, so the model is given the parsed network and its canonical label; the spelling
		// travels behind "~" and is what the API object carries
		return c.Tok() + "@" + n.String() + "~" + s
	}
	return c.Tok() + "@" + n.String()
}

// respell: another spelling of the same network (host bits set for IPv4, upper case for IPv6), or the string itself
func respell(rng *rand.Rand, s string) string {
	if s == "" || rng.Intn(6) != 0 {
		return s
	}
	return respellForce(s)
}

func respellForce(s string) string {
	ip, n, err := parseCIDR(s)
	if err != nil || n.String() != s {
		return s
	}
	ones, bits := n.Mask.Size()
	if bits == 32 && ones < 32 {
		b := ip.To4()
		b[3] |= 1
		return fmt.Sprintf("%s/%d", net.IP(b).String(), ones)
	}
	return strings.ToUpper(s)
}

// spellNodeToks: now and then a node's pod CIDR is written another way ("tok~spelling")
func (g *gen) spellNodeToks(cs string, name string) string {
	if cs == "-" {
		return cs
	}
	// only for a node the controller's cache does not hold in an older version: a cached version without pod CIDRs could
	// make the controller propose exactly this network in its canonical spelling, and the API server compares the text
	// (the model compares networks)
	if g.w.h != nil && g.w.nodeInf != nil {
		if _, cached, _ := g.w.nodeInf.inf.indexer.GetByKey(name); cached {
			return cs
		}
	}
	parts := strings.Split(cs, ",")
	for i, t := range parts {
		if c, ok := tokToCidr(t); ok && g.rng.Intn(5) == 0 {
			if r := respellForce(c.String()); r != c.String() {
				parts[i] = t + "~" + r
			}
		}
	}
	return strings.Join(parts, ",")
}

// encFieldHB: as encField; a range cut into more than 2^12 blocks is exercised for robustness only (the model keeps
// the used blocks of a pool in a list: a node CIDR spanning millions of blocks would stall the driver, not the code)
func encFieldHB(s string, hb int) string {
	e := encField(s)
	if strings.HasPrefix(e, "4:") || strings.HasPrefix(e, "6:") {
		_, n, _ := parseCIDR(s)
		ones, bits := n.Mask.Size()
		if hb >= 0 && bits-hb-ones > 12 {
			return "X@" + s
		}
	}
	return e
}

func decField(f string) string {
	switch {
	case f == "_":
		return ""
	case f == "M":
		return "not-a-cidr"
	case strings.HasPrefix(f, "M@") || strings.HasPrefix(f, "X@"):
		return f[2:]
	}
	if t := strings.Index(f, "~"); t >= 0 {
		return f[t+1:]
	}
	at := strings.Index(f, "@")
	c, _ := tokToCidr(f[:at])
	return c.String()
}

func parseLabelsTok(s string) map[string]string {
	if s == "-" {
		return nil
	}
	m := map[string]string{}
	for _, kv := range strings.Split(s, ",") {
		p := strings.SplitN(kv, "=", 2)
		if len(p) == 2 {
			m[unesc(p[0])] = p[1]
		} else {
			m[unesc(p[0])] = ""
		}
	}
	return m
}

func parseCidrToks(s string) []string {
	if s == "-" {
		return nil
	}
	var out []string
	for _, t := range strings.Split(s, ",") {
		if strings.HasPrefix(t, "?") {
			out = append(out, t[1:])
			continue
		}
		if k := strings.Index(t, "~"); k >= 0 {
			// a pod CIDR spelled another way (the spelling the Node object carries follows "~")
			out = append(out, t[k+1:])
			continue
		}
		c, ok := tokToCidr(t)
		if !ok {
			out = append(out, t)
			continue
		}
		out = append(out, c.String())
	}
	return out
}

func parseOutcomes(s string) []string {
	if s == "-" {
		return nil
	}
	return strings.Split(s, ",")
}

// ---------------------------------------------------------------- executing one op line on the real controller

type stepResult struct {
	obs  string
	hung bool
}

// guarded runs f under recover and a watchdog.
func guarded(f func()) (panicked string, hung bool) {
	done := make(chan string, 1)
	go func() {
		defer func() {
			if r := recover(); r != nil {
				done <- fmt.Sprintf("%v", r)
				return
			}
			done <- ""
		}()
		f()
	}()
	select {
	case p := <-done:
		return p, false
	case <-time.After(watchdog):
		return "", true
	}
}

var watchdog = 20 * time.Second

func (w *world) resetStep() {
	w.patches, w.ccWrites, w.unexpected = nil, nil, nil
	w.patchOutcomes, w.ccOutcomes = nil, nil
	w.nodeGets, w.refreshOnSecondGet, w.refreshed = 0, "", false
	if w.nodeQ != nil {
		w.nodeQ.requeued, w.nodeQ.forgot = nil, nil
		w.ccQ.requeued, w.ccQ.forgot = nil, nil
	}
}

func contains(l []string, x string) bool {
	for _, s := range l {
		if s == x {
			return true
		}
	}
	return false
}

func (w *world) exec(line string) stepResult {
	f := strings.Fields(line)
	w.resetStep()
	res := "none"
	var pan string
	var hung bool
	switch f[0] {
	case "boot":
		var svcs []*canon.Cidr
		for _, t := range f[1:3] {
			if t == "-" {
				svcs = append(svcs, nil)
			} else {
				c, _ := tokToCidr(t)
				svcs = append(svcs, &c)
			}
		}
		// compact: primary first
		if svcs[0] == nil && svcs[1] != nil {
			svcs[0], svcs[1] = svcs[1], nil
		}
		var err error
		pan, hung = guarded(func() { err = w.boot(svcs, parseOutcomes(f[3])) })
		res = "ok"
		if err != nil {
			res = "err"
		}
	case "nodeAdd":
		if _, ok := w.nodes[f[1]]; !ok {
			uidCounter++
			n := &corev1.Node{ObjectMeta: metav1.ObjectMeta{Name: f[1], Labels: parseLabelsTok(f[2]), ResourceVersion: "1", UID: types.UID(fmt.Sprintf("u%d", uidCounter))}}
			cs := parseCidrToks(f[3])
			if len(cs) > 0 {
				n.Spec.PodCIDR, n.Spec.PodCIDRs = cs[0], cs
			}
			w.nodes[f[1]] = n
			delete(w.graves, f[1])
		}
	case "nodeDel":
		if n, ok := w.nodes[f[1]]; ok {
			w.graves[f[1]] = n
			delete(w.nodes, f[1])
		}
	case "nodeLabels":
		if n, ok := w.nodes[f[1]]; ok {
			n.Labels = parseLabelsTok(f[2])
			bumpRV(&n.ObjectMeta)
		}
	case "nodeDeleting":
		if n, ok := w.nodes[f[1]]; ok {
			t := fixedTime
			n.DeletionTimestamp = &t
			n.Finalizers = []string{"example.com/other"}
			bumpRV(&n.ObjectMeta)
		}
	case "ccAdd":
		if _, ok := w.ccs[f[1]]; !ok {
			hb, _ := strconv.Atoi(f[2])
			// resource versions are never re-used: a new object is newer than everything the API or the cache holds
			fresh := 0
			for _, c := range w.ccs {
				if rv, _ := strconv.Atoi(c.ResourceVersion); rv > fresh {
					fresh = rv
				}
			}
			if w.ccInf != nil {
				for _, o := range w.ccInf.inf.indexer.List() {
					if rv, _ := strconv.Atoi(o.(*v1.ClusterCIDR).ResourceVersion); rv > fresh {
						fresh = rv
					}
				}
			}
			w.ccs[f[1]] = &v1.ClusterCIDR{ObjectMeta: metav1.ObjectMeta{Name: f[1], ResourceVersion: strconv.Itoa(fresh + 1), Generation: 1},
				Spec: v1.ClusterCIDRSpec{PerNodeHostBits: int32(hb), IPv4: decField(f[3]), IPv6: decField(f[4]), NodeSelector: decRawSel(f[5])}}
		}
	case "ccDel":
		if c, ok := w.ccs[f[1]]; ok {
			if len(c.Finalizers) == 0 {
				delete(w.ccs, f[1])
			} else {
				t := fixedTime
				c.DeletionTimestamp = &t
				bumpRV(&c.ObjectMeta)
			}
		}
	case "ccGen":
		if c, ok := w.ccs[f[1]]; ok {
			g, _ := strconv.Atoi(f[2])
			c.Generation = int64(g)
			bumpRV(&c.ObjectMeta)
		}
	case "ccAddFin":
		if c, ok := w.ccs[f[1]]; ok && !contains(c.Finalizers, f[2]) {
			c.Finalizers = append(c.Finalizers, f[2])
			bumpRV(&c.ObjectMeta)
		}
	case "nodeSetCIDRs":
		if n, ok := w.nodes[f[1]]; ok {
			cs := parseCidrToks(f[2])
			if len(n.Spec.PodCIDRs) == 0 && len(cs) > 0 {
				n.Spec.PodCIDR, n.Spec.PodCIDRs = cs[0], cs
				bumpRV(&n.ObjectMeta)
			}
		}
	case "deliverNode":
		if w.h == nil {
			break
		}
		name := f[1]
		idx := w.nodeInf.inf.indexer
		old, exists, _ := idx.GetByKey(name)
		if _, ok := w.nodes[name]; ok {
			w.refreshNodeCache(name)
			cur, _, _ := idx.GetByKey(name)
			pan, hung = guarded(func() {
				for _, h := range w.nodeInf.inf.handlers {
					if exists {
						h.OnUpdate(old, cur)
					} else {
						h.OnAdd(cur, false)
					}
				}
			})
		} else if exists {
			w.refreshNodeCache(name)
			var obj interface{}
			if f[2] == "1" && len(f) > 3 && f[3] == "X@nil" {
				// a tombstone that carries no object at all (DeltaFIFO.Replace when the key is gone from the store)
				obj = cache.DeletedFinalStateUnknown{Key: name, Obj: nil}
			} else if f[2] == "1" {
				obj = cache.DeletedFinalStateUnknown{Key: name, Obj: old}
			} else if g, ok := w.graves[name]; ok {
				obj = g.DeepCopy()
			} else {
				obj = old
			}
			pan, hung = guarded(func() {
				for _, h := range w.nodeInf.inf.handlers {
					h.OnDelete(obj)
				}
			})
		}
	case "deliverCC":
		if w.h == nil {
			break
		}
		name := f[1]
		idx := w.ccInf.inf.indexer
		old, exists, _ := idx.GetByKey(name)
		if _, ok := w.ccs[name]; ok {
			w.refreshCCCache(name)
			cur, _, _ := idx.GetByKey(name)
			pan, hung = guarded(func() {
				for _, h := range w.ccInf.inf.handlers {
					if exists {
						h.OnUpdate(old, cur)
					} else {
						h.OnAdd(cur, false)
					}
				}
			})
		} else if exists {
			w.refreshCCCache(name)
			pan, hung = guarded(func() {
				for _, h := range w.ccInf.inf.handlers {
					h.OnDelete(old)
				}
			})
		}
	case "procNode":
		if w.h == nil || !w.nodeQ.pending[f[1]] {
			break
		}
		w.nodeQ.next, w.nodeQ.hasNext = f[1], true
		w.patchOutcomes = parseOutcomes(f[3])
		if f[2] == "1" {
			w.refreshOnSecondGet = f[1]
		}
		w.removedByRefresh = nil
		pan, hung = guarded(func() { w.h.ProcessNextNodeWorkItem(w.ctx) })
		if w.refreshed && w.removedByRefresh != nil && pan == "" && !hung {
			// the node left the cache in the middle of the item: the delete handler of that cache update (it needs the
			// allocator lock) runs once the item is through, with the final state of the node
			var obj interface{} = w.removedByRefresh
			if g, ok := w.graves[f[1]]; ok {
				obj = g.DeepCopy()
			}
			w.removedByRefresh = nil
			pan, hung = guarded(func() {
				for _, h := range w.nodeInf.inf.handlers {
					h.OnDelete(obj)
				}
			})
		} else if w.refreshed {
			w.nodeQ.Add(f[1]) // the notification that goes with the cache update
		}
		res = "ok"
		if contains(w.nodeQ.requeued, f[1]) {
			res = "err"
		} else if !contains(w.nodeQ.forgot, f[1]) && pan == "" && !hung {
			res = "dropped" // neither requeued nor forgotten
		}
	case "procCC":
		if w.h == nil || !w.ccQ.pending[f[1]] {
			break
		}
		w.ccQ.next, w.ccQ.hasNext = f[1], true
		if f[2] != "-" {
			w.ccOutcomes = []string{f[2]}
		}
		pan, hung = guarded(func() { w.h.ProcessNextCIDRWorkItem(w.ctx) })
		res = "ok"
		if contains(w.ccQ.requeued, f[1]) {
			res = "err"
		} else if !contains(w.ccQ.forgot, f[1]) && pan == "" && !hung {
			res = "dropped"
		}
	case "mark":
		return stepResult{obs: line}
	default:
		return stepResult{obs: "bad-op"}
	}
	if hung {
		return stepResult{obs: "ev res=hang", hung: true}
	}
	if pan != "" {
		res = "panic"
	}
	return stepResult{obs: w.obs(res)}
}

// ---------------------------------------------------------------- generator

type ccPlan struct {
	name string
	hb   int
	v4   string
	v6   string
	sel  *corev1.NodeSelector
}

type rangeChoice struct {
	v4, v6 string
	hb     int
}

// ranges built to collide: identical, nested, overlapping with different block sizes, disjoint; 1..16 blocks
var rangePalette = []rangeChoice{
	{"10.0.0.0/24", "", 4}, {"10.0.0.0/24", "", 6}, {"10.0.0.0/26", "", 4}, {"10.0.0.64/26", "", 4}, {"10.0.1.0/24", "", 5},
	{"10.0.0.0/23", "", 8}, {"10.0.0.0/28", "", 4}, {"10.0.0.0/27", "", 4}, {"10.0.0.16/28", "", 4},
	{"", "fd00::/120", 4}, {"", "fd00::/124", 4}, {"", "fd00::/122", 5}, {"", "fd00:0:0:2::/63", 65}, {"", "fd00:0:0:10::/60", 60},
	{"10.0.0.0/24", "fd00::/120", 4}, {"10.0.0.0/26", "fd00::/124", 4}, {"10.0.2.0/27", "fd00::/122", 4}, {"10.0.0.0/27", "fd00::40/122", 5},
	{"10.0.3.0/28", "fd00:1::/121", 4},
}

func sel(reqs ...corev1.NodeSelectorRequirement) *corev1.NodeSelector {
	return &corev1.NodeSelector{NodeSelectorTerms: []corev1.NodeSelectorTerm{{MatchExpressions: reqs}}}
}
func rq(k string, op corev1.NodeSelectorOperator, vals ...string) corev1.NodeSelectorRequirement {
	return corev1.NodeSelectorRequirement{Key: k, Operator: op, Values: vals}
}

var selPalette = []*corev1.NodeSelector{
	nil, nil, nil,
	sel(rq("zone", "In", "a")), sel(rq("zone", "In", "a", "b")), sel(rq("zone", "In", "b", "a", "b")), sel(rq("zone", "NotIn", "b")),
	sel(rq("gpu", "Exists")), sel(rq("gpu", "DoesNotExist")), sel(rq("rack", "Gt", "5")), sel(rq("rack", "Lt", "10")),
	sel(rq("zone", "In", "a"), rq("gpu", "Exists")), sel(rq("rack", "Gt", "5"), rq("rack", "Lt", "10")),
	sel(rq("zone", "In", "a"), rq("zone", "NotIn", "b"), rq("gpu", "DoesNotExist")),
	{NodeSelectorTerms: []corev1.NodeSelectorTerm{}},
	{NodeSelectorTerms: []corev1.NodeSelectorTerm{{MatchExpressions: []corev1.NodeSelectorRequirement{rq("zone", "In", "a")}}, {MatchExpressions: []corev1.NodeSelectorRequirement{rq("gpu", "Exists")}}}},
	sel(rq("in", "In", "notin")), sel(rq("zone", "Equals", "a")), sel(rq("Bad*Key", "Exists")), sel(rq("rack", "Gt", "x")),
	// field selectors (translated to requirements keyed by the field name), alone and next to expressions
	{NodeSelectorTerms: []corev1.NodeSelectorTerm{{MatchFields: []corev1.NodeSelectorRequirement{rq("metadata.name", "In", "n1", "n2")}}}},
	{NodeSelectorTerms: []corev1.NodeSelectorTerm{{MatchExpressions: []corev1.NodeSelectorRequirement{rq("zone", "In", "a")}, MatchFields: []corev1.NodeSelectorRequirement{rq("metadata.name", "NotIn", "n3")}}}},
	// the empty label value, listed alone and among others
	sel(rq("gpu", "In", "")), sel(rq("gpu", "NotIn", "", "1")), sel(rq("gpu", "In", "", "1"), rq("zone", "NotIn", "a")),
}

var labelPalette = []string{"-", "-", "zone=a", "zone=b", "zone=a,gpu=1", "rack=7", "zone=a,rack=3", "zone=c,gpu=", "rack=12,zone=b", "in=notin,zone=a", "rack=x", "metadata.name=n1,zone=a"}

type gen struct {
	profile string
	rng   *rand.Rand
	w     *world
	o     *Out
	plans []ccPlan
	lines []string
	stat  map[string]int
	dead  bool
	last  string // observation of the last event
}

func (g *gen) do(line string) {
	if g.dead {
		return
	}
	r := g.w.exec(line)
	g.last = r.obs
	g.o.Emit(line, r.obs)
	g.lines = append(g.lines, line)
	k := strings.Fields(line)[0]
	g.stat[k]++
	if i := strings.Index(r.obs, " ## "); i > 0 {
		head := r.obs[:i]
		for _, m := range []string{"res=err", "res=panic", ":lost", ":fail", ":rejected", "CIDRNotAvailable", "CIDRAssignmentFailed"} {
			if strings.Contains(head, m) {
				g.stat["obs:"+m]++
			}
		}
		if strings.Contains(head, "patches=[n") || strings.Contains(head, "patches=[m") {
			g.stat["obs:patch"]++
		}
	}
	if r.hung {
		g.dead = true
		g.stat["hangs"]++
	}
}

func ccLine(p ccPlan) string {
	return fmt.Sprintf("ccAdd %s %d %s %s %s", p.name, p.hb, encField(p.v4), encField(p.v6), encRawSel(p.sel))
}

// ccLineSpelled: as ccLine, the ranges now and then written another way
func (g *gen) ccLineSpelled(p ccPlan) string {
	return fmt.Sprintf("ccAdd %s %d %s %s %s", p.name, p.hb, encField(respell(g.rng, p.v4)), encField(respell(g.rng, p.v6)), encRawSel(p.sel))
}

// presetFor returns pod CIDRs a pre-existing node may hold: whole blocks (or multiples) of some planned
// ClusterCIDR, such that every planned range meeting them sees whole multiples of its own block; or a CIDR outside all.
func (g *gen) presetFor(labels string) string {
	rng := g.rng
	lm := parseLabelsTok(labels)
	if rng.Intn(6) == 0 {
		return "4:" + big.NewInt(0xac100000+int64(rng.Intn(16))*16).Text(16) + "/28" // 172.16.0.x outside everything
	}
	for try := 0; try < 20; try++ {
		p := g.plans[rng.Intn(len(g.plans))]
		// mostly a ClusterCIDR that selects the node (otherwise the node's CIDR is never recorded)
		if rng.Intn(8) > 0 && !planSelects(p, lm) {
			continue
		}
		var toks []string
		okAll := true
		for _, s := range []string{p.v4, p.v6} {
			if s == "" {
				continue
			}
			_, n, _ := parseCIDR(s)
			r, _ := canon.FromIPNet(n)
			w := r.W()
			nn := w - p.hb
			maxv := 1 << uint(nn-r.Len)
			i := rng.Intn(maxv)
			l := nn
			if nn > r.Len && rng.Intn(4) == 0 {
				l = nn - 1 // two blocks
			}
			c := canon.Mk(r.Fam, new(big.Int).Add(r.Addr, new(big.Int).Mul(big.NewInt(int64(i)), pow2(w-nn))), l)
			if !g.alignedEverywhere(c) {
				okAll = false
			}
			toks = append(toks, c.Tok())
		}
		if okAll && len(toks) > 0 {
			// mostly not what another node already holds
			clash := false
			for _, n := range g.w.nodes {
				for _, have := range n.Spec.PodCIDRs {
					for _, t := range toks {
						c, _ := tokToCidr(t)
						if _, hn, err := parseCIDR(have); err == nil && (hn.Contains(c.IPNet().IP) || c.IPNet().Contains(hn.IP)) {
							clash = true
						}
					}
				}
			}
			if clash && rng.Intn(10) > 0 {
				continue
			}
			return strings.Join(toks, ",")
		}
	}
	return "-"
}

// predictLeading: the leading part (IPv4 only) of what the controller would assign to node n right now, when the
// ClusterCIDR that would serve it is dual-stack; "" otherwise.
func (g *gen) predictLeading(n string) string {
	w := g.w
	if w.h == nil {
		return ""
	}
	o, ex, _ := w.nodeInf.inf.indexer.GetByKey(n)
	if !ex {
		return ""
	}
	l, err := w.h.OrderedMatching(o.(*corev1.Node), true)
	if err != nil || len(l) == 0 || l[0].IPv4CIDRSet == nil || l[0].IPv6CIDRSet == nil {
		return ""
	}
	_, cu, _, _ := l[0].IPv4CIDRSet.VerifState()
	blk, err := l[0].IPv4CIDRSet.VerifIndexToCIDRBlock(cu)
	if err != nil {
		return ""
	}
	return canon.TokNet(blk)
}

// firstBlocks proposes what the controller itself would hand out next from some planned ClusterCIDR
// (block 0 or 1 per family), in whole or only the IPv4 part.
func (g *gen) firstBlocks() string {
	p := g.plans[g.rng.Intn(len(g.plans))]
	var toks []string
	i := int64(g.rng.Intn(2))
	// where the rotating search of that ClusterCIDR stands now
	cur4, cur6 := int64(-1), int64(-1)
	if g.w.h != nil {
		g.w.h.WithCIDRMap(func(m map[string][]*cidrset.ClusterCIDR) {
			for _, l := range m {
				for _, c := range l {
					if c.Name == p.name {
						if c.IPv4CIDRSet != nil {
							_, cu, _, _ := c.IPv4CIDRSet.VerifState()
							cur4 = int64(cu)
						}
						if c.IPv6CIDRSet != nil {
							_, cu, _, _ := c.IPv6CIDRSet.VerifState()
							cur6 = int64(cu)
						}
					}
				}
			}
		})
	}
	for fi, s := range []string{p.v4, p.v6} {
		if g.rng.Intn(4) > 0 {
			if fi == 0 && cur4 >= 0 {
				i = cur4
			}
			if fi == 1 && cur6 >= 0 {
				i = cur6
			}
		}
		if s == "" {
			continue
		}
		_, n, _ := parseCIDR(s)
		r, _ := canon.FromIPNet(n)
		nn := r.W() - p.hb
		if nn == r.Len && i > 0 {
			i = 0
		}
		c := canon.Mk(r.Fam, new(big.Int).Add(r.Addr, new(big.Int).Mul(big.NewInt(i), pow2(r.W()-nn))), nn)
		toks = append(toks, c.Tok())
	}
	if len(toks) == 2 && g.rng.Intn(2) == 0 {
		toks = toks[:1]
	}
	if len(toks) == 0 {
		return "-"
	}
	return strings.Join(toks, ",")
}

func planSelects(p ccPlan, labels map[string]string) bool {
	if p.sel == nil {
		return true
	}
	key, err := ipam.VerifNodeSelectorKey(&v1.ClusterCIDR{Spec: v1.ClusterCIDRSpec{NodeSelector: p.sel.DeepCopy()}})
	if err != nil {
		return false
	}
	ok, _, err := ipam.VerifMatchCIDRLabels(&corev1.Node{ObjectMeta: metav1.ObjectMeta{Labels: labels}}, key)
	return err == nil && ok
}

func (g *gen) alignedEverywhere(c canon.Cidr) bool {
	for _, p := range g.plans {
		for _, s := range []string{p.v4, p.v6} {
			if s == "" {
				continue
			}
			_, n, _ := parseCIDR(s)
			r, _ := canon.FromIPNet(n)
			if r.Fam != c.Fam {
				continue
			}
			nn := r.W() - p.hb
			// intersect?
			lo1, hi1 := c.Addr, new(big.Int).Add(c.Addr, pow2(c.W()-c.Len))
			lo2, hi2 := r.Addr, new(big.Int).Add(r.Addr, pow2(r.W()-r.Len))
			if hi1.Cmp(lo2) <= 0 || hi2.Cmp(lo1) <= 0 {
				continue
			}
			if c.Len > nn { // smaller than a block of this range
				return false
			}
		}
	}
	return true
}

// orderSel: selectors all satisfied by the label set `orderLabels`, with 0, 1 or 2 requirements
var orderLabels = "zone=a,gpu=1,rack=7"
var orderSel = []*corev1.NodeSelector{
	nil, nil, sel(rq("zone", "In", "a")), sel(rq("zone", "In", "a", "b")), sel(rq("zone", "NotIn", "b")), sel(rq("gpu", "Exists")),
	sel(rq("rack", "Gt", "5")), sel(rq("rack", "Lt", "10")), sel(rq("zone", "In", "a"), rq("gpu", "Exists")), sel(rq("rack", "Gt", "5"), rq("rack", "Lt", "10")),
	sel(rq("zone", "In", "a"), rq("rack", "Gt", "5")), {NodeSelectorTerms: []corev1.NodeSelectorTerm{}},
}
var orderRanges = []rangeChoice{
	{"10.0.0.0/24", "", 6}, {"10.0.1.0/24", "", 6}, {"10.0.2.0/24", "", 7}, {"10.0.3.0/25", "", 6}, {"10.0.4.0/26", "", 4}, {"10.0.5.0/27", "", 4},
	{"10.0.6.0/28", "", 4}, {"10.0.7.0/26", "", 5}, {"10.0.8.0/25", "", 5}, {"10.0.9.0/27", "", 5},
	// ranges whose order as strings differs from their numeric order (ties down to the last key)
	{"10.0.20.0/24", "", 6}, {"10.0.100.0/24", "", 6}, {"10.0.30.0/27", "", 4}, {"10.0.200.0/27", "", 4},
}

func (g *gen) pickPlans() {
	rng := g.rng
	if g.profile == "order" {
		names := []string{"a", "b", "c", "d", "e"}
		n := 3 + rng.Intn(3)
		seen := map[string]bool{}
		for len(g.plans) < n {
			rc := orderRanges[rng.Intn(len(orderRanges))]
			s := orderSel[rng.Intn(len(orderSel))]
			key, _ := ipam.VerifNodeSelectorKey(&v1.ClusterCIDR{Spec: v1.ClusterCIDRSpec{NodeSelector: s.DeepCopy()}})
			sig := key + "/" + rc.v4 + "/" + strconv.Itoa(rc.hb)
			if seen[sig] {
				continue
			}
			seen[sig] = true
			g.plans = append(g.plans, ccPlan{names[len(g.plans)], rc.hb, rc.v4, rc.v6, s})
		}
		return
	}
	n := 1 + rng.Intn(5)
	names := []string{"a", "b", "c", "d", "e"}
	seen := map[string]bool{}
	for len(g.plans) < n {
		rc := rangePalette[rng.Intn(len(rangePalette))]
		s := selPalette[rng.Intn(len(selPalette))]
		prim := rc.v4
		if prim == "" {
			prim = rc.v6
		}
		key, kerr := ipam.VerifNodeSelectorKey(&v1.ClusterCIDR{Spec: v1.ClusterCIDRSpec{NodeSelector: s.DeepCopy()}})
		if kerr != nil {
			key = "!" + encRawSel(s)
		}
		sig := key + "/" + prim + "/" + strconv.Itoa(rc.hb)
		if seen[sig] {
			continue // would be a full tie on all five sort keys
		}
		seen[sig] = true
		g.plans = append(g.plans, ccPlan{names[len(g.plans)], rc.hb, rc.v4, rc.v6, s})
	}
}

func (g *gen) nodeNames() []string { return []string{"n1", "n2", "n3", "n4", "n5", "n6"} }

func (g *gen) randWs(n int) string {
	if g.rng.Intn(4) != 0 {
		return "-"
	}
	var p []string
	for i := 0; i < n; i++ {
		p = append(p, []string{"ok", "fail", "lost", "fail"}[g.rng.Intn(4)])
	}
	return strings.Join(p, ",")
}

func (g *gen) stale(kind string) []string {
	// names whose cache differs from the API (or that exist in only one of them)
	var out []string
	w := g.w
	if w.h == nil {
		return nil
	}
	if kind == "node" {
		names := map[string]bool{}
		for n := range w.nodes {
			names[n] = true
		}
		for _, k := range w.nodeInf.inf.indexer.ListKeys() {
			names[k] = true
		}
		for n := range names {
			cur, ok := w.nodes[n]
			o, ex, _ := w.nodeInf.inf.indexer.GetByKey(n)
			if ok != ex || (ok && (nodeStr(cur) != nodeStr(o.(*corev1.Node)) || cur.UID != o.(*corev1.Node).UID || cur.ResourceVersion != o.(*corev1.Node).ResourceVersion)) {
				out = append(out, n)
			}
		}
	} else {
		names := map[string]bool{}
		for n := range w.ccs {
			names[n] = true
		}
		for _, k := range w.ccInf.inf.indexer.ListKeys() {
			names[k] = true
		}
		for n := range names {
			cur, ok := w.ccs[n]
			o, ex, _ := w.ccInf.inf.indexer.GetByKey(n)
			if ok != ex || (ok && ccObjStr(cur) != ccObjStr(o.(*v1.ClusterCIDR))) {
				out = append(out, n)
			}
		}
	}
	sortStrings(out)
	return out
}

func sortStrings(s []string) {
	for i := 1; i < len(s); i++ {
		for j := i; j > 0 && s[j] < s[j-1]; j-- {
			s[j], s[j-1] = s[j-1], s[j]
		}
	}
}

func (g *gen) bootLine(withSvc bool) string {
	rng := g.rng
	s1, s2 := "-", "-"
	if withSvc {
		svc4 := []string{"10.0.0.0/28", "10.0.0.32/27", "10.0.0.0/22", "10.0.0.128/25", "10.0.0.17/32", "192.168.0.0/16"}
		svc6 := []string{"fd00::/126", "fd00::/118", "fd00::80/121", "fd00::f0/124", "fc00::/7", "fd00:0:0:15::/108", "fd00:0:0:1a::/63"}
		pick := func(l []string) string {
			_, n, _ := parseCIDR(l[rng.Intn(len(l))])
			c, _ := canon.FromIPNet(n)
			return c.Tok()
		}
		switch rng.Intn(4) {
		case 0:
			s1 = pick(svc4)
		case 1:
			s1 = pick(svc6)
		case 2:
			s1, s2 = pick(svc4), pick(svc6)
		case 3:
			s1, s2 = pick(svc6), pick(svc4)
		}
	}
	return fmt.Sprintf("boot %s %s %s", s1, s2, g.randWsList())
}

func (g *gen) randWsList() string {
	if g.rng.Intn(4) != 0 {
		return "-"
	}
	var p []string
	for i := 0; i < 1+g.rng.Intn(4); i++ {
		p = append(p, []string{"ok", "fail", "lost"}[g.rng.Intn(3)])
	}
	return strings.Join(p, ",")
}

// one history
func genHistory(o *Out, rng *rand.Rand, id int, length int, profile string) []string {
	g := &gen{rng: rng, w: newWorld(), o: o, stat: o.Stats, profile: profile}
	o.Emit(fmt.Sprintf("hist %d", id), "hist")
	if profile == "frag" || profile == "fragboot" {
		g.fragHistory(length, profile == "fragboot")
		return g.lines
	}
	g.pickPlans()
	created := map[string]bool{}
	// initial population
	perm := rng.Perm(len(g.plans))
	for _, pi := range perm {
		p := g.plans[pi]
		if rng.Intn(3) > 0 {
			g.do(g.ccLineSpelled(p))
			created[p.name] = true
			if rng.Intn(7) == 0 {
				g.do(fmt.Sprintf("ccGen %s 2", p.name))
			}
		}
	}
	initialNodes := rng.Intn(4)
	if profile == "order" {
		initialNodes = 0
	}
	for _, n := range g.nodeNames()[:initialNodes] {
		cs := "-"
		ls := labelPalette[rng.Intn(len(labelPalette))]
		if rng.Intn(2) == 0 {
			cs = g.spellNodeToks(g.presetFor(ls), n)
		}
		g.do(fmt.Sprintf("nodeAdd %s %s %s", n, ls, cs))
	}
	if profile == "order" {
		g.orderHistory(length)
		return g.lines
	}
	g.do(g.bootLine(profile == "svc" || rng.Intn(8) == 0))
	if (profile == "" || profile == "restart") && rng.Intn(6) == 0 {
		g.lifeHistory()
		g.stat["lifecycle-histories"]++
		return g.lines
	}
	for k := 0; k < length && !g.dead; k++ {
		w := g.w
		x := rng.Intn(100)
		if profile == "restart" && rng.Intn(8) == 0 {
			x = 99
		}
		if profile == "restart" && len(g.lines) > 0 && (strings.Contains(g.lines[len(g.lines)-1], "lost") || strings.Contains(g.lines[len(g.lines)-1], "fail")) && rng.Intn(2) == 0 {
			x = 99 // a crash right after (lost) or right before (fail) the write
		}
		if profile == "mal" && rng.Intn(6) == 0 {
			g.malEvent()
			continue
		}
		switch {
		case x < 9: // node appears
			n := g.nodeNames()[rng.Intn(6)]
			cs := "-"
			ls := labelPalette[rng.Intn(len(labelPalette))]
			if rng.Intn(5) == 0 {
				cs = g.spellNodeToks(g.presetFor(ls), n)
			}
			g.do(fmt.Sprintf("nodeAdd %s %s %s", n, ls, cs))
		case x < 14:
			if ks := sortedMapKeys(w.nodes); len(ks) > 0 {
				g.do("nodeDel " + ks[rng.Intn(len(ks))])
			}
		case x < 17:
			if ks := sortedMapKeys(w.nodes); len(ks) > 0 {
				g.do(fmt.Sprintf("nodeLabels %s %s", ks[rng.Intn(len(ks))], labelPalette[rng.Intn(len(labelPalette))]))
			}
		case x < 18:
			if ks := sortedMapKeys(w.nodes); len(ks) > 0 {
				g.do("nodeDeleting " + ks[rng.Intn(len(ks))])
			}
		case x < 23:
			p := g.plans[rng.Intn(len(g.plans))]
			if _, exists := w.ccs[p.name]; !exists && profile == "mal" && g.fullTie(p.sel, p.v4, p.v6, p.hb) {
				break // would tie, on all five sort keys, with a ClusterCIDR the robustness events created
			}
			g.do(g.ccLineSpelled(p))
		case x < 28:
			if ks := sortedMapKeys(w.ccs); len(ks) > 0 {
				g.do("ccDel " + ks[rng.Intn(len(ks))])
			}
		case x < 29:
			if ks := sortedMapKeys(w.ccs); len(ks) > 0 {
				switch rng.Intn(3) {
				case 0:
					g.do(fmt.Sprintf("ccGen %s %d", ks[rng.Intn(len(ks))], 2))
				case 1:
					g.do(fmt.Sprintf("ccAddFin %s example.com/other", ks[rng.Intn(len(ks))]))
				case 2:
					// somebody else hands pod CIDRs to a node that has none
					var free []string
					for _, n := range sortedMapKeys(w.nodes) {
						if len(w.nodes[n].Spec.PodCIDRs) == 0 {
							free = append(free, n)
						}
					}
					if len(free) > 0 {
						n := free[rng.Intn(len(free))]
						cs := g.firstBlocks()
						if pv := g.predictLeading(n); pv != "" && rng.Intn(2) == 0 {
							cs = pv
						}
						if cs != "-" {
							g.do(fmt.Sprintf("nodeSetCIDRs %s %s", n, cs))
							// ... and the node's own item, already queued, runs while the cache catches up
							if w.h != nil && w.nodeQ.pending[n] && rng.Intn(3) > 0 {
								g.do(fmt.Sprintf("procNode %s 1 %s", n, g.randWs(3)))
							}
						}
					}
				}
			}
		case x < 47:
			if st := g.stale("node"); len(st) > 0 {
				g.do(fmt.Sprintf("deliverNode %s %d", st[rng.Intn(len(st))], b2i(rng.Intn(4) == 0)))
			} else if ks := sortedMapKeys(w.nodes); len(ks) > 0 && rng.Intn(3) == 0 {
				g.do(fmt.Sprintf("deliverNode %s 0", ks[rng.Intn(len(ks))])) // resync
			}
		case x < 57:
			if st := g.stale("cc"); len(st) > 0 {
				g.do("deliverCC " + st[rng.Intn(len(st))])
			} else if ks := sortedMapKeys(w.ccs); len(ks) > 0 && rng.Intn(3) == 0 {
				g.do("deliverCC " + ks[rng.Intn(len(ks))])
			}
		case x < 83:
			if w.h != nil {
				if ks := w.nodeQ.keys(); len(ks) > 0 {
					n := ks[rng.Intn(len(ks))]
					refresh := rng.Intn(10) == 0
					// a retry after a lost answer, or after somebody else wrote the node, usually meets a cache that catches up mid-item
					if cur, ok := w.nodes[n]; ok && len(cur.Spec.PodCIDRs) > 0 {
						if o, ex, _ := w.nodeInf.inf.indexer.GetByKey(n); ex && len(o.(*corev1.Node).Spec.PodCIDRs) == 0 {
							refresh = rng.Intn(3) > 0
						}
					}
					g.do(fmt.Sprintf("procNode %s %d %s", n, b2i(refresh), g.randWs(3)))
					// retry storm: an item that keeps failing is retried far beyond any plausible retry budget
					if rng.Intn(20) == 0 && strings.Contains(g.last, "res=err") {
						for t := 0; t < 18 && !g.dead && w.nodeQ.pending[n] && strings.Contains(g.last, "res=err"); t++ {
							g.do(fmt.Sprintf("procNode %s 0 fail,fail,fail", n))
						}
						g.stat["retry-storm-node"]++
					}
				}
			}
		case x < 97:
			if w.h != nil {
				if ks := w.ccQ.keys(); len(ks) > 0 {
					wo := "-"
					if rng.Intn(5) == 0 {
						wo = []string{"fail", "lost"}[rng.Intn(2)]
					}
					c := ks[rng.Intn(len(ks))]
					g.do(fmt.Sprintf("procCC %s %s", c, wo))
					if rng.Intn(20) == 0 && strings.Contains(g.last, "res=err") {
						for t := 0; t < 18 && !g.dead && w.ccQ.pending[c] && strings.Contains(g.last, "res=err"); t++ {
							g.do(fmt.Sprintf("procCC %s fail", c))
						}
						g.stat["retry-storm-cc"]++
					}
				}
			}
		default:
			g.do(g.bootLine(rng.Intn(6) == 0))
		}
	}
	if profile == "drain" {
		g.drain()
	}
	return g.lines
}

// fragRanges: pairwise disjoint ranges, one per ClusterCIDR name (the standing assumption of the Lean history theorems)
var fragRanges = map[string]rangeChoice{
	"a": {"10.0.0.0/26", "", 4}, "b": {"10.0.1.0/26", "fd00::/122", 4}, "c": {"10.0.2.0/27", "", 4},
	"d": {"", "fd00::100/122", 4}, "e": {"10.0.3.0/28", "", 4}, "f": {"10.0.4.0/25", "fd00::200/121", 5},
}
var fragSel = []*corev1.NodeSelector{
	nil, nil, sel(rq("zone", "In", "a")), sel(rq("zone", "In", "a", "b")), sel(rq("zone", "NotIn", "b")), sel(rq("gpu", "Exists")),
	sel(rq("gpu", "DoesNotExist")), sel(rq("zone", "In", "a"), rq("gpu", "Exists")), sel(rq("rack", "Gt", "5")),
	{NodeSelectorTerms: []corev1.NodeSelectorTerm{}}, sel(rq("rack", "Gt", "x")),
}

// fragHistory: a random history inside the fragment the Lean theorems of Safety.lean / Tight.lean quantify over -
// ClusterCIDRs with pairwise disjoint ranges (each name at most once), one start, no label edits, nobody else writes pod
// CIDRs, node writes succeed or fail (never applied-but-reported-failed), a node name is re-used only after its deletion
// was delivered, delete notifications carry the final state.  Inside it the judge runs without any envelope.
func (g *gen) fragHistory(length int, boots bool) {
	rng := g.rng
	w := g.w
	g.do("boot - - -")
	usedCC := map[string]bool{}
	ccNames := []string{"a", "b", "c", "d", "e", "f"}
	addCC := func(c string) {
		usedCC[c] = true
		rc := fragRanges[c]
		hb := rc.hb
		if rng.Intn(3) == 0 {
			hb++
		}
		g.do(fmt.Sprintf("ccAdd %s %d %s %s %s", c, hb, encField(rc.v4), encField(rc.v6), encRawSel(fragSel[rng.Intn(len(fragSel))])))
	}
	// usually some ClusterCIDRs are there before the first node
	for _, pi := range rng.Perm(len(ccNames))[:rng.Intn(4)] {
		c := ccNames[pi]
		addCC(c)
		g.do("deliverCC " + c)
		g.do("procCC " + c + " -")
	}
	if boots && rng.Intn(3) == 0 {
		g.lingeringDeletion(addCC)
	}
	for k := 0; k < length+20 && !g.dead; k++ {
		x := rng.Intn(100)
		if boots {
			// restarts at any instant; deletions that linger (finalizers of other controllers) are frequent
			switch y := rng.Intn(100); {
			case y < 4:
				ws := "-"
				if rng.Intn(4) == 0 {
					ws = g.randWsList()
				}
				g.do("boot - - " + ws)
				g.stat["fragment-restarts"]++
				continue
			case y < 7:
				x = 15
			}
		}
		switch {
		case x < 10: // a node appears (name unknown to API and cache)
			n := g.nodeNames()[rng.Intn(6)]
			_, inAPI := w.nodes[n]
			_, inCache, _ := w.nodeInf.inf.indexer.GetByKey(n)
			if !inAPI && !inCache {
				g.do(fmt.Sprintf("nodeAdd %s %s -", n, labelPalette[rng.Intn(len(labelPalette))]))
			}
		case x < 15:
			if ks := sortedMapKeys(w.nodes); len(ks) > 0 {
				g.do("nodeDel " + ks[rng.Intn(len(ks))])
			}
		case x < 18:
			if ks := sortedMapKeys(w.nodes); len(ks) > 0 {
				g.do("nodeDeleting " + ks[rng.Intn(len(ks))])
			}
		case x < 27: // a ClusterCIDR appears (each name once)
			c := ccNames[rng.Intn(len(ccNames))]
			if !usedCC[c] {
				addCC(c)
			}
		case x < 31:
			if ks := sortedMapKeys(w.ccs); len(ks) > 0 {
				c := ks[rng.Intn(len(ks))]
				if boots {
					// the fragment with restarts: deleted only once the controller's finalizer is on it, or before the
					// controller has seen it at all (finding P15 otherwise)
					_, cached, _ := w.ccInf.inf.indexer.GetByKey(c)
					if !contains(w.ccs[c].Finalizers, finalizer) && cached {
						break
					}
				}
				g.do("ccDel " + c)
			}
		case x < 33:
			if ks := sortedMapKeys(w.ccs); len(ks) > 0 {
				if rng.Intn(2) == 0 && !boots {
					g.do(fmt.Sprintf("ccGen %s 2", ks[rng.Intn(len(ks))]))
				} else {
					g.do(fmt.Sprintf("ccAddFin %s example.com/other", ks[rng.Intn(len(ks))]))
				}
			}
		case x < 50:
			if st := g.stale("node"); len(st) > 0 {
				n := st[rng.Intn(len(st))]
				_, inAPI := w.nodes[n]
				g.do(fmt.Sprintf("deliverNode %s %d", n, b2i(inAPI && rng.Intn(4) == 0)))
			} else if ks := sortedMapKeys(w.nodes); len(ks) > 0 && rng.Intn(3) == 0 {
				g.do(fmt.Sprintf("deliverNode %s 0", ks[rng.Intn(len(ks))]))
			}
		case x < 60:
			if st := g.stale("cc"); len(st) > 0 {
				g.do("deliverCC " + st[rng.Intn(len(st))])
			} else if ks := sortedMapKeys(w.ccs); len(ks) > 0 && rng.Intn(3) == 0 {
				g.do("deliverCC " + ks[rng.Intn(len(ks))])
			}
		case x < 86:
			if ks := w.nodeQ.keys(); len(ks) > 0 {
				n := ks[rng.Intn(len(ks))]
				ws := []string{"-", "-", "-", "fail,ok", "fail,fail,fail", "fail,fail,ok", "ok"}[rng.Intn(7)]
				g.do(fmt.Sprintf("procNode %s %d %s", n, b2i(rng.Intn(5) == 0), ws))
			}
		default:
			if ks := w.ccQ.keys(); len(ks) > 0 {
				wo := "-"
				if rng.Intn(4) == 0 {
					wo = []string{"fail", "lost"}[rng.Intn(2)]
				}
				g.do(fmt.Sprintf("procCC %s %s", ks[rng.Intn(len(ks))], wo))
			}
		}
	}
	g.stat["fragment-histories"]++
}

// lingeringDeletion: a small pool is filled, one of its nodes is marked for deletion and lingers (another controller's
// finalizer), its block is released and goes to a newcomer; then the controller restarts and the deletion completes
// (or the node's item is processed), and more newcomers are served — random choices at every step.
func (g *gen) lingeringDeletion(addCC func(string)) {
	rng := g.rng
	w := g.w
	c := []string{"c", "e", "a"}[rng.Intn(3)]
	if _, ok := w.ccs[c]; !ok {
		addCC(c)
	}
	g.do("deliverCC " + c)
	g.do("procCC " + c + " -")
	serve := func(n string) {
		if _, ok := w.nodes[n]; !ok {
			g.do(fmt.Sprintf("nodeAdd %s %s -", n, []string{"zone=a", "gpu=1,zone=a", "-", "zone=a,rack=7"}[rng.Intn(4)]))
		}
		g.do("deliverNode " + n + " 0")
		if w.nodeQ.pending[n] {
			g.do(fmt.Sprintf("procNode %s 0 -", n))
		}
		if rng.Intn(2) == 0 {
			g.do("deliverNode " + n + " 0")
		}
	}
	names := g.nodeNames()
	k := 1 + rng.Intn(4)
	for _, n := range names[:k] {
		serve(n)
	}
	victim := names[rng.Intn(k)]
	g.do("nodeDeleting " + victim)
	if rng.Intn(4) > 0 {
		g.do("deliverNode " + victim + " 0")
		if w.nodeQ.pending[victim] && rng.Intn(4) > 0 {
			g.do(fmt.Sprintf("procNode %s 0 -", victim))
		}
	}
	for _, n := range names[k : k+1+rng.Intn(2)] {
		serve(n)
	}
	g.do("boot - - -")
	g.stat["fragment-restarts"]++
	switch rng.Intn(3) {
	case 0:
		g.do("nodeDel " + victim)
		g.do("deliverNode " + victim + " 0")
	case 1:
		if w.nodeQ.pending[victim] {
			g.do(fmt.Sprintf("procNode %s 0 -", victim))
		}
	}
	for _, n := range names[k+1:] {
		if rng.Intn(3) > 0 {
			serve(n)
		}
	}
	g.stat["lingering-deletion-prefixes"]++
}

// lifeHistory: a directed history through the whole life of assignments and ClusterCIDRs — nodes served with
// every write outcome, retried while the cache catches up, re-synced, (restart), the serving ClusterCIDRs deleted
// while nodes depend on them, nodes deleted, ClusterCIDRs released — with random choices at every step.
func (g *gen) lifeHistory() {
	rng := g.rng
	w := g.w
	settleCC := func() {
		for _, n := range g.stale("cc") {
			g.do("deliverCC " + n)
		}
		for _, k := range w.ccQ.keys() {
			wo := "-"
			if rng.Intn(6) == 0 {
				wo = []string{"fail", "lost"}[rng.Intn(2)]
			}
			g.do("procCC " + k + " " + wo)
		}
	}
	for _, p := range g.plans {
		if _, ok := w.ccs[p.name]; !ok {
			g.do(g.ccLineSpelled(p))
		}
	}
	settleCC()
	settleCC()
	nodes := g.nodeNames()[:2+rng.Intn(3)]
	for _, n := range nodes {
		if _, ok := w.nodes[n]; !ok {
			g.do(fmt.Sprintf("nodeAdd %s %s -", n, labelPalette[rng.Intn(len(labelPalette))]))
		}
		g.do("deliverNode " + n + " 0")
	}
	for _, n := range nodes {
		if !w.nodeQ.pending[n] {
			continue
		}
		ws := []string{"-", "-", "lost,lost,lost", "fail,ok", "fail,fail,fail", "lost,ok"}[rng.Intn(6)]
		// the cache may already be behind when the item starts (an older notification queued the key)
		g.do(fmt.Sprintf("procNode %s %d %s", n, b2i(rng.Intn(3) == 0), ws))
		for t := 0; t < 2 && w.nodeQ.pending[n] && !g.dead; t++ {
			// a retry, or the item of the next notification, meets a cache that has caught up (or not)
			g.do(fmt.Sprintf("procNode %s %d -", n, b2i(rng.Intn(3) > 0)))
		}
	}
	// re-sync
	for _, n := range nodes {
		g.do("deliverNode " + n + " 0")
		if w.nodeQ.pending[n] && rng.Intn(3) > 0 {
			g.do(fmt.Sprintf("procNode %s 0 -", n))
		}
	}
	if g.profile == "restart" || rng.Intn(3) == 0 {
		g.do(g.bootLine(false))
		for _, k := range w.nodeQ.keys() {
			if rng.Intn(2) == 0 {
				g.do(fmt.Sprintf("procNode %s 0 -", k))
			}
		}
	}
	// the ClusterCIDRs go while nodes depend on them
	for _, c := range sortedMapKeys(w.ccs) {
		if rng.Intn(3) > 0 {
			g.do("ccDel " + c)
		}
	}
	settleCC()
	if rng.Intn(2) == 0 {
		// a new node meanwhile
		n := g.nodeNames()[5]
		g.do(fmt.Sprintf("nodeAdd %s %s -", n, labelPalette[rng.Intn(len(labelPalette))]))
		g.do("deliverNode " + n + " 0")
		if w.nodeQ.pending[n] {
			g.do(fmt.Sprintf("procNode %s 0 -", n))
		}
	}
	settleCC()
	// the nodes go
	for _, n := range nodes {
		if rng.Intn(4) == 0 {
			g.do("nodeDeleting " + n)
			g.do("deliverNode " + n + " 0")
			if w.nodeQ.pending[n] {
				g.do(fmt.Sprintf("procNode %s 0 -", n))
			}
		}
		if rng.Intn(5) > 0 {
			g.do("nodeDel " + n)
			g.do(fmt.Sprintf("deliverNode %s %d", n, b2i(rng.Intn(5) == 0)))
			if w.nodeQ.pending[n] {
				g.do(fmt.Sprintf("procNode %s 0 -", n))
			}
		}
	}
	settleCC()
	settleCC()
	// and what is left serves a newcomer
	n := g.nodeNames()[4]
	if _, ok := w.nodes[n]; !ok {
		g.do(fmt.Sprintf("nodeAdd %s %s -", n, labelPalette[rng.Intn(len(labelPalette))]))
	}
	g.do("deliverNode " + n + " 0")
	if w.nodeQ.pending[n] {
		g.do(fmt.Sprintf("procNode %s 0 -", n))
	}
}

// orderHistory: many nodes with one label set against 3..5 ClusterCIDRs that all select them, created in
// arbitrary order, served until the higher-priority ones are exhausted (C07).
func (g *gen) orderHistory(length int) {
	rng := g.rng
	g.do("boot - - -")
	nodeNo := 0
	for k := 0; k < length && !g.dead; k++ {
		w := g.w
		x := rng.Intn(100)
		switch {
		case x < 12:
			p := g.plans[rng.Intn(len(g.plans))]
			g.do(ccLine(p))
		case x < 22:
			if st := g.stale("cc"); len(st) > 0 {
				g.do("deliverCC " + st[rng.Intn(len(st))])
			}
		case x < 34:
			if ks := w.ccQ.keys(); len(ks) > 0 {
				g.do("procCC " + ks[rng.Intn(len(ks))] + " -")
			}
		case x < 52:
			nodeNo++
			g.do(fmt.Sprintf("nodeAdd m%d %s -", nodeNo, orderLabels))
		case x < 70:
			if st := g.stale("node"); len(st) > 0 {
				g.do("deliverNode " + st[rng.Intn(len(st))] + " 0")
			}
		case x < 94:
			if ks := w.nodeQ.keys(); len(ks) > 0 {
				g.do("procNode " + ks[rng.Intn(len(ks))] + " 0 -")
			}
		case x < 97:
			if ks := sortedMapKeys(w.nodes); len(ks) > 0 {
				g.do("nodeDel " + ks[rng.Intn(len(ks))])
			}
		default:
			g.do("boot - - -")
		}
	}
}

// drain: changes stop, writes succeed, everything pending is delivered and processed until nothing moves.
func (g *gen) drain() {
	if g.w.h == nil || g.dead {
		return
	}
	sig := func() string { return g.w.apiStr() + g.w.snapshot() + g.w.viewStr() }
	for round := 0; round < 60 && !g.dead; round++ {
		before := sig()
		for _, n := range g.stale("cc") {
			g.do("deliverCC " + n)
		}
		for _, n := range g.stale("node") {
			g.do("deliverNode " + n + " 0")
		}
		for _, k := range g.w.ccQ.keys() {
			g.do("procCC " + k + " -")
		}
		for _, k := range g.w.nodeQ.keys() {
			g.do("procNode " + k + " 0 -")
		}
		if sig() == before && len(g.stale("cc")) == 0 && len(g.stale("node")) == 0 {
			g.do("mark drained")
			return
		}
	}
	g.do("mark undrained")
}

var malRanges4 = []string{"garbage", "10.0.0.0", "10.0.0.0/33", "300.0.0.0/8", "fd00::/64", "fd00::/120", "::ffff:10.0.0.0/104", "10.0.0.9/24", "10.0.0.0/24", "10.0.0.0/28", "0.0.0.0/0"}
var malRanges6 = []string{"nonsense", "fd00::", "fd00::/129", "10.0.0.0/8", "10.0.0.0/24", "::ffff:10.0.0.0/104", "FD00::/120", "fd00::5/120", "fd00::/120", "fd00::/100", "::/0"}
var malHostBits = []int{-2147483648, -5, -1, 0, 1, 3, 4, 8, 9, 16, 17, 24, 28, 29, 32, 33, 64, 100, 104, 120, 127, 128, 129, 2147483647}
var malNodeCIDRs = []string{"?garbage", "?10.0.0.0", "?10.0.0.0/33", "?fd00::/129", "4:ac100000/28", "6:fe800000000000000000000000000000/64", "4:a000000/8", "6:fd000000000000000000000000000000/8", "4:a000005/32", "6:fd000000000000000000000000000001/128"}

// fullTie: an existing ClusterCIDR has the same selector key, the same per-node size and the same primary range
func (g *gen) fullTie(sel *corev1.NodeSelector, v4, v6 string, hb int) bool {
	keyOf := func(s *corev1.NodeSelector) string {
		k, err := ipam.VerifNodeSelectorKey(&v1.ClusterCIDR{Spec: v1.ClusterCIDRSpec{NodeSelector: s.DeepCopy()}})
		if err != nil {
			return "!" + encRawSel(s)
		}
		return k
	}
	canonOf := func(a, b string) string {
		p := a
		if p == "" {
			p = b
		}
		if _, n, err := parseCIDR(p); err == nil {
			return n.String()
		}
		return p
	}
	k, pr := keyOf(sel), canonOf(v4, v6)
	for _, c := range g.w.ccs {
		if int(c.Spec.PerNodeHostBits) == hb && keyOf(c.Spec.NodeSelector) == k && canonOf(c.Spec.IPv4, c.Spec.IPv6) == pr {
			return true
		}
	}
	return false
}

// malEvent injects hostile object content (C12).
func (g *gen) malEvent() {
	rng := g.rng
	switch rng.Intn(5) {
	case 0, 1: // ClusterCIDR with arbitrary strings / host bits / selector
		name := []string{"x", "y", "z"}[rng.Intn(3)]
		v4, v6 := "", ""
		if rng.Intn(4) > 0 {
			v4 = malRanges4[rng.Intn(len(malRanges4))]
		}
		if rng.Intn(3) > 0 {
			v6 = malRanges6[rng.Intn(len(malRanges6))]
		}
		v4, v6 = strings.TrimSpace(v4), strings.TrimSpace(v6)
		hb := malHostBits[rng.Intn(len(malHostBits))]
		msel := selPalette[rng.Intn(len(selPalette))]
		if g.fullTie(msel, v4, v6, hb) {
			// equal to an existing ClusterCIDR on all five sort keys: their relative order is the heap's business
			// (container/heap on ties), which the model does not claim to know
			return
		}
		g.do(fmt.Sprintf("ccAdd %s %d %s %s %s", name, hb, encFieldHB(v4, hb), encFieldHB(v6, hb), encRawSel(msel)))
	case 2: // node with pod CIDRs nobody can make sense of, or of a family / range no ClusterCIDR has
		n := g.nodeNames()[rng.Intn(6)]
		g.do(fmt.Sprintf("nodeAdd %s %s %s", n, labelPalette[rng.Intn(len(labelPalette))], malNodeCIDRs[rng.Intn(len(malNodeCIDRs))]))
	case 3: // tombstone delivery
		if st := g.stale("node"); len(st) > 0 {
			if rng.Intn(3) == 0 {
				g.do(fmt.Sprintf("deliverNode %s 1 X@nil", st[rng.Intn(len(st))]))
			} else {
				g.do(fmt.Sprintf("deliverNode %s 1", st[rng.Intn(len(st))]))
			}
		}
	case 4: // restart with service ranges of either family
		g.do(g.bootLine(true))
	}
}

func b2i(b bool) int {
	if b {
		return 1
	}
	return 0
}

func runHist(o *Out, rng *rand.Rand, thorough bool, replay string, profile string) {
	watchdogInit()
	if replay != "" {
		replayHist(o, replay)
		return
	}
	n, length := 1200, 50
	if thorough {
		n, length = 12000, 70
	}
	if v := os.Getenv("VERIF_HIST_N"); v != "" {
		n, _ = strconv.Atoi(v)
	}
	for i := 0; i < n; i++ {
		before := snapshotStats(o)
		lines := genHistory(o, rng, i, length, profile)
		nontrivial := o.Stats["obs:patch"] > before["obs:patch"] && (o.Stats["obs:res=err"] > before["obs:res=err"] || o.Stats["nodeDel"] > before["nodeDel"])
		o.Case(strings.Join(lines, "\n"), nontrivial)
		if i%60 == 0 {
			o.Sample(strings.Join(lines, " ; "))
		}
		if o.Stats["hangs"] >= 3 {
			// every hung item leaves a goroutine spinning or blocked behind it: three are evidence enough, the rest
			// of the stream would only be slower
			o.Stats["stream-cut-short-after-hangs"] = 1
			break
		}
	}
}

func snapshotStats(o *Out) map[string]int {
	m := map[string]int{}
	for k, v := range o.Stats {
		m[k] = v
	}
	return m
}

func watchdogInit() {
	if v := os.Getenv("VERIF_WATCHDOG_S"); v != "" {
		if s, err := strconv.Atoi(v); err == nil {
			watchdog = time.Duration(s) * time.Second
		}
	}
}

// replayHist re-runs op lines from a file.
func replayHist(o *Out, file string) {
	data, err := os.ReadFile(file)
	if err != nil {
		panic(err)
	}
	w := newWorld()
	dead := false
	for _, line := range strings.Split(string(data), "\n") {
		line = strings.TrimSpace(line)
		if line == "" || strings.HasPrefix(line, "#") {
			continue
		}
		if strings.HasPrefix(line, "hist ") {
			w = newWorld()
			dead = false
			o.Emit(line, "hist")
			continue
		}
		if dead {
			continue
		}
		r := w.exec(line)
		o.Emit(line, r.obs)
		if r.hung {
			dead = true
		}
	}
}
