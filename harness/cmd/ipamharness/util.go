package main

import (
	"fmt"
	"math/big"
	"net"
	"strings"

	netutils "k8s.io/utils/net"
)

// parseCIDR parses either a protocol token (`4:a000100/28`) or a textual CIDR with Go's sloppy parser.
func parseCIDR(s string) (net.IP, *net.IPNet, error) {
	if strings.HasPrefix(s, "4:") || strings.HasPrefix(s, "6:") {
		c, ok := tokToCidr(s)
		if !ok {
			return nil, nil, fmt.Errorf("bad token %q", s)
		}
		n := c.IPNet()
		return n.IP, n, nil
	}
	return netutils.ParseCIDRSloppy(s)
}

var _ = big.NewInt
