package main

import (
	"fmt"
	"math/big"
	"math/rand"
	"net"

	"ipamverif/harness/internal/canon"

	cidrset "sigs.k8s.io/node-ipam-controller/pkg/controller/ipam/multicidrset"
)

func randBits(rng *rand.Rand, w int) *big.Int {
	b := make([]byte, w/8)
	rng.Read(b)
	return new(big.Int).SetBytes(b)
}

func pow2(k int) *big.Int { return new(big.Int).Lsh(big.NewInt(1), uint(k)) }

// geoOps exercises the three mapping functions of one pool.
func geoOps(o *Out, rng *rand.Rand, s *cidrset.MultiCIDRSet, r canon.Cidr, n int, thorough bool) {
	w := r.W()
	maxv := new(big.Int).Lsh(big.NewInt(1), uint(n-r.Len))
	// interesting indices
	idxSet := map[string]*big.Int{}
	add := func(x *big.Int) {
		if x.Sign() >= 0 && x.Cmp(maxv) < 0 {
			idxSet[x.String()] = new(big.Int).Set(x)
		}
	}
	add(big.NewInt(0))
	add(big.NewInt(1))
	add(new(big.Int).Sub(maxv, big.NewInt(1)))
	add(new(big.Int).Sub(maxv, big.NewInt(2)))
	for k := 0; k < n-r.Len; k++ {
		p := pow2(k)
		add(p)
		add(new(big.Int).Sub(p, big.NewInt(1)))
		add(new(big.Int).Add(p, big.NewInt(1)))
	}
	nr := 3
	if thorough {
		nr = 12
	}
	for j := 0; j < nr; j++ {
		add(new(big.Int).Rand(rng, maxv))
	}
	if thorough && maxv.Cmp(big.NewInt(1<<12)) <= 0 || (thorough && r.Fam == 6 && r.Len < 64 && n > 64) {
		for i := int64(0); big.NewInt(i).Cmp(maxv) < 0; i++ {
			add(big.NewInt(i))
		}
	}
	bs := pow2(w - n)
	for _, ix := range idxSet {
		i := int(ix.Int64())
		o.Count("block")
		blk, err := s.VerifIndexToCIDRBlock(i)
		if err != nil {
			o.Emit(fmt.Sprintf("block %d", i), "blk err")
			continue
		}
		o.Emit(fmt.Sprintf("block %d", i), "blk "+canon.TokNet(blk))
		// expected block start, computed independently
		start := new(big.Int).Add(r.Addr, new(big.Int).Mul(ix, bs))
		// address inside the block
		off := new(big.Int)
		if bs.Cmp(big.NewInt(1)) > 0 {
			off.Rand(rng, bs)
		}
		for _, a := range []*big.Int{start, new(big.Int).Add(start, off), new(big.Int).Add(start, new(big.Int).Sub(bs, big.NewInt(1)))} {
			o.Count("index-in")
			o.Emit(fmt.Sprintf("index %d %s", r.Fam, a.Text(16)), idxObs(s, r.Fam, a))
		}
		// sub-ranges of the block: the block itself, a random deeper prefix
		subs := []canon.Cidr{canon.Mk(r.Fam, start, n)}
		if n < w {
			l := n + 1 + rng.Intn(w-n)
			subs = append(subs, canon.Mk(r.Fam, new(big.Int).Add(start, off), l))
			subs = append(subs, canon.Mk(r.Fam, new(big.Int).Add(start, off), w))
		}
		// runs of blocks: prefixes between c and n containing this block
		if n > r.Len {
			l := r.Len + rng.Intn(n-r.Len+1)
			subs = append(subs, canon.Mk(r.Fam, start, l))
		}
		for _, c := range subs {
			o.Count("be-in")
			o.Emit("be "+c.Tok(), beObs(s, c))
		}
	}
	// super-ranges
	for l := r.Len; l >= 0 && l >= r.Len-3; l-- {
		c := canon.Mk(r.Fam, r.Addr, l)
		o.Count("be-super")
		o.Emit("be "+c.Tok(), beObs(s, c))
	}
	// outside: neighbours of the range and random far addresses (same family), other family
	if r.Len > 0 {
		rs := pow2(w - r.Len)
		var outs []*big.Int
		below := new(big.Int).Sub(r.Addr, big.NewInt(1))
		above := new(big.Int).Add(r.Addr, rs)
		if below.Sign() >= 0 {
			outs = append(outs, below, new(big.Int).Sub(r.Addr, rs))
		}
		if above.Cmp(pow2(w)) < 0 {
			outs = append(outs, above)
		}
		for j := 0; j < 4; j++ {
			x := randBits(rng, w)
			// flip one bit inside the range prefix so that it is outside
			bit := w - 1 - rng.Intn(r.Len)
			y := new(big.Int).Set(r.Addr)
			lowmask := new(big.Int).Sub(pow2(w-r.Len), big.NewInt(1))
			y.Or(y, new(big.Int).And(x, lowmask))
			y.SetBit(y, bit, y.Bit(bit)^1)
			outs = append(outs, y)
		}
		for _, a := range outs {
			if a.Sign() < 0 || a.Cmp(pow2(w)) >= 0 {
				continue
			}
			o.Count("index-out")
			o.Emit(fmt.Sprintf("index %d %s", r.Fam, a.Text(16)), idxObs(s, r.Fam, a))
			l := r.Len + rng.Intn(w-r.Len+1)
			c := canon.Mk(r.Fam, a, l)
			// only if really disjoint from the range after masking
			o.Count("be-out")
			o.Emit("be "+c.Tok(), beObs(s, c))
		}
	}
	other := canon.Mk(10-r.Fam, randBits(rng, 160-w), rng.Intn(161-w))
	o.Count("be-otherfam")
	o.Emit("be "+other.Tok(), beObs(s, other))
}

func idxObs(s *cidrset.MultiCIDRSet, fam int, a *big.Int) string {
	w := 4
	if fam == 6 {
		w = 16
	}
	b := make([]byte, w)
	a.FillBytes(b)
	i, err := s.VerifIndexForIP(net.IP(b))
	if err != nil {
		return "idx err"
	}
	return fmt.Sprintf("idx %d", i)
}

func beObs(s *cidrset.MultiCIDRSet, c canon.Cidr) (res string) {
	defer func() {
		if r := recover(); r != nil {
			res = "be panic"
		}
	}()
	b, e, err := s.VerifBeginEnd(c.IPNet())
	if err != nil {
		return "be err"
	}
	return fmt.Sprintf("be %d %d", b, e)
}

// newPool creates the real pool and emits the geo line.
func newPool(o *Out, r canon.Cidr, hb int) *cidrset.MultiCIDRSet {
	s, err := cidrset.NewMultiCIDRSet(r.IPNet(), hb)
	op := fmt.Sprintf("geo %s %d", r.Tok(), hb)
	if err != nil {
		o.Emit(op, "geo rej")
		return nil
	}
	o.Emit(op, fmt.Sprintf("geo ok max=%d n=%d", s.MaxCIDRs, s.NodeMaskSize))
	return s
}

// runGeo sweeps every supported geometry (C13).
func runGeo(o *Out, rng *rand.Rand, thorough bool) {
	geos := 0
	for _, fam := range []int{4, 6} {
		w := 32
		if fam == 6 {
			w = 128
		}
		for c := 0; c <= w; c++ {
			for hb := 0; hb <= w-c; hb++ {
				n := w - hb
				if fam == 6 && n-c > 16 {
					continue
				}
				if fam == 4 && c == 0 && hb == 0 {
					continue // the single 2^32-block geometry, excluded by the property
				}
				reps := 1
				if thorough {
					reps = 3
				}
				for rep := 0; rep < reps; rep++ {
					r := canon.Mk(fam, randBits(rng, w), c)
					s := newPool(o, r, hb)
					if s == nil {
						o.Count("geo-rejected-unexpectedly")
						continue
					}
					geos++
					o.Case(fmt.Sprintf("%d/%d/%d/%s", fam, c, hb, r.Addr.Text(16)), true)
					if geos%400 == 1 {
						o.Sample(fmt.Sprintf("geo %s hostBits=%d", r.Tok(), hb))
					}
					geoOps(o, rng, s, r, n, thorough)
				}
			}
		}
	}
	// rejected geometries: the model must reject exactly the same ones
	for _, fam := range []int{4, 6} {
		w := 32
		if fam == 6 {
			w = 128
		}
		for _, c := range []int{0, 1, w / 2, w - 17, w - 16, w - 1, w} {
			if c < 0 {
				continue
			}
			for _, hb := range []int{-5, -1, w - c + 1, w - c - 17, w - c - 16, w + 1, 1000, -1000} {
				r := canon.Mk(fam, randBits(rng, w), c)
				n := w - hb
				if fam == 4 && c == 0 && hb == 0 {
					continue
				}
				if hb >= 0 && n >= c && (fam == 4 || n-c <= 16) {
					continue // valid, covered above
				}
				o.Count("geo-invalid")
				newPool(o, r, hb)
			}
		}
	}
	o.Extra["geometries"] = geos
}
